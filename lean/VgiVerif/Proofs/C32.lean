import VgiVerif.Model.C32
import VgiVerif.Spec.C32
import VgiVerif.Lemmas.Sched
/-
C32 proofs.  Part 1: the idle dict operations (permutation / length / no-empty-deque facts).
-/
namespace VgiVerif.C32
open VgiVerif.Sched VgiVerif.Gen.Pool

namespace Aux

/-! ### the idle dict -/

/-- no key maps to an empty deque (`if not dq: del self._idle[key]`) -/
def NoEmpty (i : Idle) : Prop := ∀ kv ∈ i, kv.2 ≠ []

theorem noEmpty_nil : NoEmpty [] := by intro kv h; cases h

theorem noEmpty_cons {kv : Key × List Entry} {r : Idle} : NoEmpty (kv :: r) ↔ kv.2 ≠ [] ∧ NoEmpty r := by
  simp [NoEmpty]

theorem idleWs_cons (kv : Key × List Entry) (r : Idle) : idleWs (kv :: r) = kv.2.map (·.1) ++ idleWs r := rfl

theorem getLast?_eq_some {α} {l : List α} {e : α} (h : l.getLast? = some e) : l = l.dropLast ++ [e] := by
  induction l with
  | nil => simp at h
  | cons a r ih =>
    cases r with
    | nil => simp at h; simp [h]
    | cons b r' =>
      have : (b :: r').getLast? = some e := by simpa [List.getLast?_cons_cons] using h
      have := ih this
      simp only [List.dropLast_cons_cons, List.cons_append]
      rw [← this]

theorem popLifo_perm {k : Key} {i i' : Idle} {w : Wid} (h : popLifo k i = some (w, i')) :
    (idleWs i).Perm (w :: idleWs i') := by
  induction i generalizing i' with
  | nil => simp [popLifo] at h
  | cons kv r ih =>
    simp only [popLifo] at h
    split at h
    · split at h
      · cases h
      · rename_i e he
        cases h
        have hd := getLast?_eq_some he
        split
        · rename_i hnil
          rw [idleWs_cons]
          have : kv.2 = [e] := by rw [hd, hnil]; rfl
          rw [this]; simp
        · rw [idleWs_cons, idleWs_cons]
          conv => lhs; rw [hd]
          simp only [List.map_append, List.map_cons, List.map_nil, List.append_assoc, List.cons_append, List.nil_append]
          exact List.perm_middle
    · split at h
      · cases h
      · rename_i x hx
        cases h
        have := ih (i' := x.2) (by rw [hx])
        rw [idleWs_cons, idleWs_cons]
        exact (List.Perm.append_left _ this).trans List.perm_middle

theorem popLifo_noEmpty {k : Key} {i i' : Idle} {w : Wid} (h : popLifo k i = some (w, i')) (hn : NoEmpty i) :
    NoEmpty i' := by
  induction i generalizing i' with
  | nil => simp [popLifo] at h
  | cons kv r ih =>
    rw [noEmpty_cons] at hn
    simp only [popLifo] at h
    split at h
    · split at h
      · cases h
      · cases h
        split
        · exact hn.2
        · rename_i hne
          rw [noEmpty_cons]; exact ⟨hne, hn.2⟩
    · split at h
      · cases h
      · rename_i x hx
        cases h
        rw [noEmpty_cons]
        exact ⟨hn.1, ih (i' := x.2) (by rw [hx]) hn.2⟩

theorem popLeft_perm {k : Key} {i i' : Idle} {w : Wid} (h : popLeft k i = some (w, i')) :
    (idleWs i).Perm (w :: idleWs i') := by
  induction i generalizing i' with
  | nil => simp [popLeft] at h
  | cons kv r ih =>
    simp only [popLeft] at h
    split at h
    · split at h
      · cases h
      · rename_i e dq hd
        cases h
        split
        · rename_i hnil
          rw [idleWs_cons, hd, hnil]; simp
        · rw [idleWs_cons, idleWs_cons, hd]; simp
    · split at h
      · cases h
      · rename_i x hx
        cases h
        have := ih (i' := x.2) (by rw [hx])
        rw [idleWs_cons, idleWs_cons]
        exact (List.Perm.append_left _ this).trans List.perm_middle

theorem popLeft_noEmpty {k : Key} {i i' : Idle} {w : Wid} (h : popLeft k i = some (w, i')) (hn : NoEmpty i) :
    NoEmpty i' := by
  induction i generalizing i' with
  | nil => simp [popLeft] at h
  | cons kv r ih =>
    rw [noEmpty_cons] at hn
    simp only [popLeft] at h
    split at h
    · split at h
      · cases h
      · cases h
        split
        · exact hn.2
        · rename_i hne
          rw [noEmpty_cons]; exact ⟨hne, hn.2⟩
    · split at h
      · cases h
      · rename_i x hx
        cases h
        rw [noEmpty_cons]
        exact ⟨hn.1, ih (i' := x.2) (by rw [hx]) hn.2⟩

theorem popLeft_isSome {k : Key} {i : Idle} (hn : NoEmpty i) (hk : ∃ kv ∈ i, kv.1 = k) : (popLeft k i).isSome = true := by
  induction i with
  | nil => obtain ⟨kv, h, _⟩ := hk; cases h
  | cons kv r ih =>
    rw [noEmpty_cons] at hn
    simp only [popLeft]
    split
    · split
      · rename_i hd; exact absurd hd hn.1
      · rfl
    · rename_i hne
      obtain ⟨kv', hmem, hk'⟩ := hk
      have hr : ∃ kv ∈ r, kv.1 = k := by
        rcases List.mem_cons.1 hmem with h | h
        · subst h; exact absurd hk' hne
        · exact ⟨kv', h, hk'⟩
      have := ih hn.2 hr
      split
      · rename_i hx; rw [hx] at this; cases this
      · rfl

theorem oldestKey_mem {cmp : Cmp} {i : Idle} {best b : Option (Key × Int)} (h : oldestKey cmp i best = b) :
    b = best ∨ ∃ x, b = some x ∧ ∃ kv ∈ i, kv.1 = x.1 := by
  induction i generalizing best with
  | nil => simp only [oldestKey] at h; exact Or.inl h.symm
  | cons kv r ih =>
    simp only [oldestKey] at h
    have lift : ∀ {bb : Option (Key × Int)}, (b = bb ∨ ∃ x, b = some x ∧ ∃ kv' ∈ r, kv'.1 = x.1) →
        (bb = best ∨ ∃ e : Entry, bb = some (kv.1, e.2)) → b = best ∨ ∃ x, b = some x ∧ ∃ kv' ∈ kv :: r, kv'.1 = x.1 := by
      intro bb h1 h2
      rcases h1 with h1 | ⟨x, hx, kv', hm, hk⟩
      · rcases h2 with h2 | ⟨e, he⟩
        · exact Or.inl (h1.trans h2)
        · exact Or.inr ⟨(kv.1, e.2), h1.trans he, kv, List.mem_cons_self, rfl⟩
      · exact Or.inr ⟨x, hx, kv', List.mem_cons_of_mem _ hm, hk⟩
    split at h
    · exact lift (ih h) (Or.inl rfl)
    · rename_i e _
      split at h
      · split at h
        · exact lift (ih h) (Or.inr ⟨e, rfl⟩)
        · exact lift (ih h) (Or.inl rfl)
      · rename_i b0
        split at h
        · exact lift (ih h) (Or.inr ⟨e, rfl⟩)
        · exact lift (ih h) (Or.inl rfl)

theorem oldestKey_isSome_of_best {cmp : Cmp} {i : Idle} {best : Option (Key × Int)} (hb : best.isSome = true) :
    (oldestKey cmp i best).isSome = true := by
  induction i generalizing best with
  | nil => simpa [oldestKey] using hb
  | cons kv r ih =>
    simp only [oldestKey]
    split
    · exact ih hb
    · split
      · simp at hb
      · split
        · exact ih rfl
        · exact ih rfl

theorem oldestKey_isSome {cmp : Cmp} {i : Idle} (hc : cmpInf cmp = true) (hn : NoEmpty i) (hi : i ≠ []) (best : Option (Key × Int)) :
    (oldestKey cmp i best).isSome = true := by
  cases i with
  | nil => exact absurd rfl hi
  | cons kv r =>
    rw [noEmpty_cons] at hn
    simp only [oldestKey]
    split
    · rename_i hh
      have : kv.2 = [] := by cases hkv : kv.2 with
        | nil => rfl
        | cons a b => rw [hkv] at hh; simp at hh
      exact absurd this hn.1
    · split
      · rw [if_pos hc]; exact oldestKey_isSome_of_best rfl
      · split <;> exact oldestKey_isSome_of_best rfl

theorem evictOldest_isSome {cmp : Cmp} {i : Idle} (hc : cmpInf cmp = true) (hn : NoEmpty i) (hi : i ≠ []) :
    (evictOldest cmp i).isSome = true := by
  unfold evictOldest
  have h1 := oldestKey_isSome hc hn hi none
  cases hb : oldestKey cmp i none with
  | none => rw [hb] at h1; cases h1
  | some b =>
    simp only
    rcases oldestKey_mem hb with h | ⟨x, hx, hk⟩
    · cases h
    · cases hx; exact popLeft_isSome hn hk

theorem evictOldest_perm {cmp : Cmp} {i i' : Idle} {w : Wid} (h : evictOldest cmp i = some (w, i')) :
    (idleWs i).Perm (w :: idleWs i') := by
  unfold evictOldest at h
  split at h
  · cases h
  · exact popLeft_perm h

theorem evictOldest_noEmpty {cmp : Cmp} {i i' : Idle} {w : Wid} (h : evictOldest cmp i = some (w, i')) (hn : NoEmpty i) :
    NoEmpty i' := by
  unfold evictOldest at h
  split at h
  · cases h
  · exact popLeft_noEmpty h hn

theorem appendIdle_perm (k : Key) (e : Entry) (i : Idle) : (idleWs (appendIdle k e i)).Perm (e.1 :: idleWs i) := by
  induction i with
  | nil => simp [appendIdle, idleWs]
  | cons kv r ih =>
    simp only [appendIdle]
    split
    · rw [idleWs_cons, idleWs_cons]
      simp only [List.map_append, List.map_cons, List.map_nil, List.append_assoc, List.cons_append, List.nil_append]
      exact List.perm_middle
    · rw [idleWs_cons, idleWs_cons]
      exact (List.Perm.append_left _ ih).trans List.perm_middle

theorem appendIdle_noEmpty (k : Key) (e : Entry) {i : Idle} (hn : NoEmpty i) : NoEmpty (appendIdle k e i) := by
  induction i with
  | nil => simp [appendIdle, NoEmpty]
  | cons kv r ih =>
    rw [noEmpty_cons] at hn
    simp only [appendIdle]
    split
    · rw [noEmpty_cons]; exact ⟨by simp, hn.2⟩
    · rw [noEmpty_cons]; exact ⟨hn.1, ih hn.2⟩

theorem reapDq_split (c : Cfg) (now : Int) (dq : List Entry) : dq = (reapDq c now dq).1 ++ (reapDq c now dq).2 := by
  induction dq with
  | nil => rfl
  | cons e r ih =>
    simp only [reapDq]
    split
    · simp only [List.cons_append]; rw [← ih]
    · rfl

theorem reap_perm (c : Cfg) (now : Int) (i : Idle) : (idleWs i).Perm ((reap c now i).1 ++ idleWs (reap c now i).2) := by
  induction i with
  | nil => simp [reap, idleWs]
  | cons kv r ih =>
    simp only [reap]
    rw [idleWs_cons]
    conv => lhs; rw [reapDq_split c now kv.2]
    simp only [List.map_append, List.append_assoc]
    refine List.Perm.append_left _ ?_
    split
    · rename_i hnil
      rw [hnil]; simp only [List.map_nil, List.nil_append]; exact ih
    · rw [idleWs_cons]
      refine (List.Perm.append_left _ ih).trans ?_
      simp only [← List.append_assoc]
      exact List.Perm.append_right _ List.perm_append_comm

theorem reap_noEmpty (c : Cfg) (now : Int) (i : Idle) : NoEmpty (reap c now i).2 := by
  induction i with
  | nil => exact noEmpty_nil
  | cons kv r ih =>
    simp only [reap]
    split
    · exact ih
    · rename_i hne; rw [noEmpty_cons]; exact ⟨hne, ih⟩

/-- conservation law of the lock-protected tail of `_return_worker`: the returned worker and the old idle workers are
the evicted one (if any) and the new idle workers -/
theorem returnIdle_perm (c : Cfg) (k : Key) (w : Wid) (now : Int) (i : Idle) :
    (w :: idleWs i).Perm ((returnIdle c k w now i).1.toList ++ idleWs (returnIdle c k w now i).2) := by
  unfold returnIdle
  split
  · split
    · rename_i x hx
      have h1 := evictOldest_perm (i' := x.2) (w := x.1) (by rw [hx])
      have h2 := appendIdle_perm k (w, now) x.2
      simp only [Option.toList_some, List.singleton_append]
      exact ((List.Perm.cons w h1).trans (List.Perm.swap _ _ _)).trans (List.Perm.cons _ h2.symm)
    · simpa using (appendIdle_perm k (w, now) i).symm
  · simpa using (appendIdle_perm k (w, now) i).symm

theorem returnIdle_noEmpty (c : Cfg) (k : Key) (w : Wid) (now : Int) {i : Idle} (hn : NoEmpty i) :
    NoEmpty (returnIdle c k w now i).2 := by
  unfold returnIdle
  split
  · split
    · rename_i x hx
      exact appendIdle_noEmpty _ _ (evictOldest_noEmpty (i' := x.2) (w := x.1) (by rw [hx]) hn)
    · exact appendIdle_noEmpty _ _ hn
  · exact appendIdle_noEmpty _ _ hn

/-- the cap survives a return: at capacity the oldest is evicted first (needs `max_idle ≥ 1`: with nothing idle there
is nothing to evict — the `max_idle = 0` defect of the pinned tree) -/
theorem returnIdle_cap {c : Cfg} (hge : c.evictCmp = .ge) (hold : cmpInf c.olderCmp = true) (hpos : 1 ≤ c.maxIdle)
    (k : Key) (w : Wid) (now : Int) {i : Idle} (hn : NoEmpty i) (hcap : total i ≤ c.maxIdle) :
    total (returnIdle c k w now i).2 ≤ c.maxIdle := by
  have hp := (returnIdle_perm c k w now i).length_eq
  simp only [List.length_cons, List.length_append] at hp
  by_cases hfull : cmpInt c.evictCmp (total i) c.maxIdle = true
  · have hfull' : c.maxIdle ≤ total i := by
      rw [hge] at hfull; simp only [cmpInt, ge_iff_le, decide_eq_true_eq] at hfull; exact_mod_cast hfull
    have hne : i ≠ [] := by
      intro h0; rw [h0] at hfull'; simp [total, idleWs] at hfull'; omega
    have hs := evictOldest_isSome hold hn hne
    cases hx : evictOldest c.olderCmp i with
    | none => rw [hx] at hs; cases hs
    | some x =>
      have hr : returnIdle c k w now i = (some x.1, appendIdle k (w, now) x.2) := by
        unfold returnIdle; rw [if_pos hfull, hx]
      rw [hr] at hp ⊢
      simp only [Option.toList_some, List.length_cons, List.length_nil] at hp
      unfold total at *
      dsimp only at hp ⊢
      omega
  · have hlt : total i < c.maxIdle := by
      rw [hge] at hfull; simp only [cmpInt, ge_iff_le, decide_eq_true_eq] at hfull
      have : ¬ ((c.maxIdle : Int) ≤ ((total i : Nat) : Int)) := hfull
      omega
    have hr : returnIdle c k w now i = (none, appendIdle k (w, now) i) := by
      unfold returnIdle; rw [if_neg hfull]
    rw [hr] at hp ⊢
    simp only [Option.toList_none, List.length_nil] at hp
    unfold total at *
    dsimp only at hp ⊢
    omega

/-! ### connection bookkeeping -/

/-- the pool's stream flags are coherent and, unless the abandoned-stream rule fires, the connection is clean -/
def ConnOK (c : Cfg) (x : Conn) (sy : Bool) : Prop :=
  (x.opened = false → x.sess = .none ∧ x.leaked = false) ∧ (abandoned c x = false → sy = true)

theorem connOK_init (c : Cfg) : ConnOK c {} true := by
  constructor <;> intro _ <;> simp

/-- **the abandoned-stream rule is sound for every client operation** (repaired rule: `_drained` + leak tracking) -/
theorem connOK_use {c : Cfg} (hd : c.ruleDrained = true) (hl : c.trackLeak = true) (hi : c.trackInterrupt = true) {x x' : Conn} {sy : Bool} {op : UseOp}
    (h : ConnOK c x sy) (hu : useConn x op = some x') : ConnOK c x' (useSynced x sy op) := by
  obtain ⟨xo, xl, xs, xi⟩ := x
  unfold ConnOK at *
  cases op <;> cases xo <;> cases xl <;> cases xs <;> cases xi <;> simp [useConn, leakNow] at hu <;> (try subst hu) <;>
    cases sy <;> simp_all [abandoned, useSynced]

/-! ### ownership -/

/-- the worker a pc holds, as a list -/
def heldL (p : Pc) : List Wid := p.held.toList

theorem mem_heldL {p : Pc} {w : Wid} : w ∈ heldL p ↔ p.held = some w := by
  unfold heldL; cases p.held <;> simp [eq_comm]

/-- every worker is in at most one place: with one borrower thread or in the idle dict (once) -/
structure Own (idle : Idle) (n : Nat) (pc : Tid → Pc) : Prop where
  nodup : (idleWs idle).Nodup
  heldIdle : ∀ t w, (pc t).held = some w → w ∉ idleWs idle
  heldUniq : ∀ t t' w, (pc t).held = some w → (pc t').held = some w → t = t'
  idleFresh : ∀ w ∈ idleWs idle, w < n
  heldFresh : ∀ t w, (pc t).held = some w → w < n

theorem own_init : Own [] 0 (fun _ => Pc.idle) :=
  ⟨List.nodup_nil, (by intro t w h; cases h), (by intro t t' w h; cases h), (by intro w h; cases h),
   (by intro t w h; cases h)⟩

/-- **frame lemma**: thread `t` moves to `p'`, the idle dict becomes `idle'`, and the workers `t` held plus the idle
ones are conserved up to a list `gone` of workers that leave the books (closed / about to be closed) -/
theorem own_frame {idle idle' : Idle} {n n' : Nat} {pc : Tid → Pc} (t : Tid) (p' : Pc) (gone : List Wid)
    (h : Own idle n pc) (hn : n ≤ n')
    (hp : (heldL (pc t) ++ idleWs idle).Perm (heldL p' ++ (gone ++ idleWs idle'))) :
    Own idle' n' (upd pc t p') := by
  have hL : (heldL (pc t) ++ idleWs idle).Nodup := by
    rw [List.nodup_append]
    refine ⟨?_, h.nodup, ?_⟩
    · unfold heldL; cases (pc t).held <;> simp
    · intro a ha b hb hab
      subst hab
      exact h.heldIdle t a (mem_heldL.1 ha) hb
  have hR := hp.nodup_iff.1 hL
  have hsub : ∀ w, w ∈ heldL p' ++ (gone ++ idleWs idle') → w ∈ heldL (pc t) ++ idleWs idle := fun w hw => hp.mem_iff.2 hw
  have hLfresh : ∀ w, w ∈ heldL (pc t) ++ idleWs idle → w < n := by
    intro w hw
    rcases List.mem_append.1 hw with h1 | h1
    · exact h.heldFresh t w (mem_heldL.1 h1)
    · exact h.idleFresh w h1
  -- a worker held by another thread is not on the left-hand side
  have hother : ∀ t', t' ≠ t → ∀ w, (pc t').held = some w → w ∉ heldL (pc t) ++ idleWs idle := by
    intro t' hne w hw hmem
    rcases List.mem_append.1 hmem with h1 | h1
    · exact hne (h.heldUniq t' t w hw (mem_heldL.1 h1))
    · exact h.heldIdle t' w hw h1
  rw [List.nodup_append] at hR
  obtain ⟨_, hR2, hR3⟩ := hR
  rw [List.nodup_append] at hR2
  refine ⟨hR2.2.1, ?_, ?_, ?_, ?_⟩
  · intro t' w hw hmem
    by_cases ht : t' = t
    · subst ht
      rw [upd_same] at hw
      exact hR3 w (mem_heldL.2 hw) w (List.mem_append_right _ hmem) rfl
    · rw [upd_other _ _ ht] at hw
      exact hother t' ht w hw (hsub w (List.mem_append_right _ (List.mem_append_right _ hmem)))
  · intro t1 t2 w h1 h2
    by_cases e1 : t1 = t <;> by_cases e2 : t2 = t
    · rw [e1, e2]
    · subst e1
      rw [upd_same] at h1; rw [upd_other _ _ e2] at h2
      exact absurd (hsub w (List.mem_append_left _ (mem_heldL.2 h1))) (hother t2 e2 w h2)
    · subst e2
      rw [upd_same] at h2; rw [upd_other _ _ e1] at h1
      exact absurd (hsub w (List.mem_append_left _ (mem_heldL.2 h2))) (hother t1 e1 w h1)
    · rw [upd_other _ _ e1] at h1; rw [upd_other _ _ e2] at h2
      exact h.heldUniq t1 t2 w h1 h2
  · intro w hw
    exact Nat.lt_of_lt_of_le (hLfresh w (hsub w (List.mem_append_right _ (List.mem_append_right _ hw)))) hn
  · intro t' w hw
    by_cases ht : t' = t
    · subst ht
      rw [upd_same] at hw
      exact Nat.lt_of_lt_of_le (hLfresh w (hsub w (List.mem_append_left _ (mem_heldL.2 hw)))) hn
    · rw [upd_other _ _ ht] at hw
      exact Nat.lt_of_lt_of_le (h.heldFresh t' w hw) hn

/-- a pc move that neither takes nor drops a worker and leaves the dict alone -/
theorem own_move {idle : Idle} {n : Nat} {pc : Tid → Pc} (t : Tid) (p' : Pc) (h : Own idle n pc)
    (hh : p'.held = (pc t).held) : Own idle n (upd pc t p') :=
  own_frame t p' [] h (Nat.le_refl _) (by unfold heldL; rw [hh]; simp)

/-- the thread drops the worker it holds (hands it to `transport.close()`) -/
theorem own_drop {idle : Idle} {n : Nat} {pc : Tid → Pc} (t : Tid) (p' : Pc) (h : Own idle n pc)
    (hh : p'.held = none) : Own idle n (upd pc t p') :=
  own_frame t p' (heldL (pc t)) h (Nat.le_refl _) (by unfold heldL; rw [hh]; simp)

/-- spawn: a fresh worker id -/
theorem own_spawn {idle : Idle} {n : Nat} {pc : Tid → Pc} (t : Tid) (p' : Pc) (h : Own idle n pc)
    (h0 : (pc t).held = none) (hh : p'.held = some n) : Own idle (n + 1) (upd pc t p') := by
  refine ⟨h.nodup, ?_, ?_, ?_, ?_⟩
  · intro t' w hw hmem
    by_cases ht : t' = t
    · subst ht; rw [upd_same, hh] at hw; cases hw
      exact absurd (h.idleFresh _ hmem) (Nat.lt_irrefl _)
    · rw [upd_other _ _ ht] at hw; exact h.heldIdle t' w hw hmem
  · intro t1 t2 w h1 h2
    by_cases e1 : t1 = t <;> by_cases e2 : t2 = t
    · rw [e1, e2]
    · subst e1; rw [upd_same, hh] at h1; cases h1; rw [upd_other _ _ e2] at h2
      exact absurd (h.heldFresh t2 _ h2) (Nat.lt_irrefl _)
    · subst e2; rw [upd_same, hh] at h2; cases h2; rw [upd_other _ _ e1] at h1
      exact absurd (h.heldFresh t1 _ h1) (Nat.lt_irrefl _)
    · rw [upd_other _ _ e1] at h1; rw [upd_other _ _ e2] at h2; exact h.heldUniq t1 t2 w h1 h2
  · intro w hw; exact Nat.lt_succ_of_lt (h.idleFresh w hw)
  · intro t' w hw
    by_cases ht : t' = t
    · subst ht; rw [upd_same, hh] at hw; cases hw; exact Nat.lt_succ_self _
    · rw [upd_other _ _ ht] at hw; exact Nat.lt_succ_of_lt (h.heldFresh t' w hw)

/-! ### cleanliness -/

/-- what each program counter guarantees about the worker it holds -/
def PcOK (c : Cfg) (ws : Wid → WSt) : Pc → Prop
  | .bPoll _ w => (ws w).synced = true
  | .bHave w | .bNew w | .bNewL w | .bGot w => (ws w).synced = true ∧ (ws w).lastPoll = true
  | .using w x => ConnOK c x (ws w).synced
  | .rPoll w ab => ab = false → (ws w).synced = true
  | .rOk w | .rLock w | .rKeep w => (ws w).synced = true
  | _ => True

/-- `PcOK` only looks at `synced` / `lastPoll` of the held worker -/
theorem pcOK_congr {c : Cfg} {ws ws' : Wid → WSt} {p : Pc}
    (h : ∀ w, p.held = some w → (ws' w).synced = (ws w).synced ∧ (ws' w).lastPoll = (ws w).lastPoll)
    (hp : PcOK c ws p) : PcOK c ws' p := by
  cases p <;> simp only [PcOK, Pc.held] at * <;> first | trivial | (simp_all)

structure Clean (c : Cfg) (idle : Idle) (ws : Wid → WSt) (pc : Tid → Pc) : Prop where
  idleSynced : ∀ w ∈ idleWs idle, (ws w).synced = true
  pcOK : ∀ t, PcOK c ws (pc t)

theorem clean_init (c : Cfg) : Clean c [] (fun _ => {}) (fun _ => Pc.idle) :=
  ⟨(by intro w h; cases h), (by intro t; trivial)⟩

/-- **frame lemma** for cleanliness: thread `t` moves to `p'`; the worker states of the other holders and of the new
idle workers keep their `synced` / `lastPoll` -/
theorem clean_frame {c : Cfg} {idle idle' : Idle} {ws ws' : Wid → WSt} {pc : Tid → Pc} (t : Tid) (p' : Pc)
    (h : Clean c idle ws pc)
    (hidle : ∀ w ∈ idleWs idle', (ws' w).synced = true)
    (ht : PcOK c ws' p')
    (hoth : ∀ t', t' ≠ t → ∀ w, (pc t').held = some w →
      (ws' w).synced = (ws w).synced ∧ (ws' w).lastPoll = (ws w).lastPoll) :
    Clean c idle' ws' (upd pc t p') := by
  refine ⟨hidle, ?_⟩
  intro t'
  by_cases e : t' = t
  · subst e; rw [upd_same]; exact ht
  · rw [upd_other _ _ e]; exact pcOK_congr (hoth t' e) (h.pcOK t')

/-! ### the lock -/

/-- a thread is inside a critical section exactly when it owns the pool lock -/
def Mutex (lock : Lock) (pc : Tid → Pc) : Prop := ∀ t, (pc t).inCS = true ↔ lock.owner = some t

theorem mutex_init : Mutex {} (fun _ => Pc.idle) := by intro t; simp [Pc.inCS]

theorem mutex_move {lock : Lock} {pc : Tid → Pc} (t : Tid) (p' : Pc) (h : Mutex lock pc)
    (hh : p'.inCS = (pc t).inCS) : Mutex lock (upd pc t p') := by
  intro t'
  by_cases e : t' = t
  · subst e; rw [upd_same, hh]; exact h t'
  · rw [upd_other _ _ e]; exact h t'

theorem mutex_acq {lock l : Lock} {pc : Tid → Pc} (t : Tid) (p' : Pc) (h : Mutex lock pc)
    (ha : lock.acquire t = some l) (hh : p'.inCS = true) : Mutex l (upd pc t p') := by
  obtain ⟨hfree, rfl⟩ := Lock.acquire_eq_some.1 ha
  intro t'
  by_cases e : t' = t
  · subst e; rw [upd_same, hh]; simp
  · rw [upd_other _ _ e]
    have := h t'
    rw [hfree] at this
    simp only [reduceCtorEq, iff_false] at this
    constructor
    · intro h1; exact absurd h1 this
    · intro h1; simp only [Option.some.injEq] at h1; exact absurd h1.symm e

theorem mutex_rel {lock l : Lock} {pc : Tid → Pc} (t : Tid) (p' : Pc) (h : Mutex lock pc)
    (hr : lock.release t = some l) (hh : p'.inCS = false) : Mutex l (upd pc t p') := by
  obtain ⟨hown, rfl⟩ := Lock.release_eq_some.1 hr
  intro t'
  by_cases e : t' = t
  · subst e; rw [upd_same, hh]; simp
  · rw [upd_other _ _ e]
    have := h t'
    rw [hown] at this
    constructor
    · intro h1; have := this.1 h1; simp only [Option.some.injEq] at this; exact absurd this.symm e
    · intro h1; cases h1

/-- nobody is inside a critical section while the lock is free -/
theorem mutex_free {lock : Lock} {pc : Tid → Pc} (h : Mutex lock pc) (hf : lock.owner = none) (t : Tid) :
    (pc t).inCS = false := by
  have := h t
  rw [hf] at this
  cases hc : (pc t).inCS
  · rfl
  · exact absurd (this.1 hc) (by simp)

/-! ### the invariant -/

/-- what the theorems need from the extracted configuration (true of the repaired code: `good_ofGen`) -/
structure Good (c : Cfg) : Prop where
  evict : c.evictCmp = .ge
  older : cmpInf c.olderCmp = true
  zero : c.zeroDiscards = true
  drained : c.ruleDrained = true
  leak : c.trackLeak = true
  intr : c.trackInterrupt = true

structure Inv (c : Cfg) (s : St) : Prop where
  own : Own s.idle s.nextW s.pc
  noEmpty : NoEmpty s.idle
  clean : Clean c s.idle s.ws s.pc
  cap : total s.idle ≤ c.maxIdle
  mutex : Mutex s.lock s.pc
  sweptClosed : s.swept = true → s.closed = true
  sweptEmpty : s.swept = true → s.idle = []
  sweptKeep : s.swept = true → ∀ t w, s.pc t ≠ .rKeep w
  stopClosed : ∀ t, s.pc t = .cStop → s.closed = true

theorem inv_init (c : Cfg) : Inv c {} :=
  ⟨own_init, noEmpty_nil, clean_init c, Nat.zero_le _, mutex_init, (by intro h; cases h), (by intro h; cases h),
   (by intro h; cases h), (by intro t h; cases h)⟩

/-- **local step**: thread `t` moves to `p'` without touching the idle dict; it keeps or drops its worker; worker states
change (in `synced` / `lastPoll`) at most for the worker `t` holds -/
theorem inv_local {c : Cfg} {s : St} (h : Inv c s) (t : Tid) (p' : Pc) (l' : Lock) (ws' : Wid → WSt) (a' : Int) (cl' : Bool)
    (hheld : p'.held = (s.pc t).held ∨ p'.held = none)
    (hws : ∀ w, (s.pc t).held ≠ some w → (ws' w).synced = (s.ws w).synced ∧ (ws' w).lastPoll = (s.ws w).lastPoll)
    (hok : PcOK c ws' p')
    (hmx : Mutex l' (upd s.pc t p'))
    (hkeep : s.swept = true → ∀ w, p' ≠ .rKeep w)
    (hcl : s.closed = true → cl' = true) (hstop : p' = .cStop → cl' = true) :
    Inv c { s with lock := l', ws := ws', active := a', closed := cl', pc := upd s.pc t p' } := by
  refine ⟨?_, h.noEmpty, ?_, h.cap, hmx, fun hs => hcl (h.sweptClosed hs), h.sweptEmpty, ?_, ?_⟩
  · rcases hheld with hh | hh
    · exact own_move t p' h.own hh
    · exact own_drop t p' h.own hh
  · refine clean_frame t p' h.clean ?_ hok ?_
    · intro w hw
      rw [(hws w (fun hc => h.own.heldIdle t w hc hw)).1]
      exact h.clean.idleSynced w hw
    · intro t' hne w hw
      exact hws w (fun hc => hne (h.own.heldUniq t' t w hw hc))
  · intro hs t' w
    dsimp only at hs ⊢
    by_cases e : t' = t
    · subst e; rw [upd_same]; exact hkeep hs w
    · rw [upd_other _ _ e]; exact h.sweptKeep hs t' w
  · intro t' hp
    dsimp only at hp ⊢
    by_cases e : t' = t
    · subst e; rw [upd_same] at hp; exact hstop hp
    · rw [upd_other _ _ e] at hp; exact hcl (h.stopClosed t' hp)

/-- a pure program-counter move -/
theorem inv_move {c : Cfg} {s : St} (h : Inv c s) (t : Tid) (p' : Pc)
    (hheld : p'.held = (s.pc t).held ∨ p'.held = none) (hok : PcOK c s.ws p') (hcs : p'.inCS = (s.pc t).inCS)
    (hkeep : s.swept = true → ∀ w, p' ≠ .rKeep w) (hstop : p' ≠ .cStop) : Inv c (setPc s t p') :=
  inv_local h t p' s.lock s.ws s.active s.closed hheld (fun _ _ => ⟨rfl, rfl⟩) hok (mutex_move t p' h.mutex hcs) hkeep id
    (fun e => absurd e hstop)

/-- a move that takes the lock -/
theorem inv_move_acq {c : Cfg} {s : St} (h : Inv c s) (t : Tid) (p' : Pc) {l : Lock} (a' : Int)
    (hl : s.lock.acquire t = some l)
    (hheld : p'.held = (s.pc t).held ∨ p'.held = none) (hok : PcOK c s.ws p') (hcs : p'.inCS = true)
    (hkeep : s.swept = true → ∀ w, p' ≠ .rKeep w) :
    Inv c { s with lock := l, active := a', pc := upd s.pc t p' } :=
  inv_local h t p' l s.ws a' s.closed hheld (fun _ _ => ⟨rfl, rfl⟩) hok (mutex_acq t p' h.mutex hl hcs) hkeep id
    (fun e => by rw [e] at hcs; cases hcs)

/-- a move that releases the lock -/
theorem inv_move_rel {c : Cfg} {s : St} (h : Inv c s) (t : Tid) (p' : Pc) {l : Lock}
    (hl : s.lock.release t = some l)
    (hheld : p'.held = (s.pc t).held ∨ p'.held = none) (hok : PcOK c s.ws p') (hcs : p'.inCS = false)
    (hkeep : s.swept = true → ∀ w, p' ≠ .rKeep w) (hstop : p' ≠ .cStop) :
    Inv c { s with lock := l, pc := upd s.pc t p' } :=
  inv_local h t p' l s.ws s.active s.closed hheld (fun _ _ => ⟨rfl, rfl⟩) hok (mutex_rel t p' h.mutex hl hcs) hkeep id
    (fun e => absurd e hstop)

/-- `rel`: every release is a pure move out of a critical section -/
theorem inv_stepRel {c : Cfg} {s s' : St} {t : Tid} {l : Lock} (h : Inv c s) (hl : s.lock.release t = some l)
    (hst : stepRel c { s with lock := l } t = some s') : Inv c s' := by
  unfold stepRel at hst
  dsimp only at hst
  split at hst
  all_goals first | (cases hst; done) | skip
  · rename_i k hpc; cases hst
    exact inv_move_rel h t _ hl (Or.inr rfl) (by simp [PcOK]) rfl (by intros; simp) (by simp)
  · rename_i w hpc; cases hst
    refine inv_move_rel h t _ hl (Or.inl (by rw [hpc]; rfl)) ?_ rfl (by intros; simp) (by simp)
    have := h.clean.pcOK t; rw [hpc] at this; exact this
  · rename_i w hpc; cases hst
    refine inv_move_rel h t _ hl (Or.inl (by rw [hpc]; rfl)) ?_ rfl (by intros; simp) (by simp)
    have := h.clean.pcOK t; rw [hpc] at this; exact this
  · rename_i hpc; cases hst
    exact inv_move_rel h t _ hl (Or.inr rfl) (by simp [PcOK]) rfl (by intros; simp) (by simp)
  · rename_i w hpc; cases hst
    exact inv_move_rel h t _ hl (Or.inl (by rw [hpc]; rfl)) (by simp [PcOK]) rfl (by intros; simp) (by simp)
  · rename_i hpc; cases hst
    exact inv_move_rel h t _ hl (Or.inr rfl) (by simp [PcOK]) rfl (by intros; simp) (by simp)
  · rename_i w hpc
    split at hst
    · cases hst
      exact inv_move_rel h t _ hl (Or.inr rfl) (by simp [PcOK]) rfl (by intros; simp) (by simp)
    · cases hst
  · rename_i e hpc; cases hst
    exact inv_move_rel h t _ hl (Or.inr rfl) (by simp [PcOK]) rfl (by intros; simp) (by simp)
  · rename_i hpc; cases hst
    exact inv_move_rel h t _ hl (Or.inr rfl) (by simp [PcOK]) rfl (by intros; simp) (by simp)
  · rename_i hpc; cases hst
    exact inv_move_rel h t _ hl (Or.inr rfl) (by simp [PcOK]) rfl (by intros; simp) (by simp)
  · rename_i w ws hpc; cases hst
    exact inv_move_rel h t _ hl (Or.inr rfl) (by simp [PcOK]) rfl (by intros; simp) (by simp)
  · rename_i ws hpc; cases hst
    exact inv_move_rel h t _ hl (Or.inr rfl) (by simp [PcOK]) rfl (by intros; simp) (by simp)
  · rename_i n hpc; cases hst
    exact inv_move_rel h t _ hl (Or.inr rfl) (by simp [PcOK]) rfl (by intros; simp) (by simp)
  · rename_i hpc; cases hst
    exact inv_move_rel h t _ hl (Or.inr rfl) (by simp [PcOK]) rfl (by intros; simp) (by simp)

/-- `acq`: besides pure moves, the three lock-protected computations that read or change the idle dict at once -/
theorem inv_stepAcq {c : Cfg} {s s' : St} {t : Tid} {l : Lock} (h : Inv c s) (hl : s.lock.acquire t = some l)
    (hst : stepAcq c { s with lock := l } t = some s') : Inv c s' := by
  have hfree : s.lock.owner = none := (Lock.acquire_eq_some.1 hl).1
  unfold stepAcq at hst
  dsimp only at hst
  split at hst
  all_goals first | (cases hst; done) | skip
  · -- `_borrow`: pop LIFO or miss
    rename_i k hpc
    split at hst
    · rename_i x hx
      cases hst
      have hperm := popLifo_perm (i' := x.2) (w := x.1) (by rw [hx])
      have hmem : ∀ w, w ∈ idleWs x.2 → w ∈ idleWs s.idle := fun w hw => hperm.mem_iff.2 (List.mem_cons_of_mem _ hw)
      have hx1 : x.1 ∈ idleWs s.idle := hperm.mem_iff.2 List.mem_cons_self
      refine ⟨?_, popLifo_noEmpty (i' := x.2) (w := x.1) (by rw [hx]) h.noEmpty, ?_, ?_, mutex_acq t _ h.mutex hl rfl,
        h.sweptClosed, ?_, ?_, ?_⟩
      · refine own_frame t _ [] h.own (Nat.le_refl _) ?_
        rw [hpc]; simpa [heldL, Pc.held] using hperm
      · refine clean_frame t _ h.clean (fun w hw => h.clean.idleSynced w (hmem w hw)) ?_ (fun _ _ _ _ => ⟨rfl, rfl⟩)
        exact h.clean.idleSynced _ hx1
      · have := hperm.length_eq
        have hc := h.cap
        unfold total at *
        simp only [List.length_cons] at this
        dsimp only
        omega
      · intro hs
        have := h.sweptEmpty hs
        rw [this] at hx; simp [popLifo] at hx
      · intro hs t' w
        dsimp only
        by_cases e : t' = t
        · subst e; rw [upd_same]; simp
        · rw [upd_other _ _ e]; exact h.sweptKeep hs t' w
      · intro t' hp
        dsimp only at hp ⊢
        by_cases e : t' = t
        · subst e; rw [upd_same] at hp; cases hp
        · rw [upd_other _ _ e] at hp; exact h.stopClosed t' hp
    · cases hst
      exact inv_move_acq h t _ _ hl (Or.inr rfl) (by simp [PcOK]) rfl (by intros; simp)
  · rename_i w hpc; cases hst
    refine inv_move_acq h t _ _ hl (Or.inl (by rw [hpc]; rfl)) ?_ rfl (by intros; simp)
    have := h.clean.pcOK t; rw [hpc] at this; exact this
  · rename_i hpc; cases hst
    exact inv_move_acq h t _ _ hl (Or.inr rfl) (by simp [PcOK]) rfl (by intros; simp)
  · rename_i w hpc; cases hst
    exact inv_move_acq h t _ _ hl (Or.inl (by rw [hpc]; rfl)) (by simp [PcOK]) rfl (by intros; simp)
  · rename_i w hpc; cases hst
    refine inv_move_acq h t _ _ hl (Or.inl (by rw [hpc]; rfl)) ?_ rfl (by intros; simp)
    have := h.clean.pcOK t; rw [hpc] at this; exact this
  · -- `_reap_expired`
    rename_i now hpc; cases hst
    have hperm := reap_perm c now s.idle
    have hmem : ∀ w, w ∈ idleWs (reap c now s.idle).2 → w ∈ idleWs s.idle :=
      fun w hw => hperm.mem_iff.2 (List.mem_append_right _ hw)
    refine ⟨?_, reap_noEmpty c now s.idle, ?_, ?_, mutex_acq t _ h.mutex hl rfl, h.sweptClosed, ?_, ?_, ?_⟩
    · refine own_frame t _ (reap c now s.idle).1 h.own (Nat.le_refl _) ?_
      rw [hpc]; simpa [heldL, Pc.held] using hperm
    · exact clean_frame t _ h.clean (fun w hw => h.clean.idleSynced w (hmem w hw)) (by simp [PcOK])
        (fun _ _ _ _ => ⟨rfl, rfl⟩)
    · have := hperm.length_eq
      have hc := h.cap
      unfold total at *
      simp only [List.length_append] at this
      dsimp only
      omega
    · intro hs
      have := h.sweptEmpty hs
      dsimp only
      rw [this]; rfl
    · intro hs t' w
      dsimp only
      by_cases e : t' = t
      · subst e; rw [upd_same]; simp
      · rw [upd_other _ _ e]; exact h.sweptKeep hs t' w
    · intro t' hp
      dsimp only at hp ⊢
      by_cases e : t' = t
      · subst e; rw [upd_same] at hp; cases hp
      · rw [upd_other _ _ e] at hp; exact h.stopClosed t' hp
  · -- `close`: take everything
    rename_i hpc; cases hst
    refine ⟨?_, noEmpty_nil, ?_, Nat.zero_le _, mutex_acq t _ h.mutex hl rfl, fun _ => h.stopClosed t hpc, fun _ => rfl, ?_, ?_⟩
    · refine own_frame t _ (idleWs s.idle) h.own (Nat.le_refl _) ?_
      rw [hpc]; simp [heldL, Pc.held, idleWs]
    · exact clean_frame t _ h.clean (by intro w hw; cases hw) (by simp [PcOK]) (fun _ _ _ _ => ⟨rfl, rfl⟩)
    · intro _ t' w
      dsimp only
      by_cases e : t' = t
      · subst e; rw [upd_same]; simp
      · rw [upd_other _ _ e]
        intro hk
        have := mutex_free h.mutex hfree t'
        rw [hk] at this; cases this
    · intro t' hp
      dsimp only at hp ⊢
      by_cases e : t' = t
      · subst e; rw [upd_same] at hp; cases hp
      · rw [upd_other _ _ e] at hp; exact h.stopClosed t' hp
  · rename_i hpc; cases hst
    exact inv_move_acq h t _ _ hl (Or.inr rfl) (by simp [PcOK]) rfl (by intros; simp)

/-- a step that only changes `alive` flags -/
theorem inv_alive {c : Cfg} {s : St} (h : Inv c s) (ws' : Wid → WSt)
    (hws : ∀ w, (ws' w).synced = (s.ws w).synced ∧ (ws' w).lastPoll = (s.ws w).lastPoll) :
    Inv c { s with ws := ws' } := by
  refine ⟨h.own, h.noEmpty, ⟨?_, ?_⟩, h.cap, h.mutex, h.sweptClosed, h.sweptEmpty, h.sweptKeep, h.stopClosed⟩
  · intro w hw; dsimp only; rw [(hws w).1]; exact h.clean.idleSynced w hw
  · intro t; exact pcOK_congr (fun w _ => hws w) (h.clean.pcOK t)

theorem inv_stepPoll {c : Cfg} {s s' : St} {t : Tid} {w : Wid} {r : Bool} (h : Inv c s)
    (hst : stepPoll (setW s w { s.ws w with lastPoll := r }) t w r = some s') : Inv c s' := by
  unfold stepPoll setW at hst
  dsimp only at hst
  split at hst
  all_goals first | (cases hst; done) | skip
  · rename_i k w' hpc
    split at hst
    · rename_i hw; subst hw; cases hst
      have hok := h.clean.pcOK t; rw [hpc] at hok
      refine inv_local h t _ s.lock _ s.active s.closed (Or.inl ?_) ?_ ?_ (mutex_move t _ h.mutex ?_) (by intros; split <;> simp) id
        (by intro e; split at e <;> cases e)
      · rw [hpc]; cases r <;> rfl
      · intro w hw; rw [hpc] at hw
        have : w ≠ w' := fun e => hw (by rw [e]; rfl)
        simp [upd, this]
      · cases r
        · simp [PcOK]
        · simp only [if_true, PcOK, upd_same]; exact ⟨hok, trivial⟩
      · rw [hpc]; cases r <;> rfl
    · cases hst
  · rename_i w' ab hpc
    split at hst
    · rename_i hw; subst hw; cases hst
      have hok := h.clean.pcOK t; rw [hpc] at hok
      refine inv_local h t _ s.lock _ s.active s.closed (Or.inl ?_) ?_ ?_ (mutex_move t _ h.mutex ?_) (by intros; split <;> simp) id
        (by intro e; split at e <;> cases e)
      · rw [hpc]; split <;> rfl
      · intro w hw; rw [hpc] at hw
        have : w ≠ w' := fun e => hw (by rw [e]; rfl)
        simp [upd, this]
      · split
        · simp [PcOK]
        · rename_i hcond
          simp only [PcOK, upd_same]
          simp only [Bool.or_eq_true, Bool.not_eq_true', not_or, Bool.not_eq_false, Bool.not_eq_true] at hcond
          exact hok hcond.2
      · rw [hpc]; split <;> rfl
    · cases hst

theorem inv_stepTclose {c : Cfg} {s s' : St} {t : Tid} {w : Wid} (h : Inv c s)
    (hst : stepTclose (setW s w { s.ws w with alive := false }) t w = some s') : Inv c s' := by
  have h1 : Inv c (setW s w { s.ws w with alive := false }) := by
    refine inv_alive h _ ?_
    intro w'; by_cases e : w' = w
    · subst e; simp [upd]
    · simp [upd, e]
  generalize setW s w { s.ws w with alive := false } = s1 at h1 hst
  unfold stepTclose at hst
  split at hst
  all_goals first | (cases hst; done) | skip
  all_goals (
    rename_i hpc
    split at hst
    · cases hst
      first
        | exact inv_move h1 t _ (Or.inr rfl) (by simp [PcOK]) (by rw [hpc]; rfl) (by intros; simp) (by simp)
        | exact inv_move h1 t _ (Or.inr (by split <;> rfl)) (by split <;> simp [PcOK]) (by rw [hpc]; split <;> rfl)
            (by intros; split <;> simp) (by split <;> simp)
    · cases hst)

/-- **the invariant is inductive** -/
theorem inv_step {c : Cfg} (hg : Good c) {s s' : St} {l : Label} (h : Inv c s) (hst : step c s l = some s') : Inv c s' := by
  cases l with
  | tick d =>
    simp only [step] at hst
    split at hst
    · cases hst
    · cases hst
      exact ⟨h.own, h.noEmpty, h.clean, h.cap, h.mutex, h.sweptClosed, h.sweptEmpty, h.sweptKeep, h.stopClosed⟩
  | die w =>
    simp only [step] at hst
    split at hst
    · cases hst
      refine inv_alive h _ ?_
      intro w'; by_cases e : w' = w
      · subst e; simp [upd]
      · simp [upd, e]
    · cases hst
  | acq t =>
    simp only [step] at hst
    split at hst
    · cases hst
    · rename_i l hl; exact inv_stepAcq h hl hst
  | rel t =>
    simp only [step] at hst
    split at hst
    · cases hst
    · rename_i l hl; exact inv_stepRel h hl hst
  | rdClosed t v =>
    simp only [step] at hst
    split at hst
    · rename_i hv
      split at hst
      all_goals first | (cases hst; done) | skip
      · rename_i k hpc; cases hst
        exact inv_move h t _ (Or.inr (by split <;> rfl)) (by split <;> simp [PcOK]) (by rw [hpc]; split <;> rfl)
          (by intros; split <;> simp) (by split <;> simp)
      · rename_i w hpc; cases hst
        have hok := h.clean.pcOK t; rw [hpc] at hok
        refine inv_move h t _ (Or.inl (by rw [hpc]; split <;> rfl)) ?_ (by rw [hpc]; split <;> rfl) ?_ (by split <;> simp)
        · split
          · simp [PcOK]
          · exact hok
        · intro hs w'
          have := h.sweptClosed hs
          rw [← hv] at this; rw [this]; simp
      · rename_i hpc; cases hst
        exact inv_move h t _ (Or.inr (by split <;> rfl)) (by split <;> simp [PcOK]) (by rw [hpc]; split <;> rfl)
          (by intros; split <;> simp) (by split <;> simp)
    · cases hst
  | wrClosed t =>
    simp only [step] at hst
    split at hst
    · rename_i hpc; cases hst
      exact inv_local h t _ s.lock s.ws s.active true (Or.inr rfl) (fun _ _ => ⟨rfl, rfl⟩) (by simp [PcOK])
        (mutex_move t _ h.mutex (by rw [hpc]; rfl)) (by intros; simp) (fun _ => rfl) (fun _ => rfl)
    · cases hst
  | clock t v =>
    simp only [step] at hst
    split at hst
    · rename_i hv
      split at hst
      all_goals first | (cases hst; done) | skip
      · rename_i hpc; cases hst
        exact inv_move h t _ (Or.inr rfl) (by simp [PcOK]) (by rw [hpc]; rfl) (by intros; simp) (by simp)
      · -- `_return_worker`: evict if at capacity, append
        rename_i w hpc
        split at hst
        · cases hst
        · rename_i hz
          cases hst
          have hpos : 1 ≤ c.maxIdle := by
            rw [hg.zero] at hz
            simp only [Bool.true_and, beq_iff_eq] at hz
            omega
          have hok := h.clean.pcOK t; rw [hpc] at hok
          have hperm := returnIdle_perm c (s.ws w).key w v s.idle
          have hnsw : s.swept = false := by
            cases hs : s.swept
            · rfl
            · exact absurd hpc (h.sweptKeep hs t w)
          refine ⟨?_, returnIdle_noEmpty c _ w v h.noEmpty, ?_, returnIdle_cap hg.evict hg.older hpos _ w v h.noEmpty h.cap,
            mutex_move t _ h.mutex (by rw [hpc]; rfl), h.sweptClosed, ?_, ?_, ?_⟩
          · refine own_frame t _ (returnIdle c (s.ws w).key w v s.idle).1.toList h.own (Nat.le_refl _) ?_
            rw [hpc]; simpa [heldL, Pc.held] using hperm
          · refine clean_frame t _ h.clean ?_ (by simp [PcOK]) (fun _ _ _ _ => ⟨rfl, rfl⟩)
            intro w' hw'
            have := hperm.mem_iff.2 (List.mem_append_right _ hw')
            rcases List.mem_cons.1 this with e | e
            · rw [e]; exact hok
            · exact h.clean.idleSynced w' e
          · intro hs; rw [hnsw] at hs; cases hs
          · intro hs; rw [hnsw] at hs; cases hs
          · intro t' hp
            dsimp only at hp ⊢
            by_cases e : t' = t
            · subst e; rw [upd_same] at hp; cases hp
            · rw [upd_other _ _ e] at hp; exact h.stopClosed t' hp
    · cases hst
  | spawn t w k =>
    simp only [step] at hst
    split at hst
    · rename_i k' hpc
      split at hst
      · rename_i hkw
        obtain ⟨_, rfl⟩ := hkw
        cases hst
        have hfresh : ∀ w, (w ∈ idleWs s.idle ∨ ∃ t', (s.pc t').held = some w) → w ≠ s.nextW := by
          intro w hw e
          rcases hw with hw | ⟨t', hw⟩
          · exact absurd (h.own.idleFresh w hw) (by rw [e]; exact Nat.lt_irrefl _)
          · exact absurd (h.own.heldFresh t' w hw) (by rw [e]; exact Nat.lt_irrefl _)
        refine ⟨own_spawn t _ h.own (by rw [hpc]; rfl) rfl, h.noEmpty, ?_, h.cap, mutex_move t _ h.mutex (by rw [hpc]; rfl),
          h.sweptClosed, h.sweptEmpty, ?_, ?_⟩
        · refine clean_frame t _ h.clean ?_ (by simp [PcOK]) ?_
          · intro w hw
            have := hfresh w (Or.inl hw)
            simp only [upd, this, if_false]
            exact h.clean.idleSynced w hw
          · intro t' _ w hw
            have := hfresh w (Or.inr ⟨t', hw⟩)
            simp [upd, this]
        · intro hs t' w
          dsimp only
          by_cases e : t' = t
          · subst e; rw [upd_same]; simp
          · rw [upd_other _ _ e]; exact h.sweptKeep hs t' w
        · intro t' hp
          dsimp only at hp ⊢
          by_cases e : t' = t
          · subst e; rw [upd_same] at hp; cases hp
          · rw [upd_other _ _ e] at hp; exact h.stopClosed t' hp
      · cases hst
    · cases hst
  | spawnFail t =>
    simp only [step] at hst
    split at hst
    · rename_i hpc; cases hst
      exact inv_move h t _ (Or.inr rfl) (by simp [PcOK]) (by rw [hpc]; rfl) (by intros; simp) (by simp)
    · cases hst
  | poll t w r =>
    simp only [step] at hst
    split at hst
    · exact inv_stepPoll h hst
    · cases hst
  | tclose t w =>
    simp only [step] at hst
    exact inv_stepTclose h hst
  | connect t k =>
    simp only [step] at hst
    split at hst
    · rename_i hpc; cases hst
      exact inv_move h t _ (Or.inr rfl) (by simp [PcOK]) (by rw [hpc]; rfl) (by intros; simp) (by simp)
    · cases hst
  | refused t =>
    simp only [step] at hst
    split at hst
    · rename_i hpc; cases hst
      exact inv_move h t _ (Or.inr rfl) (by simp [PcOK]) (by rw [hpc]; rfl) (by intros; simp) (by simp)
    · cases hst
  | raised t =>
    simp only [step] at hst
    split at hst
    · rename_i hpc; cases hst
      exact inv_move h t _ (Or.inr rfl) (by simp [PcOK]) (by rw [hpc]; rfl) (by intros; simp) (by simp)
    · cases hst
  | got t w =>
    simp only [step] at hst
    split at hst
    · rename_i w' hpc
      split at hst
      · rename_i hw; subst hw; cases hst
        have hok := h.clean.pcOK t; rw [hpc] at hok
        refine inv_move h t _ (Or.inl (by rw [hpc]; rfl)) ?_ (by rw [hpc]; rfl) (by intros; simp) (by simp)
        simp only [PcOK]; rw [hok.1]; exact connOK_init c
      · cases hst
    · cases hst
  | use t op after =>
    simp only [step] at hst
    split at hst
    · rename_i w x hpc
      split at hst
      · rename_i x' hx
        split at hst
        · cases hst
          have hok := h.clean.pcOK t; rw [hpc] at hok
          refine inv_local h t _ s.lock _ s.active s.closed (Or.inl (by rw [hpc]; rfl)) ?_ ?_
            (mutex_move t _ h.mutex (by rw [hpc]; rfl)) (by intros; simp) id (by intro e; cases e)
          · intro w' hw'; rw [hpc] at hw'
            have : w' ≠ w := fun e => hw' (by rw [e]; rfl)
            simp [upd, this]
          · simp only [PcOK, upd_same]
            exact connOK_use hg.drained hg.leak hg.intr hok hx
        · cases hst
      · cases hst
    · cases hst
  | ret t w ab sy =>
    simp only [step] at hst
    split at hst
    · rename_i w' x hpc
      split at hst
      · rename_i hcond
        obtain ⟨hw, hab, _⟩ := hcond
        subst hw; cases hst
        have hok := h.clean.pcOK t; rw [hpc] at hok
        refine inv_move h t _ (Or.inl (by rw [hpc]; rfl)) ?_ (by rw [hpc]; rfl) (by intros; simp) (by simp)
        simp only [PcOK]
        intro hf; rw [hf] at hab; exact hok.2 hab.symm
      · cases hst
    · cases hst
  | done t =>
    simp only [step] at hst
    split at hst
    · rename_i hpc; cases hst
      exact inv_move h t _ (Or.inr rfl) (by simp [PcOK]) (by rw [hpc]; rfl) (by intros; simp) (by simp)
    · rename_i hpc; cases hst
      exact inv_move h t _ (Or.inr rfl) (by simp [PcOK]) (by rw [hpc]; rfl) (by intros; simp) (by simp)
    · cases hst
  | intr t =>
    simp only [step] at hst
    split at hst
    · cases hst
      refine inv_move h t _ (Or.inr (by split <;> rfl)) (by split <;> simp [PcOK]) ?_ (by intros; split <;> simp)
        (by split <;> simp)
      split
      · rename_i hc; rw [hc]; rfl
      · rename_i hc; simp only [Bool.not_eq_true] at hc; rw [hc]; rfl
    · cases hst
  | closeCall t =>
    simp only [step] at hst
    split at hst
    · rename_i hpc; cases hst
      exact inv_move h t _ (Or.inr rfl) (by simp [PcOK]) (by rw [hpc]; rfl) (by intros; simp) (by simp)
    · cases hst
  | closeDone t =>
    simp only [step] at hst
    split at hst
    · rename_i hpc; cases hst
      exact inv_move h t _ (Or.inr rfl) (by simp [PcOK]) (by rw [hpc]; rfl) (by intros; simp) (by simp)
    · rename_i hpc; cases hst
      exact inv_move h t _ (Or.inr rfl) (by simp [PcOK]) (by rw [hpc]; rfl) (by intros; simp) (by simp)
    · cases hst
  | obsCall t =>
    simp only [step] at hst
    split at hst
    · rename_i hpc; cases hst
      exact inv_move h t _ (Or.inr rfl) (by simp [PcOK]) (by rw [hpc]; rfl) (by intros; simp) (by simp)
    · cases hst
  | obsVal t n =>
    simp only [step] at hst
    split at hst
    · rename_i n' hpc
      split at hst
      · cases hst
        exact inv_move h t _ (Or.inr rfl) (by simp [PcOK]) (by rw [hpc]; rfl) (by intros; simp) (by simp)
      · cases hst
    · cases hst

theorem good_ofGen (m : Nat) (to : Int) : Good (Cfg.ofGen m to) := ⟨rfl, rfl, rfl, rfl, rfl, rfl⟩

theorem inv_reachable {m : Nat} {to : Int} {s : St} (h : (ts (Cfg.ofGen m to)).Reachable s) : Inv (Cfg.ofGen m to) s :=
  TS.invariant_of_step (ts (Cfg.ofGen m to)) (Inv (Cfg.ofGen m to)) (inv_init _)
    (fun _ _ _ hi hs => inv_step (good_ofGen m to) hi hs) s h

end Aux

open Aux

/-- the instant `s` as the property sees it: the borrowers are the threads, a thread holds the worker its program
counter carries (from the moment it leaves the idle dict or is spawned until it is put back or closed) -/
def view (c : Cfg) (s : St) : Spec.View :=
  { holder := fun t w => (s.pc t).held = some w, idle := idleWs s.idle, maxIdle := c.maxIdle }

/-! ### the obligations -/

/-- the structural facts about the source that the model relies on, as extracted on this run: LIFO pop / right append /
left eviction with a strict comparison / `>=` capacity and expiry tests, the `max_idle == 0` branch, the abandoned-stream
rule over `_drained` with leak and interrupt tracking, every `_idle` access under the lock, the health check before the hand-out, the
unlocked `_closed` write before `close()` takes the lock, and the client-side bookkeeping -/
theorem C32_shape :
    Gen.Pool.shapeBorrow = true ∧ Gen.Pool.shapeReturn = true ∧ Gen.Pool.shapeEvict = true ∧ Gen.Pool.shapeReap = true ∧
    Gen.Pool.shapeClose = true ∧ Gen.Pool.shapeLocking = true ∧ Gen.Pool.shapePooled = true ∧ Gen.Pool.shapeClient = true ∧
    Gen.Pool.evictCmp = .ge ∧ Gen.Pool.reapCmp = .ge ∧ Gen.Pool.olderCmp = .lt ∧ Gen.Pool.zeroDiscards = true ∧
    Gen.Pool.ruleDrained = true ∧ Gen.Pool.trackLeak = true ∧ Gen.Pool.trackInterrupt = true := by decide

/-- the pool lock is a mutex in the model: a thread is inside one of the lock-protected sections exactly when it owns the
lock, so two threads are never inside at once (this is what lets each section's computation be one step) -/
theorem C32_mutex (m : Nat) (to : Int) (s : St) (h : (ts (Cfg.ofGen m to)).Reachable s) :
    (∀ t, (s.pc t).inCS = true ↔ s.lock.owner = some t) ∧
    (∀ t t', (s.pc t).inCS = true → (s.pc t').inCS = true → t = t') := by
  have hi := (inv_reachable h).mutex
  refine ⟨hi, fun t t' h1 h2 => ?_⟩
  have a := (hi t).1 h1
  have b := (hi t').1 h2
  rw [a] at b; exact Option.some.inj b

/-- **exclusive ownership**: in every reachable state, for any number of threads, a worker has at most one holder, an idle
worker has none, and no worker is stored twice -/
theorem C32_exclusive (m : Nat) (to : Int) (s : St) (h : (ts (Cfg.ofGen m to)).Reachable s) :
    Spec.Exclusive (view (Cfg.ofGen m to) s) := by
  have hi := (inv_reachable h).own
  exact ⟨fun b b' w h1 h2 => hi.heldUniq b b' w h1 h2, fun w hw b hb => hi.heldIdle b w hb hw, hi.nodup⟩

/-- **idle cap**: in every reachable state the idle dict holds at most `max_idle` workers — `max_idle = 0` included -/
theorem C32_idle_cap (m : Nat) (to : Int) (s : St) (h : (ts (Cfg.ofGen m to)).Reachable s) :
    Spec.IdleCap (view (Cfg.ofGen m to) s) := (inv_reachable h).cap

/-- **clean reuse** (state form): a worker about to be received by a borrower was found alive by the last poll (or is
fresh) and its connection is at a message boundary -/
theorem C32_clean (m : Nat) (to : Int) (s : St) (h : (ts (Cfg.ofGen m to)).Reachable s) (t : Tid) (w : Wid)
    (hpc : s.pc t = .bGot w) : Spec.Clean ⟨(s.ws w).lastPoll, (s.ws w).synced⟩ := by
  have := (inv_reachable h).clean.pcOK t
  rw [hpc] at this
  exact ⟨this.2, this.1⟩

/-- **clean reuse** (event form): every hand-over event `got t w` of a run happens in such a state -/
theorem C32_clean_step (m : Nat) (to : Int) (s s' : St) (h : (ts (Cfg.ofGen m to)).Reachable s) (t : Tid) (w : Wid)
    (hst : (ts (Cfg.ofGen m to)).step s (.got t w) = some s') : Spec.Clean ⟨(s.ws w).lastPoll, (s.ws w).synced⟩ := by
  simp only [ts, step] at hst
  split at hst
  · rename_i w' hpc
    split at hst
    · rename_i hw; subst hw
      exact C32_clean m to s h t w' hpc
    · cases hst
  · cases hst

/-- every idle worker's connection is at a message boundary (what `_return_worker` lets in is clean, and nobody touches an
idle worker) -/
theorem C32_idle_clean (m : Nat) (to : Int) (s : St) (h : (ts (Cfg.ofGen m to)).Reachable s) (w : Wid)
    (hw : w ∈ idleWs s.idle) : (s.ws w).synced = true := (inv_reachable h).clean.idleSynced w hw

/-- once `close()` has emptied the idle dict it stays empty: a return that comes later sees `_closed` under the lock -/
theorem C32_closed_empty (m : Nat) (to : Int) (s : St) (h : (ts (Cfg.ofGen m to)).Reachable s) (hs : s.swept = true) :
    s.idle = [] ∧ s.closed = true := ⟨(inv_reachable h).sweptEmpty hs, (inv_reachable h).sweptClosed hs⟩

/-- what the harness relies on: a trace the model accepts ends in a reachable state, hence in one where all of the above
hold -/
theorem C32_accepts_sound (m : Nat) (to : Int) (ls : List Label) (h : (ts (Cfg.ofGen m to)).accepts ls = true) :
    ∃ s, (ts (Cfg.ofGen m to)).run ls = some s ∧ Spec.Exclusive (view (Cfg.ofGen m to) s) ∧
      Spec.IdleCap (view (Cfg.ofGen m to) s) ∧ (∀ w ∈ idleWs s.idle, (s.ws w).synced = true) := by
  obtain ⟨s, hs⟩ := (TS.accepts_iff _ ls).1 h
  have hr := TS.reachable_of_run _ hs
  exact ⟨s, hs, C32_exclusive m to s hr, C32_idle_cap m to s hr, fun w hw => C32_idle_clean m to s hr w hw⟩

/-- the thread a label belongs to -/
def Label.tid : Label → Option Tid
  | .tick _ | .die _ => none
  | .acq t | .rel t | .rdClosed t _ | .wrClosed t | .clock t _ | .spawn t _ _ | .spawnFail t | .poll t _ _ | .tclose t _
  | .connect t _ | .refused t | .raised t | .got t _ | .use t _ _ | .ret t _ _ _ | .done t | .intr t | .closeCall t | .closeDone t
  | .obsCall t | .obsVal t _ => some t

/-- a step only moves the program counter of the label's own thread -/
theorem step_pc_other {c : Cfg} {s s' : St} {l : Label} (h : step c s l = some s') (t : Tid) (ht : l.tid ≠ some t) :
    s'.pc t = s.pc t := by
  cases l <;> simp only [Label.tid, ne_eq, Option.some.injEq, not_false_eq_true, reduceCtorEq] at ht <;>
    simp only [step, stepAcq, stepRel, stepPoll, stepTclose, setPc, setW] at h <;>
    (repeat' (split at h)) <;>
    first
      | (cases h; done)
      | (cases h; rfl)
      | (cases h; exact upd_other _ _ (fun e => ht e.symm))

/-- **every hand-over is vouched for in the same borrow** (shape of the transition relation, any configuration): a thread
reaches the hand-over point `bGot w` only by releasing the lock after a health check of `w` by that same thread that found
it alive (`poll t w true`), or after spawning `w` itself -/
theorem C32_handover_checked (c : Cfg) (s s' : St) (l : Label) (h : (ts c).step s l = some s') (t : Tid) (w : Wid) :
    (s'.pc t = .bGot w → s.pc t = .bGot w ∨ (l = .rel t ∧ (s.pc t = .bHave w ∨ s.pc t = .bNewL w))) ∧
    (s'.pc t = .bHave w → s.pc t = .bHave w ∨ (l = .poll t w true ∧ ∃ k, s.pc t = .bPoll k w)) ∧
    (s'.pc t = .bNewL w → s.pc t = .bNewL w ∨ (l = .acq t ∧ s.pc t = .bNew w)) ∧
    (s'.pc t = .bNew w → s.pc t = .bNew w ∨ (∃ k, l = .spawn t w k ∧ s.pc t = .bSpawn k)) := by
  replace h : step c s l = some s' := h
  by_cases ht : l.tid = some t
  · cases l <;> simp only [Label.tid, Option.some.injEq, reduceCtorEq] at ht <;> subst ht <;>
      simp only [step, stepAcq, stepRel, stepPoll, stepTclose, setPc, setW] at h <;>
      (repeat' (split at h)) <;>
      first
        | (cases h; done)
        | (cases h; simp_all [upd_same]; done)
        | (cases h; simp only [upd_same]; simp_all)
  · have := step_pc_other h t ht
    rw [this]
    exact ⟨Or.inl, Or.inl, Or.inl, Or.inl⟩

/-! ### non-vacuity: a run with a spawn, a clean return, a reuse, an eviction at `max_idle = 0`, an abandoned stream -/

/-- borrower 1 spawns worker 0, makes a call, returns it; borrower 2 is handed the same worker (LIFO reuse) -/
example : (ts (Cfg.ofGen 1 4)).accepts
    [.connect 1 0, .rdClosed 1 false, .acq 1, .rel 1, .spawn 1 0 0, .acq 1, .rel 1, .got 1 0,
     .use 1 .unary {}, .ret 1 0 false true, .poll 1 0 true, .acq 1, .rdClosed 1 false, .clock 1 0, .rel 1, .done 1,
     .connect 2 0, .rdClosed 2 false, .acq 2, .poll 2 0 true, .rel 2, .got 2 0] = true := by decide

/-- `max_idle = 0`: the returned worker is closed instead of kept -/
example : (ts (Cfg.ofGen 0 4)).accepts
    [.connect 1 0, .rdClosed 1 false, .acq 1, .rel 1, .spawn 1 0 0, .acq 1, .rel 1, .got 1 0,
     .ret 1 0 false true, .poll 1 0 true, .acq 1, .rdClosed 1 false, .rel 1, .tclose 1 0, .done 1] = true := by decide

/-- a session that ended without reaching its end-of-stream marker: the rule fires and the worker is discarded -/
example : (ts (Cfg.ofGen 1 4)).accepts
    [.connect 1 0, .rdClosed 1 false, .acq 1, .rel 1, .spawn 1 0 0, .acq 1, .rel 1, .got 1 0,
     .use 1 .openOk { opened := true, sess := .open }, .use 1 .endDirty { opened := true, sess := .dirty },
     .ret 1 0 true false, .poll 1 0 true, .acq 1, .rel 1, .tclose 1 0, .done 1] = true := by decide

end VgiVerif.C32
