import VgiVerif.Model.C27
import VgiVerif.Spec.C27
import VgiVerif.Lemmas.Sticky
import VgiVerif.Lemmas.StickyHistory
/-
C27 property theorems.  Helper lemmas in `namespace Aux`; the obligations are at the bottom.
-/
namespace VgiVerif.C27
open VgiVerif.Gen VgiVerif.Sticky Spec

namespace Aux

/-- the extracted shapes the proofs are about (re-checked on every run; a source edit that changes one breaks this) -/
theorem shapes :
    Sticky.sinkOpenSetsMint = true ∧ Sticky.sinkOpenResetsClosed = true ∧ Sticky.sinkCloseSetsClosed = true ∧
    Sticky.sinkCloseClearsMint = false ∧ Sticky.drainCheckFirst = true ∧
    Sticky.respEmit = ["session_if_mint", "close_if_closed"] ∧
    Sticky.openSessionChecks = ["sink", "accept", "active", "open"] ∧ Sticky.closeSessionOk = true ∧
    Sticky.acceptParseOk = true ∧ Sticky.tokenHeaderHandlingOk = true ∧ Sticky.lostSkipsDispatch = true ∧
    StickyClient.sendsAccept = true ∧ StickyClient.sendsTokenIffHeld = true ∧
    StickyClient.captureOrder = ["set", "clear"] ∧ StickyClient.captureReadsOk = true ∧
    StickyClient.capturingVerbs = ["post", "get", "options", "delete"] ∧ Sticky.sinkCloseOnHitOnly = false ∧
    Sticky.sinkCloseAssignsHit = false := by decide

theorem assignsHit_false : Sticky.sinkCloseAssignsHit = false := by decide
theorem emitSession_true : emitSession = true := by decide
theorem emitClose_true : emitClose = true := by decide

theorem mem_liveOf {r : Reg} {c : Nat} {x : Entry} : x ∈ liveOf r c ↔ x ∈ r.entries ∧ x.owner = c := by
  simp [liveOf, List.mem_filter]

theorem sealOk_ranges {cfg : Cfg} {a b : Nat} (h : sealOk cfg a b = true) :
    a < 256 ^ 8 ∧ cfg.serverId.length < 256 ^ 1 ∧ b < 256 ^ 8 := by
  unfold sealOk at h
  simp only [Bool.and_eq_true, decide_eq_true_eq] at h
  exact ⟨h.1.1.2, h.1.2, h.2⟩

theorem tokSid_mint (cfg : Cfg) (ident : Identity) (n now ctr exp : Nat) (h : sealOk cfg now exp = true) :
    tokSid (.sealed cfg.key (aad ident) Sticky.tokenVersion n (packFrame now cfg.serverId (sidOfCtr ctr) exp)) = some (sidOfCtr ctr) := by
  obtain ⟨h1, h2, h3⟩ := sealOk_ranges h
  simp only [tokSid]
  rw [parseFrame_packFrame now exp cfg.serverId (sidOfCtr ctr) h1 h2 (leBytes_length _ _) h3]

/-- the script invariant for client view `c`.
`base` = the session the request resumed (if any); `ex` switches the "no stale token" half on. -/
def JE (c : Nat) (base : Option Bytes) (ex : Prop) (W : World) (rs : RS) : Prop :=
  match rs.sc with
  | some (sid, _) =>
    (∀ x ∈ liveOf W.reg c, x.sid = sid) ∧ (ex → ∃ x ∈ liveOf W.reg c, x.sid = sid) ∧ rs.closed = false ∧
      ((rs.mint = none ∧ base = some sid) ∨ (∃ t, rs.mint = some t ∧ tokSid t = some sid))
  | none => (∀ x ∈ liveOf W.reg c, False) ∧ (rs.closed = true ∨ (rs.mint = none ∧ base = none))

theorem step_now (cfg : Cfg) (wk : Nat) (ident : Identity) (c : Nat) (W : World) (rs : RS) (a : Action) :
    (stepAction cfg wk ident c W rs a).1.env.now = W.env.now := by
  cases a with
  | «open» l ttl =>
    simp only [stepAction, stepActionP]
    split
    · rfl
    · split
      · rfl
      · split
        · rfl
        · split <;> rfl
  | close =>
    simp only [stepAction, stepActionP]
    split <;> rfl
  | use => rfl
  | noop => rfl
  | reap at_ => rfl
  | shutdown => rfl

/-- removing registry entries keeps the script invariant, except for its "no stale token" half -/
theorem JE_shrink (c : Nat) (base : Option Bytes) (ex : Prop) (W : World) (rs : RS) (r' : Reg) (cl : List Nat)
    (hnex : ¬ ex) (hsub : ∀ x ∈ r'.entries, x ∈ W.reg.entries) (h : JE c base ex W rs) :
    JE c base ex { W with reg := r', closedLog := cl } rs := by
  have hl : ∀ x ∈ liveOf r' c, x ∈ liveOf W.reg c := fun x hx =>
    mem_liveOf.mpr ⟨hsub x (mem_liveOf.mp hx).1, (mem_liveOf.mp hx).2⟩
  unfold JE at h ⊢
  cases hsc : rs.sc with
  | none =>
    simp only [hsc] at h ⊢
    exact ⟨fun x hx => h.1 x (hl x hx), h.2⟩
  | some p =>
    obtain ⟨sid, lbl⟩ := p
    simp only [hsc] at h ⊢
    exact ⟨fun x hx => h.1 x (hl x hx), fun hE => (hnex hE).elim, h.2.2.1, h.2.2.2⟩

theorem step_JE (cfg : Cfg) (wk : Nat) (ident : Identity) (c : Nat) (base : Option Bytes) (ex : Prop)
    (W : World) (rs : RS) (a : Action) (hs : SealFits cfg W.env.now a) (hapi : ex → a.isApi = true) (h : JE c base ex W rs) :
    JE c base ex (stepAction cfg wk ident c W rs a).1 (stepAction cfg wk ident c W rs a).2.1 := by
  cases a with
  | «open» l ttl =>
    simp only [stepAction, stepActionP]
    split
    · exact h
    · split
      · exact h
      · rename_i hacc hsc
        split
        · exact h
        · have hs' : openSealOk cfg W.env.now ttl = true := hs
          have hseal := (openSealOk_seal hs').1
          rw [if_neg (by simp [hs'])]
          -- the open succeeds
          have hnone : rs.sc = none := by
            cases hh : rs.sc with
            | none => rfl
            | some p => simp [hh] at hsc
          unfold JE at h
          rw [hnone] at h
          simp only [JE, shapes.2.1, if_true]
          refine ⟨?_, ?_, trivial, Or.inr ⟨_, rfl, tokSid_mint cfg ident _ _ _ _ hseal⟩⟩
          · intro x hx
            rw [mem_liveOf, Reg.mem_insert] at hx
            rcases hx with ⟨⟨hx, _⟩ | rfl, ho⟩
            · exact (h.1 x (mem_liveOf.mpr ⟨hx, ho⟩)).elim
            · rfl
          · intro _
            exact ⟨_, mem_liveOf.mpr ⟨Reg.mem_insert.mpr (Or.inr rfl), rfl⟩, rfl⟩
  | close =>
    simp only [stepAction, stepActionP]
    cases hsc : rs.sc with
    | none =>
      unfold JE at h ⊢
      simp only [hsc] at h ⊢
      exact ⟨h.1, Or.inl (by simp [shapes.2.2.1, assignsHit_false])⟩
    | some p =>
      obtain ⟨sid, lbl⟩ := p
      unfold JE at h ⊢
      simp only [hsc] at h ⊢
      refine ⟨?_, Or.inl (by simp [shapes.2.2.1, assignsHit_false])⟩
      intro x hx
      rw [mem_liveOf] at hx
      have hx' := Reg.mem_close.mp hx.1
      exact hx'.2 (h.1 x (mem_liveOf.mpr ⟨hx'.1, hx.2⟩))
  | use => exact h
  | noop => exact h
  | reap at_ =>
    -- the environment only removes entries; with `ex` this action is excluded
    simp only [stepAction, stepActionP]
    exact JE_shrink c base ex W rs _ _ (fun hE => by cases hapi hE) (fun x hx => by
      simp only [Reg.drainExpired, List.mem_filter] at hx; exact hx.1) h
  | shutdown =>
    simp only [stepAction, stepActionP]
    exact JE_shrink c base ex W rs _ _ (fun hE => by cases hapi hE) (fun x hx => by
      simp only [Reg.shutdown] at hx; cases hx) h

theorem run_JE (cfg : Cfg) (wk : Nat) (ident : Identity) (c : Nat) (base : Option Bytes) (ex : Prop) (swallow : Bool)
    (script : List Action) : (ex → ∀ a ∈ script, a.isApi = true) →
      ∀ (W : World) (rs : RS), (∀ a ∈ script, SealFits cfg W.env.now a) → JE c base ex W rs →
      JE c base ex (runScript cfg wk ident c swallow W rs script).1 (runScript cfg wk ident c swallow W rs script).2.1 := by
  induction script with
  | nil => intro _ W rs _ h; exact h
  | cons a as ih =>
    intro hapi W rs hs h
    have ih := ih (fun hE b hb => hapi hE b (by simp [hb]))
    have h1 := step_JE cfg wk ident c base ex W rs a (hs a (by simp)) (fun hE => hapi hE a (by simp)) h
    have hn := step_now cfg wk ident c W rs a
    have hs' : ∀ b ∈ as, SealFits cfg (stepAction cfg wk ident c W rs a).1.env.now b := by
      intro b hb; rw [hn]; exact hs b (by simp [hb])
    have h2 := ih _ _ hs' h1
    simp only [runScript]
    generalize hst : stepAction cfg wk ident c W rs a = st at h1 h2
    obtain ⟨W', rs', o⟩ := st
    cases o with
    | failed e =>
      simp only
      cases swallow with
      | true => simpa using h2
      | false => simpa using h1
    | opened _ => simpa using h2
    | closed _ => simpa using h2
    | used _ => simpa using h2
    | noop => simpa using h2
    | env => simpa using h2

/-- what `_capture` does with the two response headers -/
theorem capture_eq {Wire : Type} (v : View Wire) (r : Resp Wire) :
    (capture v r).token = if r.close then none else (match r.session with | some t => some t | none => v.token) := by
  unfold capture
  rw [shapes.2.2.2.2.2.2.2.2.2.2.2.2.2.1]
  simp only [List.foldl, captureEffect]
  cases hs : r.session <;> cases hc : r.close <;> simp

/-! #### the token half of `process_request` -/

/-- what `resolve` can answer, and what it does to the world -/
theorem resolve_spec {Wire : Type} [DecidableEq Wire] (C : Codec Wire) (cfg : Cfg) (W : World) (rq : Req Wire) :
    (rq.session = none ∧ resolve C cfg W rq = (W, .fresh)) ∨
    (∃ w, rq.session = some w ∧ resolve C cfg W rq = (W, .lost)) ∨
    (∃ w t sidB sid ex e, rq.session = some w ∧ C.dec w = some t ∧ tokSid t = some sid ∧
        openSessionToken C w cfg.key (aad rq.ident) = .ok (sidB, sid, ex) ∧ W.reg.find sid = some e ∧ expired e W.env.now = true ∧
        resolve C cfg W rq = ({ W with reg := W.reg.remove sid, closedLog := W.closedLog ++ [e.state] }, .lost)) ∨
    (∃ w t sidB sid ex e, rq.session = some w ∧ C.dec w = some t ∧ tokSid t = some sid ∧
        openSessionToken C w cfg.key (aad rq.ident) = .ok (sidB, sid, ex) ∧
        (checkServerId = true → asciiReplaceUtf8 sidB = cfg.serverId) ∧
        W.reg.find sid = some e ∧ expired e W.env.now = false ∧ (checkPrincipal = true → e.pkey = pkey rq.ident) ∧
        resolve C cfg W rq = (W, .resumed e)) := by
  unfold resolve
  simp only [Reg.getLive_eq]
  cases hs : rq.session with
  | none => exact Or.inl ⟨rfl, rfl⟩
  | some w =>
    right
    simp only
    cases ho : openSessionToken C w cfg.key (aad rq.ident) with
    | error err => exact Or.inl ⟨w, rfl, rfl⟩
    | ok res =>
      obtain ⟨sidB, sid, ex⟩ := res
      simp only
      -- the token opened: recover the envelope and its session id
      have htok : ∃ t, C.dec w = some t ∧ tokSid t = some sid := by
        unfold openSessionToken openSessionTokenP at ho
        cases hd : C.dec w with
        | none => simp [hd] at ho
        | some t =>
          simp only [hd] at ho
          by_cases hcan : Sticky.canonicalCheck = true ∧ C.enc t ≠ w
          · rw [if_pos hcan] at ho; cases ho
          · rw [if_neg hcan] at ho
            cases hob : openBytes cfg.key (aad rq.ident) Sticky.tokenVersion t with
            | none => simp [hob] at ho
            | some pt =>
              simp only [hob] at ho
              cases t with
              | raw bs => simp [openBytes] at hob
              | «sealed» k a vv n p =>
                simp only [openBytes] at hob
                split at hob
                · cases hob
                  exact ⟨_, rfl, by simp only [tokSid, ho]⟩
                · cases hob
      obtain ⟨t, hd, hts⟩ := htok
      split
      · exact Or.inl ⟨w, rfl, rfl⟩
      · rename_i hsid
        have hsrv : checkServerId = true → asciiReplaceUtf8 sidB = cfg.serverId := fun hc =>
          Classical.byContradiction fun hne => hsid ⟨hc, hne⟩
        rcases Reg.get_spec W.reg sid (pkey rq.ident) W.env.now with ⟨_, hg⟩ | ⟨e, hf, hx, hg⟩ | ⟨e, _, _, _, hg⟩ | ⟨e, hf, hx, hp, hg⟩
        · rw [hg]; simp only; rw [world_eta]; exact Or.inl ⟨w, rfl, rfl⟩
        · rw [hg]; simp only
          exact Or.inr (Or.inl ⟨w, t, sidB, sid, ex, e, rfl, hd, hts, ho, hf, hx, rfl⟩)
        · rw [hg]; simp only; rw [world_eta]; exact Or.inl ⟨w, rfl, rfl⟩
        · rw [hg]; simp only; rw [world_eta]
          refine Or.inr (Or.inr ⟨w, t, sidB, sid, ex, e, rfl, hd, hts, ho, hsrv, hf, hx, ?_, rfl⟩)
          intro hc
          exact Classical.byContradiction fun hne => hp ⟨hc, hne⟩

theorem designates_fun {Wire : Type} {C : Codec Wire} {w : Wire} {a b : Bytes} (ha : Designates C w a) (hb : Designates C w b) : a = b := by
  obtain ⟨t, hd, ht⟩ := ha
  obtain ⟨t', hd', ht'⟩ := hb
  rw [hd] at hd'
  cases hd'
  rw [ht] at ht'
  exact Option.some.inj ht'

/-- how the client's previous token relates to the session the request resumed -/
@[reducible] def BaseRel {Wire : Type} (C : Codec Wire) (v : View Wire) (base : Option Bytes) : Prop :=
  (base = none → v.token = none) ∧ (∀ sid, base = some sid → ∃ w, v.token = some w ∧ Designates C w sid)

/-- from the script invariant at the end of the method to the client's view after `_capture` -/
theorem JE_final {Wire : Type} (C : Codec Wire) (c : Nat) (base : Option Bytes) (ex : Prop) (W : World) (rs : RS)
    (v : View Wire) (o : Outcome) (log : List ActOut) (h : JE c base ex W rs) (hb : BaseRel C v base) :
    NoOrphan C W.reg c (capture v ⟨o, if emitSession then rs.mint.map C.enc else none, emitClose && rs.closed, log⟩) ∧
    (ex → NoStale C W.reg c (capture v ⟨o, if emitSession then rs.mint.map C.enc else none, emitClose && rs.closed, log⟩)) := by
  have hcap := capture_eq v (⟨o, if emitSession then rs.mint.map C.enc else none, emitClose && rs.closed, log⟩ : Resp Wire)
  simp only [emitSession_true, emitClose_true, if_true, Bool.true_and] at hcap ⊢
  unfold JE at h
  cases hsc : rs.sc with
  | none =>
    simp only [hsc] at h
    have htok : (capture v ⟨o, rs.mint.map C.enc, rs.closed, log⟩).token = none := by
      rw [hcap]
      rcases h.2 with hc | ⟨hm, hbn⟩
      · simp [hc]
      · cases hcl : rs.closed <;> simp [hm, hb.1 hbn]
    refine ⟨fun x hx => (h.1 x hx).elim, fun _ w hw => ?_⟩
    rw [htok] at hw
    cases hw
  | some p =>
    obtain ⟨sid, lbl⟩ := p
    simp only [hsc] at h
    obtain ⟨hall, hex, hcl, hm⟩ := h
    have htok : ∃ w, (capture v ⟨o, rs.mint.map C.enc, rs.closed, log⟩).token = some w ∧ Designates C w sid := by
      rw [hcap, hcl]
      rcases hm with ⟨hm, hbs⟩ | ⟨t, hm, ht⟩
      · obtain ⟨w, hw, hd⟩ := hb.2 sid hbs
        exact ⟨w, by simp [hm, hw], hd⟩
      · exact ⟨C.enc t, by simp [hm], t, C.dec_enc t, ht⟩
    obtain ⟨w, hw, hd⟩ := htok
    refine ⟨fun x hx => ⟨w, hw, by rw [hall x hx]; exact hd⟩, fun hE w' hw' => ?_⟩
    rw [hw] at hw'
    cases hw'
    obtain ⟨x, hx, hxs⟩ := hex hE
    exact ⟨x, hx, by rw [hxs]; exact hd⟩

theorem request_session {Wire : Type} (v : View Wire) (ident : Identity) (c : Nat) :
    (v.request ident c).session = v.token ∧ (v.request ident c).client = c ∧ (v.request ident c).ident = ident ∧
    acceptOpens (v.request ident c).accept = true := by
  have h1 : StickyClient.sendsAccept = true := shapes.2.2.2.2.2.2.2.2.2.2.2.1
  have h2 : StickyClient.sendsTokenIffHeld = true := shapes.2.2.2.2.2.2.2.2.2.2.2.2.1
  refine ⟨by simp [View.request, h2], by simp [View.request], by simp [View.request], ?_⟩
  simp only [View.request, h1, if_true]
  decide

/-- one call through a view preserves "no orphan", and (under `ex`, given that the designated session is unexpired) "no stale token" -/
theorem view_step {Wire : Type} [DecidableEq Wire] (C : Codec Wire) (cfg : Cfg) (wk : Nat) (W : World) (v : View Wire)
    (ident : Identity) (c : Nat) (script : List Action) (swallow : Bool) (ex : Prop)
    (hseal : ∀ a ∈ script, SealFits cfg W.env.now a) (hapi : ex → ∀ a ∈ script, a.isApi = true)
    (hexp : ex → ∀ e ∈ W.reg.entries, (∃ w, v.token = some w ∧ Designates C w e.sid) → expired e W.env.now = false)
    (hno : NoOrphan C W.reg c v) (hst : ex → NoStale C W.reg c v) :
    NoOrphan C (viewCall C cfg wk W v ident c script swallow).1.reg c (viewCall C cfg wk W v ident c script swallow).2.1 ∧
    (ex → NoStale C (viewCall C cfg wk W v ident c script swallow).1.reg c (viewCall C cfg wk W v ident c script swallow).2.1) := by
  obtain ⟨hrs, hrc, hri, hra⟩ := request_session v ident c
  unfold viewCall serve
  rcases resolve_spec C cfg W (v.request ident c) with ⟨hn, hr⟩ | ⟨w, hw, hr⟩ | ⟨w, t, sidB, sid, exx, e, hw, hd, hts, _, hf, hx, hr⟩ |
      ⟨w, t, sidB, sid, exx, e, hw, hd, hts, _, _, hf, hx, _, hr⟩
  · -- no token: fresh request
    rw [hr]
    simp only [hrc, hri]
    have hvt : v.token = none := by rw [← hrs]; exact hn
    have h0 : JE c none ex W { accept := acceptOpens (v.request ident c).accept } := by
      unfold JE
      simp only
      refine ⟨fun x hx => ?_, by simp⟩
      obtain ⟨w, hw, _⟩ := hno x hx
      rw [hvt] at hw; cases hw
    have hJ := run_JE cfg wk ident c none ex swallow script hapi W _ hseal h0
    generalize runScript cfg wk ident c swallow W { accept := acceptOpens (v.request ident c).accept } script = res at hJ
    obtain ⟨W₂, rs, log, err⟩ := res
    exact JE_final C c none ex W₂ rs v _ log hJ ⟨(fun _ => hvt), (fun sid h => by cases h)⟩
  · -- the token did not resolve, nothing evicted
    rw [hr]
    simp only
    have : (capture v (⟨.lost, none, false, []⟩ : Resp Wire)).token = v.token := by rw [capture_eq]; simp
    refine ⟨fun x hx => ?_, fun hE w' hw' => ?_⟩
    · obtain ⟨w', hw', hd'⟩ := hno x hx
      exact ⟨w', by rw [this]; exact hw', hd'⟩
    · rw [this] at hw'
      exact hst hE w' hw'
  · -- the designated entry had expired: evicted in-line, answered session_lost
    rw [hr]
    simp only
    have hcap : (capture v (⟨.lost, none, false, []⟩ : Resp Wire)).token = v.token := by rw [capture_eq]; simp
    have hvt : v.token = some w := by rw [← hrs]; exact hw
    refine ⟨fun x hx => ?_, fun hE => ?_⟩
    · have hx' := mem_liveOf.mp hx
      obtain ⟨w', hw', hd'⟩ := hno x (mem_liveOf.mpr ⟨(Reg.mem_remove.mp hx'.1).1, hx'.2⟩)
      exact ⟨w', by rw [hcap]; exact hw', hd'⟩
    · -- excluded by `hexp`: the entry the token designates is unexpired
      have he := Reg.find_some hf
      have := hexp hE e he.1 ⟨w, hvt, t, hd, by rw [he.2]; exact hts⟩
      rw [hx] at this
      cases this
  · -- resumed
    rw [hr]
    simp only [hrc, hri]
    have he := Reg.find_some hf
    have hvt : v.token = some w := by rw [← hrs]; exact hw
    have hdes : Designates C w e.sid := ⟨t, hd, by rw [he.2]; exact hts⟩
    have h0 : JE c (some e.sid) ex W { sc := some (e.sid, e.state), accept := acceptOpens (v.request ident c).accept, lockHeld := some e.sid } := by
      unfold JE
      simp only
      refine ⟨fun x hx => ?_, fun hE => ?_, by simp⟩
      · obtain ⟨w', hw', hd'⟩ := hno x hx
        rw [hvt] at hw'; cases hw'
        exact designates_fun hd' hdes
      · obtain ⟨x, hx, hd'⟩ := hst hE w hvt
        exact ⟨x, hx, designates_fun hd' hdes⟩
    have hJ := run_JE cfg wk ident c (some e.sid) ex swallow script hapi W _ hseal h0
    generalize runScript cfg wk ident c swallow W { sc := some (e.sid, e.state), accept := acceptOpens (v.request ident c).accept, lockHeld := some e.sid } script = res at hJ
    obtain ⟨W₂, rs, log, err⟩ := res
    exact JE_final C c (some e.sid) ex W₂ rs v _ log hJ ⟨(fun h => by cases h), (fun sid h => by cases h; exact ⟨w, hvt, hdes⟩)⟩

/-! #### opt-in and drain -/

/-- invariant for opt-in: nothing is added unless the request opted in and the worker is serving -/
def OI (R0 : Reg) (acc : Bool) (W : World) (rs : RS) : Prop :=
  rs.accept = acc ∧ W.reg.draining = R0.draining ∧ ∀ e ∈ W.reg.entries, e ∈ R0.entries ∨ (acc = true ∧ R0.draining = false)

theorem step_OI (cfg : Cfg) (wk : Nat) (ident : Identity) (c : Nat) (R0 : Reg) (acc : Bool) (W : World) (rs : RS) (a : Action)
    (h : OI R0 acc W rs) : OI R0 acc (stepAction cfg wk ident c W rs a).1 (stepAction cfg wk ident c W rs a).2.1 := by
  obtain ⟨ha, hd, he⟩ := h
  cases a with
  | «open» l ttl =>
    simp only [stepAction, stepActionP]
    split
    · exact ⟨ha, hd, he⟩
    · rename_i hacc
      split
      · exact ⟨ha, hd, he⟩
      · split
        · exact ⟨ha, hd, he⟩
        · rename_i hdr
          have hacc' : acc = true := by rw [← ha]; simpa using hacc
          have hdr' : R0.draining = false := by
            rw [← hd]
            simpa [shapes.2.2.2.2.1] using hdr
          have hins : ∀ (en : Entry), ∀ x ∈ (W.reg.insert en).entries, x ∈ R0.entries ∨ (acc = true ∧ R0.draining = false) :=
            fun en x _ => Or.inr ⟨hacc', hdr'⟩
          split
          · exact ⟨ha, hd, hins _⟩
          · exact ⟨ha, hd, hins _⟩
  | close =>
    simp only [stepAction, stepActionP]
    cases hsc : rs.sc with
    | none => exact ⟨ha, hd, he⟩
    | some p =>
      obtain ⟨sid, lbl⟩ := p
      refine ⟨ha, ?_, fun x hx => he x (Reg.mem_close.mp hx).1⟩
      simp only
      rw [Reg.close_draining]; exact hd
  | use => exact ⟨ha, hd, he⟩
  | noop => exact ⟨ha, hd, he⟩
  | reap at_ =>
    simp only [stepAction, stepActionP]
    exact ⟨ha, hd, fun x hx => he x (by simp only [Reg.drainExpired, List.mem_filter] at hx; exact hx.1)⟩
  | shutdown =>
    simp only [stepAction, stepActionP]
    exact ⟨ha, hd, fun x hx => by simp only [Reg.shutdown] at hx; cases hx⟩

theorem run_OI (cfg : Cfg) (wk : Nat) (ident : Identity) (c : Nat) (R0 : Reg) (acc : Bool) (swallow : Bool) (script : List Action) :
    ∀ (W : World) (rs : RS), OI R0 acc W rs →
      OI R0 acc (runScript cfg wk ident c swallow W rs script).1 (runScript cfg wk ident c swallow W rs script).2.1 := by
  induction script with
  | nil => intro W rs h; exact h
  | cons a as ih =>
    intro W rs h
    have h1 := step_OI cfg wk ident c R0 acc W rs a h
    have h2 := ih _ _ h1
    simp only [runScript]
    generalize stepAction cfg wk ident c W rs a = st at h1 h2
    obtain ⟨W', rs', o⟩ := st
    cases o with
    | failed e =>
      simp only
      cases swallow with
      | true => simpa using h2
      | false => simpa using h1
    | opened _ => simpa using h2
    | closed _ => simpa using h2
    | used _ => simpa using h2
    | noop => simpa using h2
    | env => simpa using h2

/-- the token half of `process_request` only ever removes entries, and never touches the drain flag -/
theorem resolve_entries {Wire : Type} [DecidableEq Wire] (C : Codec Wire) (cfg : Cfg) (W : World) (rq : Req Wire) :
    (resolve C cfg W rq).1.reg.draining = W.reg.draining ∧ ∀ e ∈ (resolve C cfg W rq).1.reg.entries, e ∈ W.reg.entries := by
  rcases resolve_spec C cfg W rq with ⟨_, hr⟩ | ⟨_, _, hr⟩ | ⟨_, _, _, sid, _, _, _, _, _, _, _, _, hr⟩ | ⟨_, _, _, _, _, _, _, _, _, _, _, _, _, _, hr⟩
  · rw [hr]; exact ⟨rfl, fun _ h => h⟩
  · rw [hr]; exact ⟨rfl, fun _ h => h⟩
  · rw [hr]; exact ⟨rfl, fun _ h => (Reg.mem_remove.mp h).1⟩
  · rw [hr]; exact ⟨rfl, fun _ h => h⟩

/-- no `opened` outcome while draining -/
theorem run_draining_log (cfg : Cfg) (wk : Nat) (ident : Identity) (c : Nat) (swallow : Bool) (script : List Action) :
    ∀ (W : World) (rs : RS), W.reg.draining = true →
      ∀ o ∈ (runScript cfg wk ident c swallow W rs script).2.2.1, ∀ sid, o ≠ .opened sid := by
  induction script with
  | nil => intro W rs _ o ho; simp [runScript] at ho
  | cons a as ih =>
    intro W rs hd
    have hstep : (stepAction cfg wk ident c W rs a).1.reg.draining = true ∧ ∀ sid, (stepAction cfg wk ident c W rs a).2.2 ≠ .opened sid := by
      cases a with
      | «open» l ttl =>
        simp only [stepAction, stepActionP]
        split
        · exact ⟨hd, fun _ h => by cases h⟩
        · split
          · exact ⟨hd, fun _ h => by cases h⟩
          · split
            · exact ⟨hd, fun _ h => by cases h⟩
            · rename_i hdr
              simp [shapes.2.2.2.2.1, hd] at hdr
      | close =>
        simp only [stepAction, stepActionP]
        cases hsc : rs.sc with
        | none => exact ⟨hd, fun _ h => by cases h⟩
        | some p =>
          obtain ⟨sid, lbl⟩ := p
          refine ⟨?_, fun _ h => by cases h⟩
          simp only
          rw [Reg.close_draining]; exact hd
      | use => exact ⟨hd, fun _ h => by cases h⟩
      | noop => exact ⟨hd, fun _ h => by cases h⟩
      | reap at_ => exact ⟨hd, fun _ h => by cases h⟩
      | shutdown => exact ⟨hd, fun _ h => by cases h⟩
    have h2 := ih (stepAction cfg wk ident c W rs a).1 (stepAction cfg wk ident c W rs a).2.1 hstep.1
    simp only [runScript]
    generalize stepAction cfg wk ident c W rs a = st at hstep h2
    obtain ⟨W', rs', o⟩ := st
    intro o' ho' sid
    cases o with
    | failed e =>
      cases swallow with
      | true =>
        simp only [if_true] at ho'
        rcases List.mem_cons.mp ho' with rfl | h
        · intro h; cases h
        · exact h2 o' h sid
      | false =>
        simp only [Bool.false_eq_true, if_false, List.mem_singleton] at ho'
        subst ho'
        intro h; cases h
    | opened s => exact absurd rfl (hstep.2 s)
    | closed b =>
      simp only at ho'
      rcases List.mem_cons.mp ho' with rfl | h
      · intro h; cases h
      · exact h2 o' h sid
    | used b =>
      simp only at ho'
      rcases List.mem_cons.mp ho' with rfl | h
      · intro h; cases h
      · exact h2 o' h sid
    | noop =>
      simp only at ho'
      rcases List.mem_cons.mp ho' with rfl | h
      · intro h; cases h
      · exact h2 o' h sid
    | env =>
      simp only at ho'
      rcases List.mem_cons.mp ho' with rfl | h
      · intro h; cases h
      · exact h2 o' h sid

/-- `serve` in terms of `resolve` and `runScript` -/
theorem serve_entries {Wire : Type} [DecidableEq Wire] (C : Codec Wire) (cfg : Cfg) (wk : Nat) (W : World) (rq : Req Wire)
    (script : List Action) (swallow : Bool) :
    ∀ e ∈ (serve C cfg wk W rq script swallow).1.reg.entries, e ∈ W.reg.entries ∨ (acceptOpens rq.accept = true ∧ W.reg.draining = false) := by
  have hres := resolve_entries C cfg W rq
  unfold serve
  generalize resolve C cfg W rq = res at hres
  obtain ⟨W₁, r⟩ := res
  have key : ∀ rs₀ : RS, rs₀.accept = acceptOpens rq.accept →
      ∀ e ∈ (runScript cfg wk rq.ident rq.client swallow W₁ rs₀ script).1.reg.entries,
        e ∈ W.reg.entries ∨ (acceptOpens rq.accept = true ∧ W.reg.draining = false) := by
    intro rs₀ hacc
    have h0 : OI W.reg (acceptOpens rq.accept) W₁ rs₀ := ⟨hacc, hres.1, fun e he => Or.inl (hres.2 e he)⟩
    exact (run_OI cfg wk rq.ident rq.client W.reg (acceptOpens rq.accept) swallow script W₁ rs₀ h0).2.2
  cases r with
  | lost => exact fun e he => Or.inl (hres.2 e he)
  | fresh => exact key _ rfl
  | resumed e0 => exact key _ rfl

/-- `C27_view`, stated inside `Aux` for use in the history proof -/
theorem C27_view_aux {Wire : Type} [DecidableEq Wire] (C : Codec Wire) (cfg : Cfg) (wk : Nat) (W : World) (v : View Wire)
    (ident : Identity) (c : Nat) (script : List Action) (swallow : Bool)
    (hseal : ∀ a ∈ script, SealFits cfg W.env.now a) (hapi : ∀ a ∈ script, a.isApi = true)
    (hexp : ∀ e ∈ W.reg.entries, (∃ w, v.token = some w ∧ Designates C w e.sid) → expired e W.env.now = false)
    (hok : ViewOK C W.reg c v) :
    ViewOK C (viewCall C cfg wk W v ident c script swallow).1.reg c (viewCall C cfg wk W v ident c script swallow).2.1 := by
  have h := view_step C cfg wk W v ident c script swallow True hseal (fun _ => hapi) (fun _ => hexp) hok.1 (fun _ => hok.2)
  exact ⟨h.1, h.2 trivial⟩

/-! #### cleared on close -/

def notOpen : Action → Bool
  | .open _ _ => false
  | _ => true

/-- `ctx.close_session()` flags the response, whether or not the registry still had the entry -/
theorem close_sets_closed (cfg : Cfg) (wk : Nat) (ident : Identity) (c : Nat) (W : World) (rs : RS) :
    (stepAction cfg wk ident c W rs .close).2.1.closed = true := by
  simp only [stepAction, stepActionP]
  cases rs.sc with
  | none => simp [shapes.2.2.1, assignsHit_false]
  | some p => obtain ⟨sid, l⟩ := p; simp [shapes.2.2.1, assignsHit_false]

theorem step_keeps_closed (cfg : Cfg) (wk : Nat) (ident : Identity) (c : Nat) (W : World) (rs : RS) (a : Action)
    (ha : notOpen a = true) (h : rs.closed = true) : (stepAction cfg wk ident c W rs a).2.1.closed = true := by
  cases a with
  | «open» l ttl => cases ha
  | close => exact close_sets_closed cfg wk ident c W rs
  | use => exact h
  | noop => exact h
  | reap at_ => exact h
  | shutdown => exact h

theorem run_keeps_closed (cfg : Cfg) (wk : Nat) (ident : Identity) (c : Nat) (swallow : Bool) (script : List Action) :
    (∀ a ∈ script, notOpen a = true) → ∀ (W : World) (rs : RS), rs.closed = true →
      (runScript cfg wk ident c swallow W rs script).2.1.closed = true := by
  induction script with
  | nil => intro _ W rs h; exact h
  | cons a as ih =>
    intro hno W rs h
    have h1 := step_keeps_closed cfg wk ident c W rs a (hno a (by simp)) h
    have h2 := ih (fun b hb => hno b (by simp [hb])) (stepAction cfg wk ident c W rs a).1 (stepAction cfg wk ident c W rs a).2.1 h1
    simp only [runScript]
    generalize stepAction cfg wk ident c W rs a = st at h1 h2
    obtain ⟨W', rs', o⟩ := st
    cases o with
    | failed e =>
      simp only
      cases swallow with
      | true => simpa using h2
      | false => simpa using h1
    | opened _ => simpa using h2
    | closed _ => simpa using h2
    | used _ => simpa using h2
    | noop => simpa using h2
    | env => simpa using h2

/-! #### histories of several views -/

theorem viewOK_congr {Wire : Type} (C : Codec Wire) (r r' : Reg) (c : Nat) (v : View Wire)
    (h : ∀ x, x ∈ liveOf r' c ↔ x ∈ liveOf r c) (hok : ViewOK C r c v) : ViewOK C r' c v := by
  refine ⟨fun x hx => hok.1 x ((h x).mp hx), fun w hw => ?_⟩
  obtain ⟨x, hx, hd⟩ := hok.2 w hw
  exact ⟨x, (h x).mpr hx, hd⟩

/-- a call through view `c` keeps the registry-wide invariants and touches only sessions of `c` -/
theorem viewCall_frame {Wire : Type} [DecidableEq Wire] (C : Codec Wire) (cfg : Cfg) (wk : Nat) (W : World) (v : View Wire)
    (ident : Identity) (c : Nat) (script : List Action) (swallow : Bool)
    (hreg : RegInv W) (hst : NoStale C W.reg c v) (hb : W.env.sidCtr + script.length ≤ 256 ^ 12)
    (hapi : ∀ a ∈ script, a.isApi = true) (httl : ∀ a ∈ script, TtlNonneg cfg a) :
    RegInv (viewCall C cfg wk W v ident c script swallow).1 ∧
    (∀ x ∈ W.reg.entries, x.owner ≠ c → x ∈ (viewCall C cfg wk W v ident c script swallow).1.reg.entries) ∧
    (∀ x ∈ (viewCall C cfg wk W v ident c script swallow).1.reg.entries, x ∈ W.reg.entries ∨ x.owner = c) := by
  obtain ⟨hrs, hrc, hri, _⟩ := request_session v ident c
  unfold viewCall serve
  rcases resolve_spec C cfg W (v.request ident c) with ⟨hn, hr⟩ | ⟨w, hw, hr⟩ | ⟨w, t, sidB, sid, exx, e, hw, hd, hts, _, hf, hx, hr⟩ |
      ⟨w, t, sidB, sid, exx, e, hw, hd, hts, _, _, hf, hx, _, hr⟩
  · rw [hr]
    simp only [hrc, hri]
    have h0 : FR c W.reg W { accept := acceptOpens (v.request ident c).accept } :=
      ⟨fun x hx _ => hx, fun x hx => Or.inl hx, fun sid l hs => by simp at hs⟩
    have hJ := run_inv cfg wk ident c W.reg swallow script hapi httl W _ hb hreg h0
    generalize runScript cfg wk ident c swallow W { accept := acceptOpens (v.request ident c).accept } script = res at hJ
    obtain ⟨W₂, rs, log, err⟩ := res
    exact ⟨hJ.1, hJ.2.1, hJ.2.2.1⟩
  · rw [hr]
    exact ⟨hreg, fun x hx _ => hx, fun x hx => Or.inl hx⟩
  · -- eviction is impossible: nothing in the registry has expired
    have he := Reg.find_some hf
    have := hreg.2.2 e he.1
    rw [hx] at this; cases this
  · rw [hr]
    simp only [hrc, hri]
    have he := Reg.find_some hf
    have hvt : v.token = some w := by rw [← hrs]; exact hw
    have hdes : Designates C w e.sid := ⟨t, hd, by rw [he.2]; exact hts⟩
    have h0 : FR c W.reg W { sc := some (e.sid, e.state), accept := acceptOpens (v.request ident c).accept, lockHeld := some e.sid } := by
      refine ⟨fun x hx _ => hx, fun x hx => Or.inl hx, fun sid' l hs x hx hxs => ?_⟩
      simp only [Option.some.injEq, Prod.mk.injEq] at hs
      obtain ⟨y, hy, hyd⟩ := hst w hvt
      have hy' := mem_liveOf.mp hy
      have : x = y := hreg.1 x hx y hy'.1 (by rw [hxs, ← hs.1]; exact designates_fun hdes hyd)
      rw [this]; exact hy'.2
    have hJ := run_inv cfg wk ident c W.reg swallow script hapi httl W _ hb hreg h0
    generalize runScript cfg wk ident c swallow W { sc := some (e.sid, e.state), accept := acceptOpens (v.request ident c).accept, lockHeld := some e.sid } script = res at hJ
    obtain ⟨W₂, rs, log, err⟩ := res
    exact ⟨hJ.1, hJ.2.1, hJ.2.2.1⟩

/-- invariant of a history: every view is exact, and the registry-wide invariants hold -/
def HInv {Wire : Type} (C : Codec Wire) (s : Sys Wire) : Prop :=
  (∀ c, ViewOK C s.W.reg c (s.views c)) ∧ RegInv s.W

theorem mem_reown {r : Reg} {c c' : Nat} {x : Entry} :
    x ∈ (reown r c c').entries ↔ ∃ y ∈ r.entries, x = (if y.owner == c then { y with owner := c' } else y) := by
  simp only [reown, List.mem_map]
  constructor
  · rintro ⟨y, hy, rfl⟩; exact ⟨y, hy, rfl⟩
  · rintro ⟨y, hy, rfl⟩; exact ⟨y, hy, rfl⟩

theorem step_HInv {Wire : Type} [DecidableEq Wire] (C : Codec Wire) (cfg : Cfg) (wk : Nat) (s : Sys Wire) (op : SysOp)
    (hinv : HInv C s) (hok : OpOK cfg s op) : HInv C (s.step C cfg wk op) := by
  obtain ⟨hviews, hreg⟩ := hinv
  cases op with
  | call c ident script swallow =>
    obtain ⟨hseal, hb, httl, hapi⟩ := hok
    have hexp : ∀ e ∈ s.W.reg.entries, (∃ w, (s.views c).token = some w ∧ Designates C w e.sid) → expired e s.W.env.now = false :=
      fun e he _ => hreg.2.2 e he
    have hcaller := C27_view_aux C cfg wk s.W (s.views c) ident c script swallow hseal hapi hexp (hviews c)
    have hframe := viewCall_frame C cfg wk s.W (s.views c) ident c script swallow hreg (hviews c).2 hb hapi httl
    simp only [Sys.step]
    refine ⟨fun c' => ?_, hframe.1⟩
    by_cases hc : c' = c
    · subst hc; simpa using hcaller
    · simp only [if_neg hc]
      refine viewOK_congr C s.W.reg _ c' (s.views c') (fun x => ?_) (hviews c')
      rw [mem_liveOf, mem_liveOf]
      constructor
      · rintro ⟨hx, ho⟩
        rcases hframe.2.2 x hx with h | h
        · exact ⟨h, ho⟩
        · exact absurd (ho.symm.trans h) hc
      · rintro ⟨hx, ho⟩
        exact ⟨hframe.2.1 x hx (fun h => hc (ho.symm.trans h)), ho⟩
  | setDraining b =>
    exact ⟨fun c => hviews c, hreg⟩
  | handoff c c' =>
    simp only [Sys.step]
    split
    · rename_i hg
      obtain ⟨hne, hnew⟩ := hg
      unfold isNewView at hnew
      simp only [Bool.and_eq_true, Option.isNone_iff_eq_none, Bool.not_eq_true', List.any_eq_false, beq_iff_eq] at hnew
      obtain ⟨htok', hown'⟩ := hnew
      have hsid : ∀ y : Entry, (if y.owner == c then { y with owner := c' } else y).sid = y.sid := by
        intro y; split <;> rfl
      have hexpi : ∀ y : Entry, (if y.owner == c then { y with owner := c' } else y).expires = y.expires := by
        intro y; split <;> rfl
      refine ⟨fun d => ?_, ?_, ?_, ?_⟩
      · -- the views
        simp only [View.detach]
        by_cases hd' : d = c'
        · subst hd'
          simp only [if_true]
          refine ⟨fun x hx => ?_, fun w hw => ?_⟩
          · obtain ⟨hx1, hx2⟩ := mem_liveOf.mp hx
            obtain ⟨y, hy, rfl⟩ := mem_reown.mp hx1
            have hyc : y.owner = c := by
              by_cases h : y.owner = c
              · exact h
              · have : (y.owner == c) = false := by simpa using h
                rw [this] at hx2
                exact absurd hx2 (hown' y hy)
            obtain ⟨w, hw, hdz⟩ := (hviews c).1 y (mem_liveOf.mpr ⟨hy, hyc⟩)
            exact ⟨w, hw, by rw [hsid]; exact hdz⟩
          · obtain ⟨y, hy, hdz⟩ := (hviews c).2 w hw
            obtain ⟨hy1, hy2⟩ := mem_liveOf.mp hy
            refine ⟨{ y with owner := d }, mem_liveOf.mpr ⟨mem_reown.mpr ⟨y, hy1, ?_⟩, rfl⟩, hdz⟩
            simp [hy2]
        · simp only [if_neg hd']
          by_cases hdc : d = c
          · subst hdc
            simp only [if_true]
            refine ⟨fun x hx => ?_, fun w hw => by cases hw⟩
            obtain ⟨hx1, hx2⟩ := mem_liveOf.mp hx
            obtain ⟨y, hy, rfl⟩ := mem_reown.mp hx1
            by_cases h : y.owner = d
            · simp [h] at hx2; exact absurd hx2.symm hne
            · have : (y.owner == d) = false := by simpa using h
              rw [this] at hx2
              exact absurd hx2 h
          · simp only [if_neg hdc]
            refine viewOK_congr C s.W.reg _ d (s.views d) (fun x => ?_) (hviews d)
            rw [mem_liveOf, mem_liveOf]
            constructor
            · rintro ⟨hx1, hx2⟩
              obtain ⟨y, hy, rfl⟩ := mem_reown.mp hx1
              by_cases h : y.owner = c
              · simp [h] at hx2; exact absurd hx2.symm hd'
              · have : (y.owner == c) = false := by simpa using h
                rw [this] at hx2 ⊢
                exact ⟨hy, hx2⟩
            · rintro ⟨hx1, hx2⟩
              refine ⟨mem_reown.mpr ⟨x, hx1, ?_⟩, hx2⟩
              have : (x.owner == c) = false := by
                simp only [beq_eq_false_iff_ne]; rw [hx2]; exact hdc
              rw [this]; rfl
      · -- one entry per id
        intro x hx y hy hs
        obtain ⟨x0, hx0, rfl⟩ := mem_reown.mp hx
        obtain ⟨y0, hy0, rfl⟩ := mem_reown.mp hy
        rw [hsid, hsid] at hs
        rw [hreg.1 x0 hx0 y0 hy0 hs]
      · intro x hx
        obtain ⟨x0, hx0, rfl⟩ := mem_reown.mp hx
        rw [hsid]; exact hreg.2.1 x0 hx0
      · intro x hx
        obtain ⟨x0, hx0, rfl⟩ := mem_reown.mp hx
        have := hreg.2.2 x0 hx0
        unfold expired at this ⊢
        rw [hexpi]; exact this
    · exact ⟨hviews, hreg⟩

end Aux

open Aux

/-! ### the obligations -/

/-- **Opt-in.** Whatever the method does, a session is added to the registry only if the request carried
`VGI-Session-Accept: true` (modulo case / surrounding space) and the worker is not draining. -/
theorem C27_optin {Wire : Type} [DecidableEq Wire] (C : Codec Wire) (cfg : Cfg) (wk : Nat) (W : World) (rq : Req Wire)
    (script : List Action) (swallow : Bool) (e : Entry)
    (he : e ∈ (serve C cfg wk W rq script swallow).1.reg.entries) (hnew : e ∉ W.reg.entries) :
    OptedIn rq ∧ W.reg.draining = false := by
  rcases serve_entries C cfg wk W rq script swallow e he with h | h
  · exact absurd h hnew
  · exact h

/-- **Drain.** While the worker drains: no request adds a session, no `open_session` succeeds, and an opted-in request
whose method starts by opening a session (nothing else forbidding it) is answered `server_draining`. -/
theorem C27_drain {Wire : Type} [DecidableEq Wire] (C : Codec Wire) (cfg : Cfg) (wk : Nat) (W : World) (rq : Req Wire)
    (script : List Action) (swallow : Bool) (hd : W.reg.draining = true) :
    (∀ e ∈ (serve C cfg wk W rq script swallow).1.reg.entries, e ∈ W.reg.entries) ∧
    (∀ o ∈ (serve C cfg wk W rq script swallow).2.log, ∀ sid, o ≠ .opened sid) ∧
    (OptedIn rq → rq.session = none → ∀ l ttl rest, script = .open l ttl :: rest → swallow = false →
      (serve C cfg wk W rq script swallow).2.outcome = .failed .draining) := by
  refine ⟨fun e he => ?_, ?_, ?_⟩
  · rcases serve_entries C cfg wk W rq script swallow e he with h | h
    · exact h
    · rw [hd] at h; cases h.2
  · have hres := resolve_entries C cfg W rq
    unfold serve
    generalize resolve C cfg W rq = res at hres
    obtain ⟨W₁, r⟩ := res
    have hd1 : W₁.reg.draining = true := by rw [hres.1]; exact hd
    cases r with
    | lost => intro o ho; simp at ho
    | fresh => exact run_draining_log cfg wk rq.ident rq.client swallow script W₁ _ hd1
    | resumed e0 => exact run_draining_log cfg wk rq.ident rq.client swallow script W₁ _ hd1
  · intro hopt hs l ttl rest hscr hsw
    subst hscr hsw
    have hr : resolve C cfg W rq = (W, .fresh) := by
      unfold resolve; rw [hs]
    unfold serve
    rw [hr]
    have ho : acceptOpens rq.accept = true := hopt
    simp [runScript, stepAction, stepActionP, ho, hd, shapes.2.2.2.2.1]

/-- **Existing sessions keep serving during drain.** Resolving a presented token does not look at the drain flag, and a
resumed session is handed to the method (`ctx.session`) exactly as when the worker is serving. -/
theorem C27_drain_serves {Wire : Type} [DecidableEq Wire] (C : Codec Wire) (cfg : Cfg) (wk : Nat) (W : World) (rq : Req Wire)
    (e : Entry) (swallow : Bool) (hres : (resolve C cfg W rq).2 = .resumed e) :
    (resolve C cfg { W with reg := { W.reg with draining := true } } rq).2 = .resumed e ∧
    (serve C cfg wk { W with reg := { W.reg with draining := true } } rq [.use] swallow).2.outcome = .ok ∧
    (serve C cfg wk { W with reg := { W.reg with draining := true } } rq [.use] swallow).2.log = [.used (some e.state)] := by
  have key : resolve C cfg { W with reg := { W.reg with draining := true } } rq =
      ({ W with reg := { W.reg with draining := true } }, .resumed e) := by
    rcases resolve_spec C cfg W rq with ⟨_, hr⟩ | ⟨_, _, hr⟩ | ⟨_, _, _, _, _, _, _, _, _, _, _, _, hr⟩ |
        ⟨w, t, sidB, sid, ex, e', hw, hd, hts, ho, hsrv, hf, hx, hp, hr⟩
    · rw [hr] at hres; cases hres
    · rw [hr] at hres; cases hres
    · rw [hr] at hres; cases hres
    · rw [hr] at hres
      cases hres
      unfold resolve
      simp only [Reg.getLive_eq, hw, ho]
      have hsrv' : ¬(checkServerId = true ∧ asciiReplaceUtf8 sidB ≠ cfg.serverId) := fun h => h.2 (hsrv h.1)
      rw [if_neg hsrv']
      have hg : ({ W.reg with draining := true } : Reg).get sid (pkey rq.ident) W.env.now =
          ({ W.reg with draining := true }, some e, []) := by
        unfold Reg.get
        have hf' : ({ W.reg with draining := true } : Reg).find sid = some e := hf
        rw [hf']
        simp only [hx, Bool.false_eq_true, if_false]
        have hp' : ¬(checkPrincipal = true ∧ e.pkey ≠ pkey rq.ident) := fun h => h.2 (hp h.1)
        rw [if_neg hp']
      rw [hg]
      simp
  refine ⟨by rw [key], ?_, ?_⟩
  · unfold serve; rw [key]; simp [runScript, stepAction, stepActionP]
  · unfold serve; rw [key]; simp [runScript, stepAction, stepActionP]

/-- **The client-view theorem.** After ANY action script (aborting or swallowing), sent through a view, the client's
token is exactly the session the registry keeps live for that view: none if none, never an orphan, never stale —
provided the session the client's token designates had not expired when the request arrived. -/
theorem C27_view {Wire : Type} [DecidableEq Wire] (C : Codec Wire) (cfg : Cfg) (wk : Nat) (W : World) (v : View Wire)
    (ident : Identity) (c : Nat) (script : List Action) (swallow : Bool)
    (hseal : ∀ a ∈ script, SealFits cfg W.env.now a) (hapi : ∀ a ∈ script, a.isApi = true)
    (hexp : ∀ e ∈ W.reg.entries, (∃ w, v.token = some w ∧ Designates C w e.sid) → expired e W.env.now = false)
    (hok : ViewOK C W.reg c v) :
    ViewOK C (viewCall C cfg wk W v ident c script swallow).1.reg c (viewCall C cfg wk W v ident c script swallow).2.1 :=
  C27_view_aux C cfg wk W v ident c script swallow hseal hapi hexp hok

/-- **Never an orphan**, unconditionally (also when the client's token is stale or expired server-side): every live
session of the view is the one the client's token designates. -/
theorem C27_no_orphan {Wire : Type} [DecidableEq Wire] (C : Codec Wire) (cfg : Cfg) (wk : Nat) (W : World) (v : View Wire)
    (ident : Identity) (c : Nat) (script : List Action) (swallow : Bool)
    (hseal : ∀ a ∈ script, SealFits cfg W.env.now a) (hno : NoOrphan C W.reg c v) :
    NoOrphan C (viewCall C cfg wk W v ident c script swallow).1.reg c (viewCall C cfg wk W v ident c script swallow).2.1 :=
  (view_step C cfg wk W v ident c script swallow False hseal (fun h => h.elim) (fun h => h.elim) hno (fun h => h.elim)).1

/-- **Cleared on close**, whatever happens to the registry meanwhile.  Once the method has called `ctx.close_session()` and
does not open a session afterwards, the response carries `VGI-Session-Close` and the client's view ends with no token —
also when the session it closes was already gone (TTL reaper, `shutdown()`, another holder of the token ended it while
the method was running), and whatever the rest of the method (`post`: anything but `open_session`, environment included). -/
theorem C27_close_clears {Wire : Type} (C : Codec Wire) (cfg : Cfg) (wk : Nat) (ident : Identity) (c : Nat) (swallow : Bool)
    (W : World) (rs : RS) (post : List Action) (v : View Wire) (o : Outcome) (log : List ActOut)
    (hpost : ∀ a ∈ post, ∀ l ttl, a ≠ .open l ttl) :
    let st := stepAction cfg wk ident c W rs .close
    let fin := runScript cfg wk ident c swallow st.1 st.2.1 post
    (capture v ⟨o, if emitSession then fin.2.1.mint.map C.enc else none, emitClose && fin.2.1.closed, log⟩).token = none := by
  intro st fin
  have hno : ∀ a ∈ post, notOpen a = true := by
    intro a ha
    cases a with
    | «open» l ttl => exact absurd rfl (hpost _ ha l ttl)
    | close => rfl
    | use => rfl
    | noop => rfl
    | reap at_ => rfl
    | shutdown => rfl
  have hc : fin.2.1.closed = true :=
    run_keeps_closed cfg wk ident c swallow post hno st.1 st.2.1 (close_sets_closed cfg wk ident c W rs)
  rw [capture_eq]
  simp [emitClose_true, hc]

/-- **All view sequences.** Start from an empty registry and empty views; let any number of views call any scripts
(aborting or swallowing), hand their tokens over to new views (`detach()` + `with_session_token(token=…)`), and let the
operator flip the drain flag, in any order.  After every step every view holds exactly the token of the session the
registry keeps live for it.  (Side conditions `RunOK`: sealing in range, id space not exhausted; the clock stands still,
so nothing ends behind a client's back — for that case see `C27_no_orphan`.) -/
theorem C27_view_history {Wire : Type} [DecidableEq Wire] (C : Codec Wire) (cfg : Cfg) (wk : Nat) (ops : List SysOp) :
    ∀ (s : Sys Wire), s.W.reg.entries = [] → (∀ c, (s.views c).token = none) → RunOK C cfg wk s ops →
      ∀ c, ViewOK C (s.run C cfg wk ops).W.reg c ((s.run C cfg wk ops).views c) := by
  have key : ∀ (ops : List SysOp) (s : Sys Wire), HInv C s → RunOK C cfg wk s ops → HInv C (s.run C cfg wk ops) := by
    intro ops
    induction ops with
    | nil => intro s h _; exact h
    | cons op ops ih =>
      intro s h hok
      exact ih _ (step_HInv C cfg wk s op h hok.1) hok.2
  intro s hempty hviews hok
  have h0 : HInv C s := by
    refine ⟨fun c => ⟨fun x hx => ?_, fun w hw => ?_⟩, fun x hx => ?_, fun x hx => ?_, fun x hx => ?_⟩
    · rw [mem_liveOf, hempty] at hx; cases hx.1
    · rw [hviews c] at hw; cases hw
    · rw [hempty] at hx; cases hx
    · rw [hempty] at hx; cases hx
    · rw [hempty] at hx; cases hx
  exact (key ops s h0 hok).1

/-! ### non-vacuity: a history satisfying `RunOK` in which views do hold sessions -/
namespace NonVacuity

abbrev DWire := Tok × Bool
def codec : Codec DWire := { enc := fun t => (t, true), dec := fun w => some w.1, dec_enc := fun _ => rfl }
def cfg : Cfg := ⟨[119, 48], 0, 300⟩
def s0 : Sys DWire := { W := { reg := {}, env := ⟨1000, 0, 0⟩ }, views := fun _ => {} }
/-- view 1 opens; closes-and-reopens in one request; hands over to view 2; view 2 uses, then closes and opens again -/
def ops : List SysOp :=
  [.call 1 .anon [.open 1 none] false, .call 1 .anon [.close, .open 2 none, .use] false, .handoff 1 2,
   .call 2 .anon [.use] true, .setDraining true, .call 2 .anon [.open 3 none] false, .setDraining false,
   .call 2 .anon [.close, .open 4 (some 5)] true]

example : RunOK codec cfg 0 s0 ops := by
  simp only [ops, RunOK, OpOK, List.forall_mem_cons, List.not_mem_nil, false_imp_iff, implies_true, and_true, SealFits, TtlNonneg, List.length_cons, List.length_nil]
  decide

example : ((s0.run codec cfg 0 ops).views 2).token.isSome = true ∧ ((s0.run codec cfg 0 ops).views 1).token = none ∧
    (liveOf (s0.run codec cfg 0 ops).W.reg 2).length = 1 := by decide

end NonVacuity

end VgiVerif.C27
