import VgiVerif.Model.C30Http
import VgiVerif.Proofs.C30
/-
C30 over HTTP — the offloaded wire read by the HTTP client observes what the inline wire does, for every break decision
(cap / codec / number of turns), threshold, codec of the object, store and step script.

Method: *flattening*.  Replacing every pointer by what it resolves to (`flat`) turns the offloaded wire into the inline wire
of a step script in which the offloaded steps have their post-logs moved before the data batch (`mergePost`) — and each
X-reader on the wire equals the Engine reader on the flattened wire.  The Engine refinement theorems then apply verbatim.
-/
namespace VgiVerif.C30
open VgiVerif.Engine

namespace AuxH
open Aux

/-- a pointer stands for the logs it carries followed by its data batch -/
def flat (R : Resolver) : List WItem → List Item
  | [] => []
  | .plain i :: r => i :: flat R r
  | .ptr q :: r =>
    match R q with
    | .ok (logs, b) => logItems logs ++ (.data b :: flat R r)
    | .error _ => flat R r

def Resolves (R : Resolver) (w : List WItem) : Prop := ∀ q, WItem.ptr q ∈ w → ∃ x, R q = .ok x

theorem flat_append (R : Resolver) (a b : List WItem) : flat R (a ++ b) = flat R a ++ flat R b := by
  induction a with
  | nil => rfl
  | cons x r ih =>
    cases x with
    | plain i => simp [flat, ih]
    | ptr q =>
      simp only [List.cons_append, flat]
      cases R q with
      | ok p => obtain ⟨logs, b⟩ := p; simp [ih]
      | error e => simp [ih]

theorem flat_plain (R : Resolver) (items : List Item) : flat R (items.map .plain) = items := by
  induction items with
  | nil => rfl
  | cons i r ih => simp [flat, ih]

theorem resolves_plain (R : Resolver) (items : List Item) : Resolves R (items.map .plain) := by
  intro q hq
  simp at hq

theorem resolves_append (R : Resolver) (a b : List WItem) (ha : Resolves R a) (hb : Resolves R b) : Resolves R (a ++ b) := by
  intro q hq
  rcases List.mem_append.1 hq with h | h
  · exact ha q h
  · exact hb q h

theorem resolves_tail (R : Resolver) (x : WItem) (r : List WItem) (h : Resolves R (x :: r)) : Resolves R r :=
  fun q hq => h q (List.mem_cons_of_mem _ hq)

/-! ### each X-reader = the Engine reader on the flattened wire -/

theorem followX_flat (R : Resolver) (server : Nat → List WItem) (hs : ∀ pos, Resolves R (server pos)) :
    ∀ (fuel : Nat) (w : List WItem), Resolves R w →
      Http.followX R server fuel w = Engine.Http.follow (fun p => flat R (server p)) fuel (flat R w) := by
  intro fuel
  induction fuel with
  | zero =>
    intro w
    induction w with
    | nil => intro _; simp [Http.followX, flat, Engine.Http.follow]
    | cons x r ih =>
      intro hw
      have ih' := ih (resolves_tail R x r hw)
      cases x with
      | plain i =>
        cases i with
        | log l => simp [Http.followX, flat, Engine.Http.follow, ih']
        | data b => simp [Http.followX, flat, Engine.Http.follow, ih']
        | err e => simp [Http.followX, flat, Engine.Http.follow]
        | token p => simp [Http.followX, flat, Engine.Http.follow]
      | ptr q =>
        obtain ⟨⟨logs, b⟩, hq⟩ := hw q (by simp)
        simp only [Http.followX, flat, hq]
        rw [Engine.Aux.follow_logs, Engine.Aux.follow_data, ih']
        rfl
  | succ n ihn =>
    intro w
    induction w with
    | nil => intro _; simp [Http.followX, flat, Engine.Http.follow]
    | cons x r ih =>
      intro hw
      have ih' := ih (resolves_tail R x r hw)
      cases x with
      | plain i =>
        cases i with
        | log l => simp [Http.followX, flat, Engine.Http.follow, ih']
        | data b => simp [Http.followX, flat, Engine.Http.follow, ih']
        | err e => simp [Http.followX, flat, Engine.Http.follow]
        | token p => simp [Http.followX, flat, Engine.Http.follow, ihn (server p) (hs p)]
      | ptr q =>
        obtain ⟨⟨logs, b⟩, hq⟩ := hw q (by simp)
        simp only [Http.followX, flat, hq]
        rw [Engine.Aux.follow_logs, Engine.Aux.follow_data, ih']
        rfl

theorem parseInit_logs (ls : List Log) (xs : List Item) :
    Engine.Http.parseInit (logItems ls ++ xs) =
      { Engine.Http.parseInit xs with evs := Sem.lg ls ++ (Engine.Http.parseInit xs).evs } := by
  induction ls with
  | nil => simp [logItems, Sem.lg]
  | cons l r ih =>
    simp only [logItems, List.map_cons, List.cons_append, Engine.Http.parseInit, Sem.lg] at ih ⊢
    rw [ih]

theorem parseInitX_flat (R : Resolver) : ∀ (w : List WItem), Resolves R w →
    (Http.parseInitX R w).failed = false ∧
    (Http.parseInitX R w).evs = (Engine.Http.parseInit (flat R w)).evs ∧
    (Http.parseInitX R w).pending = (Engine.Http.parseInit (flat R w)).pending ∧
    (Http.parseInitX R w).cursor = (Engine.Http.parseInit (flat R w)).cursor ∧
    (Http.parseInitX R w).err = (Engine.Http.parseInit (flat R w)).err := by
  intro w
  induction w with
  | nil => intro _; simp [Http.parseInitX, flat, Engine.Http.parseInit]
  | cons x r ih =>
    intro hw
    obtain ⟨i0, i1, i2, i3, i4⟩ := ih (resolves_tail R x r hw)
    cases x with
    | plain i =>
      cases i with
      | log l => simp [Http.parseInitX, flat, Engine.Http.parseInit, i0, i1, i2, i3, i4]
      | data b => simp [Http.parseInitX, flat, Engine.Http.parseInit, i0, i1, i2, i3, i4]
      | err e => simp [Http.parseInitX, flat, Engine.Http.parseInit]
      | token p => simp [Http.parseInitX, flat, Engine.Http.parseInit]
    | ptr q =>
      obtain ⟨⟨logs, b⟩, hq⟩ := hw q (by simp)
      simp only [Http.parseInitX, flat, hq, parseInit_logs, Engine.Http.parseInit]
      simp [i0, i1, i2, i3, i4, Sem.lg]

/-! ### the offloaded wire flattens to the inline wire of the routed script -/

def mergePost (s : Step) : Step := { s with logs := s.logs ++ s.post, post := [] }

/-- `o` is what the server wrote for step `s`; `s'` is the step whose INLINE output is the flattening of `o` -/
def RelStepH (R : Resolver) (s : Step) (o : StepOutX) (s' : Step) : Prop :=
  (o = plainOut (processStep s) ∧ s' = s) ∨
  ∃ q b, R q = .ok (s.logs ++ s.post, b) ∧ s' = mergePost s ∧
    ((s.act = .emit b ∧ o = .cont [.ptr q]) ∨ (s.act = .emitFinish b ∧ o = .done [.ptr q]))

def RelAllH (R : Resolver) : List Step → List StepOutX → List Step → Prop
  | [], [], [] => True
  | s :: ss, o :: os, t :: ts => RelStepH R s o t ∧ RelAllH R ss os ts
  | _, _, _ => False

theorem relAll_toH (R : Resolver) : ∀ (steps : List Step) (outs : List StepOutX), RelAll R false steps outs →
    ∃ steps', RelAllH R steps outs steps' := by
  intro steps
  induction steps with
  | nil =>
    intro outs h
    cases outs with
    | nil => exact ⟨[], trivial⟩
    | cons o os => exact absurd h (by simp [RelAll])
  | cons s r ih =>
    intro outs h
    cases outs with
    | nil => exact absurd h (by simp [RelAll])
    | cons o os =>
      obtain ⟨hs, hr⟩ := h
      obtain ⟨ts, hts⟩ := ih os hr
      rcases hs with h1 | ⟨q, b, hR, h2 | h2⟩
      · exact ⟨s :: ts, Or.inl ⟨by simpa [stepOut] using h1, rfl⟩, hts⟩
      · exact ⟨mergePost s :: ts, Or.inr ⟨q, b, hR, rfl, Or.inl h2⟩, hts⟩
      · exact ⟨mergePost s :: ts, Or.inr ⟨q, b, hR, rfl, Or.inr ⟨h2.2.1, h2.2.2⟩⟩, hts⟩

theorem relAllH_length (R : Resolver) : ∀ (steps : List Step) (outs : List StepOutX) (ts : List Step),
    RelAllH R steps outs ts → outs.length = ts.length := by
  intro steps
  induction steps with
  | nil =>
    intro outs ts h
    cases outs <;> cases ts <;> simp_all [RelAllH]
  | cons s r ih =>
    intro outs ts h
    cases outs with
    | nil => cases ts <;> simp_all [RelAllH]
    | cons o os =>
      cases ts with
      | nil => simp_all [RelAllH]
      | cons t ts' => simp only [RelAllH] at h; simp [ih os ts' h.2]

theorem relAllH_drop (R : Resolver) : ∀ (n : Nat) (steps : List Step) (outs : List StepOutX) (ts : List Step),
    RelAllH R steps outs ts → RelAllH R (steps.drop n) (outs.drop n) (ts.drop n) := by
  intro n
  induction n with
  | zero => intro steps outs ts h; simpa using h
  | succ n ih =>
    intro steps outs ts h
    cases steps with
    | nil => cases outs <;> cases ts <;> simp_all [RelAllH]
    | cons s r =>
      cases outs with
      | nil => cases ts <;> simp_all [RelAllH]
      | cons o os =>
        cases ts with
        | nil => simp_all [RelAllH]
        | cons t ts' =>
          simp only [RelAllH] at h
          simpa using ih r os ts' h.2

/-- flattening one step's output gives the inline output of the routed step, constructor included -/
theorem relStepH_flat (R : Resolver) (s : Step) (o : StepOutX) (t : Step) (h : RelStepH R s o t) :
    (∃ items, o = .cont items ∧ Resolves R items ∧ processStep t = .cont (flat R items)) ∨
    (∃ items, o = .done items ∧ Resolves R items ∧ processStep t = .done (flat R items)) ∨
    (∃ items, o = .fail items ∧ Resolves R items ∧ processStep t = .fail (flat R items)) := by
  rcases h with ⟨h1, h2⟩ | ⟨q, b, hR, h2, h3 | h3⟩
  · subst h2
    cases hp : processStep t with
    | cont items => left; exact ⟨_, by rw [h1, hp]; rfl, resolves_plain R items, by rw [flat_plain]⟩
    | done items => right; left; exact ⟨_, by rw [h1, hp]; rfl, resolves_plain R items, by rw [flat_plain]⟩
    | fail items => right; right; exact ⟨_, by rw [h1, hp]; rfl, resolves_plain R items, by rw [flat_plain]⟩
  · left
    refine ⟨[.ptr q], h3.2, ?_, ?_⟩
    · intro q' hq'
      simp at hq'
      subst hq'
      exact ⟨_, hR⟩
    · subst h2
      simp [processStep, mergePost, h3.1, flat, hR, logItems]
  · right; left
    refine ⟨[.ptr q], h3.2, ?_, ?_⟩
    · intro q' hq'
      simp at hq'
      subst hq'
      exact ⟨_, hR⟩
    · subst h2
      simp [processStep, mergePost, h3.1, flat, hR, logItems]

theorem turnX_flat (R : Resolver) (brk : Nat → Bool) : ∀ (steps : List Step) (outs : List StepOutX) (ts : List Step) (pos : Nat),
    RelAllH R steps outs ts →
      Resolves R (Http.turnX brk pos outs) ∧ flat R (Http.turnX brk pos outs) = Engine.Http.turn brk pos ts := by
  intro steps
  induction steps with
  | nil =>
    intro outs ts pos h
    cases outs <;> cases ts <;> simp_all [RelAllH, Http.turnX, Engine.Http.turn, flat, Resolves]
  | cons s r ih =>
    intro outs ts pos h
    cases outs with
    | nil => cases ts <;> simp_all [RelAllH]
    | cons o os =>
      cases ts with
      | nil => simp_all [RelAllH]
      | cons t ts' =>
        simp only [RelAllH] at h
        obtain ⟨hs, hr⟩ := h
        obtain ⟨ir, ifl⟩ := ih os ts' (pos + 1) hr
        rcases relStepH_flat R s o t hs with ⟨items, ho, hres, hp⟩ | ⟨items, ho, hres, hp⟩ | ⟨items, ho, hres, hp⟩
        · subst ho
          simp only [Http.turnX, Engine.Http.turn, hp]
          cases hb : brk pos with
          | true =>
            simp only [if_true]
            refine ⟨resolves_append R _ _ hres (by intro q hq; simp at hq), ?_⟩
            rw [flat_append]; rfl
          | false =>
            simp only [Bool.false_eq_true, if_false]
            refine ⟨resolves_append R _ _ hres ir, ?_⟩
            rw [flat_append, ifl]
        · subst ho
          simp only [Http.turnX, Engine.Http.turn, hp]
          refine ⟨hres, ?_⟩
          first | rfl | trivial
        · subst ho
          simp only [Http.turnX, Engine.Http.turn, hp]
          refine ⟨hres, ?_⟩
          first | rfl | trivial

/-! ### moving post-logs before the data batch does not change the observation -/

theorem producer_routed (R : Resolver) : ∀ (steps : List Step) (outs : List StepOutX) (ts : List Step),
    RelAllH R steps outs ts → obs (Sem.producer false ts) = obs (Sem.producer false steps) := by
  intro steps
  induction steps with
  | nil =>
    intro outs ts h
    cases outs <;> cases ts <;> simp_all [RelAllH]
  | cons s r ih =>
    intro outs ts h
    cases outs with
    | nil => cases ts <;> simp_all [RelAllH]
    | cons o os =>
      cases ts with
      | nil => simp_all [RelAllH]
      | cons t ts' =>
        simp only [RelAllH] at h
        obtain ⟨hs, hr⟩ := h
        obtain ⟨i1, i2, i3⟩ := (obs_eq_iff _ _).1 (ih os ts' hr)
        rcases hs with ⟨_, h2⟩ | ⟨q, b, _, h2, h3 | h3⟩
        · subst h2
          cases hact : t.act <;> simp only [Sem.producer, hact] <;>
            (apply obs_of_parts <;> (try obs_simp) <;> (try simp only [i1, i2, i3]))
        · subst h2
          simp only [Sem.producer, mergePost, h3.1]
          apply obs_of_parts <;> (try obs_simp) <;> (try simp only [i1, i2, i3, Engine.Aux.lg_append]) <;> (try obs_simp)
          all_goals simp [Sem.lg]
        · subst h2
          simp only [Sem.producer, mergePost, h3.1]
          apply obs_of_parts <;> (try obs_simp) <;> (try simp only [Engine.Aux.lg_append]) <;> (try obs_simp)
          all_goals simp [Sem.lg]

/-! ### exchange over HTTP -/

theorem trailingX_logs (ls : List Log) : Http.trailingX (plainLogs ls) = Sem.lg ls := by
  induction ls with
  | nil => rfl
  | cons l r ih => simp only [plainLogs, logItems, List.map_cons, Http.trailingX, Sem.lg] at ih ⊢; rw [ih]

theorem readExchangeX_logs (R : Resolver) (ls : List Log) (xs : List WItem) :
    Http.readExchangeX R (plainLogs ls ++ xs) = (Sem.lg ls ++ (Http.readExchangeX R xs).1, (Http.readExchangeX R xs).2) := by
  induction ls with
  | nil => simp [plainLogs, logItems, Sem.lg]
  | cons l r ih =>
    simp only [plainLogs, logItems, List.map_cons, List.cons_append, Http.readExchangeX, Sem.lg] at ih ⊢
    rw [ih]

theorem exchangeX_obs (R : Resolver) : ∀ (steps : List Step) (outs : List StepOutX),
    RelAll R true steps outs → obs (Http.exchangeAllX R outs) = obs (Sem.exchange false steps) := by
  intro steps
  induction steps with
  | nil =>
    intro outs h
    cases outs with
    | nil => rfl
    | cons o os => exact absurd h (by simp [RelAll])
  | cons s r ih =>
    intro outs h
    cases outs with
    | nil => exact absurd h (by simp [RelAll])
    | cons o os =>
      obtain ⟨hs, hr⟩ := h
      obtain ⟨i1, i2, i3⟩ := (obs_eq_iff _ _).1 (ih os hr)
      have failCase : ∀ e, stepOut true s = .fail [.err e] → o = plainOut (stepOut true s) →
          Http.exchangeAllX R (o :: os) = [errEv e] := by
        intro e he ho
        rw [ho, he]
        simp [plainOut, Http.exchangeAllX, Http.exchangeOneX, Http.readExchangeX]
      cases hact : s.act with
      | emit b =>
        have hso : stepOut true s = .cont (logItems s.logs ++ [Item.data b] ++ logItems s.post) := by
          simp [stepOut, processExchangeStep, processStep, hact]
        rcases hs with h1 | ⟨q, b', hR, h2 | h2⟩
        · rw [h1, hso]
          simp only [plainOut, Http.exchangeAllX, Http.exchangeOneX, plain_cycle]
          rw [readExchangeX_logs]
          simp only [Http.readExchangeX, trailingX_logs, Sem.exchange, hact]
          apply obs_of_parts <;> (try obs_simp) <;> (try simp only [i1, i2, i3])
        · obtain ⟨ha, ho⟩ := h2
          rw [hact] at ha
          cases ha
          rw [ho]
          simp only [Http.exchangeAllX, Http.exchangeOneX, Http.readExchangeX, hR, Http.trailingX, Sem.exchange, hact]
          apply obs_of_parts <;> (try obs_simp) <;> (try simp only [i1, i2, i3])
          all_goals simp [← Sem.lg.eq_1, Engine.Aux.lg_append] <;> (try obs_simp)
        · exact absurd h2.1 (by simp)
      | finish =>
        have hso : stepOut true s = .fail [.err finishOnExchangeExn] := by simp [stepOut, processExchangeStep, hact]
        rcases hs with h1 | ⟨q, b', hR, h2 | h2⟩
        · rw [failCase _ hso h1]; simp [Sem.exchange, hact, Sem.failLogs]
        · rw [hact] at h2; cases h2.1
        · exact absurd h2.1 (by simp)
      | emitFinish b =>
        have hso : stepOut true s = .fail [.err finishOnExchangeExn] := by simp [stepOut, processExchangeStep, hact]
        rcases hs with h1 | ⟨q, b', hR, h2 | h2⟩
        · rw [failCase _ hso h1]; simp [Sem.exchange, hact, Sem.failLogs]
        · rw [hact] at h2; cases h2.1
        · exact absurd h2.1 (by simp)
      | raise e =>
        have hso : stepOut true s = .fail [.err e] := by simp [stepOut, processExchangeStep, processStep, hact]
        rcases hs with h1 | ⟨q, b', hR, h2 | h2⟩
        · rw [failCase _ hso h1]; simp [Sem.exchange, hact, Sem.failLogs]
        · rw [hact] at h2; cases h2.1
        · exact absurd h2.1 (by simp)
      | nothing =>
        have hso : stepOut true s = .fail [.err noDataExn] := by simp [stepOut, processExchangeStep, processStep, hact]
        rcases hs with h1 | ⟨q, b', hR, h2 | h2⟩
        · rw [failCase _ hso h1]; simp [Sem.exchange, hact, Sem.failLogs]
        · rw [hact] at h2; cases h2.1
        · exact absurd h2.1 (by simp)

theorem assembleX_eq (pX : Http.InitParseX) (p : Engine.Http.InitParse) (after : Nat → List Ev)
    (h0 : pX.failed = false) (h1 : pX.evs = p.evs) (h2 : pX.pending = p.pending) (h3 : pX.cursor = p.cursor)
    (h4 : pX.err = p.err) : Http.assembleX pX after = Engine.Http.assemble p after := by
  obtain ⟨evs, pending, cursor, err⟩ := p
  obtain ⟨evsX, pendingX, cursorX, errX, failedX⟩ := pX
  simp only at h0 h1 h2 h3 h4
  subst h0 h1 h2 h3 h4
  cases errX <;> cases cursorX <;> simp [Http.assembleX, Engine.Http.assemble]

theorem iterateX_eq (R : Resolver) (brk : Nat → Bool) (il : List Log) (steps : List Step) (outs : List StepOutX)
    (ts : List Step) (h : RelAllH R steps outs ts) :
    Http.iterateX R brk il outs = Engine.Http.iterate brk il ts := by
  have hlen := relAllH_length R steps outs ts h
  have hserver : ∀ pos, Resolves R (Http.serveContinuationX brk outs pos) ∧
      flat R (Http.serveContinuationX brk outs pos) = Engine.Http.serveContinuation brk ts pos := by
    intro pos
    exact turnX_flat R brk (steps.drop pos) (outs.drop pos) (ts.drop pos) pos (relAllH_drop R pos steps outs ts h)
  have hfun : (fun p => flat R (Http.serveContinuationX brk outs p)) = Engine.Http.serveContinuation brk ts := by
    funext p; exact (hserver p).2
  obtain ⟨tr, tf⟩ := turnX_flat R brk steps outs ts 0 h
  have hres : Resolves R (Http.initBodyX brk il outs) := resolves_append R _ _ (resolves_plain R _) tr
  have hflat : flat R (Http.initBodyX brk il outs) = Engine.Http.initBody brk il ts := by
    simp only [Http.initBodyX, Engine.Http.initBody, flat_append, flat_plain, tf]
  obtain ⟨p0, p1, p2, p3, p4⟩ := parseInitX_flat R _ hres
  rw [hflat] at p1 p2 p3 p4
  unfold Http.iterateX Engine.Http.iterate
  rw [assembleX_eq _ _ _ p0 p1 p2 p3 p4]
  congr 1
  funext pos
  rw [followX_flat R _ (fun p => (hserver p).1) _ _ (hserver pos).1, hfun, (hserver pos).2, hlen]

end AuxH

open Aux AuxH

/-! ## Obligations: transparency over HTTP -/

/-- **producer streams over HTTP**: for EVERY break-decision function (every `max_response_bytes`, response codec and
number of continuation turns), every offload configuration, size function, environment, store, init logs and step script with
legal log levels, the HTTP client reading the possibly-offloaded response bodies observes what it observes inline -/
theorem C30_http_producer_transparent {B : Type} (env : Env B) (st : Storage B) (cfg : Cfg) (size : Batch → Nat)
    (schema : Nat) (s0 : st.S) (mr : Int) (brk : Nat → Bool) (initLogs : List Log) (steps : List Step)
    (hv : ∀ x ∈ steps, Spec.ValidStep x)
    (s' : st.S) (hk : Spec.Keeps st (serveAll env st cfg size schema false s0 steps).1 s') :
    Spec.Transparent
      (Http.iterateX (resolverAt env st s' mr) brk initLogs (serveAll env st cfg size schema false s0 steps).2)
      (Engine.Http.iterate brk initLogs steps) := by
  unfold Spec.Transparent
  have hrel := (serveAll_rel env st cfg size schema false mr steps s0 hv).2 s' hk
  obtain ⟨ts, hH⟩ := relAll_toH _ steps _ hrel
  rw [iterateX_eq _ brk initLogs steps _ ts hH, Engine.http_producer_refines, Engine.http_producer_refines]
  exact Engine.Aux.obs_append_congr _ _ _ _ rfl (producer_routed _ steps _ ts hH)

/-- **exchange streams over HTTP** (one request per input) -/
theorem C30_http_exchange_transparent {B : Type} (env : Env B) (st : Storage B) (cfg : Cfg) (size : Batch → Nat)
    (schema : Nat) (s0 : st.S) (mr : Int) (steps : List Step) (hv : ∀ x ∈ steps, Spec.ValidStep x)
    (s' : st.S) (hk : Spec.Keeps st (serveAll env st cfg size schema true s0 steps).1 s') :
    Spec.Transparent
      (Http.exchangeAllX (resolverAt env st s' mr) (serveAll env st cfg size schema true s0 steps).2)
      (Engine.Http.exchangeAll steps) := by
  unfold Spec.Transparent
  rw [Engine.http_exchange_refines]
  exact exchangeX_obs _ steps _ ((serveAll_rel env st cfg size schema true mr steps s0 hv).2 s' hk)

/-- **C01 with offload**: socket family and HTTP, each with its own offload configuration and break decisions, agree -/
theorem C30_transport_independent {B : Type} (env : Env B) (st : Storage B) (cfg₁ cfg₂ : Cfg) (size : Batch → Nat)
    (schema : Nat) (s₁ s₂ : st.S) (mr : Int) (brk : Nat → Bool) (initLogs : List Log) (steps : List Step)
    (hv : ∀ x ∈ steps, Spec.ValidStep x) :
    obs (Http.iterateX (resolverAt env st (serveAll env st cfg₁ size schema false s₁ steps).1 mr) brk initLogs
          (serveAll env st cfg₁ size schema false s₁ steps).2)
      = obs (Pipe.iterate (resolverAt env st (serveAll env st cfg₂ size schema false s₂ steps).1 mr)
          ((logItems initLogs).map .plain) (serveAll env st cfg₂ size schema false s₂ steps).2) := by
  have h1 := C30_http_producer_transparent env st cfg₁ size schema s₁ mr brk initLogs steps hv _ (keeps_refl st _)
  have h2 := C30_pipe_producer_transparent env st cfg₂ size schema s₂ mr initLogs steps hv _ (keeps_refl st _)
  unfold Spec.Transparent at h1 h2
  rw [h1, h2, Engine.C01_producer]

/-- non-vacuity: the hypotheses are satisfiable — the toy environment and store, threshold 0, a two-step script -/
example : ∃ (steps : List Step), steps.length = 2 ∧ (∀ x ∈ steps, Spec.ValidStep x) ∧
    (serveAll Toy.env Toy.storage ⟨true, 0, none⟩ (fun b => 8 * b.rows) 0 false ([] : List (Obj Toy.TB)) steps).1.length = 2 :=
  ⟨[⟨[⟨"INFO".toList, "a".toList, []⟩], .emit ⟨1, 3, []⟩, [⟨"WARN".toList, "p".toList, []⟩]⟩, ⟨[], .emitFinish ⟨2, 1, []⟩, []⟩],
   rfl, by
     intro x hx
     simp only [List.mem_cons, List.mem_nil_iff, or_false] at hx
     rcases hx with rfl | rfl <;> constructor <;> intro l hl <;> simp at hl <;> (try subst hl) <;> (show Gen.C30.logLevels.contains _ = true) <;> decide,
   by decide⟩

end VgiVerif.C30
