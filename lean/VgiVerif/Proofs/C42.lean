import VgiVerif.Model.C42
import VgiVerif.Spec.C42
import VgiVerif.Lemmas.Sched
/-
C42 proofs: invariants of the notification protocol over EVERY reachable state of the transition system
(any number of threads, any interleaving, any hook outcomes), the per-call contract, the refire paths, and
trace inclusion of every run in the spec monitor.
-/
namespace VgiVerif.C42
open VgiVerif.Sched VgiVerif.Gen.C42

namespace Aux

/-! ### inversion of `cstep` -/

section Inv
variable {p : Bool} {s s' : St} {t : Tid}

theorem step_req (h : cstep p s (.req t) = some s') :
    s.pc t = .idle ∧ s' = { s with pc := upd s.pc t .mwRead } := by
  simp only [cstep] at h
  split at h
  · next hp => cases h; exact ⟨hp, rfl⟩
  · cases h

theorem step_serve {b : B} (h : cstep p s (.serve t b) = some s') :
    s.pc t = .idle ∧ s' = { s with pc := upd s.pc t (.want b) } := by
  simp only [cstep] at h
  split at h
  · next hp => cases h; exact ⟨hp, rfl⟩
  · cases h

theorem step_rdKind {v : Option Kind} (h : cstep p s (.rdKind t v) = some s') :
    v = s.kind ∧
    ((s.pc t = .mwRead ∧ s' = { s with pc := upd s.pc t (if v = none then .want httpB else .serving) }) ∨
     (∃ b, s.pc t = .locked b ∧ s' = { s with pc := upd s.pc t (if v = some b.kind then .kindEq b else .differ b) }) ∨
     (s.pc t = .serving ∧ s' = s)) := by
  simp only [cstep] at h
  split at h
  · next hv =>
    refine ⟨hv, ?_⟩
    split at h
    · next hp => cases h; exact Or.inl ⟨hp, rfl⟩
    · next b hp => cases h; exact Or.inr (Or.inl ⟨b, hp, rfl⟩)
    · next hp => cases h; exact Or.inr (Or.inr ⟨hp, rfl⟩)
    · cases h
  · cases h

theorem step_rdCaps {c : Caps} (h : cstep p s (.rdCaps t c) = some s') :
    c = s.caps ∧
    ((∃ b, s.pc t = .kindEq b ∧ s' = { s with pc := upd s.pc t (if c = b.caps then .leaving b else .differ b) }) ∨
     (s.pc t = .serving ∧ s' = s)) := by
  simp only [cstep] at h
  split at h
  · next hv =>
    refine ⟨hv, ?_⟩
    split at h
    · next b hp => cases h; exact Or.inl ⟨b, hp, rfl⟩
    · next hp => cases h; exact Or.inr ⟨hp, rfl⟩
    · cases h
  · cases h

theorem step_acq (h : cstep p s (.acq t) = some s') :
    ∃ b, s.pc t = .want b ∧ s.lock.owner = none ∧
      s' = { s with lock := ⟨some t⟩, pc := upd s.pc t (.locked b), atAcq := s.bound, ranHook := false } := by
  simp only [cstep] at h
  split at h
  · next b hp =>
    split at h
    · next l hl =>
      cases h
      obtain ⟨ho, rfl⟩ := Lock.acquire_eq_some.1 hl
      exact ⟨b, hp, ho, rfl⟩
    · cases h
  · cases h

theorem step_rel (h : cstep p s (.rel t) = some s') :
    s.lock.owner = some t ∧
    ((∃ b, s.pc t = .leaving b ∧ s' = { s with lock := ⟨none⟩, pc := upd s.pc t .serving }) ∨
     (∃ b, s.pc t = .raised b ∧ s' = { s with lock := ⟨none⟩, pc := upd s.pc t .failing })) := by
  simp only [cstep] at h
  split at h
  · next l hl =>
    obtain ⟨ho, rfl⟩ := Lock.release_eq_some.1 hl
    refine ⟨ho, ?_⟩
    split at h
    · next b hp => cases h; exact Or.inl ⟨b, hp, rfl⟩
    · next b hp => cases h; exact Or.inr ⟨b, hp, rfl⟩
    · cases h
  · cases h

theorem step_hookStart {k : Kind} (h : cstep p s (.hookStart t k) = some s') :
    ∃ b, s.pc t = .differ b ∧ p = true ∧ k = b.kind ∧
      s' = { s with pc := upd s.pc t (.inHook b), ranHook := true } := by
  simp only [cstep] at h
  split at h
  · next b hp =>
    split at h
    · next hc => cases h; exact ⟨b, hp, hc.1, hc.2, rfl⟩
    · cases h
  · cases h

theorem step_hookOk {k : Kind} (h : cstep p s (.hookOk t k) = some s') :
    ∃ b, s.pc t = .inHook b ∧ k = b.kind ∧
      s' = { s with pc := upd s.pc t (.hooked b), pending := s.pending + 1, lastOk := some b,
                    fired := fun k' => if k' = b.kind then true else s.fired k', hookOks := s.hookOks + 1 } := by
  simp only [cstep] at h
  split at h
  · next b hp =>
    split at h
    · next hc => cases h; exact ⟨b, hp, hc, rfl⟩
    · cases h
  · cases h

theorem step_hookRaise {k : Kind} (h : cstep p s (.hookRaise t k) = some s') :
    ∃ b, s.pc t = .inHook b ∧ k = b.kind ∧
      s' = { s with pc := upd s.pc t (.raised b), hookRaises := s.hookRaises + 1 } := by
  simp only [cstep] at h
  split at h
  · next b hp =>
    split at h
    · next hc => cases h; exact ⟨b, hp, hc, rfl⟩
    · cases h
  · cases h

theorem step_wrKind {k : Kind} (h : cstep p s (.wrKind t k) = some s') :
    (∃ b, s.pc t = .hooked b ∧ k = b.kind ∧ s' = { s with kind := some k, pc := upd s.pc t (.half b) }) ∨
    (∃ b, s.pc t = .differ b ∧ p = false ∧ k = b.kind ∧
      s' = { s with kind := some k, pc := upd s.pc t (.half b), pending := s.pending + 1, lastOk := some b,
                    fired := fun k' => if k' = b.kind then true else s.fired k', skips := s.skips + 1 }) := by
  simp only [cstep] at h
  split at h
  · next b hp =>
    split at h
    · next hc => cases h; exact Or.inl ⟨b, hp, hc, rfl⟩
    · cases h
  · next b hp =>
    split at h
    · next hc =>
      cases h
      refine Or.inr ⟨b, hp, ?_, hc.2, rfl⟩
      have := hc.1; cases p <;> simp_all
    · cases h
  · cases h

theorem step_wrCaps {c : Caps} (h : cstep p s (.wrCaps t c) = some s') :
    ∃ b, s.pc t = .half b ∧ c = b.caps ∧
      s' = { s with caps := c, pc := upd s.pc t (.leaving b), pending := s.pending - 1, commits := s.commits + 1 } := by
  simp only [cstep] at h
  split at h
  · next b hp =>
    split at h
    · next hc => cases h; exact ⟨b, hp, hc, rfl⟩
    · cases h
  · cases h

theorem step_dispatch {k : Kind} {c : Caps} (h : cstep p s (.dispatch t k c) = some s') :
    s.pc t = .serving ∧ s.kind = some k ∧ s.caps = c ∧ s' = { s with dispatches := s.dispatches + 1 } := by
  simp only [cstep] at h
  split at h
  · next hp =>
    split at h
    · next hc => cases h; exact ⟨hp, hc.1, hc.2, rfl⟩
    · cases h
  · cases h

theorem step_done (h : cstep p s (.done t) = some s') :
    s.pc t = .serving ∧ s' = { s with pc := upd s.pc t .idle } := by
  simp only [cstep] at h
  split at h
  · next hp => cases h; exact ⟨hp, rfl⟩
  · cases h

theorem step_failed (h : cstep p s (.failed t) = some s') :
    s.pc t = .failing ∧ s' = { s with pc := upd s.pc t .idle } := by
  simp only [cstep] at h
  split at h
  · next hp => cases h; exact ⟨hp, rfl⟩
  · cases h

end Inv

/-! ### the invariant -/

/-- no commit in flight: the recorded binding is the one most recently justified by a hook success -/
def Settled (s : St) : Prop := s.pending = 0 ∧ s.bound = s.lastOk

/-- what holds while a thread with program counter `pc` owns the lock -/
def Rel (p : Bool) (s : St) : Pc → Prop
  | .locked _ => Settled s ∧ s.bound = s.atAcq ∧ s.ranHook = false
  | .kindEq b => Settled s ∧ s.bound = s.atAcq ∧ s.ranHook = false ∧ s.kind = some b.kind
  | .differ b => Settled s ∧ s.bound = s.atAcq ∧ s.ranHook = false ∧ s.bound ≠ some b
  | .inHook b => Settled s ∧ s.bound = s.atAcq ∧ s.ranHook = true ∧ s.bound ≠ some b ∧ p = true
  | .hooked b => s.pending = 1 ∧ s.lastOk = some b ∧ s.bound = s.atAcq ∧ s.bound ≠ some b ∧ s.ranHook = p ∧
      s.fired b.kind = true
  | .half b => s.pending = 1 ∧ s.lastOk = some b ∧ s.kind = some b.kind ∧ s.atAcq ≠ some b ∧ s.ranHook = p
  | .leaving b => Settled s ∧ s.bound = some b ∧ (if s.atAcq = some b then s.ranHook = false else s.ranHook = p)
  | .raised b => Settled s ∧ s.bound = s.atAcq ∧ s.ranHook = true ∧ s.bound ≠ some b ∧ p = true
  | _ => False

theorem rel_locked {p : Bool} {s : St} {b : B} :
    Rel p s (.locked b) ↔ (Settled s ∧ s.bound = s.atAcq ∧ s.ranHook = false) := Iff.rfl
theorem rel_kindEq {p : Bool} {s : St} {b : B} :
    Rel p s (.kindEq b) ↔ (Settled s ∧ s.bound = s.atAcq ∧ s.ranHook = false ∧ s.kind = some b.kind) := Iff.rfl
theorem rel_differ {p : Bool} {s : St} {b : B} :
    Rel p s (.differ b) ↔ (Settled s ∧ s.bound = s.atAcq ∧ s.ranHook = false ∧ s.bound ≠ some b) := Iff.rfl
theorem rel_inHook {p : Bool} {s : St} {b : B} :
    Rel p s (.inHook b) ↔ (Settled s ∧ s.bound = s.atAcq ∧ s.ranHook = true ∧ s.bound ≠ some b ∧ p = true) := Iff.rfl
theorem rel_hooked {p : Bool} {s : St} {b : B} :
    Rel p s (.hooked b) ↔ (s.pending = 1 ∧ s.lastOk = some b ∧ s.bound = s.atAcq ∧ s.bound ≠ some b ∧ s.ranHook = p ∧
      s.fired b.kind = true) := Iff.rfl
theorem rel_half {p : Bool} {s : St} {b : B} :
    Rel p s (.half b) ↔ (s.pending = 1 ∧ s.lastOk = some b ∧ s.kind = some b.kind ∧ s.atAcq ≠ some b ∧ s.ranHook = p) :=
  Iff.rfl
theorem rel_leaving {p : Bool} {s : St} {b : B} :
    Rel p s (.leaving b) ↔
      (Settled s ∧ s.bound = some b ∧ (if s.atAcq = some b then s.ranHook = false else s.ranHook = p)) := Iff.rfl
theorem rel_raised {p : Bool} {s : St} {b : B} :
    Rel p s (.raised b) ↔ (Settled s ∧ s.bound = s.atAcq ∧ s.ranHook = true ∧ s.bound ≠ some b ∧ p = true) := Iff.rfl

theorem Rel.inCS {p : Bool} {s : St} {pc : Pc} (h : Rel p s pc) : pc.inCS = true := by
  cases pc <;> first | rfl | exact h.elim

structure CInv (p : Bool) (s : St) : Prop where
  /-- mutual exclusion: a thread inside the critical section owns the lock -/
  mutex : ∀ x, (s.pc x).inCS = true → s.lock.owner = some x
  /-- lock free: nothing in flight -/
  free : s.lock.owner = none → Settled s
  /-- lock held: the owner's progress -/
  held : ∀ x, s.lock.owner = some x → Rel p s (s.pc x)
  /-- hook successes (and hook-less passes) = completed commits + the one in flight -/
  count : s.hookOks + s.skips = s.commits + s.pending
  noskip : p = true → s.skips = 0
  nohook : p = false → s.hookOks = 0
  /-- a thread past the notification sees a bound server -/
  serving : ∀ x, s.pc x = .serving → s.kind ≠ none
  /-- the recorded kind was justified by a hook success for that kind -/
  firedK : ∀ k, s.kind = some k → s.fired k = true
  firedOk : p = true → ∀ k, s.fired k = true → 1 ≤ s.hookOks
  disp : 1 ≤ s.dispatches → s.kind ≠ none

theorem cinv_init (p : Bool) : CInv p {} :=
  { mutex := fun _ h => by cases h
    free := fun _ => ⟨rfl, rfl⟩
    held := fun _ h => by cases h
    count := rfl
    noskip := fun _ => rfl
    nohook := fun _ => rfl
    serving := fun _ h => by cases h
    firedK := fun _ h => by cases h
    firedOk := fun _ _ h => by cases h
    disp := fun h => by cases h }

/-- a step of a thread outside the critical section that only moves its own program counter -/
theorem cinv_outside {p : Bool} {s : St} {t : Tid} {v : Pc} (h : CInv p s)
    (hold : (s.pc t).inCS = false) (hnew : v.inCS = false) (hsv : v = .serving → s.kind ≠ none) :
    CInv p { s with pc := upd s.pc t v } := by
  refine { h with mutex := ?_, held := ?_, serving := ?_ }
  · intro x hx
    by_cases hxt : x = t
    · subst hxt; simp only [upd_same] at hx; rw [hnew] at hx; cases hx
    · simp only [upd_other _ _ hxt] at hx; exact h.mutex x hx
  · intro x hx
    have hr := h.held x hx
    by_cases hxt : x = t
    · subst hxt; have := hr.inCS; rw [hold] at this; cases this
    · simp only [upd_other _ _ hxt]; exact hr
  · intro x hx
    by_cases hxt : x = t
    · subst hxt; simp only [upd_same] at hx; exact hsv hx
    · simp only [upd_other _ _ hxt] at hx; exact h.serving x hx

/-- mutual exclusion is preserved when the owner moves inside the critical section -/
theorem mutex_owner {s : St} {t : Tid} (hm : ∀ x, (s.pc x).inCS = true → s.lock.owner = some x)
    (ho : s.lock.owner = some t) (v : Pc) :
    ∀ x, (upd s.pc t v x).inCS = true → s.lock.owner = some x := by
  intro x hx
  by_cases hxt : x = t
  · subst hxt; exact ho
  · simp only [upd_other _ _ hxt] at hx; exact hm x hx

/-- the `serving` clause is preserved when the owner moves inside the critical section and the kind stays bound -/
theorem serving_owner {s : St} {t : Tid} {k' : Option Kind} (hs : ∀ x, s.pc x = .serving → s.kind ≠ none)
    (hk : s.kind ≠ none → k' ≠ none) {v : Pc} (hv : v ≠ .serving) :
    ∀ x, upd s.pc t v x = .serving → k' ≠ none := by
  intro x hx
  by_cases hxt : x = t
  · subst hxt; simp only [upd_same] at hx; exact absurd hx hv
  · simp only [upd_other _ _ hxt] at hx; exact hk (hs x hx)

theorem bound_eq_some {s : St} {b : B} : s.bound = some b ↔ s.kind = some b.kind ∧ s.caps = b.caps := by
  unfold St.bound
  cases hk : s.kind with
  | none => simp
  | some k =>
    cases b with
    | mk bk bc => simp [B.mk.injEq]

theorem cinv_step {p : Bool} {s s' : St} {l : Label} (h : CInv p s) (hst : cstep p s l = some s') : CInv p s' := by
  cases l with
  | req t =>
    obtain ⟨hp, rfl⟩ := step_req hst
    exact cinv_outside h (by rw [hp]; rfl) rfl (fun hv => by cases hv)
  | serve t b =>
    obtain ⟨hp, rfl⟩ := step_serve hst
    exact cinv_outside h (by rw [hp]; rfl) rfl (fun hv => by cases hv)
  | done t =>
    obtain ⟨hp, rfl⟩ := step_done hst
    exact cinv_outside h (by rw [hp]; rfl) rfl (fun hv => by cases hv)
  | failed t =>
    obtain ⟨hp, rfl⟩ := step_failed hst
    exact cinv_outside h (by rw [hp]; rfl) rfl (fun hv => by cases hv)
  | dispatch t k c =>
    obtain ⟨_, hk, _, rfl⟩ := step_dispatch hst
    exact { h with disp := fun _ => by rw [hk]; simp }
  | rdKind t v =>
    obtain ⟨hv, hcase⟩ := step_rdKind hst
    rcases hcase with ⟨hp, rfl⟩ | ⟨b, hp, rfl⟩ | ⟨_, rfl⟩
    · by_cases hvn : v = none
      · simp only [hvn, if_true]
        exact cinv_outside h (by rw [hp]; rfl) rfl (fun hv => by cases hv)
      · simp only [hvn, if_false]
        exact cinv_outside h (by rw [hp]; rfl) rfl (fun _ => by rw [← hv]; exact hvn)
    · have ho : s.lock.owner = some t := h.mutex t (by rw [hp]; rfl)
      have hr := h.held t ho
      rw [hp] at hr; simp only [Rel] at hr
      obtain ⟨hset, hacq, hran⟩ := hr
      refine { h with mutex := mutex_owner h.mutex ho _, held := ?_, serving := ?_ }
      · intro x hx
        rw [ho] at hx; cases hx
        simp only [upd_same]
        by_cases hvk : v = some b.kind
        · simp only [hvk, if_true, Rel]
          exact ⟨hset, hacq, hran, by rw [← hv]; exact hvk⟩
        · simp only [hvk, if_false, Rel]
          refine ⟨hset, hacq, hran, ?_⟩
          intro hb
          exact hvk (by rw [hv]; exact (bound_eq_some.1 hb).1)
      · refine serving_owner h.serving id ?_
        split <;> simp
    · exact h
  | rdCaps t c =>
    obtain ⟨hv, hcase⟩ := step_rdCaps hst
    rcases hcase with ⟨b, hp, rfl⟩ | ⟨_, rfl⟩
    · have ho : s.lock.owner = some t := h.mutex t (by rw [hp]; rfl)
      have hr := h.held t ho
      rw [hp] at hr; simp only [Rel] at hr
      obtain ⟨hset, hacq, hran, hk⟩ := hr
      refine { h with mutex := mutex_owner h.mutex ho _, held := ?_, serving := ?_ }
      · intro x hx
        rw [ho] at hx; cases hx
        simp only [upd_same]
        by_cases hcb : c = b.caps
        · simp only [hcb, if_true, Rel]
          have hb : s.bound = some b := bound_eq_some.2 ⟨hk, by rw [← hv]; exact hcb⟩
          refine ⟨hset, hb, ?_⟩
          rw [← hacq, hb]; simp only [if_true]; exact hran
        · simp only [hcb, if_false, Rel]
          refine ⟨hset, hacq, hran, ?_⟩
          intro hb
          exact hcb (by rw [hv]; exact (bound_eq_some.1 hb).2)
      · refine serving_owner h.serving id ?_
        split <;> simp
    · exact h
  | acq t =>
    obtain ⟨b, hp, ho, rfl⟩ := step_acq hst
    have hset := h.free ho
    refine { h with mutex := ?_, free := (fun hc => by cases hc), held := ?_, serving := ?_ }
    · intro x hx
      by_cases hxt : x = t
      · subst hxt; rfl
      · simp only [upd_other _ _ hxt] at hx
        have := h.mutex x hx; rw [ho] at this; cases this
    · intro x hx
      simp only [Option.some.injEq] at hx; subst hx
      simp only [upd_same]; rw [rel_locked]
      exact ⟨hset, rfl, rfl⟩
    · exact serving_owner h.serving id (by simp)
  | rel t =>
    obtain ⟨ho, hcase⟩ := step_rel hst
    have hr := h.held t ho
    have hmut : ∀ (v : Pc), v.inCS = false → ∀ x, (upd s.pc t v x).inCS = true → (none : Option Tid) = some x := by
      intro v hv x hx
      by_cases hxt : x = t
      · subst hxt; simp only [upd_same] at hx; rw [hv] at hx; cases hx
      · simp only [upd_other _ _ hxt] at hx
        have := h.mutex x hx; rw [ho] at this
        exact absurd (Option.some.inj this).symm hxt
    rcases hcase with ⟨b, hp, rfl⟩ | ⟨b, hp, rfl⟩
    · rw [hp] at hr; simp only [Rel] at hr
      obtain ⟨hset, hb, _⟩ := hr
      refine { h with mutex := hmut _ rfl, free := fun _ => hset, held := (fun x hx => by cases hx), serving := ?_ }
      intro x hx
      by_cases hxt : x = t
      · have := (bound_eq_some.1 hb).1
        show s.kind ≠ none
        rw [this]; simp
      · simp only [upd_other _ _ hxt] at hx; exact h.serving x hx
    · rw [hp] at hr; simp only [Rel] at hr
      obtain ⟨hset, _, _⟩ := hr
      refine { h with mutex := hmut _ rfl, free := fun _ => hset, held := (fun x hx => by cases hx), serving := ?_ }
      exact serving_owner h.serving id (by simp)
  | hookStart t k =>
    obtain ⟨b, hp, hpres, _, rfl⟩ := step_hookStart hst
    have ho : s.lock.owner = some t := h.mutex t (by rw [hp]; rfl)
    have hr := h.held t ho
    rw [hp] at hr; simp only [Rel] at hr
    obtain ⟨hset, hacq, _, hne⟩ := hr
    refine { h with mutex := mutex_owner h.mutex ho _, free := ?_, held := ?_, serving := ?_ }
    · intro hc; rw [ho] at hc; cases hc
    · intro x hx
      rw [ho] at hx; cases hx
      simp only [upd_same]; rw [rel_inHook]
      exact ⟨hset, hacq, rfl, hne, hpres⟩
    · exact serving_owner h.serving id (by simp)
  | hookOk t k =>
    obtain ⟨b, hp, _, rfl⟩ := step_hookOk hst
    have ho : s.lock.owner = some t := h.mutex t (by rw [hp]; rfl)
    have hr := h.held t ho
    rw [hp] at hr; simp only [Rel] at hr
    obtain ⟨⟨hpend, _⟩, hacq, hran, hne, hpres⟩ := hr
    refine { mutex := mutex_owner h.mutex ho _, free := ?_, held := ?_, count := ?_, noskip := h.noskip,
             nohook := ?_, serving := serving_owner h.serving id (by simp), firedK := ?_, firedOk := ?_, disp := h.disp }
    · intro hc; rw [ho] at hc; cases hc
    · intro x hx
      rw [ho] at hx; cases hx
      simp only [upd_same]; rw [rel_hooked]
      exact ⟨by simp only; rw [hpend], rfl, hacq, hne, by simp only; rw [hran, hpres], by simp⟩
    · have := h.count; simp only; omega
    · intro hf; rw [hf] at hpres; cases hpres
    · intro k' hk'
      simp only
      split
      · rfl
      · exact h.firedK k' hk'
    · intro _ k' _; simp only; omega
  | hookRaise t k =>
    obtain ⟨b, hp, _, rfl⟩ := step_hookRaise hst
    have ho : s.lock.owner = some t := h.mutex t (by rw [hp]; rfl)
    have hr := h.held t ho
    rw [hp] at hr; simp only [Rel] at hr
    obtain ⟨hset, hacq, hran, hne, hpres⟩ := hr
    refine { h with mutex := mutex_owner h.mutex ho _, free := ?_, held := ?_, serving := ?_ }
    · intro hc; rw [ho] at hc; cases hc
    · intro x hx
      rw [ho] at hx; cases hx
      simp only [upd_same]; rw [rel_raised]
      exact ⟨hset, hacq, hran, hne, hpres⟩
    · exact serving_owner h.serving id (by simp)
  | wrKind t k =>
    rcases step_wrKind hst with ⟨b, hp, hk, rfl⟩ | ⟨b, hp, hpres, hk, rfl⟩
    · have ho : s.lock.owner = some t := h.mutex t (by rw [hp]; rfl)
      have hr := h.held t ho
      rw [hp] at hr; simp only [Rel] at hr
      obtain ⟨hpend, hlast, hacq, hne, hran, hfired⟩ := hr
      refine { mutex := mutex_owner h.mutex ho _, free := ?_, held := ?_, count := h.count, noskip := h.noskip,
               nohook := h.nohook, serving := serving_owner h.serving (fun _ => by simp) (by simp),
               firedK := ?_, firedOk := h.firedOk, disp := fun hd => by simp }
      · intro hc; rw [ho] at hc; cases hc
      · intro x hx
        rw [ho] at hx; cases hx
        simp only [upd_same, Rel]
        exact ⟨hpend, hlast, by rw [hk], by rw [← hacq]; exact hne, hran⟩
      · intro k' hk'
        simp only [Option.some.injEq] at hk'
        subst hk'
        rw [hk]; exact hfired
    · have ho : s.lock.owner = some t := h.mutex t (by rw [hp]; rfl)
      have hr := h.held t ho
      rw [hp] at hr; simp only [Rel] at hr
      obtain ⟨⟨hpend, _⟩, hacq, hran, hne⟩ := hr
      refine { mutex := mutex_owner h.mutex ho _, free := ?_, held := ?_, count := ?_, noskip := ?_,
               nohook := h.nohook, serving := serving_owner h.serving (fun _ => by simp) (by simp),
               firedK := ?_, firedOk := ?_, disp := fun hd => by simp }
      · intro hc; rw [ho] at hc; cases hc
      · intro x hx
        rw [ho] at hx; cases hx
        simp only [upd_same]; rw [rel_half]
        refine ⟨by simp only; rw [hpend], rfl, by simp only; rw [hk], ?_, by simp only; rw [hran, hpres]⟩
        simp only; rw [← hacq]; exact hne
      · have := h.count; simp only; omega
      · intro hf; rw [hf] at hpres; cases hpres
      · intro k' hk'
        simp only [Option.some.injEq] at hk'
        subst hk'
        simp only [hk, if_true]
      · intro hf; rw [hf] at hpres; cases hpres
  | wrCaps t c =>
    obtain ⟨b, hp, hc, rfl⟩ := step_wrCaps hst
    have ho : s.lock.owner = some t := h.mutex t (by rw [hp]; rfl)
    have hr := h.held t ho
    rw [hp] at hr; simp only [Rel] at hr
    obtain ⟨hpend, hlast, hkind, hacq, hran⟩ := hr
    have hb : (St.bound { s with caps := c }) = some b := bound_eq_some.2 ⟨hkind, hc⟩
    refine { mutex := mutex_owner h.mutex ho _, free := ?_, held := ?_, count := ?_, noskip := h.noskip,
             nohook := h.nohook, serving := serving_owner h.serving id (by simp),
             firedK := h.firedK, firedOk := h.firedOk, disp := h.disp }
    · intro hc'; rw [ho] at hc'; cases hc'
    · intro x hx
      rw [ho] at hx; cases hx
      simp only [upd_same]; rw [rel_leaving]
      refine ⟨⟨by simp only; rw [hpend], ?_⟩, hb, ?_⟩
      · show St.bound { s with caps := c } = s.lastOk
        rw [hb, hlast]
      · simp only [hacq, if_false]; exact hran
    · have := h.count; simp only; omega

theorem cinv_reachable {p : Bool} {s : St} (h : (ts p).Reachable s) : CInv p s :=
  TS.invariant_of_step (ts p) (CInv p) (cinv_init p) (fun _ _ _ hi hst => cinv_step hi hst) s h

/-- at most one hook success waits for its commit; `pending = 1` exactly while the owner is committing -/
theorem pending_cases {p : Bool} {s : St} (h : CInv p s) :
    (s.pending = 0 ∧ s.bound = s.lastOk) ∨
    (s.pending = 1 ∧ ∃ x b, s.lock.owner = some x ∧ (s.pc x = .hooked b ∨ s.pc x = .half b) ∧ s.lastOk = some b) := by
  cases ho : s.lock.owner with
  | none => exact Or.inl (h.free ho)
  | some x =>
    have hr := h.held x ho
    cases hp : s.pc x <;> rw [hp] at hr <;> simp only [Rel] at hr
    case locked b => exact Or.inl hr.1
    case kindEq b => exact Or.inl hr.1
    case leaving b => exact Or.inl hr.1
    case differ b => exact Or.inl hr.1
    case inHook b => exact Or.inl hr.1
    case raised b => exact Or.inl hr.1
    case hooked b => exact Or.inr ⟨hr.1, x, b, rfl, Or.inl hp, hr.2.1⟩
    case half b => exact Or.inr ⟨hr.1, x, b, rfl, Or.inr hp, hr.2.1⟩

theorem map_pair_eq_some {o : Option B} {b : B} : o.map B.pair = some b.pair ↔ o = some b := by
  cases o with
  | none => simp
  | some a =>
    cases a; cases b
    simp [B.pair, B.mk.injEq]

/-! ### runs: counting hook successes, the monitor simulation -/

theorem hookOks_step {p : Bool} {s s' : St} {l : Label} (hst : cstep p s l = some s') :
    s'.hookOks = s.hookOks + (if l.isHookOk then 1 else 0) := by
  cases l with
  | req t => obtain ⟨_, rfl⟩ := step_req hst; rfl
  | serve t b => obtain ⟨_, rfl⟩ := step_serve hst; rfl
  | done t => obtain ⟨_, rfl⟩ := step_done hst; rfl
  | failed t => obtain ⟨_, rfl⟩ := step_failed hst; rfl
  | dispatch t k c => obtain ⟨_, _, _, rfl⟩ := step_dispatch hst; rfl
  | rdKind t v =>
    obtain ⟨_, hc⟩ := step_rdKind hst
    rcases hc with ⟨_, rfl⟩ | ⟨b, _, rfl⟩ | ⟨_, rfl⟩ <;> rfl
  | rdCaps t c =>
    obtain ⟨_, hc⟩ := step_rdCaps hst
    rcases hc with ⟨b, _, rfl⟩ | ⟨_, rfl⟩ <;> rfl
  | acq t => obtain ⟨b, _, _, rfl⟩ := step_acq hst; rfl
  | rel t =>
    obtain ⟨_, hc⟩ := step_rel hst
    rcases hc with ⟨b, _, rfl⟩ | ⟨b, _, rfl⟩ <;> rfl
  | hookStart t k => obtain ⟨b, _, _, _, rfl⟩ := step_hookStart hst; rfl
  | hookOk t k => obtain ⟨b, _, _, rfl⟩ := step_hookOk hst; rfl
  | hookRaise t k => obtain ⟨b, _, _, rfl⟩ := step_hookRaise hst; rfl
  | wrKind t k =>
    rcases step_wrKind hst with ⟨b, _, _, rfl⟩ | ⟨b, _, _, _, rfl⟩ <;> rfl
  | wrCaps t c => obtain ⟨b, _, _, rfl⟩ := step_wrCaps hst; rfl

theorem hookOks_runFrom {p : Bool} {s s' : St} {ls : List Label} (h : (ts p).runFrom s ls = some s') :
    s'.hookOks = s.hookOks + (ls.filter Label.isHookOk).length := by
  induction ls generalizing s with
  | nil => simp only [TS.runFrom, Option.some.injEq] at h; subst h; simp
  | cons l ls ih =>
    simp only [TS.runFrom] at h
    cases hst : (ts p).step s l with
    | none => rw [hst] at h; cases h
    | some m =>
      rw [hst] at h
      have h1 := hookOks_step (p := p) hst
      have h2 := ih h
      rw [h2, h1]
      cases hl : l.isHookOk <;> simp [List.filter, hl] <;> omega

/-- the monitor state is a projection of the model state -/
structure Sim (s : St) (m : Spec.Mon) : Prop where
  kind : m.kind = s.kind
  caps : m.caps = s.caps
  credit : m.credit = s.pending
  inflight : s.pending = 1 → ∃ b, s.lastOk = some b ∧ m.okKind = some b.kind ∧ m.before ≠ some b.pair

theorem Sim.frame {s s' : St} {m : Spec.Mon} (hs : Sim s m) (hk : s'.kind = s.kind) (hc : s'.caps = s.caps)
    (hp : s'.pending = s.pending) (hl : s'.lastOk = s.lastOk) : Sim s' m :=
  ⟨by rw [hk]; exact hs.kind, by rw [hc]; exact hs.caps, by rw [hp]; exact hs.credit,
   fun h => by rw [hl]; exact hs.inflight (by rw [← hp]; exact h)⟩

theorem sim_init : Sim {} {} := ⟨rfl, rfl, rfl, fun h => by cases h⟩

theorem bound_map_pair (s : St) : s.bound.map B.pair = s.kind.map (fun x => (x, s.caps)) := by
  unfold St.bound; cases s.kind <;> rfl

/-- one model step is matched by the monitor (hook present) -/
theorem sim_step {s s' : St} {l : Label} {m : Spec.Mon} (h : CInv true s) (hs : Sim s m)
    (hst : cstep true s l = some s') :
    ∃ m', (match toEv l with | none => some m | some e => m.step e) = some m' ∧ Sim s' m' := by
  cases l with
  | req t => obtain ⟨_, rfl⟩ := step_req hst; exact ⟨m, rfl, hs.frame rfl rfl rfl rfl⟩
  | serve t b => obtain ⟨_, rfl⟩ := step_serve hst; exact ⟨m, rfl, hs.frame rfl rfl rfl rfl⟩
  | done t => obtain ⟨_, rfl⟩ := step_done hst; exact ⟨m, rfl, hs.frame rfl rfl rfl rfl⟩
  | failed t => obtain ⟨_, rfl⟩ := step_failed hst; exact ⟨m, rfl, hs.frame rfl rfl rfl rfl⟩
  | rdKind t v =>
    obtain ⟨_, hc⟩ := step_rdKind hst
    rcases hc with ⟨_, rfl⟩ | ⟨b, _, rfl⟩ | ⟨_, rfl⟩ <;> exact ⟨m, rfl, hs.frame rfl rfl rfl rfl⟩
  | rdCaps t c =>
    obtain ⟨_, hc⟩ := step_rdCaps hst
    rcases hc with ⟨b, _, rfl⟩ | ⟨_, rfl⟩ <;> exact ⟨m, rfl, hs.frame rfl rfl rfl rfl⟩
  | acq t => obtain ⟨b, _, _, rfl⟩ := step_acq hst; exact ⟨m, rfl, hs.frame rfl rfl rfl rfl⟩
  | rel t =>
    obtain ⟨_, hc⟩ := step_rel hst
    rcases hc with ⟨b, _, rfl⟩ | ⟨b, _, rfl⟩ <;> exact ⟨m, rfl, hs.frame rfl rfl rfl rfl⟩
  | hookStart t k => obtain ⟨b, _, _, _, rfl⟩ := step_hookStart hst; exact ⟨m, rfl, hs.frame rfl rfl rfl rfl⟩
  | hookRaise t k => obtain ⟨b, _, _, rfl⟩ := step_hookRaise hst; exact ⟨m, rfl, hs.frame rfl rfl rfl rfl⟩
  | dispatch t k c =>
    obtain ⟨_, hk, hc, rfl⟩ := step_dispatch hst
    refine ⟨m, ?_, hs.frame rfl rfl rfl rfl⟩
    simp only [toEv, Spec.Mon.step]
    rw [if_pos]
    exact ⟨by simp, by rw [hs.kind, hk], by rw [hs.caps, hc]⟩
  | hookOk t k =>
    obtain ⟨b, hp, hk, rfl⟩ := step_hookOk hst
    have ho : s.lock.owner = some t := h.mutex t (by rw [hp]; rfl)
    have hr := h.held t ho
    rw [hp, rel_inHook] at hr
    obtain ⟨⟨hpend, _⟩, _, _, hne, _⟩ := hr
    refine ⟨{ m with credit := 1, okKind := some k, before := m.kind.map (fun x => (x, m.caps)) }, ?_, ?_⟩
    · simp only [toEv, Spec.Mon.step]
      rw [if_pos]; rw [hs.credit, hpend]
    · refine ⟨hs.kind, hs.caps, by simp only; rw [hpend], fun _ => ⟨b, rfl, by simp only; rw [hk], ?_⟩⟩
      simp only
      rw [hs.kind, hs.caps, ← bound_map_pair]
      intro hb
      exact hne (map_pair_eq_some.1 hb)
  | wrKind t k =>
    rcases step_wrKind hst with ⟨b, hp, hk, rfl⟩ | ⟨b, _, hpres, _, _⟩
    · have ho : s.lock.owner = some t := h.mutex t (by rw [hp]; rfl)
      have hr := h.held t ho
      rw [hp, rel_hooked] at hr
      obtain ⟨hpend, hlast, _, _, _, _⟩ := hr
      obtain ⟨b', hb', hok, hbef⟩ := hs.inflight hpend
      rw [hlast] at hb'; cases hb'
      refine ⟨{ m with kind := some k }, ?_, ?_⟩
      · simp only [toEv, Spec.Mon.step]
        rw [if_pos]; exact ⟨by rw [hs.credit, hpend], by rw [hok, hk]⟩
      · exact ⟨rfl, hs.caps, hs.credit, fun _ => ⟨b, hlast, hok, hbef⟩⟩
    · cases hpres
  | wrCaps t c =>
    obtain ⟨b, hp, hc, rfl⟩ := step_wrCaps hst
    have ho : s.lock.owner = some t := h.mutex t (by rw [hp]; rfl)
    have hr := h.held t ho
    rw [hp, rel_half] at hr
    obtain ⟨hpend, hlast, hkind, _, _⟩ := hr
    obtain ⟨b', hb', hok, hbef⟩ := hs.inflight hpend
    rw [hlast] at hb'; cases hb'
    refine ⟨{ m with caps := c, credit := 0 }, ?_, ?_⟩
    · simp only [toEv, Spec.Mon.step]
      rw [if_pos]
      refine ⟨by rw [hs.credit, hpend], by rw [hs.kind, hkind, hok], ?_⟩
      rw [hs.kind, hkind, hc]
      exact fun hb => hbef hb.symm
    · refine ⟨hs.kind, rfl, by simp only; rw [hpend], fun hone => ?_⟩
      simp only at hone; rw [hpend] at hone; cases hone

/-- the spec events of a label sequence -/
def events (ls : List Label) : List Spec.Ev := ls.filterMap toEv

theorem sim_runFrom {s s' : St} {ls : List Label} {m : Spec.Mon} (h : CInv true s) (hs : Sim s m)
    (hrun : (ts true).runFrom s ls = some s') :
    ∃ m', Spec.Mon.runFrom m (events ls) = some m' ∧ Sim s' m' := by
  induction ls generalizing s m with
  | nil =>
    simp only [TS.runFrom, Option.some.injEq] at hrun; subst hrun
    exact ⟨m, rfl, hs⟩
  | cons l ls ih =>
    simp only [TS.runFrom] at hrun
    cases hst : (ts true).step s l with
    | none => rw [hst] at hrun; cases hrun
    | some s1 =>
      rw [hst] at hrun
      obtain ⟨m1, hm1, hs1⟩ := sim_step h hs hst
      obtain ⟨m', hm', hs'⟩ := ih (cinv_step h hst) hs1 hrun
      refine ⟨m', ?_, hs'⟩
      cases he : toEv l with
      | none =>
        rw [he] at hm1; simp only [Option.some.injEq] at hm1; subst hm1
        simp only [events, List.filterMap_cons, he]; exact hm'
      | some e =>
        rw [he] at hm1
        simp only [events, List.filterMap_cons, he, Spec.Mon.runFrom, hm1]; exact hm'

end Aux

/-! ## the obligations -/

/-- the structural facts of the source that the model relies on: the critical section is
`test ; hook ; wrKind ; wrCaps` inside one `with self._transport_lock:` (a plain lock) covering the whole body, the
test compares kind AND capabilities, the hook is called with the kind and its exception is re-raised, the commit
stores the arguments, nothing else writes the binding, the middleware's fast path reads only the kind (unlocked),
`serve()` notifies before its loop, the middleware is installed -/
theorem C42_shape :
    notifyProg = [.test, .hook, .wrKind, .wrCaps] ∧ wholeBodyLocked = true ∧ lockIsPlainLock = true ∧
    initUnbound = true ∧ testComparesBoth = true ∧ hookCalledWithKind = true ∧ hookExcReraises = true ∧
    commitWritesArgs = true ∧ onlyWriter = true ∧ kindPropertyReadsField = true ∧ serveNotifiesFirst = true ∧
    mwFastPath = true ∧ mwInstalled = true := by decide

/-- **mutual exclusion**: two threads inside `with self._transport_lock:` are the same thread (the owner) -/
theorem C42_mutex (p : Bool) {s : St} (h : (ts p).Reachable s) {t t' : Tid}
    (ht : (s.pc t).inCS = true) (ht' : (s.pc t').inCS = true) : t = t' ∧ s.lock.owner = some t := by
  have hi := Aux.cinv_reachable h
  have a := hi.mutex t ht
  have b := hi.mutex t' ht'
  rw [a] at b
  exact ⟨Option.some.inj b, a⟩

/-- **exactly once per binding** (counting form), in EVERY reachable state, any number of threads, any hook
outcomes: at most one hook success waits for its commit, and hook successes (plus hook-less passes of an
implementation without the hook) = completed commits + the one in flight.  With a hook there are no passes:
`hookOks = commits + pending`. -/
theorem C42_once (p : Bool) {s : St} (h : (ts p).Reachable s) :
    s.pending ≤ 1 ∧ s.hookOks + s.skips = s.commits + s.pending ∧ (p = true → s.hookOks = s.commits + s.pending) := by
  have hi := Aux.cinv_reachable h
  refine ⟨?_, hi.count, fun hp => ?_⟩
  · rcases Aux.pending_cases hi with ⟨h0, _⟩ | ⟨h1, _⟩ <;> omega
  · have := hi.count; have := hi.noskip hp; omega

/-- a hook success is only ever in flight inside the critical section of the thread that obtained it, and the
binding it is about to commit differs from the recorded one: consecutive bindings differ, so "per binding" is
"per commit" -/
theorem C42_commit_changes (p : Bool) {s : St} (h : (ts p).Reachable s) {t : Tid} {b : B}
    (ht : s.pc t = .hooked b) : s.bound ≠ some b ∧ s.lastOk = some b ∧ s.pending = 1 ∧ s.lock.owner = some t := by
  have hi := Aux.cinv_reachable h
  have ho := hi.mutex t (by rw [ht]; rfl)
  have hr := hi.held t ho
  rw [ht, Aux.rel_hooked] at hr
  exact ⟨hr.2.2.2.1, hr.2.1, hr.1, ho⟩

/-- with no commit in flight, the recorded binding is exactly the one most recently justified by a hook success;
with one in flight, the thread that obtained the success is still inside its critical section -/
theorem C42_settled (p : Bool) {s : St} (h : (ts p).Reachable s) :
    (s.pending = 0 ∧ s.bound = s.lastOk) ∨
    (s.pending = 1 ∧ ∃ x b, s.lock.owner = some x ∧ (s.pc x = .hooked b ∨ s.pc x = .half b) ∧ s.lastOk = some b) :=
  Aux.pending_cases (Aux.cinv_reachable h)

/-- **hook before dispatch**: whenever a method is dispatched (implementation with a hook) the server is bound, the
method sees the recorded binding, the hook has succeeded for the recorded kind, and — unless a re-binding commit is
in flight — the recorded binding is the one of the most recent hook success -/
theorem C42_dispatch {s s' : St} (h : (ts true).Reachable s) {t : Tid} {k : Kind} {c : Caps}
    (hst : cstep true s (.dispatch t k c) = some s') :
    s.kind = some k ∧ s.caps = c ∧ s.fired k = true ∧ 1 ≤ s.hookOks ∧ (s.pending = 0 → s.lastOk = some ⟨k, c⟩) := by
  have hi := Aux.cinv_reachable h
  obtain ⟨_, hk, hc, _⟩ := Aux.step_dispatch hst
  have hf := hi.firedK k hk
  refine ⟨hk, hc, hf, hi.firedOk rfl k hf, fun h0 => ?_⟩
  rcases Aux.pending_cases hi with ⟨_, hb⟩ | ⟨h1, _⟩
  · rw [← hb]; exact Aux.bound_eq_some.2 ⟨hk, hc⟩
  · omega

/-- a thread past the notification (fast path included) always sees a bound server whose kind was justified by a hook
success -/
theorem C42_serving (p : Bool) {s : St} (h : (ts p).Reachable s) {t : Tid} (ht : s.pc t = .serving) :
    ∃ k, s.kind = some k ∧ s.fired k = true ∧ (p = true → 1 ≤ s.hookOks) := by
  have hi := Aux.cinv_reachable h
  have hk := hi.serving t ht
  cases hkk : s.kind with
  | none => exact absurd hkk hk
  | some k => exact ⟨k, rfl, hi.firedK k hkk, fun hp => hi.firedOk hp k (hi.firedK k hkk)⟩

/-- **the per-call contract** (`Spec.CallOk`) holds for every notification at the moment it releases the lock:
found its target recorded → no hook, returns; otherwise the hook ran ("the next request runs it again", whatever
happened before); hook succeeded → its target is recorded when it returns; hook raised → the binding is what it
was when the call obtained the lock and the caller gets the exception -/
theorem C42_call_contract (p : Bool) {s : St} (h : (ts p).Reachable s) {t : Tid} {c : Spec.Call}
    (hc : callAtRel s t = some c) : Spec.CallOk p c = true := by
  have hi := Aux.cinv_reachable h
  unfold callAtRel at hc
  split at hc
  · next b hp =>
    cases hc
    have ho := hi.mutex t (by rw [hp]; rfl)
    have hr := hi.held t ho
    rw [hp, Aux.rel_leaving] at hr
    obtain ⟨_, hb, hif⟩ := hr
    unfold Spec.CallOk
    by_cases ha : s.atAcq = some b
    · rw [if_pos ha] at hif
      simp only [Aux.map_pair_eq_some.2 ha, if_true, hif, hb]
      simp
    · rw [if_neg ha] at hif
      have : ¬ (s.atAcq.map B.pair = some b.pair) := fun hh => ha (Aux.map_pair_eq_some.1 hh)
      simp only [this, if_false, hif, hb]
      cases p <;> simp
  · next b hp =>
    cases hc
    have ho := hi.mutex t (by rw [hp]; rfl)
    have hr := hi.held t ho
    rw [hp, Aux.rel_raised] at hr
    obtain ⟨_, hacq, hran, hne, hpres⟩ := hr
    unfold Spec.CallOk
    have : ¬ (s.atAcq.map B.pair = some b.pair) := fun hh => hne (by rw [hacq]; exact Aux.map_pair_eq_some.1 hh)
    simp only [this, if_false, hran, hpres, hacq]
    simp
  · cases hc

/-- **`serve()` always notifies**: a thread that entered `serve()` / `_notify_transport(b)` can do nothing but take the
lock — there is no path from `serve b` to a dispatch that skips the notification (with `C42_call_contract`: when it
releases the lock the recorded binding is its own `b`, the hook having run for it unless `b` was already recorded) -/
theorem C42_serve_must_notify {p : Bool} {s s' : St} {t : Tid} {b : B} {l : Label} (hw : s.pc t = .want b)
    (hl : l.tid = t) (hst : cstep p s l = some s') : l = .acq t ∧ s'.pc t = .locked b := by
  cases l <;> simp only [Label.tid] at hl <;> subst hl
  case acq =>
    obtain ⟨b', hp, _, rfl⟩ := Aux.step_acq hst
    rw [hw] at hp; cases hp
    exact ⟨rfl, by simp only [upd_same]⟩
  case req => have := (Aux.step_req hst).1; rw [hw] at this; cases this
  case serve => have := (Aux.step_serve hst).1; rw [hw] at this; cases this
  case done => have := (Aux.step_done hst).1; rw [hw] at this; cases this
  case failed => have := (Aux.step_failed hst).1; rw [hw] at this; cases this
  case dispatch => have := (Aux.step_dispatch hst).1; rw [hw] at this; cases this
  case rdKind =>
    obtain ⟨_, h⟩ := Aux.step_rdKind hst
    rcases h with ⟨h, _⟩ | ⟨_, h, _⟩ | ⟨h, _⟩ <;> rw [hw] at h <;> cases h
  case rdCaps =>
    obtain ⟨_, h⟩ := Aux.step_rdCaps hst
    rcases h with ⟨_, h, _⟩ | ⟨h, _⟩ <;> rw [hw] at h <;> cases h
  case rel =>
    obtain ⟨_, h⟩ := Aux.step_rel hst
    rcases h with ⟨_, h, _⟩ | ⟨_, h, _⟩ <;> rw [hw] at h <;> cases h
  case hookStart => obtain ⟨_, h, _⟩ := Aux.step_hookStart hst; rw [hw] at h; cases h
  case hookOk => obtain ⟨_, h, _⟩ := Aux.step_hookOk hst; rw [hw] at h; cases h
  case hookRaise => obtain ⟨_, h, _⟩ := Aux.step_hookRaise hst; rw [hw] at h; cases h
  case wrKind =>
    rcases Aux.step_wrKind hst with ⟨_, h, _⟩ | ⟨_, h, _⟩ <;> rw [hw] at h <;> cases h
  case wrCaps => obtain ⟨_, h, _⟩ := Aux.step_wrCaps hst; rw [hw] at h; cases h

/-- the binding is written only by `wrKind` / `wrCaps` steps of a thread whose hook has returned (or, without a
hook, that found its target not recorded) — in particular never by a thread whose hook raised -/
theorem C42_writes {p : Bool} {s s' : St} {l : Label} (hst : cstep p s l = some s') :
    (s'.kind = s.kind ∨ ∃ t k b, l = .wrKind t k ∧ k = b.kind ∧ (s.pc t = .hooked b ∨ (s.pc t = .differ b ∧ p = false))) ∧
    (s'.caps = s.caps ∨ ∃ t c b, l = .wrCaps t c ∧ c = b.caps ∧ s.pc t = .half b) := by
  cases l with
  | req t => obtain ⟨_, rfl⟩ := Aux.step_req hst; exact ⟨Or.inl rfl, Or.inl rfl⟩
  | serve t b => obtain ⟨_, rfl⟩ := Aux.step_serve hst; exact ⟨Or.inl rfl, Or.inl rfl⟩
  | done t => obtain ⟨_, rfl⟩ := Aux.step_done hst; exact ⟨Or.inl rfl, Or.inl rfl⟩
  | failed t => obtain ⟨_, rfl⟩ := Aux.step_failed hst; exact ⟨Or.inl rfl, Or.inl rfl⟩
  | dispatch t k c => obtain ⟨_, _, _, rfl⟩ := Aux.step_dispatch hst; exact ⟨Or.inl rfl, Or.inl rfl⟩
  | rdKind t v =>
    obtain ⟨_, hc⟩ := Aux.step_rdKind hst
    rcases hc with ⟨_, rfl⟩ | ⟨b, _, rfl⟩ | ⟨_, rfl⟩ <;> exact ⟨Or.inl rfl, Or.inl rfl⟩
  | rdCaps t c =>
    obtain ⟨_, hc⟩ := Aux.step_rdCaps hst
    rcases hc with ⟨b, _, rfl⟩ | ⟨_, rfl⟩ <;> exact ⟨Or.inl rfl, Or.inl rfl⟩
  | acq t => obtain ⟨b, _, _, rfl⟩ := Aux.step_acq hst; exact ⟨Or.inl rfl, Or.inl rfl⟩
  | rel t =>
    obtain ⟨_, hc⟩ := Aux.step_rel hst
    rcases hc with ⟨b, _, rfl⟩ | ⟨b, _, rfl⟩ <;> exact ⟨Or.inl rfl, Or.inl rfl⟩
  | hookStart t k => obtain ⟨b, _, _, _, rfl⟩ := Aux.step_hookStart hst; exact ⟨Or.inl rfl, Or.inl rfl⟩
  | hookOk t k => obtain ⟨b, _, _, rfl⟩ := Aux.step_hookOk hst; exact ⟨Or.inl rfl, Or.inl rfl⟩
  | hookRaise t k => obtain ⟨b, _, _, rfl⟩ := Aux.step_hookRaise hst; exact ⟨Or.inl rfl, Or.inl rfl⟩
  | wrKind t k =>
    rcases Aux.step_wrKind hst with ⟨b, hp, hk, rfl⟩ | ⟨b, hp, hpres, hk, rfl⟩
    · exact ⟨Or.inr ⟨t, k, b, rfl, hk, Or.inl hp⟩, Or.inl rfl⟩
    · exact ⟨Or.inr ⟨t, k, b, rfl, hk, Or.inr ⟨hp, hpres⟩⟩, Or.inl rfl⟩
  | wrCaps t c =>
    obtain ⟨b, hp, hc, rfl⟩ := Aux.step_wrCaps hst
    exact ⟨Or.inl rfl, Or.inr ⟨t, c, b, rfl, hc, hp⟩⟩

/-- **a raising hook leaves the binding unset / unchanged**: from the raise the thread can only release and fail;
afterwards the binding, the commit count and the dispatch count are what they were, the lock is free and nothing
is in flight — the state every later request meets is that of a server that has not been notified -/
theorem C42_raise_unset (p : Bool) {s s1 : St} (h : (ts p).Reachable s) {t : Tid} {k : Kind}
    (hst : cstep p s (.hookRaise t k) = some s1) :
    ∃ s3, (ts p).runFrom s1 [.rel t, .failed t] = some s3 ∧ s3.kind = s.kind ∧ s3.caps = s.caps ∧
      s3.lock.owner = none ∧ s3.pc t = .idle ∧ s3.pending = 0 ∧ s3.commits = s.commits ∧
      s3.dispatches = s.dispatches ∧ s3.hookOks = s.hookOks := by
  have hi := Aux.cinv_reachable h
  obtain ⟨b, hp, _, rfl⟩ := Aux.step_hookRaise hst
  have ho := hi.mutex t (by rw [hp]; rfl)
  have hr := hi.held t ho
  rw [hp, Aux.rel_inHook] at hr
  refine ⟨?w, ?hrun, ?_⟩
  case hrun =>
    simp only [TS.runFrom, ts, cstep, Lock.release, ho, if_true, upd_same]
    rfl
  exact ⟨rfl, rfl, rfl, by simp only [upd_same], hr.1.1, rfl, rfl, rfl⟩

/-- **the next request runs the hook again**: in any reachable state with the server unbound (e.g. after any number
of raising hooks) and the lock free, an HTTP request of an idle thread goes fast-path miss → acquire → test miss →
hook -/
theorem C42_retry_refires {s : St} (_h : (ts true).Reachable s) {t : Tid}
    (hidle : s.pc t = .idle) (hfree : s.lock.owner = none) (hunset : s.kind = none) :
    ∃ s', (ts true).runFrom s [.req t, .rdKind t none, .acq t, .rdKind t none, .hookStart t httpB.kind] = some s' ∧
      s'.pc t = .inHook httpB ∧ s'.lock.owner = some t ∧ s'.kind = none ∧ s'.hookOks = s.hookOks := by
  refine ⟨?w, ?hrun, ?_⟩
  case hrun =>
    simp only [TS.runFrom, ts, cstep, hidle, hunset, hfree, Lock.acquire, if_true, upd_same]
    simp
    rfl
  exact ⟨by simp only [upd_same], rfl, rfl, rfl⟩

/-- the label sequence of the test inside `_notify_transport(b)` in state `s` -/
def testReads (s : St) (t : Tid) (b : B) : List Label :=
  if s.kind = some b.kind then [.rdKind t s.kind, .rdCaps t s.caps] else [.rdKind t s.kind]

/-- **re-binding re-fires**: in any reachable state whose recorded binding is not `b` (unbound, another kind, or
the same kind with other capabilities), `serve()` for `b` by an idle thread with the lock free runs the hook, and
when the hook succeeds the binding becomes `b` with exactly one more hook success and one more commit -/
theorem C42_rebind_refires {s : St} (_h : (ts true).Reachable s) {t : Tid} {b : B}
    (hidle : s.pc t = .idle) (hfree : s.lock.owner = none) (hne : s.bound ≠ some b) :
    ∃ s', (ts true).runFrom s ([.serve t b, .acq t] ++ testReads s t b ++
        [.hookStart t b.kind, .hookOk t b.kind, .wrKind t b.kind, .wrCaps t b.caps, .rel t]) = some s' ∧
      s'.bound = some b ∧ s'.hookOks = s.hookOks + 1 ∧ s'.commits = s.commits + 1 ∧ s'.pc t = .serving ∧
      s'.lock.owner = none := by
  unfold testReads
  by_cases hk : s.kind = some b.kind
  · have hc : ¬ (s.caps = b.caps) := fun hc => hne (Aux.bound_eq_some.2 ⟨hk, hc⟩)
    refine ⟨?w, ?hrun, ?_⟩
    case hrun =>
      simp only [hk, if_true, List.cons_append, List.nil_append, TS.runFrom, ts, cstep, hidle, hfree, Lock.acquire,
        Lock.release, upd_same, hc, if_false, and_self]
      rfl
    refine ⟨Aux.bound_eq_some.2 ⟨rfl, rfl⟩, rfl, rfl, by simp only [upd_same], rfl⟩
  · refine ⟨?w2, ?hrun2, ?_⟩
    case hrun2 =>
      simp only [hk, if_false, List.cons_append, List.nil_append, TS.runFrom, ts, cstep, hidle, hfree, Lock.acquire,
        Lock.release, upd_same, if_true, and_self]
      rfl
    refine ⟨Aux.bound_eq_some.2 ⟨rfl, rfl⟩, rfl, rfl, by simp only [upd_same], rfl⟩

/-- **idempotent**: `serve()` for the binding that is already recorded takes the lock, tests, and returns — no hook -/
theorem C42_same_binding_no_hook {s : St} (_h : (ts true).Reachable s) {t : Tid} {b : B}
    (hidle : s.pc t = .idle) (hfree : s.lock.owner = none) (hb : s.bound = some b) :
    ∃ s', (ts true).runFrom s [.serve t b, .acq t, .rdKind t (some b.kind), .rdCaps t b.caps, .rel t] = some s' ∧
      s'.bound = some b ∧ s'.hookOks = s.hookOks ∧ s'.hookRaises = s.hookRaises ∧ s'.commits = s.commits ∧
      s'.pc t = .serving := by
  obtain ⟨hk, hc⟩ := Aux.bound_eq_some.1 hb
  refine ⟨?w, ?hrun, ?_⟩
  case hrun =>
    simp only [TS.runFrom, ts, cstep, hidle, hfree, Lock.acquire, Lock.release, upd_same, hk, hc, if_true]
    rfl
  refine ⟨Aux.bound_eq_some.2 ⟨rfl, rfl⟩, rfl, rfl, rfl, by simp only [upd_same]⟩

/-- a run in which the hook never succeeds (e.g. a hook that always raises) leaves the server unbound: no commit, no
thread past the notification, nothing dispatched — for any number of threads and requests -/
theorem C42_never_ok {ls : List Label} {s : St} (h : (ts true).run ls = some s)
    (hno : ∀ l ∈ ls, l.isHookOk = false) :
    s.kind = none ∧ s.commits = 0 ∧ s.dispatches = 0 ∧ ∀ t, s.pc t ≠ .serving := by
  have hi := Aux.cinv_reachable ((ts true).reachable_of_run h)
  have hcount := Aux.hookOks_runFrom h
  have hz : (ls.filter Label.isHookOk).length = 0 := by
    rw [List.length_eq_zero_iff, List.filter_eq_nil_iff]
    intro l hl; rw [hno l hl]; simp
  have h0 : s.hookOks = 0 := by rw [hcount, hz]; rfl
  have hk : s.kind = none := by
    cases hkk : s.kind with
    | none => rfl
    | some k =>
      have := hi.firedOk rfl k (hi.firedK k hkk)
      omega
  refine ⟨hk, ?_, ?_, fun t ht => hi.serving t ht hk⟩
  · have := hi.count; have := hi.noskip rfl; omega
  · cases hd : s.dispatches with
    | zero => rfl
    | succ n => exact absurd hk (hi.disp (by omega))

/-- the number of hook successes of a run is the number of `hookOk` labels in it -/
theorem C42_hookOks_count (p : Bool) {ls : List Label} {s : St} (h : (ts p).run ls = some s) :
    s.hookOks = (ls.filter Label.isHookOk).length := by
  have := Aux.hookOks_runFrom h
  simpa [ts] using this

/-- **every run of the model satisfies the spec monitor** (implementation with a hook): once per binding, binding
written only after the hook's success for that kind, dispatch only on a bound server -/
theorem C42_monitor {ls : List Label} {s : St} (h : (ts true).run ls = some s) :
    Spec.accepts (Aux.events ls) = true := by
  obtain ⟨m, hm, _⟩ := Aux.sim_runFrom (Aux.cinv_init true) Aux.sim_init h
  unfold Spec.accepts
  rw [hm]; rfl

/-- what the driver's `accepts` accepts is a run of the model, hence ends in a reachable state (so every theorem
above applies to the traces of the real code that the harness validates) -/
theorem C42_accepts_sound (p : Bool) {ls : List Label} (h : (ts p).accepts ls = true) :
    ∃ s, (ts p).run ls = some s ∧ (ts p).Reachable s := by
  obtain ⟨s, hs⟩ := ((ts p).accepts_iff ls).1 h
  exact ⟨s, hs, (ts p).reachable_of_run hs⟩

/-! ### non-vacuity -/

/-- two racing first HTTP requests (thread 1 reads the kind before thread 0 commits, then waits for the lock):
one hook success, both dispatch -/
example : (ts true).accepts
    [.req 0, .req 1, .rdKind 0 none, .rdKind 1 none, .acq 0, .rdKind 0 none, .hookStart 0 httpB.kind,
     .hookOk 0 httpB.kind, .wrKind 0 httpB.kind, .wrCaps 0 httpB.caps, .rel 0, .acq 1, .rdKind 1 (some httpB.kind),
     .rdCaps 1 httpB.caps, .rel 1, .dispatch 1 httpB.kind httpB.caps, .dispatch 0 httpB.kind httpB.caps,
     .done 0, .done 1] = true := by decide

/-- a raise, then the retry of the same thread succeeds -/
example : (ts true).accepts
    [.req 0, .rdKind 0 none, .acq 0, .rdKind 0 none, .hookStart 0 httpB.kind, .hookRaise 0 httpB.kind, .rel 0, .failed 0,
     .req 0, .rdKind 0 none, .acq 0, .rdKind 0 none, .hookStart 0 httpB.kind, .hookOk 0 httpB.kind,
     .wrKind 0 httpB.kind, .wrCaps 0 httpB.caps, .rel 0, .dispatch 0 httpB.kind httpB.caps, .done 0] = true := by decide

/-- committing before the hook is not a run of the model -/
example : (ts true).accepts
    [.req 0, .rdKind 0 none, .acq 0, .rdKind 0 none, .wrKind 0 httpB.kind] = false := by decide

/-- the monitor rejects a second hook success for the same binding, a write without success, a dispatch on an
unbound server -/
example : Spec.accepts [.hookOk 1, .setKind 1, .setCaps 0, .hookOk 1, .setKind 1, .setCaps 0] = false := by decide
example : Spec.accepts [.hookRaise 1, .setKind 1] = false := by decide
example : Spec.accepts [.dispatch none 0] = false := by decide
example : Spec.accepts [.hookOk 1, .setKind 1, .setCaps 0, .dispatch (some 1) 0, .hookOk 0, .setKind 0, .setCaps 1] = true := by
  decide

end VgiVerif.C42
