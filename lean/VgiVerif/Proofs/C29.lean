import VgiVerif.Spec.C29
import VgiVerif.Proofs.Engine
/-
C29 proofs.
  A. transparency: the shm machine, operation by operation, observes what the inline machine `Abs` observes — for every
     allocator (no contract needed: a pointer is read before anything else is written), threshold, size function, history.
  B. `Abs` driven to the end of a stream is `Engine.Pipe`, hence `Engine.Sem` (reuse of the Engine refinement theorems).
  C. accounting: an inductive invariant over ALL histories for every allocator satisfying `AllocLaws`:
     live regions = regions referenced by unreleased batches; referenced regions still read as written; hence no leak,
     nothing left after release-all, and no allocation overlaps a referenced region.
  D. the first-fit table of `vgi_rpc/shm.py` satisfies `AllocLaws` (non-vacuity of the contract; C28 owns the full story).
Helper lemmas in `Aux`; the obligations are at the bottom.
-/
namespace VgiVerif.C29
open VgiVerif.Engine

namespace Aux

/-! ### shapes of what one `process()` call writes -/

def isLE : Item → Bool
  | .log _ => true
  | .err _ => true
  | _ => false

/-- only log / error batches -/
def leOnly (l : List Item) : Bool := l.all isLE

/-- at most one data batch, no continuation tokens -/
def oneData : List Item → Bool
  | [] => true
  | .data _ :: r => leOnly r
  | i :: r => isLE i && oneData r

theorem leOnly_logItems (ls : List Log) : leOnly (logItems ls) = true := by
  induction ls with
  | nil => rfl
  | cons l r ih => simp only [leOnly, logItems] at ih ⊢; simp [isLE, ih]

theorem leOnly_append (a b : List Item) : leOnly (a ++ b) = (leOnly a && leOnly b) := by
  simp [leOnly, List.all_append]

theorem oneData_of_leOnly (l : List Item) (h : leOnly l = true) : oneData l = true := by
  induction l with
  | nil => rfl
  | cons i r ih =>
    simp only [leOnly, List.all_cons, Bool.and_eq_true] at h
    cases i <;> simp_all [oneData, isLE, leOnly]

theorem oneData_append_le (a r : List Item) (ha : leOnly a = true) (hr : oneData r = true) : oneData (a ++ r) = true := by
  induction a with
  | nil => simpa using hr
  | cons i t ih =>
    simp only [leOnly, List.all_cons, Bool.and_eq_true] at ha
    have := ih (by simpa [leOnly] using ha.2)
    cases i <;> simp_all [oneData, isLE]

theorem oneData_logs_data_logs (a p : List Log) (b : Batch) :
    oneData (logItems a ++ [Item.data b] ++ logItems p) = true := by
  rw [List.append_assoc]
  apply oneData_append_le _ _ (leOnly_logItems a)
  simp [oneData, leOnly_logItems]

theorem oneData_logs_data_logs' (a p : List Log) (b : Batch) :
    oneData (logItems a ++ Item.data b :: logItems p) = true := by
  apply oneData_append_le _ _ (leOnly_logItems a)
  simp [oneData, leOnly_logItems]

theorem oneData_logs_logs (a p : List Log) : oneData (logItems a ++ logItems p) = true :=
  oneData_of_leOnly _ (by simp [leOnly_append, leOnly_logItems])

theorem leOnly_logs_err (a : List Log) (e : Exn) : leOnly (logItems a ++ [Item.err e]) = true := by
  rw [leOnly_append, leOnly_logItems]; rfl

theorem leOnly_logs_logs_err (a p : List Log) (e : Exn) : leOnly (logItems a ++ logItems p ++ [Item.err e]) = true := by
  rw [leOnly_append, leOnly_append, leOnly_logItems, leOnly_logItems]; rfl

theorem leOnly_logs_logs_err' (a p : List Log) (e : Exn) : leOnly (logItems a ++ (logItems p ++ [Item.err e])) = true := by
  rw [← List.append_assoc]; exact leOnly_logs_logs_err a p e

theorem oneData_logs_err (a : List Log) (e : Exn) : oneData (logItems a ++ [Item.err e]) = true :=
  oneData_of_leOnly _ (leOnly_logs_err a e)

theorem oneData_logs_logs_err (a p : List Log) (e : Exn) : oneData (logItems a ++ logItems p ++ [Item.err e]) = true :=
  oneData_of_leOnly _ (leOnly_logs_logs_err a p e)

theorem oneData_logs_logs_err' (a p : List Log) (e : Exn) : oneData (logItems a ++ (logItems p ++ [Item.err e])) = true :=
  oneData_of_leOnly _ (leOnly_logs_logs_err' a p e)

theorem oneData_stepOut (exch : Bool) (st : Step) : oneData (Abs.items (stepOut exch st)) = true := by
  unfold stepOut
  cases exch <;> cases h : st.act <;>
    simp [processExchangeStep, processStep, h, Abs.items, oneData_logs_data_logs', oneData_logs_logs, oneData_logs_err,
      oneData_logs_logs_err, oneData_logs_logs_err']

/-! ### frees do not touch memory -/

@[simp] theorem freeOff_mem {A : Allocator} (w : World A) (o : Nat) : (w.freeOff o).mem = w.mem := rfl
@[simp] theorem freeOff_nextW {A : Allocator} (w : World A) (o : Nat) : (w.freeOff o).nextW = w.nextW := rfl
@[simp] theorem free_mem {A : Allocator} (w : World A) (h : Option Hnd) : (w.free h).mem = w.mem := by
  cases h <;> rfl
@[simp] theorem free_none {A : Allocator} (w : World A) : w.free none = w := rfl

/-! ### a pointer reads back what was written -/

theorem intact_write (m : Mem) (o n wid : Nat) (b : Batch) : Mem.intact (m.write o n wid b) o n wid b = true := by
  simp only [Mem.intact, List.all_eq_true, List.mem_range]
  intro i hi
  simp [Mem.write, hi]

/-- the handle a receiver obtains for what `put` wrote -/
def putHnd {A : Allocator} (cfg : Cfg) (w : World A) (b : Batch) : Option Hnd :=
  match (put cfg w b).1 with
  | .ptr o n => some ⟨o, n, w.nextW, b⟩
  | .inl _ => none

/-- `put` either leaves the batch inline (world untouched) or allocates, writes and returns a pointer -/
theorem put_cases {A : Allocator} (cfg : Cfg) (w : World A) (b : Batch) :
    put cfg w b = (.inl (.data b), w) ∨
    ∃ o a', A.alloc w.a (cfg.need b) = some (o, a') ∧
      put cfg w b = (.ptr o (cfg.need b), ⟨a', w.mem.write o (cfg.need b) w.nextW b, w.nextW + 1⟩) := by
  unfold put
  split
  · exact .inl rfl
  · split
    · exact .inl rfl
    · split
      · exact .inl rfl
      · rename_i o a' h
        exact .inr ⟨o, a', h, rfl⟩

theorem recv_put {A : Allocator} (cfg : Cfg) (hneed : ∀ b, 0 < cfg.need b) (w w'' : World A) (b : Batch)
    (hm : w''.mem = (put cfg w b).2.mem) : recv w'' (put cfg w b).1 = (.data b, putHnd cfg w b) := by
  unfold putHnd
  rcases put_cases cfg w b with h | ⟨o, a', _, h⟩
  · rw [h]; rfl
  · rw [h] at hm ⊢
    have h0 : w''.mem o = some (w.nextW, b) := by
      rw [hm]; simp [Mem.write, hneed b]
    have h1 : Mem.intact w''.mem o (cfg.need b) w.nextW b = true := by
      rw [hm]; exact intact_write _ _ _ _ _
    simp [recv, resolve, h0, h1]

theorem putItems_leOnly {A : Allocator} (cfg : Cfg) (w : World A) (r : List Item) (h : leOnly r = true) :
    putItems cfg w r = (r.map .inl, w) := by
  induction r with
  | nil => rfl
  | cons i t ih =>
    simp only [leOnly, List.all_cons, Bool.and_eq_true] at h
    have := ih (by simpa [leOnly] using h.2)
    cases i <;> simp_all [putItems, isLE]

/-- correspondence of a shm read with an inline read -/
def RdRel (x : List Ev × REnd) (y : List Ev × ReadEnd) : Prop :=
  x.1 = y.1 ∧
    match x.2, y.2 with
    | .gotData _ _ rest, .gotData rest' => rest = rest'.map .inl ∧ leOnly rest' = true
    | .raised, .raised => True
    | .eos, .eos => True
    | _, _ => False

theorem read_put_nil {A : Allocator} (cfg : Cfg) (hneed : ∀ b, 0 < cfg.need b) (its : List Item) :
    ∀ (w w'' : World A), oneData its = true → w''.mem = (putItems cfg w its).2.mem →
      RdRel (readW w'' (putItems cfg w its).1) (readUntilData its) := by
  induction its with
  | nil => intro w w'' _ _; simp [putItems, readW, readUntilData, RdRel]
  | cons i r ih =>
    intro w w'' hone hm
    cases i with
    | log l =>
      simp only [oneData, isLE, Bool.true_and] at hone
      simp only [putItems] at hm ⊢
      have := ih w w'' hone hm
      simp only [readW, recv, readUntilData]
      obtain ⟨h1, h2⟩ := this
      refine ⟨by simp [h1], ?_⟩
      simpa using h2
    | data b =>
      simp only [oneData] at hone
      simp only [putItems, putItems_leOnly cfg _ r hone] at hm ⊢
      simp only [readW, recv_put cfg hneed w w'' b hm, readUntilData]
      exact ⟨rfl, rfl, hone⟩
    | err e => simp [putItems, readW, recv, readUntilData, RdRel]
    | token p => simp [oneData, isLE] at hone

theorem read_put {A : Allocator} (cfg : Cfg) (hneed : ∀ b, 0 < cfg.need b) (cs its : List Item) (w w'' : World A)
    (hcs : leOnly cs = true) (hone : oneData its = true) (hm : w''.mem = (putItems cfg w its).2.mem) :
    RdRel (readW w'' (cs.map .inl ++ (putItems cfg w its).1)) (readUntilData (cs ++ its)) := by
  induction cs with
  | nil => simpa using read_put_nil cfg hneed its w w'' hone hm
  | cons i t ih =>
    simp only [leOnly, List.all_cons, Bool.and_eq_true] at hcs
    have := ih (by simpa [leOnly] using hcs.2)
    cases i with
    | log l =>
      simp only [List.map_cons, List.cons_append, readW, recv, readUntilData]
      obtain ⟨h1, h2⟩ := this
      refine ⟨by simp [h1], ?_⟩
      simpa using h2
    | err e => simp [readW, recv, readUntilData, RdRel]
    | data b => simp [isLE] at hcs
    | token p => simp [isLE] at hcs

/-! ### simulation: shm machine ↦ inline machine -/

def SessRel (s : Sess) (t : Abs.Sess) : Prop :=
  s.exch = t.exch ∧ s.initErr = t.initErr ∧ s.carry = t.carry.map .inl ∧ leOnly t.carry = true ∧
    s.rest = t.rest ∧ s.srvDone = t.srvDone ∧ s.closed = t.closed

def R {A : Allocator} (c : Conn A) (a : Abs.St) : Prop :=
  match c.sess, a with
  | none, none => True
  | some s, some t => SessRel s t
  | _, _ => False

theorem R_open {A : Allocator} (c : Conn A) (a : Abs.St) (h : R c a) : sessionOpen c.sess = Abs.isOpen a := by
  unfold R at h
  cases hc : c.sess <;> cases a <;> simp_all [sessionOpen, Abs.isOpen, SessRel]

theorem drainW_nil {A : Allocator} (w : World A) : drainW w [] = ([], w) := rfl

theorem closeSess_nil {A : Allocator} (w : World A) (s : Sess) :
    (closeSess w s []).1 = [] ∧
      (closeSess w s []).2.2 = { s with carry := [], srvDone := true, closed := true, prevIn := none } := by
  simp [closeSess, drainW_nil]

theorem finishRead_sim {A : Allocator} (c : Conn A) (w : World A) (s1 : Sess) (t1 : Abs.Sess) (isTick : Bool)
    (seen : List Batch) (rd : List Ev × REnd) (rd' : List Ev × ReadEnd) (hr : RdRel rd rd')
    (h1 : s1.exch = t1.exch) (h2 : s1.initErr = t1.initErr) (h3 : s1.rest = t1.rest) (h4 : s1.srvDone = t1.srvDone)
    (h5 : s1.closed = t1.closed) :
    (finishRead c w s1 isTick seen rd).1 = (Abs.finishRead t1 isTick seen rd').1 ∧
      R (finishRead c w s1 isTick seen rd).2 (some (Abs.finishRead t1 isTick seen rd').2) := by
  obtain ⟨evs, e⟩ := rd
  obtain ⟨evs', e'⟩ := rd'
  obtain ⟨he, hk⟩ := hr
  simp only at he
  subst he
  cases e <;> cases e' <;> simp only [] at hk
  · obtain ⟨hrest, hle⟩ := hk
    simp [finishRead, Abs.finishRead, R, SessRel, *]
  · have := closeSess_nil w s1
    simp [finishRead, Abs.finishRead, R, SessRel, Abs.closeS, this.1, this.2, *, leOnly]
  · have := closeSess_nil w s1
    cases isTick <;> simp [finishRead, Abs.finishRead, R, SessRel, Abs.closeS, this.1, this.2, *, leOnly]

theorem fail_items (exch : Bool) (st : Step) (items : List Item) (h : stepOut exch st = .fail items) :
    leOnly items = true := by
  unfold stepOut at h
  cases exch <;> cases ha : st.act <;> simp [processExchangeStep, processStep, ha] at h <;> subst h <;>
    first | exact leOnly_logs_err _ _ | exact leOnly_logs_logs_err _ _ _ | exact leOnly_logs_logs_err' _ _ _

/-- what one server iteration writes, in terms of the step's items -/
theorem serverStep_spec {A : Allocator} (cfg : Cfg) (w : World A) (s : Sess) (hIn : Option Hnd) (coerce : Option Exn) :
    ∃ w1 : World A,
      (serverStep cfg w s hIn coerce).wire = (putItems cfg w1 (Abs.items (stepOutOf s.exch s.rest coerce))).1 ∧
      (serverStep cfg w s hIn coerce).w.mem = (putItems cfg w1 (Abs.items (stepOutOf s.exch s.rest coerce))).2.mem ∧
      (serverStep cfg w s hIn coerce).done = !Abs.isCont (stepOutOf s.exch s.rest coerce) ∧
      (serverStep cfg w s hIn coerce).rest = restAfter s.rest coerce := by
  cases coerce with
  | some e =>
    refine ⟨w, ?_⟩
    simp [serverStep, Abs.items, putItems, Abs.isCont, stepOutOf, restAfter]
    split <;> split <;> simp
  | none =>
    simp only [serverStep, stepOutOf, restAfter]
    cases hso : stepOut s.exch (headStep s.rest) with
    | cont items => exact ⟨_, rfl, rfl, rfl, rfl⟩
    | done items =>
      refine ⟨_, rfl, ?_, rfl, rfl⟩
      simp only [Abs.items]
      split <;> simp
    | fail items =>
      refine ⟨w, ?_, ?_, rfl, rfl⟩
      · simp [Abs.items, putItems_leOnly cfg w items (fail_items _ _ _ hso)]
      · simp only [Abs.items, putItems_leOnly cfg w items (fail_items _ _ _ hso)]
        split <;> split <;> split <;> simp

theorem oneData_stepOutOf (exch : Bool) (rest : List Step) (coerce : Option Exn) :
    oneData (Abs.items (stepOutOf exch rest coerce)) = true := by
  cases coerce with
  | some e => rfl
  | none => exact oneData_stepOut _ _

theorem R_of_sess {A : Allocator} (c : Conn A) (s : Sess) (t : Abs.Sess) (hc : c.sess = some s) (h : SessRel s t) :
    R c (some t) := by
  simp [R, hc, h]

/-- the server resolves exactly the batch the client sent -/
theorem recv_pin {A : Allocator} (cfg : Cfg) (hneed : ∀ b, 0 < cfg.need b) (w : World A) (inp : Option Batch) :
    (recv (pinOf cfg w inp).2 (pinOf cfg w inp).1).1 = inItem inp := by
  cases inp with
  | none => rfl
  | some b => simp [pinOf, inItem, recv_put cfg hneed w _ b rfl]

theorem sendOp_sim {A : Allocator} (cfg : Cfg) (hneed : ∀ b, 0 < cfg.need b) (c : Conn A) (s : Sess) (t : Abs.Sess)
    (inp : Option Batch) (coerce : Option Exn) (hc : c.sess = some s) (h : SessRel s t) :
    (sendOp cfg c s inp coerce).1 = (Abs.sendOp t inp coerce).1 ∧
      R (sendOp cfg c s inp coerce).2 (some (Abs.sendOp t inp coerce).2) := by
  obtain ⟨h1, h2, h3, h4, h5, h6, h7⟩ := h
  unfold sendOp Abs.sendOp
  rw [← h7]
  by_cases hcl : s.closed = true
  · simp only [hcl, if_true]
    exact ⟨by trivial, R_of_sess c s t hc ⟨h1, h2, h3, h4, h5, h6, h7⟩⟩
  · simp only [hcl, Bool.false_eq_true, if_false]
    rw [← h2]
    cases hie : s.initErr with
    | some e =>
      simp only []
      have hr := read_put cfg hneed t.carry [] (drainInput (pinOf cfg c.w inp).2 (pinOf cfg c.w inp).1) _ h4 rfl rfl
      simp only [putItems, List.append_nil, ← h3] at hr
      refine ⟨by rw [hr.1], ?_⟩
      simp [R, SessRel, h1, h5, hie, ← h2, leOnly]
    | none =>
      simp only []
      rw [← h6]
      by_cases hsd : s.srvDone = true
      · simp only [hsd, if_true]
        have hr := read_put cfg hneed t.carry [] (drainInput (pinOf cfg c.w inp).2 (pinOf cfg c.w inp).1) _ h4 rfl rfl
        simp only [putItems, List.append_nil, ← h3] at hr
        exact finishRead_sim c _ s t _ [] _ _ hr h1 h2 h5 h6 h7
      · simp only [hsd, Bool.false_eq_true, if_false]
        obtain ⟨w1, e1, e2, e3, e4⟩ := serverStep_spec cfg (pinOf cfg c.w inp).2 s
          (recv (pinOf cfg c.w inp).2 (pinOf cfg c.w inp).1).2 coerce
        have hr := read_put cfg hneed t.carry _ w1 _ h4 (oneData_stepOutOf s.exch s.rest coerce) e2
        rw [← e1, ← h3] at hr
        rw [recv_pin cfg hneed, ← h1, ← h5]
        exact finishRead_sim c _ _ _ _ _ _ _ hr rfl rfl e4 e3 rfl

theorem drainW_inl {A : Allocator} (w : World A) (cs : List Item) (h : leOnly cs = true) :
    drainW w (cs.map .inl) = (Abs.drain cs, w) := by
  induction cs with
  | nil => rfl
  | cons i t ih =>
    simp only [leOnly, List.all_cons, Bool.and_eq_true] at h
    have := ih (by simpa [leOnly] using h.2)
    cases i with
    | log l => simp [drainW, recv, Abs.drain, this]
    | err e =>
      simp only [List.map_cons, drainW, recv, Abs.drain, free_none]
      split <;> exact this
    | data b => simp [isLE] at h
    | token p => simp [isLE] at h

theorem closeOp_sim {A : Allocator} (c : Conn A) (s : Sess) (t : Abs.Sess) (hc : c.sess = some s) (h : SessRel s t) :
    (closeOp c s).1 = (if t.closed then (⟨[], []⟩ : OpOut) else ⟨Abs.drain t.carry, []⟩) ∧
      R (closeOp c s).2 (some (if t.closed then t else Abs.closeS t)) := by
  obtain ⟨h1, h2, h3, h4, h5, h6, h7⟩ := h
  unfold closeOp
  rw [← h7]
  by_cases hcl : s.closed = true
  · simp only [hcl, if_true]
    exact ⟨by trivial, R_of_sess c s t hc ⟨h1, h2, h3, h4, h5, h6, h7⟩⟩
  · simp only [hcl, Bool.false_eq_true, if_false]
    simp only [closeSess, h3, drainW_inl _ t.carry h4]
    refine ⟨by trivial, ?_⟩
    simp [R, SessRel, Abs.closeS, h1, h2, h5, leOnly]

theorem map_asValue_lg (ls : List Log) : (Sem.lg ls).map asValue = Sem.lg ls := by
  induction ls with
  | nil => rfl
  | cons l r ih => simp only [Sem.lg, List.map_cons, asValue] at ih ⊢; rw [ih]

theorem putItems_single {A : Allocator} (cfg : Cfg) (w : World A) (b : Batch) :
    putItems cfg w [.data b] = ([(put cfg w b).1], (put cfg w b).2) := rfl

theorem reqPhase_seen {A : Allocator} (cfg : Cfg) (hneed : ∀ b, 0 < cfg.need b) (w : World A) (req : Option Batch) :
    (reqPhase cfg w req).1 = req.toList := by
  cases req with
  | none => rfl
  | some rb => simp [reqPhase, recv_put cfg hneed w _ rb rfl, dataOf]

theorem respPhase_evs {A : Allocator} (cfg : Cfg) (hneed : ∀ b, 0 < cfg.need b) (w : World A) (logs : List Log) (v : Nat) :
    (respPhase cfg w logs v).1 = Sem.lg logs ++ [.value v] := by
  have hr := read_put cfg hneed (logItems logs) [.data (resultBatch v)] w (put cfg w (resultBatch v)).2
    (leOnly_logItems logs) rfl rfl
  rw [putItems_single, Engine.Aux.read_logs_data] at hr
  unfold respPhase
  simp only [inlLogs]
  generalize readW (put cfg w (resultBatch v)).2
    (List.map WItem.inl (logItems logs) ++ [(put cfg w (resultBatch v)).1]) = rd at hr
  obtain ⟨evs, e⟩ := rd
  obtain ⟨he, hk⟩ := hr
  simp only at he
  subst he
  cases e <;> simp only [] at hk
  simp [map_asValue_lg, asValue, resultBatch]

theorem callOp_spec {A : Allocator} (cfg : Cfg) (hneed : ∀ b, 0 < cfg.need b) (c : Conn A) (logs : List Log)
    (out : Except Exn Nat) (req : Option Batch) :
    (callOp cfg c logs out req).1 = ⟨Sem.unary logs out, req.toList⟩ ∧ (callOp cfg c logs out req).2.sess = c.sess := by
  unfold callOp
  cases out with
  | error e => simp [reqPhase_seen cfg hneed, Sem.unary, Sem.lg]
  | ok v => simp [reqPhase_seen cfg hneed, respPhase_evs cfg hneed, Sem.unary]

theorem step_sim {A : Allocator} (cfg : Cfg) (hneed : ∀ b, 0 < cfg.need b) (c : Conn A) (a : Abs.St) (op : Op)
    (h : R c a) : (step cfg c op).1 = (Abs.step a op).1 ∧ R (step cfg c op).2 (Abs.step a op).2 := by
  have ho := R_open c a h
  cases op with
  | call logs out req =>
    simp only [step, Abs.step, ho]
    cases Abs.isOpen a with
    | true => exact ⟨rfl, h⟩
    | false =>
      simp only [Bool.false_eq_true, if_false]
      obtain ⟨e1, e2⟩ := callOp_spec cfg hneed c logs out req
      refine ⟨e1, ?_⟩
      unfold R at h ⊢
      rw [e2]; exact h
  | openS exch early init il steps =>
    simp only [step, Abs.step, ho]
    cases Abs.isOpen a with
    | true => exact ⟨rfl, h⟩
    | false =>
      simp only [Bool.false_eq_true, if_false]
      refine ⟨by trivial, ?_⟩
      cases init <;> simp [R, SessRel, inlLogs, leOnly_logItems]
  | tick =>
    unfold R at h
    cases hc : c.sess with
    | none => cases a with
      | none => simp [step, Abs.step, hc, R]
      | some t => simp [hc] at h
    | some s => cases a with
      | none => simp [hc] at h
      | some t =>
        simp only [hc] at h
        simpa [step, Abs.step, hc] using sendOp_sim cfg hneed c s t none none hc h
  | send inp coerce =>
    unfold R at h
    cases hc : c.sess with
    | none => cases a with
      | none => simp [step, Abs.step, hc, R]
      | some t => simp [hc] at h
    | some s => cases a with
      | none => simp [hc] at h
      | some t =>
        simp only [hc] at h
        simpa [step, Abs.step, hc] using sendOp_sim cfg hneed c s t (some inp) coerce hc h
  | close =>
    unfold R at h
    cases hc : c.sess with
    | none => cases a with
      | none => simp [step, Abs.step, hc, R]
      | some t => simp [hc] at h
    | some s => cases a with
      | none => simp [hc] at h
      | some t =>
        simp only [hc] at h
        have := closeOp_sim c s t hc h
        simp only [step, Abs.step, hc]
        cases ht : t.closed <;> simp_all
  | cancel =>
    unfold R at h
    cases hc : c.sess with
    | none => cases a with
      | none => simp [step, Abs.step, hc, R]
      | some t => simp [hc] at h
    | some s => cases a with
      | none => simp [hc] at h
      | some t =>
        simp only [hc] at h
        have := closeOp_sim c s t hc h
        simp only [step, Abs.step, hc]
        cases ht : t.closed <;> simp_all
  | release k =>
    simp only [step, Abs.step]
    refine ⟨by trivial, ?_⟩
    have : (releaseOp c k).sess = c.sess := by
      unfold releaseOp
      split
      · rfl
      · split <;> rfl
    unfold R at h ⊢
    rw [this]; exact h

theorem run_sim {A : Allocator} (cfg : Cfg) (hneed : ∀ b, 0 < cfg.need b) (ops : List Op) :
    ∀ (c : Conn A) (a : Abs.St), R c a → (run cfg c ops).1 = Abs.run a ops := by
  induction ops with
  | nil => intro c a _; rfl
  | cons op r ih =>
    intro c a h
    obtain ⟨e1, e2⟩ := step_sim cfg hneed c a op h
    simp only [run, Abs.run, e1, ih _ _ e2]

/-! ### B. the inline machine driven to the end of a stream is `Engine.Pipe` -/

/-- `for batch in session` on the inline machine -/
def absIterAll : Nat → Abs.Sess → List Ev
  | 0, _ => []
  | n + 1, s => if s.closed then [] else (Abs.sendOp s none none).1.evs ++ absIterAll n (Abs.sendOp s none none).2

/-- inputs one by one (stopping once the session closed itself), then `close()` -/
def absExchAll : List Batch → Abs.Sess → List Ev
  | [], s => if s.closed then [] else Abs.drain s.carry
  | b :: r, s => if s.closed then [] else (Abs.sendOp s (some b) none).1.evs ++ absExchAll r (Abs.sendOp s (some b) none).2

theorem absIterAll_closed (n : Nat) (s : Abs.Sess) (h : s.closed = true) : absIterAll n s = [] := by
  cases n <;> simp [absIterAll, h]

theorem absExchAll_closed (l : List Batch) (s : Abs.Sess) (h : s.closed = true) : absExchAll l s = [] := by
  cases l <;> simp [absExchAll, h]

theorem drain_logs (ls : List Log) : Abs.drain (logItems ls) = Sem.lg ls := by
  induction ls with
  | nil => rfl
  | cons l r ih => simp only [logItems, List.map_cons, Abs.drain, Sem.lg] at ih ⊢; rw [ih]

open Engine.Aux in
theorem abs_iterate (steps : List Step) :
    ∀ (cl : List Log) (fuel : Nat), steps.length + 2 ≤ fuel →
      absIterAll fuel ⟨false, none, logItems cl, steps, false, false⟩ = Pipe.iterate (logItems cl) steps := by
  induction steps with
  | nil =>
    intro cl fuel hf
    obtain ⟨n, rfl⟩ : ∃ n, fuel = n + 1 := ⟨fuel - 1, by simp at hf; omega⟩
    simp [absIterAll, Abs.sendOp, stepOutOf, stepOut, headStep, processStep, logItems, Abs.items, Abs.isCont, Abs.finishRead,
      Pipe.iterate, absIterAll_closed, Abs.closeS]
    have := read_logs_only cl
    simp only [logItems] at this
    simp [this, Abs.finishRead, absIterAll_closed, Abs.closeS]
  | cons st r ih =>
    intro cl fuel hf
    simp only [List.length_cons] at hf
    obtain ⟨n, rfl⟩ : ∃ n, fuel = n + 1 := ⟨fuel - 1, by omega⟩
    cases hact : st.act with
    | emit b =>
      simp only [absIterAll, Abs.sendOp, stepOutOf, stepOut, headStep, processStep, hact, Abs.items, Abs.isCont,
        Pipe.iterate, Bool.false_eq_true, if_false, restAfter, List.tail_cons]
      rw [regroup, read_logs_data]
      simp only [Abs.finishRead, Bool.not_true]
      rw [ih st.post n (by omega)]
    | finish =>
      simp only [absIterAll, Abs.sendOp, stepOutOf, stepOut, headStep, processStep, hact, Abs.items, Abs.isCont,
        Pipe.iterate, Bool.false_eq_true, if_false, restAfter, List.tail_cons]
      rw [← logItems_append, ← logItems_append, read_logs_only]
      simp [Abs.finishRead, absIterAll_closed, Abs.closeS]
    | emitFinish b =>
      simp only [absIterAll, Abs.sendOp, stepOutOf, stepOut, headStep, processStep, hact, Abs.items, Abs.isCont,
        Pipe.iterate, Bool.false_eq_true, if_false, restAfter, List.tail_cons]
      rw [regroup, read_logs_data]
      simp only [Abs.finishRead, Bool.not_false]
      obtain ⟨m, rfl⟩ : ∃ m, n = m + 1 := ⟨n - 1, by omega⟩
      simp [absIterAll, Abs.sendOp, read_logs_only, Abs.finishRead, absIterAll_closed, Abs.closeS]
    | raise e =>
      simp only [absIterAll, Abs.sendOp, stepOutOf, stepOut, headStep, processStep, hact, Abs.items, Abs.isCont,
        Pipe.iterate, Bool.false_eq_true, if_false, restAfter, List.tail_cons]
      rw [regroup_err, read_logs_err]
      simp [Abs.finishRead, absIterAll_closed, Abs.closeS]
    | nothing =>
      simp only [absIterAll, Abs.sendOp, stepOutOf, stepOut, headStep, processStep, hact, Abs.items, Abs.isCont,
        Pipe.iterate, Bool.false_eq_true, if_false, restAfter, List.tail_cons]
      rw [regroup_err, read_logs_err]
      simp [Abs.finishRead, absIterAll_closed, Abs.closeS]

open Engine.Aux in
theorem abs_exchange (steps : List Step) :
    ∀ (cl : List Log) (inputs : List Batch), inputs.length = steps.length →
      absExchAll inputs ⟨true, none, logItems cl, steps, false, false⟩ = Pipe.exchangeAll (logItems cl) steps := by
  induction steps with
  | nil =>
    intro cl inputs hl
    have : inputs = [] := by simpa using hl
    subst this
    simp [absExchAll, Pipe.exchangeAll, drain_logs, drainLogs_logs]
  | cons st r ih =>
    intro cl inputs hl
    obtain ⟨b, bs, rfl⟩ : ∃ b bs, inputs = b :: bs := by
      cases inputs with
      | nil => simp at hl
      | cons b bs => exact ⟨b, bs, rfl⟩
    simp only [List.length_cons, Nat.add_right_cancel_iff] at hl
    cases hact : st.act with
    | emit b' =>
      simp only [absExchAll, Abs.sendOp, stepOutOf, stepOut, headStep, processExchangeStep, processStep, hact, Abs.items,
        Abs.isCont, Pipe.exchangeAll, Pipe.exchangeOne, Bool.false_eq_true, if_false, if_true, restAfter, List.tail_cons]
      rw [regroup, read_logs_data]
      simp only [Abs.finishRead, Bool.not_true]
      rw [ih st.post bs hl]
    | finish =>
      simp only [absExchAll, Abs.sendOp, stepOutOf, stepOut, headStep, processExchangeStep, hact, Abs.items,
        Abs.isCont, Pipe.exchangeAll, Pipe.exchangeOne, Bool.false_eq_true, if_false, if_true, restAfter, List.tail_cons]
      rw [regroup_err2, read_logs_err]
      simp [Abs.finishRead, absExchAll_closed, Abs.closeS]
    | emitFinish b' =>
      simp only [absExchAll, Abs.sendOp, stepOutOf, stepOut, headStep, processExchangeStep, hact, Abs.items,
        Abs.isCont, Pipe.exchangeAll, Pipe.exchangeOne, Bool.false_eq_true, if_false, if_true, restAfter, List.tail_cons]
      rw [regroup_err2, read_logs_err]
      simp [Abs.finishRead, absExchAll_closed, Abs.closeS]
    | raise e =>
      simp only [absExchAll, Abs.sendOp, stepOutOf, stepOut, headStep, processExchangeStep, processStep, hact, Abs.items,
        Abs.isCont, Pipe.exchangeAll, Pipe.exchangeOne, Bool.false_eq_true, if_false, if_true, restAfter, List.tail_cons]
      rw [regroup_err, read_logs_err]
      simp [Abs.finishRead, absExchAll_closed, Abs.closeS]
    | nothing =>
      simp only [absExchAll, Abs.sendOp, stepOutOf, stepOut, headStep, processExchangeStep, processStep, hact, Abs.items,
        Abs.isCont, Pipe.exchangeAll, Pipe.exchangeOne, Bool.false_eq_true, if_false, if_true, restAfter, List.tail_cons]
      rw [regroup_err, read_logs_err]
      simp [Abs.finishRead, absExchAll_closed, Abs.closeS]

theorem iterAll_sim {A : Allocator} (cfg : Cfg) (hneed : ∀ b, 0 < cfg.need b) (n : Nat) :
    ∀ (c : Conn A) (t : Abs.Sess), R c (some t) → (iterAll cfg n c).1 = absIterAll n t := by
  induction n with
  | zero => intro c t _; rfl
  | succ n ih =>
    intro c t h
    have ho := R_open c _ h
    obtain ⟨e1, e2⟩ := step_sim cfg hneed c (some t) .tick h
    simp only [Abs.step] at e1 e2
    simp only [iterAll, absIterAll, ho, Abs.isOpen]
    cases t.closed with
    | true => simp
    | false => simp [e1, ih _ _ e2]

theorem exchAll_sim {A : Allocator} (cfg : Cfg) (hneed : ∀ b, 0 < cfg.need b) (l : List Batch) :
    ∀ (c : Conn A) (t : Abs.Sess), R c (some t) → (exchAll cfg l c).1 = absExchAll l t := by
  induction l with
  | nil =>
    intro c t h
    obtain ⟨e1, _⟩ := step_sim cfg hneed c (some t) .close h
    simp only [Abs.step] at e1
    simp only [exchAll, absExchAll, e1]
    cases t.closed <;> simp
  | cons b r ih =>
    intro c t h
    have ho := R_open c _ h
    obtain ⟨e1, e2⟩ := step_sim cfg hneed c (some t) (.send b none) h
    simp only [Abs.step] at e1 e2
    simp only [exchAll, absExchAll, ho, Abs.isOpen]
    cases t.closed with
    | true => simp
    | false => simp [e1, ih _ _ e2]

theorem open_R {A : Allocator} (cfg : Cfg) (c : Conn A) (hq : sessionOpen c.sess = false) (exch early : Bool)
    (il : List Log) (steps : List Step) :
    R (step cfg c (.openS exch early none il steps)).2 (some ⟨exch, none, logItems il, steps, false, false⟩) := by
  simp [step, hq, R, SessRel, inlLogs, leOnly_logItems]

/-! ### C. accounting -/

/-- world-level invariant against an explicit list of outstanding references -/
structure WInv {A : Allocator} (L : AllocLaws A) (w : World A) (rs : List Hnd) : Prop where
  ok : L.Ok w.a
  acc : (A.live w.a).Perm (rs.map Hnd.region)
  intact : ∀ h ∈ rs, Intact w.mem h

theorem winv_perm {A : Allocator} {L : AllocLaws A} {w : World A} {rs rs' : List Hnd} (h : WInv L w rs)
    (p : rs.Perm rs') : WInv L w rs' :=
  ⟨h.ok, h.acc.trans (p.map _), fun x hx => h.intact x (p.mem_iff.mpr hx)⟩

theorem putHnd_inl {A : Allocator} (cfg : Cfg) (w : World A) (b : Batch) (h : put cfg w b = (.inl (.data b), w)) :
    putHnd cfg w b = none := by
  simp [putHnd, h]

theorem putHnd_ptr {A : Allocator} (cfg : Cfg) (w w' : World A) (b : Batch) (o n : Nat)
    (h : put cfg w b = (.ptr o n, w')) : putHnd cfg w b = some ⟨o, n, w.nextW, b⟩ := by
  simp [putHnd, h]

/-- `maybe_write_to_shm` keeps the invariant, with the new handle (if any) outstanding; the new region is disjoint
from every referenced one, so nothing referenced is overwritten -/
theorem winv_put {A : Allocator} (L : AllocLaws A) (cfg : Cfg) (hneed : ∀ b, 0 < cfg.need b) (w : World A)
    (rs : List Hnd) (b : Batch) (h : WInv L w rs) : WInv L (put cfg w b).2 ((putHnd cfg w b).toList ++ rs) := by
  rcases put_cases cfg w b with e | ⟨o, a', ha, e⟩
  · rw [putHnd_inl cfg w b e, e]; simpa using h
  · rw [putHnd_ptr cfg w _ b o _ e, e]
    obtain ⟨hok, hperm, hdis⟩ := L.alloc_spec w.a (cfg.need b) o a' h.ok (hneed b) ha
    refine ⟨hok, ?_, ?_⟩
    · simp only [Option.toList, List.singleton_append, List.map_cons, Hnd.region]
      exact hperm.trans (List.Perm.cons _ h.acc)
    · intro x hx
      simp only [Option.toList, List.singleton_append, List.mem_cons] at hx
      rcases hx with rfl | hx
      · intro i hi
        simp only [Mem.write]
        simp only at hi
        simp [hi]
      · intro i hi
        have hmem : x.region ∈ A.live w.a := h.acc.mem_iff.mpr (List.mem_map_of_mem hx)
        have hd := hdis _ hmem
        simp only [Disjoint, Hnd.region] at hd
        have := h.intact x hx i hi
        simp only [Mem.write]
        rw [if_neg (by omega)]
        exact this

theorem winv_free_head {A : Allocator} (L : AllocLaws A) (w : World A) (h : Hnd) (rs : List Hnd)
    (hw : WInv L w (h :: rs)) : WInv L (w.free (some h)) rs := by
  have hmem : (h.off, h.len) ∈ A.live w.a := hw.acc.mem_iff.mpr (by simp [Hnd.region])
  obtain ⟨hok, hperm⟩ := L.free_spec w.a h.off h.len hw.ok hmem
  refine ⟨hok, ?_, ?_⟩
  · have : ((h.off, h.len) :: A.live (A.free w.a h.off)).Perm ((h.off, h.len) :: rs.map Hnd.region) := by
      have := hperm.symm.trans hw.acc
      simpa [Hnd.region] using this
    exact (List.perm_cons _).mp this
  · intro x hx
    exact hw.intact x (List.mem_cons_of_mem _ hx)

theorem winv_free_opt {A : Allocator} (L : AllocLaws A) (w : World A) (h : Option Hnd) (rs : List Hnd)
    (hw : WInv L w (h.toList ++ rs)) : WInv L (w.free h) rs := by
  cases h with
  | none => simpa using hw
  | some h => exact winv_free_head L w h rs (by simpa using hw)

/-! #### what a read of one `process()` call's output returns -/

def isLog : Item → Bool
  | .log _ => true
  | _ => false

def logsOnly (l : List Item) : Bool := l.all isLog

/-- logs, then either nothing, or one data batch followed by logs, or an error followed by logs / errors -/
def good : List Item → Bool
  | [] => true
  | .log _ :: r => good r
  | .data _ :: r => logsOnly r
  | .err _ :: r => leOnly r
  | .token _ :: _ => false

inductive Outcome where
  | data (b : Batch) (post : List Item)
  | stop

def outcome : List Item → Outcome
  | [] => .stop
  | .log _ :: r => outcome r
  | .data b :: r => .data b r
  | _ => .stop

/-- the handle `putItems` creates (for the one data batch, if it is routed) -/
def itemsHnd {A : Allocator} (cfg : Cfg) (w : World A) (its : List Item) : Option Hnd :=
  match outcome its with
  | .data b _ => putHnd cfg w b
  | .stop => none

theorem leOnly_of_logsOnly (l : List Item) (h : logsOnly l = true) : leOnly l = true := by
  simp only [logsOnly, leOnly, List.all_eq_true] at h ⊢
  intro x hx
  have := h x hx
  cases x <;> simp_all [isLog, isLE]

theorem logsOnly_logItems (ls : List Log) : logsOnly (logItems ls) = true := by
  simp [logsOnly, logItems, isLog]

theorem good_of_logsOnly (l : List Item) (h : logsOnly l = true) : good l = true := by
  induction l with
  | nil => rfl
  | cons i r ih =>
    simp only [logsOnly, List.all_cons, Bool.and_eq_true] at h
    cases i <;> simp_all [good, isLog, logsOnly]

theorem good_append_logs (a : List Log) (r : List Item) (h : good r = true) : good (logItems a ++ r) = true := by
  induction a with
  | nil => simpa [logItems] using h
  | cons l t ih => simpa [logItems, good] using ih

theorem good_logs_err (a : List Log) (e : Exn) : good (logItems a ++ [Item.err e]) = true :=
  good_append_logs a _ (by simp [good, leOnly])

theorem good_logs_logs_err (a p : List Log) (e : Exn) : good (logItems a ++ logItems p ++ [Item.err e]) = true := by
  rw [List.append_assoc]
  exact good_append_logs a _ (good_logs_err p e)

theorem good_stepOutOf (exch : Bool) (rest : List Step) (coerce : Option Exn) :
    good (Abs.items (stepOutOf exch rest coerce)) = true := by
  cases coerce with
  | some e => rfl
  | none =>
    simp only [stepOutOf, stepOut]
    cases exch <;> cases h : (headStep rest).act <;>
      simp [processExchangeStep, processStep, h, Abs.items, good, leOnly, List.append_assoc, good_append_logs, logsOnly_logItems,
        good_of_logsOnly, good_logs_err, good_logs_logs_err]

theorem putItems_world {A : Allocator} (cfg : Cfg) (its : List Item) :
    ∀ (w : World A), good its = true →
      (putItems cfg w its).2 = (match outcome its with | .data b _ => (put cfg w b).2 | .stop => w) := by
  induction its with
  | nil => intro w _; rfl
  | cons i r ih =>
    intro w hg
    cases i with
    | log l => simp only [good] at hg; simpa [putItems, outcome] using ih w hg
    | data b =>
      simp only [good] at hg
      simp [putItems, outcome, putItems_leOnly cfg _ r (leOnly_of_logsOnly r hg)]
    | err e =>
      simp only [good] at hg
      simp [putItems, outcome, putItems_leOnly cfg _ r hg]
    | token p => simp [good] at hg

theorem winv_putItems {A : Allocator} (L : AllocLaws A) (cfg : Cfg) (hneed : ∀ b, 0 < cfg.need b) (w : World A)
    (rs : List Hnd) (its : List Item) (hg : good its = true) (h : WInv L w rs) :
    WInv L (putItems cfg w its).2 ((itemsHnd cfg w its).toList ++ rs) := by
  rw [putItems_world cfg its w hg]
  unfold itemsHnd
  cases outcome its with
  | data b post => exact winv_put L cfg hneed w rs b h
  | stop => simpa using h

/-- result of the client's read of (unread logs ++ what one iteration wrote) -/
theorem read_good {A : Allocator} (cfg : Cfg) (hneed : ∀ b, 0 < cfg.need b) (its : List Item) :
    ∀ (cs : List Item) (w w'' : World A), logsOnly cs = true → good its = true →
      w''.mem = (putItems cfg w its).2.mem →
      match outcome its with
      | .data b post =>
          ∃ evs, readW w'' (cs.map .inl ++ (putItems cfg w its).1) = (evs, .gotData b (putHnd cfg w b) (post.map .inl)) ∧
            logsOnly post = true
      | .stop => ∀ evs b h r, readW w'' (cs.map .inl ++ (putItems cfg w its).1) ≠ (evs, .gotData b h r) := by
  intro cs
  induction cs with
  | cons i t ih =>
    intro w w'' hcs hg hm
    simp only [logsOnly, List.all_cons, Bool.and_eq_true] at hcs
    have ht : logsOnly t = true := by simpa [logsOnly] using hcs.2
    have := ih w w'' ht hg hm
    cases i with
    | log l =>
      simp only [List.map_cons, List.cons_append, readW, recv]
      cases ho : outcome its with
      | data b post =>
        simp only [ho] at this
        obtain ⟨evs, e, hp⟩ := this
        exact ⟨.log l :: evs, by simp [e], hp⟩
      | stop =>
        simp only [ho] at this
        intro evs b h r hcontra
        cases hrd : readW w'' (t.map .inl ++ (putItems cfg w its).1) with
        | mk e1 e2 =>
          rw [hrd] at hcontra
          simp only [Prod.mk.injEq] at hcontra
          exact this e1 b h r (by rw [hrd, hcontra.2])
    | data b => simp [isLog] at hcs
    | err e => simp [isLog] at hcs
    | token p => simp [isLog] at hcs
  | nil =>
    simp only [List.map_nil, List.nil_append]
    induction its with
    | nil => intro w w'' _ _ _; simp [outcome, putItems, readW]
    | cons i r ih2 =>
      intro w w'' _ hg hm
      cases i with
      | log l =>
        simp only [good] at hg
        simp only [putItems] at hm ⊢
        have := ih2 w w'' rfl hg hm
        simp only [outcome, readW, recv]
        cases ho : outcome r with
        | data b post =>
          simp only [ho] at this
          obtain ⟨evs, e, hp⟩ := this
          exact ⟨.log l :: evs, by simp [e], hp⟩
        | stop =>
          simp only [ho] at this
          intro evs b h r' hcontra
          cases hrd : readW w'' (putItems cfg w r).1 with
          | mk e1 e2 =>
            rw [hrd] at hcontra
            simp only [Prod.mk.injEq] at hcontra
            exact this e1 b h r' (by rw [hrd, hcontra.2])
      | data b =>
        simp only [good] at hg
        have hle := leOnly_of_logsOnly r hg
        simp only [putItems, putItems_leOnly cfg _ r hle] at hm ⊢
        simp only [outcome, readW, recv_put cfg hneed w w'' b hm]
        exact ⟨_, rfl, hg⟩
      | err e =>
        simp only [outcome, putItems, readW, recv]
        intro evs b h r' hcontra
        simp at hcontra
      | token p => simp [good] at hg

/-! #### the connection invariant -/

structure SessOk (s : Sess) : Prop where
  carry : ∃ cs, s.carry = cs.map .inl ∧ logsOnly cs = true
  done_prev : s.srvDone = true → s.prevIn = none
  closed_done : s.closed = true → s.srvDone = true
  init_done : s.initErr ≠ none → s.srvDone = true

structure Inv {A : Allocator} (L : AllocLaws A) (c : Conn A) : Prop where
  winv : WInv L c.w (refs c)
  sessOk : ∀ s, c.sess = some s → SessOk s

theorem clientRefs_snoc (held : List HeldB) (b : Batch) (h : Option Hnd) :
    clientRefs (held ++ [⟨b, h, false⟩]) = clientRefs held ++ h.toList := by
  cases h <;> simp [clientRefs, List.filterMap_append]

theorem refs_eq {A : Allocator} (c : Conn A) (s : Sess) (hc : c.sess = some s) :
    refs c = clientRefs c.held ++ s.prevIn.toList := by
  simp [refs, serverRefs, hc]

theorem perm3 {α : Type} (a b c : List α) : (a ++ (b ++ c)).Perm (c ++ (a ++ b)) := by
  have h1 : (a ++ (b ++ c)) = (a ++ b) ++ c := (List.append_assoc a b c).symm
  rw [h1]
  exact List.perm_append_comm

/-- the client part of a tick / exchange keeps the invariant.  `hnew` = the handle of the data batch the server routed
in this iteration (if any): the read returns it together with that batch, or returns no batch and there is none -/
theorem finishRead_inv {A : Allocator} (L : AllocLaws A) (c : Conn A) (w : World A) (s1 : Sess) (isTick : Bool)
    (seen : List Batch) (rd : List Ev × REnd) (hnew : Option Hnd)
    (hw : WInv L w (hnew.toList ++ (s1.prevIn.toList ++ clientRefs c.held)))
    (hdp : s1.srvDone = true → s1.prevIn = none) (hcl : s1.closed = false) (hie : s1.initErr = none)
    (hrd : (∃ evs b post, rd = (evs, .gotData b hnew (post.map .inl)) ∧ logsOnly post = true) ∨
           (hnew = none ∧ ∀ evs b h r, rd ≠ (evs, .gotData b h r))) :
    Inv L (finishRead c w s1 isTick seen rd).2 := by
  have hclose : Inv L { c with w := (closeSess w s1 []).2.1, sess := some (closeSess w s1 []).2.2 } ∨ hnew ≠ none := by
    by_cases hn : hnew = none
    · left
      subst hn
      have e2 := (closeSess_nil w s1).2
      refine ⟨?_, ?_⟩
      · simp only [refs, serverRefs, e2, Option.toList, List.append_nil]
        simp only [closeSess, drainW_nil, Gen.C29.finalReleasedBeforeEos, if_true]
        cases hsd : s1.srvDone with
        | true =>
          have := hdp hsd
          simp only [this, Option.toList, List.nil_append] at hw
          simpa using hw
        | false =>
          simp only [Bool.false_eq_true, if_false]
          exact winv_free_opt L w s1.prevIn _ (by simpa using hw)
      · intro s hs
        simp only [Option.some.injEq] at hs
        subst hs
        rw [e2]
        exact ⟨⟨[], rfl, rfl⟩, fun _ => rfl, fun _ => rfl, fun _ => rfl⟩
    · exact .inr hn
  rcases hrd with ⟨evs, b, post, rfl, hp⟩ | ⟨hn, hno⟩
  · simp only [finishRead]
    refine ⟨?_, ?_⟩
    · simp only [refs, serverRefs, clientRefs_snoc]
      refine winv_perm hw ?_
      have := perm3 hnew.toList s1.prevIn.toList (clientRefs c.held)
      refine this.trans ?_
      simp only [List.append_assoc]
      exact List.Perm.refl _
    · intro s hs
      simp only [Option.some.injEq] at hs
      subst hs
      exact ⟨⟨post, rfl, hp⟩, hdp, by simp [hcl], by simp [hie]⟩
  · rcases hclose with hclose | hcontra
    · obtain ⟨evs, e⟩ := rd
      cases e with
      | gotData b h r => exact absurd rfl (hno evs b h r)
      | raised => simpa [finishRead] using hclose
      | eos =>
        cases isTick with
        | true => simpa [finishRead] using hclose
        | false =>
          simp only [finishRead, Bool.false_eq_true, if_false]
          subst hn
          refine ⟨?_, ?_⟩
          · simp only [refs, serverRefs]
            refine winv_perm hw ?_
            simpa using List.perm_append_comm
          · intro s hs
            simp only [Option.some.injEq] at hs
            subst hs
            exact ⟨⟨[], rfl, rfl⟩, hdp, by simp [hcl], by simp [hie]⟩
    · exact absurd hn hcontra

/-- the input side: the client offers its batch to the segment, the server resolves it -/
theorem pin_inv {A : Allocator} (L : AllocLaws A) (cfg : Cfg) (hneed : ∀ b, 0 < cfg.need b) (w : World A)
    (rs : List Hnd) (inp : Option Batch) (h : WInv L w rs) :
    WInv L (pinOf cfg w inp).2 ((recv (pinOf cfg w inp).2 (pinOf cfg w inp).1).2.toList ++ rs) := by
  cases inp with
  | none => simpa [pinOf, recv] using h
  | some b =>
    simp only [pinOf, recv_put cfg hneed w _ b rfl]
    exact winv_put L cfg hneed w rs b h

/-- draining a pointer input frees exactly the region the sender allocated for it -/
theorem drainInput_eq {A : Allocator} (cfg : Cfg) (hneed : ∀ b, 0 < cfg.need b) (w : World A) (inp : Option Batch) :
    drainInput (pinOf cfg w inp).2 (pinOf cfg w inp).1 =
      (pinOf cfg w inp).2.free (recv (pinOf cfg w inp).2 (pinOf cfg w inp).1).2 := by
  cases inp with
  | none => rfl
  | some b =>
    simp only [pinOf, recv_put cfg hneed w _ b rfl]
    rcases put_cases cfg w b with e | ⟨o, a', _, e⟩
    · rw [putHnd_inl cfg w b e, e]; rfl
    · rw [putHnd_ptr cfg w _ b o _ e, e]
      simp [drainInput, Gen.C29.drainFreesPointers, World.free]

theorem serverStep_none {A : Allocator} (cfg : Cfg) (w : World A) (s : Sess) (hIn : Option Hnd) :
    serverStep cfg w s hIn none =
      ⟨(putItems cfg (if s.early then (w.free s.prevIn).free hIn else w.free s.prevIn)
          (Abs.items (stepOut s.exch (headStep s.rest)))).1,
       (if Abs.isCont (stepOut s.exch (headStep s.rest)) then
          (putItems cfg (if s.early then (w.free s.prevIn).free hIn else w.free s.prevIn)
            (Abs.items (stepOut s.exch (headStep s.rest)))).2
        else ((putItems cfg (if s.early then (w.free s.prevIn).free hIn else w.free s.prevIn)
            (Abs.items (stepOut s.exch (headStep s.rest)))).2).free (if s.early then none else hIn)),
       (if Abs.isCont (stepOut s.exch (headStep s.rest)) then (if s.early then none else hIn) else none),
       !Abs.isCont (stepOut s.exch (headStep s.rest)), s.rest.tail⟩ := by
  simp only [serverStep, Gen.C29.prevReleasedBeforeProcess, Gen.C29.finalReleasedBeforeEos, Gen.C29.releaseIdempotent,
    if_true, Bool.and_true]
  cases hso : stepOut s.exch (headStep s.rest) with
  | cont items => simp [Abs.items, Abs.isCont]
  | done items => simp [Abs.items, Abs.isCont]
  | fail items => simp [Abs.items, Abs.isCont, putItems_leOnly cfg _ items (fail_items _ _ _ hso)]

theorem serverStep_some {A : Allocator} (cfg : Cfg) (w : World A) (s : Sess) (hIn : Option Hnd) (e : Exn) :
    serverStep cfg w s hIn (some e) = ⟨[.inl (.err e)], (w.free hIn).free s.prevIn, none, true, s.rest⟩ := by
  simp [serverStep, Gen.C29.coerceFailureReleases, Gen.C29.finalReleasedBeforeEos]

theorem sendOp_inv {A : Allocator} (L : AllocLaws A) (cfg : Cfg) (hneed : ∀ b, 0 < cfg.need b) (c : Conn A) (s : Sess)
    (inp : Option Batch) (coerce : Option Exn) (hc : c.sess = some s) (hi : Inv L c) :
    Inv L (sendOp cfg c s inp coerce).2 := by
  have hs := hi.sessOk s hc
  have hw0 : WInv L c.w (clientRefs c.held ++ s.prevIn.toList) := by
    have := hi.winv; rwa [refs_eq c s hc] at this
  obtain ⟨cs, hcs, hlogs⟩ := hs.carry
  unfold sendOp
  by_cases hcl : s.closed = true
  · simpa [hcl] using hi
  · simp only [hcl, Bool.false_eq_true, if_false]
    have hpin := pin_inv L cfg hneed c.w _ inp hw0
    cases hie : s.initErr with
    | some e =>
      simp only []
      have hprev : s.prevIn = none := hs.done_prev (hs.init_done (by simp [hie]))
      refine ⟨?_, ?_⟩
      · simp only [refs, serverRefs, hprev, Option.toList, List.append_nil]
        rw [drainInput_eq cfg hneed]
        refine winv_free_opt L _ _ _ ?_
        simpa [hprev] using hpin
      · intro s' hs'
        simp only [Option.some.injEq] at hs'
        subst hs'
        exact ⟨⟨[], rfl, rfl⟩, fun _ => hprev, fun _ => rfl, fun _ => rfl⟩
    | none =>
      simp only []
      by_cases hsd : s.srvDone = true
      · simp only [hsd, if_true]
        have hprev : s.prevIn = none := hs.done_prev hsd
        rw [drainInput_eq cfg hneed]
        have hw1 : WInv L ((pinOf cfg c.w inp).2.free (recv (pinOf cfg c.w inp).2 (pinOf cfg c.w inp).1).2)
            (clientRefs c.held) := by
          refine winv_free_opt L _ _ _ ?_
          simpa [hprev] using hpin
        refine finishRead_inv L c _ s _ _ _ none (by simpa [hprev] using hw1) hs.done_prev (by simpa using hcl) hie
          (.inr ⟨rfl, ?_⟩)
        have := read_good cfg hneed [] cs
          ((pinOf cfg c.w inp).2.free (recv (pinOf cfg c.w inp).2 (pinOf cfg c.w inp).1).2) _ hlogs rfl rfl
        simpa [outcome, putItems, hcs] using this
      · simp only [hsd, Bool.false_eq_true, if_false]
        cases coerce with
        | some e =>
          rw [serverStep_some]
          simp only []
          have hw1 : WInv L (((pinOf cfg c.w inp).2.free (recv (pinOf cfg c.w inp).2 (pinOf cfg c.w inp).1).2).free s.prevIn)
              (clientRefs c.held) := by
            refine winv_free_opt L _ _ _ ?_
            refine winv_perm (winv_free_opt L _ _ _ hpin) List.perm_append_comm
          refine finishRead_inv L c _ _ _ _ _ none (by simpa using hw1) (fun _ => rfl) (by simpa using hcl) rfl
            (.inr ⟨rfl, ?_⟩)
          have := read_good cfg hneed [.err e] cs
            (((pinOf cfg c.w inp).2.free (recv (pinOf cfg c.w inp).2 (pinOf cfg c.w inp).1).2).free s.prevIn) _ hlogs rfl rfl
          simpa [outcome, putItems, hcs] using this
        | none =>
          rw [serverStep_none]
          simp only []
          -- the server releases the previous input, optionally (user code) the current one, then writes
          have hwA : WInv L ((pinOf cfg c.w inp).2.free s.prevIn)
              ((recv (pinOf cfg c.w inp).2 (pinOf cfg c.w inp).1).2.toList ++ clientRefs c.held) := by
            refine winv_free_opt L _ _ _ (winv_perm hpin ?_)
            exact perm3 _ _ _
          have hwB : WInv L (if s.early then ((pinOf cfg c.w inp).2.free s.prevIn).free
                (recv (pinOf cfg c.w inp).2 (pinOf cfg c.w inp).1).2 else (pinOf cfg c.w inp).2.free s.prevIn)
              ((if s.early then none else (recv (pinOf cfg c.w inp).2 (pinOf cfg c.w inp).1).2).toList ++ clientRefs c.held) := by
            cases s.early with
            | true => simpa using winv_free_opt L _ _ _ hwA
            | false => simpa using hwA
          have hg := good_stepOutOf s.exch s.rest none
          simp only [stepOutOf] at hg
          generalize (if s.early then ((pinOf cfg c.w inp).2.free s.prevIn).free
                (recv (pinOf cfg c.w inp).2 (pinOf cfg c.w inp).1).2 else (pinOf cfg c.w inp).2.free s.prevIn) = wB at hwB ⊢
          generalize (if s.early then none else (recv (pinOf cfg c.w inp).2 (pinOf cfg c.w inp).1).2) = hIn' at hwB ⊢
          have hwC := winv_putItems L cfg hneed wB _ _ hg hwB
          have hrg := read_good cfg hneed (Abs.items (stepOut s.exch (headStep s.rest))) cs wB
            (if Abs.isCont (stepOut s.exch (headStep s.rest)) then
              (putItems cfg wB (Abs.items (stepOut s.exch (headStep s.rest)))).2
            else ((putItems cfg wB (Abs.items (stepOut s.exch (headStep s.rest)))).2).free hIn')
            hlogs hg (by split <;> simp)
          rw [hcs]
          refine finishRead_inv L c _ _ _ _ _ (itemsHnd cfg wB (Abs.items (stepOut s.exch (headStep s.rest)))) ?_ ?_
            (by simpa using hcl) rfl ?_
          · -- world invariant after the iteration
            cases hk : Abs.isCont (stepOut s.exch (headStep s.rest)) with
            | true => simpa [hk] using hwC
            | false =>
              simp only [Bool.false_eq_true, if_false, Option.toList_none, List.nil_append]
              refine winv_free_opt L _ _ _ (winv_perm hwC ?_)
              simp only [← List.append_assoc]
              exact List.Perm.append_right _ List.perm_append_comm
          · intro hd
            simp only [Bool.not_eq_true'] at hd
            simp [hd]
          · unfold itemsHnd
            cases ho : outcome (Abs.items (stepOut s.exch (headStep s.rest))) with
            | data b post =>
              simp only [ho] at hrg
              obtain ⟨evs, e, hp⟩ := hrg
              exact .inl ⟨evs, b, post, e, hp⟩
            | stop =>
              simp only [ho] at hrg
              exact .inr ⟨rfl, fun evs b h r hcontra => hrg evs b h r hcontra⟩

theorem closeOp_inv {A : Allocator} (L : AllocLaws A) (c : Conn A) (s : Sess) (hc : c.sess = some s) (hi : Inv L c) :
    Inv L (closeOp c s).2 := by
  have hs := hi.sessOk s hc
  have hw0 : WInv L c.w (clientRefs c.held ++ s.prevIn.toList) := by
    have := hi.winv; rwa [refs_eq c s hc] at this
  obtain ⟨cs, hcs, hlogs⟩ := hs.carry
  unfold closeOp
  by_cases hcl : s.closed = true
  · simpa [hcl] using hi
  · simp only [hcl, Bool.false_eq_true, if_false]
    simp only [closeSess, hcs, drainW_inl _ cs (leOnly_of_logsOnly cs hlogs), Gen.C29.finalReleasedBeforeEos, if_true]
    refine ⟨?_, ?_⟩
    · simp only [refs, serverRefs, Option.toList_none, List.append_nil]
      cases hsd : s.srvDone with
      | true =>
        have := hs.done_prev hsd
        simpa [this] using hw0
      | false =>
        simp only [Bool.false_eq_true, if_false]
        exact winv_free_opt L _ _ _ (winv_perm hw0 List.perm_append_comm)
    · intro s' hs'
      simp only [Option.some.injEq] at hs'
      subst hs'
      exact ⟨⟨[], rfl, rfl⟩, fun _ => rfl, fun _ => rfl, fun _ => rfl⟩

theorem reqPhase_inv {A : Allocator} (L : AllocLaws A) (cfg : Cfg) (hneed : ∀ b, 0 < cfg.need b) (w : World A)
    (rs : List Hnd) (req : Option Batch) (h : WInv L w rs) : WInv L (reqPhase cfg w req).2 rs := by
  cases req with
  | none => exact h
  | some rb =>
    simp only [reqPhase, Gen.C29.requestFinallyReleases, if_true, recv_put cfg hneed w _ rb rfl]
    exact winv_free_opt L _ _ _ (winv_put L cfg hneed w rs rb h)

theorem respPhase_inv {A : Allocator} (L : AllocLaws A) (cfg : Cfg) (hneed : ∀ b, 0 < cfg.need b) (w : World A)
    (rs : List Hnd) (logs : List Log) (v : Nat) (h : WInv L w rs) : WInv L (respPhase cfg w logs v).2 rs := by
  have hrg := read_good cfg hneed [.data (resultBatch v)] (logItems logs) w (put cfg w (resultBatch v)).2
    (logsOnly_logItems logs) rfl rfl
  simp only [outcome, putItems_single] at hrg
  obtain ⟨evs, e, _⟩ := hrg
  unfold respPhase
  simp only [inlLogs, e, Gen.C29.unaryFinallyReleases, if_true]
  exact winv_free_opt L _ _ _ (winv_put L cfg hneed w rs _ h)

theorem callOp_inv {A : Allocator} (L : AllocLaws A) (cfg : Cfg) (hneed : ∀ b, 0 < cfg.need b) (c : Conn A)
    (logs : List Log) (out : Except Exn Nat) (req : Option Batch) (hi : Inv L c) :
    Inv L (callOp cfg c logs out req).2 := by
  have h1 := reqPhase_inv L cfg hneed c.w (refs c) req hi.winv
  unfold callOp
  cases out with
  | error e => exact ⟨h1, hi.sessOk⟩
  | ok v => exact ⟨respPhase_inv L cfg hneed _ (refs c) logs v h1, hi.sessOk⟩

theorem clientRefs_release (held : List HeldB) (k : Nat) (hb : HeldB) (hk : held[k]? = some hb)
    (hr : hb.released = false) :
    (clientRefs held).Perm (hb.h.toList ++ clientRefs (held.set k { hb with released := true })) := by
  induction held generalizing k with
  | nil => simp at hk
  | cons x t ih =>
    cases k with
    | zero =>
      simp only [List.getElem?_cons_zero, Option.some.injEq] at hk
      subst hk
      cases hx : x.h <;> simp [clientRefs, hr, hx]
    | succ k =>
      simp only [List.getElem?_cons_succ] at hk
      have := ih k hk
      simp only [List.set_cons_succ, clientRefs, List.filterMap_cons] at this ⊢
      cases hx : (if x.released then none else x.h) with
      | none => simpa [hx] using this
      | some y =>
        simp only []
        refine (List.Perm.cons y this).trans ?_
        exact List.perm_middle.symm

theorem releaseOp_inv {A : Allocator} (L : AllocLaws A) (c : Conn A) (k : Nat) (hi : Inv L c) :
    Inv L (releaseOp c k) := by
  unfold releaseOp
  cases hk : c.held[k]? with
  | none => exact hi
  | some hb =>
    simp only [Gen.C29.releaseIdempotent, Bool.and_true]
    cases hr : hb.released with
    | true => simpa using hi
    | false =>
      simp only [Bool.false_eq_true, if_false]
      refine ⟨?_, hi.sessOk⟩
      have hp := clientRefs_release c.held k hb hk hr
      have hw := hi.winv
      simp only [refs] at hw ⊢
      refine winv_free_opt L _ _ _ (winv_perm hw ?_)
      rw [← List.append_assoc]
      exact List.Perm.append_right _ hp

theorem serverRefs_closed {A : Allocator} (L : AllocLaws A) (c : Conn A) (hi : Inv L c) (hq : sessionOpen c.sess = false) :
    serverRefs c.sess = [] := by
  cases hc : c.sess with
  | none => rfl
  | some s =>
    have hs := hi.sessOk s hc
    have hcl : s.closed = true := by simpa [sessionOpen, hc] using hq
    simp [serverRefs, hs.done_prev (hs.closed_done hcl)]

theorem step_inv {A : Allocator} (L : AllocLaws A) (cfg : Cfg) (hneed : ∀ b, 0 < cfg.need b) (c : Conn A) (op : Op)
    (hi : Inv L c) : Inv L (step cfg c op).2 := by
  cases op with
  | call logs out req =>
    simp only [step]
    split
    · exact hi
    · exact callOp_inv L cfg hneed c logs out req hi
  | openS exch early init il steps =>
    simp only [step]
    split
    · exact hi
    · rename_i hq
      have hq' : sessionOpen c.sess = false := by simpa using hq
      have hsr := serverRefs_closed L c hi hq'
      refine ⟨?_, ?_⟩
      · have := hi.winv
        simp only [refs, hsr, List.append_nil] at this
        simpa [refs, serverRefs] using this
      · intro s hs
        simp only [Option.some.injEq] at hs
        subst hs
        refine ⟨?_, fun _ => rfl, by simp, ?_⟩
        · exact ⟨logItems il, rfl, logsOnly_logItems il⟩
        · intro h
          cases init with
          | none => simp at h
          | some e => rfl
  | tick =>
    simp only [step]
    cases hc : c.sess with
    | none => exact hi
    | some s => exact sendOp_inv L cfg hneed c s none none hc hi
  | send inp coerce =>
    simp only [step]
    cases hc : c.sess with
    | none => exact hi
    | some s => exact sendOp_inv L cfg hneed c s (some inp) coerce hc hi
  | close =>
    simp only [step]
    cases hc : c.sess with
    | none => exact hi
    | some s => exact closeOp_inv L c s hc hi
  | cancel =>
    simp only [step]
    cases hc : c.sess with
    | none => exact hi
    | some s => exact closeOp_inv L c s hc hi
  | release k => exact releaseOp_inv L c k hi

theorem init_inv {A : Allocator} (L : AllocLaws A) : Inv L (Conn.init A) := by
  refine ⟨⟨L.init_ok, ?_, ?_⟩, ?_⟩
  · simp [Conn.init, refs, clientRefs, serverRefs, L.init_live]
  · intro h hh; simp [Conn.init, refs, clientRefs, serverRefs] at hh
  · intro s hs; simp [Conn.init] at hs

theorem run_inv {A : Allocator} (L : AllocLaws A) (cfg : Cfg) (hneed : ∀ b, 0 < cfg.need b) (ops : List Op) :
    ∀ c : Conn A, Inv L c → Inv L (run cfg c ops).2 := by
  induction ops with
  | nil => intro c h; exact h
  | cons op r ih => intro c h; exact ih _ (step_inv L cfg hneed c op h)

/-! #### the caller releases everything -/

theorem releaseOp_sess {A : Allocator} (c : Conn A) (k : Nat) : (releaseOp c k).sess = c.sess := by
  unfold releaseOp
  split
  · rfl
  · split <;> rfl

theorem releaseOp_get {A : Allocator} (c : Conn A) (k j : Nat) (hb' : HeldB)
    (h : (releaseOp c k).held[j]? = some hb') : hb'.released = true ∨ c.held[j]? = some hb' := by
  unfold releaseOp at h
  cases hk : c.held[k]? with
  | none => simp only [hk] at h; exact .inr h
  | some hb =>
    simp only [hk, Gen.C29.releaseIdempotent, Bool.and_true] at h
    cases hr : hb.released with
    | true => simp only [hr, if_true] at h; exact .inr h
    | false =>
      simp only [hr, Bool.false_eq_true, if_false, List.getElem?_set] at h
      by_cases hkj : k = j
      · simp only [hkj, if_true] at h
        split at h
        · simp only [Option.some.injEq] at h
          subst h; exact .inl rfl
        · simp at h
      · simp only [hkj, if_false] at h
        exact .inr h

theorem releaseOp_at {A : Allocator} (c : Conn A) (k : Nat) (hb' : HeldB) (h : (releaseOp c k).held[k]? = some hb') :
    hb'.released = true := by
  unfold releaseOp at h
  cases hk : c.held[k]? with
  | none => simp only [hk] at h; simp at h
  | some hb =>
    simp only [hk, Gen.C29.releaseIdempotent, Bool.and_true] at h
    cases hr : hb.released with
    | true =>
      simp only [hr, if_true] at h
      rw [hk] at h
      simp only [Option.some.injEq] at h
      subst h; exact hr
    | false =>
      simp only [hr, Bool.false_eq_true, if_false, List.getElem?_set, if_true] at h
      split at h
      · simp only [Option.some.injEq] at h
        subst h; rfl
      · simp at h

theorem releaseOp_len {A : Allocator} (c : Conn A) (k : Nat) : (releaseOp c k).held.length = c.held.length := by
  unfold releaseOp
  split
  · rfl
  · split <;> simp

theorem fold_release {A : Allocator} (L : AllocLaws A) (n : Nat) :
    ∀ c : Conn A, Inv L c →
      Inv L ((List.range n).foldl releaseOp c) ∧ ((List.range n).foldl releaseOp c).sess = c.sess ∧
      ((List.range n).foldl releaseOp c).held.length = c.held.length ∧
      ∀ j hb, ((List.range n).foldl releaseOp c).held[j]? = some hb → j < n → hb.released = true := by
  induction n with
  | zero => intro c hi; exact ⟨hi, rfl, rfl, fun _ _ _ h => absurd h (Nat.not_lt_zero _)⟩
  | succ n ih =>
    intro c hi
    obtain ⟨h1, h2, h3, h4⟩ := ih c hi
    simp only [List.range_succ, List.foldl_append, List.foldl_cons, List.foldl_nil]
    refine ⟨releaseOp_inv L _ n h1, by rw [releaseOp_sess, h2], by rw [releaseOp_len, h3], ?_⟩
    intro j hb hj hlt
    by_cases hjn : j = n
    · subst hjn; exact releaseOp_at _ _ hb hj
    · rcases releaseOp_get _ n j hb hj with h | h
      · exact h
      · exact h4 j hb h (by omega)

theorem clientRefs_all_released (held : List HeldB) (h : ∀ (j : Nat) (hb : HeldB), held[j]? = some hb → hb.released = true) :
    clientRefs held = [] := by
  simp only [clientRefs, List.filterMap_eq_nil_iff]
  intro x hx
  obtain ⟨j, hj⟩ := List.mem_iff_getElem?.mp hx
  simp [h j x hj]

/-! ### D. the first-fit table satisfies the contract -/

/-- offset-sorted, non-overlapping, non-empty entries starting at or after `prev` -/
def TableOk : Nat → List Region → Prop
  | _, [] => True
  | prev, (o, l) :: r => prev ≤ o ∧ 0 < l ∧ TableOk (o + l) r

theorem tableOk_mono (t : List Region) : ∀ p p', p ≤ p' → TableOk p' t → TableOk p t := by
  cases t with
  | nil => intro _ _ _ _; trivial
  | cons e r =>
    intro p p' hp h
    obtain ⟨o, l⟩ := e
    exact ⟨Nat.le_trans hp h.1, h.2.1, h.2.2⟩

theorem tableOk_lb (t : List Region) : ∀ p, TableOk p t → ∀ e ∈ t, p ≤ e.1 := by
  induction t with
  | nil => intro _ _ e he; simp at he
  | cons x r ih =>
    intro p h e he
    obtain ⟨o, l⟩ := x
    simp only [List.mem_cons] at he
    rcases he with rfl | he
    · exact h.1
    · have := ih (o + l) h.2.2 e he
      have := h.1
      omega

theorem ffInsert_spec (size total : Nat) (hs : 0 < size) (t : List Region) :
    ∀ prev x t', TableOk prev t → ffInsert size total prev t = some (x, t') →
      TableOk prev t' ∧ t'.Perm ((x, size) :: t) ∧ (∀ r ∈ t, Disjoint (x, size) r) ∧ prev ≤ x := by
  induction t with
  | nil =>
    intro prev x t' _ h
    simp only [ffInsert] at h
    split at h
    · simp only [Option.some.injEq, Prod.mk.injEq] at h
      obtain ⟨rfl, rfl⟩ := h
      exact ⟨⟨Nat.le_refl _, hs, trivial⟩, List.Perm.refl _, by simp, Nat.le_refl _⟩
    · simp at h
  | cons e r ih =>
    intro prev x t' hok h
    obtain ⟨o, l⟩ := e
    simp only [ffInsert] at h
    split at h
    · rename_i hc
      simp only [Option.some.injEq, Prod.mk.injEq] at h
      obtain ⟨rfl, rfl⟩ := h
      refine ⟨⟨Nat.le_refl _, hs, ⟨by omega, hok.2.1, hok.2.2⟩⟩, List.Perm.refl _, ?_, Nat.le_refl _⟩
      intro q hq
      have := tableOk_lb _ prev hok q hq
      have hlb : o ≤ q.1 := by
        simp only [List.mem_cons] at hq
        rcases hq with rfl | hq
        · exact Nat.le_refl _
        · have := tableOk_lb r (o + l) hok.2.2 q hq
          omega
      left
      simp only
      omega
    · cases hrec : ffInsert size total (o + l) r with
      | none => simp [hrec] at h
      | some p =>
        obtain ⟨y, r'⟩ := p
        simp only [hrec, Option.some.injEq, Prod.mk.injEq] at h
        obtain ⟨rfl, rfl⟩ := h
        obtain ⟨h1, h2, h3, h4⟩ := ih (o + l) y r' hok.2.2 hrec
        refine ⟨⟨hok.1, hok.2.1, h1⟩, ?_, ?_, by have := hok.1; omega⟩
        · exact (List.Perm.cons _ h2).trans (List.Perm.swap _ _ _)
        · intro q hq
          simp only [List.mem_cons] at hq
          rcases hq with rfl | hq
          · right; simp only; omega
          · exact h3 q hq

theorem ffFree_spec (off n : Nat) (t : List Region) :
    ∀ prev, TableOk prev t → (off, n) ∈ t → TableOk prev (ffFree off t) ∧ t.Perm ((off, n) :: ffFree off t) := by
  induction t with
  | nil => intro _ _ h; simp at h
  | cons e r ih =>
    intro prev hok hmem
    obtain ⟨o, l⟩ := e
    simp only [ffFree]
    by_cases ho : o = off
    · subst ho
      simp only [if_true]
      have heq : (o, n) = (o, l) := by
        simp only [List.mem_cons] at hmem
        rcases hmem with h | h
        · exact h
        · have h1 : o + l ≤ (o, n).1 := tableOk_lb r (o + l) hok.2.2 _ h
          have h2 : 0 < l := hok.2.1
          have h3 : o + l ≤ o := h1
          omega
      refine ⟨tableOk_mono r prev (o + l) (by have := hok.1; omega) hok.2.2, ?_⟩
      rw [heq]
    · simp only [ho, if_false]
      have hmem' : (off, n) ∈ r := by
        simp only [List.mem_cons, Prod.mk.injEq] at hmem
        rcases hmem with h | h
        · exact absurd h.1.symm ho
        · exact h
      obtain ⟨h1, h2⟩ := ih (o + l) hok.2.2 hmem'
      exact ⟨⟨hok.1, hok.2.1, h1⟩, (List.Perm.cons _ h2).trans (List.Perm.swap _ _ _)⟩

/-! #### a held batch's handle carries that batch -/

def HeldOk {A : Allocator} (c : Conn A) : Prop := ∀ hb ∈ c.held, ∀ h, hb.h = some h → h.b = hb.b

theorem readW_hnd_b {A : Allocator} (w : World A) (xs : List WItem) :
    ∀ evs b h rest, readW w xs = (evs, .gotData b (some h) rest) → h.b = b := by
  induction xs with
  | nil => intro evs b h rest e; simp [readW] at e
  | cons x r ih =>
    intro evs b h rest e
    cases x with
    | inl i =>
      cases i with
      | log l =>
        simp only [readW, recv, Prod.mk.injEq] at e
        exact ih _ b h rest (Prod.ext rfl e.2)
      | data b' => simp [readW, recv] at e
      | err e' => simp [readW, recv] at e
      | token p =>
        simp only [readW, recv] at e
        exact ih _ b h rest e
    | ptr o n =>
      simp only [readW, recv] at e
      cases hr : resolve w o n with
      | none => simp [hr] at e
      | some p =>
        obtain ⟨wid, b'⟩ := p
        simp only [hr, Prod.mk.injEq, REnd.gotData.injEq, Option.some.injEq] at e
        obtain ⟨_, rfl, rfl, _⟩ := e
        rfl

theorem finishRead_heldOk {A : Allocator} (c : Conn A) (w : World A) (s1 : Sess) (isTick : Bool) (seen : List Batch)
    (rd : List Ev × REnd) (hc : HeldOk c) (hrd : ∀ evs b h rest, rd = (evs, .gotData b (some h) rest) → h.b = b) :
    HeldOk (finishRead c w s1 isTick seen rd).2 := by
  obtain ⟨evs, e⟩ := rd
  cases e with
  | gotData b h rest =>
    simp only [finishRead, HeldOk, List.mem_append, List.mem_singleton]
    intro hb hm h' hh
    rcases hm with hm | rfl
    · exact hc hb hm h' hh
    · simp only at hh
      subst hh
      exact hrd evs b h' rest rfl
  | raised => simpa [finishRead, HeldOk] using hc
  | eos => cases isTick <;> simpa [finishRead, HeldOk] using hc

theorem step_heldOk {A : Allocator} (cfg : Cfg) (c : Conn A) (op : Op) (hc : HeldOk c) : HeldOk (step cfg c op).2 := by
  have hsend : ∀ s inp coerce, HeldOk (sendOp cfg c s inp coerce).2 := by
    intro s inp coerce
    unfold sendOp
    split
    · exact hc
    · split
      · simpa [HeldOk] using hc
      · split
        · exact finishRead_heldOk c _ _ _ _ _ hc (readW_hnd_b _ _)
        · exact finishRead_heldOk c _ _ _ _ _ hc (readW_hnd_b _ _)
  have hclose : ∀ s, HeldOk (closeOp c s).2 := by
    intro s
    unfold closeOp
    split
    · exact hc
    · simpa [HeldOk] using hc
  cases op with
  | call logs out req =>
    simp only [step]
    split
    · exact hc
    · unfold callOp
      cases out <;> simpa [HeldOk] using hc
  | openS exch early init il steps =>
    simp only [step]
    split
    · exact hc
    · simpa [HeldOk] using hc
  | tick =>
    simp only [step]
    cases c.sess with
    | none => exact hc
    | some s => exact hsend _ _ _
  | send inp coerce =>
    simp only [step]
    cases c.sess with
    | none => exact hc
    | some s => exact hsend _ _ _
  | close =>
    simp only [step]
    cases c.sess with
    | none => exact hc
    | some s => exact hclose _
  | cancel =>
    simp only [step]
    cases c.sess with
    | none => exact hc
    | some s => exact hclose _
  | release k =>
    simp only [step, releaseOp]
    cases hk : c.held[k]? with
    | none => exact hc
    | some hb =>
      simp only []
      split
      · exact hc
      · simp only [HeldOk]
        intro hb' hm h hh
        rcases List.mem_or_eq_of_mem_set hm with hm | rfl
        · exact hc hb' hm h hh
        · exact hc hb (List.mem_of_getElem? hk) h hh

theorem run_heldOk {A : Allocator} (cfg : Cfg) (ops : List Op) : ∀ c : Conn A, HeldOk c → HeldOk (run cfg c ops).2 := by
  induction ops with
  | nil => intro c h; exact h
  | cons op r ih => intro c h; exact ih _ (step_heldOk cfg c op h)

theorem resolve_of_intact {A : Allocator} (w : World A) (h : Hnd) (hi : Intact w.mem h) (hl : 0 < h.len) :
    resolve w h.off h.len = some (h.wid, h.b) := by
  have h0 := hi 0 hl
  simp only [Nat.add_zero] at h0
  have h1 : Mem.intact w.mem h.off h.len h.wid h.b = true := by
    simp only [Mem.intact, List.all_eq_true, List.mem_range]
    intro i hlt
    simp [hi i hlt]
  simp [resolve, h0, h1]

end Aux

open Aux

/-! ## Property theorems (obligations) -/

/-- the code shapes the model relies on without branching on them (extracted into `Gen.C29`): guards of
`maybe_write_to_shm` in source order with a strict `<`, requested sizes, the senders route every batch, the readers
resolve and attach the release function, the release closure frees its own offset, a region is decoded through a stream
reader (nested dictionaries) with a schema message rebuilt from the schema at hand (metadata) -/
theorem C29_shapes :
    Gen.C29.guardZeroRows = true ∧ Gen.C29.guardStrictLtMin = true ∧ Gen.C29.guardAllocNone = true ∧
    Gen.C29.guardOrderOk = true ∧ Gen.C29.nondictEstimate = true ∧ Gen.C29.dictExact = true ∧
    Gen.C29.noneOnRefusal = true ∧ Gen.C29.releaseFreesOffset = true ∧ Gen.C29.requestResolves = true ∧
    Gen.C29.serverResolvesInput = true ∧ Gen.C29.flushRoutes = true ∧ Gen.C29.resultRoutes = true ∧
    Gen.C29.inputRoutes = true ∧ Gen.C29.readerAttachesRelease = true ∧ Gen.C29.deserializeStreamReader = true ∧
    Gen.C29.schemaMessageUncached = true ∧ 0 < Gen.C29.streamOverhead := by
  decide

/-- **transparency**: for every allocator (even one violating its contract), threshold, size function and client history,
the shm machine observes — operation by operation: delivered events and what the server's user code was handed — exactly
what inline delivery observes.  (A batch too large for the segment is the `alloc = none` branch of `put`: inline.) -/
theorem C29_transparent (A A' : Allocator) (cfg : Cfg) (hneed : ∀ b, 0 < cfg.need b) (ops : List Op) :
    (run cfg (Conn.init A) ops).1 = Abs.run none ops ∧
    (run cfg (Conn.init A) ops).1 = (run { cfg with shm := false } (Conn.init A') ops).1 := by
  have h1 := run_sim cfg hneed ops (Conn.init A) none (by simp [R, Conn.init])
  have h2 := run_sim { cfg with shm := false } hneed ops (Conn.init A') none (by simp [R, Conn.init])
  exact ⟨h1, h1.trans h2.symm⟩

/-- unary call over shm (result and, for a pointer-request client, the request routed through the segment):
`Engine.Pipe` / `Engine.Sem` observation; the method is handed the request the client sent -/
theorem C29_unary_refines {A : Allocator} (cfg : Cfg) (hneed : ∀ b, 0 < cfg.need b) (c : Conn A)
    (hq : Quiescent c) (logs : List Log) (out : Except Exn Nat) (req : Option Batch) :
    (step cfg c (.call logs out req)).1.evs = Pipe.unaryObs logs out ∧
    (step cfg c (.call logs out req)).1.evs = Sem.unary logs out ∧
    (step cfg c (.call logs out req)).1.srvIn = req.toList := by
  have := (callOp_spec cfg hneed c logs out req).1
  simp only [Quiescent] at hq
  simp [step, hq, this, (unary_refines logs out).1]

/-- producer stream over shm, iterated to its end: exactly `Engine.Pipe.iterate`, hence `Engine.Sem.producer` -/
theorem C29_producer_refines {A : Allocator} (cfg : Cfg) (hneed : ∀ b, 0 < cfg.need b) (c : Conn A)
    (hq : Quiescent c) (early : Bool) (il : List Log) (steps : List Step) :
    (iterAll cfg (steps.length + 2) (step cfg c (.openS false early none il steps)).2).1 = Pipe.iterate (logItems il) steps ∧
    (iterAll cfg (steps.length + 2) (step cfg c (.openS false early none il steps)).2).1 =
      Sem.lg il ++ Sem.producer false steps := by
  have h := iterAll_sim cfg hneed (steps.length + 2) _ _ (open_R cfg c hq false early il steps)
  rw [abs_iterate steps il _ (Nat.le_refl _)] at h
  exact ⟨h, h.trans (pipe_producer_refines il steps)⟩

/-- exchange session over shm (inputs routed by the client, outputs by the server), one input per step, then close:
exactly `Engine.Pipe.exchangeAll`, hence `Engine.Sem.exchange` -/
theorem C29_exchange_refines {A : Allocator} (cfg : Cfg) (hneed : ∀ b, 0 < cfg.need b) (c : Conn A)
    (hq : Quiescent c) (early : Bool) (il : List Log) (steps : List Step) (inputs : List Batch)
    (hl : inputs.length = steps.length) :
    (exchAll cfg inputs (step cfg c (.openS true early none il steps)).2).1 = Pipe.exchangeAll (logItems il) steps ∧
    (exchAll cfg inputs (step cfg c (.openS true early none il steps)).2).1 = Sem.lg il ++ Sem.exchange false steps := by
  have h := exchAll_sim cfg hneed inputs _ _ (open_R cfg c hq true early il steps)
  rw [abs_exchange steps il inputs hl] at h
  exact ⟨h, h.trans (pipe_exchange_refines il steps)⟩

/-- **the invariant**, for ALL histories and every allocator satisfying the contract: the allocator's own invariant holds,
the live regions are exactly the regions referenced by unreleased batches (client-held ones and the server's current
input), and every referenced region still holds what was written to it -/
theorem C29_invariant {A : Allocator} (L : AllocLaws A) (cfg : Cfg) (hneed : ∀ b, 0 < cfg.need b) (ops : List Op) :
    L.Ok (run cfg (Conn.init A) ops).2.w.a ∧ Accounted (run cfg (Conn.init A) ops).2 ∧
    ∀ h ∈ refs (run cfg (Conn.init A) ops).2, Intact (run cfg (Conn.init A) ops).2.w.mem h := by
  have hi := run_inv L cfg hneed ops _ (init_inv L)
  exact ⟨hi.winv.ok, hi.winv.acc, hi.winv.intact⟩

/-- **accounting**: after every completed call (no stream open) the live regions are exactly those referenced by batches
the client still holds unreleased — nothing leaked, nothing freed early -/
theorem C29_accounting {A : Allocator} (L : AllocLaws A) (cfg : Cfg) (hneed : ∀ b, 0 < cfg.need b) (ops : List Op)
    (hq : Quiescent (run cfg (Conn.init A) ops).2) :
    (A.live (run cfg (Conn.init A) ops).2.w.a).Perm ((clientRefs (run cfg (Conn.init A) ops).2.held).map Hnd.region) := by
  have hi := run_inv L cfg hneed ops _ (init_inv L)
  have := hi.winv.acc
  simpa [refs, serverRefs_closed L _ hi hq] using this

/-- … and once the client has released them, no region is live: a session of any length leaks nothing -/
theorem C29_released_all {A : Allocator} (L : AllocLaws A) (cfg : Cfg) (hneed : ∀ b, 0 < cfg.need b) (ops : List Op)
    (hq : Quiescent (run cfg (Conn.init A) ops).2) :
    A.live (releaseAll (run cfg (Conn.init A) ops).2).w.a = [] := by
  have hi := run_inv L cfg hneed ops _ (init_inv L)
  obtain ⟨h1, h2, _, h4⟩ := fold_release L (run cfg (Conn.init A) ops).2.held.length _ hi
  have hq' : sessionOpen (releaseAll (run cfg (Conn.init A) ops).2).sess = false := by
    simp only [releaseAll, h2]; exact hq
  have hcr : clientRefs (releaseAll (run cfg (Conn.init A) ops).2).held = [] := by
    apply clientRefs_all_released
    intro j hb hj
    refine h4 j hb hj ?_
    have := (List.getElem?_eq_some_iff.mp hj).1
    simp only [releaseAll] at this
    omega
  have := h1.winv.acc
  simp only [releaseAll] at hcr hq'
  simp only [refs, hcr, serverRefs_closed L _ h1 hq', List.append_nil, List.map_nil] at this
  simpa [releaseAll] using this.eq_nil

/-- **no reuse**: in every reachable state, whatever is allocated next is disjoint from every region an unreleased
batch references (the client's held batches and the server's current input) -/
theorem C29_no_reuse {A : Allocator} (L : AllocLaws A) (cfg : Cfg) (hneed : ∀ b, 0 < cfg.need b) (ops : List Op)
    (n o : Nat) (s' : A.σ) (hn : 0 < n) (ha : A.alloc (run cfg (Conn.init A) ops).2.w.a n = some (o, s')) :
    ∀ h ∈ refs (run cfg (Conn.init A) ops).2, Disjoint (o, n) h.region := by
  have hi := run_inv L cfg hneed ops _ (init_inv L)
  intro h hh
  exact (L.alloc_spec _ n o s' hi.winv.ok hn ha).2.2 _ (hi.winv.acc.mem_iff.mpr (List.mem_map_of_mem hh))

/-- … hence every batch the client holds unreleased still reads back (zero-copy) as the batch it was delivered as,
no matter what was transferred since -/
theorem C29_held_intact {A : Allocator} (L : AllocLaws A) (cfg : Cfg) (hneed : ∀ b, 0 < cfg.need b) (ops : List Op)
    (hb : HeldB) (hm : hb ∈ (run cfg (Conn.init A) ops).2.held) (hr : hb.released = false) (h : Hnd) (hh : hb.h = some h)
    (hl : 0 < h.len) :
    resolve (run cfg (Conn.init A) ops).2.w h.off h.len = some (h.wid, hb.b) := by
  have hi := run_inv L cfg hneed ops _ (init_inv L)
  have hk := run_heldOk cfg ops (Conn.init A) (by simp [HeldOk, Conn.init])
  have hmem : h ∈ refs (run cfg (Conn.init A) ops).2 := by
    simp only [refs, clientRefs, List.mem_append, List.mem_filterMap]
    exact .inl ⟨hb, hm, by simp [hr, hh]⟩
  rw [← hk hb hm h hh]
  exact resolve_of_intact _ h (hi.winv.intact h hmem) hl

/-- the first-fit table of `vgi_rpc/shm.py` (`firstFit`, the allocator the correspondence run uses) satisfies the
contract: the theorems above are not vacuous, and they hold of the modelled allocator -/
theorem firstFit_laws (total : Nat) : Nonempty (AllocLaws (firstFit total)) := by
  refine ⟨{ Ok := fun t => TableOk Gen.C29.headerSize t, init_ok := trivial, init_live := rfl,
            alloc_spec := ?_, free_spec := ?_ }⟩
  · intro s n o s' hok hn ha
    simp only [firstFit] at ha
    split at ha
    · omega
    · split at ha
      · simp at ha
      · obtain ⟨h1, h2, h3, _⟩ := ffInsert_spec n total hn s _ o s' hok ha
        exact ⟨h1, h2, h3⟩
  · intro s o n hok hm
    exact ffFree_spec o n s _ hok hm

example : ∃ cfg : Cfg, ∀ b, 0 < cfg.need b := ⟨⟨true, 0, fun _ => 8, fun _ => 4104⟩, fun _ => by show 0 < 4104; decide⟩


end VgiVerif.C29
