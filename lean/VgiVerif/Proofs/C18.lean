import VgiVerif.Model.C18
import VgiVerif.Spec.C18
/-
C18 theorems.  Helper lemmas in `Aux`; the obligations are at the bottom.
-/
namespace VgiVerif.C18
open VgiVerif.Codec Spec

namespace Aux

/-! ### the extracted shapes the proofs are about (re-checked whenever the source changes) -/

theorem zstdLoopCmp_gt (a b : Nat) : cmp Gen.Codec.zstdLoopCmp a b = decide (b < a) := by
  simp [cmp, Gen.Codec.zstdLoopCmp]
theorem zstdDeclaredCmp_gt (a b : Nat) : cmp Gen.Codec.zstdDeclaredCmp a b = decide (b < a) := by
  simp [cmp, Gen.Codec.zstdDeclaredCmp]
theorem gzipLoopCmp_gt (a b : Nat) : cmp Gen.Codec.gzipLoopCmp a b = decide (b < a) := by
  simp [cmp, Gen.Codec.gzipLoopCmp]
theorem gzipTailCmp_gt (a b : Nat) : cmp Gen.Codec.gzipTailCmp a b = decide (b < a) := by
  simp [cmp, Gen.Codec.gzipTailCmp]
theorem zstdExtra : Gen.Codec.zstdReadExtra = 1 := rfl
theorem gzipExtra : Gen.Codec.gzipReadExtra = 1 := rfl
theorem chunk_pos : 1 ≤ Gen.Codec.chunkBytes := by decide
theorem precheck_first : Gen.Codec.zstdPrecheckFirst = true := rfl
theorem eof_capped : Gen.Codec.gzipEofCapped = true := rfl
theorem eof_uncapped : Gen.Codec.gzipEofUncapped = true := rfl
theorem sentinels_cover : ∀ r ∈ libUnknownSizes, r ∈ Gen.Codec.contentSizeUnknown := by decide
theorem sentinels_only : ∀ r ∈ Gen.Codec.contentSizeUnknown, r ∈ libUnknownSizes := by decide

theorem zstd_req_pos (cap total : Nat) : 1 ≤ min Gen.Codec.chunkBytes (cap - total + Gen.Codec.zstdReadExtra) := by
  have := chunk_pos; rw [zstdExtra]; omega
theorem gzip_req_pos (cap total : Nat) : 1 ≤ min Gen.Codec.chunkBytes (cap - total + Gen.Codec.gzipReadExtra) := by
  have := chunk_pos; rw [gzipExtra]; omega

theorem isEmpty_false_len {c : Bytes} (h : c.isEmpty = false) : 1 ≤ c.length := by
  cases c with
  | nil => simp at h
  | cons a t => simp

/-! ### zstd streaming loop -/

/-- termination for **every** reader: `cap - total + 2` iterations are enough -/
theorem zstdLoop_fuel (R : Reader) (cap : Nat) :
    ∀ fuel s total acc reads, cap - total + 2 ≤ fuel → (zstdLoop R cap fuel s total acc reads).out ≠ .fuel := by
  intro fuel
  induction fuel with
  | zero => intro s total acc reads h; omega
  | succ k ih =>
    intro s total acc reads h
    simp only [zstdLoop]
    split
    · simp
    · rename_i c s' _
      split
      · simp
      · rename_i hne
        split
        · simp
        · rename_i hcmp
          have hl := isEmpty_false_len (Bool.eq_false_iff.mpr hne)
          rw [zstdLoopCmp_gt] at hcmp
          simp only [decide_eq_true_eq, Nat.not_lt] at hcmp
          exact ih _ _ _ _ (by omega)

/-- the result for a reader obeying the contract -/
theorem zstdLoop_honest (R : Reader) (rem : R.σ → Bytes) (hR : ReaderFor R rem) (x : Bytes) (cap : Nat) :
    ∀ fuel s total acc reads, acc ++ rem s = x → total = acc.length → total ≤ cap → cap - total + 2 ≤ fuel →
      (zstdLoop R cap fuel s total acc reads).out = if x.length ≤ cap then .ok x else .limit := by
  intro fuel
  induction fuel with
  | zero => intro s total acc reads _ _ _ h; omega
  | succ k ih =>
    intro s total acc reads hx ht hle hf
    obtain ⟨c, s', hread, hsplit, _hlen, hne⟩ := hR s _ (zstd_req_pos cap total)
    simp only [zstdLoop, hread]
    have hxl : x.length = total + c.length + (rem s').length := by
      rw [← hx, ← hsplit]; simp [ht]; omega
    split
    · -- empty chunk: nothing was left
      rename_i hemp
      have hc : c = [] := List.isEmpty_iff.mp hemp
      have hrs : rem s = [] := by
        by_cases h : rem s = []
        · exact h
        · exact absurd hc (hne h)
      have hax : acc = x := by rw [← hx, hrs]; simp
      have : x.length ≤ cap := by rw [← hax]; omega
      simp [this, hax]
    · rename_i hne'
      have hl := isEmpty_false_len (Bool.eq_false_iff.mpr hne')
      split
      · rename_i hcmp
        rw [zstdLoopCmp_gt] at hcmp
        simp only [decide_eq_true_eq] at hcmp
        have : ¬ x.length ≤ cap := by omega
        simp [this]
      · rename_i hcmp
        rw [zstdLoopCmp_gt] at hcmp
        simp only [decide_eq_true_eq, Nat.not_lt] at hcmp
        apply ih
        · rw [← hx, ← hsplit]; simp
        · simp [ht]
        · exact hcmp
        · omega

/-- allocation: with a reader that never over-delivers, the loop never holds more than `cap + 1` decoded bytes -/
theorem zstdLoop_peak (R : Reader) (hB : BoundedReads R) (cap : Nat) :
    ∀ fuel s total acc reads, total ≤ cap → (zstdLoop R cap fuel s total acc reads).peak ≤ cap + 1 := by
  intro fuel
  induction fuel with
  | zero => intro s total acc reads h; simp [zstdLoop]; omega
  | succ k ih =>
    intro s total acc reads hle
    simp only [zstdLoop]
    split
    · simp; omega
    · rename_i c s' hread
      have hb := hB _ _ _ _ hread
      rw [zstdExtra] at hb
      split
      · simp; omega
      · split
        · simp; omega
        · rename_i hcmp
          rw [zstdLoopCmp_gt] at hcmp
          simp only [decide_eq_true_eq, Nat.not_lt] at hcmp
          exact ih _ _ _ _ hcmp

/-- every request made to the reader is between 1 and CHUNK bytes -/
theorem zstdLoop_reads (R : Reader) (cap : Nat) :
    ∀ fuel s total acc reads, (∀ n ∈ reads, 1 ≤ n ∧ n ≤ Gen.Codec.chunkBytes) →
      ∀ n ∈ (zstdLoop R cap fuel s total acc reads).reads, 1 ≤ n ∧ n ≤ Gen.Codec.chunkBytes := by
  intro fuel
  induction fuel with
  | zero => intro s total acc reads h; simpa [zstdLoop] using h
  | succ k ih =>
    intro s total acc reads h
    have hnew : ∀ n ∈ reads ++ [min Gen.Codec.chunkBytes (cap - total + Gen.Codec.zstdReadExtra)],
        1 ≤ n ∧ n ≤ Gen.Codec.chunkBytes := by
      intro n hn
      rcases List.mem_append.mp hn with hn | hn
      · exact h n hn
      · have := zstd_req_pos cap total
        simp at hn; subst hn; exact ⟨this, Nat.min_le_left _ _⟩
    simp only [zstdLoop]
    split
    · exact hnew
    · split
      · exact hnew
      · split
        · exact hnew
        · exact ih _ _ _ _ hnew

/-! ### gzip loop -/

theorem breaks_on_eof : Gen.Codec.gzipBreaksOnEof = true := rfl

theorem gzipFinish_noFuel (Z : ZObj) (cap : Nat) (s : Z.σ) (total : Nat) (acc : Bytes) (reads : List Nat) :
    (gzipFinish Z cap s total acc reads).out ≠ .fuel := by
  simp only [gzipFinish]
  split
  · simp
  · split
    · simp
    · split <;> simp

/-- a chunk that neither tripped the limit, nor ended the member, nor was "empty with no tail" is non-empty and fitted -/
theorem gzip_continue {Z : ZObj} {c : Bytes} {s' : Z.σ} (hst : c = [] → Z.hasTail s' = false ∨ Z.eof s' = true)
    {total cap : Nat}
    (h1 : ¬ ((!c.isEmpty && cmp Gen.Codec.gzipLoopCmp (total + c.length) cap) = true))
    (h2 : ¬ ((Gen.Codec.gzipBreaksOnEof && Z.eof s') = true))
    (h3 : ¬ ((c.isEmpty && !Z.hasTail s') = true)) : 1 ≤ c.length ∧ total + c.length ≤ cap := by
  have hc : c.isEmpty = false := by
    cases hce : c.isEmpty with
    | false => rfl
    | true =>
      have hnil : c = [] := List.isEmpty_iff.mp hce
      rcases hst hnil with ht | he
      · simp [hce, ht] at h3
      · simp [breaks_on_eof, he] at h2
  refine ⟨isEmpty_false_len hc, ?_⟩
  rw [gzipLoopCmp_gt] at h1
  simp [hc] at h1
  exact h1

/-- a chunk that did not trip the limit fitted (or was empty) -/
theorem gzip_fit {c : Bytes} {total cap : Nat} (hle : total ≤ cap)
    (h1 : ¬ ((!c.isEmpty && cmp Gen.Codec.gzipLoopCmp (total + c.length) cap) = true)) : total + c.length ≤ cap := by
  rw [gzipLoopCmp_gt] at h1
  cases hce : c.isEmpty with
  | true => have : c = [] := List.isEmpty_iff.mp hce; simp [this]; exact hle
  | false => simp [hce] at h1; exact h1

/-- termination for every decompress object that does not stall -/
theorem gzipLoop_fuel (Z : ZObj) (hS : NoStall Z) (cap : Nat) :
    ∀ fuel s remaining total acc reads, cap - total + 2 ≤ fuel →
      (gzipLoop Z cap fuel s remaining total acc reads).out ≠ .fuel := by
  intro fuel
  induction fuel with
  | zero => intro s remaining total acc reads h; omega
  | succ k ih =>
    intro s remaining total acc reads h
    simp only [gzipLoop]
    split
    · exact gzipFinish_noFuel _ _ _ _ _ _
    · split
      · simp
      · rename_i c s' hdec
        split
        · simp
        · rename_i h1
          split
          · exact gzipFinish_noFuel _ _ _ _ _ _
          · rename_i h2
            split
            · exact gzipFinish_noFuel _ _ _ _ _ _
            · rename_i h3
              have := gzip_continue (hS _ _ _ _ _ hdec) h1 h2 h3
              exact ih _ _ _ _ _ (by omega)

theorem gzipFinish_honest (Z : ZObj) (rem : Z.σ → Bytes) (fed : Z.σ → Prop)
    (hflush : ∀ s, fed s → (Z.hasTail s = false ∨ Z.eof s = true) → ∃ s', Z.flush s = some (rem s, s') ∧ Z.eof s' = true)
    (x : Bytes) (cap : Nat) (s : Z.σ) (total : Nat) (acc : Bytes) (reads : List Nat)
    (hfed : fed s) (hnt : Z.hasTail s = false ∨ Z.eof s = true) (hx : acc ++ rem s = x) (ht : total = acc.length)
    (hle : total ≤ cap) :
    (gzipFinish Z cap s total acc reads).out = if x.length ≤ cap then .ok x else .limit := by
  obtain ⟨s', hfl, heof⟩ := hflush s hfed hnt
  have hxl : x.length = total + (rem s).length := by rw [← hx]; simp [ht]
  simp only [gzipFinish, hfl, gzipTailCmp_gt, heof]
  by_cases hbig : cap < total + (rem s).length
  · have hne : (rem s).isEmpty = false := by
      cases h : rem s with
      | nil => rw [h] at hbig; simp at hbig; omega
      | cons a t => simp
    have : ¬ x.length ≤ cap := by omega
    simp [hne, hbig, this]
  · have : x.length ≤ cap := by omega
    simp [hbig, this, hx]

/-- the result for a decompress object fed one complete gzip member of plaintext `x` -/
theorem gzipLoop_honest (Z : ZObj) (rem : Z.σ → Bytes) (fed : Z.σ → Prop)
    (hdec : ∀ s f n, 1 ≤ n → ∃ c s', Z.dec s f n = some (c, s') ∧ c ++ rem s' = rem s ∧ c.length ≤ n ∧ fed s' ∧
        (c = [] → Z.hasTail s' = false ∨ Z.eof s' = true))
    (hflush : ∀ s, fed s → (Z.hasTail s = false ∨ Z.eof s = true) → ∃ s', Z.flush s = some (rem s, s') ∧ Z.eof s' = true)
    (x : Bytes) (cap : Nat) :
    ∀ fuel s remaining total acc reads, acc ++ rem s = x → total = acc.length → total ≤ cap →
      (remaining = true → Z.hasTail s = false) → (remaining = false → fed s) → cap - total + 2 ≤ fuel →
      (gzipLoop Z cap fuel s remaining total acc reads).out = if x.length ≤ cap then .ok x else .limit := by
  intro fuel
  induction fuel with
  | zero => intro s remaining total acc reads _ _ _ _ _ h; omega
  | succ k ih =>
    intro s remaining total acc reads hx ht hle hrem hfed hf
    simp only [gzipLoop]
    split
    · rename_i hw
      simp only [Bool.not_eq_true', Bool.or_eq_false_iff] at hw
      exact gzipFinish_honest Z rem fed hflush x cap s total acc reads (hfed hw.1) (Or.inl hw.2) hx ht hle
    · obtain ⟨c, s', hd, hsplit, _hlen, hfed', hstall⟩ := hdec s (!Z.hasTail s) _ (gzip_req_pos cap total)
      simp only [hd]
      have hxl : x.length = total + c.length + (rem s').length := by
        rw [← hx, ← hsplit]; simp [ht]; omega
      have hx' : (acc ++ c) ++ rem s' = x := by rw [← hx, ← hsplit]; simp
      have ht' : total + c.length = (acc ++ c).length := by simp [ht]
      split
      · rename_i h1
        rw [gzipLoopCmp_gt] at h1
        simp only [Bool.and_eq_true, Bool.not_eq_true', decide_eq_true_eq] at h1
        have : ¬ x.length ≤ cap := by omega
        simp [this]
      · rename_i h1
        have hfit := gzip_fit hle h1
        split
        · rename_i h2
          simp only [Bool.and_eq_true] at h2
          exact gzipFinish_honest Z rem fed hflush x cap s' _ _ _ hfed' (Or.inr h2.2) hx' ht' hfit
        · rename_i h2
          split
          · rename_i h3
            simp only [Bool.and_eq_true, Bool.not_eq_true'] at h3
            exact gzipFinish_honest Z rem fed hflush x cap s' _ _ _ hfed' (Or.inl h3.2) hx' ht' hfit
          · rename_i h3
            have hc := gzip_continue hstall h1 h2 h3
            apply ih _ _ _ _ _ hx' ht' hfit
            · intro hr
              -- `remaining` can only stay true if there was a tail, which the invariant excludes
              by_cases hts : Z.hasTail s = true
              · simp [hts] at hr
                have := hrem hr
                simp [hts] at this
              · simp [hts] at hr
            · intro _; exact hfed'
            · omega

/-- allocation bound of the gzip loop: the in-loop reads are capped by the sentinel; `flush()` is not capped by this
code, so its size is a hypothesis on the library -/
theorem gzipFinish_peak (Z : ZObj) (B : Nat) (hF : ∀ s t s', Z.flush s = some (t, s') → t.length ≤ B) (cap : Nat)
    (s : Z.σ) (total : Nat) (acc : Bytes) (reads : List Nat) (hle : total ≤ cap) :
    (gzipFinish Z cap s total acc reads).peak ≤ cap + B := by
  simp only [gzipFinish]
  split
  · simp; omega
  · rename_i t s' hfl
    have := hF _ _ _ hfl
    split
    · simp; omega
    · split <;> (simp; omega)

theorem gzipLoop_peak (Z : ZObj) (hB : BoundedDec Z) (B : Nat) (hB1 : 1 ≤ B)
    (hF : ∀ s t s', Z.flush s = some (t, s') → t.length ≤ B) (cap : Nat) :
    ∀ fuel s remaining total acc reads, total ≤ cap →
      (gzipLoop Z cap fuel s remaining total acc reads).peak ≤ cap + B := by
  intro fuel
  induction fuel with
  | zero => intro s remaining total acc reads h; simp [gzipLoop]; omega
  | succ k ih =>
    intro s remaining total acc reads hle
    simp only [gzipLoop]
    split
    · exact gzipFinish_peak Z B hF cap s total acc reads hle
    · split
      · simp; omega
      · rename_i c s' hdec
        have hb := hB _ _ _ _ _ hdec
        rw [gzipExtra] at hb
        split
        · simp; omega
        · rename_i h1
          have hfit := gzip_fit hle h1
          split
          · exact gzipFinish_peak Z B hF cap s' _ _ _ hfit
          · split
            · exact gzipFinish_peak Z B hF cap s' _ _ _ hfit
            · exact ih _ _ _ _ _ hfit

theorem mem_decompressDispatch (e : Enc) : e.name ∈ Gen.Codec.decompressDispatch := by cases e <;> decide
theorem mem_compressDispatch (e : Enc) : e.name ∈ Gen.Codec.compressDispatch := by cases e <;> decide

theorem contentSize_unknown {raw : Int} (h : raw ∈ libUnknownSizes) : contentSize raw = none := by
  simp [contentSize, sentinels_cover raw h]

theorem contentSize_known {raw : Int} (h : raw ∉ libUnknownSizes) : contentSize raw = some raw.toNat := by
  have : raw ∉ Gen.Codec.contentSizeUnknown := fun hm => h (sentinels_only raw hm)
  simp [contentSize, this]

end Aux

/-! ## Obligations -/

/-- **C18_terminates (zstd)** — for *every* frame view and reader (honest or not) the decode returns: the streaming loop
makes at most `cap + 2` reads. -/
theorem C18_terminates_zstd (F : ZFrame) (cap : Option Nat) : (zstdDecode F cap).out ≠ .fuel := by
  unfold zstdDecode
  split
  · simp
  · cases cap with
    | none =>
      simp only
      split
      · split <;> simp
      · split <;> simp
    | some c =>
      simp only
      split
      · split
        · simp
        · split <;> simp
      · exact Aux.zstdLoop_fuel F.R c _ _ _ _ _ (by omega)

/-- **C18_terminates (gzip)** — for every decompress object that does not return an empty chunk while keeping an
unconsumed tail, the decode returns within `cap + 2` iterations. -/
theorem C18_terminates_gzip (G : GFrame) (h : NoStall G.Z) (cap : Option Nat) : (gzipDecode G cap).out ≠ .fuel := by
  unfold gzipDecode
  cases cap with
  | none =>
    simp only
    split
    · simp
    · split
      · simp
      · split <;> simp
  | some c => exact Aux.gzipLoop_fuel G.Z h c _ _ _ _ _ _ (by simp)

/-- **C18_cap (zstd)** — for every plaintext, every frame of it (size-declaring or size-less), every reader obeying the
contract and every cap: without a cap the plaintext comes back; with one, it comes back iff it fits, else the limit error. -/
theorem C18_cap_zstd (F : ZFrame) (x : Bytes) (h : HonestZ F x) : CapCorrect (fun cap => (zstdDecode F cap).out) x := by
  obtain ⟨raw, hraw, hsz, hone, hall, rem, hR, hrem⟩ := h
  by_cases hu : raw ∈ libUnknownSizes
  · have hcs := Aux.contentSize_unknown hu
    refine ⟨?_, ?_⟩
    · simp [zstdDecode, hraw, hcs, hall]
    · intro cap
      simp only [zstdDecode, hraw, hcs]
      exact Aux.zstdLoop_honest F.R rem hR x cap _ _ _ _ _ (by simpa using hrem) rfl (Nat.zero_le _) (by omega)
  · have hcs := Aux.contentSize_known hu
    have hraw' : raw = (x.length : Int) := by rcases hsz with h | h; exact absurd h hu; exact h
    have hd : raw.toNat = x.length := by rw [hraw']; simp
    refine ⟨?_, ?_⟩
    · simp [zstdDecode, hraw, hcs, hone hu]
    · intro cap
      simp only [zstdDecode, hraw, hcs, hone hu, Aux.precheck_first, Aux.zstdDeclaredCmp_gt, hd, Bool.true_and]
      by_cases hc : cap < x.length
      · have : ¬ x.length ≤ cap := by omega
        simp [hc, this]
      · have : x.length ≤ cap := by omega
        simp [hc, this]

/-- **C18_declared** — a size-declaring frame is decided before any decoding: too large is refused with nothing read
and nothing allocated; otherwise the one-shot result is returned and the streaming loop is not entered. -/
theorem C18_declared (F : ZFrame) (x : Bytes) (h : HonestZ F x) (hdecl : F.rawSize = some (x.length : Int))
    (hk : (x.length : Int) ∉ libUnknownSizes) (cap : Nat) :
    (cap < x.length → zstdDecode F (some cap) = ⟨.limit, 0, []⟩) ∧
    (x.length ≤ cap → zstdDecode F (some cap) = ⟨.ok x, x.length, []⟩) := by
  obtain ⟨raw, hraw, _hsz, hone, _hall, _⟩ := h
  have hr : raw = (x.length : Int) := by rw [hdecl] at hraw; exact (Option.some.inj hraw).symm
  subst hr
  have hcs := Aux.contentSize_known hk
  have hd : ((x.length : Int)).toNat = x.length := by simp
  constructor
  · intro hc
    simp [zstdDecode, hdecl, hcs, Aux.precheck_first, Aux.zstdDeclaredCmp_gt, hc]
  · intro hc
    have : ¬ cap < x.length := by omega
    simp [zstdDecode, hdecl, hcs, Aux.precheck_first, Aux.zstdDeclaredCmp_gt, this, hone hk]

/-- **C18_cap (gzip)** — same statement for a complete gzip member of any ratio. -/
theorem C18_cap_gzip (G : GFrame) (x : Bytes) (h : HonestG G x) : CapCorrect (fun cap => (gzipDecode G cap).out) x := by
  obtain ⟨hne, hnt, rem, fed, hrem, hdec, hall, hflush⟩ := h
  refine ⟨?_, ?_⟩
  · obtain ⟨a, s1, hda, hsplit, hfed1, hnt1⟩ := hall G.s0
    obtain ⟨s2, hfl, heof⟩ := hflush s1 hfed1 (Or.inl hnt1)
    simp [gzipDecode, hda, hfl, heof, hsplit, hrem]
  · intro cap
    simp only [gzipDecode]
    exact Aux.gzipLoop_honest G.Z rem fed hdec hflush x cap _ _ _ _ _ _ (by simpa using hrem) rfl (Nat.zero_le _)
      (fun _ => hnt) (by simp [hne]) (by omega)

/-- **C18_identity** — `identity` is the no-op in both directions, with or without a cap, at any level. -/
theorem C18_identity (L : Libs) (x : Bytes) (cap : Option Nat) (lvl : Option Int) :
    decompress L .identity x cap = ⟨.ok x, 0, []⟩ ∧ compress L .identity x lvl = some x := by
  constructor <;> rfl

/-- **C18_roundtrip / C18_cap** at the level of `compress` / `decompress`: given libraries whose compressors emit honest
frames, for every codec, level, byte string and cap: decompress ∘ compress is the identity without a cap, and with a cap
(zstd, gzip) returns the original iff it fits, else the limit error. -/
theorem C18_cap (L : Libs) (hL : HonestLibs L) (e : Enc) (lvl : Option Int) (x : Bytes) :
    ∃ y, compress L e x lvl = some y ∧ (decompress L e y none).out = .ok x ∧
      ∀ cap : Nat, (decompress L e y (some cap)).out =
        if e = .identity ∨ x.length ≤ cap then .ok x else .limit := by
  cases e with
  | identity => exact ⟨x, rfl, rfl, fun cap => by simp [decompress]; rfl⟩
  | zstd =>
    refine ⟨_, rfl, ?_, ?_⟩
    · exact (C18_cap_zstd _ x (hL.1 _ x)).1
    · intro cap
      have := (C18_cap_zstd _ x (hL.1 (lvl.getD Gen.Codec.defaultZstdLevel) x)).2 cap
      simpa [decompress, Aux.mem_decompressDispatch] using this
  | gzip =>
    refine ⟨_, rfl, ?_, ?_⟩
    · exact (C18_cap_gzip _ x (hL.2 _ x)).1
    · intro cap
      have := (C18_cap_gzip _ x (hL.2 (lvl.getD Gen.Codec.defaultGzipLevel) x)).2 cap
      simpa [decompress, Aux.mem_decompressDispatch] using this

/-- **C18_alloc (zstd)** — whatever the frame claims or contains, with a library that never returns more than requested
and whose one-shot call allocates the declared size, a capped decode holds at most `cap + 1` decoded bytes, and every
request to the reader is between 1 and CHUNK bytes. -/
theorem C18_alloc_zstd (F : ZFrame) (hB : BoundedReads F.R) (cap : Nat) :
    (zstdDecode F (some cap)).peak ≤ cap + 1 ∧
    ∀ n ∈ (zstdDecode F (some cap)).reads, 1 ≤ n ∧ n ≤ Gen.Codec.chunkBytes := by
  unfold zstdDecode
  split
  · simp
  · simp only
    split
    · rename_i d _
      split
      · simp
      · rename_i hpre
        rw [Aux.precheck_first, Aux.zstdDeclaredCmp_gt] at hpre
        simp at hpre
        split <;> (simp; omega)
    · exact ⟨Aux.zstdLoop_peak F.R hB cap _ _ _ _ _ (Nat.zero_le _), Aux.zstdLoop_reads F.R cap _ _ _ _ _ (by simp)⟩

/-- **C18_alloc (gzip)** — with a decompress object that honours `max_length` and whose final `flush()` returns at most
`B ≥ 1` bytes, a capped decode holds at most `cap + B` decoded bytes. -/
theorem C18_alloc_gzip (G : GFrame) (hB : BoundedDec G.Z) (B : Nat) (hB1 : 1 ≤ B)
    (hF : ∀ s t s', G.Z.flush s = some (t, s') → t.length ≤ B) (cap : Nat) :
    (gzipDecode G (some cap)).peak ≤ cap + B :=
  Aux.gzipLoop_peak G.Z hB B hB1 hF cap _ _ _ _ _ _ (Nat.zero_le _)

/-- **C18_library_defaults** — the decoders the contracts of `Spec/C18.lean` are assumed of are the ones the code builds:
every `ZstdDecompressor` is constructed with the library defaults (no window / memory limit of its own, so every frame a
compressor level or `--long` ≤ 27 can write is decodable) and the inflater is a gzip-wrapped 32 KiB one (`wbits = 31`). -/
theorem C18_library_defaults :
    (∀ a ∈ Gen.Codec.zstdDecompressorCalls, a = "") ∧ Gen.Codec.zstdDecompressorCalls ≠ [] ∧
    (∀ a ∈ Gen.Codec.gzipDecompressobjCalls, a = "_GZIP_WBITS") ∧ Gen.Codec.gzipDecompressobjCalls ≠ [] ∧
    Gen.Codec.gzipWbits = 31 := by decide

/-! ### non-vacuity: the contracts are satisfiable -/

/-- the reader that always delivers as much as it may -/
def greedy : Reader := ⟨Bytes, fun s n => some (s.take n, s.drop n)⟩

theorem greedy_readerFor : ReaderFor greedy (fun s => s) := by
  intro (s : Bytes) n hn
  refine ⟨s.take n, s.drop n, rfl, List.take_append_drop n s, List.length_take_le n s, ?_⟩
  intro hne
  cases s with
  | nil => exact absurd rfl hne
  | cons a t =>
    cases n with
    | zero => omega
    | succ m => simp

def greedyFrame (x : Bytes) (declared : Bool) : ZFrame :=
  ⟨some (if declared then (x.length : Int) else 18446744073709551615), some x, some x, greedy, x⟩

example (x : Bytes) (d : Bool) : HonestZ (greedyFrame x d) x := by
  cases d with
  | true => exact ⟨_, rfl, Or.inr (by simp), fun _ => rfl, rfl, _, greedy_readerFor, rfl⟩
  | false => exact ⟨_, rfl, Or.inl (by simp [libUnknownSizes]), fun _ => rfl, rfl, _, greedy_readerFor, rfl⟩

/-- a decompress object that delivers as much as it may -/
def greedyZ : ZObj where
  σ := Bytes × Bool
  dec := fun s _ n => some (s.1.take n, (s.1.drop n, true))
  decAll := fun s => some (s.1, ([], true))
  hasTail := fun s => s.2 && !s.1.isEmpty
  flush := fun s => some (s.1, ([], true))
  eof := fun s => s.2 && s.1.isEmpty

example (x : Bytes) : HonestG ⟨greedyZ, (x, false), true⟩ x := by
  refine ⟨rfl, rfl, fun s => s.1, fun s => s.2 = true, rfl, ?_, ?_, ?_⟩
  · intro s f n hn
    refine ⟨s.1.take n, (s.1.drop n, true), rfl, List.take_append_drop n s.1, List.length_take_le n s.1, rfl, ?_⟩
    intro hc
    have : s.1 = [] := by
      cases hs : s.1 with
      | nil => rfl
      | cons a t =>
        rw [hs] at hc
        cases n with
        | zero => omega
        | succ m => simp at hc
    left
    simp [greedyZ, this]
  · intro s; exact ⟨s.1, ([], true), rfl, by simp, rfl, by simp [greedyZ]⟩
  · intro s _ _; exact ⟨([], true), rfl, by simp [greedyZ]⟩

end VgiVerif.C18
