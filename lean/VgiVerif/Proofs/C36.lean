import VgiVerif.Spec.C36
import VgiVerif.Model.C36
import VgiVerif.Lemmas.Regex
/-
C36 — the token introspection endpoint enforces its guards.
Helper lemmas in `namespace Aux` (the JWS regular expression, a closed form of the guard interpreter over the
extracted guard list); the obligations follow.  All statements are for every caller, body and resolver.
-/
namespace VgiVerif.C36
open VgiVerif.Regex VgiVerif.Introspect Spec

namespace Aux

/-! ### the JWS-shape regular expression -/

def b64 : Cls := ⟨false, [(65, 90), (97, 122), (48, 57), (95, 95), (45, 45)]⟩
def dot : Re := .cls ⟨false, [(46, 46)]⟩
def plusB : Re := .seq (.cls b64) (.star (.cls b64))
def body : Re := .seq plusB (.seq dot (.seq plusB (.seq dot (.star (.cls b64)))))

/-- the extracted pattern has the shape the lemmas below are about (re-checked on every run) -/
theorem pattern_shape : Gen.C36.jwsPattern = ⟨true, body, .dollar⟩ := by rfl

theorem jwsKind_match : Gen.C36.jwsKind = "match" := by rfl

theorem toNat_eq_95 (ch : Char) : ch.toNat = 95 ↔ ch = '_' := by
  constructor
  · intro h; exact Char.toNat_inj.mp (by rw [h]; rfl)
  · rintro rfl; rfl

theorem toNat_eq_45 (ch : Char) : ch.toNat = 45 ↔ ch = '-' := by
  constructor
  · intro h; exact Char.toNat_inj.mp (by rw [h]; rfl)
  · rintro rfl; rfl

theorem toNat_eq_46 (ch : Char) : ch.toNat = 46 ↔ ch = '.' := by
  constructor
  · intro h; exact Char.toNat_inj.mp (by rw [h]; rfl)
  · rintro rfl; rfl

theorem mem_b64 (ch : Char) : b64.mem ch = true ↔ B64Url ch := by
  unfold B64Url
  rw [← toNat_eq_95, ← toNat_eq_45]
  simp only [Cls.mem, b64, List.any_cons, List.any_nil, Bool.or_false, bne_iff_ne, ne_eq, Bool.not_eq_false,
    Bool.or_eq_true, Bool.and_eq_true, decide_eq_true_eq]
  omega

theorem lang_dot (s : List Char) : Lang dot s ↔ s = ['.'] := by
  simp only [dot, Lang, Cls.mem, List.any_cons, List.any_nil, Bool.or_false, bne_iff_ne, ne_eq, Bool.not_eq_false,
    Bool.and_eq_true, decide_eq_true_eq]
  constructor
  · rintro ⟨ch, rfl, h1, h2⟩
    have : ch.toNat = 46 := by omega
    rw [(toNat_eq_46 ch).1 this]
  · rintro rfl; exact ⟨'.', rfl, by decide, by decide⟩

theorem lang_starB (s : List Char) : Lang (.star (.cls b64)) s ↔ ∀ x ∈ s, B64Url x := by
  rw [lang_star_cls]
  constructor
  · intro h x hx; exact (mem_b64 x).1 (h x hx)
  · intro h x hx; exact (mem_b64 x).2 (h x hx)

theorem lang_plusB (s : List Char) : Lang plusB s ↔ s ≠ [] ∧ ∀ x ∈ s, B64Url x := by
  unfold plusB
  rw [lang_seq]
  constructor
  · rintro ⟨s1, s2, rfl, ⟨ch, rfl, hm⟩, h2⟩
    rw [lang_starB] at h2
    refine ⟨by simp, ?_⟩
    intro x hx
    simp only [List.cons_append, List.nil_append, List.mem_cons] at hx
    rcases hx with rfl | hx
    · exact (mem_b64 _).1 hm
    · exact h2 x hx
  · rintro ⟨hne, hall⟩
    cases s with
    | nil => exact absurd rfl hne
    | cons ch t =>
      refine ⟨[ch], t, rfl, ⟨ch, rfl, (mem_b64 ch).2 (hall ch (by simp))⟩, ?_⟩
      rw [lang_starB]
      intro x hx; exact hall x (by simp [hx])

theorem lang_body (s : List Char) : Lang body s ↔ JwsShaped s := by
  unfold body JwsShaped
  simp only [lang_seq, lang_plusB, lang_dot, lang_starB]
  constructor
  · rintro ⟨a, _, rfl, ⟨ha, hA⟩, _, _, rfl, rfl, b, _, rfl, ⟨hb, hB⟩, _, c, rfl, rfl, hC⟩
    exact ⟨a, b, c, by simp, ha, hb, hA, hB, hC⟩
  · rintro ⟨a, b, c, rfl, ha, hb, hA, hB, hC⟩
    exact ⟨a, _, rfl, ⟨ha, hA⟩, ['.'], _, rfl, rfl, b, _, rfl, ⟨hb, hB⟩, ['.'], c, rfl, rfl, hC⟩

/-! ### `_read_token` and `_usable_ttl` against the spec -/

theorem encodable_step : Gen.C36.readSteps.contains "encodable" = true := by decide

theorem tokenOfParsed_malformed (p : Parsed)
    (h : match p with
      | .invalid => True
      | .notObject => True
      | .object .missing => True
      | .object .notStr => True
      | .object (.unencodable _) => True
      | .object (.str s) => s = [] ∨ s.length > Gen.C36.maxTokenChars) : tokenOfParsed p = none := by
  cases p with
  | invalid => rfl
  | notObject => rfl
  | object t =>
    cases t with
    | missing => rfl
    | notStr => rfl
    | unencodable len => simp only [tokenOfParsed, encodable_step, if_true]; split <;> rfl
    | str s =>
      simp only [] at h
      have : (s.isEmpty || decide (s.length > Gen.C36.maxTokenChars)) = true := by
        rcases h with rfl | h
        · simp
        · simp [h]
      simp [tokenOfParsed, this]

theorem readToken_malformed (rq : Req) (h : Malformed Gen.C36.maxBodyBytes Gen.C36.maxTokenChars rq) :
    (readToken rq).2 = none := by
  unfold readToken
  split
  · rfl
  · split
    · rfl
    · rename_i hd hr
      rcases h with ⟨n, hn, hgt⟩ | h | h
      · exfalso; apply hd; simp [declaredTooLarge, hn, hgt]
      · exact absurd h hr
      · exact tokenOfParsed_malformed rq.parsed h

theorem readToken_subject (rq : Req) (tok : List Char)
    (h : Subject Gen.C36.maxBodyBytes Gen.C36.maxTokenChars rq tok) : readToken rq = (true, some (.text tok)) := by
  obtain ⟨hm, hp⟩ := h
  unfold Malformed at hm
  rw [hp] at hm
  simp only [not_or, not_exists, not_and, Nat.not_lt] at hm
  obtain ⟨h1, h2, h3, h4⟩ := hm
  have hs : (tok.isEmpty || decide (tok.length > Gen.C36.maxTokenChars)) = false := by
    cases tok with
    | nil => exact absurd rfl h3
    | cons a t => simp only [List.isEmpty_cons, Bool.false_or, decide_eq_false_iff_not]; omega
  have hd : declaredTooLarge rq = false := by
    unfold declaredTooLarge
    cases hc : rq.contentLength with
    | none => rfl
    | some n => have := h1 n hc; simp only [decide_eq_false_iff_not]; omega
  have hraw : ¬ rq.rawLen > Gen.C36.maxBodyBytes := by omega
  unfold readToken
  simp [hd, hraw, hp, tokenOfParsed, hs]

/-- with the encodability step in place `_read_token` never hands out an un-encodable string -/
theorem tokenOfParsed_encodable (p : Parsed) : tokenOfParsed p ≠ some .unencodable := by
  cases p with
  | invalid => simp [tokenOfParsed]
  | notObject => simp [tokenOfParsed]
  | object t =>
    cases t with
    | missing => simp [tokenOfParsed]
    | notStr => simp [tokenOfParsed]
    | unencodable len => simp only [tokenOfParsed, encodable_step, if_true]; split <;> simp
    | str s => simp only [tokenOfParsed]; split <;> simp

theorem readToken_encodable (rq : Req) : (readToken rq).2 ≠ some .unencodable := by
  unfold readToken
  split
  · simp
  · split
    · simp
    · exact tokenOfParsed_encodable rq.parsed

theorem usableTtl_iff (t : Ttl) : usableTtl t = true ↔ FinitePositive t := by
  cases t with
  | int n => simp [usableTtl, applyRule, Gen.C36.ttlRuleInt, FinitePositive]
  | bool b => simp [usableTtl, applyRule, Gen.C36.ttlRuleBool, FinitePositive]
  | other s => simp [usableTtl, applyRule, Gen.C36.ttlRuleOther, FinitePositive]
  | float c s => cases c <;> simp [usableTtl, applyRule, Gen.C36.ttlRuleFloat, FinitePositive]

/-! ### closed form of the interpreter over the extracted guard list -/

def unresolved404 : Response := ⟨404, .error "unresolved", true, none⟩
def forbidden403 : Response := ⟨403, .error "not_an_introspector", true, none⟩
def limited429 : Response := ⟨429, .error "rate_limited", true, some (.lit "1")⟩
def badTtl500 : Response := ⟨500, .falcon (some "token resolver returned an unusable ttl_seconds".toList), false, none⟩

/-- what `on_post` does once the caller is authorised and within the rate limit -/
def afterAuth (rq : Req) (res : Resolver) : Response × Trace :=
  match readToken rq with
  | (rd, none) => (unresolved404, ⟨rd, 0⟩)
  | (rd, some .unencodable) => (crash, ⟨rd, 0⟩)
  | (rd, some (.text t)) =>
    if jwsShaped t then (unresolved404, ⟨rd, 0⟩)
    else match res t with
      | .identity i => if usableTtl i.ttl then (⟨200, .identity i, true, none⟩, ⟨rd, 1⟩) else (badTtl500, ⟨rd, 1⟩)
      | .none => (unresolved404, ⟨rd, 1⟩)
      | .unavailable d ra => (⟨503, .falcon (some d), false, some (.secs ra)⟩, ⟨rd, 1⟩)
      | .raises => (crash, ⟨rd, 1⟩)

def closedForm (cfg : Cfg) (c : Caller) (rq : Req) (res : Resolver) : Response × Trace :=
  if !c.authenticated || !cfg.allow.contains c.principal then (forbidden403, ⟨false, 0⟩)
  else if !cfg.limiterAllows then (limited429, ⟨false, 0⟩)
  else afterAuth rq res

theorem onPost_eq (cfg : Cfg) (c : Caller) (rq : Req) (res : Resolver) : onPost cfg c rq res = closedForm cfg c rq res := by
  unfold onPost closedForm
  cases hb : (!c.authenticated || !cfg.allow.contains c.principal) with
  | true => simp only [Gen.C36.guards, run, step, refuse, hb, if_true, forbidden403]
  | false =>
    cases hl : cfg.limiterAllows with
    | false =>
      simp only [Gen.C36.guards, run, step, refuse, hb, hl, Bool.false_eq_true, if_false, Bool.not_false, if_true, limited429]
    | true =>
      unfold afterAuth
      rcases hr : readToken rq with ⟨rd, tok⟩
      cases tok with
      | none =>
        simp only [Gen.C36.guards, run, step, refuse, hb, hl, hr, Bool.false_eq_true, if_false, Bool.not_true,
          Bool.false_or, unresolved404]
      | some tv =>
        cases tv with
        | unencodable =>
          simp only [Gen.C36.guards, run, step, refuse, hb, hl, hr, Bool.false_eq_true, if_false, Bool.not_true,
            Bool.false_or]
        | text t =>
          cases hj : jwsShaped t with
          | true =>
            simp only [Gen.C36.guards, run, step, refuse, hb, hl, hr, hj, Bool.false_eq_true, if_false, if_true,
              Bool.not_true, Bool.false_or, unresolved404]
          | false =>
            cases hres : res t with
            | identity i =>
              cases hu : usableTtl i.ttl with
              | true =>
                simp only [Gen.C36.guards, run, step, refuse, respond, hb, hl, hr, hj, hres, hu, Bool.false_eq_true,
                  if_false, if_true, Bool.not_true, Bool.false_or, Nat.zero_add]
              | false =>
                simp only [Gen.C36.guards, run, step, refuse, hb, hl, hr, hj, hres, hu, Bool.false_eq_true,
                  if_false, Bool.not_true, Bool.false_or, Nat.zero_add, badTtl500]
            | none =>
              simp only [Gen.C36.guards, run, step, refuse, hb, hl, hr, hj, hres, Bool.false_eq_true, if_false,
                Bool.not_true, Bool.false_or, Nat.zero_add, unresolved404]
            | unavailable d ra =>
              simp only [Gen.C36.guards, run, step, refuse, hb, hl, hr, hj, hres, Bool.false_eq_true, if_false,
                Bool.not_true, Bool.false_or, Nat.zero_add]
            | raises =>
              simp only [Gen.C36.guards, run, step, refuse, hb, hl, hr, hj, hres, Bool.false_eq_true, if_false,
                Bool.not_true, Bool.false_or, Nat.zero_add]

theorem authorized_iff (cfg : Cfg) (c : Caller) :
    (!c.authenticated || !cfg.allow.contains c.principal) = false ↔ Authorized cfg c := by
  unfold Authorized
  simp

theorem onPost_authorized (cfg : Cfg) (c : Caller) (rq : Req) (res : Resolver) (ha : Authorized cfg c)
    (hl : cfg.limiterAllows = true) : onPost cfg c rq res = afterAuth rq res := by
  rw [onPost_eq]; unfold closedForm
  rw [(authorized_iff cfg c).2 ha]; simp [hl]

/-- the class of the subject a request carries -/
inductive SubjectClass where
  | malformed | jws | opaque
deriving DecidableEq

def subjectOf (rq : Req) : Option (List Char) :=
  match (readToken rq).2 with
  | some (.text t) => some t
  | _ => none

def classOf (rq : Req) : SubjectClass :=
  match subjectOf rq with
  | none => .malformed
  | some t => if jwsShaped t then .jws else .opaque

end Aux

open Aux

/-! ## Obligations -/

/-- the extracted shape: guard order, refusal shape, three-key success body, token only used by guards,
`_read_token`'s steps, `_usable_ttl`'s rules, the disabled resource and the route wiring -/
theorem shape_ok :
    Gen.C36.guards = [.authz 403 "not_an_introspector", .rateLimit 429 "rate_limited" "1", .readToken 404 "unresolved",
      .digest, .jwsShape 404 "unresolved", .resolve 503, .unresolved 404 "unresolved",
      .ttlCheck 500 "token resolver returned an unusable ttl_seconds"] ∧
    Gen.C36.successKeys = ["principal", "token_name", "ttl_seconds"] ∧
    Gen.C36.tokenOnlyUsedByGuards = true ∧ Gen.C36.refuseShapeOk = true ∧
    Gen.C36.readSteps = ["length", "declared_length", "read_bounded", "read_length", "json", "dict", "get_token",
      "str_nonempty_maxlen", "encodable", "return"] ∧
    Gen.C36.disabledShapeOk = true ∧ Gen.C36.disabledReadsRequest = false ∧ Gen.C36.wiringOk = true ∧
    Gen.C36.limiterShapeOk = true ∧ Gen.C36.limiterWindowTicks = 1024 ∧
    Gen.C36.allowElem = "identity" ∧ Gen.C36.allowFilter = "raw" ∧ Gen.C36.allowEmptyRaises = true ∧
    Gen.C36.allowWired = true := by
  refine ⟨by rfl, by rfl, by rfl, by rfl, by rfl, by rfl, by rfl, by rfl, by rfl, by rfl, by rfl, by rfl, by rfl, by rfl⟩

/-- `_JWS_SHAPED.match(token)` holds exactly for three dot-separated base64url segments, optionally followed by
one newline (`$`); in particular every JWS-shaped subject is caught. -/
theorem C36_jws_iff (s : List Char) :
    jwsShaped s = true ↔ (JwsShaped s ∨ ∃ t, s = t ++ ['\n'] ∧ JwsShaped t) := by
  unfold jwsShaped
  simp only [jwsKind_match, if_true]
  rw [pyMatch_dollar _ (by rw [pattern_shape]), pattern_shape]
  simp only [lang_body]

/-- 403 to every caller outside the allow-list (or not authenticated) — before the body is read or the
resolver consulted, whatever the body and the resolver are. -/
theorem C36_403 (cfg : Cfg) (c : Caller) (rq : Req) (res : Resolver) (h : ¬ Authorized cfg c) :
    onPost cfg c rq res = (forbidden403, ⟨false, 0⟩) := by
  rw [onPost_eq]; unfold closedForm
  have : (!c.authenticated || !cfg.allow.contains c.principal) = true := by
    cases hb : (!c.authenticated || !cfg.allow.contains c.principal) with
    | true => rfl
    | false => exact absurd ((authorized_iff cfg c).1 hb) h
  rw [if_pos this]

/-- Malformed subjects get the one 404; the resolver is not consulted. -/
theorem C36_404_malformed (cfg : Cfg) (c : Caller) (rq : Req) (res : Resolver) (ha : Authorized cfg c)
    (hl : cfg.limiterAllows = true) (hm : Malformed Gen.C36.maxBodyBytes Gen.C36.maxTokenChars rq) :
    (onPost cfg c rq res).1 = unresolved404 ∧ (onPost cfg c rq res).2.resolverCalls = 0 := by
  rw [onPost_authorized cfg c rq res ha hl]
  unfold afterAuth
  have := readToken_malformed rq hm
  rcases hr : readToken rq with ⟨rd, tok⟩
  rw [hr] at this
  simp only [] at this
  subst this
  exact ⟨rfl, rfl⟩

/-- JWS-shaped subjects get the same 404 and never reach the resolver. -/
theorem C36_404_jws (cfg : Cfg) (c : Caller) (rq : Req) (res : Resolver) (tok : List Char) (ha : Authorized cfg c)
    (hl : cfg.limiterAllows = true) (hs : Subject Gen.C36.maxBodyBytes Gen.C36.maxTokenChars rq tok)
    (hj : JwsShaped tok) :
    (onPost cfg c rq res).1 = unresolved404 ∧ (onPost cfg c rq res).2.resolverCalls = 0 := by
  rw [onPost_authorized cfg c rq res ha hl]
  unfold afterAuth
  rw [readToken_subject rq tok hs]
  simp [(C36_jws_iff tok).2 (.inl hj)]

/-- Unknown subjects (the resolver answers `None`) get the same 404, byte for byte. -/
theorem C36_404_unknown (cfg : Cfg) (c : Caller) (rq : Req) (res : Resolver) (tok : List Char) (ha : Authorized cfg c)
    (hl : cfg.limiterAllows = true) (hs : Subject Gen.C36.maxBodyBytes Gen.C36.maxTokenChars rq tok)
    (hr : res tok = .none) :
    (onPost cfg c rq res).1 = unresolved404 := by
  rw [onPost_authorized cfg c rq res ha hl]
  unfold afterAuth
  rw [readToken_subject rq tok hs]
  simp only []
  split
  · rfl
  · simp [hr]

/-- A resolver outage is 503 with the resolver's `Retry-After` — never the definitive 404. -/
theorem C36_503 (cfg : Cfg) (c : Caller) (rq : Req) (res : Resolver) (tok d : List Char) (ra : Int)
    (ha : Authorized cfg c) (hl : cfg.limiterAllows = true)
    (hs : Subject Gen.C36.maxBodyBytes Gen.C36.maxTokenChars rq tok) (hj : jwsShaped tok = false)
    (hr : res tok = .unavailable d ra) :
    onPost cfg c rq res = (⟨503, .falcon (some d), false, some (.secs ra)⟩, ⟨true, 1⟩) := by
  rw [onPost_authorized cfg c rq res ha hl]
  unfold afterAuth
  rw [readToken_subject rq tok hs]
  simp [hj, hr]

/-- A resolved subject: exactly `principal`, `token_name`, `ttl_seconds` when the ttl is finite and positive;
a server error — not a 200, not the definitive 404 — when it is not. -/
theorem C36_ok (cfg : Cfg) (c : Caller) (rq : Req) (res : Resolver) (tok : List Char) (i : Identity)
    (ha : Authorized cfg c) (hl : cfg.limiterAllows = true)
    (hs : Subject Gen.C36.maxBodyBytes Gen.C36.maxTokenChars rq tok) (hj : jwsShaped tok = false)
    (hr : res tok = .identity i) :
    (FinitePositive i.ttl → onPost cfg c rq res = (⟨200, .identity i, true, none⟩, ⟨true, 1⟩)) ∧
    (¬ FinitePositive i.ttl → onPost cfg c rq res = (badTtl500, ⟨true, 1⟩)) := by
  rw [onPost_authorized cfg c rq res ha hl]
  unfold afterAuth
  rw [readToken_subject rq tok hs]
  constructor
  · intro hf; simp [hj, hr, (usableTtl_iff i.ttl).2 hf]
  · intro hf
    have : usableTtl i.ttl = false := by
      cases hu : usableTtl i.ttl with
      | false => rfl
      | true => exact absurd ((usableTtl_iff i.ttl).1 hu) hf
    simp [hj, hr, this]

/-- Every 200, for any caller, body and resolver, is an authorised caller's well-formed non-JWS subject that the
resolver resolved, carries exactly the three keys, and its `ttl_seconds` is finite and positive. -/
theorem C36_200 (cfg : Cfg) (c : Caller) (rq : Req) (res : Resolver) (h : (onPost cfg c rq res).1.status = 200) :
    Authorized cfg c ∧ ∃ tok i, subjectOf rq = some tok ∧ jwsShaped tok = false ∧ res tok = .identity i ∧
      FinitePositive i.ttl ∧ (onPost cfg c rq res).1 = ⟨200, .identity i, true, none⟩ := by
  have h' := h
  rw [onPost_eq] at h'
  unfold closedForm at h'
  cases hb : (!c.authenticated || !cfg.allow.contains c.principal) with
  | true => rw [hb] at h'; simp [forbidden403] at h'
  | false =>
    have ha := (authorized_iff cfg c).1 hb
    cases hl : cfg.limiterAllows with
    | false => rw [hb, hl] at h'; simp [limited429] at h'
    | true =>
      have e := onPost_authorized cfg c rq res ha hl
      rw [e] at h
      unfold afterAuth at h e
      rcases hr : readToken rq with ⟨rd, tok⟩
      rw [hr] at h e
      cases tok with
      | none => simp [unresolved404] at h
      | some tv =>
        cases tv with
        | unencodable => simp [crash] at h
        | text t =>
          simp only [] at h e
          cases hj : jwsShaped t with
          | true => rw [hj] at h; simp [unresolved404] at h
          | false =>
            rw [hj] at h e
            simp only [Bool.false_eq_true, if_false] at h e
            cases hres : res t with
            | none => rw [hres] at h; simp [unresolved404] at h
            | unavailable d ra => rw [hres] at h; simp at h
            | raises => rw [hres] at h; simp [crash] at h
            | identity i =>
              rw [hres] at h e
              simp only [] at h e
              cases hu : usableTtl i.ttl with
              | false => rw [hu] at h; simp [badTtl500] at h
              | true =>
                rw [hu] at e
                simp only [if_true] at e
                exact ⟨ha, t, i, by simp [subjectOf, hr], hj, hres, (usableTtl_iff i.ttl).1 hu, by rw [e]⟩

/-- The response is a function of (caller, class of the subject, resolver result) only: two requests whose subjects
fall in the same class — malformed, JWS-shaped, opaque — and, if opaque, get the same resolver outcome, receive
identical responses although the credentials differ.  The subject's text is not an input of the response. -/
theorem C36_secret (cfg : Cfg) (c : Caller) (rq₁ rq₂ : Req) (res₁ res₂ : Resolver)
    (hc : classOf rq₁ = classOf rq₂)
    (hr : ∀ t₁ t₂, subjectOf rq₁ = some t₁ → subjectOf rq₂ = some t₂ → res₁ t₁ = res₂ t₂) :
    (onPost cfg c rq₁ res₁).1 = (onPost cfg c rq₂ res₂).1 := by
  rw [onPost_eq, onPost_eq]
  unfold closedForm
  split
  · rfl
  · split
    · rfl
    · unfold classOf at hc
      unfold subjectOf at hc hr
      unfold afterAuth
      have e1 := readToken_encodable rq₁
      have e2 := readToken_encodable rq₂
      rcases h1 : readToken rq₁ with ⟨rd1, tok1⟩
      rcases h2 : readToken rq₂ with ⟨rd2, tok2⟩
      rw [h1] at hc hr e1
      rw [h2] at hc hr e2
      cases tok1 with
      | none =>
        cases tok2 with
        | none => rfl
        | some tv2 =>
          cases tv2 with
          | unencodable => exact absurd rfl e2
          | text t2 =>
            simp only [] at hc
            split at hc
            · simp only []; rename_i hj; simp [hj]
            · cases hc
      | some tv1 =>
        cases tv1 with
        | unencodable => exact absurd rfl e1
        | text t1 =>
          cases tok2 with
          | none =>
            simp only [] at hc
            split at hc
            · simp only []; rename_i hj; simp [hj]
            · cases hc
          | some tv2 =>
            cases tv2 with
            | unencodable => exact absurd rfl e2
            | text t2 =>
              simp only [] at hc hr ⊢
              have hres := hr t1 t2 rfl rfl
              cases hj1 : jwsShaped t1 <;> cases hj2 : jwsShaped t2 <;> simp [hj1, hj2] at hc ⊢
              rw [hres]
              cases res₂ t2 with
              | identity i => simp only []; split <;> rfl
              | none => rfl
              | unavailable d ra => rfl
              | raises => rfl

/-- A worker without introspection answers the definitive `404 not_enabled`, whatever the caller and the body;
a worker with a resolver runs the guarded endpoint. -/
theorem C36_disabled (cfg : Cfg) (c : Caller) (rq : Req) :
    endpoint none cfg c rq = (⟨404, .error "not_enabled", true, none⟩, ⟨false, 0⟩) ∧
    ∀ r, endpoint (some r) cfg c rq = onPost cfg c rq r := by
  constructor
  · rfl
  · intro r; rfl

/-- Every answer is one of 200 / 403 / 404 / 429 / 500 / 503, and 429 only when the rate limiter refuses. -/
theorem C36_statuses (cfg : Cfg) (c : Caller) (rq : Req) (res : Resolver) :
    (onPost cfg c rq res).1.status ∈ [200, 403, 404, 429, 500, 503] ∧
    ((onPost cfg c rq res).1.status = 429 → cfg.limiterAllows = false) := by
  rw [onPost_eq]; unfold closedForm
  split
  · simp [forbidden403]
  · split
    · rename_i hl; simp at hl; simp [limited429, hl]
    · unfold afterAuth
      rcases readToken rq with ⟨rd, tok⟩
      cases tok with
      | none => simp [unresolved404]
      | some tv =>
        cases tv with
        | unencodable => simp [crash]
        | text t =>
          simp only []
          split
          · simp [unresolved404]
          · cases res t with
            | identity i => simp only []; split <;> simp [badTtl500]
            | none => simp [unresolved404]
            | unavailable d ra => simp
            | raises => simp [crash]

/-! ### request sequences: the rate limiter's state never stands between a refused caller and its 403 -/

/-- the limiter is consulted exactly for authorised callers (the allow-list guard precedes it in the extracted order) -/
theorem Aux.reaches_eq (allow : List (List Char)) (c : Caller) (rq : Req) (res : Resolver) :
    reachesLimiter ⟨allow, true⟩ c rq res Gen.C36.guards ⟨⟨false, 0⟩, none, none⟩
      = !(!c.authenticated || !allow.contains c.principal) := by
  simp only [Gen.C36.guards, reachesLimiter, step]
  cases hb : (!c.authenticated || !allow.contains c.principal) <;> simp

/-- Whatever the limiter's state — i.e. after *any* history of requests, at any time — a caller outside the allow-list
gets the 403, the body is not read, the resolver is not consulted, and the limiter is neither consulted nor changed
(a refused caller cannot use up anybody's budget, and no burst turns its 403 into a 429). -/
theorem C36_403_any_state (allow : List (List Char)) (perWindow : Nat) (lim : LimState) (now : Int) (c : Caller)
    (rq : Req) (res : Resolver) (h : ¬ Authorized ⟨allow, true⟩ c) :
    serve allow perWindow lim now c rq res = (lim, (forbidden403, ⟨false, 0⟩)) := by
  have hb : (!c.authenticated || !allow.contains c.principal) = true := by
    cases hb : (!c.authenticated || !allow.contains c.principal) with
    | true => rfl
    | false => exact absurd ((authorized_iff ⟨allow, true⟩ c).1 hb) h
  unfold serve
  rw [Aux.reaches_eq, hb]
  simp only [Bool.not_true, Bool.false_eq_true, if_false]
  rw [C36_403 ⟨allow, true⟩ c rq res h]

/-- … hence in every history (any length, any interleaving of callers, any clock) every request of a caller outside
the allow-list is answered 403. -/
theorem C36_403_history (allow : List (List Char)) (perWindow : Nat) :
    ∀ (es : List Event) (lim : LimState) (i : Nat) (e : Event), es[i]? = some e → ¬ Authorized ⟨allow, true⟩ e.caller →
      (serveAll allow perWindow lim es)[i]? = some (forbidden403, ⟨false, 0⟩)
  | [], _, _, _, h, _ => by simp at h
  | e₀ :: es, lim, 0, e, h, hna => by
    simp only [List.getElem?_cons_zero, Option.some.injEq] at h
    subst h
    simp only [serveAll, List.getElem?_cons_zero]
    rw [C36_403_any_state allow perWindow lim e₀.now e₀.caller e₀.rq e₀.res hna]
  | e₀ :: es, lim, i + 1, e, h, hna => by
    simp only [List.getElem?_cons_succ] at h
    simp only [serveAll, List.getElem?_cons_succ]
    exact C36_403_history allow perWindow es _ i e h hna

/-- An authorised caller's request is the guarded endpoint with the limiter's decision for (caller, now); so every
guard theorem above applies to each request of a history for which the limiter allows. -/
theorem C36_serve_authorized (allow : List (List Char)) (perWindow : Nat) (lim : LimState) (now : Int) (c : Caller)
    (rq : Req) (res : Resolver) (h : Authorized ⟨allow, true⟩ c) :
    serve allow perWindow lim now c rq res
      = ((lim.allow perWindow c.principal now).1, onPost ⟨allow, (lim.allow perWindow c.principal now).2⟩ c rq res) := by
  unfold serve
  rw [Aux.reaches_eq, (authorized_iff ⟨allow, true⟩ c).2 h]
  simp

/-! ### the configured allow-list -/

theorem Aux.configure_eq (configured : List (List Char)) :
    configure configured =
      if (configured.filter fun p => !p.isEmpty).isEmpty then none else some (configured.filter fun p => !p.isEmpty) := by
  have hk : allowKeeps = fun p => !p.isEmpty := by
    funext p; simp [allowKeeps, Gen.C36.allowFilter]
  have he : allowElemOf = fun p => p := by
    funext p; simp [allowElemOf, Gen.C36.allowElem]
  unfold configure
  rw [hk, he]
  simp [Gen.C36.allowEmptyRaises]

/-- The effective allow-list is exactly the configured names: a principal is on it iff it is non-empty and occurs,
as written, among the configured entries.  Blank entries name nobody; nothing is trimmed, folded or added. -/
theorem C36_allowlist_exact (configured allow : List (List Char)) (h : configure configured = some allow)
    (p : List Char) : p ∈ allow ↔ Listed configured p := by
  rw [Aux.configure_eq] at h
  split at h
  · cases h
  · simp only [Option.some.injEq] at h
    subst h
    unfold Listed
    simp only [List.mem_filter, Bool.not_eq_true', List.isEmpty_eq_false_iff]
    exact ⟨fun ⟨a, b⟩ => ⟨b, a⟩, fun ⟨a, b⟩ => ⟨b, a⟩⟩

/-- No permissive default: a configuration naming nobody (missing, empty, only blank entries) is refused at construction. -/
theorem C36_allowlist_required (configured : List (List Char)) :
    configure configured = none ↔ ∀ p ∈ configured, p = [] := by
  rw [Aux.configure_eq]
  constructor
  · intro h
    split at h
    · rename_i he
      intro p hp
      cases p with
      | nil => rfl
      | cons a t =>
        have : (a :: t) ∈ configured.filter fun p => !p.isEmpty := by
          simp only [List.mem_filter]; exact ⟨hp, by simp⟩
        rw [List.isEmpty_iff.mp he] at this
        simp at this
    · cases h
  · intro h
    have : (configured.filter fun p => !p.isEmpty) = [] := by
      rw [List.filter_eq_nil_iff]
      intro p hp
      simp [h p hp]
    simp [this]

/-- 403 against the *configured* allow-list, for every configuration the factory accepts: every caller that is not
authenticated, or whose principal is not one of the configured names — in particular every caller that authenticated
without a principal (`auth.principal or ""` = `""`), whatever blank / duplicate / padded entries the configuration holds —
gets the 403, at any limiter state, with the body unread, the resolver and the limiter untouched. -/
theorem C36_403_configured (configured allow : List (List Char)) (h : configure configured = some allow)
    (perWindow : Nat) (lim : LimState) (now : Int) (c : Caller) (rq : Req) (res : Resolver)
    (hc : ¬ (c.authenticated = true ∧ Listed configured c.principal)) :
    serve allow perWindow lim now c rq res = (lim, (forbidden403, ⟨false, 0⟩)) := by
  apply C36_403_any_state
  intro ⟨ha, hm⟩
  exact hc ⟨ha, (C36_allowlist_exact configured allow h c.principal).1 hm⟩

/-- the empty caller key is never on an accepted allow-list -/
theorem C36_403_no_principal (configured allow : List (List Char)) (h : configure configured = some allow)
    (perWindow : Nat) (lim : LimState) (now : Int) (c : Caller) (rq : Req) (res : Resolver) (hp : c.principal = []) :
    serve allow perWindow lim now c rq res = (lim, (forbidden403, ⟨false, 0⟩)) :=
  C36_403_configured configured allow h perWindow lim now c rq res (fun ⟨_, hl⟩ => hl.1 hp)

/-! ### non-vacuity -/

private def cfg0 : Cfg := ⟨["proxy".toList], true⟩
private def proxy : Caller := ⟨true, "proxy".toList⟩
private def rq0 (tok : String) : Req := ⟨some 20, 20, .object (.str tok.toList)⟩
private def res0 : Resolver := fun t =>
  if t = "known".toList then .identity ⟨"alice".toList, "laptop".toList, .int 300⟩
  else if t = "nan".toList then .identity ⟨"alice".toList, "laptop".toList, .float .nan "nan".toList⟩
  else if t = "down".toList then .unavailable "store down".toList 7
  else .none

example : Authorized cfg0 proxy := ⟨rfl, by decide⟩
example : ¬ Authorized cfg0 ⟨true, "mallory".toList⟩ := by unfold Authorized; decide
example : Subject Gen.C36.maxBodyBytes Gen.C36.maxTokenChars (rq0 "known") "known".toList := by
  refine ⟨?_, rfl⟩
  unfold Malformed
  simp [rq0, Gen.C36.maxBodyBytes, Gen.C36.maxTokenChars]
example : (onPost cfg0 proxy (rq0 "known") res0).1 = ⟨200, .identity ⟨"alice".toList, "laptop".toList, .int 300⟩, true, none⟩ := by decide
example : (onPost cfg0 proxy (rq0 "nan") res0).1.status = 500 := by decide
example : (onPost cfg0 proxy (rq0 "down") res0).1.status = 503 := by decide
example : (onPost cfg0 proxy (rq0 "a.b.c") res0) = (unresolved404, ⟨true, 0⟩) := by decide
example : (onPost cfg0 proxy (rq0 "a.b.c\n") res0) = (unresolved404, ⟨true, 0⟩) := by decide
example : JwsShaped "a.b.".toList := ⟨['a'], ['b'], [], rfl, by simp, by simp, by simp [B64Url], by simp [B64Url], by simp⟩
example : ((serveAll cfg0.allow 1 LimState.fresh
    [⟨5000, proxy, rq0 "known", res0⟩, ⟨5001, proxy, rq0 "known", res0⟩, ⟨5002, ⟨true, "mallory".toList⟩, rq0 "known", res0⟩,
     ⟨6100, proxy, rq0 "known", res0⟩]).map (·.1.status)) = [200, 429, 403, 200] := by decide
example : configure ["proxy".toList, [], " ".toList, "proxy".toList] = some ["proxy".toList, " ".toList, "proxy".toList] := by decide
example : configure [[], []] = none ∧ configure [] = none := by decide
example : Listed ["proxy".toList, []] "proxy".toList ∧ ¬ Listed ["proxy".toList, []] [] := by
  constructor
  · exact ⟨by decide, by decide⟩
  · intro h; exact h.1 rfl
example : classOf (rq0 "known") = classOf (rq0 "other") ∧ classOf (rq0 "a.b.c") = .jws := by decide

end VgiVerif.C36
