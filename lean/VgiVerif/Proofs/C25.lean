import VgiVerif.Model.C25
import VgiVerif.Spec.C25
import VgiVerif.Lemmas.Sticky
import VgiVerif.Lemmas.StickyHistory
/-
C25 property theorems.  Helper lemmas in `namespace Aux`; the obligations are at the bottom.
-/
namespace VgiVerif.C25
open VgiVerif.Gen VgiVerif.Sticky Spec

namespace Aux

/-- the extracted shapes the proofs are about (re-checked on every run) -/
theorem shapes :
    Sticky.canonicalCheck = true ∧ checkServerId = true ∧ checkPrincipal = true ∧ Sticky.openFailuresAreLost = true ∧
    Sticky.openSteps = ["b64decode", "canonical", "open_bytes", "min_len", "unpack_prefix", "exact_len",
      "server_id_ascii_replace", "session_id", "unpack_suffix", "return"] ∧
    Sticky.validateSteps = ["open_token", "server_id", "registry_get", "entry_none", "lock_acquire", "revalidate"] ∧
    Sticky.isLiveOk = true ∧ Sticky.closeEntryOnce = true ∧ Sticky.endingPathsClose = true ∧
    Sticky.getSteps = ["missing", "expired", "principal"] ∧ Sticky.expiryStrict = true ∧
    Sticky.sealCallOk = true ∧ Sticky.sealChecksSidLen = true ∧ Sticky.maxServerIdLen = 255 ∧
    Sticky.tokenHeaderHandlingOk = true ∧ Sticky.lostSkipsDispatch = true ∧ Sticky.openBodyOk = true ∧ Sticky.ttlDefaultOnFalsy = false ∧
    Sticky.drainCompares = ["e.expires_at < now"] ∧
    Sticky.deleteExits = [("no_header", 200, false), ("open_failed", 200, false), ("server_id", 200, false),
      ("registry_miss", 200, false), ("hit", 204, true)] ∧
    Sticky.deleteClosesOnHit = true ∧ Sticky.exemptSuffixes = ["/health", "/__session__"] ∧
    Sticky.exemptCompareSafe = true ∧ Sticky.exemptCompare = "eq_or_subtree" := by decide

theorem canonical_true : Sticky.canonicalCheck = true := shapes.1
theorem checkServerId_true : checkServerId = true := shapes.2.1
theorem checkPrincipal_true : checkPrincipal = true := shapes.2.2.1

/-- what a successful `_open_session_token` tells -/
theorem open_ok {Wire : Type} [DecidableEq Wire] (C : Codec Wire) (w : Wire) (key : Nat) (a : Bytes) (r : Bytes × Bytes × Nat)
    (h : openSessionToken C w key a = .ok r) :
    ∃ n pt, C.dec w = some (.sealed key a Sticky.tokenVersion n pt) ∧ C.enc (.sealed key a Sticky.tokenVersion n pt) = w ∧
      parseFrame pt = .ok r := by
  unfold openSessionToken openSessionTokenP at h
  cases hd : C.dec w with
  | none => simp [hd] at h
  | some t =>
    simp only [hd] at h
    by_cases hcan : Sticky.canonicalCheck = true ∧ C.enc t ≠ w
    · rw [if_pos hcan] at h; cases h
    · rw [if_neg hcan] at h
      have henc : C.enc t = w := Classical.byContradiction fun hne => hcan ⟨canonical_true, hne⟩
      cases hob : openBytes key a Sticky.tokenVersion t with
      | none => simp [hob] at h
      | some pt =>
        simp only [hob] at h
        cases t with
        | raw bs => simp [openBytes] at hob
        | «sealed» k a' v n p =>
          simp only [openBytes] at hob
          split at hob
          · rename_i hk
            obtain ⟨rfl, rfl, rfl⟩ := hk
            cases hob
            exact ⟨n, pt, rfl, henc, h⟩
          · cases hob

theorem open_never_crashes {Wire : Type} [DecidableEq Wire] (C : Codec Wire) (w : Wire) (key : Nat) (a : Bytes) :
    openSessionToken C w key a ≠ .error .crash := by
  unfold openSessionToken openSessionTokenP
  cases C.dec w with
  | none => simp
  | some t =>
    simp only
    split
    · simp
    · cases openBytes key a Sticky.tokenVersion t with
      | none => simp
      | some pt => exact parseFrame_no_crash pt

/-- an envelope under a worker key that somebody can present is a minted one, up to the version byte -/
theorem known_sealed {mints : List Mint} {sk : Nat → Prop} {t : Tok} (h : Known mints sk t) :
    ∀ k a v n p, t = .sealed k a v n p → sk k → ∃ m ∈ mints, ∃ v', m.tok = .sealed k a v' n p := by
  induction h with
  | minted hm => intro k a v n p ht _; exact ⟨_, hm, v, ht⟩
  | raw bs => intro k a v n p ht; cases ht
  | ownSeal hk => intro k a v n p ht hs; cases ht; exact absurd hs hk
  | reversion _ ih =>
    intro k a v n p ht hs
    cases ht
    exact ih _ _ _ _ _ rfl hs

/-- a well-formed mint record -/
def MintWF (cfg : Nat → Cfg) (N : Nat) (m : Mint) : Prop :=
  m.wk < N ∧
  m.tok = .sealed m.key (aad m.ident) Sticky.tokenVersion m.nonce (packFrame m.created m.serverId m.sid m.expires) ∧
  m.serverId = (cfg m.wk).serverId ∧ m.key = (cfg m.wk).key ∧ sealOk (cfg m.wk) m.created m.expires = true ∧
  m.sid.length = Sticky.sessionIdLen ∧ NulFree m.ident

theorem sealOk_ranges {cfg : Cfg} {a b : Nat} (h : sealOk cfg a b = true) :
    a < 256 ^ 8 ∧ cfg.serverId.length < 256 ^ 1 ∧ b < 256 ^ 8 := by
  unfold sealOk at h
  simp only [Bool.and_eq_true, decide_eq_true_eq] at h
  exact ⟨h.1.1.2, h.1.2, h.2⟩

theorem mint_frame {cfg : Nat → Cfg} {N : Nat} {m : Mint} (h : MintWF cfg N m) :
    parseFrame (packFrame m.created m.serverId m.sid m.expires) = .ok (m.serverId, m.sid, m.expires) := by
  obtain ⟨_, _, hs, _, hok, hl, _⟩ := h
  obtain ⟨h1, h2, h3⟩ := sealOk_ranges hok
  exact parseFrame_packFrame _ _ _ _ h1 (by rw [hs]; exact h2) hl h3

/-- invariant of one worker's world inside a history -/
def WInv (cfg : Nat → Cfg) (N : Nat) (wk : Nat) (W : World) : Prop :=
  (∀ m ∈ W.mints, MintWF cfg N m) ∧ ND W.reg ∧ FreshE W ∧ (∀ m ∈ W.mints, ∃ k, k < W.env.sidCtr ∧ m.sid = sidOfCtr k) ∧
  (∀ e ∈ W.reg.entries, ∀ m ∈ W.mints, m.wk = wk → m.sid = e.sid → e.pkey = pkey m.ident)

/-- what a request on worker `wk` may do to the shared parts -/
def Mono (wk : Nat) (W0 W : World) : Prop :=
  W0.env.sidCtr ≤ W.env.sidCtr ∧ (∀ m ∈ W.mints, m ∈ W0.mints ∨ m.wk = wk) ∧ (∀ m ∈ W0.mints, m ∈ W.mints)

theorem Mono.refl (wk : Nat) (W : World) : Mono wk W W := ⟨Nat.le_refl _, fun _ h => Or.inl h, fun _ h => h⟩

theorem Mono.trans {wk : Nat} {A B D : World} (h1 : Mono wk A B) (h2 : Mono wk B D) : Mono wk A D := by
  refine ⟨Nat.le_trans h1.1 h2.1, fun m hm => ?_, fun m hm => h2.2.2 m (h1.2.2 m hm)⟩
  rcases h2.2.1 m hm with h | h
  · exact h1.2.1 m h
  · exact Or.inr h

theorem step_WInv (cfg : Nat → Cfg) (N : Nat) (wk : Nat) (hwk : wk < N) (ident : Identity) (c : Nat) (W : World) (rs : RS) (a : Action)
    (hid : NulFree ident) (hb : W.env.sidCtr < 256 ^ 12) (h : WInv cfg N wk W) :
    WInv cfg N wk (stepAction (cfg wk) wk ident c W rs a).1 ∧ Mono wk W (stepAction (cfg wk) wk ident c W rs a).1 := by
  obtain ⟨hm, hnd, hfe, hfm, hpk⟩ := h
  cases a with
  | «open» l ttl =>
    simp only [stepAction, stepActionP]
    split
    · exact ⟨⟨hm, hnd, hfe, hfm, hpk⟩, Mono.refl _ _⟩
    · split
      · exact ⟨⟨hm, hnd, hfe, hfm, hpk⟩, Mono.refl _ _⟩
      · split
        · exact ⟨⟨hm, hnd, hfe, hfm, hpk⟩, Mono.refl _ _⟩
        · -- the registry insertion happens in both sealing outcomes
          have hother : ∀ x ∈ W.reg.entries, x.sid ≠ sidOfCtr W.env.sidCtr := by
            intro x hx heq
            obtain ⟨k, hk, hks⟩ := hfe x hx
            rw [hks] at heq
            have := sidOfCtr_inj (Nat.lt_trans hk hb) hb heq
            omega
          have hotherm : ∀ m ∈ W.mints, m.sid ≠ sidOfCtr W.env.sidCtr := by
            intro m hmm heq
            obtain ⟨k, hk, hks⟩ := hfm m hmm
            rw [hks] at heq
            have := sidOfCtr_inj (Nat.lt_trans hk hb) hb heq
            omega
          have gfe : ∀ en : Entry, en.sid = sidOfCtr W.env.sidCtr → ∀ x ∈ (W.reg.insert en).entries,
              ∃ k, k < W.env.sidCtr + 1 ∧ x.sid = sidOfCtr k := by
            intro en hen x hx
            rcases Reg.mem_insert.mp hx with ⟨hx1, _⟩ | rfl
            · obtain ⟨k, hk, hks⟩ := hfe x hx1
              exact ⟨k, Nat.lt_succ_of_lt hk, hks⟩
            · exact ⟨_, Nat.lt_succ_self _, hen⟩
          have gfm : ∀ m ∈ W.mints, ∃ k, k < W.env.sidCtr + 1 ∧ m.sid = sidOfCtr k := by
            intro m hmm
            obtain ⟨k, hk, hks⟩ := hfm m hmm
            exact ⟨k, Nat.lt_succ_of_lt hk, hks⟩
          have gpk : ∀ en : Entry, en.sid = sidOfCtr W.env.sidCtr → ∀ e ∈ (W.reg.insert en).entries, ∀ m ∈ W.mints,
              m.wk = wk → m.sid = e.sid → e.pkey = pkey m.ident := by
            intro en hen e he m hmm hwk hs
            rcases Reg.mem_insert.mp he with ⟨he1, _⟩ | rfl
            · exact hpk e he1 m hmm hwk hs
            · exact absurd (hs.trans hen) (hotherm m hmm)
          split
          · rename_i hseal
            exact ⟨⟨hm, ND_insert hnd _, gfe _ rfl, gfm, gpk _ rfl⟩, Nat.le_succ _, fun _ h => Or.inl h, fun _ h => h⟩
          · rename_i hseal
            have hseal' : sealOk (cfg wk) W.env.now (expiresOf W.env.now ttl (cfg wk).defaultTtl) = true := by
              have : openSealOk (cfg wk) W.env.now ttl = true := by simpa using hseal
              exact (openSealOk_seal this).1
            refine ⟨⟨?_, ND_insert hnd _, gfe _ rfl, ?_, ?_⟩, Nat.le_succ _, ?_, ?_⟩
            · intro m hmm
              rcases List.mem_append.mp hmm with h | h
              · exact hm m h
              · simp only [List.mem_singleton] at h
                subst h
                exact ⟨hwk, rfl, rfl, rfl, hseal', leBytes_length _ _, hid⟩
            · intro m hmm
              rcases List.mem_append.mp hmm with h | h
              · exact gfm m h
              · simp only [List.mem_singleton] at h
                subst h
                exact ⟨_, Nat.lt_succ_self _, rfl⟩
            · intro e he m hmm hwk hs
              rcases List.mem_append.mp hmm with h | h
              · exact gpk _ rfl e he m h hwk hs
              · simp only [List.mem_singleton] at h
                subst h
                rcases Reg.mem_insert.mp he with ⟨he1, _⟩ | rfl
                · exact absurd hs.symm (hother e he1)
                · rfl
            · intro m hmm
              rcases List.mem_append.mp hmm with h | h
              · exact Or.inl h
              · simp only [List.mem_singleton] at h
                subst h
                exact Or.inr rfl
            · intro m hmm
              exact List.mem_append.mpr (Or.inl hmm)
  | close =>
    simp only [stepAction, stepActionP]
    cases hsc : rs.sc with
    | none => exact ⟨⟨hm, hnd, hfe, hfm, hpk⟩, Mono.refl _ _⟩
    | some p =>
      obtain ⟨sid, lbl⟩ := p
      exact ⟨⟨hm, ND_close hnd sid, fun x hx => hfe x (Reg.mem_close.mp hx).1, hfm,
        fun e he => hpk e (Reg.mem_close.mp he).1⟩, Nat.le_refl _, fun _ h => Or.inl h, fun _ h => h⟩
  | use => exact ⟨⟨hm, hnd, hfe, hfm, hpk⟩, Mono.refl _ _⟩
  | noop => exact ⟨⟨hm, hnd, hfe, hfm, hpk⟩, Mono.refl _ _⟩
  | reap at_ =>
    simp only [stepAction, stepActionP]
    have hsub : ∀ x ∈ (W.reg.drainExpired at_).1.entries, x ∈ W.reg.entries := fun x hx => by
      simp only [Reg.drainExpired, List.mem_filter] at hx; exact hx.1
    exact ⟨⟨hm, fun x hx y hy hs => hnd x (hsub x hx) y (hsub y hy) hs, fun x hx => hfe x (hsub x hx), hfm,
      fun e he => hpk e (hsub e he)⟩, Nat.le_refl _, fun _ h => Or.inl h, fun _ h => h⟩
  | shutdown =>
    simp only [stepAction, stepActionP]
    have hsub : ∀ x ∈ (W.reg.shutdown).1.entries, x ∈ W.reg.entries := fun x hx => by
      simp only [Reg.shutdown] at hx; cases hx
    exact ⟨⟨hm, fun x hx y hy hs => hnd x (hsub x hx) y (hsub y hy) hs, fun x hx => hfe x (hsub x hx), hfm,
      fun e he => hpk e (hsub e he)⟩, Nat.le_refl _, fun _ h => Or.inl h, fun _ h => h⟩

theorem run_WInv (cfg : Nat → Cfg) (N : Nat) (wk : Nat) (hwk : wk < N) (ident : Identity) (c : Nat) (swallow : Bool) (hid : NulFree ident)
    (script : List Action) : ∀ (W : World) (rs : RS), W.env.sidCtr + script.length ≤ 256 ^ 12 → WInv cfg N wk W →
      WInv cfg N wk (runScript (cfg wk) wk ident c swallow W rs script).1 ∧
      Mono wk W (runScript (cfg wk) wk ident c swallow W rs script).1 := by
  induction script with
  | nil => intro W rs _ h; exact ⟨h, Mono.refl _ _⟩
  | cons a as ih =>
    intro W rs hb h
    simp only [List.length_cons] at hb
    have h1 := step_WInv cfg N wk hwk ident c W rs a hid (by omega) h
    have hc := step_sidCtr (cfg wk) wk ident c W rs a
    have h2 := ih (stepAction (cfg wk) wk ident c W rs a).1 (stepAction (cfg wk) wk ident c W rs a).2.1 (by omega) h1.1
    have h3 := Mono.trans h1.2 h2.2
    simp only [runScript]
    generalize stepAction (cfg wk) wk ident c W rs a = st at h1 h2 h3
    obtain ⟨W', rs', o⟩ := st
    cases o with
    | failed e =>
      simp only
      cases swallow with
      | true => exact ⟨by simpa using h2.1, by simpa using h3⟩
      | false => exact ⟨by simpa using h1.1, by simpa using h1.2⟩
    | opened _ => exact ⟨by simpa using h2.1, by simpa using h3⟩
    | closed _ => exact ⟨by simpa using h2.1, by simpa using h3⟩
    | used _ => exact ⟨by simpa using h2.1, by simpa using h3⟩
    | noop => exact ⟨by simpa using h2.1, by simpa using h3⟩
    | env => exact ⟨by simpa using h2.1, by simpa using h3⟩

/-- removing entries keeps the world invariant -/
theorem WInv_shrink {cfg : Nat → Cfg} {N : Nat} {wk : Nat} {W : World} (r' : Reg) (cl : List Nat) (h : WInv cfg N wk W)
    (hsub : ∀ x ∈ r'.entries, x ∈ W.reg.entries) :
    WInv cfg N wk { W with reg := r', closedLog := cl } := by
  obtain ⟨hm, hnd, hfe, hfm, hpk⟩ := h
  exact ⟨hm, fun x hx y hy hs => hnd x (hsub x hx) y (hsub y hy) hs, fun x hx => hfe x (hsub x hx), hfm,
    fun e he => hpk e (hsub e he)⟩

/-! #### several workers -/

def NetInv (N : Nat) (n : Net) : Prop :=
  (∀ m ∈ n.mints, MintWF n.cfg N m) ∧ (∀ wk, ND (n.regs wk)) ∧
  (∀ wk, ∀ e ∈ (n.regs wk).entries, ∃ k, k < n.env.sidCtr ∧ e.sid = sidOfCtr k) ∧
  (∀ m ∈ n.mints, ∃ k, k < n.env.sidCtr ∧ m.sid = sidOfCtr k) ∧
  (∀ wk, ∀ e ∈ (n.regs wk).entries, ∀ m ∈ n.mints, m.wk = wk → m.sid = e.sid → e.pkey = pkey m.ident)

theorem NetInv.world {N : Nat} {n : Net} (h : NetInv N n) (wk : Nat) : WInv n.cfg N wk (n.world wk) :=
  ⟨h.1, h.2.1 wk, h.2.2.1 wk, h.2.2.2.1, h.2.2.2.2 wk⟩

theorem NetInv.put {N : Nat} {n : Net} (h : NetInv N n) (wk : Nat) (W : World) (hW : WInv n.cfg N wk W) (hmono : Mono wk (n.world wk) W) :
    NetInv N (n.put wk W) := by
  obtain ⟨hm, hnd, hfe, hfm, hpk⟩ := hW
  refine ⟨hm, fun wk' => ?_, fun wk' e he => ?_, hfm, fun wk' e he m hmm hwk hs => ?_⟩
  · simp only [Net.put]
    split
    · exact hnd
    · exact h.2.1 wk'
  · simp only [Net.put] at he ⊢
    split at he
    · exact hfe e he
    · obtain ⟨k, hk, hks⟩ := h.2.2.1 wk' e he
      exact ⟨k, Nat.lt_of_lt_of_le hk hmono.1, hks⟩
  · simp only [Net.put] at he hmm
    split at he
    · rename_i heq
      subst heq
      exact hpk e he m hmm hwk hs
    · rename_i hne
      rcases hmono.2.1 m hmm with hold | hnew
      · exact h.2.2.2.2 wk' e he m hold hwk hs
      · exact absurd (hwk.symm.trans hnew) hne

theorem serve_WInv {Wire : Type} [DecidableEq Wire] (C : Codec Wire) (cfg : Nat → Cfg) (N : Nat) (wk : Nat) (hwk : wk < N) (W : World) (rq : Req Wire)
    (script : List Action) (swallow : Bool) (hid : NulFree rq.ident) (hb : W.env.sidCtr + script.length ≤ 256 ^ 12)
    (h : WInv cfg N wk W) :
    WInv cfg N wk (serve C (cfg wk) wk W rq script swallow).1 ∧ Mono wk W (serve C (cfg wk) wk W rq script swallow).1 := by
  obtain ⟨r', cl, hr, _, hsub⟩ := resolve_world C (cfg wk) W rq
  have h1 : WInv cfg N wk { W with reg := r', closedLog := cl } := WInv_shrink r' cl h hsub
  have m1 : Mono wk W { W with reg := r', closedLog := cl } := ⟨Nat.le_refl _, fun _ hm => Or.inl hm, fun _ hm => hm⟩
  unfold serve
  generalize hres : resolve C (cfg wk) W rq = res at hr
  obtain ⟨W₁, r⟩ := res
  simp only at hr
  subst hr
  have key : ∀ rs₀ : RS,
      WInv cfg N wk (runScript (cfg wk) wk rq.ident rq.client swallow { W with reg := r', closedLog := cl } rs₀ script).1 ∧
      Mono wk W (runScript (cfg wk) wk rq.ident rq.client swallow { W with reg := r', closedLog := cl } rs₀ script).1 := by
    intro rs₀
    have := run_WInv cfg N wk hwk rq.ident rq.client swallow hid script { W with reg := r', closedLog := cl } rs₀ hb h1
    exact ⟨this.1, Mono.trans m1 this.2⟩
  cases r with
  | lost => exact ⟨h1, m1⟩
  | fresh => exact key _
  | resumed e0 => exact key _

/-- a method dispatched without the sticky machinery can only lose registry entries to the environment -/
theorem bypass_world (swallow : Bool) (script : List Action) : ∀ W : World,
    ∃ r' cl, (bypassRun swallow W script).1 = { W with reg := r', closedLog := cl } ∧ ∀ x ∈ r'.entries, x ∈ W.reg.entries := by
  induction script with
  | nil => intro W; exact ⟨W.reg, W.closedLog, rfl, fun _ h => h⟩
  | cons a as ih =>
    intro W
    have hstep : ∃ r' cl, (bypassStep W a).1 = { W with reg := r', closedLog := cl } ∧ ∀ x ∈ r'.entries, x ∈ W.reg.entries := by
      cases a with
      | «open» l t => exact ⟨W.reg, W.closedLog, rfl, fun _ h => h⟩
      | close => exact ⟨W.reg, W.closedLog, rfl, fun _ h => h⟩
      | use => exact ⟨W.reg, W.closedLog, rfl, fun _ h => h⟩
      | noop => exact ⟨W.reg, W.closedLog, rfl, fun _ h => h⟩
      | reap at_ => exact ⟨_, _, rfl, fun x hx => by simp only [Reg.drainExpired, List.mem_filter] at hx; exact hx.1⟩
      | shutdown => exact ⟨_, _, rfl, fun x hx => by simp only [Reg.shutdown] at hx; cases hx⟩
    obtain ⟨r1, cl1, h1, hs1⟩ := hstep
    obtain ⟨r2, cl2, h2, hs2⟩ := ih (bypassStep W a).1
    have hcomb : ∃ r' cl, (bypassRun swallow (bypassStep W a).1 as).1 = { W with reg := r', closedLog := cl } ∧
        ∀ x ∈ r'.entries, x ∈ W.reg.entries := by
      refine ⟨r2, cl2, ?_, fun x hx => hs1 x ?_⟩
      · rw [h2, h1]
      · have := hs2 x hx; rw [h1] at this; exact this
    simp only [bypassRun]
    generalize bypassStep W a = st at h1 hcomb
    obtain ⟨W', o⟩ := st
    simp only at h1
    cases o with
    | failed e =>
      simp only
      cases swallow with
      | true => simpa using hcomb
      | false => exact ⟨r1, cl1, by simpa using h1, hs1⟩
    | opened _ => simpa using hcomb
    | closed _ => simpa using hcomb
    | used _ => simpa using hcomb
    | noop => simpa using hcomb
    | env => simpa using hcomb

theorem handle_WInv {Wire : Type} [DecidableEq Wire] (C : Codec Wire) (cfg : Nat → Cfg) (N : Nat) (wk : Nat) (hwk : wk < N)
    (W : World) (rq : Req Wire) (script : List Action) (swallow : Bool) (hid : NulFree rq.ident)
    (hb : W.env.sidCtr + script.length ≤ 256 ^ 12) (h : WInv cfg N wk W) :
    WInv cfg N wk (handle C (cfg wk) wk W rq script swallow).1 ∧ Mono wk W (handle C (cfg wk) wk W rq script swallow).1 := by
  unfold handle
  split
  · obtain ⟨r', cl, hr, hsub⟩ := bypass_world swallow script W
    generalize bypassRun swallow W script = res at hr
    obtain ⟨W', log, err⟩ := res
    simp only at hr ⊢
    subst hr
    exact ⟨WInv_shrink r' cl h hsub, Nat.le_refl _, fun _ hm => Or.inl hm, fun _ hm => hm⟩
  · exact serve_WInv C cfg N wk hwk W rq script swallow hid hb h

/-- the paths of `_SessionResource.on_delete` -/
theorem onDelete_cases {Wire : Type} [DecidableEq Wire] (C : Codec Wire) (cfg : Cfg) (W : World) (rq : Req Wire) :
    (∃ w sidB sid ex e, rq.session = some w ∧ openSessionToken C w cfg.key (aad rq.ident) = .ok (sidB, sid, ex) ∧
        asciiReplaceUtf8 sidB = cfg.serverId ∧ W.reg.find sid = some e ∧ expired e W.env.now = false ∧
        (checkPrincipal = true → e.pkey = pkey rq.ident) ∧ (onDelete C cfg W rq).2 = deleteExit "hit" ∧
        (∀ x ∈ (onDelete C cfg W rq).1.reg.entries, x ∈ W.reg.entries ∧ x.sid ≠ sid)) ∨
    ((onDelete C cfg W rq).2 = deleteMiss ∧ (∀ x ∈ (onDelete C cfg W rq).1.reg.entries, x ∈ W.reg.entries) ∧
      ∀ w sidB sid ex e, rq.session = some w → openSessionToken C w cfg.key (aad rq.ident) = .ok (sidB, sid, ex) →
        asciiReplaceUtf8 sidB = cfg.serverId → W.reg.find sid = some e → expired e W.env.now = false → e.pkey = pkey rq.ident → False) := by
  have hmiss : ∀ nm, nm = "no_header" ∨ nm = "open_failed" ∨ nm = "server_id" ∨ nm = "registry_miss" → deleteExit nm = deleteMiss := by
    intro nm h
    rcases h with rfl | rfl | rfl | rfl <;> decide
  unfold onDelete
  cases hs : rq.session with
  | none =>
    right
    exact ⟨hmiss _ (Or.inl rfl), fun _ h => h, fun w _ _ _ _ h => by cases h⟩
  | some w =>
    simp only
    cases ho : openSessionToken C w cfg.key (aad rq.ident) with
    | error err =>
      cases err with
      | lost =>
        right
        refine ⟨hmiss _ (Or.inr (Or.inl rfl)), fun _ h => h, fun w' sidB sid ex e h1 h2 => ?_⟩
        cases h1
        rw [ho] at h2; cases h2
      | crash => exact absurd ho (open_never_crashes C w cfg.key (aad rq.ident))
    | ok res =>
      obtain ⟨sidB, sid, ex⟩ := res
      simp only
      by_cases hsid : asciiReplaceUtf8 sidB ≠ cfg.serverId
      · right
        rw [if_pos hsid]
        refine ⟨hmiss _ (Or.inr (Or.inr (Or.inl rfl))), fun _ h => h, fun w' sidB' sid' ex' e h1 h2 h3 => ?_⟩
        cases h1
        rw [ho] at h2; cases h2
        exact absurd h3 hsid
      · rw [if_neg hsid]
        have hsid' : asciiReplaceUtf8 sidB = cfg.serverId := Classical.byContradiction hsid
        rcases Reg.get_spec W.reg sid (pkey rq.ident) W.env.now with ⟨hf, hg⟩ | ⟨e, hf, hx, hg⟩ | ⟨e, hf, hx, hp, hg⟩ | ⟨e, hf, hx, hp, hg⟩
        · right
          rw [hg]
          refine ⟨hmiss _ (Or.inr (Or.inr (Or.inr rfl))), fun _ h => h, fun w' sidB' sid' ex' e h1 h2 _ h4 => ?_⟩
          cases h1; rw [ho] at h2; cases h2
          rw [hf] at h4; cases h4
        · right
          rw [hg]
          refine ⟨hmiss _ (Or.inr (Or.inr (Or.inr rfl))), fun _ h => (Reg.mem_remove.mp h).1, fun w' sidB' sid' ex' e' h1 h2 _ h4 h5 => ?_⟩
          cases h1; rw [ho] at h2; cases h2
          rw [hf] at h4; cases h4
          rw [hx] at h5; cases h5
        · right
          rw [hg]
          refine ⟨hmiss _ (Or.inr (Or.inr (Or.inr rfl))), fun _ h => h, fun w' sidB' sid' ex' e' h1 h2 _ h4 _ h6 => ?_⟩
          cases h1; rw [ho] at h2; cases h2
          rw [hf] at h4; cases h4
          exact hp.2 h6
        · left
          rw [hg]
          refine ⟨w, sidB, sid, ex, e, rfl, ho, hsid', hf, hx, fun hc => Classical.byContradiction fun hne => hp ⟨hc, hne⟩, rfl, ?_⟩
          intro x hx'
          exact Reg.mem_close.mp hx'

/-- the heart of C25: the middleware's acceptance conditions say exactly "minted here, for this identity, live" -/
theorem conds_iff_grants {Wire : Type} [DecidableEq Wire] (C : Codec Wire) (N : Nat) (n : Net) (wk : Nat) (hwk : wk < N) (id : Identity) (w : Wire) (e : Entry)
    (hinv : NetInv N n) (hg : GoodCfg n.cfg N) (hid : NulFree id) (hadm : Admissible C n.mints (serverKey n.cfg) w) :
    (∃ sidB sid ex, openSessionToken C w (n.cfg wk).key (aad id) = .ok (sidB, sid, ex) ∧
        asciiReplaceUtf8 sidB = (n.cfg wk).serverId ∧ (n.regs wk).find sid = some e ∧ expired e n.env.now = false ∧
        e.pkey = pkey id) ↔ Grants C n wk id w e := by
  constructor
  · rintro ⟨sidB, sid, ex, ho, hsrv, hf, hx, _⟩
    obtain ⟨nn, pt, hd, henc, hpf⟩ := open_ok C w _ _ _ ho
    obtain ⟨m, hm, v', hmt⟩ := known_sealed (hadm _ hd) _ _ _ _ _ rfl ⟨wk, rfl⟩
    have hwf := hinv.1 m hm
    obtain ⟨hmwk, htok, hsid, hkey, hok, hlen, hnf⟩ := hwf
    rw [htok] at hmt
    simp only [Tok.sealed.injEq] at hmt
    obtain ⟨hk, ha, hv, hn, hp⟩ := hmt
    -- same identity
    have hident : m.ident = id := aad_inj m.ident id
      (by cases hmi : m.ident <;> simp only [] <;> (rw [hmi] at hnf; exact hnf))
      (by cases hi : id <;> simp only [] <;> (rw [hi] at hid; exact hid)) ha
    -- the frame names the minting worker and the session
    have hfr := mint_frame (cfg := n.cfg) (N := N) ⟨hmwk, htok, hsid, hkey, hok, hlen, hnf⟩
    rw [hp, hpf] at hfr
    simp only [Except.ok.injEq, Prod.mk.injEq] at hfr
    obtain ⟨hsB, hss, _⟩ := hfr
    -- same worker
    have hsame : m.serverId = (n.cfg wk).serverId := by
      have := asciiReplace_eq_ascii sidB (n.cfg wk).serverId (hg.ascii wk hwk) hsrv
      rw [← hsB]; exact this
    have hwk' : m.wk = wk := hg.distinct _ _ hmwk hwk (by rw [← hsid]; exact hsame)
    have he := Reg.find_some hf
    refine ⟨m, hm, ?_, hwk', hident, ?_, he.1, ?_⟩
    · rw [htok, hk, ha, hn, hp]; exact henc.symm
    · rw [he.2, hss]
    · unfold expired at hx
      rw [expiryStrict_true] at hx
      simp only [if_true, decide_eq_false_iff_not, Nat.not_lt] at hx
      exact hx
  · rintro ⟨m, hm, hw, hwk', hident, hms, he, hnow⟩
    obtain ⟨hmwk, htok, hsid, hkey, hok, hlen, hnf⟩ := hinv.1 m hm
    have hfr := mint_frame (cfg := n.cfg) (N := N) ⟨hmwk, htok, hsid, hkey, hok, hlen, hnf⟩
    refine ⟨m.serverId, m.sid, m.expires, ?_, ?_, ?_, ?_, ?_⟩
    · unfold openSessionToken openSessionTokenP
      rw [hw, C.dec_enc]
      simp only
      rw [if_neg (fun h => h.2 rfl), htok]
      simp only [openBytes]
      rw [if_pos ⟨by rw [hkey, hwk'], by rw [hident], trivial⟩]
      exact hfr
    · rw [hsid, hwk']; exact asciiReplace_ascii _ (hg.ascii wk hwk)
    · rw [hms]; exact Reg.find_of_mem (hinv.2.1 wk) he
    · unfold expired
      rw [expiryStrict_true]
      simp only [if_true, decide_eq_false_iff_not, Nat.not_lt]
      exact hnow
    · rw [← hident]; exact hinv.2.2.2.2 wk e he m hm hwk' hms

/-- every reachable state satisfies the invariant -/
theorem reachable_inv {Wire : Type} [DecidableEq Wire] (C : Codec Wire) (cfg : Nat → Cfg) (N : Nat) (n : Net)
    (h : Reachable C cfg N n) : NetInv N n ∧ n.cfg = cfg := by
  induction h with
  | init env =>
    refine ⟨⟨(fun m hm => by cases hm), (fun wk x hx => by cases hx), (fun wk e he => by cases he), (fun m hm => by cases hm),
      (fun wk e he => by cases he)⟩, rfl⟩
  | @step n op _ hok ih =>
    obtain ⟨hinv, hcfg⟩ := ih
    cases op with
    | call wk rq script swallow =>
      obtain ⟨hwk, hid, hb⟩ := hok
      have hs := handle_WInv C n.cfg N wk hwk (n.world wk) rq script swallow hid hb (hinv.world wk)
      exact ⟨hinv.put wk _ hs.1 hs.2, hcfg⟩
    | delete wk rq =>
      simp only [Net.step]
      have hsub : ∀ x ∈ (onDelete C (n.cfg wk) (n.world wk) rq).1.reg.entries, x ∈ (n.world wk).reg.entries := by
        rcases onDelete_cases C (n.cfg wk) (n.world wk) rq with ⟨_, _, _, _, _, _, _, _, _, _, _, _, h⟩ | ⟨_, h, _⟩
        · exact fun x hx => (h x hx).1
        · exact h
      have henv : (onDelete C (n.cfg wk) (n.world wk) rq).1.env = n.env ∧ (onDelete C (n.cfg wk) (n.world wk) rq).1.mints = n.mints := by
        unfold onDelete
        cases rq.session with
        | none => exact ⟨rfl, rfl⟩
        | some w =>
          simp only
          cases openSessionToken C w (n.cfg wk).key (aad rq.ident) with
          | error err => cases err <;> exact ⟨rfl, rfl⟩
          | ok res =>
            obtain ⟨sidB, sid, ex⟩ := res
            simp only
            split
            · exact ⟨rfl, rfl⟩
            · generalize (n.world wk).reg.get sid (pkey rq.ident) (n.world wk).env.now = g
              obtain ⟨r', eo, cl⟩ := g
              cases eo <;> exact ⟨rfl, rfl⟩
      generalize onDelete C (n.cfg wk) (n.world wk) rq = res at hsub henv
      obtain ⟨W', st, hh⟩ := res
      simp only at hsub henv ⊢
      have hW : WInv n.cfg N wk W' := by
        obtain ⟨hm, hnd, hfe, hfm, hpk⟩ := hinv.world wk
        refine ⟨by rw [henv.2]; exact hm, fun x hx y hy hs => hnd x (hsub x hx) y (hsub y hy) hs, ?_, ?_, ?_⟩
        · intro x hx
          obtain ⟨k, hk, hks⟩ := hfe x (hsub x hx)
          exact ⟨k, by rw [henv.1]; exact hk, hks⟩
        · intro m hm'
          rw [henv.2] at hm'
          obtain ⟨k, hk, hks⟩ := hfm m hm'
          exact ⟨k, by rw [henv.1]; exact hk, hks⟩
        · intro e he m hm'
          rw [henv.2] at hm'
          exact hpk e (hsub e he) m hm'
      exact ⟨hinv.put wk W' hW ⟨by rw [henv.1]; exact Nat.le_refl _, fun m hm => Or.inl (by rw [henv.2] at hm; exact hm),
        fun m hm => by rw [henv.2]; exact hm⟩, hcfg⟩
    | tick dt => exact ⟨hinv, hcfg⟩
    | reap wk =>
      simp only [Net.step]
      refine ⟨hinv.put wk _ (WInv_shrink _ _ (hinv.world wk) ?_) ⟨Nat.le_refl _, fun _ h => Or.inl h, fun _ h => h⟩, hcfg⟩
      intro x hx
      simp only [Reg.drainExpired, List.mem_filter] at hx
      exact hx.1
    | shutdown wk =>
      simp only [Net.step]
      refine ⟨hinv.put wk _ (WInv_shrink _ _ (hinv.world wk) ?_) ⟨Nat.le_refl _, fun _ h => Or.inl h, fun _ h => h⟩, hcfg⟩
      intro x hx
      simp only [Reg.shutdown] at hx
      cases hx
    | setDraining wk b =>
      simp only [Net.step]
      exact ⟨hinv.put wk _ (WInv_shrink _ _ (hinv.world wk) (fun _ h => h)) ⟨Nat.le_refl _, fun _ h => Or.inl h, fun _ h => h⟩, hcfg⟩

/-! #### which paths skip the sticky middleware -/

theorem split_at_sep {α : Type} (x : α) (a b r t : List α) (ha : x ∉ a) (hb : x ∉ b) (h : a ++ x :: r = b ++ x :: t) : a = b := by
  induction a generalizing b with
  | nil =>
    cases b with
    | nil => rfl
    | cons y b' =>
      simp only [List.nil_append, List.cons_append, List.cons.injEq] at h
      exact absurd (by rw [← h.1]; simp) hb
  | cons y a' ih =>
    cases b with
    | nil =>
      simp only [List.nil_append, List.cons_append, List.cons.injEq] at h
      exact absurd (by rw [h.1]; simp) ha
    | cons z b' =>
      simp only [List.cons_append, List.cons.injEq] at h
      rw [h.1, ih b' (fun hm => ha (by simp [hm])) (fun hm => hb (by simp [hm])) h.2]

/-- a route `/{m}{sfx}` (`sfx` empty or starting with `/`) of a method `m ≠ s` is neither `/s` nor below `/s/` -/
theorem not_exempt_one (s m sfx : List Char) (hs : '/' ∉ s) (hm : '/' ∉ m) (hne : m ≠ s)
    (hsfx : sfx = [] ∨ ∃ t, sfx = '/' :: t) :
    (('/' :: m ++ sfx) == ('/' :: s) || (('/' :: s) ++ ['/']).isPrefixOf ('/' :: m ++ sfx)) = false := by
  have h1 : ('/' :: m ++ sfx) ≠ ('/' :: s) := by
    intro h
    simp only [List.cons_append, List.cons.injEq, true_and] at h
    rcases hsfx with rfl | ⟨t, rfl⟩
    · exact hne (by simpa using h)
    · exact hs (by rw [← h]; simp)
  have h2 : ¬ (('/' :: s) ++ ['/']) <+: ('/' :: m ++ sfx) := by
    rintro ⟨r, hr⟩
    simp only [List.cons_append, List.cons.injEq, true_and, List.append_assoc, List.nil_append] at hr
    rcases hsfx with rfl | ⟨t, rfl⟩
    · exact hm (by rw [List.append_nil] at hr; rw [← hr]; simp)
    · exact hne (split_at_sep '/' s m r t hs hm hr).symm
  have h2' : (('/' :: s) ++ ['/']).isPrefixOf ('/' :: m ++ sfx) = false := by
    cases hp : (('/' :: s) ++ ['/']).isPrefixOf ('/' :: m ++ sfx) with
    | false => rfl
    | true => exact absurd (List.isPrefixOf_iff_prefix.mp hp) h2
  rw [h2']
  have h1' : (('/' :: m ++ sfx) == ('/' :: s)) = false := by
    cases hb : (('/' :: m ++ sfx) == ('/' :: s)) with
    | false => rfl
    | true => exact absurd (by simpa using hb) h1
  rw [h1']
  rfl

end Aux

open Aux

/-! ### the obligations -/

/-- **Frame round trip.** What `_seal_session_token` packs, `_open_session_token` parses back — for every value the
packing accepts (`struct` ranges, server id within its length guard, a session id of `_SESSION_ID_LEN` bytes). -/
theorem sess_frame_rt (created expires : Nat) (serverId sid : Bytes) (hc : created < 2 ^ 64)
    (hl : serverId.length ≤ Sticky.maxServerIdLen) (hs : sid.length = Sticky.sessionIdLen) (he : expires < 2 ^ 64) :
    parseFrame (packFrame created serverId sid expires) = .ok (serverId, sid, expires) := by
  have hl' : serverId.length < 256 ^ 1 := by
    have : Sticky.maxServerIdLen = 255 := by decide
    omega
  exact parseFrame_packFrame created expires serverId sid (by omega) hl' hs (by omega)

/-- **Totality of opening.** Whatever is presented — any text, any envelope, any plaintext inside a genuine envelope —
opening answers a triple or `SessionLostError`; no other exception (`struct.error`, `IndexError`, …) can escape. -/
theorem sess_open_total {Wire : Type} [DecidableEq Wire] (C : Codec Wire) (w : Wire) (key : Nat) (a : Bytes) :
    (∃ r, openSessionToken C w key a = .ok r) ∨ openSessionToken C w key a = .error .lost := by
  cases h : openSessionToken C w key a with
  | ok r => exact Or.inl ⟨r, rfl⟩
  | error e =>
    cases e with
    | lost => exact Or.inr rfl
    | crash => exact absurd h (open_never_crashes C w key a)

/-- **Only the minted text opens**: a value that opens is the canonical encoding of its envelope, whatever the lenient
decoder accepts — so two different header values never open to the same envelope. -/
theorem wire_canonical {Wire : Type} [DecidableEq Wire] (C : Codec Wire) (w w' : Wire) (key : Nat) (a : Bytes)
    (r r' : Bytes × Bytes × Nat) (h : openSessionToken C w key a = .ok r) (h' : openSessionToken C w' key a = .ok r')
    (hsame : C.dec w = C.dec w') : w = w' := by
  obtain ⟨n, pt, hd, he, _⟩ := open_ok C w key a r h
  obtain ⟨n', pt', hd', he', _⟩ := open_ok C w' key a r' h'
  rw [hd, hd'] at hsame
  cases hsame
  rw [← he, ← he']

/-- **Identity binding of the AAD**: different identities (NUL-free domains) never share an AAD. -/
theorem aad_injective (i j : Identity) (hi : NulFree i) (hj : NulFree j) (h : aad i = aad j) : i = j :=
  aad_inj i j (by cases i <;> exact hi) (by cases j <;> exact hj) h

/-- **Dispatch with a session ⇒ minted here, for this identity, and live.** In every reachable state of every history
over any number of workers: if presenting a header value makes worker `wk` bind a session to the request, that value is
byte-for-byte a token minted by `wk` itself for the presenting identity, and the session is in `wk`'s registry, unexpired. -/
theorem C25_dispatch {Wire : Type} [DecidableEq Wire] (C : Codec Wire) (cfg : Nat → Cfg) (N : Nat) (n : Net) (wk : Nat) (rq : Req Wire) (e : Entry)
    (hreach : Reachable C cfg N n) (hg : GoodCfg cfg N) (hwk : wk < N) (hid : NulFree rq.ident)
    (hadm : ∀ w, rq.session = some w → Admissible C n.mints (serverKey cfg) w)
    (h : present C n wk rq = .resumed e) :
    ∃ w, rq.session = some w ∧ Grants C n wk rq.ident w e := by
  obtain ⟨hinv, hcfg⟩ := reachable_inv C cfg N n hreach
  subst hcfg
  obtain ⟨w, sidB, sid, ex, hs, ho, hsrv, hf, hx, hp, _⟩ := resolve_resumed_inv C (n.cfg wk) (n.world wk) rq e h
  exact ⟨w, hs, (conds_iff_grants C N n wk hwk rq.ident w e hinv hg hid (hadm w hs)).mp
    ⟨sidB, sid, ex, ho, hsrv checkServerId_true, hf, hx, hp checkPrincipal_true⟩⟩

/-- **The legitimate presentation is served** (positive control of the above): a live token presented to its minting worker
under the opening identity resolves to its session. -/
theorem C25_access {Wire : Type} [DecidableEq Wire] (C : Codec Wire) (cfg : Nat → Cfg) (N : Nat) (n : Net) (wk : Nat) (rq : Req Wire)
    (w : Wire) (e : Entry) (hreach : Reachable C cfg N n) (hg : GoodCfg cfg N) (hwk : wk < N) (hs : rq.session = some w)
    (hgr : Grants C n wk rq.ident w e) : present C n wk rq = .resumed e := by
  obtain ⟨hinv, hcfg⟩ := reachable_inv C cfg N n hreach
  subst hcfg
  have hgr' := hgr
  obtain ⟨m, hm, hw, _, hident, _⟩ := hgr'
  have hid : NulFree rq.ident := by rw [← hident]; exact (hinv.1 m hm).2.2.2.2.2.2
  have hadm : Admissible C n.mints (serverKey n.cfg) w := by
    intro t ht
    rw [hw, C.dec_enc] at ht
    cases ht
    exact Known.minted hm
  obtain ⟨sidB, sid, ex, ho, hsrv, hf, hx, hp⟩ := (conds_iff_grants C N n wk hwk rq.ident w e hinv hg hid hadm).mpr hgr
  unfold present
  rw [resolve_resumed_of C (n.cfg wk) (n.world wk) rq w sidB sid ex e hs ho hsrv hf hx hp]

/-- **Every other presentation is `session_lost`, without dispatch.** If the presented value is not a live token minted by
this worker for this identity (another worker, another identity, tampered or re-encoded, closed, evicted, expired, forged
under a foreign key, garbage), the response is the session-lost error, carries no session headers, the method body did not
run (empty log, whatever the script), and nothing was minted or added to the registry. -/
theorem C25_lost {Wire : Type} [DecidableEq Wire] (C : Codec Wire) (cfg : Nat → Cfg) (N : Nat) (n : Net) (wk : Nat) (rq : Req Wire) (w : Wire)
    (script : List Action) (swallow : Bool)
    (hreach : Reachable C cfg N n) (hg : GoodCfg cfg N) (hwk : wk < N) (hid : NulFree rq.ident) (hs : rq.session = some w)
    (hadm : Admissible C n.mints (serverKey cfg) w) (hno : ¬ ∃ e, Grants C n wk rq.ident w e) :
    (serve C (n.cfg wk) wk (n.world wk) rq script swallow).2.outcome = .lost ∧
    (serve C (n.cfg wk) wk (n.world wk) rq script swallow).2.log = [] ∧
    (serve C (n.cfg wk) wk (n.world wk) rq script swallow).2.session = none ∧
    (serve C (n.cfg wk) wk (n.world wk) rq script swallow).2.close = false ∧
    (serve C (n.cfg wk) wk (n.world wk) rq script swallow).1.mints = n.mints ∧
    ∀ x ∈ (serve C (n.cfg wk) wk (n.world wk) rq script swallow).1.reg.entries, x ∈ (n.regs wk).entries := by
  obtain ⟨r', cl, hr, _, hsub⟩ := resolve_world C (n.cfg wk) (n.world wk) rq
  have hres : (resolve C (n.cfg wk) (n.world wk) rq).2 = .lost := by
    cases hh : (resolve C (n.cfg wk) (n.world wk) rq).2 with
    | lost => rfl
    | fresh =>
      have := resolve_fresh C (n.cfg wk) (n.world wk) rq hh
      rw [hs] at this; cases this
    | resumed e =>
      exfalso
      obtain ⟨w', hs', hgr⟩ := C25_dispatch C cfg N n wk rq e hreach hg hwk hid (fun w' hw' => by rw [hs] at hw'; cases hw'; exact hadm) hh
      rw [hs] at hs'; cases hs'
      exact hno ⟨e, hgr⟩
  unfold serve
  generalize resolve C (n.cfg wk) (n.world wk) rq = res at hr hres
  obtain ⟨W₁, r⟩ := res
  simp only at hr hres
  subst hr hres
  exact ⟨rfl, rfl, rfl, rfl, rfl, hsub⟩

/-- **DELETE: 204 iff live and owned.** -/
theorem C25_delete {Wire : Type} [DecidableEq Wire] (C : Codec Wire) (cfg : Nat → Cfg) (N : Nat) (n : Net) (wk : Nat) (rq : Req Wire)
    (hreach : Reachable C cfg N n) (hg : GoodCfg cfg N) (hwk : wk < N) (hid : NulFree rq.ident)
    (hadm : ∀ w, rq.session = some w → Admissible C n.mints (serverKey cfg) w) :
    (deleteResp C n wk rq).1 = 204 ↔ ∃ w e, rq.session = some w ∧ Grants C n wk rq.ident w e := by
  obtain ⟨hinv, hcfg⟩ := reachable_inv C cfg N n hreach
  subst hcfg
  have hhit : deleteExit "hit" = deleteHit := by decide
  unfold deleteResp
  rcases onDelete_cases C (n.cfg wk) (n.world wk) rq with ⟨w, sidB, sid, ex, e, hs, ho, hsrv, hf, hx, hp, hst, _⟩ | ⟨hst, _, hnone⟩
  · rw [hst, hhit]
    refine ⟨fun _ => ⟨w, e, hs, ?_⟩, fun _ => rfl⟩
    exact (conds_iff_grants C N n wk hwk rq.ident w e hinv hg hid (hadm w hs)).mp ⟨sidB, sid, ex, ho, hsrv, hf, hx, hp checkPrincipal_true⟩
  · rw [hst]
    refine ⟨(fun h => by cases h), (fun ⟨w, e, hs, hgr⟩ => ?_)⟩
    obtain ⟨sidB, sid, ex, ho, hsrv, hf, hx, hp⟩ := (conds_iff_grants C N n wk hwk rq.ident w e hinv hg hid (hadm w hs)).mpr hgr
    exact (hnone w sidB sid ex e hs ho hsrv hf hx hp).elim

/-- **DELETE uniformity.** There are exactly two answers: `204 + VGI-Session-Close` for a live owned session, and ONE other
answer (`200`, no session header) for everything else — missing header, garbage, tampered, foreign key, other identity,
other worker, closed, evicted, expired are indistinguishable. -/
theorem C25_delete_uniform {Wire : Type} [DecidableEq Wire] (C : Codec Wire) (n : Net) (wk : Nat) (rq : Req Wire) :
    deleteResp C n wk rq = deleteHit ∨ deleteResp C n wk rq = deleteMiss := by
  have hhit : deleteExit "hit" = deleteHit := by decide
  unfold deleteResp
  rcases onDelete_cases C (n.cfg wk) (n.world wk) rq with ⟨_, _, _, _, _, _, _, _, _, _, _, hst, _⟩ | ⟨hst, _, _⟩
  · exact Or.inl (by rw [hst, hhit])
  · exact Or.inr hst

/-- **Expiry is open time + TTL.** A successful `open_session(state, ttl)` at time `now` registers the session with
`expires_at = now + ttl` — the per-call TTL whenever one is given (also `0`: the session is expired as soon as the clock
moves; also a negative one: born expired), the worker's default only for `ttl=None` — and seals the same instant into the
token.  Together with `C25_dispatch` ("… and `now ≤ expires`"): past that instant the token no longer gives access. -/
theorem C25_expiry (cfg : Cfg) (wk : Nat) (ident : Identity) (c : Nat) (W : World) (rs : RS) (l : Nat) (ttl : Option Int) (sid : Bytes)
    (h : (stepAction cfg wk ident c W rs (.open l ttl)).2.2 = .opened sid) :
    ∃ e ∈ (stepAction cfg wk ident c W rs (.open l ttl)).1.reg.entries, e.sid = sid ∧ e.state = l ∧
      (e.expires : Int) = (W.env.now : Int) + ttl.getD (cfg.defaultTtl : Int) ∧
      ∃ m ∈ (stepAction cfg wk ident c W rs (.open l ttl)).1.mints, m.sid = sid ∧ m.expires = e.expires := by
  have hshape : Sticky.ttlDefaultOnFalsy = false := by decide
  simp only [stepAction, stepActionP] at h ⊢
  by_cases c1 : (!rs.accept) = true
  · rw [if_pos c1] at h; cases h
  · rw [if_neg c1] at h ⊢
    by_cases c2 : rs.sc.isSome = true
    · rw [if_pos c2] at h; cases h
    · rw [if_neg c2] at h ⊢
      by_cases c3 : (Sticky.drainCheckFirst && W.reg.draining) = true
      · rw [if_pos c3] at h; cases h
      · rw [if_neg c3] at h ⊢
        by_cases hseal : (!openSealOk cfg W.env.now ttl) = true
        · rw [if_pos hseal] at h; cases h
        · rw [if_neg hseal] at h
          have hs : openSealOk cfg W.env.now ttl = true := by simpa using hseal
          have hnn := (openSealOk_seal hs).2
          rw [if_neg hseal]
          simp only [ActOut.opened.injEq] at h
          refine ⟨⟨sidOfCtr W.env.sidCtr, expiresOf W.env.now ttl cfg.defaultTtl, pkey ident, l, c⟩,
            Reg.mem_insert.mpr (Or.inr rfl), h, rfl, ?_, ?_⟩
          rotate_left
          · refine ⟨_, List.mem_append.mpr (Or.inr (List.mem_singleton.mpr rfl)), ?_, ?_⟩
            · exact h
            · rfl
          have heff : effTtl ttl cfg.defaultTtl = ttl.getD (cfg.defaultTtl : Int) := by
            unfold effTtl
            cases ttl with
            | none => rfl
            | some t => simp [hshape]
          rw [← heff]
          simp only [expiresOf]
          omega

/-- the three RPC routes of a method, relative to the app prefix -/
def rpcPaths (m : List Char) : List (List Char) := ['/' :: m, '/' :: m ++ "/init".toList, '/' :: m ++ "/exchange".toList]

/-- **Every RPC route goes through the sticky middleware** — unless the method is literally named like a framework endpoint
(`health`, `__session__`).  A method whose name merely *starts with* such a name (`healthcheck`, `health_report`, …) is not
exempt, so `C25_dispatch` / `C25_lost` (stated for `serve`) govern it: the app's handling of the request IS `serve`. -/
theorem C25_routes {Wire : Type} [DecidableEq Wire] (C : Codec Wire) (cfg : Cfg) (wk : Nat) (W : World) (rq : Req Wire)
    (script : List Action) (swallow : Bool) (m : List Char) (hslash : '/' ∉ m)
    (h1 : m ≠ "health".toList) (h2 : m ≠ "__session__".toList) (hp : rq.path ∈ rpcPaths m) :
    exemptPath rq.path = false ∧ handle C cfg wk W rq script swallow = serve C cfg wk W rq script swallow := by
  have hsfx : ∃ sfx, rq.path = '/' :: m ++ sfx ∧ (sfx = [] ∨ ∃ t, sfx = '/' :: t) := by
    simp only [rpcPaths, List.mem_cons, List.not_mem_nil, or_false] at hp
    rcases hp with h | h | h
    · exact ⟨[], by simpa using h, Or.inl rfl⟩
    · exact ⟨"/init".toList, h, Or.inr ⟨_, rfl⟩⟩
    · exact ⟨"/exchange".toList, h, Or.inr ⟨_, rfl⟩⟩
  obtain ⟨sfx, hpath, hs⟩ := hsfx
  have hex : exemptPath rq.path = false := by
    have e1 := not_exempt_one "health".toList m sfx (by decide) hslash h1 hs
    have e2 := not_exempt_one "__session__".toList m sfx (by decide) hslash h2 hs
    unfold exemptPath
    rw [show Sticky.exemptSuffixes = ["/health", "/__session__"] from by decide,
      show Sticky.exemptCompare = "eq_or_subtree" from by decide, hpath]
    simp only [List.any_cons, List.any_nil, Bool.or_false]
    have t1 : ("/health" : String).toList = '/' :: "health".toList := rfl
    have t2 : ("/__session__" : String).toList = '/' :: "__session__".toList := rfl
    simp only [t1, t2, beq_self_eq_true, if_true]
    rw [e1, e2]
    rfl
  exact ⟨hex, by unfold handle; rw [hex]; simp⟩

/-! ### non-vacuity: the hypotheses above are satisfiable, and by a state in which a token does grant access -/
namespace NonVacuity

abbrev DWire := Tok × Bool
def codec : Codec DWire := { enc := fun t => (t, true), dec := fun w => some w.1, dec_enc := fun _ => rfl }
/-- three workers `"a"`, `"aa"`, `"aaa"`, the first two sharing a key -/
def cfg : Nat → Cfg := fun i => ⟨List.replicate (i + 1) 97, i / 2, 300⟩
def alice : Identity := .user [100] [97, 108, 105, 99, 101]

theorem goodCfg : GoodCfg cfg 3 := by
  refine ⟨fun i _ b hb => ?_, fun i j _ _ h => ?_⟩
  · simp only [cfg, List.mem_replicate] at hb
    rw [hb.2]; decide
  · have := congrArg List.length h
    simpa [cfg] using this

/-- worker 1 opens a session for alice -/
def opened : Net :=
  (Net.step codec { cfg := cfg, regs := fun _ => {}, env := ⟨1000, 0, 0⟩ }
    (.call 1 { ident := alice, accept := some "true".toList } [.open 7 none] false)).1

theorem opened_reachable : Reachable codec cfg 3 opened :=
  Reachable.step _ (Reachable.init _) ⟨by decide, by simp [NulFree, alice], by decide⟩

/-- … and the minted token does grant access to that session on worker 1 under alice (so `Grants` is inhabited) -/
example : ∃ w e, Grants codec opened 1 alice w e := by
  refine ⟨codec.enc (Tok.sealed 0 (aad alice) Sticky.tokenVersion 0 (packFrame 1000 (cfg 1).serverId (sidOfCtr 0) 1300)),
    ⟨sidOfCtr 0, 1300, pkey alice, 7, 0⟩, ?_⟩
  refine ⟨⟨1, (cfg 1).serverId, 0, alice, sidOfCtr 0, 1000, 1300, 0, _, 0⟩, by decide, rfl, rfl, rfl, rfl, by decide, by decide⟩

end NonVacuity

end VgiVerif.C25
