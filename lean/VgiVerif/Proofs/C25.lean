import VgiVerif.Model.C25
namespace VgiVerif.C25
end VgiVerif.C25
