import VgiVerif.Spec.C07
import VgiVerif.Model.C07
import VgiVerif.Lemmas.LogWire
import VgiVerif.Proofs.Engine
/-
C07 — proofs.  For ALL exceptions (class name, text, declared kind incl. a non-`str` `error_kind`), all traceback
extras, all server / request ids:
  * the error batch the server writes is raised by the client as RpcError(type = class name, message = "Cls: text",
    kind = declared kind when a str, else none);
  * for ANY peer error batch the client takes the kind from the top-level key first, the `log_extra` fallback second;
  * HTTP: implementation raised ⇔ 200 + marker, success ⇒ no marker, at every dispatch site;
  * Engine corollaries: at every dispatch site (unary, init, first / later step, after logging) and on every
    transport the client's terminal event is exactly that faithful error.
-/
namespace VgiVerif.C07
open VgiVerif.Engine VgiVerif.LogWire VgiVerif.Gen.LogWire

namespace Aux

theorem decode_valid (r : Bool) (s : Str) : decode r (validMd s) = .ok s := by
  simp [decode, validMd]

/-- the metadata of an error batch, spelled out -/
theorem errorBatch_md (e : PyExn) (tb : TbInfo) (sid : Option Str) (rid : Str) :
    ∃ md, errorBatch e tb sid rid = ⟨0, some md⟩ ∧
      md.level = some (validMd exceptionLevel) ∧
      md.message = some (validMd (e.className ++ summarySep ++ e.text)) ∧
      (∃ kvs, md.extra = some (validMd [], .ok (.obj kvs)) ∧
        lookup excTypeKey kvs = some (.str e.className) ∧
        lookup tracebackKey kvs = some (.str tb.traceback) ∧
        lookup kindExtraKey kvs = (e.declaredKind.map Json.str)) ∧
      md.errorKind = e.declaredKind.map validMd ∧
      md.requestId = (if rid = [] then none else some (validMd rid)) := by
  obtain ⟨t, c, x, f⟩ := tb
  refine ⟨_, rfl, rfl, rfl, ?_, ?_, rfl⟩
  · refine ⟨(fromException e ⟨t, c, x, f⟩).extra, ?_, ?_, ?_, ?_⟩
    · simp [fromException]
    · simp [fromException, lookup]
    · simp [fromException, lookup]
    · cases c <;> cases x <;> cases hk : e.kindAttr <;>
        simp [fromException, lookup, PyExn.declaredKind, hk]
  · cases c <;> cases x <;> cases hk : e.kindAttr <;>
      simp [fromException, lookup, PyExn.declaredKind, hk]

end Aux

open Aux

/-- **the error mapping, exactly**: whatever the exception, the client raises RpcError with the class name, the
summary "Cls: text", the server's traceback, the request id, and the declared kind -/
theorem roundTrip_eq (e : PyExn) (tb : TbInfo) (sid : Option Str) (rid : Str) :
    roundTrip e tb sid rid =
      .raiseRpc ⟨e.className, e.className ++ summarySep ++ e.text, tb.traceback, rid, e.declaredKind⟩ := by
  obtain ⟨md, hb, hl, hm, ⟨kvs, hx, h1, h2, h3⟩, hk, hr⟩ := errorBatch_md e tb sid rid
  unfold roundTrip clientRaise
  rw [hb, dispatch_closed]
  have hrid : ridOf md = rid := by
    unfold ridOf; rw [hr]; by_cases h : rid = [] <;> simp [h, validMd]
  have hkind : kindOf md = e.declaredKind := by
    unfold kindOf
    rw [hk, hx]
    cases hd : e.declaredKind with
    | none => simp [hd] at h3; simp [extraObj, h3]
    | some k => simp [validMd]
  simp [hl, hm, hx, extraObj, h1, h2, pyStr, validMd, hrid, hkind]

def toSpecRaised (e : PyExn) : Spec.Raised := ⟨e.className, e.text, e.declaredKind⟩
def toSpecError (r : RpcErr) : Spec.ClientError := ⟨r.type, r.message, r.kind⟩

/-- **C07 (type, message, kind)** for every exception class name, every text (empty, unicode, any length, newlines,
NULs — a text is any list of code points), every `error_kind` attribute (absent, a str, not a str) -/
theorem C07_faithful (e : PyExn) (tb : TbInfo) (sid : Option Str) (rid : Str) :
    ∃ r, roundTrip e tb sid rid = .raiseRpc r ∧ Spec.Faithful (toSpecRaised e) (toSpecError r) := by
  refine ⟨_, roundTrip_eq e tb sid rid, ⟨rfl, ?_, rfl⟩⟩
  exact ⟨e.className ++ summarySep, [], by simp [toSpecError, toSpecRaised]⟩

theorem C07_type_msg (e : PyExn) (tb : TbInfo) (sid : Option Str) (rid : Str) :
    ∃ r, roundTrip e tb sid rid = .raiseRpc r ∧ r.type = e.className ∧
      r.message = e.className ++ ": ".toList ++ e.text := by
  refine ⟨_, roundTrip_eq e tb sid rid, rfl, ?_⟩
  have : summarySep = ": ".toList := by decide
  simp [this]

/-- the kind is the declared kind when it is a `str`; a non-`str` `error_kind` attribute and a missing one expose none -/
theorem C07_kind (e : PyExn) (tb : TbInfo) (sid : Option Str) (rid : Str) :
    ∃ r, roundTrip e tb sid rid = .raiseRpc r ∧
      r.kind = (match e.kindAttr with | .str k => some k | .other => none | .absent => none) := by
  refine ⟨_, roundTrip_eq e tb sid rid, ?_⟩
  cases h : e.kindAttr <;> simp [PyExn.declaredKind, h]

/-- non-vacuity: a typed framework error, an exception whose `error_kind` is not a `str` -/
example : roundTrip ⟨"SessionLostError".toList, "gone".toList, .str "session_lost".toList⟩ ⟨[], none, none, .arr []⟩ none []
    = .raiseRpc ⟨"SessionLostError".toList, "SessionLostError: gone".toList, [], [], some "session_lost".toList⟩ := by
  rw [roundTrip_eq]; decide
example : ∃ r, roundTrip ⟨"Odd".toList, [], .other⟩ ⟨[], none, none, .arr []⟩ none [] = .raiseRpc r ∧ r.kind = none :=
  ⟨_, roundTrip_eq _ _ _ _, rfl⟩

/-- **client side, any peer**: for every EXCEPTION batch that the client raises as an RpcError, the kind is the
top-level `vgi_rpc.error_kind` value when that key is present, else the `error_kind` of `log_extra` when it is a
string, else none (WIRE_PROTOCOL §8: top-level key authoritative, log_extra mirrors it) -/
theorem C07_client_kind (rows : Nat) (md : Meta) (r : RpcErr)
    (h : clientRaise ⟨rows, some md⟩ = .raiseRpc r) :
    r.kind = (match md.errorKind with
      | some kv => some kv.text
      | none => match md.extra with
        | some (_, .ok (.obj kvs)) => (match lookup kindExtraKey kvs with | some (.str s) => some s | _ => none)
        | _ => none) := by
  unfold clientRaise at h
  rw [dispatch_closed] at h
  have hk : r.kind = kindOf md := by
    split at h
    · cases h
    · split at h
      · split at h
        · cases h; rfl
        · split at h <;> cases h
      · cases h
  rw [hk]
  unfold kindOf
  rcases md.errorKind with _ | kv
  · rcases md.extra with _ | ⟨v, p⟩
    · simp [extraObj, lookup]
    · rcases p with j | _ | _ | _
      · cases j <;> first | rfl | simp [extraObj, lookup]
      all_goals simp [extraObj, lookup]
  · rfl

/-! ## HTTP -/

/-- **C07 (HTTP)**: at every dispatch site, the implementation raised ⇔ the response is 200 with the marker header; a
successful response has status 200 and never carries the marker -/
theorem C07_http (s : Site) (raised : Bool) :
    Spec.HttpFaithful raised ⟨(serveHttp s raised).status, (serveHttp s raised).marker⟩ ∧
    (((serveHttp s raised).status = 200 ∧ (serveHttp s raised).marker = true) ↔ raised = true) ∧
    (raised = false → (serveHttp s raised).status = 200) := by
  cases s <;> cases raised <;> simp [Spec.HttpFaithful, serveHttp, setHttpStatus, statusAt, okStatus, internalServerError,
    translatedStatus, unaryRaiseStatus, initRaiseStatus, producerRaiseStatus, exchangeRaiseStatus]

/-- **C07 under response caps**: whatever caps are configured and however large the error payload (a 100 kB exception
text, a long traceback), the unary HTTP body carries the error the implementation raised — it is never swapped for a
cap error; only successful results are subject to the hard cap -/
theorem C07_unary_body_faithful (overCap : Bool) : unaryBody true overCap = .implError := by
  cases overCap <;> decide

theorem unaryBody_success (overCap : Bool) : unaryBody false overCap = (if overCap then .capError else .result) := by
  cases overCap <;> decide

/-- `_set_http_status` itself: the marker is set exactly for status 500, which is rewritten to 200; every other
status passes through unmarked -/
theorem setHttpStatus_spec (code : Nat) :
    (setHttpStatus code).marker = decide (code = 500) ∧
    (setHttpStatus code).status = (if code = 500 then 200 else code) := by
  unfold setHttpStatus
  by_cases h : code = 500 <;> simp [h]

/-- the extractor recognised every code shape the HTTP model relies on -/
theorem http_shapes_recognised :
    setHttpStatusRecognised = true ∧ resourceLayerRecognised = true ∧ summaryRecognised = true ∧
    extraShapeRecognised = true ∧ addToMetadataRecognised = true ∧
    VgiVerif.Gen.LogDispatch.exceptionBranchRecognised = true ∧ VgiVerif.Gen.LogDispatch.prologueRecognised = true ∧
    VgiVerif.Gen.LogDispatch.decodeSitesRecognised = true := by decide

/-! ## Engine corollaries: every dispatch site, every transport -/

def ofPy (e : PyExn) : Exn := ⟨e.className, e.text, e.declaredKind⟩

/-- the Engine's error event IS the RpcError of the codec round trip -/
theorem errEv_justified (e : PyExn) (tb : TbInfo) (sid : Option Str) (rid : Str) :
    ∃ r, roundTrip e tb sid rid = .raiseRpc r ∧ errEv (ofPy e) = .error r.type r.message r.kind := by
  refine ⟨_, roundTrip_eq e tb sid rid, ?_⟩
  have : summarySep = ": ".toList := by decide
  simp [errEv, ofPy, this]

def AllEmit (pre : List Step) : Prop := ∀ s ∈ pre, ∃ b, s.act = .emit b

/-- only logs and data batches -/
def Quiet (evs : List Ev) : Prop := restOf evs = []

theorem quiet_lg (ls : List Log) : Quiet (Sem.lg ls) := by
  induction ls with
  | nil => rfl
  | cons l r ih => simpa [Quiet, Sem.lg, restOf] using ih

theorem quiet_append {a b : List Ev} (ha : Quiet a) (hb : Quiet b) : Quiet (a ++ b) := by
  simp only [Quiet] at *; simp [Engine.Aux.restOf_append, ha, hb]

theorem quiet_data (b : Batch) : Quiet [.data b] := rfl

/-- producer spec (either `keep`): a step that raises `e` after any number of emitting steps ends the stream with
exactly `errEv e`, preceded only by logs and data -/
theorem sem_producer_raise (keep : Bool) (pre : List Step) (s : Step) (rest : List Step) (e : Exn)
    (hpre : AllEmit pre) (hs : s.act = .raise e) :
    ∃ before, Sem.producer keep (pre ++ s :: rest) = before ++ [errEv e] ∧ Quiet before := by
  induction pre with
  | nil =>
    refine ⟨Sem.failLogs keep s, by simp [Sem.producer, hs], ?_⟩
    simpa [Sem.failLogs] using quiet_lg s.logs
  | cons p r ih =>
    obtain ⟨b, hb⟩ := hpre p (by simp)
    obtain ⟨bef, h1, h2⟩ := ih (fun x hx => hpre x (by simp [hx]))
    refine ⟨Sem.lg p.logs ++ [.data b] ++ Sem.lg p.post ++ bef, by simp [Sem.producer, hb, h1], ?_⟩
    exact quiet_append (quiet_append (quiet_append (quiet_lg _) (quiet_data b)) (quiet_lg _)) h2

theorem sem_exchange_raise (keep : Bool) (pre : List Step) (s : Step) (rest : List Step) (e : Exn)
    (hpre : AllEmit pre) (hs : s.act = .raise e) :
    ∃ before, Sem.exchange keep (pre ++ s :: rest) = before ++ [errEv e] ∧ Quiet before := by
  induction pre with
  | nil =>
    refine ⟨Sem.failLogs keep s, by simp [Sem.exchange, hs], ?_⟩
    simpa [Sem.failLogs] using quiet_lg s.logs
  | cons p r ih =>
    obtain ⟨b, hb⟩ := hpre p (by simp)
    obtain ⟨bef, h1, h2⟩ := ih (fun x hx => hpre x (by simp [hx]))
    refine ⟨Sem.lg p.logs ++ [.data b] ++ Sem.lg p.post ++ bef, by simp [Sem.exchange, hb, h1], ?_⟩
    exact quiet_append (quiet_append (quiet_append (quiet_lg _) (quiet_data b)) (quiet_lg _)) h2

/-- **unary site** (sockets and HTTP): the logs, then exactly the faithful error -/
theorem C07_unary (logs : List Log) (e : Exn) :
    Pipe.unaryObs logs (.error e) = Sem.lg logs ++ [errEv e] ∧ Http.unaryObs logs (.error e) = Sem.lg logs ++ [errEv e] := by
  have := unary_refines logs (.error e)
  simpa [Sem.unary] using this

/-- **stream init site**: the error stream written for a stream method that raises (after logging `il`) is read by
the client as the logs then exactly the faithful error (sockets: at the first read; HTTP: at open) -/
theorem C07_init (il : List Log) (e : Exn) :
    (readUntilData (logItems il ++ [.err e])).1 = Sem.lg il ++ [errEv e] := by
  rw [Engine.Aux.read_logs_err]

theorem sem_producer_raise' (keep : Bool) (il : List Log) (pre : List Step) (s : Step) (rest : List Step) (e : Exn)
    (hpre : AllEmit pre) (hs : s.act = .raise e) :
    ∃ before, Sem.lg il ++ Sem.producer keep (pre ++ s :: rest) = before ++ [errEv e] ∧ Quiet before := by
  obtain ⟨bef, h1, h2⟩ := sem_producer_raise keep pre s rest e hpre hs
  exact ⟨Sem.lg il ++ bef, by simp [h1], quiet_append (quiet_lg _) h2⟩

theorem sem_exchange_raise' (keep : Bool) (il : List Log) (pre : List Step) (s : Step) (rest : List Step) (e : Exn)
    (hpre : AllEmit pre) (hs : s.act = .raise e) :
    ∃ before, Sem.lg il ++ Sem.exchange keep (pre ++ s :: rest) = before ++ [errEv e] ∧ Quiet before := by
  obtain ⟨bef, h1, h2⟩ := sem_exchange_raise keep pre s rest e hpre hs
  exact ⟨Sem.lg il ++ bef, by simp [h1], quiet_append (quiet_lg _) h2⟩

theorem rest_of_quiet_err (bef : List Ev) (e : Exn) (h : Quiet bef) : restOf (bef ++ [errEv e]) = [errEv e] := by
  rw [Engine.Aux.restOf_append, show restOf bef = [] from h]
  simp [restOf, errEv]

/-- **first / later step, after logging — sockets**: whatever precedes, the stream ends with exactly the faithful error -/
theorem C07_producer_pipe (il : List Log) (pre : List Step) (s : Step) (rest : List Step) (e : Exn)
    (hpre : AllEmit pre) (hs : s.act = .raise e) :
    ∃ before, Pipe.iterate (logItems il) (pre ++ s :: rest) = before ++ [errEv e] ∧ Quiet before := by
  rw [pipe_producer_refines]
  exact sem_producer_raise' _ il pre s rest e hpre hs

/-- … — HTTP, every cap / codec / number of turns: the one terminal event is the faithful error -/
theorem C07_producer_http (brk : Nat → Bool) (il : List Log) (pre : List Step) (s : Step) (rest : List Step) (e : Exn)
    (hpre : AllEmit pre) (hs : s.act = .raise e) :
    (obs (Http.iterate brk il (pre ++ s :: rest))).rest = [errEv e] := by
  rw [http_producer_refines]
  obtain ⟨bef, h1, h2⟩ := sem_producer_raise' _ il pre s rest e hpre hs
  simp only [obs]
  rw [h1]
  exact rest_of_quiet_err bef e h2

theorem C07_exchange_pipe (il : List Log) (pre : List Step) (s : Step) (rest : List Step) (e : Exn)
    (hpre : AllEmit pre) (hs : s.act = .raise e) :
    ∃ before, Pipe.exchangeAll (logItems il) (pre ++ s :: rest) = before ++ [errEv e] ∧ Quiet before := by
  rw [pipe_exchange_refines]
  exact sem_exchange_raise' _ il pre s rest e hpre hs

theorem C07_exchange_http (pre : List Step) (s : Step) (rest : List Step) (e : Exn)
    (hpre : AllEmit pre) (hs : s.act = .raise e) :
    (obs (Http.exchangeAll (pre ++ s :: rest))).rest = [errEv e] := by
  rw [http_exchange_refines]
  obtain ⟨bef, h1, h2⟩ := sem_exchange_raise _ pre s rest e hpre hs
  simp only [obs]
  rw [h1]
  exact rest_of_quiet_err bef e h2

/-- **every exception class** (also the ones the framework's own control flow uses: BrokenPipeError, ConnectionResetError,
ConnectionAbortedError, OSError, EOFError, StopIteration, TimeoutError, ArrowInvalid): at each socket-family site the
implementation's exception is answered with its error batch — nothing is intercepted ahead of `except Exception` -/
theorem C07_socket_sites_catch_all (s : SocketSite) : socketWritesError s = true := by
  cases s <;> decide

/-! ## every order of emit / log / finish / raise inside one step -/

namespace Aux

/-- shape invariant of the collector: logs, then possibly the data batch (at the recorded index) and more logs -/
def CollInv (c : Coll) : Prop :=
  (∃ L, c.dataIdx = none ∧ c.batches = logItems L) ∨
  (∃ L1 b L2, c.dataIdx = some L1.length ∧ c.batches = logItems L1 ++ (Item.data b :: logItems L2))

theorem logItems_length (L : List Log) : (logItems L).length = L.length := by simp [logItems]

theorem filterIdx_none (n : Nat) (L : List Log) : filterIdx none n (logItems L) = logItems L := by
  induction L generalizing n with
  | nil => rfl
  | cons l r ih => simp [logItems, filterIdx] at ih ⊢; exact ih (n + 1)

theorem filterIdx_past (k n : Nat) (L : List Log) (h : k < n) : filterIdx (some k) n (logItems L) = logItems L := by
  induction L generalizing n with
  | nil => rfl
  | cons l r ih =>
    have hne : ¬ (some n = some k) := by intro h'; injection h' with h'; omega
    simp only [logItems, List.map_cons, filterIdx, hne, if_false] at ih ⊢
    rw [ih (n + 1) (by omega)]

theorem filterIdx_data (n : Nat) (L1 L2 : List Log) (b : Batch) :
    filterIdx (some (n + L1.length)) n (logItems L1 ++ (Item.data b :: logItems L2)) = logItems L1 ++ logItems L2 := by
  induction L1 generalizing n with
  | nil =>
    simp only [logItems, List.map_nil, List.nil_append, List.length_nil, Nat.add_zero, filterIdx, if_true]
    exact filterIdx_past n (n + 1) L2 (by omega)
  | cons l r ih =>
    have hne : ¬ (some n = some (n + (l :: r).length)) := by
      intro h'; injection h' with h'; simp at h'
    simp only [logItems, List.map_cons, List.cons_append, filterIdx, hne, if_false] at ih ⊢
    have := ih (n + 1)
    rw [show n + 1 + r.length = n + (l :: r).length by simp; omega] at this
    rw [this]

theorem logBatches_inv (c : Coll) (h : CollInv c) : ∃ L, logBatches c = logItems L := by
  have hr : VgiVerif.Gen.LogDispatch.flushLogsHelperRecognised = true := by decide
  simp only [logBatches, hr, if_true]
  rcases h with ⟨L, hd, hb⟩ | ⟨L1, b, L2, hd, hb⟩
  · exact ⟨L, by rw [hd, hb, filterIdx_none]⟩
  · refine ⟨L1 ++ L2, ?_⟩
    rw [hd, hb]
    have := filterIdx_data 0 L1 L2 b
    simp only [Nat.zero_add] at this
    rw [this, Engine.Aux.logItems_append]

theorem runOps_inv (pm : Bool) (ops : List Op) : ∀ c, CollInv c → CollInv (runOps pm c ops).1 := by
  induction ops with
  | nil => intro c h; exact h
  | cons op r ih =>
    intro c h
    cases op with
    | log l =>
      simp only [runOps]
      apply ih
      rcases h with ⟨L, hd, hb⟩ | ⟨L1, b, L2, hd, hb⟩
      · exact .inl ⟨L ++ [l], hd, by simp [hb, logItems]⟩
      · exact .inr ⟨L1, b, L2 ++ [l], hd, by simp [hb, logItems]⟩
    | emit b =>
      rcases h with ⟨L, hd, hb⟩ | ⟨L1, b', L2, hd, hb⟩
      · simp only [runOps, hd]
        apply ih
        exact .inr ⟨L, b, [], by simp [hb, logItems_length], by simp [hb, logItems]⟩
      · simp only [runOps, hd]
        exact .inr ⟨L1, b', L2, hd, hb⟩
    | finish =>
      simp only [runOps]
      cases pm
      · simpa using h
      · simp only [if_true]
        apply ih
        rcases h with ⟨L, hd, hb⟩ | ⟨L1, b, L2, hd, hb⟩
        · exact .inl ⟨L, hd, hb⟩
        · exact .inr ⟨L1, b, L2, hd, hb⟩
    | raise e => simpa [runOps] using h

end Aux

/-- **a failed step never hands its data batch to the client**: whatever the order of emit / client_log / finish /
raise inside the call, a failing call writes only client-log batches and then the error batch -/
theorem C07_failed_step_writes (pm : Bool) (ops : List Op) (items : List Item) (h : stepWrites pm ops = (items, true)) :
    ∃ L e, items = logItems L ++ [.err e] := by
  unfold stepWrites at h
  have hinv := Aux.runOps_inv pm ops ⟨[], none, false⟩ (.inl ⟨[], rfl, rfl⟩)
  rcases hr : runOps pm ⟨[], none, false⟩ ops with ⟨c, ex⟩
  rw [hr] at h hinv
  obtain ⟨L, hL⟩ := Aux.logBatches_inv c hinv
  cases ex with
  | some e =>
    simp only [Prod.mk.injEq, and_true] at h
    exact ⟨L, e, by rw [← h, hL]⟩
  | none =>
    simp only at h
    split at h
    · simp only [Prod.mk.injEq, and_true] at h
      exact ⟨L, noDataExn, by rw [← h, hL]⟩
    · simp at h

/-- … so the client's read of that call — after whatever logs were still unread — ends in exactly the faithful error,
on the socket family (`readUntilData`) and over HTTP (`Http.readExchange`, `Http.follow`) alike: it is never handed a batch -/
theorem C07_failed_step_reaches_client (pm : Bool) (ops : List Op) (items : List Item) (carry : List Log)
    (h : stepWrites pm ops = (items, true)) :
    ∃ L e, readUntilData (logItems carry ++ items) = (Sem.lg (carry ++ L) ++ [errEv e], .raised) ∧
           (Http.readExchange items).1 = Sem.lg L ++ [errEv e] := by
  obtain ⟨L, e, rfl⟩ := C07_failed_step_writes pm ops items h
  refine ⟨L, e, ?_, ?_⟩
  · rw [← List.append_assoc, ← Engine.Aux.logItems_append, Engine.Aux.read_logs_err]
  · rw [Engine.Aux.readExchange_logs]; simp [Http.readExchange]

/-- non-vacuity: emit first, then log, then raise (exchange stream) -/
example : stepWrites false [.emit ⟨7, 1, []⟩, .log ⟨"INFO".toList, "after".toList, []⟩, .raise ⟨"E".toList, "x".toList, none⟩]
    = ([.log ⟨"INFO".toList, "after".toList, []⟩, .err ⟨"E".toList, "x".toList, none⟩], true) := by decide

/-- non-vacuity of the step corollaries: a later step raising after logging -/
example : AllEmit [⟨[], .emit ⟨1, 1, []⟩, []⟩] := by
  intro s hs; simp at hs; subst hs; exact ⟨_, rfl⟩

end VgiVerif.C07
