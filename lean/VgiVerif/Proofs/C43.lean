import VgiVerif.Model.C43
import VgiVerif.Spec.C43
import VgiVerif.Lemmas.Xfcc
/-
C43 property theorems.  Helper lemmas are in `namespace Aux` (general string lemmas in `Lemmas/Xfcc.lean`);
the property theorems at the bottom are the obligations audited by the check.
-/
namespace VgiVerif.C43
open VgiVerif.Regex VgiVerif.Xfcc Spec
open VgiVerif.Gen

namespace Aux

/-! ### spec vocabulary = model vocabulary -/

/-- the extracted `str.strip()` table is the spec's white space -/
theorem isSpace_eq (c : Char) : isSpace c = isWs c := rfl

theorem allSpace_of_allWs {s : Str} (h : AllWs s) : AllSpace s := fun c hc => by rw [isSpace_eq]; exact h c hc

theorem joinWith_eq (sep : Char) (l : List Str) : joinWith sep l = Spec.join sep l := by
  induction l with
  | nil => rfl
  | cons x r ih =>
    cases r with
    | nil => rfl
    | cons y r' => simp only [joinWith, Spec.join, ih]

theorem keyChar_not_space {c : Char} (h : KeyChar c) : isSpace c = false := by
  obtain ⟨h1, h2, _⟩ := h
  unfold isSpace
  simp only [Xfcc.spaceRanges, List.any_cons, List.any_nil, Bool.or_false, Bool.or_eq_false_iff,
    Bool.and_eq_false_iff, decide_eq_false_iff_not]
  omega

theorem lowerNat_ascii : ∀ n, n < 128 → lowerNat n = if 65 ≤ n ∧ n ≤ 90 then n + 32 else n := by decide

theorem lowerChar_ascii (c : Char) (h : c.toNat < 128) : Char.ofNat (lowerNat c.toNat) = asciiLower c := by
  rw [lowerNat_ascii _ h]
  unfold asciiLower
  split
  · rfl
  · exact Char.ofNat_toNat c

theorem lowerKey_keyChars (k : Str) (h : ∀ c ∈ k, KeyChar c) : lowerKey k = k.map asciiLower := by
  unfold lowerKey
  apply List.map_congr_left
  intro c hc
  exact lowerChar_ascii c (by have := (h c hc).2.1; omega)

/-! ### one rendered value -/

theorem unescape_escape (v : Str) : unescape (escape v) = v := by
  induction v with
  | nil => rfl
  | cons c cs ih =>
    have hcons : escape (c :: cs) = (if c = '"' ∨ c = '\\' then ['\\', c] else [c]) ++ escape cs := by
      simp [escape]
    rw [hcons]
    by_cases h : c = '"' ∨ c = '\\'
    · rw [if_pos h]
      rcases h with rfl | rfl
      · simp only [List.cons_append, List.nil_append, unescape, window_quote, if_true, ih]
      · simp only [List.cons_append, List.nil_append, unescape, window_backslash, if_true, ih]
    · rw [if_neg h]
      have hb : c ≠ '\\' := fun e => h (Or.inr e)
      simp only [List.cons_append, List.nil_append]
      rw [unescape_plain c hb, ih]

theorem dequote_quoted (v : Str) : dequote ('"' :: (escape v ++ ['"'])) = v := by
  simp [dequote, valueQuote_eq, unescape_escape]

theorem dequote_bare (v : Str) (h : ∀ c ∈ v, c ≠ '"') : dequote v = v := by
  cases v with
  | nil => rfl
  | cons o rest =>
    have : o ≠ '"' := h o (by simp)
    simp [dequote, valueQuote_eq, this]

theorem dequote_renderValue (p : Pair) (h : p.WF) : dequote (renderValue p) = p.value := by
  unfold renderValue
  cases hq : p.quoted with
  | true => simp only [if_true]; exact dequote_quoted _
  | false =>
    simp only [Bool.false_eq_true, if_false]
    exact dequote_bare _ (fun c hc => ((h.bare hq).1 c hc).2.2)

theorem renderValue_edges (p : Pair) (h : p.WF) :
    (∀ c, (renderValue p).head? = some c → isSpace c = false) ∧
    (∀ c, (renderValue p).getLast? = some c → isSpace c = false) := by
  unfold renderValue
  cases hq : p.quoted with
  | true =>
    simp only [if_true]
    constructor
    · intro c hc; simp at hc; subst hc; exact isSpace_quote
    · intro c hc
      rw [show '"' :: (escape p.value ++ ['"']) = ('"' :: escape p.value) ++ ['"'] by simp, List.getLast?_concat] at hc
      simp at hc; subst hc; exact isSpace_quote
  | false =>
    simp only [Bool.false_eq_true, if_false]
    obtain ⟨t1, t2⟩ := (h.bare hq).2
    exact ⟨fun c hc => by rw [isSpace_eq]; exact t1 c hc, fun c hc => by rw [isSpace_eq]; exact t2 c hc⟩

theorem strip_value (p : Pair) (h : p.WF) : strip (p.w3 ++ (renderValue p ++ p.w4)) = renderValue p :=
  strip_pad (allSpace_of_allWs h.w3) (allSpace_of_allWs h.w4) _ (renderValue_edges p h).1 (renderValue_edges p h).2

theorem strip_key (p : Pair) (h : p.WF) : strip (p.w1 ++ (p.key ++ p.w2)) = p.key := by
  apply strip_pad (allSpace_of_allWs h.w1) (allSpace_of_allWs h.w2)
  · intro c hc
    exact keyChar_not_space (h.key c (List.mem_of_mem_head? hc))
  · intro c hc
    exact keyChar_not_space (h.key c (List.mem_of_getLast? hc))

theorem keyChar_ne_eq {c : Char} (h : KeyChar c) : c ≠ '=' := h.2.2.1

theorem cutAt_renderPair (p : Pair) (h : p.WF) :
    cutAt Xfcc.kvSep (renderPair p) = some (p.w1 ++ (p.key ++ p.w2), p.w3 ++ (renderValue p ++ p.w4)) := by
  have hx : ∀ c ∈ p.w1 ++ (p.key ++ p.w2), c ≠ Xfcc.kvSep := by
    intro c hc
    rw [kvSep_eq]
    simp only [List.mem_append] at hc
    rcases hc with hc | hc | hc
    · exact ne_of_space (allSpace_of_allWs h.w1 c hc) isSpace_eqSign
    · exact keyChar_ne_eq (h.key c hc)
    · exact ne_of_space (allSpace_of_allWs h.w2 c hc) isSpace_eqSign
  have := cutAt_prefix Xfcc.kvSep _ (p.w3 ++ (renderValue p ++ p.w4)) hx
  rw [kvSep_eq] at this ⊢
  simpa [renderPair] using this

/-! ### one rendered pair: the loop body does what the spec says a pair means -/

/-- spec-side step: what one pair does to the element being built -/
def applyPair (unq : Str → Str) (f : Elem) (p : Pair) : Elem :=
  match fieldOfKey p.key with
  | none => f
  | some .hash => { f with hash := some p.value }
  | some .cert => { f with cert := some (unq p.value) }
  | some .subject => { f with subject := some p.value }
  | some .uri => { f with uri := some (unq p.value) }
  | some .dns => { f with dns := f.dns ++ [p.value] }
  | some .by_ => { f with by_ := some (unq p.value) }

theorem keyHash_eq : Xfcc.keyHash = "hash".toList := by decide
theorem keyCert_eq : Xfcc.keyCert = "cert".toList := by decide
theorem keySubject_eq : Xfcc.keySubject = "subject".toList := by decide
theorem keyUri_eq : Xfcc.keyUri = "uri".toList := by decide
theorem keyBy_eq : Xfcc.keyBy = "by".toList := by decide
theorem listKey_eq : Xfcc.listKey = "dns".toList := by decide
theorem unquoteKeys_eq : Xfcc.unquoteKeys = ["cert".toList, "uri".toList, "by".toList] := by decide

/-- the key dispatch of the loop body is the spec's case-insensitive key table -/
theorem dispatch (unq : Str → Str) (f : Elem) (l v : Str) :
    (if l = Xfcc.listKey then { f with dns := f.dns ++ [if l ∈ Xfcc.unquoteKeys then unq v else v] }
     else setScalar f l (if l ∈ Xfcc.unquoteKeys then unq v else v)) =
    (match (if l = "hash".toList then some Field.hash
      else if l = "cert".toList then some .cert
      else if l = "subject".toList then some .subject
      else if l = "uri".toList then some .uri
      else if l = "dns".toList then some .dns
      else if l = "by".toList then some .by_
      else none) with
    | none => f
    | some .hash => { f with hash := some v }
    | some .cert => { f with cert := some (unq v) }
    | some .subject => { f with subject := some v }
    | some .uri => { f with uri := some (unq v) }
    | some .dns => { f with dns := f.dns ++ [v] }
    | some .by_ => { f with by_ := some (unq v) }) := by
  rw [listKey_eq, unquoteKeys_eq]
  unfold setScalar
  rw [keyHash_eq, keyCert_eq, keySubject_eq, keyUri_eq, keyBy_eq]
  by_cases h1 : l = "hash".toList
  · subst h1; rfl
  by_cases h2 : l = "cert".toList
  · subst h2; rfl
  by_cases h3 : l = "subject".toList
  · subst h3; rfl
  by_cases h4 : l = "uri".toList
  · subst h4; rfl
  by_cases h5 : l = "dns".toList
  · subst h5; rfl
  by_cases h6 : l = "by".toList
  · subst h6; rfl
  simp only [if_neg h1, if_neg h2, if_neg h3, if_neg h4, if_neg h5, if_neg h6]

theorem pairBody_renderPair (unq : Str → Str) (f : Elem) (p : Pair) (h : p.WF) :
    pairBody unq f (renderPair p) = applyPair unq f p := by
  unfold pairBody
  rw [cutAt_renderPair p h]
  simp only [strip_key p h, strip_value p h, dequote_renderValue p h, lowerKey_keyChars p.key h.key]
  rw [dispatch]
  rfl

theorem procPair_renderPair (unq : Str → Str) (f : Elem) (p : Pair) (h : p.WF) :
    procPair unq f (renderPair p) = applyPair unq f p := by
  rw [procPair_body, pairBody_renderPair unq f p h]

/-! ### a rendered pair / element is one balanced segment of the splitter -/

theorem escape_cons (c : Char) (cs : Str) :
    escape (c :: cs) = (if c = '"' ∨ c = '\\' then ['\\', c] else [c]) ++ escape cs := by
  simp [escape]

theorem scan_escape (d : Char) (v rest : Str) : scan d true (escape v ++ rest) = scan d true rest := by
  induction v with
  | nil => rfl
  | cons c cs ih =>
    rw [escape_cons]
    by_cases h : c = '"' ∨ c = '\\'
    · rw [if_pos h]
      simp only [List.cons_append, List.nil_append, List.append_assoc]
      rw [scan_esc, ih]
    · rw [if_neg h]
      simp only [List.cons_append, List.nil_append, List.append_assoc]
      rw [scan_plain d true c _ (fun e => h (Or.inl e)) (fun e => h (Or.inr e.1)), if_neg (by simp), ih]

theorem balanced_quoted (d : Char) (v : Str) : Balanced d ('"' :: (escape v ++ ['"'])) := by
  unfold Balanced
  rw [scan_quote]
  simp only [Bool.not_false]
  rw [scan_escape, scan_quote]
  rfl

theorem balanced_space (d : Char) (hd : isSpace d = false) {w : Str} (h : AllSpace w) : Balanced d w :=
  scan_unquoted d w (fun c hc => ⟨ne_of_space (h c hc) isSpace_quote, ne_of_space (h c hc) hd⟩)

theorem balanced_renderValue (d : Char) (hd : d = ',' ∨ d = ';') (p : Pair) (h : p.WF) : Balanced d (renderValue p) := by
  unfold renderValue
  cases hq : p.quoted with
  | true => simp only [if_true]; exact balanced_quoted d _
  | false =>
    simp only [Bool.false_eq_true, if_false]
    apply scan_unquoted
    intro c hc
    obtain ⟨h1, h2, h3⟩ := (h.bare hq).1 c hc
    rcases hd with rfl | rfl
    · exact ⟨h3, h1⟩
    · exact ⟨h3, h2⟩

theorem balanced_renderPair (d : Char) (hd : d = ',' ∨ d = ';') (p : Pair) (h : p.WF) : Balanced d (renderPair p) := by
  have hsp : isSpace d = false := by rcases hd with rfl | rfl <;> decide
  unfold renderPair
  apply balanced_append (balanced_space d hsp (allSpace_of_allWs h.w1))
  apply balanced_append
  · apply scan_unquoted
    intro c hc
    obtain ⟨_, _, _, k2, k3, k4⟩ := h.key c hc
    rcases hd with rfl | rfl
    · exact ⟨k4, k3⟩
    · exact ⟨k4, k2⟩
  apply balanced_append (balanced_space d hsp (allSpace_of_allWs h.w2))
  apply balanced_append (a := ['='])
  · apply scan_unquoted
    intro c hc
    simp at hc; subst hc
    rcases hd with rfl | rfl <;> exact ⟨by decide, by decide⟩
  apply balanced_append (balanced_space d hsp (allSpace_of_allWs h.w3))
  exact balanced_append (balanced_renderValue d hd p h) (balanced_space d hsp (allSpace_of_allWs h.w4))

theorem balanced_renderElem (ps : List Pair) (h : ∀ p ∈ ps, p.WF) : Balanced ',' (renderElem ps) := by
  unfold renderElem
  rw [← joinWith_eq]
  apply balanced_join ',' ';' (by decide) (by decide)
  intro x hx
  obtain ⟨p, hp, rfl⟩ := List.mem_map.1 hx
  exact balanced_renderPair ',' (Or.inl rfl) p (h p hp)

/-! ### one rendered element -/

theorem foldl_render (unq : Str → Str) (ps : List Pair) (h : ∀ p ∈ ps, p.WF) (f : Elem) :
    (ps.map renderPair).foldl (procPair unq) f = ps.foldl (applyPair unq) f := by
  induction ps generalizing f with
  | nil => rfl
  | cons p r ih =>
    simp only [List.map_cons, List.foldl_cons]
    rw [procPair_renderPair unq f p (h p (by simp))]
    exact ih (fun x hx => h x (by simp [hx])) _

theorem mem_join_head (sep : Char) (x : Char) (a : Str) (r : List Str) (h : x ∈ a) : x ∈ Spec.join sep (a :: r) := by
  cases r with
  | nil => simpa [Spec.join] using h
  | cons y r' => simp [Spec.join, h]

theorem eqSign_mem_renderPair (p : Pair) : '=' ∈ renderPair p := by simp [renderPair]

theorem renderElem_not_space (ps : List Pair) (hne : ps ≠ []) : strip (renderElem ps) ≠ [] := by
  intro h
  have hs := strip_eq_nil h
  cases ps with
  | nil => exact hne rfl
  | cons p r =>
    have : '=' ∈ renderElem (p :: r) := by
      unfold renderElem
      exact mem_join_head ';' '=' _ _ (eqSign_mem_renderPair p)
    have := hs '=' this
    rw [isSpace_eqSign] at this
    cases this

theorem parseElem_renderElem (unq : Str → Str) (ps : List Pair) (hne : ps ≠ []) (h : ∀ p ∈ ps, p.WF) :
    parseElem unq (renderElem ps) = some (ps.foldl (applyPair unq) Elem.empty) := by
  unfold parseElem
  simp only [if_neg (renderElem_not_space ps hne)]
  rw [pairDelim_eq, fold_strip unq _ ';' isSpace_semicolon]
  have hsplit : split ';' false (renderElem ps) = ps.map renderPair := by
    unfold renderElem
    rw [← joinWith_eq]
    apply split_join ';' (by decide) _ (by simpa using hne)
    intro x hx
    obtain ⟨p, hp, rfl⟩ := List.mem_map.1 hx
    exact balanced_renderPair ';' (Or.inr rfl) p (h p hp)
  rw [hsplit, foldl_render unq ps h]

/-! ### the fold over pairs is the declarative meaning -/

theorem fold_meaning_gen (unq : Str → Str) (ps : List Pair) (f : Elem) :
    ps.foldl (applyPair unq) f =
      { hash := (lastValue .hash ps).or f.hash
        cert := ((lastValue .cert ps).map unq).or f.cert
        subject := (lastValue .subject ps).or f.subject
        uri := ((lastValue .uri ps).map unq).or f.uri
        dns := f.dns ++ dnsValues ps
        by_ := ((lastValue .by_ ps).map unq).or f.by_ } := by
  induction ps generalizing f with
  | nil => simp [lastValue, dnsValues]
  | cons p r ih =>
    rw [List.foldl_cons, ih]
    simp only [lastValue, dnsValues, applyPair]
    cases hk : fieldOfKey p.key with
    | none =>
      simp only [reduceCtorEq, if_false]
      cases lastValue .hash r <;> cases lastValue .cert r <;> cases lastValue .subject r <;>
        cases lastValue .uri r <;> cases lastValue .by_ r <;> simp
    | some F =>
      cases F <;> simp only [Option.some.injEq, reduceCtorEq, if_false, if_true] <;>
        cases lastValue .hash r <;> cases lastValue .cert r <;> cases lastValue .subject r <;>
        cases lastValue .uri r <;> cases lastValue .by_ r <;> simp

theorem fold_meaning (unq : Str → Str) (ps : List Pair) : ps.foldl (applyPair unq) Elem.empty = meaning unq ps := by
  rw [fold_meaning_gen]
  simp [meaning, Elem.empty]

/-! ### the whole header -/

theorem filterMap_map_some {α β γ : Type} (g : α → β) (f : β → Option γ) (k : α → γ) (l : List α)
    (h : ∀ x ∈ l, f (g x) = some (k x)) : (l.map g).filterMap f = l.map k := by
  induction l with
  | nil => rfl
  | cons x r ih =>
    simp only [List.map_cons, List.filterMap_cons, h x (by simp)]
    rw [ih (fun y hy => h y (by simp [hy]))]

theorem parse_nil (unq : Str → Str) : parse unq [] = [] := by
  simp [parse, split_nil, parseElem, strip, lstrip, rstrip]

theorem parse_render (unq : Str → Str) (es : List (List Pair)) (h : WF es) :
    parse unq (render es) = es.map (meaning unq) := by
  cases hes : es with
  | nil => simp [render, Spec.join, parse_nil]
  | cons e0 r =>
    rw [← hes]
    unfold parse render
    rw [elemDelim_eq, ← joinWith_eq]
    rw [split_join ',' (by decide) _ (by simp [hes])]
    · apply filterMap_map_some
      intro ps hps
      rw [parseElem_renderElem unq ps (h ps hps).1 (h ps hps).2, fold_meaning]
    · intro x hx
      obtain ⟨ps, hps, rfl⟩ := List.mem_map.1 hx
      exact balanced_renderElem ps (h ps hps).2

end Aux
end VgiVerif.C43
