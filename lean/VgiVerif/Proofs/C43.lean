import VgiVerif.Model.C43
import VgiVerif.Spec.C43
import VgiVerif.Lemmas.Xfcc
/-
C43 property theorems.  Helper lemmas are in `namespace Aux` (general string lemmas in `Lemmas/Xfcc.lean`);
the property theorems at the bottom are the obligations audited by the check.
-/
namespace VgiVerif.C43
open VgiVerif.Regex VgiVerif.Xfcc Spec
open VgiVerif.Gen

namespace Aux

/-! ### spec vocabulary = model vocabulary -/

/-- the extracted `str.strip()` table is the spec's white space -/
theorem isSpace_eq (c : Char) : isSpace c = isWs c := rfl

theorem allSpace_of_allWs {s : Str} (h : AllWs s) : AllSpace s := fun c hc => by rw [isSpace_eq]; exact h c hc

theorem joinWith_eq (sep : Char) (l : List Str) : joinWith sep l = Spec.join sep l := by
  induction l with
  | nil => rfl
  | cons x r ih =>
    cases r with
    | nil => rfl
    | cons y r' => simp only [joinWith, Spec.join, ih]

theorem keyChar_not_space {c : Char} (h : KeyChar c) : isSpace c = false := by
  obtain ⟨h1, h2, _⟩ := h
  unfold isSpace
  simp only [Xfcc.spaceRanges, List.any_cons, List.any_nil, Bool.or_false, Bool.or_eq_false_iff,
    Bool.and_eq_false_iff, decide_eq_false_iff_not]
  omega

theorem lowerNat_ascii : ∀ n, n < 128 → lowerNat n = if 65 ≤ n ∧ n ≤ 90 then n + 32 else n := by decide +kernel

theorem lowerChar_ascii (c : Char) (h : c.toNat < 128) : Char.ofNat (lowerNat c.toNat) = asciiLower c := by
  rw [lowerNat_ascii _ h]
  unfold asciiLower
  split
  · rfl
  · exact Char.ofNat_toNat c

theorem lowerKey_keyChars (k : Str) (h : ∀ c ∈ k, KeyChar c) : lowerKey k = k.map asciiLower := by
  unfold lowerKey
  apply List.map_congr_left
  intro c hc
  exact lowerChar_ascii c (by have := (h c hc).2.1; omega)

/-! ### one rendered value -/

theorem unescape_escape (v : Str) : unescape (escape v) = v := by
  induction v with
  | nil => rfl
  | cons c cs ih =>
    have hcons : escape (c :: cs) = (if c = '"' ∨ c = '\\' then ['\\', c] else [c]) ++ escape cs := by
      simp [escape]
    rw [hcons]
    by_cases h : c = '"' ∨ c = '\\'
    · rw [if_pos h]
      rcases h with rfl | rfl
      · simp only [List.cons_append, List.nil_append, unescape, window_quote, if_true, ih]
      · simp only [List.cons_append, List.nil_append, unescape, window_backslash, if_true, ih]
    · rw [if_neg h]
      have hb : c ≠ '\\' := fun e => h (Or.inr e)
      simp only [List.cons_append, List.nil_append]
      rw [unescape_plain c hb, ih]

theorem dequote_quoted (v : Str) : dequote ('"' :: (escape v ++ ['"'])) = v := by
  simp [dequote, valueQuote_eq, unescape_escape]

theorem dequote_bare (v : Str) (h : ∀ c ∈ v, c ≠ '"') : dequote v = v := by
  cases v with
  | nil => rfl
  | cons o rest =>
    have : o ≠ '"' := h o (by simp)
    simp [dequote, valueQuote_eq, this]

theorem dequote_renderValue (p : Pair) (h : p.WF) : dequote (renderValue p) = p.value := by
  unfold renderValue
  cases hq : p.quoted with
  | true => simp only [if_true]; exact dequote_quoted _
  | false =>
    simp only [Bool.false_eq_true, if_false]
    exact dequote_bare _ (fun c hc => ((h.bare hq).1 c hc).2.2)

theorem renderValue_edges (p : Pair) (h : p.WF) :
    (∀ c, (renderValue p).head? = some c → isSpace c = false) ∧
    (∀ c, (renderValue p).getLast? = some c → isSpace c = false) := by
  unfold renderValue
  cases hq : p.quoted with
  | true =>
    simp only [if_true]
    constructor
    · intro c hc; simp at hc; subst hc; exact isSpace_quote
    · intro c hc
      rw [show '"' :: (escape p.value ++ ['"']) = ('"' :: escape p.value) ++ ['"'] by simp, List.getLast?_concat] at hc
      simp at hc; subst hc; exact isSpace_quote
  | false =>
    simp only [Bool.false_eq_true, if_false]
    obtain ⟨t1, t2⟩ := (h.bare hq).2
    exact ⟨fun c hc => by rw [isSpace_eq]; exact t1 c hc, fun c hc => by rw [isSpace_eq]; exact t2 c hc⟩

theorem strip_value (p : Pair) (h : p.WF) : strip (p.w3 ++ (renderValue p ++ p.w4)) = renderValue p :=
  strip_pad (allSpace_of_allWs h.w3) (allSpace_of_allWs h.w4) _ (renderValue_edges p h).1 (renderValue_edges p h).2

theorem strip_key (p : Pair) (h : p.WF) : strip (p.w1 ++ (p.key ++ p.w2)) = p.key := by
  apply strip_pad (allSpace_of_allWs h.w1) (allSpace_of_allWs h.w2)
  · intro c hc
    exact keyChar_not_space (h.key c (List.mem_of_mem_head? hc))
  · intro c hc
    exact keyChar_not_space (h.key c (List.mem_of_getLast? hc))

theorem keyChar_ne_eq {c : Char} (h : KeyChar c) : c ≠ '=' := h.2.2.1

theorem cutAt_renderPair (p : Pair) (h : p.WF) :
    cutAt Xfcc.kvSep (renderPair p) = some (p.w1 ++ (p.key ++ p.w2), p.w3 ++ (renderValue p ++ p.w4)) := by
  have hx : ∀ c ∈ p.w1 ++ (p.key ++ p.w2), c ≠ Xfcc.kvSep := by
    intro c hc
    rw [kvSep_eq]
    simp only [List.mem_append] at hc
    rcases hc with hc | hc | hc
    · exact ne_of_space (allSpace_of_allWs h.w1 c hc) isSpace_eqSign
    · exact keyChar_ne_eq (h.key c hc)
    · exact ne_of_space (allSpace_of_allWs h.w2 c hc) isSpace_eqSign
  have := cutAt_prefix Xfcc.kvSep _ (p.w3 ++ (renderValue p ++ p.w4)) hx
  rw [kvSep_eq] at this ⊢
  simpa [renderPair] using this

/-! ### one rendered pair: the loop body does what the spec says a pair means -/

/-- spec-side step: what one pair does to the element being built -/
def applyPair (unq : Str → Str) (f : Elem) (p : Pair) : Elem :=
  match fieldOfKey p.key with
  | none => f
  | some .hash => { f with hash := some p.value }
  | some .cert => { f with cert := some (unq p.value) }
  | some .subject => { f with subject := some p.value }
  | some .uri => { f with uri := some (unq p.value) }
  | some .dns => { f with dns := f.dns ++ [p.value] }
  | some .by_ => { f with by_ := some (unq p.value) }

theorem keyHash_eq : Xfcc.keyHash = "hash".toList := by decide
theorem keyCert_eq : Xfcc.keyCert = "cert".toList := by decide
theorem keySubject_eq : Xfcc.keySubject = "subject".toList := by decide
theorem keyUri_eq : Xfcc.keyUri = "uri".toList := by decide
theorem keyBy_eq : Xfcc.keyBy = "by".toList := by decide
theorem listKey_eq : Xfcc.listKey = "dns".toList := by decide
theorem unquoteKeys_eq : Xfcc.unquoteKeys = ["cert".toList, "uri".toList, "by".toList] := by decide

/-- the key dispatch of the loop body is the spec's case-insensitive key table -/
theorem dispatch (unq : Str → Str) (f : Elem) (l v : Str) :
    (if l = Xfcc.listKey then { f with dns := f.dns ++ [if l ∈ Xfcc.unquoteKeys then unq v else v] }
     else setScalar f l (if l ∈ Xfcc.unquoteKeys then unq v else v)) =
    (match (if l = "hash".toList then some Field.hash
      else if l = "cert".toList then some .cert
      else if l = "subject".toList then some .subject
      else if l = "uri".toList then some .uri
      else if l = "dns".toList then some .dns
      else if l = "by".toList then some .by_
      else none) with
    | none => f
    | some .hash => { f with hash := some v }
    | some .cert => { f with cert := some (unq v) }
    | some .subject => { f with subject := some v }
    | some .uri => { f with uri := some (unq v) }
    | some .dns => { f with dns := f.dns ++ [v] }
    | some .by_ => { f with by_ := some (unq v) }) := by
  rw [listKey_eq, unquoteKeys_eq]
  unfold setScalar
  rw [keyHash_eq, keyCert_eq, keySubject_eq, keyUri_eq, keyBy_eq]
  by_cases h1 : l = "hash".toList
  · subst h1; rfl
  by_cases h2 : l = "cert".toList
  · subst h2; rfl
  by_cases h3 : l = "subject".toList
  · subst h3; rfl
  by_cases h4 : l = "uri".toList
  · subst h4; rfl
  by_cases h5 : l = "dns".toList
  · subst h5; rfl
  by_cases h6 : l = "by".toList
  · subst h6; rfl
  simp only [if_neg h1, if_neg h2, if_neg h3, if_neg h4, if_neg h5, if_neg h6]

theorem pairBody_renderPair (unq : Str → Str) (f : Elem) (p : Pair) (h : p.WF) :
    pairBody unq f (renderPair p) = applyPair unq f p := by
  unfold pairBody
  rw [cutAt_renderPair p h]
  simp only [strip_key p h, strip_value p h, dequote_renderValue p h, lowerKey_keyChars p.key h.key]
  rw [dispatch]
  rfl

theorem procPair_renderPair (unq : Str → Str) (f : Elem) (p : Pair) (h : p.WF) :
    procPair unq f (renderPair p) = applyPair unq f p := by
  rw [procPair_body, pairBody_renderPair unq f p h]

/-! ### a rendered pair / element is one balanced segment of the splitter -/

theorem escape_cons (c : Char) (cs : Str) :
    escape (c :: cs) = (if c = '"' ∨ c = '\\' then ['\\', c] else [c]) ++ escape cs := by
  simp [escape]

theorem scan_escape (d : Char) (v rest : Str) : scan d true (escape v ++ rest) = scan d true rest := by
  induction v with
  | nil => rfl
  | cons c cs ih =>
    rw [escape_cons]
    by_cases h : c = '"' ∨ c = '\\'
    · rw [if_pos h]
      simp only [List.cons_append, List.nil_append]
      rw [scan_esc, ih]
    · rw [if_neg h]
      simp only [List.cons_append, List.nil_append]
      rw [scan_plain d true c _ (fun e => h (Or.inl e)) (fun e => h (Or.inr e.1)), if_neg (by simp), ih]

theorem balanced_quoted (d : Char) (v : Str) : Balanced d ('"' :: (escape v ++ ['"'])) := by
  unfold Balanced
  rw [scan_quote]
  simp only [Bool.not_false]
  rw [scan_escape, scan_quote]
  rfl

theorem balanced_space (d : Char) (hd : isSpace d = false) {w : Str} (h : AllSpace w) : Balanced d w :=
  scan_unquoted d w (fun c hc => ⟨ne_of_space (h c hc) isSpace_quote, ne_of_space (h c hc) hd⟩)

theorem balanced_renderValue (d : Char) (hd : d = ',' ∨ d = ';') (p : Pair) (h : p.WF) : Balanced d (renderValue p) := by
  unfold renderValue
  cases hq : p.quoted with
  | true => simp only [if_true]; exact balanced_quoted d _
  | false =>
    simp only [Bool.false_eq_true, if_false]
    apply scan_unquoted
    intro c hc
    obtain ⟨h1, h2, h3⟩ := (h.bare hq).1 c hc
    rcases hd with rfl | rfl
    · exact ⟨h3, h1⟩
    · exact ⟨h3, h2⟩

theorem balanced_renderPair (d : Char) (hd : d = ',' ∨ d = ';') (p : Pair) (h : p.WF) : Balanced d (renderPair p) := by
  have hsp : isSpace d = false := by rcases hd with rfl | rfl <;> decide
  unfold renderPair
  apply balanced_append (balanced_space d hsp (allSpace_of_allWs h.w1))
  apply balanced_append
  · apply scan_unquoted
    intro c hc
    obtain ⟨_, _, _, k2, k3, k4⟩ := h.key c hc
    rcases hd with rfl | rfl
    · exact ⟨k4, k3⟩
    · exact ⟨k4, k2⟩
  apply balanced_append (balanced_space d hsp (allSpace_of_allWs h.w2))
  apply balanced_append (a := ['='])
  · apply scan_unquoted
    intro c hc
    simp at hc; subst hc
    rcases hd with rfl | rfl <;> exact ⟨by decide, by decide⟩
  apply balanced_append (balanced_space d hsp (allSpace_of_allWs h.w3))
  exact balanced_append (balanced_renderValue d hd p h) (balanced_space d hsp (allSpace_of_allWs h.w4))

theorem balanced_renderElem (ps : List Pair) (h : ∀ p ∈ ps, p.WF) : Balanced ',' (renderElem ps) := by
  unfold renderElem
  rw [← joinWith_eq]
  apply balanced_join ',' ';' (by decide) (by decide)
  intro x hx
  obtain ⟨p, hp, rfl⟩ := List.mem_map.1 hx
  exact balanced_renderPair ',' (Or.inl rfl) p (h p hp)

/-! ### one rendered element -/

theorem foldl_render (unq : Str → Str) (ps : List Pair) (h : ∀ p ∈ ps, p.WF) (f : Elem) :
    (ps.map renderPair).foldl (procPair unq) f = ps.foldl (applyPair unq) f := by
  induction ps generalizing f with
  | nil => rfl
  | cons p r ih =>
    simp only [List.map_cons, List.foldl_cons]
    rw [procPair_renderPair unq f p (h p (by simp))]
    exact ih (fun x hx => h x (by simp [hx])) _

theorem mem_join_head (sep : Char) (x : Char) (a : Str) (r : List Str) (h : x ∈ a) : x ∈ Spec.join sep (a :: r) := by
  cases r with
  | nil => simpa [Spec.join] using h
  | cons y r' => simp [Spec.join, h]

theorem eqSign_mem_renderPair (p : Pair) : '=' ∈ renderPair p := by simp [renderPair]

theorem renderElem_not_space (ps : List Pair) (hne : ps ≠ []) : strip (renderElem ps) ≠ [] := by
  intro h
  have hs := strip_eq_nil h
  cases ps with
  | nil => exact hne rfl
  | cons p r =>
    have : '=' ∈ renderElem (p :: r) := by
      unfold renderElem
      exact mem_join_head ';' '=' _ _ (eqSign_mem_renderPair p)
    have := hs '=' this
    rw [isSpace_eqSign] at this
    cases this

theorem parseElem_renderElem (unq : Str → Str) (ps : List Pair) (hne : ps ≠ []) (h : ∀ p ∈ ps, p.WF) :
    parseElem unq (renderElem ps) = some (ps.foldl (applyPair unq) Elem.empty) := by
  unfold parseElem
  simp only [if_neg (renderElem_not_space ps hne)]
  rw [pairDelim_eq, fold_strip unq _ ';' isSpace_semicolon]
  have hsplit : split ';' false (renderElem ps) = ps.map renderPair := by
    unfold renderElem
    rw [← joinWith_eq]
    apply split_join ';' (by decide) _ (by simpa using hne)
    intro x hx
    obtain ⟨p, hp, rfl⟩ := List.mem_map.1 hx
    exact balanced_renderPair ';' (Or.inr rfl) p (h p hp)
  rw [hsplit, foldl_render unq ps h]

/-! ### the fold over pairs is the declarative meaning -/

theorem fold_meaning_gen (unq : Str → Str) (ps : List Pair) (f : Elem) :
    ps.foldl (applyPair unq) f =
      { hash := (lastValue .hash ps).or f.hash
        cert := ((lastValue .cert ps).map unq).or f.cert
        subject := (lastValue .subject ps).or f.subject
        uri := ((lastValue .uri ps).map unq).or f.uri
        dns := f.dns ++ dnsValues ps
        by_ := ((lastValue .by_ ps).map unq).or f.by_ } := by
  induction ps generalizing f with
  | nil => simp [lastValue, dnsValues]
  | cons p r ih =>
    rw [List.foldl_cons, ih]
    simp only [lastValue, dnsValues, applyPair]
    cases hk : fieldOfKey p.key with
    | none =>
      simp only [reduceCtorEq, if_false]
      cases lastValue .hash r <;> cases lastValue .cert r <;> cases lastValue .subject r <;>
        cases lastValue .uri r <;> cases lastValue .by_ r <;> simp
    | some F =>
      cases F <;> simp only [Option.some.injEq, reduceCtorEq, if_false, if_true] <;>
        cases lastValue .hash r <;> cases lastValue .cert r <;> cases lastValue .subject r <;>
        cases lastValue .uri r <;> cases lastValue .by_ r <;> simp

theorem fold_meaning (unq : Str → Str) (ps : List Pair) : ps.foldl (applyPair unq) Elem.empty = meaning unq ps := by
  rw [fold_meaning_gen]
  simp [meaning, Elem.empty]

/-! ### the whole header -/

theorem filterMap_map_some {α β γ : Type} (g : α → β) (f : β → Option γ) (k : α → γ) (l : List α)
    (h : ∀ x ∈ l, f (g x) = some (k x)) : (l.map g).filterMap f = l.map k := by
  induction l with
  | nil => rfl
  | cons x r ih =>
    simp only [List.map_cons, List.filterMap_cons, h x (by simp)]
    rw [ih (fun y hy => h y (by simp [hy]))]

theorem parse_nil (unq : Str → Str) : parse unq [] = [] := by
  simp [parse, split_nil, parseElem, strip, lstrip, rstrip]

theorem parse_render (unq : Str → Str) (es : List (List Pair)) (h : WF es) :
    parse unq (render es) = es.map (meaning unq) := by
  cases hes : es with
  | nil => simp [render, Spec.join, parse_nil]
  | cons e0 r =>
    rw [← hes]
    unfold parse render
    rw [elemDelim_eq, ← joinWith_eq]
    rw [split_join ',' (by decide) _ (by simp [hes])]
    · apply filterMap_map_some
      intro ps hps
      rw [parseElem_renderElem unq ps (h ps hps).1 (h ps hps).2, fold_meaning]
    · intro x hx
      obtain ⟨ps, hps, rfl⟩ := List.mem_map.1 hx
      exact balanced_renderElem ps (h ps hps).2

/-! ### canonical rendering of identities -/

instance : DecidablePred KeyChar := fun c => by unfold KeyChar; infer_instance

theorem fk_by : fieldOfKey "By".toList = some .by_ := by decide
theorem fk_hash : fieldOfKey "Hash".toList = some .hash := by decide
theorem fk_cert : fieldOfKey "Cert".toList = some .cert := by decide
theorem fk_subject : fieldOfKey "Subject".toList = some .subject := by decide
theorem fk_uri : fieldOfKey "URI".toList = some .uri := by decide
theorem fk_dns : fieldOfKey "DNS".toList = some .dns := by decide

theorem wf_quoted (k v : Str) (hk : ∀ c ∈ k, KeyChar c) : ({ key := k, quoted := true, value := v } : Pair).WF :=
  { key := hk, bare := fun h => (by cases h), w1 := (by simp [AllWs]), w2 := (by simp [AllWs]), w3 := (by simp [AllWs]),
    w4 := (by simp [AllWs]) }

theorem wf_optPair (k : Str) (hk : ∀ c ∈ k, KeyChar c) (v : Option Str) : ∀ p ∈ optPair k v, p.WF := by
  intro p hp
  cases v with
  | none => simp [optPair] at hp
  | some v => simp [optPair] at hp; subst hp; exact wf_quoted k v hk

theorem wf_pairsOf (enc : Str → Str) (e : Elem) : ∀ p ∈ pairsOf enc e, p.WF := by
  intro p hp
  simp only [pairsOf, List.mem_append, List.mem_map] at hp
  rcases hp with ((((hp | hp) | hp) | hp) | hp) | ⟨d, _, rfl⟩
  · exact wf_optPair _ (by decide) _ p hp
  · exact wf_optPair _ (by decide) _ p hp
  · exact wf_optPair _ (by decide) _ p hp
  · exact wf_optPair _ (by decide) _ p hp
  · exact wf_optPair _ (by decide) _ p hp
  · exact wf_quoted _ _ (by decide)

theorem pairsOf_ne_nil (enc : Str → Str) (e : Elem) (h : e ≠ Elem.empty) : pairsOf enc e ≠ [] := by
  intro hp
  apply h
  obtain ⟨a, b, c, d, l, f⟩ := e
  cases a <;> cases b <;> cases c <;> cases d <;> cases f <;> cases l <;>
    simp [pairsOf, optPair, Elem.empty] at hp ⊢

theorem foldl_dns (unq : Str → Str) (ds : List Str) (f : Elem) :
    (ds.map fun d => ({ key := "DNS".toList, quoted := true, value := d } : Pair)).foldl (applyPair unq) f =
      { f with dns := f.dns ++ ds } := by
  induction ds generalizing f with
  | nil => simp
  | cons d r ih =>
    simp only [List.map_cons, List.foldl_cons]
    have hstep : applyPair unq f { key := "DNS".toList, quoted := true, value := d } = { f with dns := f.dns ++ [d] } := by
      simp only [applyPair, fk_dns]
    rw [ih, hstep]
    simp

theorem fold_optPair (unq : Str → Str) (f : Elem) (k : Str) (v : Option Str) :
    (optPair k v).foldl (applyPair unq) f =
      match v with
      | none => f
      | some v => applyPair unq f { key := k, quoted := true, value := v } := by
  cases v <;> rfl

theorem meaning_pairsOf (unq enc : Str → Str) (hinv : ∀ x, unq (enc x) = x) (e : Elem) :
    meaning unq (pairsOf enc e) = e := by
  rw [← fold_meaning]
  obtain ⟨a, b, c, d, l, f⟩ := e
  simp only [pairsOf, List.foldl_append, foldl_dns, fold_optPair]
  cases a <;> cases b <;> cases c <;> cases d <;> cases f <;>
    simp only [Option.map_some, Option.map_none, applyPair, fk_by, fk_hash, fk_cert, fk_subject, fk_uri, hinv, Elem.empty,
      List.nil_append]

theorem lastValue_replace (F : Field) (a b : List Pair) (p p' : Pair) (hk : p'.key = p.key)
    (hF : fieldOfKey p.key ≠ some F) : lastValue F (a ++ p' :: b) = lastValue F (a ++ p :: b) := by
  induction a with
  | nil => simp only [List.nil_append, lastValue, hk, if_neg hF]
  | cons x r ih => simp only [List.cons_append, lastValue, ih]

theorem dnsValues_replace (a b : List Pair) (p p' : Pair) (hk : p'.key = p.key)
    (hF : fieldOfKey p.key ≠ some .dns) : dnsValues (a ++ p' :: b) = dnsValues (a ++ p :: b) := by
  induction a with
  | nil => simp only [List.nil_append, dnsValues, hk, if_neg hF]
  | cons x r ih => simp only [List.cons_append, dnsValues, ih]

theorem parseElem_none (unq : Str → Str) (x : Str) : parseElem unq x = none ↔ strip x = [] := by
  unfold parseElem
  by_cases h : strip x = [] <;> simp [h]

/-! ### the authenticator -/

theorem selFirst_eq : selFirst = Xfcc.selectLiteral := by decide
theorem selLast_ne : selLast ≠ Xfcc.selectLiteral := by decide
theorem selectThen_eq : Xfcc.selectThen = 0 := by decide
theorem selectElse_eq : Xfcc.selectElse = -1 := by decide

theorem select_first (e : Elem) (r : List Elem) : select selFirst (e :: r) = some e := by
  simp [select, selFirst_eq, selectThen_eq, pyIndex]

theorem select_other (sel : Str) (h : sel ≠ Xfcc.selectLiteral) (xs : List Elem) (hne : xs ≠ []) :
    select sel xs = some (xs.getLast hne) := by
  unfold select
  rw [if_neg h, selectElse_eq]
  unfold pyIndex
  have hlen : 1 ≤ xs.length := by cases xs with
    | nil => exact absurd rfl hne
    | cons a t => simp
  simp only [show ¬ (0 : Int) ≤ -1 by decide, if_false, show (-(-1 : Int)).toNat = 1 by decide, hlen, if_true]
  rw [← List.getLast?_eq_getElem?, List.getLast?_eq_some_getLast hne]

theorem auth_some (unq : Str → Str) (hv : Bool) (sel : Str) (s : Str) (hs : s ≠ []) :
    authenticate unq hv sel (some s) =
      match parse unq s with
      | [] => .failure Xfcc.emptyReason
      | e :: es =>
        match select sel (e :: es) with
        | some x => finish hv x
        | none => .failure "IndexError" := by
  cases s with
  | nil => exact absurd rfl hs
  | cons c cs => rfl

theorem render_ne_nil (es : List (List Pair)) (h : WF es) (hne : es ≠ []) : render es ≠ [] := by
  cases es with
  | nil => exact absurd rfl hne
  | cons ps r =>
    have hps := (h ps (by simp)).1
    cases ps with
    | nil => exact absurd rfl hps
    | cons p r' =>
      intro hnil
      have : '=' ∈ render ((p :: r') :: r) := by
        unfold render
        apply mem_join_head
        unfold renderElem
        exact mem_join_head ';' '=' _ _ (eqSign_mem_renderPair p)
      rw [hnil] at this
      cases this

/-! ### `unquote` is natural: it can be applied after parsing -/

/-- URL-decode the three fields the parser URL-decodes -/
def mapUnq (u : Str → Str) (e : Elem) : Elem := { e with cert := e.cert.map u, uri := e.uri.map u, by_ := e.by_.map u }

theorem pairBody_natural (unq : Str → Str) (f : Elem) (pair : Str) :
    pairBody unq (mapUnq unq f) pair = mapUnq unq (pairBody id f pair) := by
  unfold pairBody
  cases cutAt Xfcc.kvSep pair with
  | none => rfl
  | some kv =>
    obtain ⟨k, v⟩ := kv
    simp only
    generalize lowerKey (strip k) = l
    generalize dequote (strip v) = w
    rw [listKey_eq, unquoteKeys_eq]
    unfold setScalar
    rw [keyHash_eq, keyCert_eq, keySubject_eq, keyUri_eq, keyBy_eq]
    by_cases h1 : l = "hash".toList
    · subst h1; rfl
    by_cases h2 : l = "cert".toList
    · subst h2; rfl
    by_cases h3 : l = "subject".toList
    · subst h3; rfl
    by_cases h4 : l = "uri".toList
    · subst h4; rfl
    by_cases h5 : l = "dns".toList
    · subst h5; rfl
    by_cases h6 : l = "by".toList
    · subst h6; rfl
    simp only [if_neg h1, if_neg h2, if_neg h3, if_neg h4, if_neg h5, if_neg h6]

theorem foldl_natural (unq : Str → Str) (L : List Str) (f : Elem) :
    L.foldl (procPair unq) (mapUnq unq f) = mapUnq unq (L.foldl (procPair id) f) := by
  induction L generalizing f with
  | nil => rfl
  | cons x r ih =>
    simp only [List.foldl_cons]
    rw [procPair_body, pairBody_natural, ← procPair_body, ih]

theorem parseElem_natural (unq : Str → Str) (raw : Str) :
    parseElem unq raw = (parseElem id raw).map (mapUnq unq) := by
  unfold parseElem
  by_cases h : strip raw = []
  · simp [h]
  · simp only [if_neg h, Option.map_some]
    rw [← foldl_natural]
    rfl

theorem parse_natural (unq : Str → Str) (s : Str) : parse unq s = (parse id s).map (mapUnq unq) := by
  unfold parse
  generalize split Xfcc.elemDelim false s = L
  induction L with
  | nil => rfl
  | cons x r ih =>
    simp only [List.filterMap_cons]
    rw [parseElem_natural unq x]
    cases parseElem id x with
    | none => simpa using ih
    | some e => simpa using ih

end Aux

open Aux

/-! ## the property theorems (obligations) -/

/-- every function of the XFCC half of `_mtls.py` still has the shape the model transliterates -/
theorem shape_ok :
    Xfcc.splitRecognised = true ∧ Xfcc.parseRecognised = true ∧ Xfcc.unescapeRecognised = true ∧
    Xfcc.cnRecognised = true ∧ Xfcc.authRecognised = true ∧
    Xfcc.escNeedsQuote = true ∧ Xfcc.delimNeedsUnquoted = true ∧ Xfcc.headerName = "x-forwarded-client-cert".toList := by
  decide

/-- The splitter returns exactly the segments that were joined — nothing splits, nothing merges — whenever every
segment is *balanced* (consumed by the quote/escape state machine without an active delimiter, ending unquoted). -/
theorem split_render (d : Char) (hd : d ≠ '"') (segs : List Str) (hne : segs ≠ []) (h : ∀ p ∈ segs, Balanced d p) :
    split d false (Spec.join d segs) = segs := by
  rw [← joinWith_eq]; exact split_join d hd segs hne h

/-- every rendered well-formed element is balanced, whatever text its quoted values contain -/
theorem balanced_elements (es : List (List Pair)) (h : WF es) : ∀ seg ∈ es.map renderElem, Balanced ',' seg := by
  intro x hx
  obtain ⟨ps, hps, rfl⟩ := List.mem_map.1 hx
  exact balanced_renderElem ps (h ps hps).2

/-- ROUND TRIP over the whole grammar: for every well-formed abstract header (any number of elements and pairs,
any text in quoted values, repeated / unknown / case-variant keys, optional white space) the parser returns
exactly one element per rendered element, each with exactly the meaning of its pairs. -/
theorem C43_parse_render (unq : Str → Str) (es : List (List Pair)) (h : WF es) :
    parse unq (render es) = es.map (meaning unq) :=
  parse_render unq es h

/-- ROUND TRIP on identities: rendering any list of non-empty identities canonically (all values quoted,
Cert/URI/By URL-encoded by any `enc` that `unq` inverts) and parsing gives the identities back. -/
theorem C43_roundtrip (unq enc : Str → Str) (hinv : ∀ x, unq (enc x) = x) (es : List Elem)
    (h : ∀ e ∈ es, e ≠ Elem.empty) : parse unq (renderIdent enc es) = es := by
  unfold renderIdent
  rw [parse_render]
  · rw [List.map_map]
    conv => rhs; rw [← List.map_id es]
    apply List.map_congr_left
    intro e _
    exact meaning_pairsOf unq enc hinv e
  · intro ps hps
    obtain ⟨e, he, rfl⟩ := List.mem_map.1 hps
    exact ⟨pairsOf_ne_nil enc e (h e he), wf_pairsOf enc e⟩

/-- SELECTION: on a rendered header `first` yields the outcome of the first element's meaning and `last` (in fact
any other value of `select_element`) that of the last element's meaning — `finish` sees nothing else. -/
theorem C43_select (unq : Str → Str) (hv : Bool) (es : List (List Pair)) (h : WF es) (hne : es ≠ []) :
    authenticate unq hv selFirst (some (render es)) = finish hv (meaning unq (es.head hne)) ∧
    (∀ sel, sel ≠ selFirst →
      authenticate unq hv sel (some (render es)) = finish hv (meaning unq (es.getLast hne))) := by
  have hr := render_ne_nil es h hne
  constructor
  · rw [auth_some unq hv _ _ hr, parse_render unq es h]
    cases es with
    | nil => exact absurd rfl hne
    | cons e r => simp only [List.map_cons, select_first, List.head_cons]
  · intro sel hsel
    rw [auth_some unq hv _ _ hr, parse_render unq es h]
    have hm : es.map (meaning unq) ≠ [] := by simpa using hne
    cases hes : es.map (meaning unq) with
    | nil => exact absurd hes hm
    | cons e r =>
      simp only
      rw [select_other sel (by rw [← selFirst_eq]; exact hsel) (e :: r) (by simp)]
      simp only
      congr 1
      have : (e :: r).getLast (by simp) = (es.map (meaning unq)).getLast hm := by simp [hes]
      rw [this, List.getLast_map]

/-- the outcome depends on the selected element ONLY: headers that share their first (last) element get the
same outcome under `first` (`last`), whatever the other elements contain -/
theorem C43_select_only (unq : Str → Str) (hv : Bool) (e : List Pair) (r1 r2 : List (List Pair)) :
    (WF (e :: r1) → WF (e :: r2) →
      authenticate unq hv selFirst (some (render (e :: r1))) = authenticate unq hv selFirst (some (render (e :: r2)))) ∧
    (WF (r1 ++ [e]) → WF (r2 ++ [e]) →
      authenticate unq hv selLast (some (render (r1 ++ [e]))) = authenticate unq hv selLast (some (render (r2 ++ [e])))) := by
  constructor
  · intro h1 h2
    rw [(C43_select unq hv _ h1 (by simp)).1, (C43_select unq hv _ h2 (by simp)).1]
    rfl
  · intro h1 h2
    rw [(C43_select unq hv _ h1 (by simp)).2 selLast (by decide), (C43_select unq hv _ h2 (by simp)).2 selLast (by decide)]
    simp

/-- INJECTION: replace the value of any pair by ANY text `t`, written as a quoted string.  The header still has
the same number of elements, every other element means what it meant, and in the attacked element only the
field named by the attacked pair's key can change. -/
theorem C43_injection (unq : Str → Str) (pre post : List (List Pair)) (a b : List Pair) (p : Pair) (t : Str)
    (h : WF (pre ++ (a ++ p :: b) :: post)) :
    let p' : Pair := { p with quoted := true, value := t }
    parse unq (render (pre ++ (a ++ p' :: b) :: post)) =
        pre.map (meaning unq) ++ meaning unq (a ++ p' :: b) :: post.map (meaning unq) ∧
    parse unq (render (pre ++ (a ++ p :: b) :: post)) =
        pre.map (meaning unq) ++ meaning unq (a ++ p :: b) :: post.map (meaning unq) ∧
    (∀ F, fieldOfKey p.key ≠ some F → lastValue F (a ++ p' :: b) = lastValue F (a ++ p :: b)) ∧
    (fieldOfKey p.key ≠ some .dns → dnsValues (a ++ p' :: b) = dnsValues (a ++ p :: b)) := by
  intro p'
  have hp' : p'.WF := by
    have hp : p.WF := (h (a ++ p :: b) (by simp)).2 p (by simp)
    exact { key := hp.key, bare := fun hq => (by cases hq), w1 := hp.w1, w2 := hp.w2, w3 := hp.w3, w4 := hp.w4 }
  have h' : WF (pre ++ (a ++ p' :: b) :: post) := by
    intro ps hps
    simp only [List.mem_append, List.mem_cons] at hps
    rcases hps with hps | rfl | hps
    · exact h ps (by simp [hps])
    · refine ⟨by simp, ?_⟩
      intro x hx
      simp only [List.mem_append, List.mem_cons] at hx
      rcases hx with hx | rfl | hx
      · exact (h (a ++ p :: b) (by simp)).2 x (by simp [hx])
      · exact hp'
      · exact (h (a ++ p :: b) (by simp)).2 x (by simp [hx])
    · exact h ps (by simp [hps])
  refine ⟨by rw [parse_render unq _ h']; simp, by rw [parse_render unq _ h]; simp, ?_, ?_⟩
  · intro F hF; exact lastValue_replace F a b p p' rfl hF
  · intro hF; exact dnsValues_replace a b p p' rfl hF

/-- INJECTION, seen from the identity: text injected into a pair of the *selected* element whose key does not name
the Subject cannot change the principal (which CN), and cannot change the URI / DNS SANs unless it is that field. -/
theorem C43_injection_identity (unq : Str → Str) (a b : List Pair) (p : Pair) (t : Str) :
    let p' : Pair := { p with quoted := true, value := t }
    (fieldOfKey p.key ≠ some .subject →
      principalOf (meaning unq (a ++ p' :: b)) = principalOf (meaning unq (a ++ p :: b))) ∧
    (fieldOfKey p.key ≠ some .uri → (meaning unq (a ++ p' :: b)).uri = (meaning unq (a ++ p :: b)).uri) ∧
    (fieldOfKey p.key ≠ some .dns → (meaning unq (a ++ p' :: b)).dns = (meaning unq (a ++ p :: b)).dns) := by
  intro p'
  refine ⟨?_, ?_, ?_⟩
  · intro h
    unfold principalOf meaning
    simp only [lastValue_replace .subject a b p p' rfl h]
  · intro h
    unfold meaning
    simp only [lastValue_replace .uri a b p p' rfl h]
  · intro h
    unfold meaning
    simp only [dnsValues_replace a b p p' rfl h]

/-- REJECTION: no header → `proxy_required`; a header that is non-empty as a string and parses to zero
elements → `invalid_credential`; the literally empty string → `proxy_required` (DESIGN §7.3 accepts either). -/
theorem C43_missing (unq : Str → Str) (hv : Bool) (sel : Str) :
    authenticate unq hv sel none = .failure proxyRequired ∧
    (∀ s, s ≠ [] → parse unq s = [] → authenticate unq hv sel (some s) = .failure invalidCredential) ∧
    authenticate unq hv sel (some []) = .failure proxyRequired := by
  refine ⟨rfl, ?_, rfl⟩
  intro s hs hp
  rw [auth_some unq hv sel s hs, hp]
  rfl

/-- a header has no element exactly when every comma-separated piece is white space -/
theorem C43_zero_elements (unq : Str → Str) (s : Str) :
    parse unq s = [] ↔ ∀ piece ∈ split ',' false s, ∀ c ∈ piece, isWs c = true := by
  unfold parse
  rw [elemDelim_eq]
  generalize split ',' false s = L
  induction L with
  | nil => simp
  | cons x r ih =>
    simp only [List.filterMap_cons, List.mem_cons, forall_eq_or_imp]
    cases hpe : parseElem unq x with
    | none =>
      have hx := (parseElem_none unq x).1 hpe
      simp only [ih]
      constructor
      · intro hr; exact ⟨fun c hc => by rw [← isSpace_eq]; exact strip_eq_nil hx c hc, hr⟩
      · intro hr; exact hr.2
    | some e =>
      simp only
      constructor
      · intro hr; cases hr
      · intro hr
        have : strip x = [] := strip_allSpace (fun c hc => by rw [isSpace_eq]; exact hr.1 c hc)
        rw [(parseElem_none unq x).2 this] at hpe
        cases hpe

/-- for EVERY header value (arbitrary strings included) the closure does one of three things: reject as missing,
reject as empty, or finish with an element the parser produced — the first for `first`, the last otherwise. -/
theorem C43_outcomes (unq : Str → Str) (hv : Bool) (sel : Str) (hdr : Option Str) :
    (authenticate unq hv sel hdr = .failure proxyRequired ∧ (hdr = none ∨ hdr = some [])) ∨
    (∃ s, hdr = some s ∧ s ≠ [] ∧ parse unq s = [] ∧ authenticate unq hv sel hdr = .failure invalidCredential) ∨
    (∃ s e r, hdr = some s ∧ parse unq s = e :: r ∧
      authenticate unq hv sel hdr = finish hv (if sel = selFirst then e else (e :: r).getLast (by simp))) := by
  cases hdr with
  | none => exact Or.inl ⟨rfl, Or.inl rfl⟩
  | some s =>
    by_cases hs : s = []
    · subst hs; exact Or.inl ⟨rfl, Or.inr rfl⟩
    · right
      cases hp : parse unq s with
      | nil => exact Or.inl ⟨s, rfl, hs, hp, (C43_missing unq hv sel).2.1 s hs hp⟩
      | cons e r =>
        refine Or.inr ⟨s, e, r, rfl, hp, ?_⟩
        rw [auth_some unq hv sel s hs, hp]
        simp only
        by_cases hsel : sel = selFirst
        · subst hsel; rw [select_first]; simp
        · rw [select_other sel (by rw [← selFirst_eq]; exact hsel) (e :: r) (by simp)]; simp [hsel]

/-- `urllib.parse.unquote` is natural in the parser: parsing with any `unq` equals parsing with the identity and
URL-decoding Cert/URI/By afterwards.  Hence (second part) a finite table that agrees with the real function on
the final Cert/URI/By texts gives the same parse — the protocol the correspondence harness uses. -/
theorem C43_unq_natural (unq : Str → Str) (s : Str) :
    parse unq s = (parse id s).map (mapUnq unq) ∧
    (∀ tbl : Str → Str,
      (∀ e ∈ parse id s, ∀ v, (e.cert = some v ∨ e.uri = some v ∨ e.by_ = some v) → tbl v = unq v) →
      parse tbl s = parse unq s) := by
  refine ⟨parse_natural unq s, ?_⟩
  intro tbl h
  rw [parse_natural tbl s, parse_natural unq s]
  apply List.map_congr_left
  intro e he
  obtain ⟨a, b, c, d, l, f⟩ := e
  have hb := h _ he
  simp only [mapUnq, Elem.mk.injEq, true_and]
  refine ⟨?_, ?_, ?_⟩
  · cases b with
    | none => rfl
    | some v => simp [hb v (Or.inl rfl)]
  · cases d with
    | none => rfl
    | some v => simp [hb v (Or.inr (Or.inl rfl))]
  · cases f with
    | none => rfl
    | some v => simp [hb v (Or.inr (Or.inr rfl))]

/-! ### non-vacuity and concrete instances -/

/-- the classic payload: a quoted Subject containing `",Hash=evil;Subject="CN=admin` stays one value of one element -/
example :
    parse id (render [[{ key := "Hash".toList, quoted := false, value := "a".toList },
                       { key := "Subject".toList, quoted := true, value := "CN=x\",Hash=evil;Subject=\"CN=admin".toList }],
                      [{ key := "Subject".toList, quoted := true, value := "CN=proxy".toList }]]) =
      [{ hash := some "a".toList, subject := some "CN=x\",Hash=evil;Subject=\"CN=admin".toList },
       { subject := some "CN=proxy".toList }]:= by decide +kernel

/-- the hypotheses of the round-trip theorems are satisfiable: this header is well formed -/
example : WF [[{ key := "Subject".toList, quoted := true, value := "CN=x\",Hash=evil;Subject=\"CN=admin".toList }]] := by
  intro ps hps
  simp only [List.mem_singleton] at hps
  subst hps
  refine ⟨by simp, fun p hp => ?_⟩
  simp only [List.mem_singleton] at hp
  subst hp
  exact wf_quoted _ _ (by decide)

example : Balanced ',' "Subject=\"CN=x\\\",Hash=evil\"".toList := by unfold Balanced; decide +kernel
example : ¬ Balanced ',' "Subject=\"CN=x".toList := by unfold Balanced; decide +kernel
example : ¬ Balanced ',' "a,b".toList := by unfold Balanced; decide +kernel

example : parse id ",, ,".toList = [] := by decide +kernel
example : authenticate id false selFirst (some ",".toList) = .failure invalidCredential := by decide +kernel
example : authenticate id false selLast none = .failure proxyRequired := by decide +kernel
example : authenticate id false selLast (some "Subject=\"CN=a\",Subject=\"O=x,CN=b\"".toList) =
    .ok "b".toList [("subject", .str "O=x,CN=b".toList)] := by decide +kernel

end VgiVerif.C43
