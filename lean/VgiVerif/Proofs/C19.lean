import VgiVerif.Model.C19
import VgiVerif.Spec.C19
import VgiVerif.Proofs.C18
/-
C19 theorems.  Helper lemmas in `Aux`; obligations at the bottom.
-/
namespace VgiVerif.C19
open VgiVerif.Codec VgiVerif.PyStr VgiVerif.HdrStr Spec

namespace Aux

/-! ### extracted shapes -/
theorem all_eq : Enc.all = [.zstd, .gzip, .identity] := by decide
theorem identity_stops : Gen.Negotiate.identityStops = true := rfl
theorem custom_first : Gen.Negotiate.candidateOrder = "custom_first" := by decide
theorem used_rule : Gen.Negotiate.usedCustomRule = "custom_and_not_standard" := by decide
theorem list_sep : Gen.Codec.listSep = ',' := by decide
theorem param_sep : Gen.Codec.paramSep = ';' := by decide
theorem strip_then_lower : Gen.Codec.parseStripThenLower = true := rfl
theorem skips_empty : Gen.Codec.parseSkipsEmpty = true := rfl
theorem stamp_sites : Gen.Negotiate.stampSites =
    [("X-VGI-Content-Encoding", "Content-Encoding"), ("X-VGI-Content-Encoding", "Content-Encoding")] := by decide
theorem published : ∀ e : Enc, e ≠ .identity → Gen.Negotiate.publishedCodecs.contains (String.ofList e.value) = true := by
  intro e h; cases e <;> first | decide | exact absurd rfl h
theorem values_nonempty : ∀ e : Enc, e.value ≠ [] := by intro e; cases e <;> decide
theorem values_inj : ∀ a b : Enc, a.value = b.value → a = b := by
  intro a b; cases a <;> cases b <;> decide

/-! ### list lemmas -/

theorem find?_filter_not_mem {α} [BEq α] [LawfulBEq α] (p : α → Bool) (c s : List α)
    (hc : c.find? p = none) : (s.filter (fun e => !c.contains e)).find? p = s.find? p := by
  induction s with
  | nil => rfl
  | cons x xs ih =>
    simp only [List.contains_eq_mem] at ih ⊢
    by_cases hx : x ∈ c
    · have hpx : p x = false := by
        have := List.find?_eq_none.mp hc x hx
        simpa using this
      simp only [List.filter_cons, hx, decide_true, Bool.not_true, Bool.false_eq_true, if_false, List.find?_cons, hpx]
      exact ih
    · simp only [List.filter_cons, hx, decide_false, Bool.not_false, if_true, List.find?_cons]
      cases p x
      · exact ih
      · rfl

theorem find?_candidates {α} [BEq α] [LawfulBEq α] (p : α → Bool) (c s : List α) :
    (c ++ s.filter (fun e => !c.contains e)).find? p = (c ++ s).find? p := by
  rw [List.find?_append, List.find?_append]
  cases hc : c.find? p with
  | some _ => rfl
  | none => rw [find?_filter_not_mem p c s hc]

theorem foldl_dedup_find? (p : Enc → Bool) (l : List Enc) : ∀ out,
    (l.foldl (fun out e => if out.contains e then out else out ++ [e]) out).find? p = (out ++ l).find? p := by
  induction l with
  | nil => intro out; simp
  | cons e r ih =>
    intro out
    simp only [List.foldl]
    rw [ih]
    by_cases he : out.contains e = true
    · simp only [he, if_true]
      rw [List.find?_append, List.find?_append]
      cases ho : out.find? p with
      | some _ => rfl
      | none =>
        have hpe : p e = false := by
          have := List.find?_eq_none.mp ho e (by simpa using he)
          simpa using this
        simp [List.find?, hpe]
    · simp only [he, Bool.false_eq_true, if_false, List.append_assoc, List.singleton_append]

theorem dedupFirst_find? (p : Enc → Bool) (l : List Enc) : (dedupFirst l).find? p = l.find? p := by
  simpa [dedupFirst] using foldl_dedup_find? p l []

theorem foldl_dedup_mem (x : Enc) (l : List Enc) : ∀ out,
    x ∈ l.foldl (fun out e => if out.contains e then out else out ++ [e]) out ↔ x ∈ out ∨ x ∈ l := by
  induction l with
  | nil => intro out; simp
  | cons e r ih =>
    intro out
    simp only [List.foldl]
    rw [ih]
    by_cases he : out.contains e = true
    · simp only [he, if_true, List.mem_cons]
      have : e ∈ out := by simpa using he
      constructor
      · rintro (h | h); exact Or.inl h; exact Or.inr (Or.inr h)
      · rintro (h | h | h); exact Or.inl h; exact Or.inl (h ▸ this); exact Or.inr h
    · simp only [he, List.mem_append, List.mem_cons, List.mem_singleton]
      simp
      constructor
      · rintro ((h | h) | h); exact Or.inl h; exact Or.inr (Or.inl h); exact Or.inr (Or.inr h)
      · rintro (h | h | h); exact Or.inl (Or.inl h); exact Or.inl (Or.inr h); exact Or.inr h

theorem mem_dedupFirst (x : Enc) (l : List Enc) : x ∈ dedupFirst l ↔ x ∈ l := by
  simpa [dedupFirst] using foldl_dedup_mem x l []

theorem foldl_filterMap {α β γ} (f : α → Option β) (g : γ → β → γ) (l : List α) : ∀ init,
    (l.filterMap f).foldl g init = l.foldl (fun acc x => match f x with | some y => g acc y | none => acc) init := by
  induction l with
  | nil => intro init; rfl
  | cons x xs ih =>
    intro init
    simp only [List.filterMap_cons, List.foldl]
    cases f x with
    | none => simp [ih]
    | some y => simp [List.foldl, ih]

/-! ### the choice -/

theorem pickLoop_fst (levels custom standard : List Enc) (l : List Enc) :
    (pickLoop levels custom standard l).1 = choose l levels := by
  induction l with
  | nil => simp [pickLoop, choose, firstProducible]
  | cons e r ih =>
    simp only [pickLoop, identity_stops, Bool.true_and]
    by_cases hid : e = .identity
    · subst hid; simp [choose, firstProducible]
    · simp only [hid, decide_false]
      by_cases hl : levels.contains e = true
      · simp only [hl, if_true]
        have hb : (e == Enc.identity) = false := by simpa using hid
        simp only [choose, firstProducible, List.find?, hb, hl, Bool.false_or]
        cases e <;> first | rfl | exact absurd rfl hid
      · simp only [Bool.not_eq_true] at hl
        have hb : (e == Enc.identity) = false := by simpa using hid
        simp only [hl, Bool.false_eq_true, if_false, ih]
        simp only [choose, firstProducible, List.find?_cons, hb, hl, Bool.or_self]

theorem candidates_eq (c s : List Enc) : candidates c s = c ++ s.filter (fun e => !c.contains e) := by
  simp [candidates, custom_first]

theorem pickLoop_snd (levels custom standard : List Enc) (l : List Enc) (e : Enc) (u : Bool)
    (h : pickLoop levels custom standard l = (some e, u)) :
    e ∈ l ∧ levels.contains e = true ∧ e ≠ .identity ∧ u = (custom.contains e && !standard.contains e) := by
  induction l with
  | nil => simp [pickLoop] at h
  | cons x r ih =>
    simp only [pickLoop, identity_stops, Bool.true_and] at h
    by_cases hid : x = .identity
    · simp [hid] at h
    · simp only [hid, decide_false, Bool.false_eq_true, if_false] at h
      by_cases hl : levels.contains x = true
      · simp only [hl, if_true, used_rule, Prod.mk.injEq, Option.some.injEq] at h
        obtain ⟨rfl, rfl⟩ := h
        exact ⟨by simp, hl, hid, by simp⟩
      · simp only [hl, Bool.false_eq_true, if_false] at h
        obtain ⟨h1, h2, h3, h4⟩ := ih h
        exact ⟨by simp [h1], h2, h3, h4⟩

/-! ### characters -/

def inSpace (n : Nat) : Bool := Gen.PyChars.spaceRanges.any (fun r => decide (r.1 ≤ n) && decide (n ≤ r.2))

theorem isSpace_eq (c : Char) : isSpace c = inSpace c.toNat := rfl

theorem upper_facts : ∀ n < 91, 65 ≤ n →
    inSpace n = false ∧ (Char.ofNat (n + 32)).toNat = n + 32 ∧ inSpace (n + 32) = false ∧ n + 32 ≠ 59 := by decide

theorem special_facts : ∀ e ∈ Gen.PyChars.lowerSpecial,
    inSpace e.1 = false ∧ e.1 ≠ 59 ∧ e.2 ≠ [] ∧ ∀ d ∈ e.2, inSpace (Char.ofNat d).toNat = false ∧ Char.ofNat d ≠ ';' := by
  decide

theorem semi_facts : isSpace ';' = false ∧ lowerChar ';' = [';'] ∧ (';' : Char).toNat = 59 := by decide

/-- the three shapes `lowerChar c` can take, with what the tables say about each -/
theorem lowerChar_cases (c : Char) :
    (lowerChar c = [c]) ∨
    (isSpace c = false ∧ c ≠ ';' ∧ lowerChar c ≠ [] ∧ ∀ d ∈ lowerChar c, isSpace d = false ∧ d ≠ ';') := by
  unfold lowerChar
  by_cases hu : 65 ≤ c.toNat ∧ c.toNat ≤ 90
  · right
    obtain ⟨h1, h2, h3, h4⟩ := upper_facts c.toNat (by omega) hu.1
    simp only [hu, and_self, if_true]
    refine ⟨by rw [isSpace_eq]; exact h1, ?_, by simp, ?_⟩
    · intro hc; rw [hc] at hu; have := semi_facts.2.2; omega
    · intro d hd
      simp at hd; subst hd
      refine ⟨by rw [isSpace_eq, h2]; exact h3, ?_⟩
      intro hc
      have := congrArg Char.toNat hc
      rw [h2, semi_facts.2.2] at this
      omega
  · simp only [hu, if_false]
    cases hf : Gen.PyChars.lowerSpecial.find? (fun e => decide (e.1 = c.toNat)) with
    | none => left; rfl
    | some e =>
      right
      have hmem := List.mem_of_find?_eq_some hf
      have heq : e.1 = c.toNat := by simpa using List.find?_some hf
      obtain ⟨h1, h2, h3, h4⟩ := special_facts e hmem
      refine ⟨by rw [isSpace_eq, ← heq]; exact h1, ?_, by simpa using h3, ?_⟩
      · intro hc; rw [hc, semi_facts.2.2] at heq; exact h2 heq
      · intro d hd
        simp only [List.mem_map] at hd
        obtain ⟨n, hn, rfl⟩ := hd
        exact ⟨by rw [isSpace_eq]; exact (h4 n hn).1, (h4 n hn).2⟩

theorem lowerChar_space {c : Char} (h : isSpace c = true) : lowerChar c = [c] := by
  rcases lowerChar_cases c with h1 | ⟨h2, _⟩
  · exact h1
  · rw [h] at h2; exact absurd h2 (by simp)

theorem lowerChar_nonspace {c : Char} (h : isSpace c = false) :
    lowerChar c ≠ [] ∧ ∀ d ∈ lowerChar c, isSpace d = false := by
  rcases lowerChar_cases c with h1 | ⟨_, _, h3, h4⟩
  · rw [h1]; exact ⟨by simp, by simp [h]⟩
  · exact ⟨h3, fun d hd => (h4 d hd).1⟩

theorem lowerChar_semi_iff (c : Char) : ';' ∈ lowerChar c ↔ c = ';' := by
  constructor
  · intro hm
    rcases lowerChar_cases c with h1 | ⟨_, _, _, h4⟩
    · rw [h1] at hm; exact (List.mem_singleton.mp hm).symm
    · exact absurd rfl (h4 _ hm).2
  · rintro rfl; rw [semi_facts.2.1]; simp

/-! ### strings -/

theorem lower_cons (c : Char) (cs : List Char) : lower (c :: cs) = lowerChar c ++ lower cs := by
  simp [lower]

theorem lower_append (a b : List Char) : lower (a ++ b) = lower a ++ lower b := by
  simp [lower]

theorem lowerChar_ne_nil (c : Char) : lowerChar c ≠ [] := by
  rcases lowerChar_cases c with h | ⟨_, _, h, _⟩
  · rw [h]; simp
  · exact h

theorem lower_eq_nil {s : List Char} : lower s = [] ↔ s = [] := by
  cases s with
  | nil => simp [lower]
  | cons c cs =>
    rw [lower_cons]
    have := lowerChar_ne_nil c
    simp [this]

theorem lstrip_cons_space {c : Char} (h : isSpace c = true) (cs : List Char) : lstrip (c :: cs) = lstrip cs := by
  simp [lstrip, List.dropWhile, h]

theorem lstrip_cons_nonspace {c : Char} (h : isSpace c = false) (cs : List Char) : lstrip (c :: cs) = c :: cs := by
  simp [lstrip, List.dropWhile, h]

theorem lower_lstrip (s : List Char) : lower (lstrip s) = lstrip (lower s) := by
  induction s with
  | nil => rfl
  | cons c cs ih =>
    cases h : isSpace c with
    | true =>
      rw [lstrip_cons_space h, lower_cons, lowerChar_space h, ih]
      simp [lstrip_cons_space h]
    | false =>
      rw [lstrip_cons_nonspace h, lower_cons]
      obtain ⟨hne, hall⟩ := lowerChar_nonspace h
      cases hl : lowerChar c with
      | nil => exact absurd hl hne
      | cons d ds =>
        have : isSpace d = false := hall d (by rw [hl]; simp)
        simp [lstrip_cons_nonspace this]

theorem rstrip_eq_nil_iff (s : List Char) : rstrip s = [] ↔ ∀ c ∈ s, isSpace c = true := by
  induction s with
  | nil => simp [rstrip]
  | cons c cs ih =>
    simp only [rstrip]
    cases hr : rstrip cs with
    | nil =>
      have hall := ih.mp hr
      cases hc : isSpace c with
      | true => simp [hc]; exact hall
      | false => simp [hc]
    | cons r rs =>
      simp only [reduceCtorEq, false_iff]
      intro hall
      have : rstrip cs = [] := ih.mpr (fun x hx => hall x (by simp [hx]))
      rw [hr] at this
      exact absurd this (by simp)

theorem rstrip_cons_of_ne_nil {c : Char} {cs : List Char} (h : rstrip cs ≠ []) : rstrip (c :: cs) = c :: rstrip cs := by
  cases hr : rstrip cs with
  | nil => exact absurd hr h
  | cons r rs => simp only [rstrip, hr]

theorem rstrip_cons_of_nil {c : Char} {cs : List Char} (h : rstrip cs = []) :
    rstrip (c :: cs) = if isSpace c then [] else [c] := by
  simp only [rstrip, h]

theorem rstrip_append (a b : List Char) : rstrip (a ++ b) = if rstrip b = [] then rstrip a else a ++ rstrip b := by
  induction a with
  | nil => simp [rstrip]
  | cons c cs ih =>
    by_cases hb : rstrip b = []
    · simp only [hb, if_true] at ih ⊢
      simp only [List.cons_append, rstrip, ih]
    · simp only [hb, if_false] at ih ⊢
      have : rstrip (cs ++ b) ≠ [] := by
        rw [ih]; cases cs <;> simp [hb]
      simp only [List.cons_append]
      rw [rstrip_cons_of_ne_nil this, ih]

theorem rstrip_nonspace (l : List Char) (h : ∀ d ∈ l, isSpace d = false) : rstrip l = l := by
  induction l with
  | nil => rfl
  | cons c cs ih =>
    have hc : isSpace c = false := h c (by simp)
    have hcs := ih (fun d hd => h d (by simp [hd]))
    cases cs with
    | nil => simp [rstrip, hc]
    | cons x xs =>
      have : rstrip (x :: xs) ≠ [] := by rw [hcs]; simp
      rw [rstrip_cons_of_ne_nil this, hcs]

theorem lower_rstrip (s : List Char) : lower (rstrip s) = rstrip (lower s) := by
  induction s with
  | nil => rfl
  | cons c cs ih =>
    rw [lower_cons, rstrip_append]
    by_cases hr : rstrip cs = []
    · have hr' : rstrip (lower cs) = [] := by rw [← ih, hr]; rfl
      rw [rstrip_cons_of_nil hr]
      simp only [hr', if_true]
      cases hc : isSpace c with
      | true =>
        rw [lowerChar_space hc]
        simp [rstrip, hc, lower]
      | false =>
        obtain ⟨_, hall⟩ := lowerChar_nonspace hc
        rw [rstrip_nonspace _ hall]
        simp [lower]
    · have hr' : rstrip (lower cs) ≠ [] := by
        rw [← ih]; intro h; exact hr (lower_eq_nil.mp h)
      rw [rstrip_cons_of_ne_nil hr]
      simp only [hr', if_false]
      rw [lower_cons, ih]

theorem lower_strip (s : List Char) : lower (strip s) = strip (lower s) := by
  simp [strip, lower_rstrip, lower_lstrip]

theorem semi_nonspace : isSpace ';' = false := semi_facts.1

theorem lower_takeWhile_semi (s : List Char) :
    lower (s.takeWhile (· != ';')) = (lower s).takeWhile (· != ';') := by
  induction s with
  | nil => rfl
  | cons c cs ih =>
    by_cases hc : c = ';'
    · subst hc
      rw [lower_cons, semi_facts.2.1]
      simp [lower]
    · have h1 : (c != ';') = true := by simpa using hc
      rw [List.takeWhile_cons_of_pos (p := fun x => x != ';') h1, lower_cons, lower_cons, ih]
      have : ∀ d ∈ lowerChar c, (d != ';') = true := by
        intro d hd
        have : d ≠ ';' := by
          intro h; subst h
          exact hc ((lowerChar_semi_iff c).mp hd)
        simpa using this
      rw [List.takeWhile_append_of_pos this]

theorem mem_lower_semi (s : List Char) : ';' ∈ lower s ↔ ';' ∈ s := by
  simp only [lower, List.mem_flatMap]
  constructor
  · rintro ⟨c, hc, hm⟩
    rw [(lowerChar_semi_iff c).mp hm] at hc; exact hc
  · intro h; exact ⟨';', h, (lowerChar_semi_iff ';').mpr rfl⟩

theorem mem_lstrip_semi (s : List Char) : ';' ∈ lstrip s ↔ ';' ∈ s := by
  induction s with
  | nil => simp [lstrip]
  | cons c cs ih =>
    cases h : isSpace c with
    | true =>
      rw [lstrip_cons_space h, ih]
      have : c ≠ ';' := by intro hc; rw [hc, semi_nonspace] at h; exact absurd h (by simp)
      simp [Ne.symm this]
    | false => rw [lstrip_cons_nonspace h]

theorem mem_rstrip_semi (s : List Char) : ';' ∈ rstrip s ↔ ';' ∈ s := by
  induction s with
  | nil => simp [rstrip]
  | cons c cs ih =>
    by_cases hr : rstrip cs = []
    · rw [rstrip_cons_of_nil hr]
      have hall := (rstrip_eq_nil_iff cs).mp hr
      have hcs : ';' ∉ cs := by
        intro hm; have := hall _ hm; rw [semi_nonspace] at this; exact absurd this (by simp)
      cases hc : isSpace c with
      | true =>
        have : c ≠ ';' := by intro h; rw [h, semi_nonspace] at hc; exact absurd hc (by simp)
        simp [hcs, Ne.symm this]
      | false => simp [hcs]
    · rw [rstrip_cons_of_ne_nil hr]
      simp [ih]

theorem mem_strip_semi (s : List Char) : ';' ∈ strip s ↔ ';' ∈ s := by
  simp [strip, mem_rstrip_semi, mem_lstrip_semi]

theorem takeWhile_lstrip (s : List Char) :
    (lstrip s).takeWhile (· != ';') = lstrip (s.takeWhile (· != ';')) := by
  induction s with
  | nil => rfl
  | cons c cs ih =>
    cases h : isSpace c with
    | true =>
      have hne : c ≠ ';' := by intro hc; rw [hc, semi_nonspace] at h; exact absurd h (by simp)
      have h1 : (c != ';') = true := by simpa using hne
      rw [lstrip_cons_space h, ih, List.takeWhile_cons_of_pos (p := fun x => x != ';') h1, lstrip_cons_space h]
    | false =>
      rw [lstrip_cons_nonspace h]
      by_cases hc : c = ';'
      · subst hc; simp [lstrip]
      · have h1 : (c != ';') = true := by simpa using hc
        rw [List.takeWhile_cons_of_pos (p := fun x => x != ';') h1, lstrip_cons_nonspace h]

theorem takeWhile_rstrip (s : List Char) (h : ';' ∈ s) :
    (rstrip s).takeWhile (· != ';') = s.takeWhile (· != ';') := by
  induction s with
  | nil => simp at h
  | cons c cs ih =>
    by_cases hc : c = ';'
    · subst hc
      have : rstrip (';' :: cs) = ';' :: (rstrip (';' :: cs)).tail := by
        by_cases hr : rstrip cs = []
        · rw [rstrip_cons_of_nil hr]; simp [semi_nonspace]
        · rw [rstrip_cons_of_ne_nil hr]; rfl
      rw [this]; simp
    · have hm : ';' ∈ cs := by
        rcases List.mem_cons.mp h with h | h
        · exact absurd h.symm hc
        · exact h
      have hr : rstrip cs ≠ [] := by
        intro hr
        have := (rstrip_eq_nil_iff cs).mp hr _ hm
        rw [semi_nonspace] at this; exact absurd this (by simp)
      have h1 : (c != ';') = true := by simpa using hc
      rw [rstrip_cons_of_ne_nil hr, List.takeWhile_cons_of_pos (p := fun x => x != ';') h1, List.takeWhile_cons_of_pos (p := fun x => x != ';') h1, ih hm]

theorem lstrip_idem (s : List Char) : lstrip (lstrip s) = lstrip s := by
  induction s with
  | nil => rfl
  | cons c cs ih =>
    cases h : isSpace c with
    | true => rw [lstrip_cons_space h, ih]
    | false => rw [lstrip_cons_nonspace h, lstrip_cons_nonspace h]

theorem takeWhile_no_semi (s : List Char) (h : ';' ∉ s) : s.takeWhile (· != ';') = s := by
  induction s with
  | nil => rfl
  | cons c cs ih =>
    have hc : c ≠ ';' := fun hc => h (by simp [hc])
    have h1 : (c != ';') = true := by simpa using hc
    rw [List.takeWhile_cons_of_pos (p := fun x => x != ';') h1, ih (fun hm => h (by simp [hm]))]

/-- the name the model cuts out of an item equals the spec's "drop parameters, trim, fold case" -/
theorem token_eq (raw : List Char) :
    (if (lower (strip raw)).contains ';' then strip ((lower (strip raw)).takeWhile (· != ';')) else lower (strip raw))
      = lower (strip (raw.takeWhile (· != ';'))) := by
  rw [lower_strip, lower_strip, lower_takeWhile_semi]
  generalize lower raw = L
  by_cases hs : ';' ∈ L
  · have h1 : (strip L).contains ';' = true := by simpa using (mem_strip_semi L).mpr hs
    simp only [h1, if_true]
    have h2 : ';' ∈ lstrip L := (mem_lstrip_semi L).mpr hs
    show rstrip (lstrip ((rstrip (lstrip L)).takeWhile (· != ';'))) = rstrip (lstrip (L.takeWhile (· != ';')))
    rw [takeWhile_rstrip _ h2, takeWhile_lstrip, lstrip_idem]
  · have h1 : (strip L).contains ';' = false := by
      have : ';' ∉ strip L := fun h => hs ((mem_strip_semi L).mp h)
      simpa using this
    simp only [h1, Bool.false_eq_true, if_false]
    rw [takeWhile_no_semi L hs]

theorem find?_and_unique {α} (l : List α) (p q : α → Bool)
    (huniq : ∀ a ∈ l, ∀ b ∈ l, p a = true → p b = true → a = b) :
    l.find? (fun x => p x && q x) =
      match l.find? p with
      | some a => if q a then some a else none
      | none => none := by
  induction l with
  | nil => rfl
  | cons x xs ih =>
    simp only [List.find?_cons]
    cases hp : p x with
    | false =>
      simp only [Bool.false_and]
      exact ih (fun a ha b hb => huniq a (by simp [ha]) b (by simp [hb]))
    | true =>
      simp only [Bool.true_and]
      cases hq : q x with
      | true => simp
      | false =>
        simp only [Bool.false_eq_true, if_false]
        apply List.find?_eq_none.mpr
        intro y hy
        by_cases hpy : p y = true
        · have : x = y := huniq x (by simp) y (by simp [hy]) hp hpy
          subst this; simp [hq]
        · simp [hpy]

end Aux

/-- what one list item contributes according to the *model* (the inner part of `parseStep`) -/
def recogniseM (raw : List Char) : Option Enc :=
  let t0 := lower (strip raw)
  if t0.isEmpty then none
  else Enc.all.find? (fun e => decide (e.value =
    (if t0.contains ';' then strip (t0.takeWhile (· != ';')) else t0)))

namespace Aux

theorem parseStep_eq (out : List Enc) (raw : List Char) :
    parseStep out raw = match recogniseM raw with
      | some e => if out.contains e then out else out ++ [e]
      | none => out := by
  simp only [parseStep, recogniseM, strip_then_lower, skips_empty, param_sep, if_true, Bool.and_true]
  by_cases h0 : (lower (strip raw)).isEmpty = true
  · simp [h0]
  · simp only [h0, Bool.false_eq_true, if_false]
    generalize (if (lower (strip raw)).contains ';' = true then strip (List.takeWhile (fun x => x != ';') (lower (strip raw)))
      else lower (strip raw)) = t
    rw [find?_and_unique Enc.all (fun e => decide (e.value = t)) (fun e => !out.contains e)]
    · cases Enc.all.find? (fun e => decide (e.value = t)) with
      | none => rfl
      | some e => by_cases hm : e ∈ out <;> simp [hm]
    · intro a _ b _ ha hb
      simp only [decide_eq_true_eq] at ha hb
      exact values_inj a b (ha.trans hb.symm)

theorem parse_eq_dedup (h : List Char) :
    parseEncodingList h = dedupFirst ((splitOn ',' h).filterMap recogniseM) := by
  simp only [parseEncodingList, dedupFirst, list_sep, foldl_filterMap]
  congr 1
  funext out raw
  rw [parseStep_eq]
  cases recogniseM raw <;> rfl

theorem lookup_of_contains (levels : List (Enc × Int)) (e : Enc) (h : (levels.map (·.1)).contains e = true) :
    ∃ lvl, levels.lookup e = some lvl := by
  induction levels with
  | nil => simp at h
  | cons p ps ih =>
    by_cases hp : e = p.1
    · exact ⟨p.2, by simp [List.lookup, hp]⟩
    · have : (ps.map (·.1)).contains e = true := by
        simp only [List.map_cons, List.contains_cons, Bool.or_eq_true, beq_iff_eq] at h
        rcases h with h | h
        · exact absurd h hp
        · exact h
      obtain ⟨lvl, hl⟩ := ih this
      have hb : (e == p.1) = false := by simpa using hp
      exact ⟨lvl, by simp [List.lookup, hb, hl]⟩

theorem stamp_eq (site : Nat) (hs : site < 2) (e : Enc) (u : Bool) (body : Bytes) :
    stamp site e u body = ⟨body, if u then none else some e, if u then some e else none⟩ := by
  have : site = 0 ∨ site = 1 := by omega
  rcases this with rfl | rfl <;> cases u <;> simp [stamp, stamp_sites]

end Aux

/-! ## Obligations -/

/-- **C19_recognise** — what the code extracts from one list item (strip, lower, cut at `;`, strip) is the spec's reading
(drop the parameters, trim, compare case-insensitively), for every string. -/
theorem C19_recognise (raw : List Char) : recogniseM raw = Spec.recognise raw := by
  unfold recogniseM Spec.recognise
  by_cases h0 : (lower (strip raw)).isEmpty = true
  · have hnil : lower (strip raw) = [] := List.isEmpty_iff.mp h0
    have hname : lower (strip (raw.takeWhile (· != ';'))) = [] := by
      rw [← Aux.token_eq raw, hnil]; simp
    simp only [h0, if_true, hname]
    symm
    apply List.find?_eq_none.mpr
    intro e _
    simp [Aux.values_nonempty e]
  · simp only [h0, Bool.false_eq_true, if_false]
    rw [Aux.token_eq raw]

/-- **C19_parse** — for every header string, `parse_encoding_list` returns the codings the header offers, in order of first
occurrence, without duplicates; unknown tokens, parameters, case and surrounding whitespace do not matter. -/
theorem C19_parse (h : List Char) :
    parseEncodingList h = dedupFirst (offered h) ∧
    (∀ e, e ∈ parseEncodingList h ↔ e ∈ offered h) := by
  have hrec : recogniseM = Spec.recognise := funext C19_recognise
  have h1 : parseEncodingList h = dedupFirst (offered h) := by
    rw [Aux.parse_eq_dedup, hrec]; rfl
  exact ⟨h1, fun e => by rw [h1]; exact Aux.mem_dedupFirst e _⟩

/-- **C19_choice (lists)** — for all parsed lists and every server set: the chosen coding is the first producible entry of
`custom ++ standard` (the de-duplication the code applies to `standard` changes nothing), `none` when that entry is identity or
there is none. -/
theorem C19_choice_lists (levels custom standard : List Enc) :
    (pick levels custom standard).1 = choose (custom ++ standard) levels := by
  rw [pick, Aux.pickLoop_fst, Aux.candidates_eq]
  simp only [choose, firstProducible, Aux.find?_candidates]

/-- **C19_choice** — for every pair of header values (each possibly absent) and every server set, the response coding is
the first entry the server can produce in the client's preference order, VGI header first; none when identity comes first
or nothing overlaps. -/
theorem C19_choice (levels : List Enc) (ae xae : Option (List Char)) :
    (pickHeaders levels ae xae).1 = chosen xae ae levels := by
  rw [pickHeaders, C19_choice_lists, chosen, (C19_parse _).1, (C19_parse _).1]
  simp only [choose, firstProducible, List.find?_append, Aux.dedupFirst_find?]

/-- **C19_header** — when a coding `e` is chosen: the server can produce it, it is not identity, the "custom header" flag
is set exactly when the client offered `e` under `X-VGI-Accept-Encoding` and not under `Accept-Encoding`; so the announcing
header is always one the client offered `e` under; and both stamping sites put `e` on exactly one header accordingly. -/
theorem C19_header (levels : List Enc) (ae xae : Option (List Char)) (e : Enc) (u : Bool)
    (h : pickHeaders levels ae xae = (some e, u)) :
    e ∈ levels ∧ e ≠ .identity ∧
    (u = true ↔ announceOnCustom e xae ae) ∧
    (u = true → e ∈ offered (xae.getD [])) ∧ (u = false → e ∈ offered (ae.getD [])) ∧
    ∀ site body, site < 2 → stamp site e u body = ⟨body, if u then none else some e, if u then some e else none⟩ := by
  obtain ⟨hmem, hlv, hid, hu⟩ := Aux.pickLoop_snd _ _ _ _ _ _ h
  rw [Aux.candidates_eq] at hmem
  have hc : ∀ x, x ∈ parseEncodingList (xae.getD []) ↔ x ∈ offered (xae.getD []) := (C19_parse _).2
  have hs : ∀ x, x ∈ parseEncodingList (ae.getD []) ↔ x ∈ offered (ae.getD []) := (C19_parse _).2
  have hu' : u = true ↔ (e ∈ offered (xae.getD []) ∧ e ∉ offered (ae.getD [])) := by
    rw [hu]; simp [hc, hs]
  have hin : e ∈ offered (xae.getD []) ∨ e ∈ offered (ae.getD []) := by
    rcases List.mem_append.mp hmem with h1 | h1
    · exact Or.inl ((hc e).mp h1)
    · exact Or.inr ((hs e).mp (List.mem_filter.mp h1).1)
  refine ⟨by simpa using hlv, hid, hu', fun ht => (hu'.mp ht).1, ?_, fun site body hs' => Aux.stamp_eq site hs' e u body⟩
  intro hf
  rcases hin with h1 | h1
  · by_cases h2 : e ∈ offered (ae.getD [])
    · exact h2
    · have := hu'.mpr ⟨h1, h2⟩
      rw [hf] at this; exact absurd this (by simp)
  · exact h1

/-- the compressors of the response side emit honest frames as seen by the client's libraries -/
def HonestResp (L : Libs) (RL : RespLibs) : Prop :=
  (∀ lvl x, C18.Spec.HonestZ (L.zstdView (RL.zstdStream lvl x)) x) ∧
  (∀ lvl x, C18.Spec.HonestZ (L.zstdView (RL.zstdOneShot lvl x)) x) ∧
  (∀ lvl x, C18.Spec.HonestG (L.gzipView (RL.gzipStream lvl x)) x) ∧
  (∀ x, C18.Spec.HonestZ (L.zstdView (RL.arrowCompress .zstd x)) x) ∧
  (∀ x, C18.Spec.HonestG (L.gzipView (RL.arrowCompress .gzip x)) x)

theorem decode_zstd (L : Libs) (y x : Bytes) (h : C18.Spec.HonestZ (L.zstdView y) x) :
    (C18.decompress L .zstd y none).out = .ok x := by
  have := (C18.C18_cap_zstd _ x h).1
  simpa [C18.decompress, C18.Aux.mem_decompressDispatch] using this

theorem decode_gzip (L : Libs) (y x : Bytes) (h : C18.Spec.HonestG (L.gzipView y) x) :
    (C18.decompress L .gzip y none).out = .ok x := by
  have := (C18.C18_cap_gzip _ x h).1
  simpa [C18.decompress, C18.Aux.mem_decompressDispatch] using this

theorem clientDecode_stamp (L : Libs) (site : Nat) (hs : site < 2) (e : Enc) (u : Bool) (body : Bytes) :
    clientDecode L (stamp site e u body) = (C18.decompress L e body none).out := by
  rw [Aux.stamp_eq site hs]
  cases u <;> simp [clientDecode]

/-- **C19_body** — for every header pair, server level table and handler output, what the client decodes is the handler's
IPC bytes: on the unary path (middleware compression) and on the producer path (compressed into the IPC sink, or — if Arrow
refuses the codec — compressed by the middleware after all). -/
theorem C19_body (L : Libs) (RL : RespLibs) (hH : HonestResp L RL) (levels : List (Enc × Int))
    (ae xae : Option (List Char)) (ipc : Bytes) (arrowAccepts : Bool) :
    clientDecode L (respondUnary RL levels ae xae ipc) = .ok ipc ∧
    clientDecode L (respondProducer RL levels arrowAccepts ae xae ipc) = .ok ipc := by
  obtain ⟨hZs, hZo, hGs, hAz, hAg⟩ := hH
  -- the middleware-compression case, shared by both paths
  have hmw : ∀ (chosen : Option Enc) (u : Bool), pickHeaders (levels.map (·.1)) ae xae = (chosen, u) →
      clientDecode L (processResponse RL levels chosen u ⟨true, false, .io ipc true⟩) = .ok ipc := by
    intro chosen u hp
    cases chosen with
    | none => simp [processResponse, clientDecode, Stream.bytes]
    | some e =>
      obtain ⟨_, hlv, hid, _⟩ := Aux.pickLoop_snd _ _ _ _ _ _ hp
      obtain ⟨lvl, hl⟩ := Aux.lookup_of_contains levels e hlv
      by_cases hemp : ipc.isEmpty = true
      · simp [processResponse, clientDecode, Stream.bytes, hemp]
      · cases e with
        | identity => exact absurd rfl hid
        | zstd =>
          simp only [processResponse, Bool.not_true, Bool.false_eq_true, if_false, hemp, hl, if_true]
          rw [clientDecode_stamp L 1 (by omega)]
          exact decode_zstd L _ ipc (hZs lvl ipc)
        | gzip =>
          simp only [processResponse, Bool.not_true, Bool.false_eq_true, if_false, hemp, hl]
          rw [clientDecode_stamp L 1 (by omega)]
          exact decode_gzip L _ ipc (hGs lvl ipc)
  constructor
  · simp only [respondUnary]
    cases hp : pickHeaders (levels.map (·.1)) ae xae with
    | mk chosen u => exact hmw chosen u hp
  · simp only [respondProducer]
    cases hp : pickHeaders (levels.map (·.1)) ae xae with
    | mk chosen u =>
      simp only
      cases chosen with
      | none => simp [publishedCodec, producerBody, processResponse, clientDecode, Stream.bytes]
      | some e =>
        obtain ⟨_, _, hid, _⟩ := Aux.pickLoop_snd _ _ _ _ _ _ hp
        have hpub : publishedCodec (some e) = some e := by
          simp only [publishedCodec, Aux.published e hid, if_true]
        cases arrowAccepts with
        | false =>
          simp only [hpub, producerBody, Bool.false_eq_true, if_false]
          exact hmw (some e) u hp
        | true =>
          simp only [hpub, producerBody, if_true, processResponse, Bool.not_true, Bool.false_eq_true, if_false, Stream.bytes]
          rw [clientDecode_stamp L 0 (by omega)]
          cases e with
          | identity => exact absurd rfl hid
          | zstd => exact decode_zstd L _ ipc (hAz ipc)
          | gzip => exact decode_gzip L _ ipc (hAg ipc)

/-- **C19_paths** — the pre-compressed producer path and middleware compression announce the coding identically: for every
header pair and non-empty body, both responses carry the same `Content-Encoding` / `X-VGI-Content-Encoding`. -/
theorem C19_paths (RL : RespLibs) (levels : List (Enc × Int)) (ae xae : Option (List Char)) (ipc : Bytes) (hne : ipc ≠ []) :
    (respondUnary RL levels ae xae ipc).contentEncoding = (respondProducer RL levels true ae xae ipc).contentEncoding ∧
    (respondUnary RL levels ae xae ipc).xVgiContentEncoding = (respondProducer RL levels true ae xae ipc).xVgiContentEncoding := by
  simp only [respondUnary, respondProducer]
  cases hp : pickHeaders (levels.map (·.1)) ae xae with
  | mk chosen u =>
    simp only
    cases chosen with
    | none => simp [publishedCodec, producerBody, processResponse]
    | some e =>
      obtain ⟨_, hlv, hid, _⟩ := Aux.pickLoop_snd _ _ _ _ _ _ hp
      obtain ⟨lvl, hl⟩ := Aux.lookup_of_contains levels e hlv
      have hpub : publishedCodec (some e) = some e := by
          simp only [publishedCodec, Aux.published e hid, if_true]
      have hemp : ipc.isEmpty = false := by cases ipc with | nil => exact absurd rfl hne | cons a t => rfl
      cases e with
      | identity => exact absurd rfl hid
      | zstd => simp [hpub, producerBody, processResponse, hemp, hl, Aux.stamp_eq]
      | gzip => simp [hpub, producerBody, processResponse, hemp, hl, Aux.stamp_eq]

end VgiVerif.C19
