import VgiVerif.Spec.C35
import VgiVerif.Model.C35
/-
C35 — sensitive claim values never reach access logs.
Helper lemmas in `namespace Aux`; the obligations follow.  Everything is by (mutual) structural recursion on
the claim tree: unbounded depth and width.
-/
namespace VgiVerif.C35
open VgiVerif.ClaimTree

namespace Aux

/-! ### extracted shape -/

theorem flagSeq : Gen.C35.recurseSeq = true := by rfl
theorem flagMap : Gen.C35.recurseMap = true := by rfl
theorem flagFailClosed : Gen.C35.failClosed = true := by rfl
theorem flagSearch : Gen.C35.keyTest = "search" := by rfl

theorem redactV_atom (a : Atom) : redactV (.atom a) = .atom a := by simp [redactV]
theorem redactV_arr (xs : JList) : redactV (.arr xs) = .arr (redactL xs) := by simp [redactV, flagSeq]
theorem redactV_obj (kvs : JObj) : redactV (.obj kvs) = .obj (redactO kvs) := by simp [redactV, flagMap]

/-! ### paths -/

theorem get_nil (j : Json) : j.get [] = some j := by cases j <;> simp [Json.get]

theorem placeholder_get_cons (s : Step) (p : Path) : placeholder.get (s :: p) = none := by
  simp [placeholder, Json.get]

mutual
theorem getV_append : ∀ (j : Json) (p r : Path), j.get (p ++ r) = (j.get p).bind (fun x => x.get r)
  | j, [], r => by simp [get_nil]
  | .atom _, _ :: _, r => by simp [Json.get]
  | .arr xs, .idx i :: p, r => by simpa [Json.get] using getL_append xs i p r
  | .arr _, .key _ :: _, r => by simp [Json.get]
  | .obj kvs, .key k :: p, r => by simpa [Json.get] using getO_append kvs k p r
  | .obj _, .idx _ :: _, r => by simp [Json.get]
theorem getL_append : ∀ (xs : JList) (i : Nat) (p r : Path), xs.get i (p ++ r) = (xs.get i p).bind (fun x => x.get r)
  | .nil, _, _, _ => by simp [JList.get]
  | .cons h _, 0, p, r => by simpa [JList.get] using getV_append h p r
  | .cons _ t, i + 1, p, r => by simpa [JList.get] using getL_append t i p r
theorem getO_append : ∀ (kvs : JObj) (k : Key) (p r : Path), kvs.get k (p ++ r) = (kvs.get k p).bind (fun x => x.get r)
  | .nil, _, _, _ => by simp [JObj.get]
  | .cons k' v t, k, p, r => by
    simp only [JObj.get]
    split
    · exact getV_append v p r
    · exact getO_append t k p r
end

/-! ### redaction commutes with lookup along paths that cross no sensitive key -/

theorem clear_nil (sens : Key → Bool) : Spec.Clear sens [] := by intro k hk; simp [Path.keys] at hk

theorem clear_idx {sens : Key → Bool} {i : Nat} {p : Path} (h : Spec.Clear sens (.idx i :: p)) : Spec.Clear sens p := by
  intro k hk; exact h k (by simpa [Path.keys] using hk)

theorem clear_key {sens : Key → Bool} {k : Key} {p : Path} (h : Spec.Clear sens (.key k :: p)) :
    sens k = false ∧ Spec.Clear sens p :=
  ⟨h k (by simp [Path.keys]), fun k' hk' => h k' (by simp [Path.keys, hk'])⟩

mutual
theorem getV_redact : ∀ (j : Json) (p : Path), Spec.Clear sensitive p → (redactV j).get p = (j.get p).map redactV
  | j, [], _ => by simp [get_nil]
  | .atom _, _ :: _, _ => by simp [Json.get, redactV_atom]
  | .arr xs, .idx i :: p, h => by
    rw [redactV_arr]; simpa [Json.get] using getL_redact xs i p (clear_idx h)
  | .arr _, .key _ :: _, _ => by rw [redactV_arr]; simp [Json.get]
  | .obj kvs, .key k :: p, h => by
    rw [redactV_obj]; simpa [Json.get] using getO_redact kvs k p (clear_key h).1 (clear_key h).2
  | .obj _, .idx _ :: _, _ => by rw [redactV_obj]; simp [Json.get]
theorem getL_redact : ∀ (xs : JList) (i : Nat) (p : Path), Spec.Clear sensitive p →
    (redactL xs).get i p = (xs.get i p).map redactV
  | .nil, _, _, _ => by simp [redactL, JList.get]
  | .cons h _, 0, p, hp => by simpa [redactL, JList.get] using getV_redact h p hp
  | .cons _ t, i + 1, p, hp => by simpa [redactL, JList.get] using getL_redact t i p hp
theorem getO_redact : ∀ (kvs : JObj) (k : Key) (p : Path), sensitive k = false → Spec.Clear sensitive p →
    (redactO kvs).get k p = (kvs.get k p).map redactV
  | .nil, _, _, _, _ => by simp [redactO, JObj.get]
  | .cons k' v t, k, p, hk, hp => by
    simp only [redactO, JObj.get]
    split
    · rename_i e; subst e; simp only [hk, Bool.false_eq_true, if_false]; exact getV_redact v p hp
    · exact getO_redact t k p hk hp
end

/-- under a sensitive key the logged object holds the placeholder (exactly when the key exists) -/
theorem getO_redact_sens : ∀ (kvs : JObj) (k : Key), sensitive k = true →
    (redactO kvs).get k [] = (kvs.get k []).map (fun _ => placeholder)
  | .nil, _, _ => by simp [redactO, JObj.get]
  | .cons k' v t, k, hk => by
    simp only [redactO, JObj.get]
    split
    · rename_i e; subst e; simp [hk, get_nil]
    · exact getO_redact_sens t k hk

/-- the value under a sensitive key reached along a clear path is the placeholder -/
theorem redacted_here (j : Json) (p : Path) (k : Key) (v : Json) (hp : Spec.Clear sensitive p)
    (hk : sensitive k = true) (hv : j.get (p ++ [.key k]) = some v) :
    (redactV j).get (p ++ [.key k]) = some placeholder := by
  rw [getV_append] at hv ⊢
  rw [getV_redact j p hp]
  cases hj : j.get p with
  | none => simp [hj] at hv
  | some jp =>
    simp only [hj, Option.bind_some, Option.map_some] at hv ⊢
    cases jp with
    | atom a => simp [Json.get] at hv
    | arr xs => simp [Json.get] at hv
    | obj kvs =>
      rw [redactV_obj]
      simp only [Json.get] at hv ⊢
      rw [getO_redact_sens kvs k hk, hv]; rfl

/-- a path is clear, or splits at its first sensitive key -/
theorem clear_or_split (sens : Key → Bool) : ∀ p : Path,
    Spec.Clear sens p ∨ ∃ q k r, p = q ++ .key k :: r ∧ Spec.Clear sens q ∧ sens k = true
  | [] => .inl (clear_nil sens)
  | .idx i :: p => by
    rcases clear_or_split sens p with h | ⟨q, k, r, rfl, hq, hk⟩
    · left; intro k hk; exact h k (by simpa [Path.keys] using hk)
    · right; refine ⟨.idx i :: q, k, r, rfl, ?_, hk⟩
      intro k' hk'; exact hq k' (by simpa [Path.keys] using hk')
  | .key k₀ :: p => by
    cases hs : sens k₀ with
    | true => right; exact ⟨[], k₀, p, rfl, clear_nil sens, hs⟩
    | false =>
      rcases clear_or_split sens p with h | ⟨q, k, r, rfl, hq, hk⟩
      · left; intro k hk
        simp only [Path.keys, List.mem_cons] at hk
        rcases hk with rfl | hk
        · exact hs
        · exact h k hk
      · right; refine ⟨.key k₀ :: q, k, r, rfl, ?_, hk⟩
        intro k' hk'
        simp only [Path.keys, List.mem_cons] at hk'
        rcases hk' with rfl | hk'
        · exact hs
        · exact hq k' hk'

theorem redacted_everywhere (j : Json) : Spec.RedactedAtEveryDepth sensitive placeholder j (redactV j) := by
  intro p k v hk hv
  rcases clear_or_split sensitive p with hp | ⟨q, k', r, rfl, hq, hk'⟩
  · exact .inl (redacted_here j p k v hp hk hv)
  · right
    have e : (q ++ .key k' :: r) ++ [.key k] = (q ++ [.key k']) ++ (r ++ [.key k]) := by simp
    have hex : ∃ v', j.get (q ++ [.key k']) = some v' := by
      rw [e, getV_append] at hv
      cases h : j.get (q ++ [.key k']) with
      | none => simp [h] at hv
      | some v' => exact ⟨v', rfl⟩
    obtain ⟨v', hv'⟩ := hex
    have hph := redacted_here j q k' v' hq hk' hv'
    refine ⟨q, k', r, rfl, hph, ?_⟩
    rw [e, getV_append, hph]
    cases r <;> simp [placeholder_get_cons]

/-! ### visible shape -/

theorem redactL_length : ∀ xs : JList, (redactL xs).length = xs.length
  | .nil => by simp [redactL]
  | .cons _ t => by simp [redactL, JList.length, redactL_length t]

theorem redactO_keys : ∀ kvs : JObj, (redactO kvs).keys = kvs.keys
  | .nil => by simp [redactO]
  | .cons _ _ t => by simp [redactO, JObj.keys, redactO_keys t]

theorem redactO_isEmpty (kvs : JObj) : (redactO kvs).isEmpty = kvs.isEmpty := by
  cases kvs <;> simp [redactO, JObj.isEmpty]

theorem redactV_kind (j : Json) : (redactV j).kind = j.kind := by
  cases j with
  | atom a => simp [redactV_atom]
  | arr xs => simp [redactV_arr, Json.kind, redactL_length]
  | obj kvs => simp [redactV_obj, Json.kind, redactO_keys]

/-! ### the logged tree is a function of the non-sensitive part -/

mutual
theorem agreeV_redact : ∀ a b : Json, Spec.agreeV sensitive a b → redactV a = redactV b
  | .atom a, .atom b, h => by simp only [Spec.agreeV] at h; rw [h]
  | .arr xs, .arr ys, h => by
    simp only [Spec.agreeV] at h; rw [redactV_arr, redactV_arr, agreeL_redact xs ys h]
  | .obj a, .obj b, h => by
    simp only [Spec.agreeV] at h; rw [redactV_obj, redactV_obj, agreeO_redact a b h]
  | .atom _, .arr _, h => by simp [Spec.agreeV] at h
  | .atom _, .obj _, h => by simp [Spec.agreeV] at h
  | .arr _, .atom _, h => by simp [Spec.agreeV] at h
  | .arr _, .obj _, h => by simp [Spec.agreeV] at h
  | .obj _, .atom _, h => by simp [Spec.agreeV] at h
  | .obj _, .arr _, h => by simp [Spec.agreeV] at h
theorem agreeL_redact : ∀ a b : JList, Spec.agreeL sensitive a b → redactL a = redactL b
  | .nil, .nil, _ => rfl
  | .cons h t, .cons h' t', hh => by
    simp only [Spec.agreeL] at hh
    simp only [redactL]; rw [agreeV_redact h h' hh.1, agreeL_redact t t' hh.2]
  | .nil, .cons _ _, h => by simp [Spec.agreeL] at h
  | .cons _ _, .nil, h => by simp [Spec.agreeL] at h
theorem agreeO_redact : ∀ a b : JObj, Spec.agreeO sensitive a b → redactO a = redactO b
  | .nil, .nil, _ => rfl
  | .cons k v t, .cons k' v' t', hh => by
    simp only [Spec.agreeO] at hh
    obtain ⟨rfl, hv, ht⟩ := hh
    simp only [redactO]; rw [agreeO_redact t t' ht]
    cases hs : sensitive k with
    | true => simp
    | false =>
      rcases hv with hv | hv
      · simp [hs] at hv
      · simp [agreeV_redact v v' hv]
  | .nil, .cons _ _ _, h => by simp [Spec.agreeO] at h
  | .cons _ _ _, .nil, h => by simp [Spec.agreeO] at h
end

/-! a smaller notion of "sensitive" relates fewer trees -/
mutual
theorem agreeV_mono {s₁ s₂ : Key → Bool} (hs : ∀ k, s₁ k = true → s₂ k = true) :
    ∀ a b : Json, Spec.agreeV s₁ a b → Spec.agreeV s₂ a b
  | .atom _, .atom _, h => by simpa [Spec.agreeV] using h
  | .arr xs, .arr ys, h => by simp only [Spec.agreeV] at h ⊢; exact agreeL_mono hs xs ys h
  | .obj a, .obj b, h => by simp only [Spec.agreeV] at h ⊢; exact agreeO_mono hs a b h
  | .atom _, .arr _, h => by simp [Spec.agreeV] at h
  | .atom _, .obj _, h => by simp [Spec.agreeV] at h
  | .arr _, .atom _, h => by simp [Spec.agreeV] at h
  | .arr _, .obj _, h => by simp [Spec.agreeV] at h
  | .obj _, .atom _, h => by simp [Spec.agreeV] at h
  | .obj _, .arr _, h => by simp [Spec.agreeV] at h
theorem agreeL_mono {s₁ s₂ : Key → Bool} (hs : ∀ k, s₁ k = true → s₂ k = true) :
    ∀ a b : JList, Spec.agreeL s₁ a b → Spec.agreeL s₂ a b
  | .nil, .nil, _ => by simp [Spec.agreeL]
  | .cons h t, .cons h' t', hh => by
    simp only [Spec.agreeL] at hh ⊢; exact ⟨agreeV_mono hs h h' hh.1, agreeL_mono hs t t' hh.2⟩
  | .nil, .cons _ _, h => by simp [Spec.agreeL] at h
  | .cons _ _, .nil, h => by simp [Spec.agreeL] at h
theorem agreeO_mono {s₁ s₂ : Key → Bool} (hs : ∀ k, s₁ k = true → s₂ k = true) :
    ∀ a b : JObj, Spec.agreeO s₁ a b → Spec.agreeO s₂ a b
  | .nil, .nil, _ => by simp [Spec.agreeO]
  | .cons k v t, .cons k' v' t', hh => by
    simp only [Spec.agreeO] at hh ⊢
    refine ⟨hh.1, ?_, agreeO_mono hs t t' hh.2.2⟩
    rcases hh.2.1 with h | h
    · exact .inl (hs k h)
    · exact .inr (agreeV_mono hs v v' h)
  | .nil, .cons _ _ _, h => by simp [Spec.agreeO] at h
  | .cons _ _ _, .nil, h => by simp [Spec.agreeO] at h
end

theorem agreeO_isEmpty {s : Key → Bool} : ∀ a b : JObj, Spec.agreeO s a b → a.isEmpty = b.isEmpty
  | .nil, .nil, _ => rfl
  | .cons _ _ _, .cons _ _ _, _ => rfl
  | .nil, .cons _ _ _, h => by simp [Spec.agreeO] at h
  | .cons _ _ _, .nil, h => by simp [Spec.agreeO] at h

/-! ### the extracted alternation covers every name the property lists -/

/-- the classes of `lit` admit both ASCII cases of every character of the lower-case word `w` -/
def covers : List Char → List (List Nat) → Bool
  | [], [] => true
  | c :: ws, cl :: cls =>
    cl.contains c.toNat && (!(97 ≤ c.toNat && c.toNat ≤ 122) || cl.contains (c.toNat - 32))
      && !(65 ≤ c.toNat && c.toNat ≤ 90) && covers ws cls
  | [], _ :: _ => false
  | _ :: _, [] => false

theorem clsPrefix_of_ciPrefix : ∀ (w : List Char) (lit : List (List Nat)) (s : List Char),
    covers w lit = true → Spec.ciPrefix w s = true → clsPrefix lit s = some (s.drop w.length)
  | [], [], s, _, _ => by simp [clsPrefix]
  | [], _ :: _, _, h, _ => by simp [covers] at h
  | _ :: _, [], _, h, _ => by simp [covers] at h
  | _ :: _, _ :: _, [], _, h => by simp [Spec.ciPrefix] at h
  | c :: ws, cl :: cls, x :: xs, hc, hp => by
    simp only [covers, Bool.and_eq_true, Bool.or_eq_true, Bool.not_eq_true', Bool.and_eq_false_iff, decide_eq_false_iff_not, Nat.not_le] at hc
    simp only [Spec.ciPrefix, Bool.and_eq_true, beq_iff_eq] at hp
    obtain ⟨⟨⟨h1, h2⟩, h3⟩, h4⟩ := hc
    obtain ⟨hx, hrest⟩ := hp
    have hmem : cl.contains x.toNat = true := by
      unfold Spec.lowerNat at hx
      split at hx
      · rename_i hup
        have e : x.toNat = c.toNat - 32 := by omega
        rcases h2 with h2 | h2
        · omega
        · rw [e]; exact h2
      · rw [← hx]; exact h1
    simp only [clsPrefix, hmem, if_true, List.length_cons, List.drop_succ_cons]
    exact clsPrefix_of_ciPrefix ws cls xs h4 hrest

theorem matchHere_altMatches (a : Gen.C35.Alt) (s : List Char) (h : matchHere a s = true) : altMatches a s = true := by
  unfold altMatches
  split
  · exact h
  · cases s <;> simp [searchFrom, h]

theorem searchFrom_of_ciContains (a : Gen.C35.Alt) (w : List Char) (hc : covers w a.lit = true)
    (he : a.endAnchored = false) : ∀ s : List Char, Spec.ciContains w s = true → searchFrom a s = true
  | [], h => by
    simp only [Spec.ciContains] at h
    simp [searchFrom, matchHere, clsPrefix_of_ciPrefix w a.lit [] hc h, he]
  | x :: xs, h => by
    simp only [Spec.ciContains, Bool.or_eq_true] at h
    simp only [searchFrom, Bool.or_eq_true]
    rcases h with h | h
    · left; simp [matchHere, clsPrefix_of_ciPrefix w a.lit (x :: xs) hc h, he]
    · right; exact searchFrom_of_ciContains a w hc he xs h

theorem table_sub : Spec.substringWords.all (fun w => Gen.C35.alts.any (fun a =>
    !a.startAnchored && !a.endAnchored && covers w a.lit)) = true := by decide

theorem table_exact : Spec.exactWords.all (fun w => Gen.C35.alts.any (fun a => covers w a.lit)) = true := by decide

theorem matchHere_of_ciEq (a : Gen.C35.Alt) (w : List Char) (hc : covers w a.lit = true) (s : List Char)
    (h : Spec.ciEq w s = true) : matchHere a s = true := by
  simp only [Spec.ciEq, Bool.and_eq_true, beq_iff_eq] at h
  have := clsPrefix_of_ciPrefix w a.lit s hc h.2
  have hd : s.drop w.length = [] := by rw [h.1]; simp
  simp [matchHere, this, hd]

end Aux

/-! ## Obligations -/

/-- The extracted shape is the repaired one: values that are objects / arrays are walked, the redactor call is
wrapped fail-closed, the key test is `search`, and `_emit_access_log` stores nothing but the redactor's output. -/
theorem shape_ok : Gen.C35.recurseMap = true ∧ Gen.C35.recurseSeq = true ∧ Gen.C35.failClosed = true ∧
    Gen.C35.keyTest = "search" ∧ Gen.C35.emitGuarded = true := by
  refine ⟨by rfl, by rfl, by rfl, by rfl, by rfl⟩

/-- Every name the property lists (in any ASCII case, as a substring; `name` as the whole key) is treated as
sensitive by the extracted regular expression. -/
theorem sensitive_covers (k : Key) (h : Spec.designates k = true) : sensitive k = true := by
  simp only [Spec.designates, Bool.or_eq_true, List.any_eq_true] at h
  simp only [sensitive, Aux.flagSearch, beq_self_eq_true, Bool.true_and, List.any_eq_true]
  rcases h with ⟨w, hw, hk⟩ | ⟨w, hw, hk⟩
  · have := List.all_eq_true.mp Aux.table_sub w hw
    simp only [List.any_eq_true, Bool.and_eq_true, Bool.not_eq_true'] at this
    obtain ⟨a, ha, ⟨hs, he⟩, hc⟩ := this
    refine ⟨a, ha, ?_⟩
    simp only [altMatches, hs, Bool.false_eq_true, if_false]
    exact Aux.searchFrom_of_ciContains a w hc he k hk
  · have := List.all_eq_true.mp Aux.table_exact w hw
    simp only [List.any_eq_true] at this
    obtain ⟨a, ha, hc⟩ := this
    exact ⟨a, ha, Aux.matchHere_altMatches a k (Aux.matchHere_of_ciEq a w hc k hk)⟩

/-- **C35.** In what `redact_claims` returns, every value under a sensitive key — at any nesting depth, through
objects and arrays — has been replaced by the placeholder (or sits below an enclosing key that was). -/
theorem C35 (claims : JObj) :
    Spec.RedactedAtEveryDepth sensitive placeholder (.obj claims) (.obj (redactClaims claims)) := by
  have := Aux.redacted_everywhere (.obj claims)
  rwa [Aux.redactV_obj] at this

/-- C35 for the names of the property text: a value under a designated key never survives. -/
theorem C35_designated (claims : JObj) :
    Spec.RedactedAtEveryDepth Spec.designates placeholder (.obj claims) (.obj (redactClaims claims)) := by
  intro p k v hk hv
  exact C35 claims p k v (sensitive_covers k hk) hv

/-- Keys stay visible: along every path that crosses no redacted key, scalars, array lengths and the key lists
of objects (in order) are unchanged — so a sensitive key is still listed, holding the placeholder. -/
theorem C35_keys (claims : JObj) : Spec.KeysVisible sensitive (.obj claims) (.obj (redactClaims claims)) := by
  intro p hp
  have := Aux.getV_redact (.obj claims) p hp
  rw [Aux.redactV_obj] at this
  show ((Json.obj (redactO claims)).get p).map Json.kind = _
  rw [this, Option.map_map]
  congr 1
  funext j
  exact Aux.redactV_kind j

/-- The logged claims are a function of the non-sensitive part of the claims: two claim objects that differ
only in values under sensitive keys produce the same record (so no such value can be read off it). -/
theorem C35_noninterference : Spec.Noninterference sensitive (logged defaultRedactor) := by
  intro c c' h
  simp only [logged, applyRedaction, defaultRedactor, redactClaims]
  rw [Aux.agreeO_isEmpty c c' h, Aux.agreeO_redact c c' h]

/-- … and the same for the names of the property text. -/
theorem C35_noninterference_designated : Spec.Noninterference Spec.designates (logged defaultRedactor) := by
  intro c c' h
  exact C35_noninterference c c' (Aux.agreeO_mono sensitive_covers c c' h)

/-- Fail closed: when the installed redactor raises, no claims reach the record at all. -/
theorem C35_failclosed (r : Redactor) (c : JObj) (e : Unit) (h : r c = .error e) : logged r c = none := by
  simp only [logged, applyRedaction, h, Aux.flagFailClosed, if_true, JObj.isEmpty]
  split <;> rfl

/-- With the default redactor, what is logged is exactly `redact_claims(claims)` (absent for empty claims). -/
theorem C35_logged_default (c : JObj) :
    logged defaultRedactor c = if c.isEmpty then none else some (redactClaims c) := by
  simp only [logged, applyRedaction, defaultRedactor, redactClaims, Aux.redactO_isEmpty]
  split <;> simp_all

/-! ### non-vacuity -/

private def ex1 : JObj :=
  .cons "ctx".toList (.obj (.cons "email".toList (.atom (.str "a@b".toList)) .nil))
  (.cons "l".toList (.arr (.cons (.obj (.cons "password".toList (.atom (.str "p".toList)) .nil)) .nil)) .nil)

example : (Json.obj ex1).get [.key "ctx".toList, .key "email".toList] = some (.atom (.str "a@b".toList)) := by rfl
example : (Json.obj (redactClaims ex1)).get [.key "ctx".toList, .key "email".toList] = some placeholder := by rfl
example : (Json.obj (redactClaims ex1)).get [.key "l".toList, .idx 0, .key "password".toList] = some placeholder := by rfl
example : Spec.designates "Given_Name".toList = true ∧ Spec.designates "hostname".toList = false := by decide
example : Spec.agreeO sensitive ex1
    (.cons "ctx".toList (.obj (.cons "email".toList (.atom .null) .nil))
      (.cons "l".toList (.arr (.cons (.obj (.cons "password".toList (.arr .nil) .nil)) .nil)) .nil)) := by
  simp [Spec.agreeO, Spec.agreeV, Spec.agreeL, ex1]
  decide

end VgiVerif.C35
