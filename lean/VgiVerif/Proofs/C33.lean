import VgiVerif.Lemmas.C33Loop
import VgiVerif.Lemmas.C33Launch
/-
C33 proofs.

(b) `Loop`: with both repairs in the source (`Shape.extracted = ⟨true, true⟩`, checked by `rfl` on the extracted
constants) an inductive invariant of the accept-loop transition system gives `C33_shutdown`: the observable
history of EVERY reachable state satisfies the worker half of the spec, and at the very step at which the loop
leaves (`check true`) no accepted connection is open, `conn_count = 0`, the zero-connection period is at least
`idle_timeout` (start-up grace before the first connection) and no connection was accepted since the timer's
decision.

(a) `Launch`: see the second half of the file.
-/
namespace VgiVerif.C33
open VgiVerif.Sched

namespace Loop

/-! ### the obligations of (b) -/

/-- both repairs are present in the extracted source, and a connection is counted by the accept loop itself — before its
thread exists — not by that thread (seeded change C33-4: `Findings.Loop.handler_side_count_exits_under_a_connection`) -/
theorem C33_loop_shape : Shape.extracted = Shape.repaired := by decide

/-- the structural facts the model relies on hold in the extracted source: the three shared variables are only
touched under `state_lock`; the loop, the handler and the timer functions have the modelled shape -/
theorem C33_loop_structure :
    Gen.C33.sharedUnderLock = true ∧ Gen.C33.loopShape = true ∧ Gen.C33.handlerShape = true ∧
    Gen.C33.timerShape = true := by decide

/-- **C33_shutdown** (history form): the observable history of every reachable state of the accept loop — any
number of connections, handler threads, timers, any interleaving — satisfies the worker half of the spec:
at every idle stop all accepted connections have finished and the zero-connection period is at least
`idle_timeout` (the start-up grace before the first connection). -/
theorem C33_shutdown (cfg : Cfg) :
    ∀ s, (ts Shape.extracted cfg).Reachable s → Spec.WorkerOk (idleOf cfg) cfg.grace s.hist := by
  intro s hr
  have hi := inv_reachable (sh := Shape.extracted) (by decide) (by decide) (by decide) cfg s hr
  unfold Spec.WorkerOk
  rw [← hi.monHist]; exact hi.bad

/-- **C33_shutdown** (step form): in any reachable state, if the loop leaves through the idle-shutdown test
(`check true`), then `conn_count = 0`, no accepted connection is unfinished or even uncounted, the
zero-connection period is long enough, and no connection was accepted since the timer's decision. -/
theorem C33_shutdown_step (cfg : Cfg) (s s' : St) (hr : (ts Shape.extracted cfg).Reachable s)
    (hst : step Shape.extracted cfg s (.check true) = some s') :
    s.connCount = 0 ∧ s.live = [] ∧ s.mon.openConns = [] ∧ lHolds s.lpc = false ∧
    s.mon.last + Spec.need (idleOf cfg) cfg.grace s.mon.any ≤ s.now ∧ s.sinceDec = false ∧
    s'.lpc = .exiting true := by
  have hi := inv_reachable (sh := Shape.extracted) (by decide) (by decide) (by decide) cfg s hr
  simp only [step] at hst
  split at hst
  next hl =>
    split at hst
    next hex =>
      simp only [if_true] at hst
      cases hst
      have hold : lHolds s.lpc = false := by simp [hl, lHolds]
      obtain ⟨h1, h2, h3⟩ := hi.flagI hex.symm hold
      have hopen : s.mon.openConns = [] := by
        apply List.eq_nil_iff_forall_not_mem.2
        intro c hc
        rcases hi.openLive c hc with h4 | h4
        · rw [hl] at h4; cases h4
        · rw [h1] at h4; cases h4
      exact ⟨by rw [hi.cc, h1]; rfl, h1, hopen, hold, h2, h3, rfl⟩
    next => cases hst
  next => cases hst

/-- the start-up grace is never shorter than `idle_timeout` -/
theorem graceOf_ge (q idle : Nat) : idle ≤ graceOf q idle := Nat.le_max_left _ _

/-- **the worker lease** (the abstraction of a worker used by the launcher model): with the start-up grace of the source,
`max(idle_timeout, floor)`, an idle stop happens no earlier than `idle_timeout` after the last accept / finish — before
as well as after the first connection -/
theorem C33_worker_lease (q i : Nat) (mc : Option Nat) (s s' : St)
    (hr : (ts Shape.extracted ⟨some i, graceOf q i, mc⟩).Reachable s)
    (hst : step Shape.extracted ⟨some i, graceOf q i, mc⟩ s (.check true) = some s') :
    s.mon.last + i ≤ s.now ∧ s.mon.openConns = [] := by
  obtain ⟨_, _, hopen, _, hb, _, _⟩ := C33_shutdown_step _ s s' hr hst
  refine ⟨?_, hopen⟩
  have hg := graceOf_ge q i
  simp only [idleOf, Option.getD_some, Spec.need] at hb
  split at hb <;> omega

/-- the only way into the idle-stop state is the shutdown test of the accept-timeout branch -/
theorem C33_stop_only_by_check (sh : Shape) (cfg : Cfg) (s s' : St) (l : Label)
    (hst : step sh cfg s l = some s') (hs' : s'.lpc = .exiting true) (hs : s.lpc ≠ .exiting true) :
    l = .check true := by
  cases l with
  | check ex =>
    simp only [step] at hst
    split at hst
    · split at hst
      · split at hst
        next hx => simp [hx]
        next => cases hst; simp at hs'
      · cases hst
    · cases hst
  | handlerEnd c a =>
    exfalso
    simp only [step] at hst
    repeat' split at hst
    all_goals first
      | (cases hst; simp at hs'; exact hs hs')
      | (cases hst; done)
  | callback k =>
    exfalso
    simp only [step] at hst
    repeat' split at hst
    all_goals first
      | (cases hst; simp at hs'; exact hs hs')
      | (cases hst; done)
  | _ =>
    exfalso
    simp only [step] at hst
    repeat' split at hst
    all_goals first
      | (cases hst; exact hs hs')
      | (cases hst; simp at hs'; exact hs hs')
      | (cases hst; simp at hs'; done)
      | (cases hst; done)

/-- trace form (what the harness' `accepts` establishes for a real run): every label sequence the model accepts
ends in a state whose history satisfies the spec -/
theorem C33_shutdown_trace (cfg : Cfg) (ls : List Label) (s : St)
    (h : (ts Shape.extracted cfg).run ls = some s) : Spec.WorkerOk (idleOf cfg) cfg.grace s.hist :=
  C33_shutdown cfg s (TS.reachable_of_run _ h)

/-- non-vacuity: the idle shutdown is reachable (start-up grace 480 elapses with no connection) -/
example : ((ts Shape.repaired ⟨some 3, 480, none⟩).run
    [.tick 480, .fire 0, .cbRead 0, .callback 0, .acceptTimeout, .check true]).isSome = true := by decide

end Loop

namespace Launch

/-! ### the obligations of (a) -/

/-- the lock file of a launch is keyed by the socket itself (a sibling of the socket, so every spelling of its path resolves
to one lock inode), the installed `filelock` re-checks `st_nlink` after `flock`, and `serve_unix` (like `serve_tcp`) starts listening BEFORE
it announces the socket through `on_bound` — the announcement is what `_spawn_worker`, hence `launch`, returns on
(both extracted from the sources) -/
theorem C33_launch_shape :
    LShape.extracted.nlinkCheck = true ∧ LShape.extracted.listenFirst = true ∧ LShape.extracted.lockBySocket = true := by
  decide

/-- `serve_tcp` has the same start-up order (bind → listen → announce) -/
theorem C33_tcp_startup_order : Gen.C33.tcpListenBeforeAnnounce = true := by decide

/-- the structural facts the model relies on: `launch` is `lock; require; probe → return | unlink stale; write meta;
spawn; return; finally release; gc(exclude own hash)`; `gc_state_dir` is `try-lock; probe → skip | unlink sock, meta,
lock (in this order, lock held); release`; `serve_unix` closes the listener and then runs the non-atomic
`lstat`/compare/`unlink` of `_unlink_bound_unix_socket`; `filelock` does not unlink the lock file on release -/
theorem C33_launch_structure :
    Gen.C33.launchShape = true ∧ Gen.C33.gcShape = true ∧ Gen.C33.workerExitShape = true ∧
    Gen.C33.filelockUnlinksOnRelease = false := by decide

/-- **mutual exclusion** of the launcher/GC critical sections of one endpoint, although `gc_state_dir` unlinks the lock
file while holding it: two processes that are both inside (lock inode verified, lock path not yet unlinked by them)
are the same process -/
theorem C33_lock_mutex (idle : Nat) (s : St) (hr : (ts LShape.extracted idle).Reachable s) (t t' : Tid) (g g' : Nat)
    (ht : effective (s.pc t) = some g) (ht' : effective (s.pc t') = some g') : t = t' :=
  (inv_reachable (sh := LShape.extracted) C33_launch_shape.1 C33_launch_shape.2.1 C33_launch_shape.2.2 idle s hr).mutex ht ht'

/-- **C33_single_spawn** (partial: excluded are the runs in which a worker's exit-time `unlink` removed the socket of
its successor — ghost flag `clobbered`, see `Findings/C33.lean`): in every reachable state at most one worker of the
endpoint is accepting, the socket path names it, and no worker process was ever created while another one was alive
(accepting, or still in its start-up: `_check_no_existing_listener` … bind … listen … announce). -/
theorem C33_single_spawn_partial (idle : Nat) (s : St) (hr : (ts LShape.extracted idle).Reachable s)
    (hc : s.clobbered = false) :
    (∀ w w', isAccepting (s.ws w) = true → isAccepting (s.ws w') = true → w = w') ∧
    (∀ w, isAccepting (s.ws w) = true → s.sock = some w) ∧
    (Spec.LMon.run idle s.hist).badSpawn = false := by
  have hi := inv_reachable (sh := LShape.extracted) C33_launch_shape.1 C33_launch_shape.2.1 C33_launch_shape.2.2 idle s hr
  refine ⟨?_, hi.accSock hc, ?_⟩
  · intro w w' hw hw'
    have h1 := hi.accSock hc w hw
    have h2 := hi.accSock hc w' hw'
    rw [h1] at h2; exact Option.some.inj h2
  · rw [← hi.monHist]; exact hi.badSpawn hc

/-- **C33_accepting** (partial, same exclusion): every launch that returned did so while the path named an accepting
worker — whenever it returned less than `idle` after its decision (its successful probe, or the readiness of the
worker it spawned). -/
theorem C33_accepting_partial (idle : Nat) (s : St) (hr : (ts LShape.extracted idle).Reachable s)
    (hc : s.clobbered = false) : (Spec.LMon.run idle s.hist).badRet = false := by
  have hi := inv_reachable (sh := LShape.extracted) C33_launch_shape.1 C33_launch_shape.2.1 C33_launch_shape.2.2 idle s hr
  rw [← hi.monHist]; exact hi.badRet hc

/-- `C33_accepting` at the returning step itself -/
theorem C33_accepting_step (idle : Nat) (s : St) (hr : (ts LShape.extracted idle).Reachable s) (hc : s.clobbered = false)
    (t : Tid) (t0 : Nat) (hpc : s.pc t = .released (some t0)) (hlt : s.now < t0 + idle) :
    pathAccepting s = true := by
  have hi := inv_reachable (sh := LShape.extracted) C33_launch_shape.1 C33_launch_shape.2.1 C33_launch_shape.2.2 idle s hr
  obtain ⟨_, h2⟩ := hi.decI hc t t0 (by rw [hpc]; rfl)
  obtain ⟨w, q, hs, hw, _⟩ := h2 hlt
  exact pathAccepting_iff.2 ⟨w, hs, by rw [hw]; rfl⟩

/-- the launcher half of the spec on the observable history of every reachable state (same exclusion) -/
theorem C33_launcher_partial (idle : Nat) (s : St) (hr : (ts LShape.extracted idle).Reachable s)
    (hc : s.clobbered = false) : Spec.LauncherOk idle s.hist :=
  ⟨(C33_single_spawn_partial idle s hr hc).2.2, C33_accepting_partial idle s hr hc⟩

/-- trace form (what the harness' `accepts` establishes for a real run) -/
theorem C33_launcher_trace (idle : Nat) (ls : List Label) (s : St)
    (h : (ts LShape.extracted idle).run ls = some s) (hc : s.clobbered = false) : Spec.LauncherOk idle s.hist :=
  C33_launcher_partial idle s (TS.reachable_of_run _ h) hc

/-- a worker in start-up always has its launcher waiting for it with the lock held: nobody else can probe, unlink or
spawn for the endpoint until the worker has announced itself — which, by `C33_launch_shape`, is after it listens -/
theorem C33_startup_covered (idle : Nat) (s : St) (hr : (ts LShape.extracted idle).Reachable s) (w : Wid)
    (hw : inStartup (s.ws w) = true) : ∃ t g, s.pc t = .waiting g w ∧ effective (s.pc t) = some g := by
  obtain ⟨t, g, hpc⟩ := (inv_reachable (sh := LShape.extracted) C33_launch_shape.1 C33_launch_shape.2.1 C33_launch_shape.2.2 idle s hr).startI w hw
  exact ⟨t, g, hpc, by rw [hpc]; rfl⟩

/-- non-vacuity: launcher 0 spawns worker 0 (check, clear, bind, listen, announce) and returns, launcher 1 finds it by
probe and returns -/
example : (((ts ⟨true, true, true⟩ 8).run
    [.begin 0 .launch, .begin 1 .launch, .lockOpen 0, .lockOpen 1, .lockFlock 0 true, .lockFlock 1 false, .lockVerify 0 true,
     .probe 0 false, .unlinkStale 0 true, .writeMeta 0, .spawn 0 0, .wCheck 0 true, .wClear 0, .wBind 0, .wListen 0,
     .wAnnounce 0, .spawnReady 0, .release 0, .lockOpen 1, .lockFlock 1 true,
     .lockVerify 1 true, .probe 1 true, .release 1, .ret 0, .ret 1]).map
      (fun s => (s.clobbered, s.mon.badSpawn, s.mon.badRet, s.sock))) = some (false, false, false, some 0) := by
  decide +kernel

end Launch

end VgiVerif.C33
