import VgiVerif.Model.C06
import VgiVerif.Spec.C06
/-
C06 property theorems.  Helper lemmas are in `namespace Aux`; the obligations are at the bottom.
Everything is stated over the definitions extracted into `Gen.Validate` (step order of the four dispatch sites, their
`except` tables, the checks of `_validate_call_signature`, the shape of `_read_request`), so a source edit re-checks them.
-/
namespace VgiVerif.C06
open VgiVerif.Gen.Validate

namespace Aux

/-! ### kwargs as an insertion-ordered dict -/

def entry (c : Col) : Str × Val := (c.name, c.val)

/-- the dict `_read_request` builds from readable columns -/
def kwOf (cols : List Col) (kw : Kwargs) : Kwargs := cols.foldl (fun kw c => kwSet kw c.name c.val) kw

theorem kwSet_fresh (kw : Kwargs) (k : Str) (v : Val) (h : k ∉ kw.map (·.1)) : kwSet kw k v = kw ++ [(k, v)] := by
  induction kw with
  | nil => rfl
  | cons a r ih =>
    obtain ⟨k', v'⟩ := a
    simp only [List.map_cons, List.mem_cons, not_or] at h
    simp only [kwSet]
    rw [if_neg (fun e => h.1 e.symm), ih h.2]
    rfl

theorem kwOf_nodup (cols : List Col) (kw : Kwargs) (h : (kw.map (·.1) ++ cols.map (·.name)).Nodup) :
    kwOf cols kw = kw ++ cols.map entry := by
  induction cols generalizing kw with
  | nil => simp [kwOf]
  | cons c r ih =>
    have hc : c.name ∉ kw.map (·.1) := by
      intro hm
      rw [List.nodup_append] at h
      exact h.2.2 _ hm _ (by simp) rfl
    simp only [kwOf, List.foldl_cons]
    rw [kwSet_fresh kw c.name c.val hc]
    have := ih (kw ++ [(c.name, c.val)]) (by
      simpa [List.map_append, List.append_assoc] using h)
    simpa [kwOf, entry, List.append_assoc] using this

/-! ### `_read_request` -/

def Readable (cols : List Col) : Prop := ∀ c ∈ cols, ∀ e, c.val ≠ .unreadable e

theorem readValues_ok (w : List HCls) (cols : List Col) (kw kw' : Kwargs) :
    readValues w cols kw = .ok kw' ↔ Readable cols ∧ kw' = kwOf cols kw := by
  induction cols generalizing kw with
  | nil => simp [readValues, Readable, kwOf]; exact eq_comm
  | cons c r ih =>
    cases hv : c.val with
    | unreadable e =>
      simp only [readValues, hv]
      constructor
      · intro h; split at h <;> cases h
      · rintro ⟨h, _⟩; exact absurd hv (h c (by simp) e)
    | _ =>
      simp only [readValues, hv, ih, kwOf, List.foldl_cons, Readable, List.mem_cons, forall_eq_or_imp]
      constructor
      · rintro ⟨h1, h2⟩; exact ⟨⟨by intro e; simp, h1⟩, h2⟩
      · rintro ⟨⟨_, h1⟩, h2⟩; exact ⟨h1, h2⟩

/-- extracted shape facts the proofs rely on (re-checked on every run) -/
theorem row_guard : readRowGuard = true := by decide
theorem records_schema : readRecordsSchema = true := by decide
/-- the recorded schema is the one of the resolved batch (pointer requests included) -/
theorem records_resolved (rq : Request) : recordedSchema rq = rq.cols := by
  unfold recordedSchema
  cases rq.pointer with
  | none => rfl
  | some p => simp only [show readRecordsResolved = true by decide, ite_true]
theorem validation_wrapped : readValidationWrap.any ipcError.isA = true := by decide
theorem aspy_wrapped : HCls.Exception ∈ readWrap := by decide

def RowsOk (rq : Request) : Prop := rq.cols = [] ∨ rq.rows = 1

theorem readRequest_ok (rq : Request) (kw : Kwargs) (sch : Option (List Col)) :
    readRequest rq = .ok (kw, sch) ↔
      rq.ipcValid = true ∧ RowsOk rq ∧ Readable rq.cols ∧ kw = kwOf rq.cols [] ∧ sch = some rq.cols := by
  unfold readRequest readRequestWith RowsOk
  rw [row_guard, records_schema, records_resolved]
  cases hv : rq.ipcValid with
  | false => simp; split <;> simp
  | true =>
    by_cases hr : rq.cols = []
    · simp [hr, readValues, kwOf, Readable]
      intro _; exact eq_comm
    · have hlen : rq.cols.length > 0 := List.length_pos_iff.mpr hr
      by_cases h1 : rq.rows = 1
      · simp only [hlen, h1, decide_true, ne_eq, not_true_eq_false, decide_false, Bool.and_false, Bool.not_true,
          Bool.false_eq_true, ↓reduceIte, or_true, true_and]
        cases hrv : readValues readWrap rq.cols [] with
        | error e =>
          simp only [reduceCtorEq, false_iff]
          rintro ⟨h2, h3, _⟩
          have := (readValues_ok readWrap rq.cols [] kw).2 ⟨h2, h3⟩
          rw [hrv] at this; cases this
        | ok kw0 =>
          have := readValues_ok readWrap rq.cols [] kw0
          simp only [hrv, true_iff] at this
          simp only [Except.ok.injEq, Prod.mk.injEq]
          constructor
          · rintro ⟨rfl, rfl⟩; exact ⟨this.1, this.2, rfl⟩
          · rintro ⟨_, h3, h4⟩; exact ⟨by rw [h3, this.2], h4.symm⟩
      · simp [hlen, h1, hr]

/-- under the extracted handlers, whatever `_read_request` raises for a request whose unreadable values raised
`Exception` instances is the framework's `RpcError` -/
theorem readRequest_err (rq : Request) (e : Exn) (why : Reason)
    (hw : ∀ c ∈ rq.cols, ∀ x, c.val = .unreadable x → x.isA .Exception = true)
    (h : readRequest rq = .error (e, why)) : e = rpcError := by
  unfold readRequest readRequestWith at h
  rw [validation_wrapped] at h
  split at h
  · simp at h; exact h.1.symm
  · split at h
    · simp at h; exact h.1.symm
    · split at h
      · rename_i r hr
        cases h
        -- an error from readValues
        have key : ∀ (cols : List Col) (kw : Kwargs),
            (∀ c ∈ cols, ∀ x, c.val = .unreadable x → x.isA .Exception = true) →
            readValues readWrap cols kw = .error (e, why) → e = rpcError := by
          intro cols
          induction cols with
          | nil => intro kw _ h; simp [readValues] at h
          | cons c r ih =>
            intro kw hc h
            cases hv : c.val with
            | unreadable x =>
              simp only [readValues, hv] at h
              have hx : readWrap.any x.isA = true := by
                rw [List.any_eq_true]
                exact ⟨.Exception, aspy_wrapped, hc c (by simp) x hv⟩
              rw [hx] at h
              simp at h; exact h.1.symm
            | _ =>
              simp only [readValues, hv] at h
              exact ih _ (fun c hc' => hc c (by simp [hc'])) h
        exact key _ _ hw hr
      · cases h

/-! ### `_deserialize_params` -/

theorem deserValue_nonnull (p : Param) (v v' : Val) (h : deserValue p v = .ok v') (hv : v ≠ .null) : v' ≠ .null := by
  intro h0; subst h0
  unfold deserValue at h
  cases hk : p.kind <;> simp only [hk] at h <;> cases v <;> (try dsimp only at h) <;>
    first
      | exact hv rfl
      | (cases h)
      | (split at h <;> cases h)
      | (rename_i a b; cases a <;> cases b <;> simp [convOut] at h; done)
      | (rename_i c; cases c <;> simp [convOut] at h; done)

theorem deserEntry_ok (d : Decl) (kv kv' : Str × Val) (h : deserEntry d kv = .ok kv') :
    kv'.1 = kv.1 ∧ (kv'.2 = .null ↔ kv.2 = .null) := by
  unfold deserEntry at h
  split at h
  · cases h; exact ⟨rfl, Iff.rfl⟩
  · rename_i hn
    split at h
    · cases h; exact ⟨rfl, Iff.rfl⟩
    · rename_i p _
      split at h
      · rename_i v hv
        cases h
        refine ⟨rfl, ?_⟩
        simp only
        constructor
        · intro h0; exact absurd h0 (deserValue_nonnull p kv.2 v hv hn)
        · intro h0; exact absurd h0 hn
      · cases h

/-- keys and null-ness survive `_deserialize_params`, entry by entry -/
theorem deserializeParams_ok (d : Decl) (kw kw' : Kwargs) (h : deserializeParams d kw = .ok kw') :
    kw'.map (·.1) = kw.map (·.1) ∧
    (∀ k v, (k, v) ∈ kw → ∃ v', (k, v') ∈ kw' ∧ (v' = .null ↔ v = .null)) ∧
    (∀ k v', (k, v') ∈ kw' → ∃ v, (k, v) ∈ kw ∧ (v' = .null ↔ v = .null)) := by
  induction kw generalizing kw' with
  | nil => simp [deserializeParams] at h; subst h; simp
  | cons a r ih =>
    simp only [deserializeParams] at h
    split at h
    · cases h
    · rename_i a' ha
      split at h
      · cases h
      · rename_i r' hr
        cases h
        obtain ⟨i1, i2, i3⟩ := ih r' hr
        obtain ⟨e1, e2⟩ := deserEntry_ok d a a' ha
        obtain ⟨k0, v0⟩ := a
        obtain ⟨k1, v1⟩ := a'
        simp only at e1 e2
        subst e1
        refine ⟨by simp [i1], ?_, ?_⟩
        · intro k v hm
          rcases List.mem_cons.1 hm with h0 | hm
          · cases h0; exact ⟨v1, List.mem_cons_self, e2⟩
          · obtain ⟨v', h1, h2⟩ := i2 k v hm
            exact ⟨v', List.mem_cons_of_mem _ h1, h2⟩
        · intro k v' hm
          rcases List.mem_cons.1 hm with h0 | hm
          · cases h0; exact ⟨v0, List.mem_cons_self, e2⟩
          · obtain ⟨v, h1, h2⟩ := i3 k v' hm
            exact ⟨v, List.mem_cons_of_mem _ h1, h2⟩

theorem deserializeParams_of_entries (d : Decl) (kw : Kwargs)
    (h : ∀ kv ∈ kw, ∃ kv', deserEntry d kv = .ok kv') : ∃ kw', deserializeParams d kw = .ok kw' := by
  induction kw with
  | nil => exact ⟨[], rfl⟩
  | cons a r ih =>
    obtain ⟨a', ha⟩ := h a (by simp)
    obtain ⟨r', hr⟩ := ih (fun kv hk => h kv (by simp [hk]))
    exact ⟨a' :: r', by simp [deserializeParams, ha, hr]⟩

/-- `e` is the exception a conversion of the caller-supplied value `v` raised (data of the request) -/
def raisedBy (v : Val) (e : Exn) : Prop :=
  match v with
  | .bytes c => c = .raises e
  | .list a b => a = .raises e ∨ b = .raises e
  | .unreadable x => x = e
  | _ => False

theorem deserValue_err (p : Param) (v : Val) (e : Exn) (why : Reason) (h : deserValue p v = .error (e, why)) :
    e = typeError ∨ e = keyError ∨ raisedBy v e := by
  unfold deserValue at h
  cases hk : p.kind <;> simp only [hk] at h
  · cases h
  · cases v <;> simp only at h <;> try (cases h; exact Or.inl rfl)
    split at h <;> cases h
    exact Or.inr (Or.inl rfl)
  · cases v <;> simp only at h <;> try (cases h)
    rename_i c1 c2
    cases c1 <;> simp [convOut] at h
    obtain ⟨rfl, _⟩ := h
    exact Or.inr (Or.inr (Or.inl rfl))
  · cases v <;> simp only at h <;> try (cases h)
    rename_i c1 c2
    cases c2 <;> simp [convOut] at h
    obtain ⟨rfl, _⟩ := h
    exact Or.inr (Or.inr (Or.inr rfl))
  · cases v <;> simp only at h <;> try (cases h; exact Or.inl rfl)
    rename_i c1
    cases c1 <;> simp [convOut] at h
    obtain ⟨rfl, _⟩ := h
    exact Or.inr (Or.inr rfl)

/-- whatever `_deserialize_params` raises is a TypeError, a KeyError, or the exception a conversion raised -/
theorem deserializeParams_err (d : Decl) (kw : Kwargs) (e : Exn) (why : Reason)
    (h : deserializeParams d kw = .error (e, why)) :
    e = typeError ∨ e = keyError ∨ ∃ kv ∈ kw, raisedBy kv.2 e := by
  induction kw with
  | nil => simp [deserializeParams] at h
  | cons a r ih =>
    simp only [deserializeParams] at h
    split at h
    · rename_i x hx
      cases h
      unfold deserEntry at hx
      split at hx
      · cases hx
      · split at hx
        · cases hx
        · rename_i p _
          split at hx
          · cases hx
          · rename_i x' hd
            cases hx
            rcases deserValue_err p a.2 _ _ hd with h1 | h1 | h1
            · exact Or.inl h1
            · exact Or.inr (Or.inl h1)
            · exact Or.inr (Or.inr ⟨a, by simp, h1⟩)
    · split at h
      · rename_i x hx
        cases h
        rcases ih hx with h1 | h1 | ⟨kv, hm, h2⟩
        · exact Or.inl h1
        · exact Or.inr (Or.inl h1)
        · exact Or.inr (Or.inr ⟨kv, by simp [hm], h2⟩)
      · cases h

/-! ### `_validate_call_signature` -/

theorem sigCheck_ne_stop (d : Decl) (kw : Kwargs) (cols : List Col) (c : SigCheck) :
    sigCheck d kw (some cols) c ≠ .stop := by
  cases c <;> simp only [sigCheck] <;> (try split) <;> (try split) <;> simp_all

theorem runSig_ok (d : Decl) (kw : Kwargs) (cols : List Col) (cs : List SigCheck) :
    runSig d kw (some cols) cs = .ok () ↔ ∀ c ∈ cs, sigCheck d kw (some cols) c = .pass := by
  induction cs with
  | nil => simp [runSig]
  | cons c r ih =>
    simp only [runSig, List.mem_cons, forall_eq_or_imp]
    cases hc : sigCheck d kw (some cols) c with
    | pass => simp [ih]
    | stop => exact absurd hc (sigCheck_ne_stop d kw cols c)
    | reject x => simp

theorem runSig_err (d : Decl) (kw : Kwargs) (sch : Option (List Col)) (cs : List SigCheck) (e : Exn) (why : Reason)
    (h : runSig d kw sch cs = .error (e, why)) : e = typeError := by
  induction cs with
  | nil => simp [runSig] at h
  | cons c r ih =>
    simp only [runSig] at h
    split at h
    · exact ih h
    · cases h
    · rename_i x hx
      cases h
      -- every rejecting check raises TypeError
      have fl : ∀ (fcs : List FieldCheck) (i : Nat) (cols : List Col) (ps : Decl) (x : Rej),
          fieldLoop fcs i cols ps = some x → x.1 = typeError := by
        intro fcs i cols
        induction cols generalizing i with
        | nil => intro ps x h; simp [fieldLoop] at h
        | cons c cs ih2 =>
          intro ps x h
          cases ps with
          | nil => simp [fieldLoop] at h
          | cons p ps =>
            simp only [fieldLoop] at h
            split at h
            · rename_i r hr
              cases h
              obtain ⟨fc, _, hfc⟩ := List.exists_of_findSome?_eq_some hr
              cases fc <;> simp only [fieldCheck] at hfc <;> split at hfc <;> cases hfc <;> rfl
            · exact ih2 _ _ _ h
      cases c <;> simp only [sigCheck] at hx
      · split at hx <;> cases hx; rfl
      · split at hx <;> cases hx; rfl
      · split at hx <;> cases hx
      · split at hx
        · cases hx
        · split at hx <;> cases hx; rfl
      · split at hx
        · cases hx
        · split at hx
          · rename_i r hr
            cases hx
            exact fl _ _ _ _ _ hr
          · cases hx

theorem fieldCheck_none (fcs : List FieldCheck) (hn : .name ∈ fcs) (ht : .type ∈ fcs) (hb : .nullable ∈ fcs)
    (i : Nat) (c : Col) (p : Param) (h : fcs.findSome? (fieldCheck i c p) = none) :
    c.name = p.name ∧ c.ty = p.ty ∧ c.nullable = p.nullable := by
  rw [List.findSome?_eq_none_iff] at h
  have h1 := h _ hn
  have h2 := h _ ht
  have h3 := h _ hb
  simp only [fieldCheck, ne_eq, ite_eq_right_iff, reduceCtorEq, imp_false, Decidable.not_not] at h1 h2 h3
  exact ⟨h1, h2, h3⟩

theorem fieldCheck_none_of_eq (fcs : List FieldCheck) (i : Nat) (c : Col) (p : Param)
    (h : c.name = p.name ∧ c.ty = p.ty ∧ c.nullable = p.nullable) : fcs.findSome? (fieldCheck i c p) = none := by
  rw [List.findSome?_eq_none_iff]
  intro fc _
  cases fc <;> simp [fieldCheck, h.1, h.2.1, h.2.2]

/-- the per-field loop passes on equally long lists iff the fields agree pairwise -/
theorem fieldLoop_none (fcs : List FieldCheck) (hn : .name ∈ fcs) (ht : .type ∈ fcs) (hb : .nullable ∈ fcs)
    (i : Nat) (cols : List Col) (d : Decl) (hl : cols.length = d.length) :
    fieldLoop fcs i cols d = none ↔
      cols.map (·.name) = d.map (·.name) ∧ cols.map (·.ty) = d.map (·.ty) ∧ cols.map (·.nullable) = d.map (·.nullable) := by
  induction cols generalizing i d with
  | nil =>
    cases d with
    | nil => simp [fieldLoop]
    | cons p ps => simp at hl
  | cons c cs ih =>
    cases d with
    | nil => simp at hl
    | cons p ps =>
      simp only [List.length_cons, Nat.add_right_cancel_iff] at hl
      simp only [fieldLoop, List.map_cons, List.cons.injEq]
      cases hf : fcs.findSome? (fieldCheck i c p) with
      | some r =>
        simp only [reduceCtorEq, false_iff]
        rintro ⟨⟨h1, _⟩, ⟨h2, _⟩, ⟨h3, _⟩⟩
        rw [fieldCheck_none_of_eq fcs i c p ⟨h1, h2, h3⟩] at hf
        cases hf
      | none =>
        obtain ⟨h1, h2, h3⟩ := fieldCheck_none fcs hn ht hb i c p hf
        simp only [ih (i + 1) ps hl, h1, h2, h3, true_and]

theorem field_checks_complete : FieldCheck.name ∈ fieldChecks ∧ FieldCheck.type ∈ fieldChecks ∧ FieldCheck.nullable ∈ fieldChecks := by
  decide

theorem sig_checks_complete : SigCheck.fieldCount ∈ sigChecks ∧ SigCheck.perField ∈ sigChecks := by decide

/-- fields agree pairwise -/
def FieldsAgree (cols : List Col) (d : Decl) : Prop :=
  cols.map (·.name) = d.map (·.name) ∧ cols.map (·.ty) = d.map (·.ty) ∧ cols.map (·.nullable) = d.map (·.nullable)

theorem FieldsAgree.length {cols : List Col} {d : Decl} (h : FieldsAgree cols d) : cols.length = d.length := by
  have := congrArg List.length h.1
  simpa using this

theorem validateSignature_sound (d : Decl) (kw : Kwargs) (cols : List Col)
    (h : validateSignature d kw (some cols) = .ok ()) : FieldsAgree cols d := by
  unfold validateSignature at h
  rw [runSig_ok] at h
  have h1 := h _ sig_checks_complete.1
  have h2 := h _ sig_checks_complete.2
  simp only [sigCheck] at h1 h2
  have hl : cols.length = d.length := by
    split at h1
    · cases h1
    · rename_i hne; simpa using hne
  split at h2
  · cases h2
  · rename_i hf
    exact (fieldLoop_none fieldChecks field_checks_complete.1 field_checks_complete.2.1 field_checks_complete.2.2
      0 cols d hl).1 hf

theorem validateSignature_complete (d : Decl) (kw : Kwargs) (cols : List Col)
    (hf : FieldsAgree cols d) (hu : unexpectedNames d kw = []) (hm : missingNames d kw = []) :
    validateSignature d kw (some cols) = .ok () := by
  unfold validateSignature
  rw [runSig_ok]
  intro c _
  cases c <;> simp only [sigCheck]
  · simp [hu]
  · simp [hm]
  · simp
  · simp [hf.length]
  · have : fieldLoop fieldChecks 0 cols d = none :=
      (fieldLoop_none fieldChecks field_checks_complete.1 field_checks_complete.2.1 field_checks_complete.2.2
        0 cols d hf.length).2 hf
    simp [this]

/-! ### `_validate_params` -/

theorem validateParams_ok (d : Decl) (kw : Kwargs) :
    validateParams d kw = .ok () ↔ ∀ k v, (k, v) ∈ kw → v = .null → ∀ p, findParam d k = some p → p.nullable = true := by
  induction kw with
  | nil => simp [validateParams]
  | cons a r ih =>
    obtain ⟨k, v⟩ := a
    simp only [validateParams, List.mem_cons, Prod.mk.injEq]
    by_cases hv : v = .null
    · subst hv
      simp only [ne_eq, not_true_eq_false, ↓reduceIte]
      cases hp : findParam d k with
      | none =>
        simp only [ih]
        constructor
        · intro h k' v' hm hn p hp'
          rcases hm with ⟨rfl, rfl⟩ | hm
          · rw [hp] at hp'; cases hp'
          · exact h k' v' hm hn p hp'
        · intro h k' v' hm; exact h k' v' (Or.inr hm)
      | some p =>
        by_cases hnl : p.nullable = true
        · simp only [hnl, ↓reduceIte, ih]
          constructor
          · intro h k' v' hm hn p' hp'
            rcases hm with ⟨rfl, rfl⟩ | hm
            · rw [hp] at hp'; cases hp'; exact hnl
            · exact h k' v' hm hn p' hp'
          · intro h k' v' hm; exact h k' v' (Or.inr hm)
        · simp only [hnl, Bool.false_eq_true, ↓reduceIte, reduceCtorEq, false_iff]
          intro h
          exact hnl (h k .null (Or.inl ⟨rfl, rfl⟩) rfl p hp)
    · simp only [ne_eq, hv, not_false_eq_true, ↓reduceIte, ih]
      constructor
      · intro h k' v' hm hn p hp'
        rcases hm with ⟨rfl, rfl⟩ | hm
        · exact absurd hn hv
        · exact h k' v' hm hn p hp'
      · intro h k' v' hm; exact h k' v' (Or.inr hm)

theorem validateParams_err (d : Decl) (kw : Kwargs) (e : Exn) (why : Reason)
    (h : validateParams d kw = .error (e, why)) : e = typeError := by
  induction kw with
  | nil => simp [validateParams] at h
  | cons a r ih =>
    obtain ⟨k, v⟩ := a
    simp only [validateParams] at h
    split at h
    · exact ih h
    · split at h
      · exact ih h
      · split at h
        · exact ih h
        · cases h; rfl

theorem findParam_mem (d : Decl) (p : Param) (hp : p ∈ d) (hn : (d.map (·.name)).Nodup) : findParam d p.name = some p := by
  unfold findParam
  induction d with
  | nil => cases hp
  | cons q r ih =>
    simp only [List.map_cons, List.nodup_cons] at hn
    rcases List.mem_cons.1 hp with rfl | hm
    · simp
    · have : q.name ≠ p.name := by
        intro e; exact hn.1 (by rw [e]; exact List.mem_map_of_mem hm)
      simp only [List.find?_cons, this, decide_false]
      exact ih hm hn.2

/-! ### Normal form of a dispatch site -/

def reject (site : Site) (p : Phase) (r : Rej) : Resp :=
  ⟨none, (propagate r.1 (site.chain p)).1, some (propagate r.1 (site.chain p)).2, some r.2⟩

def invokeResp (site : Site) (c : Call) (kw : Kwargs) : Resp :=
  match c.behave with
  | none => ⟨some kw, .result, none, none⟩
  | some e => ⟨some kw, (propagate e (site.chain .invoke)).1, some (propagate e (site.chain .invoke)).2, some .method⟩

/-- deserialize → signature → params → invoke -/
def validated (site : Site) (c : Call) (kw : Kwargs) (sch : Option (List Col)) : Resp :=
  match deserializeParams c.decl kw with
  | .error r => reject site .deserialize r
  | .ok kw' =>
    match validateSignature c.decl kw' sch with
    | .error r => reject site .signature r
    | .ok () =>
      match validateParams c.decl kw' with
      | .error r => reject site .params r
      | .ok () => invokeResp site c kw'

def gated (site : Site) (c : Call) (kw : Kwargs) (sch : Option (List Col)) : Resp :=
  match c.gate with
  | .refuse _ _ => reject site .gate (protocolVersionError, .version)
  | .pass => validated site c kw sch

def pipeForm : List Phase := [.read, .gate, .deserialize, .signature, .params, .invoke]
def httpForm : List Phase := [.read, .nameCheck, .gate, .deserialize, .signature, .params, .invoke]

theorem run_validated (site : Site) (c : Call) (kw : Kwargs) (sch : Option (List Col)) :
    run site c [.deserialize, .signature, .params, .invoke] ⟨kw, sch⟩ = validated site c kw sch := by
  unfold validated
  simp only [run, step]
  cases h1 : deserializeParams c.decl kw with
  | error r => simp [reject]
  | ok kw' =>
    simp only
    cases h2 : validateSignature c.decl kw' sch with
    | error r => simp [reject]
    | ok u =>
      simp only
      cases h3 : validateParams c.decl kw' with
      | error r => simp [reject]
      | ok u' =>
        simp only [invokeResp]
        cases c.behave <;> simp

theorem serve_pipe_form (site : Site) (h : site.phases = pipeForm) (c : Call) :
    serve site c =
      match readRequest c.rq with
      | .error r => reject site .read r
      | .ok (kw, sch) => gated site c kw sch := by
  unfold serve
  rw [h, pipeForm]
  simp only [run, step]
  cases h0 : readRequest c.rq with
  | error r => simp [reject]
  | ok x =>
    obtain ⟨kw, sch⟩ := x
    simp only [gated]
    cases hg : c.gate with
    | refuse a b => simp [reject]
    | pass =>
      simp only
      have := run_validated site c kw sch
      simp only [run, step] at this
      exact this

theorem serve_http_form (site : Site) (h : site.phases = httpForm) (c : Call) :
    serve site c =
      match readRequest c.rq with
      | .error r => reject site .read r
      | .ok (kw, sch) =>
        if c.nameMatches then gated site c kw sch else reject site .nameCheck (typeError, .nameMismatch) := by
  unfold serve
  rw [h, httpForm]
  simp only [run, step]
  cases h0 : readRequest c.rq with
  | error r => simp [reject]
  | ok x =>
    obtain ⟨kw, sch⟩ := x
    simp only
    cases hn : c.nameMatches with
    | false => simp [reject]
    | true =>
      simp only [gated, ite_true]
      cases hg : c.gate with
      | refuse a b => simp [reject]
      | pass =>
        simp only
        have := run_validated site c kw sch
        simp only [run, step] at this
        exact this

theorem site_forms : ∀ site ∈ sites, (site.http = false ∧ site.phases = pipeForm) ∨ (site.http = true ∧ site.phases = httpForm) := by
  decide

theorem reject_invoked (site : Site) (p : Phase) (r : Rej) : (reject site p r).invokedWith = none := rfl

theorem invokeResp_invoked (site : Site) (c : Call) (kw : Kwargs) : (invokeResp site c kw).invokedWith = some kw := by
  unfold invokeResp; cases c.behave <;> rfl

def Passes (d : Decl) (kw : Kwargs) (sch : Option (List Col)) (a : Kwargs) : Prop :=
  deserializeParams d kw = .ok a ∧ validateSignature d a sch = .ok () ∧ validateParams d a = .ok ()

theorem validated_invoked (site : Site) (c : Call) (kw : Kwargs) (sch : Option (List Col)) (a : Kwargs) :
    (validated site c kw sch).invokedWith = some a ↔ Passes c.decl kw sch a := by
  unfold validated Passes
  cases h1 : deserializeParams c.decl kw with
  | error r => simp [reject_invoked]
  | ok kw' =>
    simp only
    cases h2 : validateSignature c.decl kw' sch with
    | error r =>
      simp only [reject_invoked, reduceCtorEq, Except.ok.injEq, false_iff]
      rintro ⟨rfl, h, _⟩; rw [h2] at h; cases h
    | ok u =>
      simp only
      cases h3 : validateParams c.decl kw' with
      | error r =>
        simp only [reject_invoked, reduceCtorEq, Except.ok.injEq, false_iff]
        rintro ⟨rfl, _, h⟩; rw [h3] at h; cases h
      | ok u' =>
        simp only [invokeResp_invoked, Option.some.injEq, Except.ok.injEq]
        constructor
        · rintro rfl; exact ⟨rfl, h2, h3⟩
        · rintro ⟨rfl, _, _⟩; rfl

theorem validated_resp (site : Site) (c : Call) (kw : Kwargs) (sch : Option (List Col)) (a : Kwargs)
    (h : Passes c.decl kw sch a) : validated site c kw sch = invokeResp site c a := by
  obtain ⟨h1, h2, h3⟩ := h
  unfold validated
  simp [h1, h2, h3]

theorem validateCall_ok (d : Decl) (rq : Request) (a : Kwargs) :
    validateCall d rq = .ok a ↔ ∃ kw sch, readRequest rq = .ok (kw, sch) ∧ Passes d kw sch a := by
  unfold validateCall Passes
  cases h0 : readRequest rq with
  | error r => simp
  | ok x =>
    obtain ⟨kw, sch⟩ := x
    simp only [Except.ok.injEq, Prod.mk.injEq]
    cases h1 : deserializeParams d kw with
    | error r =>
      simp only [reduceCtorEq, false_iff]
      rintro ⟨kw', sch', ⟨rfl, rfl⟩, h, _⟩; rw [h1] at h; cases h
    | ok kw' =>
      simp only
      cases h2 : validateSignature d kw' sch with
      | error r =>
        simp only [reduceCtorEq, false_iff]
        rintro ⟨kw2, sch2, ⟨rfl, rfl⟩, h, h', _⟩; rw [h1] at h; cases h; rw [h2] at h'; cases h'
      | ok u =>
        simp only
        cases h3 : validateParams d kw' with
        | error r =>
          simp only [reduceCtorEq, false_iff]
          rintro ⟨kw2, sch2, ⟨rfl, rfl⟩, h, _, h'⟩; rw [h1] at h; cases h; rw [h3] at h'; cases h'
        | ok u' =>
          simp only [Except.ok.injEq]
          constructor
          · rintro rfl; exact ⟨kw, sch, ⟨rfl, rfl⟩, h1, h2, h3⟩
          · rintro ⟨kw2, sch2, ⟨rfl, rfl⟩, h, _, _⟩; rw [h1] at h; cases h; rfl

theorem gated_invoked (site : Site) (c : Call) (kw : Kwargs) (sch : Option (List Col)) (a : Kwargs) :
    (gated site c kw sch).invokedWith = some a ↔ c.gate = .pass ∧ Passes c.decl kw sch a := by
  unfold gated
  cases c.gate with
  | pass => simp [validated_invoked]
  | refuse x y => simp [reject_invoked]

/-- the core of `C06_invoked_iff`, for any site of one of the two extracted forms -/
theorem invoked_iff (site : Site)
    (hf : (site.http = false ∧ site.phases = pipeForm) ∨ (site.http = true ∧ site.phases = httpForm))
    (c : Call) (a : Kwargs) :
    (serve site c).invokedWith = some a ↔
      (site.http = true → c.nameMatches = true) ∧ c.gate = .pass ∧ validateCall c.decl c.rq = .ok a := by
  rw [validateCall_ok]
  rcases hf with ⟨hh, hp⟩ | ⟨hh, hp⟩
  · rw [serve_pipe_form site hp]
    cases h0 : readRequest c.rq with
    | error r => simp [reject_invoked, hh]
    | ok x =>
      obtain ⟨kw, sch⟩ := x
      simp only [gated_invoked, hh, Bool.false_eq_true, false_imp_iff, true_and, Except.ok.injEq, Prod.mk.injEq]
      constructor
      · rintro ⟨h1, h2⟩; exact ⟨h1, kw, sch, ⟨rfl, rfl⟩, h2⟩
      · rintro ⟨h1, kw', sch', ⟨rfl, rfl⟩, h2⟩; exact ⟨h1, h2⟩
  · rw [serve_http_form site hp]
    cases h0 : readRequest c.rq with
    | error r => simp [reject_invoked]
    | ok x =>
      obtain ⟨kw, sch⟩ := x
      simp only [hh, forall_const, Except.ok.injEq, Prod.mk.injEq]
      cases hn : c.nameMatches with
      | false => simp [reject_invoked]
      | true =>
        simp only [ite_true, gated_invoked, true_and]
        constructor
        · rintro ⟨h1, h2⟩; exact ⟨h1, kw, sch, ⟨rfl, rfl⟩, h2⟩
        · rintro ⟨h1, kw', sch', ⟨rfl, rfl⟩, h2⟩; exact ⟨h1, h2⟩

/-! ### Where the exceptions of each step end up (extracted handler tables) -/

def refusalWire (site : Site) : Wire := if site.http then .http 400 false else .errorStream
def methodWire (site : Site) : Wire := if site.http then .http 200 true else .errorStream

theorem wire_read : ∀ site ∈ sites, (propagate rpcError (site.chain .read)).1 = refusalWire site := by decide
theorem wire_name : ∀ site ∈ sites, site.http = true →
    (propagate typeError (site.chain .nameCheck)).1 = refusalWire site := by decide
theorem wire_gate : ∀ site ∈ sites, (propagate protocolVersionError (site.chain .gate)).1 = refusalWire site := by decide
theorem wire_sig : ∀ site ∈ sites, (propagate typeError (site.chain .signature)).1 = refusalWire site := by decide
theorem wire_params : ∀ site ∈ sites, (propagate typeError (site.chain .params)).1 = refusalWire site := by decide
theorem wire_deser_te : ∀ site ∈ sites, (propagate typeError (site.chain .deserialize)).1 = refusalWire site := by decide
theorem wire_deser_ke : ∀ site ∈ sites, (propagate keyError (site.chain .deserialize)).1 = refusalWire site := by decide

theorem isA_any (e : Exn) (h : e.isA .Exception = true) (l : List HCls) (hl : .Exception ∈ l) : l.any e.isA = true := by
  rw [List.any_eq_true]; exact ⟨_, hl, h⟩

/-- any `Exception` instance raised while deserialising is answered as a request error -/
theorem wire_deser_any : ∀ site ∈ sites, ∀ e : Exn, e.isA .Exception = true →
    (propagate e (site.chain .deserialize)).1 = refusalWire site := by
  intro site hs e he
  simp only [sites, List.mem_cons, List.not_mem_nil, or_false] at hs
  rcases hs with rfl | rfl | rfl | rfl
  · simp [pipe_unary, propagate, List.find?, he, refusalWire]
  · simp [pipe_stream, propagate, List.find?, he, refusalWire]
  · have := wire_deser_te http_unary (by simp [sites])
    simp only [http_unary, propagate, List.find?, List.any_cons, he, List.any_nil, Bool.or_false] at this ⊢
    exact this
  · have := wire_deser_te http_init (by simp [sites])
    simp only [http_init, propagate, List.find?, List.any_cons, he, List.any_nil, Bool.or_false] at this ⊢
    exact this

/-- any `Exception` instance raised by the method body is reported as the method's error, itself -/
theorem wire_invoke_any : ∀ site ∈ sites, ∀ e : Exn, e.isA .Exception = true →
    propagate e (site.chain .invoke) = (methodWire site, e) := by
  intro site hs e he
  simp only [sites, List.mem_cons, List.not_mem_nil, or_false] at hs
  rcases hs with rfl | rfl | rfl | rfl
  · simp [pipe_unary, propagate, List.find?, he, methodWire]
  · simp [pipe_stream, propagate, List.find?, he, methodWire]
  · simp [http_unary, propagate, List.find?, he, methodWire, finalHttp, markerFrom, markerTo, markerHeader]
  · simp [http_init, propagate, List.find?, he, methodWire, finalHttp, markerFrom, markerTo, markerHeader]

/-! ### pieces of the obligations -/

theorem kwSet_mem (kw : Kwargs) (k : Str) (v : Val) (kv : Str × Val) (h : kv ∈ kwSet kw k v) : kv ∈ kw ∨ kv = (k, v) := by
  induction kw with
  | nil => simp [kwSet] at h; exact Or.inr h
  | cons a r ih =>
    obtain ⟨k', v'⟩ := a
    simp only [kwSet] at h
    split at h
    · rcases List.mem_cons.1 h with h | h
      · exact Or.inr h
      · exact Or.inl (List.mem_cons_of_mem _ h)
    · rcases List.mem_cons.1 h with h | h
      · exact Or.inl (by rw [h]; exact List.mem_cons_self)
      · rcases ih h with h | h
        · exact Or.inl (List.mem_cons_of_mem _ h)
        · exact Or.inr h

theorem kwOf_mem (cols : List Col) (kw : Kwargs) (kv : Str × Val) (h : kv ∈ kwOf cols kw) :
    kv ∈ kw ∨ ∃ c ∈ cols, kv = entry c := by
  induction cols generalizing kw with
  | nil => exact Or.inl h
  | cons c r ih =>
    simp only [kwOf, List.foldl_cons] at h
    rcases ih _ h with h | ⟨c', hc, he⟩
    · rcases kwSet_mem _ _ _ _ h with h | h
      · exact Or.inl h
      · exact Or.inr ⟨c, by simp, h⟩
    · exact Or.inr ⟨c', by simp [hc], he⟩

theorem map_getElem_eq {α β γ : Type} (f : α → γ) (g : β → γ) (l1 : List α) (l2 : List β)
    (h : l1.map f = l2.map g) (i : Nat) (h1 : i < l1.length) (h2 : i < l2.length) : f l1[i] = g l2[i] := by
  have e1 : (l1.map f)[i]? = some (f l1[i]) := by simp [h1]
  have e2 : (l2.map g)[i]? = some (g l2[i]) := by simp [h2]
  rw [h] at e1
  rw [e1] at e2
  exact Option.some.inj e2

/-- every rejection of the deserialise → signature → params block is answered as a request error -/
theorem validated_wire (site : Site) (hs : site ∈ sites) (c : Call) (kw : Kwargs) (sch : Option (List Col))
    (hconv : ∀ kv ∈ kw, ∀ e, raisedBy kv.2 e → e.isA .Exception = true)
    (h : (validated site c kw sch).invokedWith = none) : (validated site c kw sch).wire = refusalWire site := by
  unfold validated at h ⊢
  cases h1 : deserializeParams c.decl kw with
  | error r =>
    obtain ⟨e, why⟩ := r
    simp only [reject]
    rcases deserializeParams_err _ _ _ _ h1 with rfl | rfl | ⟨kv, hm, hr⟩
    · exact wire_deser_te site hs
    · exact wire_deser_ke site hs
    · exact wire_deser_any site hs e (hconv kv hm e hr)
  | ok kw' =>
    simp only [h1] at h ⊢
    cases h2 : validateSignature c.decl kw' sch with
    | error r =>
      obtain ⟨e, why⟩ := r
      simp only [reject]
      have : e = typeError := runSig_err _ _ _ _ _ _ h2
      subst this
      exact wire_sig site hs
    | ok u =>
      simp only [h2] at h ⊢
      cases h3 : validateParams c.decl kw' with
      | error r =>
        obtain ⟨e, why⟩ := r
        simp only [reject]
        have : e = typeError := validateParams_err _ _ _ _ h3
        subst this
        exact wire_params site hs
      | ok u' =>
        simp only [h3, invokeResp_invoked] at h
        cases h

theorem gated_wire (site : Site) (hs : site ∈ sites) (c : Call) (kw : Kwargs) (sch : Option (List Col))
    (hconv : ∀ kv ∈ kw, ∀ e, raisedBy kv.2 e → e.isA .Exception = true)
    (h : (gated site c kw sch).invokedWith = none) : (gated site c kw sch).wire = refusalWire site := by
  unfold gated at h ⊢
  cases hg : c.gate with
  | refuse a b => simp only [reject]; exact wire_gate site hs
  | pass => simp only [hg] at h ⊢; exact validated_wire site hs c kw sch hconv h

theorem read_conv (rq : Request) (kw : Kwargs) (sch : Option (List Col)) (h : readRequest rq = .ok (kw, sch))
    (hc : ∀ col ∈ rq.cols, ∀ e, raisedBy col.val e → e.isA .Exception = true) :
    ∀ kv ∈ kw, ∀ e, raisedBy kv.2 e → e.isA .Exception = true := by
  obtain ⟨_, _, _, hk, _⟩ := (readRequest_ok rq kw sch).1 h
  intro kv hm e hr
  rw [hk] at hm
  rcases kwOf_mem _ _ _ hm with h0 | ⟨c, hcm, rfl⟩
  · cases h0
  · exact hc c hcm e hr

theorem read_err_wire (site : Site) (hs : site ∈ sites) (rq : Request) (r : Rej) (h : readRequest rq = .error r)
    (hc : ∀ col ∈ rq.cols, ∀ e, raisedBy col.val e → e.isA .Exception = true) :
    (reject site .read r).wire = refusalWire site := by
  obtain ⟨e, why⟩ := r
  have : e = rpcError := readRequest_err rq e why (fun c hm x hx => hc c hm x (by rw [hx]; rfl)) h
  subst this
  exact wire_read site hs

theorem rejected_wire (site : Site) (hs : site ∈ sites) (c : Call)
    (hc : ∀ col ∈ c.rq.cols, ∀ e, raisedBy col.val e → e.isA .Exception = true)
    (h : (serve site c).invokedWith = none) : (serve site c).wire = refusalWire site := by
  rcases site_forms site hs with ⟨_, hp⟩ | ⟨hh, hp⟩
  · rw [serve_pipe_form site hp] at h ⊢
    cases h0 : readRequest c.rq with
    | error r => exact read_err_wire site hs c.rq r h0 hc
    | ok x =>
      obtain ⟨kw, sch⟩ := x
      simp only [h0] at h ⊢
      exact gated_wire site hs c kw sch (read_conv c.rq kw sch h0 hc) h
  · rw [serve_http_form site hp] at h ⊢
    cases h0 : readRequest c.rq with
    | error r => exact read_err_wire site hs c.rq r h0 hc
    | ok x =>
      obtain ⟨kw, sch⟩ := x
      simp only [h0] at h ⊢
      cases hn : c.nameMatches with
      | false => simp only [Bool.false_eq_true, ite_false, reject]; exact wire_name site hs hh
      | true =>
        simp only [hn, ite_true] at h ⊢
        exact gated_wire site hs c kw sch (read_conv c.rq kw sch h0 hc) h

theorem invoked_resp (site : Site) (hs : site ∈ sites) (c : Call) (a : Kwargs)
    (h : (serve site c).invokedWith = some a) : serve site c = invokeResp site c a := by
  rcases site_forms site hs with ⟨_, hp⟩ | ⟨_, hp⟩
  · rw [serve_pipe_form site hp] at h ⊢
    cases h0 : readRequest c.rq with
    | error r => simp [h0, reject_invoked] at h
    | ok x =>
      obtain ⟨kw, sch⟩ := x
      simp only [h0] at h ⊢
      obtain ⟨hg, hp⟩ := (gated_invoked site c kw sch a).1 h
      simp only [gated, hg]
      exact validated_resp site c kw sch a hp
  · rw [serve_http_form site hp] at h ⊢
    cases h0 : readRequest c.rq with
    | error r => simp [h0, reject_invoked] at h
    | ok x =>
      obtain ⟨kw, sch⟩ := x
      simp only [h0] at h ⊢
      cases hn : c.nameMatches with
      | false => simp [hn, reject_invoked] at h
      | true =>
        simp only [hn, ite_true] at h ⊢
        obtain ⟨hg, hp⟩ := (gated_invoked site c kw sch a).1 h
        simp only [gated, hg]
        exact validated_resp site c kw sch a hp

end Aux

open Aux

/-! ## The obligations -/

/-- assumptions on the data of one call: declared parameter names are distinct (Python syntax), and whatever a
conversion of a caller-supplied value, `as_py()` or the method body raises is an `Exception` instance (not a
`KeyboardInterrupt` / `SystemExit`) -/
structure WF (c : Call) : Prop where
  names : (c.decl.map (·.name)).Nodup
  convs : ∀ col ∈ c.rq.cols, ∀ e, raisedBy col.val e → e.isA .Exception = true
  method : ∀ e, c.behave = some e → e.isA .Exception = true

/-- the contract side of a declared signature / the wire side of a request, as the spec sees them -/
def declP (d : Decl) : List Spec.DeclP := d.map fun p => ⟨p.name, p.ty, p.nullable⟩
def colP (cols : List Col) : List Spec.ColP := cols.map fun c => ⟨c.name, c.ty, c.nullable, decide (c.val = .null)⟩

/-- a non-null value is one of the declared Python type (so `_deserialize_value` converts it) -/
def ValueOk : PyKind → Val → Prop
  | .plain, _ => True
  | .enum ms, v => ∃ s, v = .str s ∧ s ∈ ms
  | .dataclass, v => v = .bytes .ok
  | .dict, v => ∀ a b, v = .list a b → a = .ok
  | .fset, v => ∀ a b, v = .list a b → b = .ok

def answerOf (r : Resp) : Spec.Answer :=
  if r.wire = .result then .result
  else if r.invokedWith.isSome then
    (if r.wire = .http 200 true then .methodError200 else if r.wire = .errorStream then .methodErrorStream else .other)
  else
    (if r.wire = .http 400 false then .requestError400 else if r.wire = .errorStream then .requestErrorStream else .other)

def obsOf (r : Resp) : Spec.Observation := ⟨r.invokedWith.isSome, answerOf r, r.err.map (·.cls)⟩

/-- the bodies of `_validate_params`, `_deserialize_params`, `_deserialize_value`, the guard / schema recording of
`_read_request` and the exemption set of `_validate_call_signature` are the ones the model transliterates, and the
validation functions keep no module-level / cross-call state (the model is a function of declaration and request only) -/
theorem shapes_recognised :
    validateParamsRecognised = true ∧ deserializeParamsRecognised = true ∧ deserializeValueRecognised = true ∧
    readRowGuard = true ∧ readRecordsSchema = true ∧ unexpectedExempt = ["ctx"] ∧ validationState = [] ∧
    (∀ site ∈ sites, (site.http = false ∧ site.phases = pipeForm) ∨ (site.http = true ∧ site.phases = httpForm)) := by
  refine ⟨by decide, by decide, by decide, by decide, by decide, by decide, by decide, site_forms⟩

theorem conforms_fields (d : Decl) (cols : List Col) (h : Spec.Conforms (declP d) (colP cols)) : FieldsAgree cols d := by
  obtain ⟨h1, h2, h3, _⟩ := h
  simp only [declP, colP, List.map_map] at h1 h2 h3
  exact ⟨h1, h2, h3⟩

/-- **Soundness**, for every declared signature and every request: if validation lets the request through, its
columns equal the declared names, order, Arrow types and nullability, every non-optional parameter is non-null, the
batch is valid with one row, and the kwargs handed on are exactly the declared names in order. -/
theorem C06_sound (d : Decl) (rq : Request) (a : Kwargs) (hn : (d.map (·.name)).Nodup)
    (h : validateCall d rq = .ok a) :
    Spec.Conforms (declP d) (colP rq.cols) ∧ a.map (·.1) = d.map (·.name) ∧
      rq.ipcValid = true ∧ (rq.cols = [] ∨ rq.rows = 1) ∧ Readable rq.cols := by
  obtain ⟨kw, sch, hread, h1, h2, h3⟩ := (validateCall_ok d rq a).1 h
  obtain ⟨hv, hrows, hreadable, hkw, hsch⟩ := (readRequest_ok rq kw sch).1 hread
  subst hsch
  have hf : FieldsAgree rq.cols d := validateSignature_sound d a rq.cols h2
  have hnd : (rq.cols.map (·.name)).Nodup := by rw [hf.1]; exact hn
  have hkw' : kw = rq.cols.map entry := by
    rw [hkw, kwOf_nodup rq.cols [] (by simpa using hnd)]; simp
  obtain ⟨hkeys, hfwd, _⟩ := deserializeParams_ok d kw a h1
  have hkeys' : a.map (·.1) = d.map (·.name) := by
    rw [hkeys, hkw', ← hf.1]; simp [entry, List.map_map, Function.comp_def]
  refine ⟨⟨?_, ?_, ?_, ?_⟩, hkeys', hv, hrows, hreadable⟩
  · simpa [declP, colP, List.map_map, Function.comp_def] using hf.1
  · simpa [declP, colP, List.map_map, Function.comp_def] using hf.2.1
  · simpa [declP, colP, List.map_map, Function.comp_def] using hf.2.2
  · intro i hd hc hopt
    simp only [declP, colP, List.length_map] at hd hc
    simp only [declP, colP, List.getElem_map] at hopt ⊢
    simp only [decide_eq_false_iff_not]
    intro hnull
    have hmem : entry rq.cols[i] ∈ kw := by rw [hkw']; exact List.mem_map_of_mem (List.getElem_mem hc)
    obtain ⟨v', hv', hiff⟩ := hfwd (rq.cols[i]).name (rq.cols[i]).val hmem
    have hname : (rq.cols[i]).name = (d[i]).name := map_getElem_eq _ _ _ _ hf.1 i hc hd
    have hp : findParam d (rq.cols[i]).name = some d[i] := by
      rw [hname]; exact findParam_mem d d[i] (List.getElem_mem hd) hn
    have := (validateParams_ok d a).1 h3 _ v' hv' (hiff.2 hnull) d[i] hp
    rw [hopt] at this
    cases this

theorem deserValue_of_ok (p : Param) (v : Val) (h : ValueOk p.kind v) : ∃ v', deserValue p v = .ok v' := by
  unfold deserValue
  cases hk : p.kind <;> rw [hk] at h <;> simp only [ValueOk] at h ⊢
  · exact ⟨v, rfl⟩
  · obtain ⟨s, rfl, hm⟩ := h
    refine ⟨.member s, ?_⟩
    simp [hm]
  · cases v <;> try exact ⟨_, rfl⟩
    rename_i a b
    have := h a b rfl
    subst this
    exact ⟨.obj, rfl⟩
  · cases v <;> try exact ⟨_, rfl⟩
    rename_i a b
    have := h a b rfl
    subst this
    exact ⟨.obj, rfl⟩
  · subst h; exact ⟨.obj, rfl⟩

/-- **Completeness**, for every declared signature and every request: a request that conforms (valid batch, one row,
readable values, every non-null value one of the declared Python type) passes validation. -/
theorem C06_complete (d : Decl) (rq : Request) (hn : (d.map (·.name)).Nodup)
    (hc : Spec.Conforms (declP d) (colP rq.cols)) (hv : rq.ipcValid = true) (hr : rq.cols = [] ∨ rq.rows = 1)
    (hread : Readable rq.cols)
    (hok : ∀ i (hd : i < d.length) (hc : i < rq.cols.length),
      (rq.cols[i]).val ≠ .null → ValueOk (d[i]).kind (rq.cols[i]).val) :
    ∃ a, validateCall d rq = .ok a ∧ a.map (·.1) = d.map (·.name) := by
  have hf : FieldsAgree rq.cols d := conforms_fields d rq.cols hc
  have hnd : (rq.cols.map (·.name)).Nodup := by rw [hf.1]; exact hn
  have hkw : kwOf rq.cols [] = rq.cols.map entry := by
    rw [kwOf_nodup rq.cols [] (by simpa using hnd)]; simp
  have hreadok : readRequest rq = .ok (rq.cols.map entry, some rq.cols) :=
    (readRequest_ok rq _ _).2 ⟨hv, hr, hread, hkw.symm, rfl⟩
  -- every column has its declared parameter at the same index
  have hidx : ∀ c ∈ rq.cols, ∃ i, ∃ (hd : i < d.length) (hc : i < rq.cols.length), rq.cols[i] = c ∧
      findParam d c.name = some d[i] := by
    intro c hm
    obtain ⟨i, hi, rfl⟩ := List.mem_iff_getElem.1 hm
    have hd : i < d.length := by rw [← hf.length]; exact hi
    refine ⟨i, hd, hi, rfl, ?_⟩
    rw [map_getElem_eq _ _ _ _ hf.1 i hi hd]
    exact findParam_mem d d[i] (List.getElem_mem hd) hn
  obtain ⟨a, ha⟩ := deserializeParams_of_entries d (rq.cols.map entry) (by
    intro kv hm
    obtain ⟨c, hcm, rfl⟩ := List.mem_map.1 hm
    unfold deserEntry
    by_cases h0 : c.val = .null
    · exact ⟨entry c, by simp [entry, h0]⟩
    · obtain ⟨i, hd, hi, rfl, hp⟩ := hidx c hcm
      obtain ⟨v', hv'⟩ := deserValue_of_ok d[i] (rq.cols[i]).val (hok i hd hi h0)
      exact ⟨((rq.cols[i]).name, v'), by simp [entry, h0, hp, hv']⟩)
  obtain ⟨hkeys, _, hback⟩ := deserializeParams_ok d _ a ha
  have hkeys' : a.map (·.1) = d.map (·.name) := by
    rw [hkeys, ← hf.1]; simp [entry, List.map_map, Function.comp_def]
  have hu : unexpectedNames d a = [] := by
    unfold unexpectedNames
    rw [List.filter_eq_nil_iff]
    intro k hk
    rw [hkeys'] at hk
    obtain ⟨p, hp, rfl⟩ := List.mem_map.1 hk
    have : d.any (fun q => decide (q.name = p.name)) = true := List.any_eq_true.2 ⟨p, hp, by simp⟩
    simp [this]
  have hm : missingNames d a = [] := by
    unfold missingNames
    rw [List.map_eq_nil_iff, List.filter_eq_nil_iff]
    intro p hp
    have hk : p.name ∈ a.map (·.1) := by rw [hkeys']; exact List.mem_map_of_mem hp
    obtain ⟨kv, hkv, he⟩ := List.mem_map.1 hk
    have : a.any (fun kv => decide (kv.1 = p.name)) = true := List.any_eq_true.2 ⟨kv, hkv, by simp [he]⟩
    simp [this]
  have hsig := validateSignature_complete d a rq.cols hf hu hm
  have hpar : validateParams d a = .ok () := by
    rw [validateParams_ok]
    intro k v' hmem hnull p hp
    obtain ⟨v, hv0, hiff⟩ := hback k v' hmem
    have hvnull : v = .null := hiff.1 hnull
    obtain ⟨c, hcm, he⟩ := List.mem_map.1 hv0
    obtain ⟨i, hd, hi, rfl, hp'⟩ := hidx c hcm
    simp only [entry, Prod.mk.injEq] at he
    obtain ⟨rfl, hval⟩ := he
    rw [hp'] at hp
    cases hp
    have hnullc := hc.2.2.2 i (by simpa [declP] using hd) (by simpa [colP] using hi)
    simp only [declP, colP, List.getElem_map] at hnullc
    cases hnl : (d[i]).nullable with
    | true => rfl
    | false =>
      have := hnullc hnl
      simp only [decide_eq_false_iff_not] at this
      exact absurd (hval.trans hvnull) this
  exact ⟨a, (validateCall_ok d rq a).2 ⟨_, _, hreadok, ha, hsig, hpar⟩, hkeys'⟩

/-- at each of the four dispatch sites (step order as extracted): the method is invoked — with exactly the validated
kwargs — iff the URL/IPC name check (HTTP), the version gate and the validation of the request all pass -/
theorem C06_invoked_iff (site : Site) (hs : site ∈ sites) (c : Call) (a : Kwargs) :
    (serve site c).invokedWith = some a ↔
      (site.http = true → c.nameMatches = true) ∧ c.gate = .pass ∧ validateCall c.decl c.rq = .ok a :=
  invoked_iff site (site_forms site hs) c a

/-- a request that does not reach the method is answered as a *request* error — HTTP 400 without the error marker, an
error stream (after which the loop continues) on sockets — whichever step refused it, whatever exception class a
conversion of its values raised; nothing escapes -/
theorem C06_rejected_before (site : Site) (hs : site ∈ sites) (c : Call) (hw : WF c)
    (h : (serve site c).invokedWith = none) :
    (serve site c).wire = (if site.http then .http 400 false else .errorStream) :=
  rejected_wire site hs c hw.convs h

/-- an exception raised by the method itself is reported as the method's own, with its class: HTTP 200 +
`X-VGI-RPC-Error`, an error batch on sockets — never the request-error answer -/
theorem C06_method_errors_not_request_errors (site : Site) (hs : site ∈ sites) (c : Call) (hw : WF c) (e : Exn)
    (hb : c.behave = some e) (a : Kwargs) (h : (serve site c).invokedWith = some a) :
    (serve site c).wire = (if site.http then .http 200 true else .errorStream) ∧
      (serve site c).err = some e ∧ (serve site c).why = some .method ∧ (serve site c).wire ≠ .http 400 false := by
  rw [invoked_resp site hs c a h]
  have hp := wire_invoke_any site hs e (hw.method e hb)
  simp only [invokeResp, hb, hp, methodWire]
  refine ⟨trivial, trivial, trivial, ?_⟩
  split <;> simp

/-- **C06** at every dispatch site, for every declared signature, every request and every method behaviour -/
theorem C06 (site : Site) (hs : site ∈ sites) (c : Call) (hw : WF c) :
    Spec.Holds site.http (declP c.decl) (colP c.rq.cols) (c.behave.map (·.cls)) (obsOf (serve site c)) := by
  have hinv : ∀ a, (serve site c).invokedWith = some a → Spec.Conforms (declP c.decl) (colP c.rq.cols) := by
    intro a ha
    exact (C06_sound c.decl c.rq a hw.names ((C06_invoked_iff site hs c a).1 ha).2.2).1
  refine ⟨?_, ?_, ?_⟩
  · intro hi
    simp only [obsOf, Option.isSome_iff_exists] at hi
    obtain ⟨a, ha⟩ := hi
    exact hinv a ha
  · intro hnc
    have hnone : (serve site c).invokedWith = none := by
      cases hi : (serve site c).invokedWith with
      | none => rfl
      | some a => exact absurd (hinv a hi) hnc
    have hwire := C06_rejected_before site hs c hw hnone
    refine ⟨by simp [obsOf, hnone], ?_⟩
    simp only [obsOf, answerOf, hnone, hwire, Option.isSome_none]
    cases site.http <;> simp
  · intro cls hi hr
    simp only [obsOf, Option.isSome_iff_exists] at hi
    obtain ⟨a, ha⟩ := hi
    simp only [Option.map_eq_some_iff] at hr
    obtain ⟨e, hb, rfl⟩ := hr
    obtain ⟨h1, h2, _, _⟩ := C06_method_errors_not_request_errors site hs c hw e hb a ha
    simp only [obsOf, answerOf, ha, h1, h2, Option.isSome_some, Option.map_some]
    cases site.http <;> simp

/-- non-vacuity: a conforming call that is invoked, at a real site -/
example : (serve http_unary ⟨[⟨"a".toList, "int64".toList, false, false, .plain⟩],
    ⟨[⟨"a".toList, "int64".toList, false, .other⟩], 1, true, none⟩, true, .pass, none⟩).invokedWith
      = some [("a".toList, .other)] := by decide

/-- non-vacuity: a retyped column is refused with 400 before the method runs -/
example : (serve http_unary ⟨[⟨"a".toList, "int64".toList, false, false, .plain⟩],
    ⟨[⟨"a".toList, "int32".toList, false, .other⟩], 1, true, none⟩, true, .pass, none⟩)
      = ⟨none, .http 400 false, some typeError, some (.fieldType 0)⟩ := by decide

/-- non-vacuity: a request routed through shared memory whose *pointer* batch shows the declared schema while the batch
it resolves to is retyped is refused on the resolved columns, before the method runs -/
example : (serve pipe_unary ⟨[⟨"a".toList, "int64".toList, false, false, .plain⟩],
    ⟨[⟨"a".toList, "int32".toList, false, .other⟩], 1, true, some [⟨"a".toList, "int64".toList, false, .null⟩]⟩,
    true, .pass, none⟩)
      = ⟨none, .errorStream, some typeError, some (.fieldType 0)⟩ := by decide

end VgiVerif.C06
