import VgiVerif.Spec.C30
import VgiVerif.Proofs.Engine
/-
C30 — proofs.  Helper lemmas in `Aux`; the obligations at the bottom.
-/
namespace VgiVerif.C30
open VgiVerif.Engine

namespace Aux

/-! ### the read loop -/

theorem dataBatches_cons (b : WBatch) (r : List WBatch) :
    Spec.dataBatches (b :: r) = if classify b == .data then b :: Spec.dataBatches r else Spec.dataBatches r := by
  simp [Spec.dataBatches, List.filter_cons]

theorem logsOf_cons (b : WBatch) (r : List WBatch) :
    Spec.logsOf (b :: r) = match classify b with | .log l => l :: Spec.logsOf r | _ => Spec.logsOf r := by
  simp only [Spec.logsOf, List.filterMap_cons]
  cases classify b <;> rfl

/-- an accepted scan read the stream to its end, met no pointer, and split it into its logs and data batches -/
theorem scan_ok (bs : List WBatch) (t : Tail) (logs : List Log) (ds : List WBatch) (h : scan bs t = .ok (logs, ds)) :
    t = .clean ∧ (∀ b ∈ bs, hasLocation b = false) ∧ Spec.dataBatches bs = ds ∧ Spec.logsOf bs = logs := by
  induction bs generalizing logs ds with
  | nil =>
    cases t with
    | clean =>
      simp only [scan, Except.ok.injEq, Prod.mk.injEq] at h
      obtain ⟨h1, h2⟩ := h
      subst h1 h2
      simp [Spec.dataBatches, Spec.logsOf]
    | invalid => simp [scan] at h
    | other => simp [scan] at h
  | cons b r ih =>
    simp only [scan] at h
    cases hl : hasLocation b with
    | true => simp [hl] at h
    | false =>
      simp only [hl, Bool.false_eq_true, if_false] at h
      cases hc : classify b with
      | exc e => simp [hc] at h
      | badLevel => simp [hc] at h
      | log l =>
        simp only [hc] at h
        cases hs : scan r t with
        | error e => simp [hs] at h
        | ok p =>
          obtain ⟨ls, ds'⟩ := p
          simp only [hs, Except.ok.injEq, Prod.mk.injEq] at h
          obtain ⟨ht, hloc, hd, hlg⟩ := ih ls ds' hs
          refine ⟨ht, ?_, ?_, ?_⟩
          · intro x hx
            cases hx with
            | head => exact hl
            | tail _ hx => exact hloc x hx
          · rw [dataBatches_cons, hc]; simp only [show (Cls.log l == Cls.data) = false by rfl]; simp [hd, h.2]
          · rw [logsOf_cons, hc]; simp [hlg, h.1]
      | data =>
        simp only [hc] at h
        cases hs : scan r t with
        | error e => simp [hs] at h
        | ok p =>
          obtain ⟨ls, ds'⟩ := p
          simp only [hs, Except.ok.injEq, Prod.mk.injEq] at h
          obtain ⟨ht, hloc, hd, hlg⟩ := ih ls ds' hs
          refine ⟨ht, ?_, ?_, ?_⟩
          · intro x hx
            cases hx with
            | head => exact hl
            | tail _ hx => exact hloc x hx
          · rw [dataBatches_cons, hc]; simp [hd, h.2]
          · rw [logsOf_cons, hc]; simp [hlg, h.1]

theorem shaBad_false (expSha : Option Str) (sha : Str) (h : shaBad expSha sha = false) :
    ∀ x, expSha = some x → sha = x := by
  intro x hx
  subst hx
  simpa [shaBad] using h

/-- one attempt: accepted ⇒ the payload it saw is intact -/
theorem fetchAndResolve_ok (es : Nat) (sh : Option Str) (f : Fetched) (logs : List Log) (d : WBatch)
    (h : fetchAndResolve es sh f = .ok (logs, d)) : Spec.Intact es sh f logs d := by
  cases f with
  | failed => simp [fetchAndResolve] at h
  | undecodable => simp [fetchAndResolve] at h
  | got sha parsed =>
    simp only [fetchAndResolve] at h
    cases hb : shaBad sh sha with
    | true => simp [hb] at h
    | false =>
      simp only [hb, Bool.false_eq_true, if_false] at h
      cases parsed with
      | bad => simp at h
      | other => simp at h
      | stream sch bs tail =>
        simp only at h
        cases hs : scan bs tail with
        | error e => simp [hs] at h
        | ok p =>
          obtain ⟨ls, ds⟩ := p
          obtain ⟨ht, hloc, hd, hlg⟩ := scan_ok bs tail ls ds hs
          rw [hs] at h
          match ds, h, hd with
          | [], h, _ => simp at h
          | [d'], h, hd =>
            simp only at h
            by_cases hsch : sch = es
            · simp [hsch] at h
              subst ht
              refine ⟨sha, sch, bs, rfl, shaBad_false sh sha hb, hsch, hloc, ?_, ?_⟩
              · rw [hd, h.2]
              · rw [hlg, h.1]
            · simp [hsch] at h
          | _ :: _ :: _, h, _ => simp at h

theorem resolveFrom_ok (es : Nat) (sh : Option Str) (fetch : Nat → Fetched) (n : Nat) :
    ∀ k logs d, resolveFrom es sh fetch k n = .ok (logs, d) →
      ∃ j, k ≤ j ∧ j ≤ k + n ∧ Spec.Intact es sh (fetch j) logs d := by
  induction n with
  | zero =>
    intro k logs d h
    simp only [resolveFrom] at h
    cases hf : fetchAndResolve es sh (fetch k) with
    | ok r =>
      rw [hf] at h
      simp only [Except.ok.injEq] at h
      subst h
      exact ⟨k, Nat.le_refl k, by omega, fetchAndResolve_ok es sh (fetch k) logs d hf⟩
    | error e =>
      rw [hf] at h
      by_cases hr : retryable e = true <;> simp [hr] at h
  | succ n ih =>
    intro k logs d h
    simp only [resolveFrom] at h
    cases hf : fetchAndResolve es sh (fetch k) with
    | ok r =>
      rw [hf] at h
      simp only [Except.ok.injEq] at h
      subst h
      exact ⟨k, Nat.le_refl k, by omega, fetchAndResolve_ok es sh (fetch k) logs d hf⟩
    | error e =>
      rw [hf] at h
      by_cases hr : retryable e = true
      · simp only [hr, if_true] at h
        obtain ⟨j, hj1, hj2, hi⟩ := ih (k + 1) logs d h
        exact ⟨j, by omega, by omega, hi⟩
      · simp [hr] at h

theorem retries_le (mr : Int) : retries mr ≤ Gen.C30.retryCap := by
  unfold retries; omega

/-! ### round trip: what `externalize` stored resolves to what was externalised -/

theorem keeps_refl {B : Type} (st : Storage B) (s : st.S) : Spec.Keeps st s s := fun _ _ h => h

theorem keeps_trans {B : Type} (st : Storage B) (a b c : st.S) (h1 : Spec.Keeps st a b) (h2 : Spec.Keeps st b c) :
    Spec.Keeps st a c := fun u x h => h2 u x (h1 u x h)

theorem keeps_put {B : Type} (st : Storage B) (s : st.S) (o : Obj B) : Spec.Keeps st s (st.put s o).1 :=
  fun u x h => st.put_keeps s o u x h

theorem fetchAndResolve_intact (schema : Nat) (h : Str) (bs : List WBatch) (logs : List Log) (d : WBatch)
    (hscan : scan bs .clean = .ok (logs, [d])) :
    fetchAndResolve schema (some h) (.got h (.stream schema bs .clean)) = .ok (logs, d) := by
  simp [fetchAndResolve, shaBad, hscan]

theorem fetchAndResolve_intact_nosha (schema : Nat) (h : Str) (bs : List WBatch) (logs : List Log) (d : WBatch)
    (hscan : scan bs .clean = .ok (logs, [d])) :
    fetchAndResolve schema none (.got h (.stream schema bs .clean)) = .ok (logs, d) := by
  simp [fetchAndResolve, shaBad, hscan]

theorem resolveFrom_first (es : Nat) (sh : Option Str) (fetch : Nat → Fetched) (k n : Nat) (r : List Log × WBatch)
    (h : fetchAndResolve es sh (fetch k) = .ok r) : resolveFrom es sh fetch k n = .ok r := by
  cases n <;> simp [resolveFrom, h]

theorem view_stored {B : Type} (env : Env B) (cfg : Cfg) (schema : Nat) (bs : List WBatch) :
    view env (some (match cfg.compression with
      | none => (⟨env.ser schema bs, none⟩ : Obj B)
      | some c => ⟨env.comp c (env.ser schema bs), some c⟩))
      = .got (env.sha (env.ser schema bs)) (.stream schema bs .clean) := by
  cases cfg.compression with
  | none => simp [view, env.parse_ser]
  | some c => simp [view, env.decomp_comp, env.parse_ser]

theorem externalize_resolves {B : Type} (env : Env B) (st : Storage B) (cfg : Cfg) (s : st.S) (schema : Nat)
    (bs : List WBatch) (logs : List Log) (d : WBatch) (hscan : scan bs .clean = .ok (logs, [d]))
    (s' : st.S) (hk : Spec.Keeps st (externalize env st cfg s schema bs).1 s') (mr : Int) :
    resolverAt env st s' mr (externalize env st cfg s schema bs).2 = .ok (logs, decodeData d) := by
  let o : Obj B := match cfg.compression with
    | none => ⟨env.ser schema bs, none⟩
    | some c => ⟨env.comp c (env.ser schema bs), some c⟩
  have hk' : Spec.Keeps st (st.put s o).1 s' := hk
  have hget : st.get s' (st.put s o).2 = some o := hk' _ _ (st.get_put s o)
  have hview : view env (some o) = .got (env.sha (env.ser schema bs)) (.stream schema bs .clean) := view_stored env cfg schema bs
  show (match resolve schema (some (env.sha (env.ser schema bs))) mr (fun _ => view env (st.get s' (st.put s o).2)) with
    | .ok (logs, d) => (Except.ok (logs, decodeData d) : Except Reject (List Log × Batch))
    | .error e => Except.error e) = _
  rw [hget, hview]
  unfold resolve
  rw [resolveFrom_first _ _ _ 0 _ (logs, d) (fetchAndResolve_intact schema _ bs logs d hscan)]

/-! ### a collector cycle, encoded, scans to its logs and its data batch -/

theorem exception_not_level : Gen.C30.logLevels.contains Gen.C30.exceptionLevel = false := by decide

theorem classify_log (l : Log) (hv : Spec.ValidLog l) : classify (encode (.log l)) = .log l := by
  have hne : l.level ≠ Gen.C30.exceptionLevel := by
    intro h
    have := hv
    rw [Spec.ValidLog, h, exception_not_level] at this
    cases this
  cases l with
  | mk level text extra =>
    simp only [Spec.ValidLog] at hv
    have hmem : level ∈ Gen.C30.logLevels := by simpa using hv
    simp only at hne
    simp [classify, encode, hne, hmem]

theorem classify_data (b : Batch) : classify (encode (.data b)) = .data := by
  simp [classify, encode]

theorem scan_logs (ls : List Log) (hv : ∀ l ∈ ls, Spec.ValidLog l) (rest : List WBatch) (t : Tail) :
    scan ((logItems ls).map encode ++ rest) t =
      match scan rest t with
      | .ok (l2, ds) => .ok (ls ++ l2, ds)
      | .error e => .error e := by
  induction ls with
  | nil => simp [logItems]; cases scan rest t with
    | ok p => rfl
    | error e => rfl
  | cons l r ih =>
    have hl := classify_log l (hv l (by simp))
    have ih' := ih (fun x hx => hv x (by simp [hx]))
    simp only [logItems, List.map_cons, List.cons_append] at ih' ⊢
    rw [scan]
    have hloc : hasLocation (encode (Item.log l)) = false := rfl
    simp only [hloc, Bool.false_eq_true, if_false, hl, ih']
    cases scan rest t with
    | ok p => rfl
    | error e => rfl

theorem scan_cycle (a p : List Log) (b : Batch) (ha : ∀ l ∈ a, Spec.ValidLog l) (hp : ∀ l ∈ p, Spec.ValidLog l) :
    scan ((logItems a ++ [Item.data b] ++ logItems p).map encode) .clean = .ok (a ++ p, [encode (.data b)]) := by
  have h2 : scan ((logItems p).map encode) .clean = .ok (p, []) := by
    have := scan_logs p hp [] .clean
    simpa [scan] using this
  have h1 : scan (encode (.data b) :: (logItems p).map encode) .clean = .ok (p, [encode (.data b)]) := by
    rw [scan]
    have hloc : hasLocation (encode (Item.data b)) = false := rfl
    simp only [hloc, Bool.false_eq_true, if_false, classify_data, h2]
  have := scan_logs a ha (encode (.data b) :: (logItems p).map encode) .clean
  simp only [List.map_append, List.map_cons, List.map_nil, List.append_assoc, List.singleton_append] at this ⊢
  rw [this, h1]

theorem decode_encode (b : Batch) : decodeData (encode (.data b)) = b := by
  cases b; rfl

/-! ### readers over a wire with pointers -/

def plainLogs (ls : List Log) : List WItem := (logItems ls).map .plain

theorem plainLogs_append (a b : List Log) : plainLogs (a ++ b) = plainLogs a ++ plainLogs b := by
  simp [plainLogs, logItems]

theorem plain_cycle (a p : List Log) (b : Batch) :
    (logItems a ++ [Item.data b] ++ logItems p).map WItem.plain = plainLogs a ++ (.plain (.data b) :: plainLogs p) := by
  simp [plainLogs]

theorem plain_logs2 (a p : List Log) : (logItems a ++ logItems p).map WItem.plain = plainLogs (a ++ p) := by
  simp [plainLogs, logItems]

theorem readX_logs (R : Resolver) (ls : List Log) (xs : List WItem) :
    readUntilDataX R (plainLogs ls ++ xs) = (Sem.lg ls ++ (readUntilDataX R xs).1, (readUntilDataX R xs).2) := by
  induction ls with
  | nil => simp [plainLogs, logItems, Sem.lg]
  | cons l r ih =>
    simp only [plainLogs, logItems, List.map_cons, List.cons_append, readUntilDataX, Sem.lg] at ih ⊢
    rw [ih]

theorem readX_logs_data (R : Resolver) (ls : List Log) (b : Batch) (xs : List WItem) :
    readUntilDataX R (plainLogs ls ++ (.plain (.data b) :: xs)) = (Sem.lg ls ++ [.data b], .gotData xs) := by
  rw [readX_logs]; simp [readUntilDataX]

theorem readX_logs_ptr (R : Resolver) (ls : List Log) (q : Ptr) (logs : List Log) (b : Batch) (xs : List WItem)
    (hR : R q = .ok (logs, b)) :
    readUntilDataX R (plainLogs ls ++ (.ptr q :: xs)) = (Sem.lg ls ++ (Sem.lg logs ++ [.data b]), .gotData xs) := by
  rw [readX_logs]; simp [readUntilDataX, hR, Sem.lg]

theorem readX_logs_err (R : Resolver) (ls : List Log) (e : Exn) (xs : List WItem) :
    readUntilDataX R (plainLogs ls ++ (.plain (.err e) :: xs)) = (Sem.lg ls ++ [errEv e], .raised) := by
  rw [readX_logs]; simp [readUntilDataX]

theorem readX_logs_only (R : Resolver) (ls : List Log) : readUntilDataX R (plainLogs ls) = (Sem.lg ls, .eos) := by
  have := readX_logs R ls []
  simpa [readUntilDataX] using this

theorem drainX_logs (ls : List Log) : drainLogsX (plainLogs ls) = Sem.lg ls := by
  induction ls with
  | nil => rfl
  | cons l r ih => simp only [plainLogs, logItems, List.map_cons, drainLogsX, Sem.lg] at ih ⊢; rw [ih]

/-! ### observations -/

theorem obs_eq_iff (x y : List Ev) :
    obs x = obs y ↔ logsOf x = logsOf y ∧ datasOf x = datasOf y ∧ restOf x = restOf y := by
  simp [obs]

theorem comp_lg (ls : List Log) : logsOf (Sem.lg ls) = ls ∧ datasOf (Sem.lg ls) = [] ∧ restOf (Sem.lg ls) = [] := by
  induction ls with
  | nil => simp [Sem.lg]
  | cons l r ih => simp only [Sem.lg, List.map_cons] at ih ⊢; simp [ih]

theorem logsOf_lg (ls : List Log) : logsOf (Sem.lg ls) = ls := (comp_lg ls).1
theorem datasOf_lg (ls : List Log) : datasOf (Sem.lg ls) = [] := (comp_lg ls).2.1
theorem restOf_lg (ls : List Log) : restOf (Sem.lg ls) = [] := (comp_lg ls).2.2

/-! ### the server's output is related to the step script -/

def plainOut : StepOut → StepOutX
  | .cont i => .cont (i.map .plain)
  | .done i => .done (i.map .plain)
  | .fail i => .fail (i.map .plain)

def stepOut (exch : Bool) (s : Step) : StepOut := if exch then processExchangeStep s else processStep s

/-- what the server wrote for one `process()` call: the cycle inline, or one pointer that resolves to the cycle -/
def RelStep (R : Resolver) (exch : Bool) (s : Step) (o : StepOutX) : Prop :=
  o = plainOut (stepOut exch s) ∨
  ∃ q b, R q = .ok (s.logs ++ s.post, b) ∧
    ((s.act = .emit b ∧ o = .cont [.ptr q]) ∨ (exch = false ∧ s.act = .emitFinish b ∧ o = .done [.ptr q]))

def RelAll (R : Resolver) (exch : Bool) : List Step → List StepOutX → Prop
  | [], [] => True
  | s :: ss, o :: os => RelStep R exch s o ∧ RelAll R exch ss os
  | _, _ => False

theorem dataOf_logs (ls : List Log) (xs : List Item) : dataOf (logItems ls ++ xs) = dataOf xs := by
  induction ls with
  | nil => rfl
  | cons l r ih => simp only [logItems, List.map_cons, List.cons_append, dataOf] at ih ⊢; exact ih

theorem dataOf_cycle (a p : List Log) (b : Batch) : dataOf (logItems a ++ [Item.data b] ++ logItems p) = some b := by
  rw [List.append_assoc, dataOf_logs]; rfl

theorem dataOf_nodata (a p : List Log) : dataOf (logItems a ++ logItems p) = none := by
  rw [dataOf_logs]
  have := dataOf_logs p []
  simpa [dataOf] using this

theorem flush_cycle {B : Type} (env : Env B) (st : Storage B) (cfg : Cfg) (size : Batch → Nat) (schema : Nat) (s : st.S)
    (a p : List Log) (b : Batch) (ha : ∀ l ∈ a, Spec.ValidLog l) (hp : ∀ l ∈ p, Spec.ValidLog l) (mr : Int) :
    Spec.Keeps st s (flushCollector env st cfg size schema s (logItems a ++ [Item.data b] ++ logItems p)).1 ∧
    ∀ s', Spec.Keeps st (flushCollector env st cfg size schema s (logItems a ++ [Item.data b] ++ logItems p)).1 s' →
      ((flushCollector env st cfg size schema s (logItems a ++ [Item.data b] ++ logItems p)).2
          = (logItems a ++ [Item.data b] ++ logItems p).map .plain ∨
       ∃ q, (flushCollector env st cfg size schema s (logItems a ++ [Item.data b] ++ logItems p)).2 = [.ptr q] ∧
          resolverAt env st s' mr q = .ok (a ++ p, b)) := by
  simp only [flushCollector, dataOf_cycle]
  by_cases hw : wantsCollector cfg true (size b) = true
  · simp only [hw, if_true]
    refine ⟨?_, ?_⟩
    · simp only [externalize]; exact keeps_put st s _
    · intro s' hk
      right
      refine ⟨_, rfl, ?_⟩
      have := externalize_resolves env st cfg s schema _ (a ++ p) (encode (.data b)) (scan_cycle a p b ha hp) s' hk mr
      rw [decode_encode] at this
      exact this
  · simp only [hw]
    exact ⟨keeps_refl st s, fun _ _ => Or.inl rfl⟩

theorem flush_nodata {B : Type} (env : Env B) (st : Storage B) (cfg : Cfg) (size : Batch → Nat) (schema : Nat) (s : st.S)
    (a p : List Log) :
    flushCollector env st cfg size schema s (logItems a ++ logItems p) = (s, (logItems a ++ logItems p).map .plain) := by
  simp [flushCollector, dataOf_nodata]

theorem serveStep_def {B : Type} (env : Env B) (st : Storage B) (cfg : Cfg) (size : Batch → Nat) (schema : Nat) (exch : Bool)
    (s : st.S) (step : Step) :
    serveStep env st cfg size schema exch s step =
      match stepOut exch step with
      | .cont items => ((flushCollector env st cfg size schema s items).1, .cont (flushCollector env st cfg size schema s items).2)
      | .done items => ((flushCollector env st cfg size schema s items).1, .done (flushCollector env st cfg size schema s items).2)
      | .fail items => (s, .fail (items.map .plain)) := rfl

theorem serveStep_rel {B : Type} (env : Env B) (st : Storage B) (cfg : Cfg) (size : Batch → Nat) (schema : Nat) (exch : Bool)
    (s : st.S) (step : Step) (hv : Spec.ValidStep step) (mr : Int) :
    Spec.Keeps st s (serveStep env st cfg size schema exch s step).1 ∧
    ∀ s', Spec.Keeps st (serveStep env st cfg size schema exch s step).1 s' →
      RelStep (resolverAt env st s' mr) exch step (serveStep env st cfg size schema exch s step).2 := by
  obtain ⟨hl, hp⟩ := hv
  rw [serveStep_def]
  have inl_fail : ∀ items, stepOut exch step = .fail items →
      Spec.Keeps st s (match stepOut exch step with
        | .cont items => ((flushCollector env st cfg size schema s items).1, StepOutX.cont (flushCollector env st cfg size schema s items).2)
        | .done items => ((flushCollector env st cfg size schema s items).1, .done (flushCollector env st cfg size schema s items).2)
        | .fail items => (s, .fail (items.map .plain))).1 ∧
      ∀ s', Spec.Keeps st (match stepOut exch step with
        | .cont items => ((flushCollector env st cfg size schema s items).1, StepOutX.cont (flushCollector env st cfg size schema s items).2)
        | .done items => ((flushCollector env st cfg size schema s items).1, .done (flushCollector env st cfg size schema s items).2)
        | .fail items => (s, .fail (items.map .plain))).1 s' →
        RelStep (resolverAt env st s' mr) exch step (match stepOut exch step with
        | .cont items => ((flushCollector env st cfg size schema s items).1, StepOutX.cont (flushCollector env st cfg size schema s items).2)
        | .done items => ((flushCollector env st cfg size schema s items).1, .done (flushCollector env st cfg size schema s items).2)
        | .fail items => (s, .fail (items.map .plain))).2 := by
    intro items hs
    rw [hs]
    exact ⟨keeps_refl st s, fun _ _ => Or.inl (by rw [hs]; rfl)⟩
  cases hact : step.act with
  | emit b =>
    have hs : stepOut exch step = .cont (logItems step.logs ++ [Item.data b] ++ logItems step.post) := by
      cases exch <;> simp [stepOut, processExchangeStep, processStep, hact]
    obtain ⟨k1, k2⟩ := flush_cycle env st cfg size schema s step.logs step.post b hl hp mr
    rw [hs]
    refine ⟨k1, fun s' hk => ?_⟩
    rcases k2 s' hk with h | ⟨q, hq, hr⟩
    · left; rw [hs]; simp only [plainOut, h]
    · right; exact ⟨q, b, hr, Or.inl ⟨hact, by simp only [hq]⟩⟩
  | emitFinish b =>
    cases exch with
    | true => exact inl_fail [.err finishOnExchangeExn] (by simp [stepOut, processExchangeStep, hact])
    | false =>
      have hs : stepOut false step = .done (logItems step.logs ++ [Item.data b] ++ logItems step.post) := by
        simp [stepOut, processStep, hact]
      obtain ⟨k1, k2⟩ := flush_cycle env st cfg size schema s step.logs step.post b hl hp mr
      rw [hs]
      refine ⟨k1, fun s' hk => ?_⟩
      rcases k2 s' hk with h | ⟨q, hq, hr⟩
      · left; rw [hs]; simp only [plainOut, h]
      · right; exact ⟨q, b, hr, Or.inr ⟨rfl, hact, by simp only [hq]⟩⟩
  | finish =>
    cases exch with
    | true => exact inl_fail [.err finishOnExchangeExn] (by simp [stepOut, processExchangeStep, hact])
    | false =>
      have hs : stepOut false step = .done (logItems step.logs ++ logItems step.post) := by
        simp [stepOut, processStep, hact]
      rw [hs]
      simp only [flush_nodata]
      exact ⟨keeps_refl st s, fun _ _ => Or.inl (by rw [hs]; rfl)⟩
  | raise e => exact inl_fail [.err e] (by cases exch <;> simp [stepOut, processExchangeStep, processStep, hact])
  | nothing => exact inl_fail [.err noDataExn] (by cases exch <;> simp [stepOut, processExchangeStep, processStep, hact])

theorem serveAll_rel {B : Type} (env : Env B) (st : Storage B) (cfg : Cfg) (size : Batch → Nat) (schema : Nat) (exch : Bool)
    (mr : Int) : ∀ (steps : List Step) (s : st.S), (∀ x ∈ steps, Spec.ValidStep x) →
      Spec.Keeps st s (serveAll env st cfg size schema exch s steps).1 ∧
      ∀ s', Spec.Keeps st (serveAll env st cfg size schema exch s steps).1 s' →
        RelAll (resolverAt env st s' mr) exch steps (serveAll env st cfg size schema exch s steps).2 := by
  intro steps
  induction steps with
  | nil => intro s _; exact ⟨keeps_refl st s, fun _ _ => trivial⟩
  | cons step r ih =>
    intro s hv
    obtain ⟨a1, a2⟩ := serveStep_rel env st cfg size schema exch s step (hv step (by simp)) mr
    obtain ⟨b1, b2⟩ := ih (serveStep env st cfg size schema exch s step).1 (fun x hx => hv x (by simp [hx]))
    simp only [serveAll]
    refine ⟨keeps_trans st _ _ _ a1 b1, fun s' hk => ⟨a2 s' (keeps_trans st _ _ _ b1 hk), b2 s' hk⟩⟩

/-! ### the client over such a wire observes what `Sem` says -/

@[simp] theorem logsOf_fin (a : List Ev) : logsOf (.fin :: a) = logsOf a := rfl
@[simp] theorem datasOf_fin (a : List Ev) : datasOf (.fin :: a) = datasOf a := rfl
@[simp] theorem restOf_fin (a : List Ev) : restOf (.fin :: a) = .fin :: restOf a := rfl
@[simp] theorem logsOf_err (e : Exn) (a : List Ev) : logsOf (errEv e :: a) = logsOf a := rfl
@[simp] theorem datasOf_err (e : Exn) (a : List Ev) : datasOf (errEv e :: a) = datasOf a := rfl
@[simp] theorem restOf_err (e : Exn) (a : List Ev) : restOf (errEv e :: a) = errEv e :: restOf a := rfl

macro "obs_simp" : tactic => `(tactic| simp only [Engine.Aux.logsOf_append, Engine.Aux.datasOf_append,
  Engine.Aux.restOf_append, logsOf_lg, datasOf_lg, restOf_lg, Engine.Aux.logsOf_cons_data, Engine.Aux.datasOf_cons_data,
  Engine.Aux.restOf_cons_data, Engine.Aux.logsOf_nil, Engine.Aux.datasOf_nil, Engine.Aux.restOf_nil, logsOf_fin, datasOf_fin,
  restOf_fin, logsOf_err, datasOf_err, restOf_err, List.append_nil, List.nil_append, List.append_assoc, List.cons_append,
  List.singleton_append])

theorem obs_of_parts (x y : List Ev) (h1 : logsOf x = logsOf y) (h2 : datasOf x = datasOf y) (h3 : restOf x = restOf y) :
    obs x = obs y := (obs_eq_iff x y).2 ⟨h1, h2, h3⟩

theorem iterate_obs (R : Resolver) : ∀ (steps : List Step) (outs : List StepOutX) (c : List Log),
    RelAll R false steps outs →
      obs (Pipe.iterate R (plainLogs c) outs) = obs (Sem.lg c ++ Sem.producer false steps) := by
  intro steps
  induction steps with
  | nil =>
    intro outs c h
    cases outs with
    | nil => simp [Pipe.iterate, readX_logs_only, Sem.producer]
    | cons o os => exact absurd h (by simp [RelAll])
  | cons s r ih =>
    intro outs c h
    cases outs with
    | nil => exact absurd h (by simp [RelAll])
    | cons o os =>
      obtain ⟨hs, hr⟩ := h
      cases hact : s.act with
      | emit b =>
        have hso : stepOut false s = .cont (logItems s.logs ++ [Item.data b] ++ logItems s.post) := by
          simp [stepOut, processStep, hact]
        rcases hs with h1 | ⟨q, b', hR, h2 | h2⟩
        · -- inline
          have ih' := ih os s.post hr
          obtain ⟨i1, i2, i3⟩ := (obs_eq_iff _ _).1 ih'
          rw [h1, hso]
          simp only [plainOut, Pipe.iterate, plain_cycle]
          rw [← List.append_assoc, ← plainLogs_append, readX_logs_data]
          simp only [Sem.producer, hact]
          apply obs_of_parts <;> (try obs_simp) <;> (try simp only [i1, i2, i3]) <;> (try obs_simp)
        · -- one pointer for the whole cycle
          obtain ⟨ha, ho⟩ := h2
          rw [hact] at ha
          cases ha
          have ih' := ih os [] hr
          obtain ⟨i1, i2, i3⟩ := (obs_eq_iff _ _).1 ih'
          rw [ho]
          simp only [Pipe.iterate]
          rw [readX_logs_ptr R c q _ b [] hR]
          have e : plainLogs [] = ([] : List WItem) := rfl
          rw [e] at i1 i2 i3
          simp only [Sem.producer, hact]
          apply obs_of_parts <;> (try obs_simp) <;> (try simp only [i1, i2, i3]) <;> (try obs_simp)
        · obtain ⟨_, ha, _⟩ := h2
          rw [hact] at ha; cases ha
      | finish =>
        have hso : stepOut false s = .done (logItems s.logs ++ logItems s.post) := by
          simp [stepOut, processStep, hact]
        rcases hs with h1 | ⟨q, b', hR, h2 | h2⟩
        · rw [h1, hso]
          simp only [plainOut, Pipe.iterate, plain_logs2]
          rw [← plainLogs_append, readX_logs_only]
          simp [Sem.producer, hact, Engine.Aux.lg_append]
        · rw [hact] at h2; cases h2.1
        · rw [hact] at h2; cases h2.2.1
      | emitFinish b =>
        have hso : stepOut false s = .done (logItems s.logs ++ [Item.data b] ++ logItems s.post) := by
          simp [stepOut, processStep, hact]
        rcases hs with h1 | ⟨q, b', hR, h2 | h2⟩
        · rw [h1, hso]
          simp only [plainOut, Pipe.iterate, plain_cycle]
          rw [← List.append_assoc, ← plainLogs_append, readX_logs_data]
          simp only [readX_logs_only, Sem.producer, hact]
          simp [Engine.Aux.lg_append]
        · rw [hact] at h2; cases h2.1
        · obtain ⟨_, ha, ho⟩ := h2
          rw [hact] at ha
          cases ha
          rw [ho]
          simp only [Pipe.iterate]
          rw [readX_logs_ptr R c q _ b [] hR]
          simp only [readUntilDataX, Sem.producer, hact]
          apply obs_of_parts <;> (try obs_simp)
      | raise e =>
        have hso : stepOut false s = .fail [.err e] := by simp [stepOut, processStep, hact]
        rcases hs with h1 | ⟨q, b', hR, h2 | h2⟩
        · rw [h1, hso]
          simp only [plainOut, Pipe.iterate, List.map_cons, List.map_nil]
          rw [readX_logs_err]
          simp [Sem.producer, hact, Sem.failLogs]
        · rw [hact] at h2; cases h2.1
        · rw [hact] at h2; cases h2.2.1
      | nothing =>
        have hso : stepOut false s = .fail [.err noDataExn] := by simp [stepOut, processStep, hact]
        rcases hs with h1 | ⟨q, b', hR, h2 | h2⟩
        · rw [h1, hso]
          simp only [plainOut, Pipe.iterate, List.map_cons, List.map_nil]
          rw [readX_logs_err]
          simp [Sem.producer, hact, Sem.failLogs]
        · rw [hact] at h2; cases h2.1
        · rw [hact] at h2; cases h2.2.1

theorem exchange_fail (R : Resolver) (c : List Log) (e : Exn) (os : List StepOutX) :
    Pipe.exchangeAll R (plainLogs c) (.fail [.plain (.err e)] :: os) = Sem.lg c ++ [errEv e] := by
  simp only [Pipe.exchangeAll, Pipe.exchangeOne]
  rw [readX_logs_err]

theorem exchange_obs (R : Resolver) : ∀ (steps : List Step) (outs : List StepOutX) (c : List Log),
    RelAll R true steps outs →
      obs (Pipe.exchangeAll R (plainLogs c) outs) = obs (Sem.lg c ++ Sem.exchange false steps) := by
  intro steps
  induction steps with
  | nil =>
    intro outs c h
    cases outs with
    | nil => simp [Pipe.exchangeAll, drainX_logs, Sem.exchange]
    | cons o os => exact absurd h (by simp [RelAll])
  | cons s r ih =>
    intro outs c h
    cases outs with
    | nil => exact absurd h (by simp [RelAll])
    | cons o os =>
      obtain ⟨hs, hr⟩ := h
      cases hact : s.act with
      | emit b =>
        have hso : stepOut true s = .cont (logItems s.logs ++ [Item.data b] ++ logItems s.post) := by
          simp [stepOut, processExchangeStep, processStep, hact]
        rcases hs with h1 | ⟨q, b', hR, h2 | h2⟩
        · have ih' := ih os s.post hr
          obtain ⟨i1, i2, i3⟩ := (obs_eq_iff _ _).1 ih'
          rw [h1, hso]
          simp only [plainOut, Pipe.exchangeAll, Pipe.exchangeOne, plain_cycle]
          rw [← List.append_assoc, ← plainLogs_append, readX_logs_data]
          simp only [Sem.exchange, hact]
          apply obs_of_parts <;> (try obs_simp) <;> (try simp only [i1, i2, i3]) <;> (try obs_simp)
        · obtain ⟨ha, ho⟩ := h2
          rw [hact] at ha
          cases ha
          have ih' := ih os [] hr
          obtain ⟨i1, i2, i3⟩ := (obs_eq_iff _ _).1 ih'
          rw [ho]
          simp only [Pipe.exchangeAll, Pipe.exchangeOne]
          rw [readX_logs_ptr R c q _ b [] hR]
          have e : plainLogs [] = ([] : List WItem) := rfl
          rw [e] at i1 i2 i3
          simp only [Sem.exchange, hact]
          apply obs_of_parts <;> (try obs_simp) <;> (try simp only [i1, i2, i3]) <;> (try obs_simp)
        · exact absurd h2.1 (by simp)
      | finish =>
        have hso : stepOut true s = .fail [.err finishOnExchangeExn] := by simp [stepOut, processExchangeStep, hact]
        rcases hs with h1 | ⟨q, b', hR, h2 | h2⟩
        · rw [h1, hso]
          simp only [plainOut, List.map_cons, List.map_nil, exchange_fail]
          simp [Sem.exchange, hact, Sem.failLogs]
        · rw [hact] at h2; cases h2.1
        · exact absurd h2.1 (by simp)
      | emitFinish b =>
        have hso : stepOut true s = .fail [.err finishOnExchangeExn] := by simp [stepOut, processExchangeStep, hact]
        rcases hs with h1 | ⟨q, b', hR, h2 | h2⟩
        · rw [h1, hso]
          simp only [plainOut, List.map_cons, List.map_nil, exchange_fail]
          simp [Sem.exchange, hact, Sem.failLogs]
        · rw [hact] at h2; cases h2.1
        · exact absurd h2.1 (by simp)
      | raise e =>
        have hso : stepOut true s = .fail [.err e] := by simp [stepOut, processExchangeStep, processStep, hact]
        rcases hs with h1 | ⟨q, b', hR, h2 | h2⟩
        · rw [h1, hso]
          simp only [plainOut, List.map_cons, List.map_nil, exchange_fail]
          simp [Sem.exchange, hact, Sem.failLogs]
        · rw [hact] at h2; cases h2.1
        · exact absurd h2.1 (by simp)
      | nothing =>
        have hso : stepOut true s = .fail [.err noDataExn] := by simp [stepOut, processExchangeStep, processStep, hact]
        rcases hs with h1 | ⟨q, b', hR, h2 | h2⟩
        · rw [h1, hso]
          simp only [plainOut, List.map_cons, List.map_nil, exchange_fail]
          simp [Sem.exchange, hact, Sem.failLogs]
        · rw [hact] at h2; cases h2.1
        · exact absurd h2.1 (by simp)

end Aux

open Aux

/-! ## Obligations: integrity -/

/-- **C30 integrity**, for ALL stored objects and ALL fault sequences: if `resolve_external_location` hands anything to
application code (`on_log` calls `logs`, returned batch `d`), then one of its (at most retryCap+1) attempts fetched a
payload that decoded and parsed to the end, whose SHA-256 is the pointer's (when the pointer has one), whose schema is the
pointer's, that contains no pointer, and that holds exactly one data batch — `d` — and exactly the log messages `logs`. -/
theorem C30_integrity : Spec.Integrity resolve := by
  intro es sh mr fetch logs d h
  obtain ⟨j, _, hj, hi⟩ := resolveFrom_ok es sh fetch (retries mr) 0 logs d h
  exact ⟨j, by have := retries_le mr; omega, hi⟩

/-- the form of DESIGN §5: with a digest on the pointer, delivered ⇒ sha equal ∧ schema equal ∧ no pointer inside ∧
exactly one data batch -/
theorem C30_integrity_sha (es : Nat) (h : Str) (mr : Int) (fetch : Nat → Fetched) (logs : List Log) (d : WBatch)
    (hok : resolve es (some h) mr fetch = .ok (logs, d)) :
    ∃ k sch bs, fetch k = .got h (.stream sch bs .clean) ∧ sch = es ∧ (∀ b ∈ bs, hasLocation b = false) ∧
      Spec.dataBatches bs = [d] ∧ Spec.logsOf bs = logs := by
  obtain ⟨k, _, sha, sch, bs, hf, hsha, hsch, hloc, hd, hl⟩ := C30_integrity es (some h) mr fetch logs d hok
  have : sha = h := hsha h rfl
  subst this
  exact ⟨k, sch, bs, hf, hsch, hloc, hd, hl⟩

/-- **never handed**: if no attempt sees an intact payload, `on_log` is never called and no batch is returned -/
theorem C30_never_handed : Spec.NeverHanded resolve := by
  intro es sh mr fetch hno
  cases hr : resolve es sh mr fetch with
  | error e => exact ⟨rfl, rfl⟩
  | ok r =>
    obtain ⟨logs, d⟩ := r
    obtain ⟨k, _, hi⟩ := C30_integrity es sh mr fetch logs d hr
    exact absurd hi (hno k logs d)

/-- each named defect of the property text, separately (sha present): a payload with that defect at every attempt is
rejected -/
theorem C30_rejects (es : Nat) (h : Str) (mr : Int) (fetch : Nat → Fetched)
    (hbad : ∀ k, match fetch k with
      | .got sha (.stream sch bs .clean) =>
          sha ≠ h ∨ sch ≠ es ∨ (∃ b ∈ bs, hasLocation b = true) ∨ (Spec.dataBatches bs).length ≠ 1
      | _ => True) :
    ∃ e, resolve es (some h) mr fetch = .error e := by
  cases hr : resolve es (some h) mr fetch with
  | error e => exact ⟨e, rfl⟩
  | ok r =>
    obtain ⟨logs, d⟩ := r
    obtain ⟨k, sch, bs, hf, hsch, hloc, hd, _⟩ := C30_integrity_sha es h mr fetch logs d hr
    have := hbad k
    rw [hf] at this
    rcases this with h1 | h2 | ⟨b, hb, hb'⟩ | h4
    · exact absurd rfl h1
    · exact absurd hsch h2
    · rw [hloc b hb] at hb'; cases hb'
    · rw [hd] at h4; exact absurd rfl h4

/-- **authenticity** under a collision-free digest: the pointer was made by `externalize` for the cycle `bs`; WHATEVER the
store holds at each attempt, anything delivered is exactly the uploaded cycle's data batch and log messages -/
theorem C30_authentic {B : Type} (env : Env B) (hinj : ∀ x y, env.sha x = env.sha y → x = y) (schema : Nat) (bs : List WBatch)
    (objs : Nat → Option (Obj B)) (mr : Int) (logs : List Log) (d : WBatch)
    (hok : resolve schema (some (env.sha (env.ser schema bs))) mr (fun k => view env (objs k)) = .ok (logs, d)) :
    Spec.dataBatches bs = [d] ∧ Spec.logsOf bs = logs ∧ ∀ b ∈ bs, hasLocation b = false := by
  obtain ⟨k, sch, bs', hf, _, hloc, hd, hl⟩ := C30_integrity_sha schema _ mr _ logs d hok
  -- the decoded bytes seen at attempt k hash to the uploaded digest, hence ARE the uploaded bytes
  have key : ∀ x, Fetched.got (env.sha x) (env.parse x) = .got (env.sha (env.ser schema bs)) (.stream sch bs' .clean) →
      bs' = bs := by
    intro x hx
    simp only [Fetched.got.injEq] at hx
    have hx1 := hinj _ _ hx.1
    subst hx1
    rw [env.parse_ser] at hx
    simp only [Parsed.stream.injEq] at hx
    exact hx.2.2.1.symm
  have hbs : bs' = bs := by
    simp only [view] at hf
    cases ho : objs k with
    | none => simp [ho] at hf
    | some o =>
      simp only [ho] at hf
      cases he : o.enc with
      | none => simp only [he] at hf; exact key _ hf
      | some c =>
        simp only [he] at hf
        cases hd' : env.decomp c o.body with
        | none => simp [hd'] at hf
        | some x => simp only [hd'] at hf; exact key _ hf
  subst hbs
  exact ⟨hd, hl, hloc⟩

/-! ## Obligations: transparency -/

/-- **round trip** of one collector cycle (logs, the data batch, logs): for EVERY configuration (threshold is irrelevant
here, every codec or none), every environment and store, and every later store state that still holds the object, the
pointer `externalize` produced resolves — at the first attempt, digest verified — to exactly the cycle's log messages
(in order) and its data batch -/
theorem C30_roundtrip {B : Type} (env : Env B) (st : Storage B) (cfg : Cfg) (s : st.S) (schema : Nat)
    (a p : List Log) (b : Batch) (ha : ∀ l ∈ a, Spec.ValidLog l) (hp : ∀ l ∈ p, Spec.ValidLog l)
    (s' : st.S) (mr : Int)
    (hk : Spec.Keeps st (externalize env st cfg s schema ((logItems a ++ [Item.data b] ++ logItems p).map encode)).1 s') :
    resolverAt env st s' mr (externalize env st cfg s schema ((logItems a ++ [Item.data b] ++ logItems p).map encode)).2
      = .ok (a ++ p, b) ∧
    (externalize env st cfg s schema ((logItems a ++ [Item.data b] ++ logItems p).map encode)).2.sha ≠ none := by
  refine ⟨?_, by simp [externalize]⟩
  have := externalize_resolves env st cfg s schema _ (a ++ p) (encode (.data b)) (scan_cycle a p b ha hp) s' hk mr
  rw [decode_encode] at this
  exact this

/-- **unary results and stream headers** (`maybe_externalize_batch`): whatever the threshold, size and codec, the reader
hands over the same logs and the same batch as when the batch is written inline -/
theorem C30_batch_transparent {B : Type} (env : Env B) (st : Storage B) (cfg : Cfg) (s : st.S) (schema : Nat)
    (b : Batch) (size : Nat) (ls : List Log) (s' : st.S) (mr : Int)
    (hk : Spec.Keeps st (externalizeBatch env st cfg s schema (encode (.data b)) size).1 s') :
    readUntilDataX (resolverAt env st s' mr)
        (plainLogs ls ++ [match (externalizeBatch env st cfg s schema (encode (.data b)) size).2 with
                          | some q => WItem.ptr q
                          | none => .plain (.data b)])
      = readUntilDataX (resolverAt env st s' mr) (plainLogs ls ++ [.plain (.data b)]) := by
  simp only [externalizeBatch] at hk ⊢
  by_cases hw : wantsBatch cfg (encode (Item.data b)).rows size = true
  · simp only [hw, if_true] at hk ⊢
    have hscan : scan [encode (Item.data b)] .clean = .ok ([], [encode (.data b)]) := by
      have := scan_cycle [] [] b (by simp) (by simp)
      simpa [logItems] using this
    have := externalize_resolves env st cfg s schema _ [] (encode (.data b)) hscan s' hk mr
    rw [decode_encode] at this
    rw [readX_logs_ptr _ ls _ [] b [] this, readX_logs_data]
    simp [Sem.lg]
  · simp [hw]

/-- **client-uploaded requests** (`_build_pointer_request_body` as repaired + `_read_request`): the server resolves the
pointer to the request batch the client serialised, with no log dispatch, and the pointer carries the digest of the upload
(so the integrity theorems apply to it) -/
theorem C30_request_transparent {B : Type} (env : Env B) (st : Storage B) (s : st.S) (schema : Nat) (req : Batch)
    (s' : st.S) (mr : Int) (hk : Spec.Keeps st (clientUpload env st s schema (encode (.data req))).1 s') :
    resolverAt env st s' mr (clientUpload env st s schema (encode (.data req))).2 = .ok ([], req) ∧
    (clientUpload env st s schema (encode (.data req))).2.sha = some (env.sha (env.ser schema [encode (.data req)])) := by
  have hscan : scan [encode (Item.data req)] .clean = .ok ([], [encode (.data req)]) := by
    have := scan_cycle [] [] req (by simp) (by simp)
    simpa [logItems] using this
  have hsha : Gen.C30.clientPointerHasSha = true := by decide
  refine ⟨?_, by simp [clientUpload, hsha]⟩
  -- the client's upload is `externalize` without compression
  have e : clientUpload env st s schema (encode (.data req))
      = externalize env st ⟨true, 0, none⟩ s schema [encode (.data req)] := by
    simp [clientUpload, externalize, hsha]
  rw [e] at hk ⊢
  have := externalize_resolves env st ⟨true, 0, none⟩ s schema _ [] (encode (.data req)) hscan s' hk mr
  rw [decode_encode] at this
  exact this

/-- **producer streams, socket family**: for EVERY configuration (storage or not, every threshold, every codec), every
batch-size function, environment, initial store, init-log list and step script with legal log levels, a client that reads the
server's wire — pointers resolved against any later store — observes exactly what `Sem` prescribes (= what it observes
inline, `Engine.pipe_producer_refines`) -/
theorem C30_pipe_producer_transparent {B : Type} (env : Env B) (st : Storage B) (cfg : Cfg) (size : Batch → Nat)
    (schema : Nat) (s0 : st.S) (mr : Int) (initLogs : List Log) (steps : List Step)
    (hv : ∀ x ∈ steps, Spec.ValidStep x)
    (s' : st.S) (hk : Spec.Keeps st (serveAll env st cfg size schema false s0 steps).1 s') :
    Spec.Transparent
      (Pipe.iterate (resolverAt env st s' mr) ((logItems initLogs).map .plain) (serveAll env st cfg size schema false s0 steps).2)
      (Engine.Pipe.iterate (logItems initLogs) steps) := by
  unfold Spec.Transparent
  rw [Engine.pipe_producer_refines]
  exact iterate_obs _ steps _ initLogs ((serveAll_rel env st cfg size schema false mr steps s0 hv).2 s' hk)

/-- **exchange streams, socket family** — same statement for a session fed one input per step, then closed -/
theorem C30_pipe_exchange_transparent {B : Type} (env : Env B) (st : Storage B) (cfg : Cfg) (size : Batch → Nat)
    (schema : Nat) (s0 : st.S) (mr : Int) (initLogs : List Log) (steps : List Step)
    (hv : ∀ x ∈ steps, Spec.ValidStep x)
    (s' : st.S) (hk : Spec.Keeps st (serveAll env st cfg size schema true s0 steps).1 s') :
    Spec.Transparent
      (Pipe.exchangeAll (resolverAt env st s' mr) ((logItems initLogs).map .plain) (serveAll env st cfg size schema true s0 steps).2)
      (Engine.Pipe.exchangeAll (logItems initLogs) steps) := by
  unfold Spec.Transparent
  rw [Engine.pipe_exchange_refines]
  exact exchange_obs _ steps _ initLogs ((serveAll_rel env st cfg size schema true mr steps s0 hv).2 s' hk)

/-- **independence of threshold and compression**: two servers with ANY two configurations are indistinguishable to the
client (each read at its own final store) -/
theorem C30_threshold_independent {B : Type} (env : Env B) (st : Storage B) (cfg₁ cfg₂ : Cfg) (size : Batch → Nat)
    (schema : Nat) (s₁ s₂ : st.S) (mr : Int) (initLogs : List Log) (steps : List Step)
    (hv : ∀ x ∈ steps, Spec.ValidStep x) :
    obs (Pipe.iterate (resolverAt env st (serveAll env st cfg₁ size schema false s₁ steps).1 mr)
          ((logItems initLogs).map .plain) (serveAll env st cfg₁ size schema false s₁ steps).2)
      = obs (Pipe.iterate (resolverAt env st (serveAll env st cfg₂ size schema false s₂ steps).1 mr)
          ((logItems initLogs).map .plain) (serveAll env st cfg₂ size schema false s₂ steps).2) := by
  have h1 := C30_pipe_producer_transparent env st cfg₁ size schema s₁ mr initLogs steps hv _ (keeps_refl st _)
  have h2 := C30_pipe_producer_transparent env st cfg₂ size schema s₂ mr initLogs steps hv _ (keeps_refl st _)
  unfold Spec.Transparent at h1 h2
  rw [h1, h2]

/-- non-vacuity of the environment laws and of the transparency statements: the toy environment satisfies them, and a
two-step script with threshold 0 and compression really is offloaded (two uploads) and read back -/
example :
    let r := serveAll Toy.env Toy.storage ⟨true, 0, some 1⟩ (fun b => 8 * b.rows) 0 false ([] : List (Obj Toy.TB))
      [⟨[⟨"INFO".toList, "a".toList, []⟩], .emit ⟨1, 3, []⟩, [⟨"WARN".toList, "p".toList, []⟩]⟩, ⟨[], .emitFinish ⟨2, 1, []⟩, []⟩]
    r.1.length = 2 ∧
    Pipe.iterate (resolverAt Toy.env Toy.storage r.1 2) [] r.2
      = [.log ⟨"INFO".toList, "a".toList, []⟩, .log ⟨"WARN".toList, "p".toList, []⟩, .data ⟨1, 3, []⟩, .data ⟨2, 1, []⟩, .fin] := by
  decide

/-- non-vacuity: an accepted resolution exists (one log, one data batch, digest "h", second attempt after a failed fetch) -/
example : resolve 7 (some "h".toList) 2
    (fun k => if k = 0 then .failed else
      .got "h".toList (.stream 7 [⟨0, some { level := some "INFO".toList, message := some "m".toList }, 0⟩, ⟨3, none, 5⟩] .clean))
    = .ok ([⟨"INFO".toList, "m".toList, []⟩], ⟨3, none, 5⟩) := by rfl

end VgiVerif.C30
