import VgiVerif.Spec.C30
import VgiVerif.Proofs.Engine
/-
C30 — proofs.  Helper lemmas in `Aux`; the obligations at the bottom.
-/
namespace VgiVerif.C30
open VgiVerif.Engine

namespace Aux

/-! ### the read loop -/

theorem dataBatches_cons (b : WBatch) (r : List WBatch) :
    Spec.dataBatches (b :: r) = if classify b == .data then b :: Spec.dataBatches r else Spec.dataBatches r := by
  simp [Spec.dataBatches, List.filter_cons]

theorem logsOf_cons (b : WBatch) (r : List WBatch) :
    Spec.logsOf (b :: r) = match classify b with | .log l => l :: Spec.logsOf r | _ => Spec.logsOf r := by
  simp only [Spec.logsOf, List.filterMap_cons]
  cases classify b <;> rfl

/-- an accepted scan read the stream to its end, met no pointer, and split it into its logs and data batches -/
theorem scan_ok (bs : List WBatch) (t : Tail) (logs : List Log) (ds : List WBatch) (h : scan bs t = .ok (logs, ds)) :
    t = .clean ∧ (∀ b ∈ bs, hasLocation b = false) ∧ Spec.dataBatches bs = ds ∧ Spec.logsOf bs = logs := by
  induction bs generalizing logs ds with
  | nil =>
    cases t with
    | clean =>
      simp only [scan, Except.ok.injEq, Prod.mk.injEq] at h
      obtain ⟨h1, h2⟩ := h
      subst h1 h2
      simp [Spec.dataBatches, Spec.logsOf]
    | invalid => simp [scan] at h
  | cons b r ih =>
    simp only [scan] at h
    cases hl : hasLocation b with
    | true => simp [hl] at h
    | false =>
      simp only [hl, Bool.false_eq_true, if_false] at h
      cases hc : classify b with
      | exc e => simp [hc] at h
      | badLevel => simp [hc] at h
      | log l =>
        simp only [hc] at h
        cases hs : scan r t with
        | error e => simp [hs] at h
        | ok p =>
          obtain ⟨ls, ds'⟩ := p
          simp only [hs, Except.ok.injEq, Prod.mk.injEq] at h
          obtain ⟨ht, hloc, hd, hlg⟩ := ih ls ds' hs
          refine ⟨ht, ?_, ?_, ?_⟩
          · intro x hx
            cases hx with
            | head => exact hl
            | tail _ hx => exact hloc x hx
          · rw [dataBatches_cons, hc]; simp only [show (Cls.log l == Cls.data) = false by rfl]; simp [hd, h.2]
          · rw [logsOf_cons, hc]; simp [hlg, h.1]
      | data =>
        simp only [hc] at h
        cases hs : scan r t with
        | error e => simp [hs] at h
        | ok p =>
          obtain ⟨ls, ds'⟩ := p
          simp only [hs, Except.ok.injEq, Prod.mk.injEq] at h
          obtain ⟨ht, hloc, hd, hlg⟩ := ih ls ds' hs
          refine ⟨ht, ?_, ?_, ?_⟩
          · intro x hx
            cases hx with
            | head => exact hl
            | tail _ hx => exact hloc x hx
          · rw [dataBatches_cons, hc]; simp [hd, h.2]
          · rw [logsOf_cons, hc]; simp [hlg, h.1]

theorem shaBad_false (expSha : Option Str) (sha : Str) (h : shaBad expSha sha = false) :
    ∀ x, expSha = some x → sha = x := by
  intro x hx
  subst hx
  simpa [shaBad] using h

/-- one attempt: accepted ⇒ the payload it saw is intact -/
theorem fetchAndResolve_ok (es : Nat) (sh : Option Str) (f : Fetched) (logs : List Log) (d : WBatch)
    (h : fetchAndResolve es sh f = .ok (logs, d)) : Spec.Intact es sh f logs d := by
  cases f with
  | failed => simp [fetchAndResolve] at h
  | undecodable => simp [fetchAndResolve] at h
  | got sha parsed =>
    simp only [fetchAndResolve] at h
    cases hb : shaBad sh sha with
    | true => simp [hb] at h
    | false =>
      simp only [hb, Bool.false_eq_true, if_false] at h
      cases parsed with
      | bad => simp at h
      | stream sch bs tail =>
        simp only at h
        cases hs : scan bs tail with
        | error e => simp [hs] at h
        | ok p =>
          obtain ⟨ls, ds⟩ := p
          obtain ⟨ht, hloc, hd, hlg⟩ := scan_ok bs tail ls ds hs
          rw [hs] at h
          match ds, h, hd with
          | [], h, _ => simp at h
          | [d'], h, hd =>
            simp only at h
            by_cases hsch : sch = es
            · simp [hsch] at h
              subst ht
              refine ⟨sha, sch, bs, rfl, shaBad_false sh sha hb, hsch, hloc, ?_, ?_⟩
              · rw [hd, h.2]
              · rw [hlg, h.1]
            · simp [hsch] at h
          | _ :: _ :: _, h, _ => simp at h

theorem resolveFrom_ok (es : Nat) (sh : Option Str) (fetch : Nat → Fetched) (n : Nat) :
    ∀ k logs d, resolveFrom es sh fetch k n = .ok (logs, d) →
      ∃ j, k ≤ j ∧ j ≤ k + n ∧ Spec.Intact es sh (fetch j) logs d := by
  induction n with
  | zero =>
    intro k logs d h
    simp only [resolveFrom] at h
    cases hf : fetchAndResolve es sh (fetch k) with
    | ok r =>
      rw [hf] at h
      simp only [Except.ok.injEq] at h
      subst h
      exact ⟨k, Nat.le_refl k, by omega, fetchAndResolve_ok es sh (fetch k) logs d hf⟩
    | error e =>
      rw [hf] at h
      by_cases hr : retryable e = true <;> simp [hr] at h
  | succ n ih =>
    intro k logs d h
    simp only [resolveFrom] at h
    cases hf : fetchAndResolve es sh (fetch k) with
    | ok r =>
      rw [hf] at h
      simp only [Except.ok.injEq] at h
      subst h
      exact ⟨k, Nat.le_refl k, by omega, fetchAndResolve_ok es sh (fetch k) logs d hf⟩
    | error e =>
      rw [hf] at h
      by_cases hr : retryable e = true
      · simp only [hr, if_true] at h
        obtain ⟨j, hj1, hj2, hi⟩ := ih (k + 1) logs d h
        exact ⟨j, by omega, by omega, hi⟩
      · simp [hr] at h

theorem retries_le (mr : Int) : retries mr ≤ Gen.C30.retryCap := by
  unfold retries; omega

end Aux

open Aux

/-! ## Obligations: integrity -/

/-- **C30 integrity**, for ALL stored objects and ALL fault sequences: if `resolve_external_location` hands anything to
application code (`on_log` calls `logs`, returned batch `d`), then one of its (at most retryCap+1) attempts fetched a
payload that decoded and parsed to the end, whose SHA-256 is the pointer's (when the pointer has one), whose schema is the
pointer's, that contains no pointer, and that holds exactly one data batch — `d` — and exactly the log messages `logs`. -/
theorem C30_integrity : Spec.Integrity resolve := by
  intro es sh mr fetch logs d h
  obtain ⟨j, _, hj, hi⟩ := resolveFrom_ok es sh fetch (retries mr) 0 logs d h
  exact ⟨j, by have := retries_le mr; omega, hi⟩

/-- the form of DESIGN §5: with a digest on the pointer, delivered ⇒ sha equal ∧ schema equal ∧ no pointer inside ∧
exactly one data batch -/
theorem C30_integrity_sha (es : Nat) (h : Str) (mr : Int) (fetch : Nat → Fetched) (logs : List Log) (d : WBatch)
    (hok : resolve es (some h) mr fetch = .ok (logs, d)) :
    ∃ k sch bs, fetch k = .got h (.stream sch bs .clean) ∧ sch = es ∧ (∀ b ∈ bs, hasLocation b = false) ∧
      Spec.dataBatches bs = [d] ∧ Spec.logsOf bs = logs := by
  obtain ⟨k, _, sha, sch, bs, hf, hsha, hsch, hloc, hd, hl⟩ := C30_integrity es (some h) mr fetch logs d hok
  have : sha = h := hsha h rfl
  subst this
  exact ⟨k, sch, bs, hf, hsch, hloc, hd, hl⟩

/-- **never handed**: if no attempt sees an intact payload, `on_log` is never called and no batch is returned -/
theorem C30_never_handed : Spec.NeverHanded resolve := by
  intro es sh mr fetch hno
  cases hr : resolve es sh mr fetch with
  | error e => exact ⟨rfl, rfl⟩
  | ok r =>
    obtain ⟨logs, d⟩ := r
    obtain ⟨k, _, hi⟩ := C30_integrity es sh mr fetch logs d hr
    exact absurd hi (hno k logs d)

/-- each named defect of the property text, separately (sha present): a payload with that defect at every attempt is
rejected -/
theorem C30_rejects (es : Nat) (h : Str) (mr : Int) (fetch : Nat → Fetched)
    (hbad : ∀ k, match fetch k with
      | .got sha (.stream sch bs .clean) =>
          sha ≠ h ∨ sch ≠ es ∨ (∃ b ∈ bs, hasLocation b = true) ∨ (Spec.dataBatches bs).length ≠ 1
      | _ => True) :
    ∃ e, resolve es (some h) mr fetch = .error e := by
  cases hr : resolve es (some h) mr fetch with
  | error e => exact ⟨e, rfl⟩
  | ok r =>
    obtain ⟨logs, d⟩ := r
    obtain ⟨k, sch, bs, hf, hsch, hloc, hd, _⟩ := C30_integrity_sha es h mr fetch logs d hr
    have := hbad k
    rw [hf] at this
    rcases this with h1 | h2 | ⟨b, hb, hb'⟩ | h4
    · exact absurd rfl h1
    · exact absurd hsch h2
    · rw [hloc b hb] at hb'; cases hb'
    · rw [hd] at h4; exact absurd rfl h4

/-- **authenticity** under a collision-free digest: the pointer was made by `externalize` for the cycle `bs`; WHATEVER the
store holds at each attempt, anything delivered is exactly the uploaded cycle's data batch and log messages -/
theorem C30_authentic {B : Type} (env : Env B) (hinj : ∀ x y, env.sha x = env.sha y → x = y) (schema : Nat) (bs : List WBatch)
    (objs : Nat → Option (Obj B)) (mr : Int) (logs : List Log) (d : WBatch)
    (hok : resolve schema (some (env.sha (env.ser schema bs))) mr (fun k => view env (objs k)) = .ok (logs, d)) :
    Spec.dataBatches bs = [d] ∧ Spec.logsOf bs = logs ∧ ∀ b ∈ bs, hasLocation b = false := by
  obtain ⟨k, sch, bs', hf, _, hloc, hd, hl⟩ := C30_integrity_sha schema _ mr _ logs d hok
  -- the decoded bytes seen at attempt k hash to the uploaded digest, hence ARE the uploaded bytes
  have key : ∀ x, Fetched.got (env.sha x) (env.parse x) = .got (env.sha (env.ser schema bs)) (.stream sch bs' .clean) →
      bs' = bs := by
    intro x hx
    simp only [Fetched.got.injEq] at hx
    have hx1 := hinj _ _ hx.1
    subst hx1
    rw [env.parse_ser] at hx
    simp only [Parsed.stream.injEq] at hx
    exact hx.2.2.1.symm
  have hbs : bs' = bs := by
    simp only [view] at hf
    cases ho : objs k with
    | none => simp [ho] at hf
    | some o =>
      simp only [ho] at hf
      cases he : o.enc with
      | none => simp only [he] at hf; exact key _ hf
      | some c =>
        simp only [he] at hf
        cases hd' : env.decomp c o.body with
        | none => simp [hd'] at hf
        | some x => simp only [hd'] at hf; exact key _ hf
  subst hbs
  exact ⟨hd, hl, hloc⟩

/-- non-vacuity: an accepted resolution exists (one log, one data batch, digest "h", second attempt after a failed fetch) -/
example : resolve 7 (some "h".toList) 2
    (fun k => if k = 0 then .failed else
      .got "h".toList (.stream 7 [⟨0, some { level := some "INFO".toList, message := some "m".toList }, 0⟩, ⟨3, none, 5⟩] .clean))
    = .ok ([⟨"INFO".toList, "m".toList, []⟩], ⟨3, none, 5⟩) := by rfl

end VgiVerif.C30
