import VgiVerif.Spec.C05
/-
C05 proofs: helper lemmas in `Aux`, then the property theorems.
-/
namespace VgiVerif.C05
open VgiVerif.Gen.C05 (Exc)

namespace Aux

abbrev G := Tables.gen

theorem guard_exception : ∀ e : Exc, isA G e .Exception_ = true →
    caught G G.asPyGuard e = true ∧ caught G G.validation e = true ∧ caught G G.methodCall e = true := by
  intro e; cases e <;> decide

theorem guard_attach : ∀ e : Exc, (isA G e .OSError = true ∨ isA G e .ValueError = true) → caught G G.attachGuard e = true := by
  intro e; cases e <;> decide

theorem guard_value : ∀ e : Exc, isA G e .ValueError = true →
    caught G G.pointerGuard e = true ∧ caught G G.releaseGuard e = true := by
  intro e; cases e <;> decide

theorem guard_version : ∀ e : Exc, isA G e .ProtocolVersionError = true → caught G G.versionGate e = true := by
  intro e; cases e <;> decide

theorem drainWith_ok (skips ends : List Exc) (h1 : caught G ends .IPCError = false) (h2 : caught G skips .IPCError = true)
    (l : List Step) (h : ∀ s ∈ l, s = .ok ∨ s = .raises .IPCError) : drainWith G skips ends l = .ok := by
  induction l with
  | nil => rfl
  | cons s r ih =>
    have hr := ih (fun x hx => h x (by simp [hx]))
    rcases h s (by simp) with rfl | rfl
    · simpa [drainWith] using hr
    · simp [drainWith, h1, h2, hr]

theorem drain_ok (l : List Step) (h : ∀ s ∈ l, s = .ok ∨ s = .raises .IPCError) : drain G l = .ok :=
  drainWith_ok _ _ (by decide) (by decide) l h

/-- the drain the first read's IPCError handler performs (`_drain_stream` or its inline loop) -/
theorem firstDrain_ok (l : List Step) (h : ∀ s ∈ l, s = .ok ∨ s = .raises .IPCError) :
    drainWith G G.firstDrainSkips G.firstDrainEnds l = .ok :=
  drainWith_ok _ _ (by decide) (by decide) l h

theorem guard_convert : ∀ e : Exc, (isA G e .ValueError = true ∨ isA G e .StructError = true) →
    caught G G.attachConvert e = true := by
  intro e; cases e <;> decide

/-- whatever the OS and the mapped bytes do, `ShmSegment.attach` returns or raises an OSError / ValueError -/
theorem attachStep_sane (rq : Req)
    (h1 : ∀ e, rq.shmOpen = .raises e → isA G e .OSError = true ∨ isA G e .ValueError = true)
    (h2 : ∀ e, rq.allocInit = .raises e → isA G e .ValueError = true ∨ isA G e .StructError = true) :
    ∀ e, attachStep G rq = .raises e → isA G e .OSError = true ∨ isA G e .ValueError = true := by
  intro e he
  unfold attachStep at he
  cases ho : rq.shmOpen with
  | raises e' => rw [ho] at he; simp at he; subst he; exact h1 e' ho
  | ok =>
    rw [ho] at he
    cases ha : rq.allocInit with
    | raises e' =>
      rw [ha] at he
      simp [guard_convert e' (h2 e' ha)] at he
      subst he; right; decide
    | ok => rw [ha] at he; simp at he
    | blocks => rw [ha] at he; simp at he
  | blocks =>
    rw [ho] at he
    cases ha : rq.allocInit with
    | raises e' =>
      rw [ha] at he
      simp [guard_convert e' (h2 e' ha)] at he
      subst he; right; decide
    | ok => rw [ha] at he; simp at he
    | blocks => rw [ha] at he; simp at he

theorem maybeAttach_ok (rq : Req)
    (h : ∀ e, attachStep G rq = .raises e → isA G e .OSError = true ∨ isA G e .ValueError = true) :
    ∃ b, maybeAttach G rq = .ok b := by
  have d1 : caught G G.attachMdDecode .UnicodeDecodeError = true := by decide
  have d2 : caught G G.attachMdDecode .ValueError = true := by decide
  cases hn : rq.shmName <;> cases hs : rq.shmSize <;> simp [maybeAttach, hn, hs, d1, d2]
  all_goals
    cases ha : attachStep G rq with
    | ok => simp
    | blocks => simp
    | raises e => simp [guard_attach e (h e ha)]

theorem body_cases (rq : Req) (hasp : ∀ e, rq.asPy = .raises e → isA G e .Exception_ = true) :
    body G rq = .ok () ∨ body G rq = .raises .RpcError := by
  unfold body
  by_cases hr : (rq.ncols > 0 && rq.rows != 1) = true
  · right; simp [hr]
  · cases ha : rq.asPy with
    | ok => left; simp [hr]
    | blocks => left; simp [hr]
    | raises e => right; simp [hr, (guard_exception e (hasp e ha)).1]

theorem guard_resolveConvert : ∀ e : Exc,
    (isA G e .StopIteration = true ∨ isA G e .OSError = true ∨ isA G e .ValueError = true) →
    caught G G.resolveConvert e = true ∨ isA G e .ValueError = true := by
  intro e; cases e <;> decide

/-- whatever the pointer and the region hold, `resolve_shm_batch` returns or raises a ValueError -/
theorem resolveStep_sane (rq : Req)
    (hres : ∀ e, rq.resolve = .raises e → isA G e .ValueError = true) (hresb : rq.resolve ≠ .blocks)
    (hdes : ∀ e, rq.deser = .raises e → isA G e .StopIteration = true ∨ isA G e .OSError = true ∨ isA G e .ValueError = true) :
    resolveStep G rq ≠ .blocks ∧ ∀ e, resolveStep G rq = .raises e → isA G e .ValueError = true := by
  unfold resolveStep
  cases hr : rq.resolve with
  | blocks => exact absurd hr hresb
  | raises e => exact ⟨by simp, fun e' he => by simp at he; subst he; exact hres e hr⟩
  | ok =>
    cases hd : rq.deser with
    | ok => exact ⟨by simp, fun e' he => by simp at he⟩
    | blocks => exact ⟨by simp, fun e' he => by simp at he⟩
    | raises e =>
      refine ⟨by simp only; split <;> simp, fun e' he => ?_⟩
      rcases guard_resolveConvert e (hdes e hd) with hc | hv
      · simp [hc] at he; subst he; decide
      · by_cases hc : caught G G.resolveConvert e = true
        · simp [hc] at he; subst he; decide
        · simp [hc] at he; subst he; exact hv

theorem resolveBody_cases (rq : Req) (b : Bool) (sane : Spec.PrimitivesSane G rq) :
    resolveBody G rq b = .ok () ∨ resolveBody G rq b = .raises .RpcError := by
  obtain ⟨_, _, hres0, hresb0, hdes, hrel, hasp, _, _, _⟩ := sane
  obtain ⟨hresb, hres⟩ := resolveStep_sane rq hres0 hresb0 hdes
  have hb := body_cases rq hasp
  unfold resolveBody
  by_cases hbp : (b && rq.isPointer) = true
  · simp only [hbp, if_true]
    cases hr : resolveStep G rq with
    | blocks => exact absurd hr hresb
    | raises e => right; simp [(guard_value e (hres e hr)).1]
    | ok =>
      simp only
      cases hl2 : rq.release with
      | ok => exact hb
      | blocks => exact hb
      | raises e => simpa [(guard_value e (hrel e hl2)).2] using hb
  · simp only [hbp, Bool.false_eq_true, if_false]
    exact hb

theorem segment_ok (rq : Req) (hatt : ∀ e, attachStep G rq = .raises e → isA G e .OSError = true ∨ isA G e .ValueError = true) :
    ∃ b, segment G rq = .ok b := by
  unfold segment
  by_cases hs : rq.staticShm
  · exact ⟨true, by simp [hs]⟩
  · by_cases hp : rq.isPointer
    · obtain ⟨b, hb⟩ := maybeAttach_ok rq hatt
      exact ⟨b, by simp [hs, hp, hb]⟩
    · exact ⟨false, by simp [hs, hp]⟩

theorem afterDrain_cases (rq : Req) (sane : Spec.PrimitivesSane G rq) :
    afterDrain G rq = .ok () ∨ afterDrain G rq = .raises .RpcError ∨ afterDrain G rq = .raises .VersionError := by
  have t1 : caught G G.traceDecode .UnicodeDecodeError = true := by decide
  have t2 : caught G G.methodDecode .UnicodeDecodeError = true := by decide
  obtain ⟨b, hb⟩ := segment_ok rq (attachStep_sane rq sane.1 sane.2.1)
  have hrb := resolveBody_cases rq b sane
  unfold afterDrain
  simp only [t1, t2, Bool.not_true, Bool.and_false, Bool.false_eq_true, if_false, hb]
  by_cases h1 : rq.hasMethod
  · cases hv : rq.version <;> simp [h1]
    by_cases h2 : rq.methodText
    · simp only [h2, Bool.true_eq_false, if_false]
      rcases hrb with h | h
      · left; first | exact h | exact fun _ => h
      · right; left; first | exact h | exact fun _ => h
    · simp [h2]
  · simp [h1]

/-- `_read_request` on a well-framed request returns, or raises one of the two classes `serve_one` answers and goes on -/
theorem readRequest_wf (rq : Req) (wf : Spec.WellFramed rq) (sane : Spec.PrimitivesSane G rq) :
    readRequest G rq = .ok () ∨ readRequest G rq = .raises .RpcError ∨ readRequest G rq = .raises .VersionError := by
  obtain ⟨ho, hf, hl⟩ := wf
  have hd := drain_ok rq.laterReads hl
  have f1 : caught G G.firstRead .StopIteration = true := by decide
  have f2 : caught G G.firstRead .IPCError = true := by decide
  have f3 : isA G .IPCError .StopIteration = false := by decide
  have f4 : isA G .StopIteration .StopIteration = true := by decide
  have f5 : G.firstReadDrains = true := by decide
  unfold readRequest
  rw [ho]
  rcases hf with hf | hf | hf
  · rw [hf, hd]
    exact afterDrain_cases rq sane
  · rw [hf]
    right; left
    simp [f1, f4]
  · rw [hf]
    right; left
    simp [f2, f3, f5, firstDrain_ok rq.laterReads hl]

@[simp] theorem refusal_gen_version (rq : Req) (s : Served) : refusal G.versionReplyFirst rq s = s := by
  have : G.versionReplyFirst = true := by decide
  simp [refusal, this]

@[simp] theorem refusal_gen_validation (rq : Req) (s : Served) : refusal G.validationReplyFirst rq s = s := by
  have : G.validationReplyFirst = true := by decide
  simp [refusal, this]

@[simp] theorem refusal_gen_init (rq : Req) (s : Served) : refusal G.initReplyFirst rq s = s := by
  have : G.initReplyFirst = true := by decide
  simp [refusal, this]

theorem serveOne_wf (rq : Req) (wf : Spec.WellFramed rq) (sane : Spec.PrimitivesSane G rq) :
    Spec.AnsweredAndServing (serveOne G rq) := by
  have hrr := readRequest_wf rq wf sane
  obtain ⟨hopen, halloc, _, _, _, _, _, hver, hval, hcall⟩ := sane
  have hatt := attachStep_sane rq hopen halloc
  have r1 : (G.readRequestTry.find? fun h => caught G h.1 .RpcError) = some ([.VersionError, .RpcError], false) := by decide
  have r2 : (G.readRequestTry.find? fun h => caught G h.1 .VersionError) = some ([.VersionError, .RpcError], false) := by decide
  have f5 : G.firstReadDrains = true := by decide
  have hcons : (match rq.firstRead with
      | .raises e0 => isA G e0 .StopIteration || G.firstReadDrains
      | _ => true) = true := by
    cases rq.firstRead <;> simp [f5]
  unfold serveOne
  rcases hrr with h | h | h
  · rw [h]
    simp only
    by_cases ht : rq.isTransportOptions
    · simp [ht, Spec.AnsweredAndServing]
    · by_cases hk : rq.methodKnown
      · simp only [ht, hk, Bool.false_eq_true, if_false, Bool.not_true]
        have hseg : ∃ b, (if rq.staticShm then Ex.ok true else maybeAttach G rq) = Ex.ok b := by
          by_cases hs : rq.staticShm
          · exact ⟨true, by simp [hs]⟩
          · obtain ⟨b, hb⟩ := maybeAttach_ok rq hatt
            exact ⟨b, by simp [hs, hb]⟩
        obtain ⟨b, hb⟩ := hseg
        have tail : Spec.AnsweredAndServing
            (match (if rq.staticShm then Ex.ok true else maybeAttach G rq) with
             | .raises _ => escapes
             | _ => match rq.call with
               | .raises e => if caught G G.methodCall e then refusal G.initReplyFirst rq ⟨.replyContinue, .methodError, true⟩ else ⟨.replyStop, .none, true⟩
               | _ => ⟨.replyContinue, .value, true⟩) := by
          rw [hb]
          cases hc : rq.call with
          | ok => simp [Spec.AnsweredAndServing]
          | blocks => simp [Spec.AnsweredAndServing]
          | raises e => simp [Spec.AnsweredAndServing, (guard_exception e (hcall e hc)).2.2]
        cases hv : rq.versionCheck with
        | raises e => simp [guard_version e (hver e hv), Spec.AnsweredAndServing]
        | ok =>
          cases hva : rq.validate with
          | raises e => simp [(guard_exception e (hval e hva)).2.1, Spec.AnsweredAndServing]
          | ok => exact tail
          | blocks => exact tail
        | blocks =>
          cases hva : rq.validate with
          | raises e => simp [(guard_exception e (hval e hva)).2.1, Spec.AnsweredAndServing]
          | ok => exact tail
          | blocks => exact tail
      · simp [ht, hk, Spec.AnsweredAndServing]
  · rw [h]
    simp only [r1]
    exact ⟨rfl, hcons⟩
  · rw [h]
    simp only [r2]
    exact ⟨rfl, hcons⟩

theorem drainWith_noblock (T : Tables) (skips ends : List Exc) (l : List Step) (h : ∀ s ∈ l, s ≠ .blocks) :
    drainWith T skips ends l ≠ .blocks := by
  induction l with
  | nil => simp [drainWith]
  | cons s r ih =>
    have hr := ih (fun x hx => h x (by simp [hx]))
    cases s with
    | ok => simpa [drainWith] using hr
    | blocks => exact absurd rfl (h .blocks (by simp))
    | raises e =>
      simp only [drainWith]
      split
      · simp
      · split
        · exact hr
        · simp

theorem drain_noblock (T : Tables) (l : List Step) (h : ∀ s ∈ l, s ≠ .blocks) : drain T l ≠ .blocks :=
  drainWith_noblock T _ _ l h

theorem maybeAttach_noblock (T : Tables) (rq : Req) : ∀ x, maybeAttach T rq = x → x ≠ .blocks := by
  intro x hx
  subst hx
  unfold maybeAttach
  cases rq.shmName <;> cases rq.shmSize <;> simp
  all_goals (repeat' split) <;> simp

theorem body_noblock (T : Tables) (rq : Req) : body T rq ≠ .blocks := by
  unfold body
  (repeat' split) <;> simp

theorem resolveStep_noblock (T : Tables) (rq : Req) (hr : rq.resolve ≠ .blocks) : resolveStep T rq ≠ .blocks := by
  unfold resolveStep
  cases h : rq.resolve with
  | blocks => exact absurd h hr
  | raises e => simp
  | ok => simp only; (repeat' split) <;> simp

theorem resolveBody_noblock (T : Tables) (rq : Req) (b : Bool) (hr0 : rq.resolve ≠ .blocks) : resolveBody T rq b ≠ .blocks := by
  have hb := body_noblock T rq
  have hr := resolveStep_noblock T rq hr0
  unfold resolveBody
  by_cases hbp : (b && rq.isPointer) = true
  · simp only [hbp, if_true]
    cases h : resolveStep T rq with
    | blocks => exact absurd h hr
    | raises e => simp only; split <;> simp
    | ok =>
      simp only
      cases rq.release with
      | ok => exact hb
      | blocks => exact hb
      | raises e => simp only; split; exact hb; simp
  · simp only [hbp, Bool.false_eq_true, if_false]
    exact hb

theorem segment_noblock (T : Tables) (rq : Req) : segment T rq ≠ .blocks := by
  unfold segment
  by_cases hs : rq.staticShm
  · simp [hs]
  · by_cases hp : rq.isPointer
    · simp only [hs, hp, Bool.false_eq_true, if_false, if_true]
      exact maybeAttach_noblock T rq _ rfl
    · simp [hs, hp]

theorem afterDrain_noblock (T : Tables) (rq : Req) (hr : rq.resolve ≠ .blocks) : afterDrain T rq ≠ .blocks := by
  have hs := segment_noblock T rq
  unfold afterDrain
  cases hseg : segment T rq with
  | blocks => exact absurd hseg hs
  | raises e => (repeat' split) <;> simp_all
  | ok b =>
    have hrb := resolveBody_noblock T rq b hr
    (repeat' split) <;> simp_all

theorem readRequest_noblock (T : Tables) (rq : Req) (h : Spec.NoBlocks rq) : readRequest T rq ≠ .blocks := by
  obtain ⟨ho, hf, hl, hr⟩ := h
  have hd := drain_noblock T rq.laterReads hl
  have ha := afterDrain_noblock T rq hr
  unfold readRequest
  cases h1 : rq.openStream with
  | blocks => exact absurd h1 ho
  | raises e => simp
  | ok =>
    simp only
    cases h2 : rq.firstRead with
    | blocks => exact absurd h2 hf
    | raises e =>
      simp only
      cases hdd : drainWith T T.firstDrainSkips T.firstDrainEnds rq.laterReads with
      | blocks => exact absurd hdd (drainWith_noblock T _ _ rq.laterReads hl)
      | ok => (repeat' split) <;> simp_all
      | raises e' => (repeat' split) <;> simp_all
    | ok =>
      simp only
      cases hdd : drain T rq.laterReads with
      | blocks => exact absurd hdd hd
      | raises e' => simp
      | ok => exact ha

end Aux

/-! ## Property theorems (obligations) -/

/-- the extracted tables catch what the primitives can raise, at every guard the decision procedure relies on
(fails to compile when a guard of the anchored code is removed or narrowed) -/
theorem tables_guarded :
    (∀ e : Exc, isA Tables.gen e .Exception_ = true →
      caught Tables.gen Tables.gen.asPyGuard e = true ∧ caught Tables.gen Tables.gen.validation e = true ∧
      caught Tables.gen Tables.gen.methodCall e = true) ∧
    (∀ e : Exc, (isA Tables.gen e .OSError = true ∨ isA Tables.gen e .ValueError = true) →
      caught Tables.gen Tables.gen.attachGuard e = true) ∧
    (∀ e : Exc, isA Tables.gen e .ValueError = true →
      caught Tables.gen Tables.gen.pointerGuard e = true ∧ caught Tables.gen Tables.gen.releaseGuard e = true) ∧
    (∀ e : Exc, (isA Tables.gen e .ValueError = true ∨ isA Tables.gen e .StructError = true) →
      caught Tables.gen Tables.gen.attachConvert e = true) ∧
    (∀ e ∈ Gen.C05.allocInitRaises, isA Tables.gen e .ValueError = true ∨ isA Tables.gen e .StructError = true) ∧
    (∀ e : Exc, (isA Tables.gen e .StopIteration = true ∨ isA Tables.gen e .OSError = true ∨ isA Tables.gen e .ValueError = true) →
      caught Tables.gen Tables.gen.resolveConvert e = true ∨ isA Tables.gen e .ValueError = true) ∧
    (∀ e : Exc, isA Tables.gen e .ValueError = true → caught Tables.gen Gen.C05.drainFreeGuard e = true) ∧
    Tables.gen.versionReplyFirst = true ∧ Tables.gen.validationReplyFirst = true ∧ Tables.gen.initReplyFirst = true ∧
    caught Tables.gen Tables.gen.traceDecode .UnicodeDecodeError = true ∧
    caught Tables.gen Tables.gen.firstRead .StopIteration = true ∧ caught Tables.gen Tables.gen.firstRead .IPCError = true ∧
    Tables.gen.firstReadDrains = true ∧ caught Tables.gen Tables.gen.drainSkips .IPCError = true ∧
    caught Tables.gen Tables.gen.firstDrainSkips .IPCError = true ∧
    caught Tables.gen Tables.gen.firstDrainEnds .StopIteration = true ∧
    caught Tables.gen Tables.gen.firstDrainEnds .IPCError = false :=
  ⟨Aux.guard_exception, Aux.guard_attach, Aux.guard_value, Aux.guard_convert, by decide, Aux.guard_resolveConvert, (by intro e; cases e <;> decide), by decide, by decide, by decide, by decide, by decide, by decide, by decide, by decide, by decide,
   by decide, by decide⟩

/-- `Spec.WellFramedAnswered`: every well-framed request — any metadata, columns, rows, segment names, pointer values;
any failure of a primitive within the classes it can raise — is answered, the loop goes on, the stream is consumed -/
theorem C05_wellframed : Spec.WellFramedAnswered Tables.gen :=
  fun rq wf sane => Aux.serveOne_wf rq wf sane

/-- `Spec.NeverLeftWaiting`: whatever the bytes (valid or not), if the peer has sent what it sends, the server does not
wait: it replies and/or the connection ends -/
theorem C05_garbage : Spec.NeverLeftWaiting Tables.gen := by
  intro rq h
  have hb := Aux.readRequest_noblock Tables.gen rq h
  unfold serveOne
  cases hr : readRequest Tables.gen rq with
  | blocks => exact absurd hr hb
  | raises e =>
    simp only
    cases (Tables.gen.readRequestTry.find? fun h => caught Tables.gen h.1 e) with
    | none => simp [escapes]
    | some p => obtain ⟨cs, b⟩ := p; cases b <;> simp
  | ok u =>
    cases u
    simp only
    (repeat' split) <;> simp [escapes, Aux.refusal_gen_version, Aux.refusal_gen_validation, Aux.refusal_gen_init]

/-- bytes pyarrow rejects as ArrowInvalid — at `open_stream`, at the first read, or while the rest of the stream is
drained — are answered with an error stream before the connection ends (never silently) -/
theorem C05_garbage_reply (rq : Req) (e : Exc) (he : isA Tables.gen e .ArrowInvalid = true)
    (h : rq.openStream = .raises e ∨
         (rq.openStream = .ok ∧ rq.firstRead = .raises e) ∨
         (rq.openStream = .ok ∧ rq.firstRead = .ok ∧ drain Tables.gen rq.laterReads = .raises e)) :
    (serveOne Tables.gen rq).outcome = .replyStop := by
  have hfind : ∀ e : Exc, isA Tables.gen e .ArrowInvalid = true →
      (Tables.gen.readRequestTry.find? fun h => caught Tables.gen h.1 e) = some ([.ArrowInvalid], true) := by
    intro e; cases e <;> decide
  have hnf : ∀ e : Exc, isA Tables.gen e .ArrowInvalid = true → caught Tables.gen Tables.gen.firstRead e = false := by
    intro e; cases e <;> decide
  have hrr : readRequest Tables.gen rq = .raises e := by
    unfold readRequest
    rcases h with h | ⟨h1, h2⟩ | ⟨h1, h2, h3⟩
    · rw [h]
    · rw [h1, h2]; simp [hnf e he]
    · rw [h1, h2, h3]
  unfold serveOne
  rw [hrr]
  simp [hfind e he]

/-- `Spec.NextUnaffected`: after a well-framed request the next one is served as on a fresh connection -/
theorem C05_next : Spec.NextUnaffected Tables.gen := by
  intro rq rest wf sane
  obtain ⟨h1, h2⟩ := Aux.serveOne_wf rq wf sane
  simp [serveMany, h1, h2]

/-- non-vacuity: a request naming a non-existent segment, with an undecodable traceparent and a value Python cannot
represent, satisfies the hypotheses -/
example : Spec.WellFramed
      { openStream := .ok, firstRead := .ok, laterReads := [.raises .IPCError, .ok], hasMethod := true, methodText := true,
        version := .current, traceparent := .undecodable, tracestate := .absent, shmName := .text, shmSize := .numeric,
        isPointer := true, staticShm := false, shmOpen := .raises .FileNotFoundError, allocInit := .raises .StructError, resolve := .ok, deser := .raises .StopIteration, release := .ok,
        ncols := 2, rows := 0, asPy := .raises .OverflowError, isTransportOptions := false, streamNoHeader := true, peerWaits := true, methodKnown := true,
        versionCheck := .ok, validate := .raises .TypeError, call := .ok } ∧
    Spec.PrimitivesSane Tables.gen
      { openStream := .ok, firstRead := .ok, laterReads := [.raises .IPCError, .ok], hasMethod := true, methodText := true,
        version := .current, traceparent := .undecodable, tracestate := .absent, shmName := .text, shmSize := .numeric,
        isPointer := true, staticShm := false, shmOpen := .raises .FileNotFoundError, allocInit := .raises .StructError, resolve := .ok, deser := .raises .StopIteration, release := .ok,
        ncols := 2, rows := 0, asPy := .raises .OverflowError, isTransportOptions := false, streamNoHeader := true, peerWaits := true, methodKnown := true,
        versionCheck := .ok, validate := .raises .TypeError, call := .ok } := by
  refine ⟨⟨rfl, Or.inl rfl, by simp⟩, ?_⟩
  refine ⟨?_, ?_, ?_, ?_, ?_, ?_, ?_, ?_⟩ <;> simp <;> decide

end VgiVerif.C05
