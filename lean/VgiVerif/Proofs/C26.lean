import VgiVerif.Lemmas.C26Main
import VgiVerif.Spec.C26
/-
C26 — sticky sessions are never used concurrently with or after close: theorems about the model
(`Model/C26.lean`, the repaired `_sticky.py`), for EVERY interleaving, any number of threads and sessions.

* `C26_shape`                      the extracted source has the locking discipline the model transliterates
* `C26_inv`                        the lock / registry / counter invariants hold in every reachable state (in particular
                                   `NoU`: nobody is ever inside `_close_entry` without the entry lock — the model's
                                   `entTimeout` step, a timed acquire that fails, is disabled because the extracted
                                   discipline is a blocking acquire: `timeoutDisabled` in `Lemmas/C26Trans.lean`)
* `C26_mutex`                      (1) at most one request dispatches against a session at a time
* `C26_close_once`                 (2a) the close hook of a session starts at most once
* `C26_close_exactly_once`         (2b) at rest, every ended session was closed exactly once (started and finished)
* `C26_not_closed_while_live`      … and a session that is still registered has not been closed
* `C26_no_close_during_dispatch`   (3) while the hook runs, only the thread running it can be dispatching on the session
* `C26_no_dispatch_after_close`    (4) `dispatchBegin` is enabled only while the hook has never started
* `C26_trace_safe`                 the four demands of `Spec/C26.lean` for the event sequence of every run
* `C26_trace_exactly_once`         (2b) at trace level
* `C26_deadlock_free`              lock-order: whenever some thread is in the middle of an operation, some such
                                   thread can take a step (no state where everybody waits for a lock)
* `C26_accepts_sound`              what the driver's `accepts` accepts ends in a reachable state
-/
namespace VgiVerif.C26
open VgiVerif.Sched VgiVerif.Gen.C26

/-- the structural facts the model relies on, as extracted from the source -/
theorem C26_shape :
    regLockIsPlainLock = true ∧ entryLockIsRLock = true ∧ openOrder = true ∧ getShape = true ∧ isLiveShape = true ∧
    closeShape = true ∧ drainShape = true ∧ shutdownShape = true ∧ closeEntryShape = true ∧
    noDirectStateClose = true ∧ requestRechecksLive = true ∧ closeSessionKeepsEntryLock = true ∧
    responseReleasesEntryLock = true ∧ deleteClosesUnderEntryLock = true ∧ reaperLoopShape = true ∧
    closeLockWaitMillis = none := by decide

/-! ### the invariant -/

structure Inv (st : St) : Prop where
  nou : NoU st
  lock : LockInv st
  main : MainInv st

theorem inv_init : Inv ts.init := ⟨noU_init, lockInv_init, mainInv_init⟩

theorem inv_step {st st' : St} {l : Label} (h : Inv st) (hst : ts.step st l = some st') : Inv st' :=
  have htr := step_trans hst
  ⟨noU_trans h.nou htr, lockInv_trans h.nou h.lock htr, mainInv_trans h.nou h.lock h.main htr⟩

/-- the invariants hold in every reachable state -/
theorem C26_inv {st : St} (h : ts.Reachable st) : Inv st :=
  TS.invariant_of_step ts Inv inv_init (fun _ _ _ hi hst => inv_step hi hst) st h

/-! ### the four demands, on states -/

/-- (1) two threads dispatching against the same session are the same thread -/
theorem C26_mutex {st : St} (h : ts.Reachable st) {s : Sid} {t t' : Tid}
    (a : st.dsp t s = true) (b : st.dsp t' s = true) : t = t' := by
  have hi := C26_inv h
  exact hi.lock.ent.excl (Pc.holds_of_dispatching ((hi.main.gi.g1 t s).1 a))
    (Pc.holds_of_dispatching ((hi.main.gi.g1 t' s).1 b))

/-- (2a) the close hook of a session starts at most once -/
theorem C26_close_once {st : St} (h : ts.Reachable st) (s : Sid) : st.cstart s ≤ 1 :=
  (C26_inv h).main.ci.c1 s

/-- a state at rest: no thread is in the middle of an operation -/
def Quiescent (st : St) : Prop := ∀ t, st.pc t = .idle

/-- the session was registered and has been removed from the registry -/
def Ended (st : St) (s : Sid) : Prop := s ∈ st.order ∧ st.live s = false

/-- (2b) at rest, the close hook of every ended session has started exactly once and has returned -/
theorem C26_close_exactly_once {st : St} (h : ts.Reachable st) (hq : Quiescent st) {s : Sid} (he : Ended st s) :
    st.cstart s = 1 ∧ st.cend s = 1 := by
  have hi := C26_inv h
  have hc : st.closedFlag s = true := by
    rcases hi.main.fi.e1 s he.1 he.2 with hc | ⟨t, ht⟩
    · exact hc
    · simp [attrOf, hq t, Pc.owes] at ht
  have hs : st.cstart s = 1 := by
    rcases hi.main.ci.c4 s hc with h1 | ⟨t, ht⟩
    · exact h1
    · simp [attrOf, hq t, Pc.atOpen] at ht
  refine ⟨hs, ?_⟩
  rcases hi.main.ci.c7 s hs with h1 | ⟨t, ht⟩
  · exact h1
  · simp [attrOf, hq t, Pc.closing] at ht

/-- a session that is still registered has not been closed (in any reachable state) -/
theorem C26_not_closed_while_live {st : St} (h : ts.Reachable st) {s : Sid} (hl : st.live s = true) :
    st.cstart s = 0 := by
  have hi := C26_inv h
  have hc := hi.main.fi.f1 s hl
  rcases Nat.eq_zero_or_pos (st.cstart s) with h0 | h0
  · exact h0
  · rw [hi.main.ci.c3 s h0] at hc; cases hc

/-- (3) while thread `c` is inside the close hook of `s`, a thread dispatching against `s` is `c` itself -/
theorem C26_no_close_during_dispatch {st : St} (h : ts.Reachable st) {s : Sid} {c t : Tid}
    (a : st.crun c s = true) (b : st.dsp t s = true) : t = c := by
  have hi := C26_inv h
  exact hi.lock.ent.excl (Pc.holds_of_dispatching ((hi.main.gi.g1 t s).1 b))
    (Pc.holds_of_closing ((hi.main.gi.g2 c s).1 a))

/-- (4) a dispatch can begin only while the close hook of the session has never started -/
theorem C26_no_dispatch_after_close {st st' : St} (h : ts.Reachable st) {t : Tid} {s : Sid}
    (hst : ts.step st (.dispatchBegin t s) = some st') : st.cstart s = 0 := by
  have hi := C26_inv h
  have htr : Trans st (.dispatchBegin t s) st' := step_trans hst
  cases htr with
  | dispatchBegin hp =>
    have hc := hi.main.fi.r1 t s (by simp [attrOf, hp, Pc.readyFor])
    rcases Nat.eq_zero_or_pos (st.cstart s) with h0 | h0
    · exact h0
    · rw [hi.main.ci.c3 s h0] at hc; cases hc

/-- … and the hook, once started, stays started: `cstart` never decreases -/
theorem cstart_mono {st st' : St} {l : Label} (hst : ts.step st l = some st') (s : Sid) : st.cstart s ≤ st'.cstart s := by
  have htr : Trans st l st' := step_trans hst
  cases htr with
  | regAcq _ hop => simp only; rw [hop.frame.2.2.2.2.2.2.2.1]; exact Nat.le_refl _
  | @closeStart t s' c hp | @closeStartU t s' c hp =>
    simp only
    by_cases hs : s = s'
    · subst hs; simp
    · rw [upd_other _ _ hs]; exact Nat.le_refl _
  | _ => exact Nat.le_refl _

/-! ### the spec's observer = the model's ghost state -/

/-- the event a label is for the spec's observer -/
def Label.ev : Label → Option Spec.Ev
  | .dispatchBegin t s => some (.dispatchBegin t s)
  | .dispatchEnd t s => some (.dispatchEnd t s)
  | .closeStart t s => some (.closeStart t s)
  | .closeEnd t s => some (.closeEnd t s)
  | _ => none

/-- the observer's view of a model state -/
def obsOf (st : St) : Spec.Obs := ⟨st.dsp, st.crun, st.cstart, st.cend⟩

/-- the event sequence of a run -/
def events (ls : List Label) : List Spec.Ev := ls.filterMap Label.ev

theorem obs_step {st st' : St} {l : Label} (hst : ts.step st l = some st') :
    obsOf st' = match l.ev with
      | none => obsOf st
      | some e => (obsOf st).step e := by
  have htr : Trans st l st' := step_trans hst
  cases htr with
  | regAcq _ hop =>
    obtain ⟨-, -, -, -, -, e1, e2, e3, e4, -⟩ := hop.frame
    simp only [obsOf, Label.ev, e1, e2, e3, e4]
  | dispatchBegin hp | dispatchEnd hp => rfl
  | closeStart hp | closeEnd hp | closeStartU hp | closeEndU hp => rfl
  | _ => rfl

theorem obs_runFrom {st st' : St} {ls : List Label} (h : ts.runFrom st ls = some st') :
    obsOf st' = (events ls).foldl Spec.Obs.step (obsOf st) := by
  induction ls generalizing st with
  | nil => simp only [TS.runFrom, Option.some.injEq] at h; subst h; rfl
  | cons l r ih =>
    simp only [TS.runFrom] at h
    cases hst : ts.step st l with
    | none => rw [hst] at h; cases h
    | some m =>
      rw [hst] at h
      rw [ih h, obs_step hst]
      simp only [events, List.filterMap_cons]
      cases l.ev <;> rfl

/-- after any run, the ghost state of the model is what the spec's observer computes from the events -/
theorem obs_run {st : St} {ls : List Label} (h : ts.run ls = some st) : obsOf st = Spec.observe (events ls) :=
  obs_runFrom h

/-- a prefix of the event sequence is the event sequence of a prefix of the run -/
theorem events_prefix {ls : List Label} {p : List Spec.Ev} (h : p <+: events ls) :
    ∃ l1 l2, ls = l1 ++ l2 ∧ events l1 = p := by
  induction ls generalizing p with
  | nil =>
    simp only [events, List.filterMap_nil, List.prefix_nil] at h
    subst h; exact ⟨[], [], rfl, rfl⟩
  | cons l r ih =>
    cases p with
    | nil => exact ⟨[], l :: r, rfl, rfl⟩
    | cons e p' =>
      simp only [events, List.filterMap_cons] at h
      cases hl : l.ev with
      | none =>
        rw [hl] at h
        obtain ⟨l1, l2, e1, e2⟩ := ih h
        refine ⟨l :: l1, l2, by rw [e1]; rfl, ?_⟩
        simp only [events, List.filterMap_cons, hl]; exact e2
      | some e' =>
        rw [hl] at h
        simp only [List.cons_prefix_cons] at h
        obtain ⟨l1, l2, e1, e2⟩ := ih h.2
        refine ⟨l :: l1, l2, by rw [e1]; rfl, ?_⟩
        simp only [events, List.filterMap_cons, hl, h.1]
        exact congrArg _ e2

/-- a prefix of the event sequence ending in event `e`: the run passes through the label that produced `e` -/
theorem events_prefix_snoc {ls : List Label} {p : List Spec.Ev} {e : Spec.Ev} (h : p ++ [e] <+: events ls) :
    ∃ l1 x l2, ls = l1 ++ x :: l2 ∧ events l1 = p ∧ x.ev = some e := by
  induction ls generalizing p with
  | nil =>
    simp only [events, List.filterMap_nil, List.prefix_nil] at h
    cases p <;> cases h
  | cons l r ih =>
    simp only [events, List.filterMap_cons] at h
    cases hl : l.ev with
    | none =>
      rw [hl] at h
      obtain ⟨l1, x, l2, e1, e2, e3⟩ := ih h
      refine ⟨l :: l1, x, l2, by rw [e1]; rfl, ?_, e3⟩
      simp only [events, List.filterMap_cons, hl]; exact e2
    | some e' =>
      rw [hl] at h
      cases p with
      | nil =>
        simp only [List.nil_append, List.cons_prefix_cons] at h
        exact ⟨[], l, r, rfl, rfl, by rw [hl, h.1]⟩
      | cons a p' =>
        simp only [List.cons_append, List.cons_prefix_cons] at h
        obtain ⟨l1, x, l2, e1, e2, e3⟩ := ih h.2
        refine ⟨l :: l1, x, l2, by rw [e1]; rfl, ?_, e3⟩
        simp only [events, List.filterMap_cons, hl, h.1]
        exact congrArg _ e2

/-- the four demands of the spec hold for the event sequence of every run of the model -/
theorem C26_trace_safe {ls : List Label} (hacc : ts.accepts ls = true) : Spec.Safe (events ls) := by
  obtain ⟨st, hrun⟩ := (TS.accepts_iff ts ls).1 hacc
  have atPrefix : ∀ p, p <+: events ls → ∃ st1, ts.Reachable st1 ∧ obsOf st1 = Spec.observe p := by
    intro p hp
    obtain ⟨l1, l2, e1, e2⟩ := events_prefix hp
    rw [e1] at hrun
    obtain ⟨m, hm, -⟩ := TS.runFrom_prefix ts hrun
    exact ⟨m, TS.reachable_of_run ts hm, by rw [← e2]; exact obs_run hm⟩
  refine ⟨?_, ?_, ?_, ?_⟩
  · intro p hp s t t' a b
    obtain ⟨m, hr, ho⟩ := atPrefix p hp
    rw [← ho] at a b
    exact C26_mutex hr a b
  · intro s
    have := C26_close_once (TS.reachable_of_run ts hrun) s
    rw [← obs_run hrun]; exact this
  · intro p hp s c t a b
    obtain ⟨m, hr, ho⟩ := atPrefix p hp
    rw [← ho] at a b
    exact C26_no_close_during_dispatch hr a b
  · intro p t s hp
    obtain ⟨l1, x, l2, e1, e2, e3⟩ := events_prefix_snoc hp
    have hx : x = .dispatchBegin t s := by
      cases x <;> simp only [Label.ev, reduceCtorEq, Option.some.injEq, Spec.Ev.dispatchBegin.injEq] at e3
      obtain ⟨rfl, rfl⟩ := e3; rfl
    subst hx
    rw [e1] at hrun
    obtain ⟨m, hm, hrest⟩ := TS.runFrom_prefix ts hrun
    simp only [TS.runFrom] at hrest
    cases hst : ts.step m (.dispatchBegin t s) with
    | none => rw [hst] at hrest; cases hrest
    | some m' =>
      have := C26_no_dispatch_after_close (TS.reachable_of_run ts hm) hst
      rw [← e2, ← obs_run hm]; exact this

/-- (2b) for the event sequence of a run that ends at rest -/
theorem C26_trace_exactly_once {ls : List Label} {st : St} (hrun : ts.run ls = some st) (hq : Quiescent st) :
    Spec.CloseExactlyOnce (Ended st) (events ls) := by
  intro s he
  rw [← obs_run hrun]
  exact C26_close_exactly_once (TS.reachable_of_run ts hrun) hq he

/-- what the driver's `accepts` accepts is a run of the model and ends in a reachable state -/
theorem C26_accepts_sound {ls : List Label} (h : ts.accepts ls = true) :
    ∃ st, ts.run ls = some st ∧ ts.Reachable st ∧ Inv st := by
  obtain ⟨st, hrun⟩ := (TS.accepts_iff ts ls).1 h
  exact ⟨st, hrun, TS.reachable_of_run ts hrun, C26_inv (TS.reachable_of_run ts hrun)⟩

/-! ### deadlock freedom -/

/-- thread `t` can take a step -/
def CanStep (st : St) (t : Tid) : Prop := ∃ l : Label, l.tid = some t ∧ (step st l).isSome = true

theorem owner_of_holds {st : St} (hi : Inv st) {u : Tid} {s : Sid} (hh : 0 < (st.pc u).holds s) :
    (st.ent s).owner = some u := by
  have := hi.lock.ent.1 s u
  split at this
  · assumption
  · omega

theorem canStep_regRel {st : St} (hi : Inv st) {u : Tid} {n : Pc} (hp : st.pc u = .inReg n) : CanStep st u := by
  have ho : st.reg.owner = some u := ((hi.lock.reg u).1).2 (by simp [hp, Pc.depth])
  exact ⟨.regRel u, rfl, by simp [step, stepD, hp, Lock.release, ho]⟩

theorem canStep_entRel {st : St} (hi : Inv st) {u : Tid} {s : Sid} (hh : 0 < (st.pc u).holds s)
    (hp : (∃ c, st.pc u = .cRel s c) ∨ st.pc u = .lostRel s ∨ st.pc u = .finRel s ∨ st.pc u = .delRel s) :
    CanStep st u := by
  have ho := owner_of_holds hi hh
  refine ⟨.entRel u s, rfl, ?_⟩
  have hr : ∃ l, (st.ent s).release u = some l := by
    unfold RLock.release; rw [if_pos ho]; split <;> exact ⟨_, rfl⟩
  obtain ⟨l, hl⟩ := hr
  rcases hp with ⟨c, hp⟩ | hp | hp | hp <;> simp [step, stepD, hl, hp]

/-- a thread about to take the registry lock: it, or the holder of that lock, can step -/
theorem progress_reg {st : St} (hi : Inv st) {t : Tid} (hne : st.pc t ≠ .idle)
    (hop : (regOp st (st.pc t)).isSome = true) : ∃ u, st.pc u ≠ .idle ∧ CanStep st u := by
  cases ho : st.reg.owner with
  | none =>
    refine ⟨t, hne, .regAcq t, rfl, ?_⟩
    cases hr : regOp st (st.pc t) with
    | none => rw [hr] at hop; cases hop
    | some x => obtain ⟨st1, n⟩ := x; simp [step, stepD, Lock.acquire, ho, hr]
  | some u =>
    have hd := ((hi.lock.reg u).1).1 ho
    cases hp : st.pc u with
    | inReg n => exact ⟨u, by simp [hp], canStep_regRel hi hp⟩
    | _ => simp [hp, Pc.depth] at hd

/-- the entry lock (if any) a thread is about to take without already holding it -/
def Pc.waitsEnt : Pc → Option Sid
  | .cAcq s c => if c.holds = true then none else some s
  | .eAcq _ s => some s
  | _ => none

/-- a thread in the middle of an operation that is not waiting for an entry lock: it can step, or it waits for
the registry lock whose holder can step -/
theorem progress_nonwaiting {st : St} (hi : Inv st) {u : Tid} (hne : st.pc u ≠ .idle)
    (hw : (st.pc u).waitsEnt = none) : ∃ v, st.pc v ≠ .idle ∧ CanStep st v := by
  cases hp : st.pc u with
  | idle => exact absurd hp hne
  | inReg n => exact ⟨u, hne, canStep_regRel hi hp⟩
  | getClock k s => exact ⟨u, hne, .readClock u st.clock, rfl, by simp [step, stepD, hp]⟩
  | getAcq k s now =>
    refine progress_reg hi hne ?_
    rw [hp]; simp only [regOp]; (repeat' split) <;> rfl
  | lostPending => exact ⟨u, hne, .lost u, rfl, by simp [step, stepD, hp]⟩
  | cAcq s c =>
    have hc : c.holds = true := by
      rw [hp] at hw; simp only [Pc.waitsEnt] at hw
      split at hw
      · assumption
      · cases hw
    have ho := owner_of_holds hi (u := u) (s := s) (by simp [hp, Pc.holds, hc])
    refine ⟨u, hne, .entAcq u s, rfl, ?_⟩
    have ha : (st.ent s).acquire u = some ⟨some u, (st.ent s).count + 1⟩ := by
      simp [RLock.acquire, ho]
    simp only [step, stepD, ha, hp, if_true]
    split <;> rfl
  | cOpen s c => exact ⟨u, hne, .closeStart u s, rfl, by simp [step, stepD, hp]⟩
  | cRun s c => exact ⟨u, hne, .closeEnd u s, rfl, by simp [step, stepD, hp]⟩
  | uOpen s c => exact ⟨u, hne, .closeStart u s, rfl, by simp [step, stepD, hp]⟩
  | uRun s c => exact ⟨u, hne, .closeEnd u s, rfl, by simp [step, stepD, hp]⟩
  | cRel s c => exact ⟨u, hne, canStep_entRel hi (s := s) (by simp only [hp, Pc.holds, if_true]; split <;> omega) (Or.inl ⟨c, hp⟩)⟩
  | eAcq k s => rw [hp] at hw; simp [Pc.waitsEnt] at hw
  | liveAcq s => exact progress_reg hi hne (by rw [hp]; rfl)
  | lostRel s => exact ⟨u, hne, canStep_entRel hi (s := s) (by simp [hp, Pc.holds]) (Or.inr (Or.inl hp))⟩
  | ready s => exact ⟨u, hne, .dispatchBegin u s, rfl, by simp [step, stepD, hp]⟩
  | disp s => exact ⟨u, hne, .mstep u, rfl, by simp [step, stepD, hp]⟩
  | csAcq s c => exact progress_reg hi hne (by rw [hp]; simp only [regOp]; split <;> rfl)
  | finRel s => exact ⟨u, hne, canStep_entRel hi (s := s) (by simp [hp, Pc.holds]) (Or.inr (Or.inr (Or.inl hp)))⟩
  | delAcq s => exact progress_reg hi hne (by rw [hp]; simp only [regOp]; split <;> rfl)
  | delRel s => exact ⟨u, hne, canStep_entRel hi (s := s) (by simp [hp, Pc.holds]) (Or.inr (Or.inr (Or.inr hp)))⟩
  | sweepAcq now => exact progress_reg hi hne (by rw [hp]; rfl)
  | shutAcq => exact progress_reg hi hne (by rw [hp]; rfl)
  | openClock ttl pm => exact ⟨u, hne, .readClock u st.clock, rfl, by simp [step, stepD, hp]⟩
  | openAlloc exp pm => exact ⟨u, hne, .allocSid u st.nextSid, rfl, by simp [step, stepD, hp]⟩
  | openAcq s exp pm => exact progress_reg hi hne (by rw [hp]; rfl)
  | openSeal s => exact ⟨u, hne, .readClock u st.clock, rfl, by simp [step, stepD, hp]⟩
  | opened s => exact ⟨u, hne, .openDone u, rfl, by simp [step, stepD, hp]⟩

/-- a thread that holds an entry lock is never waiting for another entry lock -/
theorem waitsEnt_of_holds {p : Pc} {s : Sid} (hh : 0 < p.holds s) : p.waitsEnt = none := by
  cases p with
  | cAcq s' c =>
    simp only [Pc.holds] at hh
    split at hh
    · rename_i hc; simp [Pc.waitsEnt, hc.2]
    · omega
  | eAcq k s' => simp [Pc.holds] at hh
  | _ => rfl

/-- **deadlock freedom**: in every reachable state in which some thread is in the middle of an operation, some
such thread can take a step — there is no state in which every busy thread waits for a lock -/
theorem C26_deadlock_free {st : St} (h : ts.Reachable st) {t : Tid} (hne : st.pc t ≠ .idle) :
    ∃ u l st', st.pc u ≠ .idle ∧ l.tid = some u ∧ ts.step st l = some st' := by
  have hi := C26_inv h
  have key : ∃ v, st.pc v ≠ .idle ∧ CanStep st v := by
    cases hw : (st.pc t).waitsEnt with
    | none => exact progress_nonwaiting hi hne hw
    | some s =>
      -- t is about to take the entry lock of s
      cases hacq : (st.ent s).acquire t with
      | some l =>
        refine ⟨t, hne, .entAcq t s, rfl, ?_⟩
        cases hp : st.pc t with
        | cAcq s' c =>
          rw [hp] at hw; simp only [Pc.waitsEnt] at hw
          split at hw
          · cases hw
          · simp only [Option.some.injEq] at hw; subst hw
            simp only [step, stepD, hacq, hp, if_true]; split <;> rfl
        | eAcq k s' =>
          rw [hp] at hw; simp only [Pc.waitsEnt, Option.some.injEq] at hw; subst hw
          simp [step, stepD, hacq, hp]
        | _ => rw [hp] at hw; simp [Pc.waitsEnt] at hw
      | none =>
        -- the lock is held by another thread u, which is not waiting for an entry lock
        unfold RLock.acquire at hacq
        split at hacq
        · cases hacq
        · rename_i u hou
          have hpos : 0 < (st.pc u).holds s := by
            have h1 := hi.lock.ent.1 s u
            have h2 := hi.lock.ent.2 s
            rw [if_pos hou] at h1
            have : (st.ent s).count ≠ 0 := fun e => by
              have := h2.2 e; rw [hou] at this; cases this
            omega
          have hune : st.pc u ≠ .idle := by
            intro e; rw [e] at hpos; simp [Pc.holds] at hpos
          exact progress_nonwaiting hi hune (waitsEnt_of_holds hpos)
  obtain ⟨v, hv, l, hl, hs⟩ := key
  cases hst : step st l with
  | none => rw [hst] at hs; cases hs
  | some st' => exact ⟨v, l, st', hv, hl, hst⟩

/-! ### non-vacuity -/

/-- a step changes the program counter of the thread that performs it only -/
theorem pc_frame {st st' : St} {l : Label} (h : ts.step st l = some st') {t : Tid} (ht : l.tid ≠ some t) :
    st'.pc t = st.pc t := by
  have htr : Trans st l st' := step_trans h
  cases htr with
  | tick d => rfl
  | mstep => rfl
  | regAcq _ hop =>
    have hne : t ≠ _ := fun e => ht (by rw [e]; rfl)
    simp only [upd_other _ _ hne]
  | _ =>
    have hne : t ≠ _ := fun e => ht (by rw [e]; rfl)
    simp only [upd_other _ _ hne]

theorem pc_frame_run {st st' : St} {ls : List Label} (h : ts.runFrom st ls = some st') {t : Tid}
    (ht : ∀ l ∈ ls, l.tid ≠ some t) : st'.pc t = st.pc t := by
  induction ls generalizing st with
  | nil => simp only [TS.runFrom, Option.some.injEq] at h; rw [h]
  | cons l r ih =>
    simp only [TS.runFrom] at h
    cases hst : ts.step st l with
    | none => rw [hst] at h; cases h
    | some m =>
      rw [hst] at h
      rw [ih h (fun x hx => ht x (List.mem_cons_of_mem _ hx)), pc_frame hst (ht l List.mem_cons_self)]

/-- one thread opens a session (ttl 4), a request dispatches on it and closes it in the method; then shutdown -/
def scenario : List Label :=
  [.openBegin 5 4 true, .readClock 5 0, .allocSid 5 0, .regAcq 5, .regRel 5, .readClock 5 0, .openDone 5,
   .reqBegin 5 0, .readClock 5 0, .regAcq 5, .regRel 5, .entAcq 5 0, .regAcq 5, .regRel 5, .dispatchBegin 5 0,
   .mstep 5, .closeSession 5, .regAcq 5, .regRel 5, .entAcq 5 0, .closeStart 5 0, .closeEnd 5 0, .entRel 5 0,
   .dispatchEnd 5 0, .entRel 5 0, .shutBegin 5, .regAcq 5, .regRel 5]

example : ts.accepts scenario = true := by decide
example : events scenario = [.dispatchBegin 5 0, .closeStart 5 0, .closeEnd 5 0, .dispatchEnd 5 0] := by decide

/-- the hypotheses of `C26_close_exactly_once` are satisfiable: a reachable state at rest with an ended session -/
example : ∃ st, ts.Reachable st ∧ Quiescent st ∧ Ended st 0 := by
  have hacc : (ts.run scenario).isSome = true := by decide
  obtain ⟨st, hst⟩ := Option.isSome_iff_exists.1 hacc
  refine ⟨st, TS.reachable_of_run ts hst, ?_, ?_⟩
  · intro t
    by_cases ht : t = 5
    · subst ht
      have : (ts.run scenario).map (fun s => decide (s.pc 5 = .idle)) = some true := by decide
      rw [hst] at this; simpa using this
    · have := pc_frame_run (t := t) hst (by
        intro l hl
        simp only [scenario, List.mem_cons, List.not_mem_nil, or_false] at hl
        rcases hl with rfl | rfl | rfl | rfl | rfl | rfl | rfl | rfl | rfl | rfl | rfl | rfl | rfl | rfl | rfl | rfl | rfl
          | rfl | rfl | rfl | rfl | rfl | rfl | rfl | rfl | rfl | rfl | rfl <;>
          simp only [Label.tid, Option.some.injEq, ne_eq] <;> exact fun e => ht e.symm)
      rw [this]; rfl
  · have : (ts.run scenario).map (fun s => decide (0 ∈ s.order) && !s.live 0) = some true := by decide
    rw [hst] at this
    simp only [Option.map_some, Option.some.injEq, Bool.and_eq_true, decide_eq_true_eq, Bool.not_eq_true'] at this
    exact this

/-- the hypothesis of `C26_deadlock_free` is satisfiable -/
example : ∃ st t, ts.Reachable st ∧ st.pc t ≠ .idle := by
  have hacc : (ts.run [.reqBegin 1 0]).isSome = true := by decide
  obtain ⟨st, hst⟩ := Option.isSome_iff_exists.1 hacc
  refine ⟨st, 1, TS.reachable_of_run ts hst, ?_⟩
  have : (ts.run [.reqBegin 1 0]).map (fun s => decide (s.pc 1 = .idle)) = some false := by decide
  rw [hst] at this
  simpa using this

end VgiVerif.C26
