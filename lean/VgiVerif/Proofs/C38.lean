import VgiVerif.Model.C38
import VgiVerif.Spec.C38
/-
C38 property theorems.  Helper lemmas live in `Aux`; the obligations audited by the check are at the bottom.
All theorems quantify over every configuration, every fault script (any length), every jitter stream.
-/
namespace VgiVerif.C38
open VgiVerif.PyFloat VgiVerif.Gen.Retry

/-! ### abstraction of the model's trace to the vocabulary of the spec -/

def toHappened : Fault → Spec.Happened
  | .connectErr => .connectError
  | .timeout => .timeout
  | .disconnect => .disconnectBeforeResponse
  | .otherProto => .otherError
  | .status c _ => .status c

def toSend (s : Step) : Spec.Send := ⟨toHappened s.fault, s.slept⟩

/-- the finite value of a float (0 for the specials; only used for validated configurations, where it is finite) -/
def finVal : F → Rat
  | .fin q => q
  | _ => 0

def policy (c : Cfg) : Spec.Policy :=
  { maxRetries := c.maxRetries.toNat, backoffMax := finVal c.backoffMax,
    retryableStatus := c.retryable, retryOnConnectionError := c.retryOnConn }

namespace Aux

/-! ### the extracted shapes are the ones the proofs are about (re-checked on every run) -/

theorem shape_base : baseCheck = .finiteNonneg := by rfl
theorem shape_max : maxCheck = .finiteNonneg := by rfl
theorem shape_clamp : expClamp = some 1023 := by rfl
theorem shape_guard : jitterGuard = true := by rfl

/-! ### floats -/

theorem boundOk_finiteNonneg (x : F) :
    boundOk .finiteNonneg x = true ↔ ∃ q : Rat, x = .fin q ∧ 0 ≤ q := by
  cases x <;> simp [boundOk, F.le, F.lt]

theorem pyMin_cap (j : F) (m : Rat) (hm : 0 ≤ m) (hj : j = .posInf ∨ ∃ q : Rat, j = .fin q ∧ 0 ≤ q) :
    ∃ d : Rat, F.pyMin j (.fin m) = .fin d ∧ 0 ≤ d ∧ d ≤ m := by
  rcases hj with rfl | ⟨q, rfl, hq⟩
  · exact ⟨m, by simp [F.pyMin, F.lt], hm, Rat.le_refl⟩
  · by_cases h : m < q
    · exact ⟨m, by simp [F.pyMin, F.lt, h], hm, Rat.le_refl⟩
    · exact ⟨q, by simp [F.pyMin, F.lt, h], hq, by grind⟩

/-- `max(delay, min(retry_after, backoff_max))` stays in `[0, backoff_max]` for EVERY `retry_after`,
    NaN, ±inf and negatives included -/
theorem clamp_ra (d m : Rat) (x : F) (h0 : 0 ≤ d) (h1 : d ≤ m) :
    ∃ q : Rat, F.pyMax (.fin d) (F.pyMin x (.fin m)) = .fin q ∧ 0 ≤ q ∧ q ≤ m := by
  cases x with
  | nan => exact ⟨d, by simp [F.pyMax, F.pyMin, F.lt], h0, h1⟩
  | negInf => exact ⟨d, by simp [F.pyMax, F.pyMin, F.lt], h0, h1⟩
  | posInf =>
    by_cases h : d < m
    · exact ⟨m, by simp [F.pyMax, F.pyMin, F.lt, h], by grind, Rat.le_refl⟩
    · exact ⟨d, by simp [F.pyMax, F.pyMin, F.lt, h], h0, h1⟩
  | fin x =>
    by_cases hx : m < x
    · by_cases h : d < m
      · exact ⟨m, by simp [F.pyMax, F.pyMin, F.lt, h, hx], by grind, Rat.le_refl⟩
      · exact ⟨d, by simp [F.pyMax, F.pyMin, F.lt, h, hx], h0, h1⟩
    · by_cases h : d < x
      · exact ⟨x, by simp [F.pyMax, F.pyMin, F.lt, h, hx], by grind, by grind⟩
      · exact ⟨d, by simp [F.pyMax, F.pyMin, F.lt, h, hx], h0, h1⟩

theorem two_pow_pos (k : Nat) : (0 : Rat) < (2 : Rat) ^ k := by
  induction k with
  | zero => simp; decide
  | succ n ih => rw [Rat.pow_succ]; exact Rat.mul_pos ih (by decide)

theorem mulPow2_nonneg (b : Rat) (k : Nat) (hb : 0 ≤ b) :
    F.mulPow2 (.fin b) k = .posInf ∨ ∃ q : Rat, F.mulPow2 (.fin b) k = .fin q ∧ 0 ≤ q := by
  have hp : 0 ≤ b * (2 : Rat) ^ k := Rat.mul_nonneg hb (Rat.le_of_lt (two_pow_pos k))
  have hB : (0 : Rat) < F.overflowBound := two_pow_pos 1024
  simp only [F.mulPow2]
  by_cases h1 : F.overflowBound ≤ b * (2 : Rat) ^ k
  · left; simp [h1]
  · right
    have h2 : ¬ (b * (2 : Rat) ^ k ≤ -F.overflowBound) := by grind
    exact ⟨_, by simp [h1, h2], hp⟩

/-! ### validation -/

/-- what an accepted configuration looks like -/
structure Valid (c : Cfg) (b m : Rat) : Prop where
  retries : 0 ≤ c.maxRetries
  base : c.backoffBase = .fin b
  baseNonneg : 0 ≤ b
  max : c.backoffMax = .fin m
  maxNonneg : 0 ≤ m

theorem validate_none (c : Cfg) : validate c = none ↔ ∃ b m : Rat, Valid c b m := by
  unfold validate validateWith
  rw [shape_base, shape_max]
  constructor
  · intro h
    by_cases h1 : c.maxRetries < 0
    · simp [h1] at h
    · by_cases h2 : boundOk .finiteNonneg c.backoffBase = true
      · by_cases h3 : boundOk .finiteNonneg c.backoffMax = true
        · obtain ⟨b, hb, hb0⟩ := (boundOk_finiteNonneg _).1 h2
          obtain ⟨m, hm, hm0⟩ := (boundOk_finiteNonneg _).1 h3
          exact ⟨b, m, ⟨by omega, hb, hb0, hm, hm0⟩⟩
        · simp [h1, h2, h3] at h
      · simp [h1, h2] at h
  · rintro ⟨b, m, hv⟩
    have h1 : ¬ c.maxRetries < 0 := by have := hv.retries; omega
    have h2 : boundOk .finiteNonneg c.backoffBase = true := (boundOk_finiteNonneg _).2 ⟨b, hv.base, hv.baseNonneg⟩
    have h3 : boundOk .finiteNonneg c.backoffMax = true := (boundOk_finiteNonneg _).2 ⟨m, hv.max, hv.maxNonneg⟩
    simp [h1, h2, h3]

/-! ### `_compute_delay` -/

theorem expDelay_ok (c : Cfg) (b m : Rat) (hv : Valid c b m) (attempt : Nat) :
    ∃ e, expDelay c attempt = .ok e ∧ (e = .posInf ∨ ∃ q : Rat, e = .fin q ∧ 0 ≤ q) := by
  unfold expDelay expDelayWith
  rw [shape_clamp, hv.base]
  have hk : ¬ 1024 ≤ min attempt 1023 := by omega
  simp only [hk, if_false]
  exact ⟨_, rfl, mulPow2_nonneg b _ hv.baseNonneg⟩

/-- the delay is a number in `[0, backoff_max]`: for every attempt number, every (parsed) `Retry-After`, every draw ≥ 0 -/
theorem computeDelay_bounds (c : Cfg) (b m : Rat) (hv : Valid c b m) (attempt : Nat) (ra : Option F) (r : Rat)
    (hr : 0 ≤ r) :
    ∃ (q : Rat) (drew : Bool), computeDelay c attempt ra r = .ok (.fin q, drew) ∧ 0 ≤ q ∧ q ≤ m := by
  obtain ⟨e, he, hcase⟩ := expDelay_ok c b m hv attempt
  have he' : expDelayWith expClamp c attempt = .ok e := he
  unfold computeDelay computeDelayWith
  rw [he', shape_guard, hv.max]
  -- the jittered ceiling is +inf or a non-negative number
  have hj : ∀ j : F, j = (if (!true || F.lt e .posInf) = true then F.uniform0 e r else e) →
      (j = .posInf ∨ ∃ q : Rat, j = .fin q ∧ 0 ≤ q) := by
    intro j hjdef
    rcases hcase with rfl | ⟨q, rfl, hq⟩
    · left; simpa [F.lt] using hjdef
    · right; exact ⟨q * r, by simpa [F.lt, F.uniform0] using hjdef, Rat.mul_nonneg hq hr⟩
  obtain ⟨d, hd, hd0, hdm⟩ := pyMin_cap _ m hv.maxNonneg (hj _ rfl)
  simp only [hd]
  cases hra : c.respectRA
  · exact ⟨d, _, rfl, hd0, hdm⟩
  · cases ra with
    | none => exact ⟨d, _, rfl, hd0, hdm⟩
    | some x =>
      obtain ⟨q, hq, hq0, hqm⟩ := clamp_ra d m x hd0 hdm
      refine ⟨q, (!true || F.lt e .posInf), ?_, hq0, hqm⟩
      simp only [hq]; rfl

/-! ### the retry loop -/

/-- model-side reading of "something the policy allows a retry after" -/
def retryReason (c : Cfg) : Fault → Prop
  | .status code _ => c.retryable.contains code = true
  | .connectErr => c.retryOnConn = true
  | .timeout => c.retryOnConn = true
  | .disconnect => c.retryOnConn = true
  | .otherProto => False

theorem retryReason_spec (c : Cfg) (f : Fault) (h : retryReason c f) : Spec.Retryable (policy c) (toHappened f) := by
  cases f <;> simp_all [retryReason, Spec.Retryable, toHappened, policy]

theorem decide1_retry (c : Cfg) (attempt : Nat) (f : Fault) (ra : Option F)
    (h : decide1 c attempt f = .retry ra) : retryReason c f ∧ lastAttempt c attempt = false := by
  cases f with
  | otherProto => simp [decide1] at h
  | disconnect =>
    simp only [decide1] at h; split at h
    · cases h
    · simp_all [retryReason]
  | connectErr =>
    simp only [decide1] at h; split at h
    · cases h
    · simp_all [retryReason]
  | timeout =>
    simp only [decide1] at h; split at h
    · cases h
    · simp_all [retryReason]
  | status code r =>
    simp only [decide1] at h
    split at h
    · cases h
    · split at h
      · cases h
      · simp_all [retryReason]

theorem go_succ (c : Cfg) (jit : Nat → Rat) (fuel attempt draws : Nat) (script : List Fault) :
    go c jit (fuel + 1) attempt draws script =
      match decide1 c attempt (script.headD okFault) with
      | .stop o => ⟨[⟨script.headD okFault, none⟩], o, draws⟩
      | .retry ra =>
        match computeDelay c attempt ra (jit draws) with
        | .error e => ⟨[⟨script.headD okFault, none⟩], .raised e, draws⟩
        | .ok (d, drew) =>
          ⟨⟨script.headD okFault, some d⟩ :: (go c jit fuel (attempt + 1) (if drew then draws + 1 else draws) script.tail).steps,
           (go c jit fuel (attempt + 1) (if drew then draws + 1 else draws) script.tail).outcome,
           (go c jit fuel (attempt + 1) (if drew then draws + 1 else draws) script.tail).draws⟩ := by
  rfl

theorem go_length (c : Cfg) (jit : Nat → Rat) (fuel : Nat) :
    ∀ attempt draws script, (go c jit fuel attempt draws script).steps.length ≤ fuel := by
  induction fuel with
  | zero => intro a d s; simp [go]
  | succ n ih =>
    intro a d s
    rw [go_succ]
    cases decide1 c a (s.headD okFault) with
    | stop o => simp
    | retry ra =>
      simp only []
      split
      · simp
      · rename_i dl drew _
        have := ih (a + 1) (if drew then d + 1 else d) s.tail
        simp only [List.length_cons]; omega

/-- every transmission that is followed by another one met a retryable fault, and was followed by a sleep -/
theorem go_justified (c : Cfg) (jit : Nat → Rat) (fuel : Nat) :
    ∀ attempt draws script i st, i + 1 < (go c jit fuel attempt draws script).steps.length →
      (go c jit fuel attempt draws script).steps[i]? = some st → retryReason c st.fault ∧ st.slept.isSome = true := by
  induction fuel with
  | zero => intro a d s i st h; simp [go] at h
  | succ n ih =>
    intro a d s i st
    rw [go_succ]
    cases hd : decide1 c a (s.headD okFault) with
    | stop o => intro h; simp at h
    | retry ra =>
      simp only []
      split
      · intro h; simp at h
      · rename_i dl drew _
        intro h hst
        cases i with
        | zero =>
          simp at hst; subst hst
          have hr := (decide1_retry c a _ ra hd).1
          rw [List.headD_eq_head?_getD] at hr
          exact ⟨hr, rfl⟩
        | succ k =>
          simp only [List.length_cons] at h
          simp only [List.getElem?_cons_succ] at hst
          exact ih (a + 1) _ s.tail k st (by omega) hst

/-- every sleep is a number in `[0, backoff_max]` -/
theorem go_waits (c : Cfg) (b m : Rat) (hv : Valid c b m) (jit : Nat → Rat) (hj : ∀ n, 0 ≤ jit n) (fuel : Nat) :
    ∀ attempt draws script, ∀ st ∈ (go c jit fuel attempt draws script).steps, ∀ w, st.slept = some w →
      ∃ q : Rat, w = .fin q ∧ 0 ≤ q ∧ q ≤ m := by
  induction fuel with
  | zero => intro a d s st h; simp [go] at h
  | succ n ih =>
    intro a d s st
    rw [go_succ]
    cases decide1 c a (s.headD okFault) with
    | stop o => intro h w hw; simp at h; subst h; simp at hw
    | retry ra =>
      obtain ⟨q, drew, hq, hq0, hqm⟩ := computeDelay_bounds c b m hv a ra (jit d) (hj d)
      simp only []
      rw [hq]
      intro h w hw
      simp only [List.mem_cons] at h
      rcases h with rfl | h
      · simp at hw; subst hw; exact ⟨q, rfl, hq0, hqm⟩
      · exact ih (a + 1) _ s.tail st h w hw

/-- how the outcome is explained by what the last transmission met -/
def explains (c : Cfg) (f : Fault) : Outcome → Prop
  | .resp code => ∃ ra, f = .status code ra ∧ c.retryable.contains code = false
  | .transient code x => ∃ ra, f = .status code ra ∧ parseRA ra = x ∧ c.retryable.contains code = true
  | .raised .connectErr => f = .connectErr
  | .raised .timeout => f = .timeout
  | .raised .disconnect => f = .disconnect
  | .raised .otherProto => f = .otherProto
  | .raised .overflow => False

theorem decide1_stop (c : Cfg) (attempt : Nat) (f : Fault) (o : Outcome)
    (h : decide1 c attempt f = .stop o) : explains c f o := by
  cases f with
  | otherProto => simp [decide1] at h; subst h; simp [explains]
  | disconnect =>
    simp only [decide1] at h; split at h
    · cases h; simp [explains]
    · cases h
  | connectErr =>
    simp only [decide1] at h; split at h
    · cases h; simp [explains]
    · cases h
  | timeout =>
    simp only [decide1] at h; split at h
    · cases h; simp [explains]
    · cases h
  | status code r =>
    simp only [decide1] at h
    split at h
    · cases h; exact ⟨r, rfl, by simp_all⟩
    · split at h
      · cases h; exact ⟨r, rfl, rfl, by simp_all⟩
      · cases h

/-- with `fuel` = iterations left in `range(max_retries + 1)`: the run is non-empty, its last transmission is not
    followed by a sleep, and the outcome is explained by what that transmission met (never `OverflowError`, never
    the defensive `HttpTransientError(0)`) -/
theorem go_last (c : Cfg) (b m : Rat) (hv : Valid c b m) (jit : Nat → Rat) (hj : ∀ n, 0 ≤ jit n) (fuel : Nat) :
    ∀ (attempt draws : Nat) (script : List Fault), (fuel : Int) + (attempt : Int) = c.maxRetries + 1 → 1 ≤ fuel →
      ∃ st, (go c jit fuel attempt draws script).steps.getLast? = some st ∧ st.slept = none ∧
        explains c st.fault (go c jit fuel attempt draws script).outcome := by
  induction fuel with
  | zero => intro a d s _ h; omega
  | succ n ih =>
    intro a d s hinv _
    rw [go_succ]
    cases hd : decide1 c a (s.headD okFault) with
    | stop o => exact ⟨_, rfl, rfl, decide1_stop c a _ o hd⟩
    | retry ra =>
      obtain ⟨q, drew, hq, _, _⟩ := computeDelay_bounds c b m hv a ra (jit d) (hj d)
      simp only []
      rw [hq]
      have hl := (decide1_retry c a _ ra hd).2
      simp only [lastAttempt, decide_eq_false_iff_not] at hl
      have hn : 1 ≤ n := by omega
      obtain ⟨st, h1, h2, h3⟩ := ih (a + 1) (if drew then d + 1 else d) s.tail (by omega) hn
      refine ⟨st, ?_, h2, h3⟩
      simp only []
      cases hs : (go c jit n (a + 1) (if drew then d + 1 else d) s.tail).steps with
      | nil => rw [hs] at h1; simp at h1
      | cons y ys => rw [hs] at h1; rw [List.getLast?_cons_cons]; exact h1

/-! ### call sites -/

theorem post1_plain_length (cfg : Option Cfg) (jit : Nat → Rat) (d : Nat) (s : List Fault) :
    (post1 cfg false jit d s).steps.length = 1 := by
  cases cfg <;> simp [post1]

theorem post1_none_length (retried : Bool) (jit : Nat → Rat) (d : Nat) (s : List Fault) :
    (post1 none retried jit d s).steps.length = 1 := by
  cases retried <;> simp [post1]

theorem post1_plain_resp (cfg : Option Cfg) (jit : Nat → Rat) (d : Nat) (s : List Fault) (code : Nat)
    (h : (post1 cfg false jit d s).outcome = .resp code) :
    ∃ ra, (post1 cfg false jit d s).steps = [⟨.status code ra, none⟩] := by
  have hp : post1 cfg false jit d s = ⟨[⟨s.headD okFault, none⟩], plainOutcome (s.headD okFault), d⟩ := by
    cases cfg <;> rfl
  rw [hp] at h ⊢
  cases hf : s.headD okFault with
  | status c ra => rw [hf] at h; simp [plainOutcome] at h; subst h; exact ⟨ra, rfl⟩
  | connectErr => rw [hf] at h; simp [plainOutcome] at h
  | timeout => rw [hf] at h; simp [plainOutcome] at h
  | disconnect => rw [hf] at h; simp [plainOutcome] at h
  | otherProto => rw [hf] at h; simp [plainOutcome] at h

theorem runPosts_cons (cfg : Option Cfg) (jit : Nat → Rat) (extra extOk : Bool) (p : PostSite) (ps : List PostSite)
    (last : Option Nat) (d : Nat) (s : List Fault) :
    runPosts cfg jit extra extOk (p :: ps) last d s =
      if guardHolds p.guard last extra then
        if p.externalizeFirst && !extOk then ⟨[], failEnding p .externalizeFailed, d⟩
        else
          match respCode (post1 cfg p.retried jit d s).outcome with
          | some code =>
            ⟨(post1 cfg p.retried jit d s).steps ::
              (runPosts cfg jit extra extOk ps (some code) (post1 cfg p.retried jit d s).draws
                (s.drop (post1 cfg p.retried jit d s).steps.length)).rounds,
             (runPosts cfg jit extra extOk ps (some code) (post1 cfg p.retried jit d s).draws
                (s.drop (post1 cfg p.retried jit d s).steps.length)).ending,
             (runPosts cfg jit extra extOk ps (some code) (post1 cfg p.retried jit d s).draws
                (s.drop (post1 cfg p.retried jit d s).steps.length)).draws⟩
          | none => ⟨[(post1 cfg p.retried jit d s).steps], failEnding p (.failed (post1 cfg p.retried jit d s).outcome),
                     (post1 cfg p.retried jit d s).draws⟩
      else runPosts cfg jit extra extOk ps last d s := by
  rfl

/-- when every call site goes through `_post_with_retry`, every round of a client method is a run of the retry loop -/
theorem runPosts_rounds (c : Cfg) (jit : Nat → Rat) (extra extOk : Bool) :
    ∀ (prog : List PostSite) (last : Option Nat) (d : Nat) (s : List Fault), (∀ p ∈ prog, p.retried = true) →
      ∀ round ∈ (runPosts (some c) jit extra extOk prog last d s).rounds, ∃ d' s', round = (run c jit d' s').steps := by
  intro prog
  induction prog with
  | nil => intro last d s _ round h; simp [runPosts] at h
  | cons p ps ih =>
    intro last d s hall round
    have hp : p.retried = true := hall p (by simp)
    have hps : ∀ q ∈ ps, q.retried = true := fun q hq => hall q (by simp [hq])
    have hpost : post1 (some c) p.retried jit d s = run c jit d s := by rw [hp]; rfl
    rw [runPosts_cons, hpost]
    by_cases hg : guardHolds p.guard last extra = true
    · rw [if_pos hg]
      by_cases he : (p.externalizeFirst && !extOk) = true
      · rw [if_pos he]; intro h; simp at h
      · rw [if_neg he]
        cases hrc : respCode (run c jit d s).outcome with
        | none =>
          intro h
          dsimp only at h
          simp only [List.mem_cons, List.not_mem_nil, or_false] at h
          exact ⟨d, s, h⟩
        | some code =>
          intro h
          dsimp only at h
          simp only [List.mem_cons] at h
          rcases h with h | h
          · exact ⟨d, s, h⟩
          · exact ih _ _ _ hps round h
    · rw [if_neg hg]
      exact ih _ _ _ hps round

theorem runPosts_rounds_length (cfg : Option Cfg) (jit : Nat → Rat) (extra extOk : Bool) :
    ∀ (prog : List PostSite) (last : Option Nat) (d : Nat) (s : List Fault),
      (runPosts cfg jit extra extOk prog last d s).rounds.length ≤ prog.length := by
  intro prog
  induction prog with
  | nil => intro last d s; simp [runPosts]
  | cons p ps ih =>
    intro last d s
    rw [runPosts_cons]
    by_cases hg : guardHolds p.guard last extra = true
    · rw [if_pos hg]
      by_cases he : (p.externalizeFirst && !extOk) = true
      · rw [if_pos he]; simp
      · rw [if_neg he]
        cases hrc : respCode (post1 cfg p.retried jit d s).outcome with
        | none => simp
        | some code =>
          have := ih (some code) (post1 cfg p.retried jit d s).draws (s.drop (post1 cfg p.retried jit d s).steps.length)
          dsimp only
          simp only [List.length_cons]; omega
    · rw [if_neg hg]
      have := ih last d s
      simp only [List.length_cons]; omega

end Aux

/-! ## Obligations -/

/-- the default configuration of `HttpRetryConfig` -/
def defaultCfg : Cfg :=
  { maxRetries := defaultMaxRetries,
    backoffBase := .fin ((defaultBackoffBase.1 : Rat) / (defaultBackoffBase.2 : Rat)),
    backoffMax := .fin ((defaultBackoffMax.1 : Rat) / (defaultBackoffMax.2 : Rat)),
    retryable := defaultRetryable,
    retryOnConn := defaultRetryOnConnectionError,
    respectRA := defaultRespectRetryAfter }

/-- the source has the shapes the model transliterates and the proofs are about: validation rejects NaN / inf /
    negatives, the exponent is clamped below the float range, an infinite ceiling is not jittered, and the loop,
    the wrapper, the header parser and every client call site were recognised by the extractor -/
theorem C38_shapes :
    maxRetriesCheckIsLtZero = true ∧ baseCheck = .finiteNonneg ∧ maxCheck = .finiteNonneg ∧
    validationOrder = ["max_retries", "backoff_base", "backoff_max"] ∧
    (∃ k, expClamp = some k ∧ k < 1024) ∧ jitterGuard = true ∧ delayRecognised = true ∧
    loopRecognised = true ∧ postWrapperRecognised = true ∧ parseRetryAfterRecognised = true ∧
    exceptClauses = [["RemoteProtocolError"], ["ConnectError", "TimeoutException"]] ∧
    disconnectMarker = "without sending a response" ∧ sitesRecognised = true ∧
    defaultSetIsDefaultRetryable = true := by
  refine ⟨rfl, rfl, rfl, rfl, ⟨1023, rfl, by decide⟩, rfl, rfl, rfl, rfl, rfl, rfl, rfl, rfl, rfl⟩

/-- `HttpRetryConfig.__post_init__` accepts exactly: `max_retries ≥ 0` and both bounds finite numbers `≥ 0` -/
theorem C38_validate (c : Cfg) :
    validate c = none ↔
      0 ≤ c.maxRetries ∧ ∃ b m : Rat, c.backoffBase = .fin b ∧ 0 ≤ b ∧ c.backoffMax = .fin m ∧ 0 ≤ m := by
  rw [Aux.validate_none]
  constructor
  · rintro ⟨b, m, hv⟩; exact ⟨hv.retries, b, m, hv.base, hv.baseNonneg, hv.max, hv.maxNonneg⟩
  · rintro ⟨h0, b, m, h1, h2, h3, h4⟩; exact ⟨b, m, ⟨h0, h1, h2, h3, h4⟩⟩

/-- the defaults are an accepted configuration (the theorems below are not vacuous for it) -/
theorem C38_default_valid : validate defaultCfg = none := by decide +kernel

/-- `_compute_delay` returns a number in `[0, backoff_max]` — for every attempt number (however large), every parsed
    `Retry-After` (NaN, ±inf, negative, huge) and every jitter draw `≥ 0`; it never raises -/
theorem C38_delay (c : Cfg) (hv : validate c = none) (attempt : Nat) (ra : Option F) (r : Rat) (hr : 0 ≤ r) :
    ∃ (q : Rat) (drew : Bool), computeDelay c attempt ra r = .ok (.fin q, drew) ∧ 0 ≤ q ∧ q ≤ finVal c.backoffMax := by
  obtain ⟨b, m, hv⟩ := (Aux.validate_none c).1 hv
  obtain ⟨q, drew, h1, h2, h3⟩ := Aux.computeDelay_bounds c b m hv attempt ra r hr
  exact ⟨q, drew, h1, h2, by rw [hv.max]; exact h3⟩

/-- C38_count: the request is transmitted at most `max_retries + 1` times (any configuration, any script) -/
theorem C38_count (c : Cfg) (jit : Nat → Rat) (draws : Nat) (script : List Fault) :
    Spec.Bounded (policy c) ((run c jit draws script).steps.map toSend) := by
  have := Aux.go_length c jit (c.maxRetries + 1).toNat 0 draws script
  simp only [Spec.Bounded, policy, List.length_map, run]
  omega

/-- C38_reason: a transmission is followed by another one only if it met a retryable status, a connection error,
    a timeout or a disconnect before any response byte (the last three only when `retry_on_connection_error`) -/
theorem C38_reason (c : Cfg) (jit : Nat → Rat) (draws : Nat) (script : List Fault) :
    Spec.ResendsJustified (policy c) ((run c jit draws script).steps.map toSend) := by
  intro i s hi hs
  simp only [List.length_map] at hi
  rw [List.getElem?_map] at hs
  cases hst : (run c jit draws script).steps[i]? with
  | none => rw [hst] at hs; simp at hs
  | some st =>
    rw [hst] at hs; simp at hs; subst hs
    exact Aux.retryReason_spec c _ (Aux.go_justified c jit _ 0 draws script i st hi hst).1

/-- C38_wait: every sleep `d` is a number with `0 ≤ d ≤ backoff_max` -/
theorem C38_wait (c : Cfg) (hv : validate c = none) (jit : Nat → Rat) (hj : ∀ n, 0 ≤ jit n) (draws : Nat)
    (script : List Fault) :
    Spec.WaitsInRange (policy c) ((run c jit draws script).steps.map toSend) := by
  obtain ⟨b, m, hv⟩ := (Aux.validate_none c).1 hv
  intro s hs w hw
  simp only [List.mem_map] at hs
  obtain ⟨st, hst, rfl⟩ := hs
  have := Aux.go_waits c b m hv jit hj _ 0 draws script st hst w hw
  simpa [policy, hv.max, finVal] using this

/-- the loop always transmits at least once; nothing is slept after the last transmission; and the result is the
    one the last transmission explains: the response if its status is not retryable, `HttpTransientError` with that
    status and its parsed `Retry-After` if it is, the transport exception otherwise — never `OverflowError`, never the
    defensive `HttpTransientError(0)` -/
theorem C38_outcome (c : Cfg) (hv : validate c = none) (jit : Nat → Rat) (hj : ∀ n, 0 ≤ jit n) (draws : Nat)
    (script : List Fault) :
    ∃ st, (run c jit draws script).steps.getLast? = some st ∧ st.slept = none ∧
      Aux.explains c st.fault (run c jit draws script).outcome := by
  obtain ⟨b, m, hv⟩ := (Aux.validate_none c).1 hv
  have h0 := hv.retries
  exact Aux.go_last c b m hv jit hj _ 0 draws script (by omega) (by omega)

/-- the transmissions of a client-method run, as the spec sees them -/
def happenedOf (r : ClientRun) : List Spec.Happened := r.sends.map (fun s => toHappened s.fault)

theorem Aux.respCode_some (o : Outcome) (code : Nat) (h : respCode o = some code) : o = .resp code := by
  cases o <;> simp_all [respCode]

/-- C38_once (exchange): `HttpStreamSession.exchange` POSTs at most twice, and twice only when the first POST was
    answered 413 (the re-send carries the externalized body) — whatever retry configuration the session has -/
theorem C38_once_exchange (cfg : Option Cfg) (jit : Nat → Rat) (extra extOk : Bool) (draws : Nat) (script : List Fault) :
    Spec.AtMostOnceBut413 (happenedOf (runPosts cfg jit extra extOk exchangeProg none draws script)) := by
  have hlen := Aux.post1_plain_length cfg jit draws script
  simp only [happenedOf, ClientRun.sends, exchangeProg, Spec.AtMostOnceBut413, List.length_map]
  rw [Aux.runPosts_cons]
  simp only [guardHolds, if_true, Bool.false_and, Bool.false_eq_true, if_false]
  cases hrc : respCode (post1 cfg false jit draws script).outcome with
  | none =>
    dsimp only
    simp [hlen]
  | some code =>
    obtain ⟨ra, hsteps⟩ := Aux.post1_plain_resp cfg jit draws script code (Aux.respCode_some _ _ hrc)
    dsimp only
    rw [Aux.runPosts_cons]
    have hl := Aux.post1_plain_length cfg jit
    by_cases h413 : code = 413
    · subst h413
      simp only [guardHolds, beq_self_eq_true, if_true, Bool.true_and]
      by_cases hx : extOk = true
      · simp only [hx, Bool.not_true, Bool.false_eq_true, if_false]
        cases hrc2 : respCode (post1 cfg false jit (post1 cfg false jit draws script).draws
            (script.drop (post1 cfg false jit draws script).steps.length)).outcome with
        | none =>
          dsimp only
          simp [hl, hsteps, toHappened]
        | some c2 =>
          dsimp only
          simp [runPosts, hl, hsteps, toHappened]
      · simp only [hx]
        simp [hlen]
    · have : (some code == some 413) = false := by simp [h413]
      simp only [guardHolds, this, Bool.false_eq_true, if_false]
      simp [runPosts, hlen]

/-- C38_once (cancel): `HttpStreamSession.cancel` POSTs at most once -/
theorem C38_once_cancel (cfg : Option Cfg) (jit : Nat → Rat) (extra extOk : Bool) (draws : Nat) (script : List Fault) :
    Spec.AtMostOnce (happenedOf (runPosts cfg jit extra extOk cancelProg none draws script)) := by
  have hlen := Aux.post1_plain_length cfg jit draws script
  simp only [happenedOf, ClientRun.sends, cancelProg, Spec.AtMostOnce, List.length_map]
  rw [Aux.runPosts_cons]
  simp only [guardHolds, if_true, Bool.false_and, Bool.false_eq_true, if_false]
  cases hrc : respCode (post1 cfg false jit draws script).outcome with
  | none => dsimp only; simp [hlen]
  | some code => dsimp only; simp [runPosts, hlen]

/-- the unary, stream-init and continuation call sites POST only through `_post_with_retry`; exchange and cancel only
    through the plain client; no call site is inside a loop -/
theorem C38_sites :
    (∀ prog ∈ [unaryProg, initProg, continuationProg], ∀ p ∈ prog, p.retried = true ∧ p.inLoop = false) ∧
    (∀ prog ∈ [exchangeProg, cancelProg], ∀ p ∈ prog, p.retried = false ∧ p.inLoop = false) := by
  decide

/-- a unary call / stream init / continuation makes at most three rounds (first try, once more after a 415 with a
    fresh codec list, once more after a 413 with the externalized body), and every round is a run of the retry loop:
    bounded, every re-send justified, every wait in `[0, backoff_max]` -/
theorem C38_client (c : Cfg) (hv : validate c = none) (jit : Nat → Rat) (hj : ∀ n, 0 ≤ jit n) (extra extOk : Bool)
    (prog : List PostSite) (hp : prog ∈ [unaryProg, initProg, continuationProg]) (draws : Nat) (script : List Fault) :
    (runPosts (some c) jit extra extOk prog none draws script).rounds.length ≤ 3 ∧
    ∀ round ∈ (runPosts (some c) jit extra extOk prog none draws script).rounds,
      Spec.Bounded (policy c) (round.map toSend) ∧ Spec.ResendsJustified (policy c) (round.map toSend) ∧
      Spec.WaitsInRange (policy c) (round.map toSend) := by
  have hall : ∀ p ∈ prog, p.retried = true := fun p hpp => (C38_sites.1 prog hp p hpp).1
  have hlen : prog.length ≤ 3 := by
    simp only [List.mem_cons, List.not_mem_nil, or_false] at hp
    rcases hp with rfl | rfl | rfl <;> decide
  refine ⟨Nat.le_trans (Aux.runPosts_rounds_length _ jit extra extOk prog none draws script) hlen, ?_⟩
  intro round hr
  obtain ⟨d', s', rfl⟩ := Aux.runPosts_rounds c jit extra extOk prog none draws script hall round hr
  exact ⟨C38_count c jit d' s', C38_reason c jit d' s', C38_wait c hv jit hj d' s'⟩

/-- without a retry configuration no call site ever re-sends: every round is a single transmission -/
theorem C38_client_noretry (jit : Nat → Rat) (extra extOk : Bool) :
    ∀ (prog : List PostSite) (last : Option Nat) (draws : Nat) (script : List Fault),
      ∀ round ∈ (runPosts none jit extra extOk prog last draws script).rounds, round.length = 1 := by
  intro prog
  induction prog with
  | nil => intro last d s round h; simp [runPosts] at h
  | cons p ps ih =>
    intro last d s round
    rw [Aux.runPosts_cons]
    by_cases hg : guardHolds p.guard last extra = true
    · rw [if_pos hg]
      by_cases he : (p.externalizeFirst && !extOk) = true
      · rw [if_pos he]; intro h; simp at h
      · rw [if_neg he]
        cases hrc : respCode (post1 none p.retried jit d s).outcome with
        | none =>
          intro h
          dsimp only at h
          simp only [List.mem_cons, List.not_mem_nil, or_false] at h
          rw [h]; exact Aux.post1_none_length _ jit d s
        | some code =>
          intro h
          dsimp only at h
          simp only [List.mem_cons] at h
          rcases h with h | h
          · rw [h]; exact Aux.post1_none_length _ jit d s
          · exact ih _ _ _ round h
    · rw [if_neg hg]
      exact ih _ _ _ round

theorem Aux.cancelPosts_finished (ops : List SessOp) :
    ∀ t : Bool, cancelPosts .finishedOrNoToken ⟨true, t⟩ ops = 0 := by
  induction ops with
  | nil => intro t; rfl
  | cons op ops ih =>
    intro t
    cases op with
    | cancel => simp [cancelPosts, cancelStep, ih]
    | storeToken => simp [cancelPosts, ih]

/-- C38_once (cancel, across calls): however `cancel()` calls are interleaved with operations that store a fresh state
    token — re-entrant calls from `on_log` included — one session POSTs at most one cancel request -/
theorem C38_cancel_idempotent (s : Sess) (ops : List SessOp) : cancelPosts cancelGuard s ops ≤ 1 := by
  have hg : cancelGuard = .finishedOrNoToken := by rfl
  rw [hg]
  induction ops generalizing s with
  | nil => simp [cancelPosts]
  | cons op ops ih =>
    cases op with
    | cancel =>
      have h0 := Aux.cancelPosts_finished ops false
      simp only [cancelPosts, cancelStep]
      rw [h0]
      split <;> omega
    | storeToken => exact ih ⟨s.finished, true⟩

/-- non-vacuity: the hypotheses of `C38_wait` / `C38_outcome` / `C38_client` are satisfiable (default configuration,
    constant jitter 1/2), and a run of it really re-sends and sleeps -/
example : validate defaultCfg = none ∧ (∀ n : Nat, (0 : Rat) ≤ (fun _ => (1 : Rat) / 2) n) ∧
    ((run defaultCfg (fun _ => (1 : Rat) / 2) 0 [.status 503 (.secs .nan), .connectErr, .status 200 .absent]).steps.map
        (fun s => s.slept)) = [some (.fin (1 / 4)), some (.fin (1 / 2)), none] :=
  ⟨C38_default_valid, fun _ => (by decide +kernel : (0 : Rat) ≤ 1 / 2), by decide +kernel⟩

end VgiVerif.C38
