import VgiVerif.Model.C22
import VgiVerif.Spec.C22
import VgiVerif.Lemmas.Regex
import VgiVerif.Lemmas.PyStr
import VgiVerif.Lemmas.Base64
/-
C22 — proxy-proof verification equals the normative decision table.
Helper lemmas are in `namespace Aux`; the property theorems (obligations) are at the bottom.
-/
set_option linter.unusedSimpArgs false
namespace VgiVerif.C22
open VgiVerif.Regex VgiVerif.PyStr VgiVerif.PP

namespace Aux

theorem mem_urlsafe (c : Char) :
    Cls.mem ⟨false, [(65, 90), (97, 122), (48, 57), (95, 95), (45, 45)]⟩ c = Spec.isUrlSafe c := by
  rw [Bool.eq_iff_iff]
  simp only [Cls.mem, Spec.isUrlSafe, List.any_cons, List.any_nil, Bool.or_false, bne_iff_ne, ne_eq,
    Bool.not_eq_false, Bool.or_eq_true, Bool.and_eq_true, decide_eq_true_eq]
  omega

theorem mem_digit (c : Char) : Cls.mem ⟨false, [(48, 57)]⟩ c = Spec.isDigit c := by
  rw [Bool.eq_iff_iff]
  simp only [Cls.mem, Spec.isDigit, List.any_cons, List.any_nil, Bool.or_false, bne_iff_ne, ne_eq,
    Bool.not_eq_false, Bool.or_eq_true, Bool.and_eq_true, decide_eq_true_eq]

theorem mem_origin (c : Char) :
    Cls.mem ⟨false, [(65, 90), (97, 122), (48, 57), (46, 46), (95, 95), (58, 58), (47, 47), (45, 45)]⟩ c
      = Spec.isOriginChar c := by
  rw [Bool.eq_iff_iff]
  simp only [Cls.mem, Spec.isOriginChar, List.any_cons, List.any_nil, Bool.or_false, bne_iff_ne, ne_eq,
    Bool.not_eq_false, Bool.or_eq_true, Bool.and_eq_true, decide_eq_true_eq]
  omega

theorem applyRe_bigZ (p : Pat) (h : p.endAnchor = .bigZ) (s : Str) : applyRe p s = true ↔ Lang p.body s := by
  unfold applyRe
  rw [if_pos (by rfl)]
  exact pyMatch_bigZ p h s

theorem kid_spec' (s : Str) : applyRe Gen.C22.kidRe s = Spec.kidOk s := by
  rw [Bool.eq_iff_iff, applyRe_bigZ _ (by rfl)]
  show Lang (.rep _ 1 64) s ↔ _
  rw [lang_rep]
  simp only [Spec.kidOk, Bool.and_eq_true, decide_eq_true_eq, List.all_eq_true, mem_urlsafe]
  constructor
  · rintro ⟨a, b, c⟩; exact ⟨⟨a, b⟩, c⟩
  · rintro ⟨⟨a, b⟩, c⟩; exact ⟨a, b, c⟩


def Sorted (es : List (Str × Int)) : Prop := es.Pairwise (fun a b => a.2 ≤ b.2)

theorem sweep_eq_live (t : Int) (es : List (Str × Int)) (h : Sorted es) : sweep t es = Spec.live t es := by
  induction es with
  | nil => rfl
  | cons x r ih =>
    obtain ⟨n, e⟩ := x
    have hr : Sorted r := (List.pairwise_cons.1 h).2
    have hx := (List.pairwise_cons.1 h).1
    simp only [sweep]
    have hcmp : Gen.C22.liveCmp.eval e t = decide (e > t) := rfl
    rw [hcmp]
    by_cases he : e > t
    · simp only [he, decide_true, if_true, Spec.live]
      symm
      rw [List.filter_eq_self]
      intro a ha
      simp only [List.mem_cons] at ha
      rcases ha with rfl | ha
      · simpa using he
      · have := hx a ha
        simp only [decide_eq_true_eq]
        simp only at this
        omega
    · simp only [he, decide_false, Bool.false_eq_true, if_false]
      rw [ih hr]
      simp [Spec.live, he]

theorem evict_eq_drop (cap : Nat) (es : List (Str × Int)) : evict cap es = es.drop (es.length + 1 - cap) := by
  induction es with
  | nil => simp [evict]
  | cons x r ih =>
    simp only [evict]
    have hcmp : ∀ a b : Int, Gen.C22.evictCmp.eval a b = decide (a ≥ b) := fun _ _ => rfl
    rw [hcmp]
    by_cases h : ((r.length + 1 : Nat) : Int) ≥ (cap : Int)
    · simp only [h, decide_true, if_true, ih, List.length_cons]
      have : r.length + 1 + 1 - cap = (r.length + 1 - cap) + 1 := by omega
      rw [this, List.drop_succ_cons]
    · simp only [h, decide_false, Bool.false_eq_true, if_false, List.length_cons]
      have : r.length + 1 + 1 - cap = 0 := by omega
      rw [this, List.drop_zero]


/-- cache invariant at cache time `t`: expiries are non-decreasing and none lies beyond `t + ttl` -/
def Inv (c : NonceState) (t : Int) : Prop := Sorted c.entries ∧ ∀ e ∈ c.entries, e.2 ≤ t + c.ttl

def InvO : Option NonceState → Int → Prop
  | none, _ => True
  | some c, t => Inv c t

theorem InvO_mono {c : Option NonceState} {t t' : Int} (h : InvO c t) (ht : t ≤ t') : InvO c t' := by
  cases c with
  | none => trivial
  | some c => exact ⟨h.1, fun e he => by have := h.2 e he; omega⟩

theorem checkAndAdd_spec (c : NonceState) (t : Int) (n : Str) (h : Sorted c.entries) :
    checkAndAdd c t n =
      if Spec.seen c t n then (Spec.purge c t, false) else (Spec.remember c t n, true) := by
  unfold checkAndAdd Spec.seen Spec.purge Spec.remember
  simp only [sweep_eq_live t c.entries h, evict_eq_drop]

theorem live_sublist (t : Int) (es : List (Str × Int)) : (Spec.live t es).Sublist es := List.filter_sublist

theorem Inv_step (c : NonceState) (t t' : Int) (n : Str) (h : Inv c t) (ht : t ≤ t') :
    Inv (checkAndAdd c t' n).1 t' := by
  rw [checkAndAdd_spec c t' n h.1]
  split
  · refine ⟨List.Pairwise.sublist (live_sublist _ _) h.1, ?_⟩
    intro e he
    have := h.2 e ((live_sublist _ _).subset he)
    simp only [Spec.purge] at this ⊢
    omega
  · simp only [Spec.remember]
    have hsub : ((Spec.live t' c.entries).drop ((Spec.live t' c.entries).length + 1 - c.capacity)).Sublist c.entries :=
      (List.drop_sublist _ _).trans (live_sublist _ _)
    refine ⟨?_, ?_⟩
    · unfold Sorted
      rw [List.pairwise_append]
      refine ⟨List.Pairwise.sublist hsub h.1, by simp, ?_⟩
      intro a ha b hb
      simp only [List.mem_singleton] at hb
      subst hb
      have := h.2 a (hsub.subset ha)
      simp only
      omega
    · intro e he
      simp only [List.mem_append, List.mem_singleton] at he
      rcases he with he | rfl
      · have := h.2 e (hsub.subset he); show e.2 ≤ t' + c.ttl; omega
      · show t' + c.ttl ≤ t' + c.ttl; omega


theorem ts_spec' (s : Str) : applyRe Gen.C22.tsRe s = Spec.tsOk s := by
  rw [Bool.eq_iff_iff, applyRe_bigZ _ (by rfl)]
  show Lang (.rep _ 1 20) s ↔ _
  rw [lang_rep]
  simp only [Spec.tsOk, Bool.and_eq_true, decide_eq_true_eq, List.all_eq_true, mem_digit]
  constructor
  · rintro ⟨a, b, c⟩; exact ⟨⟨a, b⟩, c⟩
  · rintro ⟨⟨a, b⟩, c⟩; exact ⟨a, b, c⟩

theorem nonce_spec' (s : Str) : applyRe Gen.C22.nonceRe s = Spec.nonceOk s := by
  rw [Bool.eq_iff_iff, applyRe_bigZ _ (by rfl)]
  show Lang (.rep _ 22 22) s ↔ _
  rw [lang_rep]
  simp only [Spec.nonceOk, Bool.and_eq_true, decide_eq_true_eq, List.all_eq_true, mem_urlsafe]
  constructor
  · rintro ⟨a, b, c⟩; exact ⟨by omega, c⟩
  · rintro ⟨a, c⟩; exact ⟨by omega, by omega, c⟩

theorem mac_spec' (s : Str) : applyRe Gen.C22.macRe s = Spec.macOk s := by
  rw [Bool.eq_iff_iff, applyRe_bigZ _ (by rfl)]
  show Lang (.rep _ 43 43) s ↔ _
  rw [lang_rep]
  simp only [Spec.macOk, Bool.and_eq_true, decide_eq_true_eq, List.all_eq_true, mem_urlsafe]
  constructor
  · rintro ⟨a, b, c⟩; exact ⟨by omega, c⟩
  · rintro ⟨a, c⟩; exact ⟨by omega, by omega, c⟩

theorem canonical_eq (kid ts nonce origin : Str) :
    canonicalString kid ts nonce origin = Spec.canonical kid ts nonce origin := by
  have hp : Gen.C22.domainPrefix = utf8 "vgi.proxy.proof.v1".toList := by decide
  simp only [canonicalString, joinBytes, Spec.canonical, hp, List.append_assoc]

theorem val_of_urlsafe (c : Char) (h : Spec.isUrlSafe c = true) : ∃ v, Base64.val c = some v := by
  simp only [Spec.isUrlSafe, decide_eq_true_eq] at h
  unfold Base64.val
  simp only
  split
  · exact ⟨_, rfl⟩
  · split
    · exact ⟨_, rfl⟩
    · split
      · exact ⟨_, rfl⟩
      · split
        · exact ⟨_, rfl⟩
        · split
          · exact ⟨_, rfl⟩
          · omega

theorem vals_of_urlsafe (s : Str) (h : ∀ c ∈ s, Spec.isUrlSafe c = true) : ∃ vs, Base64.vals s = some vs := by
  induction s with
  | nil => exact ⟨[], rfl⟩
  | cons c cs ih =>
    obtain ⟨v, hv⟩ := val_of_urlsafe c (h c (by simp))
    obtain ⟨vs, hvs⟩ := ih (fun x hx => h x (by simp [hx]))
    exact ⟨v :: vs, by simp [Base64.vals, hv, hvs]⟩

theorem decode_of_macOk (mac : Str) (h : Spec.macOk mac = true) : ∃ b, Base64.decode mac = some b := by
  simp only [Spec.macOk, Bool.and_eq_true, decide_eq_true_eq, List.all_eq_true] at h
  obtain ⟨vs, hvs⟩ := vals_of_urlsafe mac h.2
  unfold Base64.decode
  rw [if_neg (by rw [h.1]; decide), hvs]
  exact ⟨_, rfl⟩


theorem urlsafe_of_digit (c : Char) (h : Spec.isDigit c = true) : Spec.isUrlSafe c = true := by
  simp only [Spec.isDigit, Spec.isUrlSafe, decide_eq_true_eq] at *
  omega

/-- when the five fields pass steps 3 and 4, every character of the value is `.` or URL-safe -/
theorem chars_of_ok (v f0 kid ts nonce mac : Str) (hs : splitOn '.' v = [f0, kid, ts, nonce, mac])
    (h0 : f0 = Spec.v1) (hk : Spec.kidOk kid = true) (ht : Spec.tsOk ts = true) (hn : Spec.nonceOk nonce = true)
    (hm : Spec.macOk mac = true) : ∀ c ∈ v, c = '.' ∨ Spec.isUrlSafe c = true := by
  have hj := join_splitOn '.' v
  rw [hs] at hj
  simp only [Spec.kidOk, Spec.tsOk, Spec.nonceOk, Spec.macOk, Bool.and_eq_true, List.all_eq_true] at hk ht hn hm
  intro c hc
  rw [← hj] at hc
  simp only [join, List.mem_append, List.mem_cons, List.not_mem_nil, or_false] at hc
  rcases hc with ((hc | rfl) | (hc | rfl) | (hc | rfl) | (hc | rfl) | hc)
  · subst h0
    simp only [Spec.v1, List.mem_cons, List.not_mem_nil, or_false] at hc
    rcases hc with rfl | rfl <;> right <;> decide
  · left; rfl
  · right; exact hk.2 c hc
  · left; rfl
  · right; exact urlsafe_of_digit c (ht.2 c hc)
  · left; rfl
  · right; exact hn.2 c hc
  · left; rfl
  · right; exact hm.2 c hc

theorem utf8Size_ascii (c : Char) (h : c.toNat < 128) : c.utf8Size = 1 := by
  rw [Char.utf8Size_eq_one_iff, UInt32.le_iff_toNat_le]
  show c.toNat ≤ 127
  omega

theorem byteLen_cons (c : Char) (s : Str) : Spec.byteLen (c :: s) = c.utf8Size + Spec.byteLen s := by
  simp [Spec.byteLen, utf8]

theorem length_le_byteLen (s : Str) : s.length ≤ Spec.byteLen s := by
  induction s with
  | nil => simp [Spec.byteLen, utf8]
  | cons c cs ih =>
    rw [byteLen_cons]
    have := Char.utf8Size_pos c
    simp only [List.length_cons]
    omega

theorem byteLen_ascii (s : Str) (h : ∀ c ∈ s, c.toNat < 128) : Spec.byteLen s = s.length := by
  induction s with
  | nil => simp [Spec.byteLen, utf8]
  | cons c cs ih =>
    rw [byteLen_cons, utf8Size_ascii c (h c (by simp)), ih (fun x hx => h x (by simp [hx]))]
    simp only [List.length_cons]
    omega

theorem ascii_of_dot_or_urlsafe (c : Char) (h : c = '.' ∨ Spec.isUrlSafe c = true) : c.toNat < 128 ∧ c ≠ ',' := by
  rcases h with rfl | h
  · decide
  · simp only [Spec.isUrlSafe, decide_eq_true_eq] at h
    refine ⟨by omega, ?_⟩
    rintro rfl
    simp at h


theorem gen_facts :
    Gen.C22.lenCmp = .gt ∧ Gen.C22.maxHeaderBytes = 512 ∧ Gen.C22.fieldCountCmp = .ne ∧ Gen.C22.fieldCount = 5 ∧
    Gen.C22.version = Spec.v1 ∧ Gen.C22.expiredCmp = .gt ∧ Gen.C22.notYetCmp = .gt ∧
    Gen.C22.absentTest = .isNone ∧ Gen.C22.commaGuard = true := by
  refine ⟨rfl, rfl, rfl, rfl, by decide, rfl, rfl, rfl, rfl⟩

/-- the part of both functions after the four charset checks -/
theorem tail_eq (hmac : Hmac) (cfg : Config) (kid ts nonce mac : Str) (now : Int) (cache : Option NonceState)
    (mono : Int) (hinv : InvO cache mono) (hm : Spec.macOk mac = true) :
    (match cfg.keys.lookup kid with
      | none => (Outcome.done (.err .unknownKid), cache)
      | some (secret, label) =>
        let age : Int := now - (decVal ts : Int)
        if Gen.C22.expiredCmp.eval age cfg.skew then (.done (.err .expired), cache)
        else if Gen.C22.notYetCmp.eval (-age) cfg.skew then (.done (.err .notYetValid), cache)
        else
          let expected := hmac secret (canonicalString kid ts nonce cfg.origin)
          match Base64.decode mac with
          | none => (.raised "binascii.Error", cache)
          | some received =>
            if received ≠ expected then (.done (.err .badMac), cache)
            else match (generalizing := false) cache with
              | none => (.done (.ok (okClaims label kid cfg.origin)), none)
              | some c =>
                let (c', fresh) := checkAndAdd c mono nonce
                if !fresh then (.done (.err .replayed), some c')
                else (.done (.ok (okClaims label kid cfg.origin)), some c'))
    =
    (let r : Result × Option NonceState :=
      (match cfg.keys.lookup kid with
      | none => (.err .unknownKid, cache)
      | some (secret, label) =>
        if now - (decVal ts : Int) > cfg.skew then (.err .expired, cache)
        else if (decVal ts : Int) - now > cfg.skew then (.err .notYetValid, cache)
        else if Base64.decode mac ≠ some (hmac secret (Spec.canonical kid ts nonce cfg.origin)) then
          (.err .badMac, cache)
        else match (generalizing := false) cache with
          | none => (.ok (Spec.okClaims label kid cfg.origin), none)
          | some c =>
            if Spec.seen c mono nonce then (.err .replayed, some (Spec.purge c mono))
            else (.ok (Spec.okClaims label kid cfg.origin), some (Spec.remember c mono nonce)))
     (Outcome.done r.1, r.2)) := by
  cases hl : cfg.keys.lookup kid with
  | none => rfl
  | some sl =>
    obtain ⟨secret, label⟩ := sl
    simp only [gen_facts.2.2.2.2.2.1, gen_facts.2.2.2.2.2.2.1, Cmp.eval, decide_eq_true_eq]
    by_cases h1 : now - (decVal ts : Int) > cfg.skew
    · simp only [h1, if_true]
    · simp only [h1, if_false]
      by_cases h2 : (decVal ts : Int) - now > cfg.skew
      · have : -(now - (decVal ts : Int)) > cfg.skew := by omega
        simp only [h2, this, if_true]
      · have : ¬ (-(now - (decVal ts : Int)) > cfg.skew) := by omega
        simp only [h2, this, if_false]
        obtain ⟨b, hb⟩ := decode_of_macOk mac hm
        rw [hb, canonical_eq]
        simp only [ne_eq, Option.some.injEq]
        by_cases h3 : b = hmac secret (Spec.canonical kid ts nonce cfg.origin)
        · simp only [h3, not_true_eq_false, if_false]
          cases cache with
          | none => rfl
          | some c =>
            have hs : Sorted c.entries := hinv.1
            simp only [checkAndAdd_spec c mono nonce hs]
            by_cases h4 : Spec.seen c mono nonce = true
            · simp [h4]
            · simp only [Bool.not_eq_true] at h4
              simp [h4, okClaims, Spec.okClaims]
        · simp only [h3, not_false_eq_true, if_true]


theorem verify_eq_table (hmac : Hmac) (cfg : Config) (v : Str) (now : Int) (cache : Option NonceState) (mono : Int)
    (hinv : InvO cache mono) :
    verifyProof hmac cfg v now cache mono =
      (.done (Spec.table hmac cfg [v] now cache mono).1, (Spec.table hmac cfg [v] now cache mono).2) := by
  obtain ⟨g1, g2, g3, g4, g5, -, -, -, -⟩ := gen_facts
  unfold verifyProof Spec.table
  simp only [g1, g2, g3, g4, g5, Cmp.eval, decide_eq_true_eq, kid_spec', ts_spec', nonce_spec', mac_spec']
  have hle := length_le_byteLen v
  by_cases h512 : (v.length : Int) > ((512 : Nat) : Int)
  · have hb : Spec.byteLen v > 512 := by omega
    simp only [h512, if_true, hb, or_true]
  · simp only [h512, if_false]
    rcases hs : splitOn '.' v with _ | ⟨f0, _ | ⟨kid, _ | ⟨ts, _ | ⟨nonce, _ | ⟨mac, _ | ⟨x, r⟩⟩⟩⟩⟩⟩
    · exact absurd hs (splitOn_ne_nil _ _)
    · simp only [List.length_cons, List.length_nil]; split <;> first | omega | simp
    · simp only [List.length_cons, List.length_nil]; split <;> first | omega | simp
    · simp only [List.length_cons, List.length_nil]; split <;> first | omega | simp
    · simp only [List.length_cons, List.length_nil]; split <;> first | omega | simp
    · -- exactly five fields
      have hvne : v ≠ [] := by
        intro hv; subst hv; simp [splitOn] at hs
      simp only [List.length_cons, List.length_nil, Nat.zero_add, Nat.reduceAdd, ne_eq,
        not_true_eq_false, if_false]
      by_cases h0 : f0 = Spec.v1
      · by_cases hk : Spec.kidOk kid = true
        · by_cases ht : Spec.tsOk ts = true
          · by_cases hn : Spec.nonceOk nonce = true
            · by_cases hm : Spec.macOk mac = true
              · have hch := chars_of_ok v f0 kid ts nonce mac hs h0 hk ht hn hm
                have hbl : Spec.byteLen v = v.length :=
                  byteLen_ascii v (fun c hc => (ascii_of_dot_or_urlsafe c (hch c hc)).1)
                have hnb : ¬ (v = [] ∨ Spec.byteLen v > 512) := by
                  rintro (h | h)
                  · exact hvne h
                  · omega
                simp only [h0, hk, ht, hn, hm, hnb, not_true_eq_false, Bool.not_true, Bool.false_eq_true,
                  Bool.and_self, if_false]
                exact tail_eq hmac cfg kid ts nonce mac now cache mono hinv hm
              · simp only [Bool.not_eq_true] at hm
                simp only [h0, hk, ht, hn, hm, Bool.and_false, Bool.and_true, Bool.true_and, Bool.false_and, Bool.not_false, Bool.not_true, not_true_eq_false, not_false_eq_true, if_true, if_false, ite_self, Bool.false_eq_true]
            · simp only [Bool.not_eq_true] at hn
              simp only [h0, hk, ht, hn, Bool.and_false, Bool.and_true, Bool.true_and, Bool.false_and, Bool.not_false, Bool.not_true, not_true_eq_false, not_false_eq_true, if_true, if_false, ite_self, Bool.false_eq_true]
          · simp only [Bool.not_eq_true] at ht
            simp only [h0, hk, ht, Bool.and_false, Bool.and_true, Bool.true_and, Bool.false_and, Bool.not_false, Bool.not_true, not_true_eq_false, not_false_eq_true, if_true, if_false, ite_self, Bool.false_eq_true]
        · simp only [Bool.not_eq_true] at hk
          simp only [h0, hk, Bool.and_false, Bool.and_true, Bool.true_and, Bool.false_and, Bool.not_false, Bool.not_true, not_true_eq_false, not_false_eq_true, if_true, if_false, ite_self, Bool.false_eq_true]
      · simp only [h0, Bool.and_false, Bool.and_true, Bool.true_and, Bool.false_and, Bool.not_false, Bool.not_true, not_true_eq_false, not_false_eq_true, if_true, if_false, ite_self, Bool.false_eq_true]
    · simp only [List.length_cons]
      have : ((r.length + 1 + 1 + 1 + 1 + 1 + 1 : Nat) : Int) ≠ ((5 : Nat) : Int) := by omega
      split <;> simp [this]


/-- a value containing a comma is `malformed` by the table (row 2, 3 or 4, whichever comes first) -/
theorem table_of_comma (hmac : Hmac) (cfg : Config) (v : Str) (now : Int) (cache : Option NonceState) (mono : Int)
    (hc : ',' ∈ v) : Spec.table hmac cfg [v] now cache mono = (.err .malformed, cache) := by
  unfold Spec.table
  simp only
  split
  · rfl
  · rcases hs : splitOn '.' v with _ | ⟨f0, _ | ⟨kid, _ | ⟨ts, _ | ⟨nonce, _ | ⟨mac, _ | ⟨x, r⟩⟩⟩⟩⟩⟩
    · rfl
    · rfl
    · rfl
    · rfl
    · rfl
    · by_cases h0 : f0 = Spec.v1
      · by_cases hk : Spec.kidOk kid = true
        · by_cases ht : Spec.tsOk ts = true
          · by_cases hn : Spec.nonceOk nonce = true
            · by_cases hm : Spec.macOk mac = true
              · exact absurd rfl (ascii_of_dot_or_urlsafe ',' (chars_of_ok v f0 kid ts nonce mac hs h0 hk ht hn hm ',' hc)).2
              · simp only [Bool.not_eq_true] at hm
                simp only [h0, hk, ht, hn, hm, ne_eq, Bool.and_false, Bool.and_true, Bool.true_and, Bool.false_and, Bool.not_false, Bool.not_true, not_true_eq_false, not_false_eq_true, if_true, if_false, ite_self, Bool.false_eq_true]
            · simp only [Bool.not_eq_true] at hn
              simp only [h0, hk, ht, hn, ne_eq, Bool.and_false, Bool.and_true, Bool.true_and, Bool.false_and, Bool.not_false, Bool.not_true, not_true_eq_false, not_false_eq_true, if_true, if_false, ite_self, Bool.false_eq_true]
          · simp only [Bool.not_eq_true] at ht
            simp only [h0, hk, ht, ne_eq, Bool.and_false, Bool.and_true, Bool.true_and, Bool.false_and, Bool.not_false, Bool.not_true, not_true_eq_false, not_false_eq_true, if_true, if_false, ite_self, Bool.false_eq_true]
        · simp only [Bool.not_eq_true] at hk
          simp only [h0, hk, ne_eq, Bool.and_false, Bool.and_true, Bool.true_and, Bool.false_and, Bool.not_false, Bool.not_true, not_true_eq_false, not_false_eq_true, if_true, if_false, ite_self, Bool.false_eq_true]
      · simp only [h0, ne_eq, Bool.and_false, Bool.and_true, Bool.true_and, Bool.false_and, Bool.not_false, Bool.not_true, not_true_eq_false, not_false_eq_true, if_true, if_false, ite_self, Bool.false_eq_true]
    · rfl

theorem join_two_mem (sep : Str) (a b : Str) (r : List Str) (c : Char) (h : c ∈ sep) : c ∈ join sep (a :: b :: r) := by
  simp only [join, List.mem_append]
  exact Or.inl (Or.inr h)


theorem Inv_purge (c : NonceState) (t t' : Int) (n : Str) (h : Inv c t) (ht : t ≤ t')
    (hs : Spec.seen c t' n = true) : Inv (Spec.purge c t') t' := by
  have := Inv_step c t t' n h ht
  rwa [checkAndAdd_spec _ _ _ h.1, if_pos hs] at this

theorem Inv_remember (c : NonceState) (t t' : Int) (n : Str) (h : Inv c t) (ht : t ≤ t')
    (hs : ¬ Spec.seen c t' n = true) : Inv (Spec.remember c t' n) t' := by
  have := Inv_step c t t' n h ht
  rwa [checkAndAdd_spec _ _ _ h.1, if_neg hs] at this

theorem table_inv (hmac : Hmac) (cfg : Config) (vals : List Str) (now : Int) (c : Option NonceState) (t mono : Int)
    (h : InvO c t) (ht : t ≤ mono) : InvO (Spec.table hmac cfg vals now c mono).2 mono := by
  have h0 : InvO c mono := InvO_mono h ht
  unfold Spec.table
  repeat' split
  all_goals first
    | exact h0
    | trivial
    | (rename_i st c hs; exact Inv_purge c t mono _ h ht hs)
    | (rename_i st c hs; exact Inv_remember c t mono _ h ht hs)


theorem chr_urlsafe : ∀ k, k < 64 → Spec.isUrlSafe (Base64.chr k) = true := by decide

theorem encode_urlsafe (m : Bytes) : ∀ c ∈ Base64.encode m, Spec.isUrlSafe c = true := by
  intro c hc
  simp only [Base64.encode, List.mem_map] at hc
  obtain ⟨k, hk, rfl⟩ := hc
  exact chr_urlsafe k (Base64.encSextets_lt m k hk)

theorem urlsafe_ne_dot (c : Char) (h : Spec.isUrlSafe c = true) : c ≠ '.' := by
  rintro rfl
  revert h; decide

theorem minted_fields (kid ts nonce : Str) (m : Bytes) (hm32 : m.length = 32)
    (hk : Spec.kidOk kid = true) (ht : Spec.tsOk ts = true) (hn : Spec.nonceOk nonce = true) :
    splitOn '.' (Spec.mintedToken kid ts nonce m) = [Spec.v1, kid, ts, nonce, Base64.encode m] ∧
    Spec.macOk (Base64.encode m) = true := by
  have hk' := hk; have ht' := ht; have hn' := hn
  simp only [Spec.kidOk, Spec.tsOk, Spec.nonceOk, Bool.and_eq_true, List.all_eq_true] at hk' ht' hn'
  have hmac : Spec.macOk (Base64.encode m) = true := by
    simp only [Spec.macOk, Bool.and_eq_true, decide_eq_true_eq, List.all_eq_true]
    exact ⟨by rw [Base64.encode, List.length_map]; exact Base64.encSextets_length32 m hm32, encode_urlsafe m⟩
  refine ⟨?_, hmac⟩
  unfold Spec.mintedToken
  rw [splitOn_append _ _ _ (by decide),
    splitOn_append _ _ _ (fun x hx => urlsafe_ne_dot x (hk'.2 x hx)),
    splitOn_append _ _ _ (fun x hx => urlsafe_ne_dot x (urlsafe_of_digit x (ht'.2 x hx))),
    splitOn_append _ _ _ (fun x hx => urlsafe_ne_dot x (hn'.2 x hx)),
    splitOn_noSep _ _ (fun x hx => urlsafe_ne_dot x (encode_urlsafe m x hx))]

end Aux
open Aux

/-! ## Property theorems (obligations) -/

/-- the extracted `_KID_RE`, used the way `verify_proof` uses it, is the §3 `kid` charset -/
theorem kid_spec (s : Str) : applyRe Gen.C22.kidRe s = Spec.kidOk s := kid_spec' s
/-- `_TS_RE` is the §3 `ts` charset (ASCII digits only, 1 to 20) -/
theorem ts_spec (s : Str) : applyRe Gen.C22.tsRe s = Spec.tsOk s := ts_spec' s
/-- `_NONCE_RE` is the §3 `nonce` charset -/
theorem nonce_spec (s : Str) : applyRe Gen.C22.nonceRe s = Spec.nonceOk s := nonce_spec' s
/-- `_MAC_RE` is the §3 `mac` charset -/
theorem mac_spec (s : Str) : applyRe Gen.C22.macRe s = Spec.macOk s := mac_spec' s
/-- `_ORIGIN_RE.match` (configuration and minting) is the §4 `origin_id` charset -/
theorem origin_spec (s : Str) : Gen.C22.originRe.pyMatch s = Spec.originOk s := by
  rw [Bool.eq_iff_iff, pyMatch_bigZ _ (by rfl)]
  show Lang (.rep _ 1 255) s ↔ _
  rw [lang_rep]
  simp only [Spec.originOk, Bool.and_eq_true, decide_eq_true_eq, List.all_eq_true, mem_origin]
  constructor
  · rintro ⟨a, b, c⟩; exact ⟨⟨a, b⟩, c⟩
  · rintro ⟨⟨a, b⟩, c⟩; exact ⟨a, b, c⟩

/-- base64url without padding round-trips, and a 32-byte MAC is 43 characters of the `mac` charset -/
theorem b64_roundtrip (m : Bytes) (h : m.length = 32) :
    Base64.decode (Base64.encode m) = some m ∧ (Base64.encode m).length = 43 ∧ Spec.macOk (Base64.encode m) = true := by
  refine ⟨Base64.decode_encode m, ?_, ?_⟩
  · rw [Base64.encode, List.length_map]; exact Base64.encSextets_length32 m h
  · simp only [Spec.macOk, Bool.and_eq_true, decide_eq_true_eq, List.all_eq_true]
    exact ⟨by rw [Base64.encode, List.length_map]; exact Base64.encSextets_length32 m h, encode_urlsafe m⟩

/-- `canonical_string` is the §4 MAC input -/
theorem canonical_spec (kid ts nonce origin : Str) :
    canonicalString kid ts nonce origin = Spec.canonical kid ts nonce origin := canonical_eq kid ts nonce origin


/-- **C22** for the whole gate: for every list of header instances (joined by the WSGI server with any
separator containing a comma), clock, key map, origin, skew and replay-cache state satisfying the cache
invariant, `gate`'s `try` body returns exactly what the §6 table says, and leaves the cache the table leaves. -/
theorem C22 (hmac : Hmac) (cfg : Config) (sep : Str) (hsep : ',' ∈ sep) (vals : List Str) (now : Int)
    (cache : Option NonceState) (mono : Int) (hinv : InvO cache mono) :
    gateVerify hmac cfg (wsgiJoin sep vals) now cache mono =
      (.done (Spec.table hmac cfg vals now cache mono).1, (Spec.table hmac cfg vals now cache mono).2) := by
  obtain ⟨-, -, -, -, -, -, -, g8, g9⟩ := gen_facts
  match vals with
  | [] => rfl
  | [v] =>
    simp only [wsgiJoin, join, gateVerify, gateVerifyWith, g8, g9, Bool.true_and, reduceCtorEq, false_and, if_false]
    by_cases hc : v.contains ',' = true
    · rw [if_pos hc, table_of_comma hmac cfg v now cache mono (by simpa using hc)]
    · rw [if_neg hc]
      exact verify_eq_table hmac cfg v now cache mono hinv
  | a :: b :: r =>
    have hm : ',' ∈ join sep (a :: b :: r) := join_two_mem sep a b r ',' hsep
    have hc : (join sep (a :: b :: r)).contains ',' = true := by simpa using hm
    simp only [wsgiJoin, gateVerify, gateVerifyWith, g8, g9, Bool.true_and, reduceCtorEq, false_and, if_false, hc, if_true]
    rfl


/-- `verify_proof` alone (any token string, comma or not) equals the table on the single value -/
theorem C22_verify (hmac : Hmac) (cfg : Config) (v : Str) (now : Int) (cache : Option NonceState) (mono : Int)
    (hinv : InvO cache mono) :
    verifyProof hmac cfg v now cache mono =
      (.done (Spec.table hmac cfg [v] now cache mono).1, (Spec.table hmac cfg [v] now cache mono).2) :=
  verify_eq_table hmac cfg v now cache mono hinv

/-- one accepted-or-refused request keeps the cache invariant, at the new cache time -/
theorem cache_inv_step (hmac : Hmac) (cfg : Config) (vals : List Str) (now : Int) (c : Option NonceState)
    (t mono : Int) (h : InvO c t) (ht : t ≤ mono) : InvO (Spec.table hmac cfg vals now c mono).2 mono :=
  table_inv hmac cfg vals now c t mono h ht

/-- `NonceCache.check_and_add` is "seen within the window? else remember, evicting the oldest" whenever the
entries are in expiry order (which a non-decreasing clock guarantees, `cache_inv_step`) -/
theorem cache_step_spec (c : NonceState) (t : Int) (n : Str) (h : Sorted c.entries) :
    checkAndAdd c t n = if Spec.seen c t n then (Spec.purge c t, false) else (Spec.remember c t n, true) :=
  checkAndAdd_spec c t n h

/-- the empty cache satisfies the invariant -/
theorem cache_inv_empty (ttl : Int) (cap : Nat) (t : Int) : InvO (some ⟨ttl, cap, []⟩) t :=
  ⟨List.Pairwise.nil, fun _ h => absurd h (by simp)⟩

/-- **C22 over histories**: a whole sequence of requests through one gate, starting from any cache that
satisfies the invariant (e.g. the empty one) with a cache clock that never goes backwards, gives exactly the
table's results, request by request, and the table's final cache. -/
theorem C22_history (hmac : Hmac) (cfg : Config) (sep : Str) (hsep : ',' ∈ sep) (reqs : List Req) :
    ∀ (c : Option NonceState) (t0 : Int), InvO c t0 → Spec.ClockMonotone t0 reqs →
      runGate hmac cfg sep c reqs =
        ((Spec.runTable hmac cfg c reqs).1.map Outcome.done, (Spec.runTable hmac cfg c reqs).2) := by
  induction reqs with
  | nil => intro c t0 _ _; rfl
  | cons r rs ih =>
    intro c t0 hinv hmono
    obtain ⟨h1, h2⟩ := hmono
    have hstep := C22 hmac cfg sep hsep r.vals r.now c r.mono (InvO_mono hinv h1)
    have hnext := table_inv hmac cfg r.vals r.now c t0 r.mono hinv h1
    simp only [runGate, Spec.runTable, hstep, List.map_cons]
    rw [ih _ r.mono hnext h2]

/-- in particular from a freshly constructed gate (empty cache), at whatever the cache clock reads first -/
theorem C22_history_from_empty (hmac : Hmac) (cfg : Config) (sep : Str) (hsep : ',' ∈ sep) (reqs : List Req)
    (ttl : Int) (cap : Nat) (t0 : Int) (hm : Spec.ClockMonotone t0 reqs) :
    runGate hmac cfg sep (some ⟨ttl, cap, []⟩) reqs =
      ((Spec.runTable hmac cfg (some ⟨ttl, cap, []⟩) reqs).1.map Outcome.done,
       (Spec.runTable hmac cfg (some ⟨ttl, cap, []⟩) reqs).2) :=
  C22_history hmac cfg sep hsep reqs _ t0 (cache_inv_empty ttl cap t0) hm

/-- totality: the verifier returns claims or one of the seven reason codes — never anything else -/
theorem C22_total (hmac : Hmac) (cfg : Config) (sep : Str) (hsep : ',' ∈ sep) (vals : List Str) (now : Int)
    (cache : Option NonceState) (mono : Int) (hinv : InvO cache mono) :
    (∃ claims, (gateVerify hmac cfg (wsgiJoin sep vals) now cache mono).1 = .done (.ok claims)) ∨
    (∃ r ∈ Spec.reasons, (gateVerify hmac cfg (wsgiJoin sep vals) now cache mono).1 = .done (.err r)) := by
  rw [C22 hmac cfg sep hsep vals now cache mono hinv]
  cases (Spec.table hmac cfg vals now cache mono).1 with
  | ok c => exact Or.inl ⟨c, rfl⟩
  | err r => exact Or.inr ⟨r, by cases r <;> simp [Spec.reasons], rfl⟩

/-- the 401 every require-mode refusal turns into -/
def the401 (hint : Str) : Resp401 :=
  { status := 401, reason := "proxy_required".toList, detail := "proxy proof required".toList, proxyHint := hint }

/-- **require-mode uniformity**: whatever the header, clock, keys and cache, a require-mode gate either returns
the claims of a proof the table accepts or refuses with a `ProofError` whose 401 is the one constant response
`the401 hint` (status 401, reason `proxy_required`, a fixed detail, the configuration-derived hint): nothing of the
request (claimed kid, verifier reason) reaches it, and any two refusals are identical. -/
theorem C22_require_uniform (hmac : Hmac) (cfg : Config) (sep : Str) (hsep : ',' ∈ sep) (hint : Str)
    (vals : List Str) (now : Int) (cache : Option NonceState) (mono : Int) (hinv : InvO cache mono) :
    (∃ claims, (Spec.table hmac cfg vals now cache mono).1 = .ok claims ∧
        (gate hmac .require cfg (wsgiJoin sep vals) now cache mono).1 = .claims claims) ∨
    (∃ r, (Spec.table hmac cfg vals now cache mono).1 = .err r ∧
        ∃ e, (gate hmac .require cfg (wsgiJoin sep vals) now cache mono).1 = .refused e ∧ e.reason = r ∧
          http401 hint e = the401 hint) := by
  unfold gate
  rw [C22 hmac cfg sep hsep vals now cache mono hinv]
  cases h : (Spec.table hmac cfg vals now cache mono).1 with
  | ok c => exact Or.inl ⟨c, rfl, rfl⟩
  | err r =>
    refine Or.inr ⟨r, rfl, ⟨r, Gen.C22.requireDetail⟩, rfl, rfl, ?_⟩
    simp only [http401, the401, ProofError.str]
    have : Gen.C22.requireDetail = "proxy proof required".toList := by decide
    rw [this]
    rfl

/-- **allow mode reports the table's reason**: the gate never refuses; it returns the accepted proof's claims,
or claims with `verified = "false"` and `reason` = the code of the first failing row. -/
theorem C22_allow_reports (hmac : Hmac) (cfg : Config) (sep : Str) (hsep : ',' ∈ sep)
    (vals : List Str) (now : Int) (cache : Option NonceState) (mono : Int) (hinv : InvO cache mono) :
    (∃ claims, (Spec.table hmac cfg vals now cache mono).1 = .ok claims ∧
        (gate hmac .allow cfg (wsgiJoin sep vals) now cache mono).1 = .claims claims) ∨
    (∃ r, (Spec.table hmac cfg vals now cache mono).1 = .err r ∧
        ∃ c, (gate hmac .allow cfg (wsgiJoin sep vals) now cache mono).1 = .claims c ∧
          c.get "verified".toList = some "false".toList ∧ c.get "reason".toList = some r.code.toList ∧
          c.get "origin_id".toList = some cfg.origin) := by
  unfold gate
  rw [C22 hmac cfg sep hsep vals now cache mono hinv]
  cases h : (Spec.table hmac cfg vals now cache mono).1 with
  | ok c => exact Or.inl ⟨c, rfl, rfl⟩
  | err r => exact Or.inr ⟨r, rfl, failClaims cfg.origin r, rfl, rfl, rfl, rfl⟩


/-- **the table accepts what a proxy mints** (non-vacuity of acceptance, for every key, clock inside the two-sided
window and fresh nonce): the §3 token over the real MAC is answered `ok` with the §9 claims. -/
theorem C22_minted_accepted (hmac : Hmac) (cfg : Config) (kid ts nonce : Str) (secret : Bytes) (label : Str)
    (now : Int) (cache : Option NonceState) (mono : Int)
    (hk : Spec.kidOk kid = true) (ht : Spec.tsOk ts = true) (hn : Spec.nonceOk nonce = true)
    (hkey : cfg.keys.lookup kid = some (secret, label))
    (hw1 : now - (decVal ts : Int) ≤ cfg.skew) (hw2 : (decVal ts : Int) - now ≤ cfg.skew)
    (hlen : ∀ k m, (hmac k m).length = 32)
    (hfresh : ∀ c, cache = some c → Spec.seen c mono nonce = false) :
    (Spec.table hmac cfg
      [Spec.mintedToken kid ts nonce (hmac secret (Spec.canonical kid ts nonce cfg.origin))] now cache mono).1
      = .ok (Spec.okClaims label kid cfg.origin) := by
  generalize hm : hmac secret (Spec.canonical kid ts nonce cfg.origin) = m
  have hm32 : m.length = 32 := by rw [← hm]; exact hlen _ _
  obtain ⟨hsplit, hmacOk⟩ := minted_fields kid ts nonce m hm32 hk ht hn
  have hch := chars_of_ok _ _ _ _ _ _ hsplit rfl hk ht hn hmacOk
  have hbl := byteLen_ascii _ (fun c hc => (ascii_of_dot_or_urlsafe c (hch c hc)).1)
  have hk' := hk; have ht' := ht; have hn' := hn; have hm' := hmacOk
  simp only [Spec.kidOk, Spec.tsOk, Spec.nonceOk, Spec.macOk, Bool.and_eq_true, decide_eq_true_eq] at hk' ht' hn' hm'
  have hlen' : (Spec.mintedToken kid ts nonce m).length ≤ 512 := by
    simp only [Spec.mintedToken, Spec.v1, List.length_append, List.length_cons, List.length_nil]
    omega
  have hne : Spec.mintedToken kid ts nonce m ≠ [] := by simp [Spec.mintedToken, Spec.v1]
  have hstep2 : ¬ (Spec.mintedToken kid ts nonce m = [] ∨ Spec.byteLen (Spec.mintedToken kid ts nonce m) > 512) := by
    rintro (h | h)
    · exact hne h
    · omega
  unfold Spec.table
  simp only [hstep2, if_false, hsplit, ne_eq, not_true_eq_false, hk, ht, hn, hmacOk, Bool.and_self, Bool.not_true,
    Bool.false_eq_true, hkey, hm, Base64.decode_encode]
  have h1 : ¬ (now - (decVal ts : Int) > cfg.skew) := by omega
  have h2 : ¬ ((decVal ts : Int) - now > cfg.skew) := by omega
  simp only [h1, h2, if_false]
  cases cache with
  | none => rfl
  | some c => simp only [hfresh c rfl, Bool.false_eq_true, if_false]


/-- a proof the table accepts carries exactly the §9 claims (`verified = "true"`, the configured label, …) -/
theorem C22_ok_claims (hmac : Hmac) (cfg : Config) (vals : List Str) (now : Int) (cache : Option NonceState)
    (mono : Int) (c : Claims) (h : (Spec.table hmac cfg vals now cache mono).1 = .ok c) :
    ∃ label kid, c = Spec.okClaims label kid cfg.origin := by
  unfold Spec.table at h
  repeat' split at h
  all_goals first
    | (cases h; done)
    | (simp only [Result.ok.injEq] at h; exact ⟨_, _, h.symm⟩)

/-! ### non-vacuity: concrete runs of the model (a toy HMAC that returns 32 zero bytes, whose base64url is 43 `A`s) -/

def toyHmac : Hmac := fun _ _ => List.replicate 32 0
def toyCfg : Config := { keys := [("k".toList, ([1, 2, 3], "edge".toList))], origin := "w".toList, skew := 30 }
def toyTok (ts : String) : Str := ("v1.k." ++ ts ++ ".AAAAAAAAAAAAAAAAAAAAAA.AAAAAAAAAAAAAAAAAAAAAAAAAAAAAAAAAAAAAAAAAAA").toList

example : (gateVerify toyHmac toyCfg (some (toyTok "1000")) 1030 (some ⟨30, 2, []⟩) 5).1
    = .done (.ok (okClaims "edge".toList "k".toList "w".toList)) := by decide +kernel
example : (gateVerify toyHmac toyCfg (some (toyTok "1000")) 1031 none 0).1 = .done (.err .expired) := by decide +kernel
example : (gateVerify toyHmac toyCfg (some (toyTok "1061")) 1030 none 0).1 = .done (.err .notYetValid) := by decide +kernel
example : (gateVerify toyHmac toyCfg (some (toyTok "1000")) 1000 (some ⟨30, 2, [("AAAAAAAAAAAAAAAAAAAAAA".toList, 9)]⟩) 8).1
    = .done (.err .replayed) := by decide +kernel
example : (gateVerify toyHmac toyCfg (some []) 1000 none 0).1 = .done (.err .malformed) := by decide +kernel
example : InvO (some ⟨30, 2, [("a".toList, 5), ("b".toList, 9)]⟩) 0 := by
  refine ⟨?_, ?_⟩
  · unfold Sorted; simp
  · intro e he; simp at he; rcases he with rfl | rfl <;> simp

end VgiVerif.C22
