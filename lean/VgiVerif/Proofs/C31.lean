import VgiVerif.Model.C31
import VgiVerif.Spec.C31
/-
C31 property theorems about the fetch bookkeeping (helper lemmas in `Aux`; the obligations are at the bottom).
The redaction theorems are in `Proofs/C31Url.lean`.
-/
namespace VgiVerif.C31
open VgiVerif.C31.Spec (Validated RedirectsBounded ReadBounded Tiles IsPartition slice)

namespace Aux

/-! ### extracted shapes the proofs rely on (re-checked whenever the source changes) -/

theorem limitCmp : Gen.Fetch.redirectLimitCmp = ">=" := by rfl
theorem rangeOffset : Gen.Fetch.redirectRangeOffset = 1 := by rfl
theorem fullGuard : Gen.Fetch.fullReadGuard = ">" := by rfl
theorem rangeMaxGuard : Gen.Fetch.rangeMaxGuard = ">" := by rfl
theorem rangeExpectedGuard : Gen.Fetch.rangeExpectedGuard = ">" := by rfl
theorem rangeFinalGuard : Gen.Fetch.rangeFinalGuard = "!=" := by rfl
theorem reassembledGuard : Gen.Fetch.reassembledGuard = ">" := by rfl
theorem readChunk : Gen.Fetch.readChunk = 65536 := by rfl
theorem rangeReadChunk : Gen.Fetch.rangeReadChunk = 65536 := by rfl
theorem shapes :
    Gen.Fetch.validateBeforeRequest = true ∧ Gen.Fetch.manualRedirects = true ∧ Gen.Fetch.onlyNextUrlAssigned = true ∧
    Gen.Fetch.redirectStepRecognised = true ∧ Gen.Fetch.redirectCheckOrder = ["limit", "location", "target"] ∧
    Gen.Fetch.autoDecompressOff = true ∧ Gen.Fetch.statusCheckRecognised = true ∧ Gen.Fetch.chunkCheckRecognised = true ∧
    Gen.Fetch.rangesRecognised = true ∧ Gen.Fetch.retryRecognised = true ∧ Gen.Fetch.firstAttemptValidated = true ∧
    Gen.Fetch.retryValidated = true ∧ Gen.Fetch.redactRecognised = true ∧
    Gen.Fetch.chunkRangeCheckRecognised = true ∧ Gen.Fetch.parallelNonEmpty = true ∧ Gen.Fetch.contentRangeGroup1 = true := by
  decide

theorem cmp_gt (a b : Nat) : cmpNat ">" a b = decide (a > b) := by simp [cmpNat]
theorem cmp_ge (a b : Nat) : cmpNat ">=" a b = decide (a ≥ b) := by simp [cmpNat]
theorem cmp_ne (a b : Nat) : cmpNat "!=" a b = decide (a ≠ b) := by simp [cmpNat]

/-! ### `_request_following_redirects` -/

/-- every URL requested was accepted by the validator, and the redirect count respects the limit -/
theorem follow_inv {σ : Type} (env : Env) (o : Origin σ) (cfg : Cfg) (m : Method) (rng : Option (Nat × Nat)) :
    ∀ (fuel count : Nat) (s : σ) (cur : Url), count ≤ cfg.maxRedirects →
      (∀ u ∈ (follow env o cfg m rng fuel count s cur).urls, env.valid u = true) ∧
      count + (follow env o cfg m rng fuel count s cur).redirects ≤ cfg.maxRedirects ∧
      (follow env o cfg m rng fuel count s cur).urls.length ≤ (follow env o cfg m rng fuel count s cur).redirects + 1 := by
  intro fuel
  induction fuel with
  | zero => intro count s cur h; simp [follow]; exact h
  | succ fuel ih =>
    intro count s cur hc
    unfold follow
    by_cases hv : env.valid cur = true
    · simp only [hv, Bool.not_true, Bool.false_eq_true, if_false]
      split
      · simp [hv]; exact hc
      · rename_i r s' _
        split
        · simp [hv]; exact hc
        · rw [limitCmp, cmp_ge]
          split
          · simp [hv]; exact hc
          · rename_i hlim
            have hlt : count + 1 ≤ cfg.maxRedirects := by
              simp only [ge_iff_le, decide_eq_true_eq, Nat.not_le] at hlim; omega
            split
            · simp [hv]; exact hc
            · simp [hv]; exact hc
            · split
              · simp [hv]; exact hc
              · split
                · simp [hv]; exact hc
                · simp [hv]; exact hc
                · rename_i next _ _ _
                  obtain ⟨h1, h2, h3⟩ := ih (count + 1) s' next hlt
                  refine ⟨?_, ?_, ?_⟩
                  · intro u hu
                    simp only [List.mem_cons] at hu
                    rcases hu with rfl | hu
                    · exact hv
                    · exact h1 u hu
                  · show count + ((follow env o cfg m rng fuel (count + 1) s' next).redirects + 1) ≤ cfg.maxRedirects
                    omega
                  · show (cur :: (follow env o cfg m rng fuel (count + 1) s' next).urls).length ≤
                      (follow env o cfg m rng fuel (count + 1) s' next).redirects + 1 + 1
                    simp only [List.length_cons]; omega
    · simp only [Bool.not_eq_true] at hv
      simp [hv]; exact hc

/-- `follow` never runs out of loop iterations when started as the code starts it -/
theorem follow_total {σ : Type} (env : Env) (o : Origin σ) (cfg : Cfg) (m : Method) (rng : Option (Nat × Nat)) :
    ∀ (fuel count : Nat) (s : σ) (cur : Url), count + fuel = cfg.maxRedirects + 1 → 0 < fuel →
      (follow env o cfg m rng fuel count s cur).val ≠ .error .unreachable := by
  intro fuel
  induction fuel with
  | zero => intro _ _ _ _ h; omega
  | succ fuel ih =>
    intro count s cur hsum _
    unfold follow
    split
    · simp
    · split
      · rename_i f _ _
        cases f <;> simp [requestError]
      · split
        · simp
        · rw [limitCmp, cmp_ge]
          split
          · simp
          · rename_i hlim
            simp only [ge_iff_le, decide_eq_true_eq, Nat.not_le] at hlim
            split
            · simp
            · simp
            · split
              · simp
              · split
                · simp
                · simp
                · rename_i next _ _ _
                  exact ih (count + 1) _ next (by omega) (by omega)

/-! ### body readers -/

theorem streamRead_none (n : Nat) : ∀ segs : List Bytes, streamRead n segs = none → segs.flatten = [] := by
  intro segs
  induction segs with
  | nil => intro _; rfl
  | cons seg rest ih =>
    intro h
    unfold streamRead at h
    split at h
    · rename_i he
      have : seg = [] := by simpa using he
      subst this
      simpa using ih h
    · split at h <;> simp at h

theorem streamRead_some (n : Nat) : ∀ (segs : List Bytes) (chunk : Bytes) (segs' : List Bytes),
    streamRead n segs = some (chunk, segs') →
      chunk.length ≤ n ∧ segs.flatten = chunk ++ segs'.flatten := by
  intro segs
  induction segs with
  | nil => intro _ _ h; simp [streamRead] at h
  | cons seg rest ih =>
    intro chunk segs' h
    unfold streamRead at h
    split at h
    · rename_i he
      have : seg = [] := by simpa using he
      subst this
      simpa using ih chunk segs' h
    · split at h
      · rename_i hle
        simp only [Option.some.injEq, Prod.mk.injEq] at h
        obtain ⟨rfl, rfl⟩ := h
        exact ⟨hle, by simp⟩
      · simp only [Option.some.injEq, Prod.mk.injEq] at h
        obtain ⟨rfl, rfl⟩ := h
        refine ⟨by simp [List.length_take]; omega, ?_⟩
        simp [List.flatten_cons, ← List.append_assoc, List.take_append_drop]

theorem readBodyLoop_inv (maxFetch : Nat) (fault : Option Fault) :
    ∀ (fuel : Nat) (segs : List Bytes) (total : Nat) (acc : Bytes), total ≤ maxFetch →
      (readBodyLoop maxFetch fault fuel segs total acc).bytes ≤ maxFetch + 65536 ∧
      (∀ data, (readBodyLoop maxFetch fault fuel segs total acc).val = .ok data →
        data = acc ++ segs.flatten ∧ fault = none) := by
  intro fuel
  induction fuel with
  | zero => intro segs total acc h; simp [readBodyLoop]; omega
  | succ fuel ih =>
    intro segs total acc ht
    unfold readBodyLoop
    split
    · rename_i hnone
      have hf := streamRead_none _ _ hnone
      cases fault with
      | some f => simp; omega
      | none => simp [hf]; omega
    · rename_i chunk segs' hsome
      obtain ⟨hlen, hflat⟩ := streamRead_some _ _ _ _ hsome
      rw [readChunk] at hlen
      rw [fullGuard, cmp_gt]
      split
      · simp; omega
      · rename_i hg
        simp only [gt_iff_lt, decide_eq_true_eq, Nat.not_lt] at hg
        obtain ⟨h1, h2⟩ := ih segs' (total + chunk.length) (acc ++ chunk) hg
        refine ⟨h1, ?_⟩
        intro data hd
        obtain ⟨h3, h4⟩ := h2 data hd
        refine ⟨?_, h4⟩
        rw [h3, hflat, List.append_assoc]

theorem readRangeLoop_inv (maxFetch expected : Nat) (fault : Option Fault) :
    ∀ (fuel : Nat) (segs : List Bytes) (total : Nat) (acc : Bytes), total ≤ maxFetch → total ≤ expected →
      (readRangeLoop maxFetch expected fault fuel segs total acc).bytes ≤ min expected maxFetch + 1 ∧
      (∀ data, (readRangeLoop maxFetch expected fault fuel segs total acc).val = .ok data →
        data = acc ++ segs.flatten ∧ fault = none ∧ total + segs.flatten.length = expected) := by
  intro fuel
  induction fuel with
  | zero => intro segs total acc h1 h2; simp [readRangeLoop]; omega
  | succ fuel ih =>
    intro segs total acc ht he
    unfold readRangeLoop
    simp only
    split
    · rename_i hnone
      have hf := streamRead_none _ _ hnone
      cases fault with
      | some f => simp; omega
      | none =>
        rw [rangeFinalGuard, cmp_ne]
        by_cases hte : total = expected
        · simp [hte, hf]; omega
        · simp [hte]; omega
    · rename_i chunk segs' hsome
      obtain ⟨hlen, hflat⟩ := streamRead_some _ _ _ _ hsome
      rw [rangeReadChunk] at hlen
      have hb : total + chunk.length ≤ min expected maxFetch + 1 := by omega
      rw [rangeMaxGuard, cmp_gt, rangeExpectedGuard, cmp_gt]
      split
      · simp; exact hb
      · rename_i hg1
        split
        · simp; exact hb
        · rename_i hg2
          simp only [gt_iff_lt, decide_eq_true_eq, Nat.not_lt] at hg1 hg2
          obtain ⟨h1, h2⟩ := ih segs' (total + chunk.length) (acc ++ chunk) hg1 hg2
          refine ⟨h1, ?_⟩
          intro data hd
          obtain ⟨h3, h4, h5⟩ := h2 data hd
          refine ⟨?_, h4, ?_⟩
          · rw [h3, hflat, List.append_assoc]
          · rw [hflat, List.length_append]; omega

theorem readBody_spec (cfg : Cfg) (r : Resp) :
    (readBody cfg r).bytes ≤ cfg.maxFetch + 65536 ∧
    (∀ data, (readBody cfg r).val = .ok data → data = r.segs.flatten ∧ r.streamFault = none) := by
  have := readBodyLoop_inv cfg.maxFetch r.streamFault (streamFuel r.segs) r.segs 0 [] (Nat.zero_le _)
  simpa [readBody] using this

theorem readRange_spec (cfg : Cfg) (expected : Nat) (r : Resp) :
    (readRange cfg expected r).bytes ≤ min expected cfg.maxFetch + 1 ∧
    (∀ data, (readRange cfg expected r).val = .ok data →
      data = r.segs.flatten ∧ r.streamFault = none ∧ r.segs.flatten.length = expected) := by
  have := readRangeLoop_inv cfg.maxFetch expected r.streamFault (streamFuel r.segs) r.segs 0 []
    (Nat.zero_le _) (Nat.zero_le _)
  simpa [readRange] using this

/-! ### `_compute_ranges` -/

theorem lt_chunks_iff {n c : Nat} (hc : 0 < c) (k : Nat) : k < (n + c - 1) / c ↔ k * c < n := by
  rw [Nat.lt_iff_add_one_le, Nat.le_div_iff_mul_le hc, Nat.add_mul, Nat.one_mul]
  omega

theorem tiles_range' {n c : Nat} (hc : 0 < c) :
    ∀ (len k : Nat), k + len = (n + c - 1) / c →
      Tiles (min (k * c) n) n ((List.range' k len).map fun i => (i * c, min (i * c + c - 1) (n - 1))) := by
  intro len
  induction len with
  | zero =>
    intro k hk
    simp only [List.range'_zero, List.map_nil, Tiles]
    have : ¬ k * c < n := by rw [← lt_chunks_iff hc]; omega
    omega
  | succ len ih =>
    intro k hk
    have hlt : k * c < n := by rw [← lt_chunks_iff hc]; omega
    have hnext := ih (k + 1) (by omega)
    rw [Nat.add_mul, Nat.one_mul] at hnext
    simp only [List.range'_succ, List.map_cons, Tiles]
    refine ⟨by omega, by omega, by omega, ?_⟩
    have : min (k * c + c - 1) (n - 1) + 1 = min (k * c + c) n := by omega
    rw [this]
    exact hnext

theorem tiles_flatMap {α : Type} (obj : List α) :
    ∀ (rs : List (Nat × Nat)) (pos : Nat), Tiles pos obj.length rs →
      rs.flatMap (fun r => slice obj r.1 r.2) = obj.drop pos := by
  intro rs
  induction rs with
  | nil =>
    intro pos h
    simp only [Tiles] at h
    subst h
    simp
  | cons r rest ih =>
    intro pos h
    obtain ⟨s, e⟩ := r
    simp only [Tiles] at h
    obtain ⟨rfl, hse, _, hrest⟩ := h
    rw [List.flatMap_cons, ih _ hrest]
    have : obj.drop (e + 1) = (obj.drop s).drop (e + 1 - s) := by
      rw [List.drop_drop]; congr 1; omega
    show List.take (e + 1 - s) (List.drop s obj) ++ List.drop (e + 1) obj = List.drop s obj
    rw [this, List.take_append_drop]

/-! ### trace invariant -/

def kindExpected : ReadKind → Option Nat
  | .full => none
  | .range e => some e

/-- every logical request validated + redirect-bounded, every body read bounded -/
def TraceOK (env : Env) (cfg : Cfg) (t : Trace) : Prop :=
  (∀ g ∈ t.groups, (∀ u ∈ g.urls, env.valid u = true) ∧ g.redirects ≤ cfg.maxRedirects ∧ g.urls.length ≤ g.redirects + 1) ∧
  (∀ r ∈ t.reads, ReadBounded cfg.maxFetch (kindExpected r.kind) r.bytes)

theorem traceOK_empty (env : Env) (cfg : Cfg) : TraceOK env cfg {} := by
  constructor <;> intro _ h <;> cases h

theorem traceOK_app {env : Env} {cfg : Cfg} {a b : Trace} (ha : TraceOK env cfg a) (hb : TraceOK env cfg b) :
    TraceOK env cfg (a.app b) := by
  constructor
  · intro g hg
    simp only [Trace.app, List.mem_append] at hg
    rcases hg with hg | hg
    · exact ha.1 g hg
    · exact hb.1 g hg
  · intro r hr
    simp only [Trace.app, List.mem_append] at hr
    rcases hr with hr | hr
    · exact ha.2 r hr
    · exact hb.2 r hr

theorem request_trace {σ : Type} (env : Env) (o : Origin σ) (cfg : Cfg) (m : Method) (rng : Option (Nat × Nat))
    (s : σ) (url : Url) : TraceOK env cfg (request env o cfg m rng s url).trace := by
  obtain ⟨h1, h2, h3⟩ := follow_inv env o cfg m rng (cfg.maxRedirects + Gen.Fetch.redirectRangeOffset) 0 s url (Nat.zero_le _)
  constructor
  · intro g hg
    simp only [FollowRes.trace, List.mem_singleton] at hg
    subst hg
    have h2' : (follow env o cfg m rng (cfg.maxRedirects + Gen.Fetch.redirectRangeOffset) 0 s url).redirects ≤ cfg.maxRedirects := by
      omega
    exact ⟨h1, h2', h3⟩
  · intro r hr
    simp [FollowRes.trace] at hr

theorem traceOK_withRead {env : Env} {cfg : Cfg} {t : Trace} (ht : TraceOK env cfg t) (k : ReadKind) (n : Nat)
    (hb : ReadBounded cfg.maxFetch (kindExpected k) n) : TraceOK env cfg ⟨t.groups, [⟨k, n⟩]⟩ := by
  constructor
  · exact ht.1
  · intro r hr
    simp only [List.mem_singleton] at hr
    subst hr
    exact hb

theorem range_bound (cfg : Cfg) (e : Nat) (r : Resp) :
    ReadBounded cfg.maxFetch (kindExpected (.range e)) (readRange cfg e r).bytes := (readRange_spec cfg e r).1

theorem full_bound (cfg : Cfg) (r : Resp) :
    ReadBounded cfg.maxFetch (kindExpected .full) (readBody cfg r).bytes := (readBody_spec cfg r).1

theorem headProbe_trace {σ : Type} (env : Env) (o : Origin σ) (cfg : Cfg) (s : σ) (url : Url) :
    TraceOK env cfg (headProbe env o cfg s url).tr := by
  have h := request_trace env o cfg .head none s url
  unfold headProbe
  simp only
  repeat' split
  all_goals exact h

theorem rangeProbe_trace {σ : Type} (env : Env) (o : Origin σ) (cfg : Cfg) (s : σ) (url : Url) :
    TraceOK env cfg (rangeProbe env o cfg s url).tr := by
  have h := request_trace env o cfg .get (some (0, 0)) s url
  unfold rangeProbe
  simp only
  repeat' split
  all_goals first
    | exact h
    | exact traceOK_withRead h _ _ (range_bound cfg 1 _)

theorem singleGet_trace {σ : Type} (env : Env) (o : Origin σ) (cfg : Cfg) (s : σ) (url : Url) (ce : List Char) :
    TraceOK env cfg (singleGet env o cfg s url ce).tr := by
  have h := request_trace env o cfg .get none s url
  unfold singleGet
  simp only
  repeat' split
  all_goals first
    | exact h
    | exact traceOK_withRead h _ _ (full_bound cfg _)

theorem fetchOneChunk_trace {σ : Type} (env : Env) (o : Origin σ) (cfg : Cfg) (s : σ) (url : Url) (rg : Nat × Nat)
    (total : Option Nat) : TraceOK env cfg (fetchOneChunk env o cfg s url rg total).tr := by
  have h := request_trace env o cfg .get (some rg) s url
  unfold fetchOneChunk
  simp only
  repeat' split
  all_goals first
    | exact h
    | exact traceOK_withRead h _ _ (range_bound cfg _ _)

theorem collect_trace {σ : Type} (env : Env) (o : Origin σ) (cfg : Cfg) (url : Url) (total : Option Nat)
    (ranges : List (Nat × Nat)) :
    ∀ (sched : List Nat) (results : List (Nat × Bytes)) (tr : Trace) (s : σ), TraceOK env cfg tr →
      TraceOK env cfg (collect env o cfg url total ranges sched results tr s).tr := by
  intro sched
  induction sched with
  | nil => intro results tr s h; unfold collect; split <;> exact h
  | cons i rest ih =>
    intro results tr s h
    unfold collect
    split
    · exact h
    · split
      · exact ih _ _ _ h
      · rename_i rg _
        have hc := traceOK_app h (fetchOneChunk_trace env o cfg s url rg total)
        simp only
        split
        · split
          · exact ih _ _ _ hc
          · exact hc
        · split
          · exact ih _ _ _ hc
          · exact ih _ _ _ hc

theorem fetchChunks_trace {σ : Type} (env : Env) (o : Origin σ) (cfg : Cfg) (sched : List Nat) (s : σ) (url : Url) (n : Nat) :
    TraceOK env cfg (fetchChunks env o cfg sched s url n).tr := by
  have h := collect_trace env o cfg url (some n) (computeRanges n cfg.chunkSize) sched [] {} s (traceOK_empty env cfg)
  unfold fetchChunks
  simp only
  repeat' split
  all_goals exact h

theorem fetchEncoded_trace {σ : Type} (env : Env) (o : Origin σ) (cfg : Cfg) (sched : List Nat) (s : σ) (url : Url) :
    TraceOK env cfg (fetchEncoded env o cfg sched s url).tr := by
  have hp : TraceOK env cfg (if env.presigned url then rangeProbe env o cfg s url else headProbe env o cfg s url).tr := by
    split
    · exact rangeProbe_trace env o cfg s url
    · exact headProbe_trace env o cfg s url
  unfold fetchEncoded
  simp only
  generalize (if env.presigned url then rangeProbe env o cfg s url else headProbe env o cfg s url) = p at hp
  repeat' split
  all_goals first
    | exact hp
    | exact traceOK_app hp (fetchChunks_trace env o cfg sched _ url _)
    | exact traceOK_app hp (singleGet_trace env o cfg _ url _)

theorem fetchWithProbe_trace {σ : Type} (env : Env) (o : Origin σ) (cfg : Cfg) (sched : List Nat) (s : σ) (url : Url) :
    TraceOK env cfg (fetchWithProbe env o cfg sched s url).tr := by
  have h := fetchEncoded_trace env o cfg sched s url
  unfold fetchWithProbe
  simp only
  split <;> exact h

/-- both attempts of `fetch_url` run with the caller's validator (extracted from the two call sites) -/
theorem firstAttempt_env (env : Env) : withValidator env Gen.Fetch.firstAttemptValidated = env := rfl
theorem retry_env (env : Env) : withValidator env Gen.Fetch.retryValidated = env := rfl

theorem fetchUrl_trace {σ : Type} (env : Env) (o : Origin σ) (cfg : Cfg) (sched1 sched2 : List Nat) (s : σ) (url : Url) :
    TraceOK env cfg (fetchUrl env o cfg sched1 sched2 s url).tr := by
  have h := fetchWithProbe_trace env o cfg sched1 s url
  unfold fetchUrl
  rw [firstAttempt_env, retry_env]
  simp only
  split
  · split
    · exact traceOK_app h (fetchWithProbe_trace env o cfg sched2 _ url)
    · exact h
  · exact h

/-! ### what a success returns -/

/-- a response the origin actually gave to a request of this method / range (at some state, for some validated URL) -/
theorem follow_ok {σ : Type} (env : Env) (o : Origin σ) (cfg : Cfg) (m : Method) (rng : Option (Nat × Nat)) :
    ∀ (fuel count : Nat) (s : σ) (cur : Url) (r : Resp), (follow env o cfg m rng fuel count s cur).val = .ok r →
      ∃ s' u, (o s' ⟨m, u, rng⟩).1 = .ok r ∧ env.valid u = true := by
  intro fuel
  induction fuel with
  | zero => intro _ _ _ _ h; simp [follow] at h
  | succ fuel ih =>
    intro count s cur r h
    unfold follow at h
    split at h
    · simp at h
    · rename_i hv
      split at h
      · simp at h
      · rename_i r0 s0 heq
        split at h
        · simp only [Except.ok.injEq] at h
          subst h
          exact ⟨s, cur, by rw [heq], by simpa using hv⟩
        · split at h
          · simp at h
          · split at h
            · simp at h
            · simp at h
            · split at h
              · simp at h
              · split at h
                · simp at h
                · simp at h
                · exact ih _ _ _ r h

/-- `data` is a whole body the origin served to a successful plain GET -/
def WholeGetBody {σ : Type} (env : Env) (o : Origin σ) (data : Bytes) : Prop :=
  ∃ s u r, (o s ⟨.get, u, none⟩).1 = .ok r ∧ env.valid u = true ∧ statusOk r.status = true ∧ r.streamFault = none ∧
    data = r.segs.flatten

/-- `data` is the complete, in-contract body of a 206 the origin served for the range `rg` -/
def ChunkBody {σ : Type} (o : Origin σ) (total : Option Nat) (rg : Nat × Nat) (data : Bytes) : Prop :=
  ∃ s u r, (o s ⟨.get, u, some rg⟩).1 = .ok r ∧ r.status = 206 ∧
    contentRangeMismatch r.contentRange rg.1 rg.2 total = false ∧ r.streamFault = none ∧
    data = r.segs.flatten ∧ data.length = rg.2 - rg.1 + 1

/-- `data` is the in-order concatenation of one complete chunk body per computed range -/
def Reassembled {σ : Type} (o : Origin σ) (cfg : Cfg) (n : Nat) (data : Bytes) : Prop :=
  ∃ parts : List Bytes, parts.length = (computeRanges n cfg.chunkSize).length ∧ data = parts.flatten ∧
    ∀ (i : Nat) rg part, (computeRanges n cfg.chunkSize)[i]? = some rg → parts[i]? = some part → ChunkBody o (some n) rg part

theorem singleGet_ok {σ : Type} (env : Env) (o : Origin σ) (cfg : Cfg) (s : σ) (url : Url) (pce : List Char)
    (data : Bytes) (ce : List Char) (h : (singleGet env o cfg s url pce).val = .ok (data, ce)) :
    WholeGetBody env o data := by
  unfold singleGet at h
  simp only at h
  split at h
  · simp at h
  · rename_i r hreq
    split at h
    · simp at h
    · rename_i hst
      split at h
      · simp at h
      · rename_i d hrd
        simp only [Except.ok.injEq, Prod.mk.injEq] at h
        obtain ⟨rfl, _⟩ := h
        obtain ⟨s', u, ho, hv⟩ := follow_ok env o cfg .get none _ _ _ _ r hreq
        obtain ⟨_, hs⟩ := readBody_spec cfg r
        obtain ⟨h1, h2⟩ := hs d hrd
        exact ⟨s', u, r, ho, hv, by simpa using hst, h2, h1⟩

theorem fetchOneChunk_ok {σ : Type} (env : Env) (o : Origin σ) (cfg : Cfg) (s : σ) (url : Url) (rg : Nat × Nat)
    (total : Option Nat) (data : Bytes) (h : (fetchOneChunk env o cfg s url rg total).val = .ok data) :
    ChunkBody o total rg data := by
  unfold fetchOneChunk at h
  simp only at h
  split at h
  · simp at h
  · rename_i r hreq
    split at h
    · simp at h
    · split at h
      · simp at h
      · rename_i h206
        split at h
        · simp at h
        · rename_i hcr
          obtain ⟨s', u, ho, _⟩ := follow_ok env o cfg .get (some rg) _ _ _ _ r hreq
          obtain ⟨_, hs⟩ := readRange_spec cfg (rg.2 - rg.1 + 1) r
          obtain ⟨h1, h2, h3⟩ := hs data h
          refine ⟨s', u, r, ho, by simpa using h206, by simpa using hcr, h2, h1, ?_⟩
          rw [h1]; exact h3

/-- invariant of the result table: every stored chunk is a complete in-contract body for its range -/
def ResultsOK {σ : Type} (o : Origin σ) (total : Option Nat) (ranges : List (Nat × Nat)) (results : List (Nat × Bytes)) : Prop :=
  ∀ i d, lookup i results = some d → ∃ rg, ranges[i]? = some rg ∧ ChunkBody o total rg d

theorem collect_ok {σ : Type} (env : Env) (o : Origin σ) (cfg : Cfg) (url : Url) (total : Option Nat)
    (ranges : List (Nat × Nat)) :
    ∀ (sched : List Nat) (results : List (Nat × Bytes)) (tr : Trace) (s : σ) (out : List (Nat × Bytes)),
      ResultsOK o total ranges results →
      (collect env o cfg url total ranges sched results tr s).val = .ok out →
      ResultsOK o total ranges out ∧ collected out ranges.length = true := by
  intro sched
  induction sched with
  | nil =>
    intro results tr s out hinv h
    unfold collect at h
    split at h
    · rename_i hc
      simp only [Except.ok.injEq] at h
      subst h
      exact ⟨hinv, hc⟩
    · simp at h
  | cons i rest ih =>
    intro results tr s out hinv h
    unfold collect at h
    split at h
    · rename_i hc
      simp only [Except.ok.injEq] at h
      subst h
      exact ⟨hinv, hc⟩
    · split at h
      · exact ih _ _ _ _ hinv h
      · rename_i rg hrg
        simp only at h
        split at h
        · split at h
          · exact ih _ _ _ _ hinv h
          · simp at h
        · rename_i data hdata
          split at h
          · exact ih _ _ _ _ hinv h
          · refine ih _ _ _ _ ?_ h
            intro j d hj
            simp only [lookup] at hj
            split at hj
            · rename_i hji
              simp only [Option.some.injEq] at hj
              subst hj
              subst hji
              exact ⟨rg, hrg, fetchOneChunk_ok env o cfg s url rg total data hdata⟩
            · exact hinv j d hj

theorem assemble_parts (results : List (Nat × Bytes)) :
    ∀ (k : Nat) (a : Bytes), assemble results k = some a →
      ∃ parts : List Bytes, parts.length = k ∧ a = parts.flatten ∧ ∀ (i : Nat) part, parts[i]? = some part → lookup i results = some part := by
  intro k
  induction k with
  | zero =>
    intro a h
    simp only [assemble, Option.some.injEq] at h
    subst h
    exact ⟨[], rfl, rfl, by intro i part h; simp at h⟩
  | succ k ih =>
    intro a h
    unfold assemble at h
    split at h
    · rename_i a0 b ha hb
      simp only [Option.some.injEq] at h
      subst h
      obtain ⟨parts, hl, hf, hp⟩ := ih a0 ha
      refine ⟨parts ++ [b], by simp [hl], by simp [hf], ?_⟩
      intro i part hi
      by_cases hlt : i < parts.length
      · rw [List.getElem?_append_left hlt] at hi
        exact hp i part hi
      · rw [List.getElem?_append_right (by omega)] at hi
        have : i - parts.length = 0 := by
          rcases Nat.lt_or_ge (i - parts.length) 1 with h1 | h1
          · omega
          · rw [List.getElem?_eq_none (by simpa using h1)] at hi; simp at hi
        rw [this] at hi
        simp only [List.getElem?_cons_zero, Option.some.injEq] at hi
        subst hi
        have : i = k := by omega
        subst this
        exact hb
    · simp at h

theorem fetchChunks_ok {σ : Type} (env : Env) (o : Origin σ) (cfg : Cfg) (sched : List Nat) (s : σ) (url : Url) (n : Nat)
    (data : Bytes) (h : (fetchChunks env o cfg sched s url n).val = .ok data) :
    Reassembled o cfg n data ∧ data.length ≤ cfg.maxFetch := by
  unfold fetchChunks at h
  simp only at h
  split at h
  · simp at h
  · rename_i results hc
    obtain ⟨hinv, _⟩ := collect_ok env o cfg url (some n) (computeRanges n cfg.chunkSize) sched [] {} s results
      (by intro i d hl; simp [lookup] at hl) hc
    split at h
    · simp at h
    · rename_i ordered ha
      rw [reassembledGuard, cmp_gt] at h
      split at h
      · simp at h
      · rename_i hle
        simp only [Except.ok.injEq] at h
        subst h
        obtain ⟨parts, hl, hf, hp⟩ := assemble_parts results _ _ ha
        refine ⟨⟨parts, hl, hf, ?_⟩, by simpa using hle⟩
        intro i rg part hrg hpart
        obtain ⟨rg', hrg', hcb⟩ := hinv i part (hp i part hpart)
        rw [hrg] at hrg'
        simp only [Option.some.injEq] at hrg'
        subst hrg'
        exact hcb

/-! ### decode step -/

/-- `bs` is `data` decoded as the header value `ce` says -/
def DecodedFrom (env : Env) (cfg : Cfg) (ce : List Char) (data bs : Bytes) : Prop :=
  match codecOf ce with
  | none => bs = data
  | some c => env.decompress c data (maxDecoded cfg) = some bs

theorem decodeStep_ok (env : Env) (cfg : Cfg) (url : Url) (ce : List Char) (data bs : Bytes)
    (h : decodeStep env cfg url ce data = .ok bs) : DecodedFrom env cfg ce data bs ∧ bs.length ≤ maxDecoded cfg := by
  unfold decodeStep at h
  unfold DecodedFrom
  split at h
  · rename_i hc
    rw [hc]
    split at h
    · simp at h
    · rename_i hle
      simp only [Except.ok.injEq] at h
      subst h
      exact ⟨rfl, by omega⟩
  · rename_i c hc
    rw [hc]
    split at h
    · simp at h
    · rename_i d hd
      split at h
      · simp at h
      · rename_i hle
        simp only [Except.ok.injEq] at h
        subst h
        exact ⟨hd, by omega⟩

/-- what `_fetch_with_probe` hands to the decode step -/
theorem fetchEncoded_ok {σ : Type} (env : Env) (o : Origin σ) (cfg : Cfg) (sched : List Nat) (s : σ) (url : Url)
    (data : Bytes) (ce : List Char) (h : (fetchEncoded env o cfg sched s url).val = .ok (data, ce)) :
    WholeGetBody env o data ∨ ∃ n, 0 < n ∧ Reassembled o cfg n data := by
  unfold fetchEncoded at h
  simp only at h
  generalize (if env.presigned url then rangeProbe env o cfg s url else headProbe env o cfg s url) = p at h
  split at h
  · simp at h
  · rename_i pr _
    by_cases hdecl : declaredOver cfg pr = true
    · rw [if_pos hdecl] at h; simp at h
    · rw [if_neg hdecl] at h
      by_cases hpar : useParallel cfg pr = true
      · rw [if_pos hpar] at h
        split at h
        · simp at h
        · rename_i d hd
          simp only [Except.ok.injEq, Prod.mk.injEq] at h
          obtain ⟨rfl, _⟩ := h
          right
          -- the parallel path is only taken for a positive probed size
          have hpos : 0 < pr.len.getD 0 := by
            unfold useParallel at hpar
            split at hpar
            · simp at hpar
            · rename_i n hn
              have hne : Gen.Fetch.parallelNonEmpty = true := by rfl
              simp only [hne, Bool.not_true, Bool.false_or, Bool.and_eq_true, decide_eq_true_eq] at hpar
              rw [hn]; exact hpar.2
          exact ⟨_, hpos, (fetchChunks_ok env o cfg sched _ url _ d hd).1⟩
      · rw [if_neg hpar] at h
        left
        exact singleGet_ok env o cfg _ url _ data ce h

theorem fetchWithProbe_ok {σ : Type} (env : Env) (o : Origin σ) (cfg : Cfg) (sched : List Nat) (s : σ) (url : Url)
    (bs : Bytes) (h : (fetchWithProbe env o cfg sched s url).val = .ok bs) :
    bs.length ≤ maxDecoded cfg ∧
    ∃ data ce, DecodedFrom env cfg ce data bs ∧ (WholeGetBody env o data ∨ ∃ n, 0 < n ∧ Reassembled o cfg n data) := by
  unfold fetchWithProbe at h
  simp only at h
  split at h
  · simp at h
  · rename_i data ce he
    obtain ⟨h1, h2⟩ := decodeStep_ok env cfg url ce data bs h
    exact ⟨h2, data, ce, h1, fetchEncoded_ok env o cfg sched s url data ce he⟩

theorem fetchUrl_ok {σ : Type} (env : Env) (o : Origin σ) (cfg : Cfg) (sched1 sched2 : List Nat) (s : σ) (url : Url)
    (bs : Bytes) (h : (fetchUrl env o cfg sched1 sched2 s url).val = .ok bs) :
    ∃ sched s', (fetchWithProbe env o cfg sched s' url).val = .ok bs := by
  unfold fetchUrl at h
  rw [firstAttempt_env, retry_env] at h
  simp only at h
  split at h
  · split at h
    · exact ⟨sched2, _, h⟩
    · exact ⟨sched1, s, h⟩
  · exact ⟨sched1, s, h⟩

end Aux

/-! ## The obligations -/

open Aux in
/-- **validated**: every URL any logical request of a fetch contacts was accepted by the configured validator —
for every origin (state machine), configuration, completion schedule and start state. -/
theorem C31_validated {σ : Type} (env : Env) (o : Origin σ) (cfg : Cfg) (sched1 sched2 : List Nat) (s : σ) (url : Url) :
    Validated env.valid ((fetchUrl env o cfg sched1 sched2 s url).tr.groups.map fun g => ⟨g.urls, g.redirects⟩) := by
  intro r hr u hu
  simp only [List.mem_map] at hr
  obtain ⟨g, hg, rfl⟩ := hr
  exact ((fetchUrl_trace env o cfg sched1 sched2 s url).1 g hg).1 u hu

open Aux in
/-- **redirects**: each logical request (probe, GET, every chunk attempt incl. hedges and the retry) follows at most
`max_redirects` redirects and so contacts at most `max_redirects + 1` URLs. -/
theorem C31_redirects {σ : Type} (env : Env) (o : Origin σ) (cfg : Cfg) (sched1 sched2 : List Nat) (s : σ) (url : Url) :
    RedirectsBounded cfg.maxRedirects ((fetchUrl env o cfg sched1 sched2 s url).tr.groups.map fun g => ⟨g.urls, g.redirects⟩) := by
  intro r hr
  simp only [List.mem_map] at hr
  obtain ⟨g, hg, rfl⟩ := hr
  exact ((fetchUrl_trace env o cfg sched1 sched2 s url).1 g hg).2

open Aux in
/-- the same two facts for *one* call of `_request_following_redirects`, whatever issues it (so they also cover attempts the
runtime cancels midway: a prefix of the URLs of an attempt is a subset of them) — and the loop never falls off its end -/
theorem C31_request {σ : Type} (env : Env) (o : Origin σ) (cfg : Cfg) (m : Method) (rng : Option (Nat × Nat)) (s : σ) (url : Url) :
    (∀ u ∈ (request env o cfg m rng s url).urls, env.valid u = true) ∧
    (request env o cfg m rng s url).redirects ≤ cfg.maxRedirects ∧
    (request env o cfg m rng s url).urls.length ≤ cfg.maxRedirects + 1 ∧
    (request env o cfg m rng s url).val ≠ .error .unreachable := by
  have h := (request_trace env o cfg m rng s url).1
    ⟨(request env o cfg m rng s url).urls, (request env o cfg m rng s url).redirects⟩ (by simp [FollowRes.trace])
  refine ⟨h.1, h.2.1, ?_, ?_⟩
  · have h1 := h.2.2; have h2 := h.2.1; simp only at h1 h2; omega
  · exact follow_total env o cfg m rng _ 0 s url (by rw [rangeOffset]; omega) (by rw [rangeOffset]; omega)

open Aux in
/-- **read**: bytes taken out of one response body — whole-body read ≤ max_fetch_bytes + 65536, range read ≤
min(range size, max_fetch_bytes) + 1 — for every response (any segmentation, any stream fault) and for every read of a fetch. -/
theorem C31_read :
    (∀ (cfg : Cfg) (r : Resp), (readBody cfg r).bytes ≤ cfg.maxFetch + 65536) ∧
    (∀ (cfg : Cfg) (expected : Nat) (r : Resp), (readRange cfg expected r).bytes ≤ min expected cfg.maxFetch + 1) ∧
    (∀ {σ : Type} (env : Env) (o : Origin σ) (cfg : Cfg) (sched1 sched2 : List Nat) (s : σ) (url : Url),
      ∀ r ∈ (fetchUrl env o cfg sched1 sched2 s url).tr.reads,
        ReadBounded cfg.maxFetch (match r.kind with | .full => none | .range e => some e) r.bytes) := by
  refine ⟨fun cfg r => (readBody_spec cfg r).1, fun cfg e r => (readRange_spec cfg e r).1, ?_⟩
  intro σ env o cfg sched1 sched2 s url r hr
  have := (fetchUrl_trace env o cfg sched1 sched2 s url).2 r hr
  cases hk : r.kind <;> simpa [kindExpected, hk] using this

open Aux in
/-- **ranges**: `_compute_ranges(n, c)` tiles `[0, n)` exactly, in order, for every `n` and every `c > 0`. -/
theorem C31_ranges (n c : Nat) (hc : 0 < c) : IsPartition n (computeRanges n c) := by
  have := tiles_range' (n := n) hc ((n + c - 1) / c) 0 (by omega)
  simpa [IsPartition, computeRanges, List.range_eq_range'] using this

open Aux in
/-- **reassembly**: concatenating the exact slices of the computed ranges gives the object back. -/
theorem C31_reassembly {α : Type} (obj : List α) (c : Nat) (hc : 0 < c) :
    (computeRanges obj.length c).flatMap (fun r => slice obj r.1 r.2) = obj := by
  have := tiles_flatMap obj _ 0 (C31_ranges obj.length c hc)
  simpa using this

open Aux in
/-- **decoded**: a successful fetch never returns more than the decoded cap. -/
theorem C31_decoded {σ : Type} (env : Env) (o : Origin σ) (cfg : Cfg) (sched1 sched2 : List Nat) (s : σ) (url : Url) (bs : Bytes)
    (h : (fetchUrl env o cfg sched1 sched2 s url).val = .ok bs) :
    bs.length ≤ (match cfg.maxDecompressed with | some m => m | none => cfg.maxFetch * 16) := by
  obtain ⟨sched, s', h'⟩ := fetchUrl_ok env o cfg sched1 sched2 s url bs h
  have := (fetchWithProbe_ok env o cfg sched s' url bs h').1
  unfold maxDecoded at this
  have hf : Gen.Fetch.decodedFactor = 16 := by rfl
  rw [hf] at this
  cases hm : cfg.maxDecompressed <;> simp [hm] at this ⊢ <;> exact this

open Aux in
/-- **exact**: what a successful fetch returns is the decoding (under the Content-Encoding that applies) of either the *whole*
body of a successful GET response (never a truncated stream), or the in-order concatenation of one complete, in-contract
(206, exact length, Content-Range consistent with the request and the probed size `n > 0`) chunk body per computed range. -/
theorem C31_exact {σ : Type} (env : Env) (o : Origin σ) (cfg : Cfg) (sched1 sched2 : List Nat) (s : σ) (url : Url) (bs : Bytes)
    (h : (fetchUrl env o cfg sched1 sched2 s url).val = .ok bs) :
    ∃ data ce, DecodedFrom env cfg ce data bs ∧ (WholeGetBody env o data ∨ ∃ n, 0 < n ∧ Reassembled o cfg n data) := by
  obtain ⟨sched, s', h'⟩ := fetchUrl_ok env o cfg sched1 sched2 s url bs h
  exact (fetchWithProbe_ok env o cfg sched s' url bs h').2

/-- **decoded bytes held**: the per-call limit both bounded decoders hand to the library is never `0` (zlib's "unlimited") and never
more than one byte past the remaining budget; hence, whatever the body (any sequence of library answers, a bomb included), the
gzip and the zstd loop stop after producing at most `cap + 1` decoded bytes — within `max_decompressed_bytes` plus one chunk. -/
theorem C31_inflate_bound (cap : Nat) :
    (∀ total, total ≤ cap →
      0 < inflateLimit Gen.Fetch.gzipLimitOffset cap total ∧ total + inflateLimit Gen.Fetch.gzipLimitOffset cap total ≤ cap + 1 ∧
      0 < inflateLimit Gen.Fetch.zstdLimitOffset cap total ∧ total + inflateLimit Gen.Fetch.zstdLimitOffset cap total ≤ cap + 1 ∧
      inflateLimit Gen.Fetch.gzipLimitOffset cap total ≤ 65536 ∧ inflateLimit Gen.Fetch.zstdLimitOffset cap total ≤ 65536) ∧
    (∀ (avail : List Nat) (total : Nat), total ≤ cap →
      inflateTotal true Gen.Fetch.gzipCapGuard Gen.Fetch.gzipLimitOffset cap avail total ≤ cap + 1 ∧
      inflateTotal false Gen.Fetch.zstdCapGuard Gen.Fetch.zstdLimitOffset cap avail total ≤ cap + 1) := by
  have hg : Gen.Fetch.gzipLimitOffset = 1 := by rfl
  have hz : Gen.Fetch.zstdLimitOffset = 1 := by rfl
  have hc : Gen.Fetch.inflateChunk = 65536 := by rfl
  have hgg : Gen.Fetch.gzipCapGuard = ">" := by rfl
  have hzg : Gen.Fetch.zstdCapGuard = ">" := by rfl
  have hlim : ∀ total, total ≤ cap → 0 < inflateLimit 1 cap total ∧ total + inflateLimit 1 cap total ≤ cap + 1 ∧
      inflateLimit 1 cap total ≤ 65536 := by
    intro total ht
    unfold inflateLimit
    rw [hc]
    omega
  constructor
  · intro total ht
    rw [hg, hz]
    obtain ⟨h1, h2, h3⟩ := hlim total ht
    exact ⟨h1, h2, h1, h2, h3, h3⟩
  · have loop : ∀ (z : Bool) (avail : List Nat) (total : Nat), total ≤ cap → inflateTotal z ">" 1 cap avail total ≤ cap + 1 := by
      intro z avail
      induction avail with
      | nil => intro total ht; simp [inflateTotal]; omega
      | cons a rest ih =>
        intro total ht
        obtain ⟨h1, h2, _⟩ := hlim total ht
        have hout : total + libAnswer z (inflateLimit 1 cap total) a ≤ cap + 1 := by
          unfold libAnswer
          rw [if_neg (by omega)]
          omega
        unfold inflateTotal
        simp only [Aux.cmp_gt]
        split
        · exact hout
        · rename_i hle
          simp only [gt_iff_lt, decide_eq_true_eq, Nat.not_lt] at hle
          exact ih _ hle
    intro avail total ht
    rw [hg, hz, hgg, hzg]
    exact ⟨loop true avail total ht, loop false avail total ht⟩

/-- **sequences on one pool**: for fetches issued one after the other on one long-lived `FetchConfig`, each fetch only contacts
URLs accepted by the validator configured *for that fetch* — an acceptance made for an earlier fetch (another validator object,
or the same allow-list before a host was revoked) authorises nothing later; and the code keeps no validation state between
requests (extracted). -/
theorem C31_sequence {σ : Type} (o : Origin σ) (cfg : Cfg) :
    Gen.Fetch.validationStateless = true ∧
    ∀ (steps : List SeqStep) (s : σ), ∀ p ∈ fetchSeq o cfg steps s,
      Validated p.1.env.valid (p.2.tr.groups.map fun g => ⟨g.urls, g.redirects⟩) ∧
      RedirectsBounded cfg.maxRedirects (p.2.tr.groups.map fun g => ⟨g.urls, g.redirects⟩) := by
  refine ⟨by rfl, ?_⟩
  intro steps
  induction steps with
  | nil => intro s p hp; simp [fetchSeq] at hp
  | cons st rest ih =>
    intro s p hp
    simp only [fetchSeq, List.mem_cons] at hp
    rcases hp with rfl | hp
    · exact ⟨C31_validated st.env o cfg st.sched1 st.sched2 s st.url, C31_redirects st.env o cfg st.sched1 st.sched2 s st.url⟩
    · exact ih _ p hp

/-- an origin whose complete in-contract 206 bodies are the requested slices of `obj` (it may still ignore ranges, answer
short or long, redirect, fail, lie about sizes: those answers are not in-contract) -/
def RangeHonest {σ : Type} (o : Origin σ) (obj : Bytes) (n : Nat) : Prop :=
  ∀ rg data, Aux.ChunkBody o (some n) rg data → data = slice obj rg.1 rg.2

open Aux in
/-- **exact, parallel path**: against such an origin the reassembled bytes *are* the object (every `n`, chunk size, schedule). -/
theorem C31_exact_parallel {σ : Type} (o : Origin σ) (cfg : Cfg) (obj data : Bytes) (hc : 0 < cfg.chunkSize)
    (honest : RangeHonest o obj obj.length) (h : Reassembled o cfg obj.length data) : data = obj := by
  obtain ⟨parts, hl, rfl, hp⟩ := h
  have hparts : parts = (computeRanges obj.length cfg.chunkSize).map (fun r => slice obj r.1 r.2) := by
    apply List.ext_getElem?
    intro i
    by_cases hi : i < parts.length
    · have hi' : i < (computeRanges obj.length cfg.chunkSize).length := by omega
      rw [List.getElem?_map, List.getElem?_eq_getElem hi, List.getElem?_eq_getElem hi']
      simp only [Option.map_some, Option.some.injEq]
      exact honest _ _ (hp i _ _ (List.getElem?_eq_getElem hi') (List.getElem?_eq_getElem hi))
    · rw [List.getElem?_eq_none (by omega), List.getElem?_eq_none (by simp; omega)]
  rw [hparts, ← List.flatMap_def]
  exact C31_reassembly obj cfg.chunkSize hc

/-- an origin whose 206 responses only pass the Content-Range check against the true object size -/
def ContentRangeHonest {σ : Type} (o : Origin σ) (obj : Bytes) : Prop :=
  ∀ s u rg r m, (o s ⟨.get, u, some rg⟩).1 = .ok r → r.status = 206 →
    contentRangeMismatch r.contentRange rg.1 rg.2 (some m) = false → m = obj.length

open Aux in
/-- the repaired defect: a probe that lies about the size cannot lead to a success when chunk responses name the real one -/
theorem C31_lying_probe {σ : Type} (o : Origin σ) (cfg : Cfg) (obj data : Bytes) (n : Nat) (hn : 0 < n) (hc : 0 < cfg.chunkSize)
    (honest : ContentRangeHonest o obj) (h : Reassembled o cfg n data) : n = obj.length := by
  obtain ⟨parts, hl, _, hp⟩ := h
  have hlen : 0 < (computeRanges n cfg.chunkSize).length := by
    have : 0 < (n + cfg.chunkSize - 1) / cfg.chunkSize := by
      rw [lt_chunks_iff hc]; omega
    simpa [computeRanges] using this
  obtain ⟨s, u, r, ho, h206, hcr, _⟩ := hp 0 _ _ (List.getElem?_eq_getElem hlen) (List.getElem?_eq_getElem (by omega))
  exact honest s u _ r n ho h206 hcr

/-! ### non-vacuity: a concrete honest origin, and the witness of the repaired defect -/
namespace Examples

def env0 : Env where
  valid := fun _ => true
  join := fun _ _ => none
  presigned := fun _ => false
  decompress := fun _ _ _ => none
  bracketOk := fun _ => false
def obj0 : Bytes := [1, 2, 3]
/-- HEAD: 200, Content-Length 3, Accept-Ranges bytes; range GET: honest 206 slices -/
def origin0 : Origin Unit := fun _ req =>
  match req.method, req.range with
  | .head, _ => (.ok { status := 200, contentLength := some "3".toList, acceptRanges := some "bytes".toList }, ())
  | .get, some (s, e) => (.ok { status := 206, segs := [Spec.slice obj0 s e] }, ())
  | .get, none => (.ok { status := 200, segs := [obj0] }, ())
def cfg0 : Cfg := { parallelThreshold := 1, chunkSize := 2, maxFetch := 100, maxDecompressed := none, maxRedirects := 2 }

example : (fetchUrl env0 origin0 cfg0 [0, 1] [] () "http://h/o".toList).val = .ok obj0 := by rfl
example : (fetchUrl env0 origin0 cfg0 [1, 1, 0] [] () "http://h/o".toList).tr.groups.length = 4 := by rfl

example : RangeHonest origin0 obj0 obj0.length := by
  intro rg data h
  obtain ⟨s, u, r, ho, _, _, _, hd, _⟩ := h
  obtain ⟨a, b⟩ := rg
  simp only [origin0] at ho
  injection ho with ho
  subst ho
  simpa using hd

/-- witness of the repaired defect: HEAD under-reports (2 of 3 bytes) while the 206s name the real complete length -/
def originLie : Origin Unit := fun _ req =>
  match req.method, req.range with
  | .head, _ => (.ok { status := 200, contentLength := some "2".toList, acceptRanges := some "bytes".toList }, ())
  | .get, some (s, e) =>
    (.ok {
      status := 206
      segs := [Spec.slice obj0 s e]
      contentRange := some ("bytes ".toList ++ natToDec s ++ '-' :: natToDec e ++ "/3".toList) }, ())
  | .get, none => (.ok { status := 200, segs := [obj0] }, ())

example : (match (fetchUrl env0 originLie cfg0 [0, 1] [] () "http://h/o".toList).val with
    | .error (.contentRangeMismatch _) => true
    | _ => false) = true := by decide +kernel

end Examples

end VgiVerif.C31
