import VgiVerif.Model.C31
import VgiVerif.Spec.C31
/-
C31 property theorems about the fetch bookkeeping (helper lemmas in `Aux`; the obligations are at the bottom).
The redaction theorems are in `Proofs/C31Url.lean`.
-/
namespace VgiVerif.C31
open VgiVerif.C31.Spec (Validated RedirectsBounded ReadBounded Tiles IsPartition slice)

namespace Aux

/-! ### extracted shapes the proofs rely on (re-checked whenever the source changes) -/

theorem limitCmp : Gen.Fetch.redirectLimitCmp = ">=" := by rfl
theorem rangeOffset : Gen.Fetch.redirectRangeOffset = 1 := by rfl
theorem fullGuard : Gen.Fetch.fullReadGuard = ">" := by rfl
theorem rangeMaxGuard : Gen.Fetch.rangeMaxGuard = ">" := by rfl
theorem rangeExpectedGuard : Gen.Fetch.rangeExpectedGuard = ">" := by rfl
theorem rangeFinalGuard : Gen.Fetch.rangeFinalGuard = "!=" := by rfl
theorem reassembledGuard : Gen.Fetch.reassembledGuard = ">" := by rfl
theorem readChunk : Gen.Fetch.readChunk = 65536 := by rfl
theorem rangeReadChunk : Gen.Fetch.rangeReadChunk = 65536 := by rfl
theorem shapes :
    Gen.Fetch.validateBeforeRequest = true ∧ Gen.Fetch.manualRedirects = true ∧ Gen.Fetch.onlyNextUrlAssigned = true ∧
    Gen.Fetch.redirectStepRecognised = true ∧ Gen.Fetch.redirectCheckOrder = ["limit", "location", "target"] ∧
    Gen.Fetch.autoDecompressOff = true ∧ Gen.Fetch.statusCheckRecognised = true ∧ Gen.Fetch.chunkCheckRecognised = true ∧
    Gen.Fetch.rangesRecognised = true ∧ Gen.Fetch.retryRecognised = true ∧ Gen.Fetch.redactRecognised = true ∧
    Gen.Fetch.chunkRangeCheckRecognised = true ∧ Gen.Fetch.parallelNonEmpty = true ∧ Gen.Fetch.contentRangeGroup1 = true := by
  decide

theorem cmp_gt (a b : Nat) : cmpNat ">" a b = decide (a > b) := by simp [cmpNat]
theorem cmp_ge (a b : Nat) : cmpNat ">=" a b = decide (a ≥ b) := by simp [cmpNat]
theorem cmp_ne (a b : Nat) : cmpNat "!=" a b = decide (a ≠ b) := by simp [cmpNat]

/-! ### `_request_following_redirects` -/

/-- every URL requested was accepted by the validator, and the redirect count respects the limit -/
theorem follow_inv {σ : Type} (env : Env) (o : Origin σ) (cfg : Cfg) (m : Method) (rng : Option (Nat × Nat)) :
    ∀ (fuel count : Nat) (s : σ) (cur : Url), count ≤ cfg.maxRedirects →
      (∀ u ∈ (follow env o cfg m rng fuel count s cur).urls, env.valid u = true) ∧
      count + (follow env o cfg m rng fuel count s cur).redirects ≤ cfg.maxRedirects ∧
      (follow env o cfg m rng fuel count s cur).urls.length ≤ (follow env o cfg m rng fuel count s cur).redirects + 1 := by
  intro fuel
  induction fuel with
  | zero => intro count s cur h; simp [follow]; exact h
  | succ fuel ih =>
    intro count s cur hc
    unfold follow
    by_cases hv : env.valid cur = true
    · simp only [hv, Bool.not_true, Bool.false_eq_true, if_false]
      split
      · simp [hv]; exact hc
      · rename_i r s' _
        split
        · simp [hv]; exact hc
        · rw [limitCmp, cmp_ge]
          split
          · simp [hv]; exact hc
          · rename_i hlim
            have hlt : count + 1 ≤ cfg.maxRedirects := by
              simp only [ge_iff_le, decide_eq_true_eq, Nat.not_le] at hlim; omega
            split
            · simp [hv]; exact hc
            · simp [hv]; exact hc
            · split
              · simp [hv]; exact hc
              · split
                · simp [hv]; exact hc
                · simp [hv]; exact hc
                · rename_i next _ _ _
                  obtain ⟨h1, h2, h3⟩ := ih (count + 1) s' next hlt
                  refine ⟨?_, ?_, ?_⟩
                  · intro u hu
                    simp only [List.mem_cons] at hu
                    rcases hu with rfl | hu
                    · exact hv
                    · exact h1 u hu
                  · show count + ((follow env o cfg m rng fuel (count + 1) s' next).redirects + 1) ≤ cfg.maxRedirects
                    omega
                  · show (cur :: (follow env o cfg m rng fuel (count + 1) s' next).urls).length ≤
                      (follow env o cfg m rng fuel (count + 1) s' next).redirects + 1 + 1
                    simp only [List.length_cons]; omega
    · simp only [Bool.not_eq_true] at hv
      simp [hv]; exact hc

/-- `follow` never runs out of loop iterations when started as the code starts it -/
theorem follow_total {σ : Type} (env : Env) (o : Origin σ) (cfg : Cfg) (m : Method) (rng : Option (Nat × Nat)) :
    ∀ (fuel count : Nat) (s : σ) (cur : Url), count + fuel = cfg.maxRedirects + 1 → 0 < fuel →
      (follow env o cfg m rng fuel count s cur).val ≠ .error .unreachable := by
  intro fuel
  induction fuel with
  | zero => intro _ _ _ _ h; omega
  | succ fuel ih =>
    intro count s cur hsum _
    unfold follow
    split
    · simp
    · split
      · rename_i f _ _
        cases f <;> simp [requestError]
      · split
        · simp
        · rw [limitCmp, cmp_ge]
          split
          · simp
          · rename_i hlim
            simp only [ge_iff_le, decide_eq_true_eq, Nat.not_le] at hlim
            split
            · simp
            · simp
            · split
              · simp
              · split
                · simp
                · simp
                · rename_i next _ _ _
                  exact ih (count + 1) _ next (by omega) (by omega)

/-! ### body readers -/

theorem streamRead_none (n : Nat) : ∀ segs : List Bytes, streamRead n segs = none → segs.flatten = [] := by
  intro segs
  induction segs with
  | nil => intro _; rfl
  | cons seg rest ih =>
    intro h
    unfold streamRead at h
    split at h
    · rename_i he
      have : seg = [] := by simpa using he
      subst this
      simpa using ih h
    · split at h <;> simp at h

theorem streamRead_some (n : Nat) : ∀ (segs : List Bytes) (chunk : Bytes) (segs' : List Bytes),
    streamRead n segs = some (chunk, segs') →
      chunk.length ≤ n ∧ segs.flatten = chunk ++ segs'.flatten := by
  intro segs
  induction segs with
  | nil => intro _ _ h; simp [streamRead] at h
  | cons seg rest ih =>
    intro chunk segs' h
    unfold streamRead at h
    split at h
    · rename_i he
      have : seg = [] := by simpa using he
      subst this
      simpa using ih chunk segs' h
    · split at h
      · rename_i hle
        simp only [Option.some.injEq, Prod.mk.injEq] at h
        obtain ⟨rfl, rfl⟩ := h
        exact ⟨hle, by simp⟩
      · simp only [Option.some.injEq, Prod.mk.injEq] at h
        obtain ⟨rfl, rfl⟩ := h
        refine ⟨by simp [List.length_take]; omega, ?_⟩
        simp [List.flatten_cons, ← List.append_assoc, List.take_append_drop]

theorem readBodyLoop_inv (maxFetch : Nat) (fault : Option Fault) :
    ∀ (fuel : Nat) (segs : List Bytes) (total : Nat) (acc : Bytes), total ≤ maxFetch →
      (readBodyLoop maxFetch fault fuel segs total acc).bytes ≤ maxFetch + 65536 ∧
      (∀ data, (readBodyLoop maxFetch fault fuel segs total acc).val = .ok data →
        data = acc ++ segs.flatten ∧ fault = none) := by
  intro fuel
  induction fuel with
  | zero => intro segs total acc h; simp [readBodyLoop]; omega
  | succ fuel ih =>
    intro segs total acc ht
    unfold readBodyLoop
    split
    · rename_i hnone
      have hf := streamRead_none _ _ hnone
      cases fault with
      | some f => simp; omega
      | none => simp [hf]; omega
    · rename_i chunk segs' hsome
      obtain ⟨hlen, hflat⟩ := streamRead_some _ _ _ _ hsome
      rw [readChunk] at hlen
      rw [fullGuard, cmp_gt]
      split
      · simp; omega
      · rename_i hg
        simp only [gt_iff_lt, decide_eq_true_eq, Nat.not_lt] at hg
        obtain ⟨h1, h2⟩ := ih segs' (total + chunk.length) (acc ++ chunk) hg
        refine ⟨h1, ?_⟩
        intro data hd
        obtain ⟨h3, h4⟩ := h2 data hd
        refine ⟨?_, h4⟩
        rw [h3, hflat, List.append_assoc]

theorem readRangeLoop_inv (maxFetch expected : Nat) (fault : Option Fault) :
    ∀ (fuel : Nat) (segs : List Bytes) (total : Nat) (acc : Bytes), total ≤ maxFetch → total ≤ expected →
      (readRangeLoop maxFetch expected fault fuel segs total acc).bytes ≤ min expected maxFetch + 1 ∧
      (∀ data, (readRangeLoop maxFetch expected fault fuel segs total acc).val = .ok data →
        data = acc ++ segs.flatten ∧ fault = none ∧ total + segs.flatten.length = expected) := by
  intro fuel
  induction fuel with
  | zero => intro segs total acc h1 h2; simp [readRangeLoop]; omega
  | succ fuel ih =>
    intro segs total acc ht he
    unfold readRangeLoop
    simp only
    split
    · rename_i hnone
      have hf := streamRead_none _ _ hnone
      cases fault with
      | some f => simp; omega
      | none =>
        rw [rangeFinalGuard, cmp_ne]
        by_cases hte : total = expected
        · simp [hte, hf]; omega
        · simp [hte]; omega
    · rename_i chunk segs' hsome
      obtain ⟨hlen, hflat⟩ := streamRead_some _ _ _ _ hsome
      rw [rangeReadChunk] at hlen
      have hb : total + chunk.length ≤ min expected maxFetch + 1 := by omega
      rw [rangeMaxGuard, cmp_gt, rangeExpectedGuard, cmp_gt]
      split
      · simp; exact hb
      · rename_i hg1
        split
        · simp; exact hb
        · rename_i hg2
          simp only [gt_iff_lt, decide_eq_true_eq, Nat.not_lt] at hg1 hg2
          obtain ⟨h1, h2⟩ := ih segs' (total + chunk.length) (acc ++ chunk) hg1 hg2
          refine ⟨h1, ?_⟩
          intro data hd
          obtain ⟨h3, h4, h5⟩ := h2 data hd
          refine ⟨?_, h4, ?_⟩
          · rw [h3, hflat, List.append_assoc]
          · rw [hflat, List.length_append]; omega

theorem readBody_spec (cfg : Cfg) (r : Resp) :
    (readBody cfg r).bytes ≤ cfg.maxFetch + 65536 ∧
    (∀ data, (readBody cfg r).val = .ok data → data = r.segs.flatten ∧ r.streamFault = none) := by
  have := readBodyLoop_inv cfg.maxFetch r.streamFault (streamFuel r.segs) r.segs 0 [] (Nat.zero_le _)
  simpa [readBody] using this

theorem readRange_spec (cfg : Cfg) (expected : Nat) (r : Resp) :
    (readRange cfg expected r).bytes ≤ min expected cfg.maxFetch + 1 ∧
    (∀ data, (readRange cfg expected r).val = .ok data →
      data = r.segs.flatten ∧ r.streamFault = none ∧ r.segs.flatten.length = expected) := by
  have := readRangeLoop_inv cfg.maxFetch expected r.streamFault (streamFuel r.segs) r.segs 0 []
    (Nat.zero_le _) (Nat.zero_le _)
  simpa [readRange] using this

/-! ### `_compute_ranges` -/

theorem lt_chunks_iff {n c : Nat} (hc : 0 < c) (k : Nat) : k < (n + c - 1) / c ↔ k * c < n := by
  rw [Nat.lt_iff_add_one_le, Nat.le_div_iff_mul_le hc, Nat.add_mul, Nat.one_mul]
  omega

theorem tiles_range' {n c : Nat} (hc : 0 < c) :
    ∀ (len k : Nat), k + len = (n + c - 1) / c →
      Tiles (min (k * c) n) n ((List.range' k len).map fun i => (i * c, min (i * c + c - 1) (n - 1))) := by
  intro len
  induction len with
  | zero =>
    intro k hk
    simp only [List.range'_zero, List.map_nil, Tiles]
    have : ¬ k * c < n := by rw [← lt_chunks_iff hc]; omega
    omega
  | succ len ih =>
    intro k hk
    have hlt : k * c < n := by rw [← lt_chunks_iff hc]; omega
    have hnext := ih (k + 1) (by omega)
    rw [Nat.add_mul, Nat.one_mul] at hnext
    simp only [List.range'_succ, List.map_cons, Tiles]
    refine ⟨by omega, by omega, by omega, ?_⟩
    have : min (k * c + c - 1) (n - 1) + 1 = min (k * c + c) n := by omega
    rw [this]
    exact hnext

theorem tiles_flatMap {α : Type} (obj : List α) :
    ∀ (rs : List (Nat × Nat)) (pos : Nat), Tiles pos obj.length rs →
      rs.flatMap (fun r => slice obj r.1 r.2) = obj.drop pos := by
  intro rs
  induction rs with
  | nil =>
    intro pos h
    simp only [Tiles] at h
    subst h
    simp
  | cons r rest ih =>
    intro pos h
    obtain ⟨s, e⟩ := r
    simp only [Tiles] at h
    obtain ⟨rfl, hse, _, hrest⟩ := h
    rw [List.flatMap_cons, ih _ hrest]
    have : obj.drop (e + 1) = (obj.drop s).drop (e + 1 - s) := by
      rw [List.drop_drop]; congr 1; omega
    show List.take (e + 1 - s) (List.drop s obj) ++ List.drop (e + 1) obj = List.drop s obj
    rw [this, List.take_append_drop]

/-! ### trace invariant -/

def kindExpected : ReadKind → Option Nat
  | .full => none
  | .range e => some e

/-- every logical request validated + redirect-bounded, every body read bounded -/
def TraceOK (env : Env) (cfg : Cfg) (t : Trace) : Prop :=
  (∀ g ∈ t.groups, (∀ u ∈ g.urls, env.valid u = true) ∧ g.redirects ≤ cfg.maxRedirects ∧ g.urls.length ≤ g.redirects + 1) ∧
  (∀ r ∈ t.reads, ReadBounded cfg.maxFetch (kindExpected r.kind) r.bytes)

theorem traceOK_empty (env : Env) (cfg : Cfg) : TraceOK env cfg {} := by
  constructor <;> intro _ h <;> cases h

theorem traceOK_app {env : Env} {cfg : Cfg} {a b : Trace} (ha : TraceOK env cfg a) (hb : TraceOK env cfg b) :
    TraceOK env cfg (a.app b) := by
  constructor
  · intro g hg
    simp only [Trace.app, List.mem_append] at hg
    rcases hg with hg | hg
    · exact ha.1 g hg
    · exact hb.1 g hg
  · intro r hr
    simp only [Trace.app, List.mem_append] at hr
    rcases hr with hr | hr
    · exact ha.2 r hr
    · exact hb.2 r hr

theorem request_trace {σ : Type} (env : Env) (o : Origin σ) (cfg : Cfg) (m : Method) (rng : Option (Nat × Nat))
    (s : σ) (url : Url) : TraceOK env cfg (request env o cfg m rng s url).trace := by
  obtain ⟨h1, h2, h3⟩ := follow_inv env o cfg m rng (cfg.maxRedirects + Gen.Fetch.redirectRangeOffset) 0 s url (Nat.zero_le _)
  constructor
  · intro g hg
    simp only [FollowRes.trace, List.mem_singleton] at hg
    subst hg
    have h2' : (follow env o cfg m rng (cfg.maxRedirects + Gen.Fetch.redirectRangeOffset) 0 s url).redirects ≤ cfg.maxRedirects := by
      omega
    exact ⟨h1, h2', h3⟩
  · intro r hr
    simp [FollowRes.trace] at hr

theorem traceOK_withRead {env : Env} {cfg : Cfg} {t : Trace} (ht : TraceOK env cfg t) (k : ReadKind) (n : Nat)
    (hb : ReadBounded cfg.maxFetch (kindExpected k) n) : TraceOK env cfg ⟨t.groups, [⟨k, n⟩]⟩ := by
  constructor
  · exact ht.1
  · intro r hr
    simp only [List.mem_singleton] at hr
    subst hr
    exact hb

theorem range_bound (cfg : Cfg) (e : Nat) (r : Resp) :
    ReadBounded cfg.maxFetch (kindExpected (.range e)) (readRange cfg e r).bytes := (readRange_spec cfg e r).1

theorem full_bound (cfg : Cfg) (r : Resp) :
    ReadBounded cfg.maxFetch (kindExpected .full) (readBody cfg r).bytes := (readBody_spec cfg r).1

theorem headProbe_trace {σ : Type} (env : Env) (o : Origin σ) (cfg : Cfg) (s : σ) (url : Url) :
    TraceOK env cfg (headProbe env o cfg s url).tr := by
  have h := request_trace env o cfg .head none s url
  unfold headProbe
  simp only
  repeat' split
  all_goals exact h

theorem rangeProbe_trace {σ : Type} (env : Env) (o : Origin σ) (cfg : Cfg) (s : σ) (url : Url) :
    TraceOK env cfg (rangeProbe env o cfg s url).tr := by
  have h := request_trace env o cfg .get (some (0, 0)) s url
  unfold rangeProbe
  simp only
  repeat' split
  all_goals first
    | exact h
    | exact traceOK_withRead h _ _ (range_bound cfg 1 _)

theorem singleGet_trace {σ : Type} (env : Env) (o : Origin σ) (cfg : Cfg) (s : σ) (url : Url) (ce : List Char) :
    TraceOK env cfg (singleGet env o cfg s url ce).tr := by
  have h := request_trace env o cfg .get none s url
  unfold singleGet
  simp only
  repeat' split
  all_goals first
    | exact h
    | exact traceOK_withRead h _ _ (full_bound cfg _)

theorem fetchOneChunk_trace {σ : Type} (env : Env) (o : Origin σ) (cfg : Cfg) (s : σ) (url : Url) (rg : Nat × Nat)
    (total : Option Nat) : TraceOK env cfg (fetchOneChunk env o cfg s url rg total).tr := by
  have h := request_trace env o cfg .get (some rg) s url
  unfold fetchOneChunk
  simp only
  repeat' split
  all_goals first
    | exact h
    | exact traceOK_withRead h _ _ (range_bound cfg _ _)

theorem collect_trace {σ : Type} (env : Env) (o : Origin σ) (cfg : Cfg) (url : Url) (total : Option Nat)
    (ranges : List (Nat × Nat)) :
    ∀ (sched : List Nat) (results : List (Nat × Bytes)) (tr : Trace) (s : σ), TraceOK env cfg tr →
      TraceOK env cfg (collect env o cfg url total ranges sched results tr s).tr := by
  intro sched
  induction sched with
  | nil => intro results tr s h; unfold collect; split <;> exact h
  | cons i rest ih =>
    intro results tr s h
    unfold collect
    split
    · exact h
    · split
      · exact ih _ _ _ h
      · rename_i rg _
        have hc := traceOK_app h (fetchOneChunk_trace env o cfg s url rg total)
        simp only
        split
        · split
          · exact ih _ _ _ hc
          · exact hc
        · split
          · exact ih _ _ _ hc
          · exact ih _ _ _ hc

theorem fetchChunks_trace {σ : Type} (env : Env) (o : Origin σ) (cfg : Cfg) (sched : List Nat) (s : σ) (url : Url) (n : Nat) :
    TraceOK env cfg (fetchChunks env o cfg sched s url n).tr := by
  have h := collect_trace env o cfg url (some n) (computeRanges n cfg.chunkSize) sched [] {} s (traceOK_empty env cfg)
  unfold fetchChunks
  simp only
  repeat' split
  all_goals exact h

theorem fetchEncoded_trace {σ : Type} (env : Env) (o : Origin σ) (cfg : Cfg) (sched : List Nat) (s : σ) (url : Url) :
    TraceOK env cfg (fetchEncoded env o cfg sched s url).tr := by
  have hp : TraceOK env cfg (if env.presigned url then rangeProbe env o cfg s url else headProbe env o cfg s url).tr := by
    split
    · exact rangeProbe_trace env o cfg s url
    · exact headProbe_trace env o cfg s url
  unfold fetchEncoded
  simp only
  generalize (if env.presigned url then rangeProbe env o cfg s url else headProbe env o cfg s url) = p at hp
  repeat' split
  all_goals first
    | exact hp
    | exact traceOK_app hp (fetchChunks_trace env o cfg sched _ url _)
    | exact traceOK_app hp (singleGet_trace env o cfg _ url _)

theorem fetchWithProbe_trace {σ : Type} (env : Env) (o : Origin σ) (cfg : Cfg) (sched : List Nat) (s : σ) (url : Url) :
    TraceOK env cfg (fetchWithProbe env o cfg sched s url).tr := by
  have h := fetchEncoded_trace env o cfg sched s url
  unfold fetchWithProbe
  simp only
  split <;> exact h

theorem fetchUrl_trace {σ : Type} (env : Env) (o : Origin σ) (cfg : Cfg) (sched1 sched2 : List Nat) (s : σ) (url : Url) :
    TraceOK env cfg (fetchUrl env o cfg sched1 sched2 s url).tr := by
  have h := fetchWithProbe_trace env o cfg sched1 s url
  unfold fetchUrl
  simp only
  split
  · split
    · exact traceOK_app h (fetchWithProbe_trace env o cfg sched2 _ url)
    · exact h
  · exact h

end Aux
end VgiVerif.C31
