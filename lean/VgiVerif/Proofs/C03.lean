import VgiVerif.Model.C03
import VgiVerif.Spec.C03
import VgiVerif.Lemmas.C03Compact
/-
C03 property theorems (the obligations).  Helper lemmas: `Lemmas/C03Wire.lean`, `Lemmas/C03Deser.lean`,
`Lemmas/C03Compact.lean` (namespace `Aux`).  `env` is any Arrow environment (no law of it is needed here: one trip
through a float32 column rounds once).
-/
namespace VgiVerif.C03
open VgiVerif.Py

/-- The extracted tables and shapes are the ones the model and the proofs are about: scalar annotation ↦ Arrow type,
Enum / Arrow-object / frozenset / dict mapping, the compact scalar table, element conversion for frozenset and dict
(repaired tree), the explicit-ArrowType guard of the compact plan (repaired tree), the dictionary-free construction of
columns with an Enum below a struct (repaired tree; what makes the ideal `Py.arrowRT` a faithful environment), the branch orders of the two
conversion functions, distinct one-byte markers. -/
theorem C03_shapes :
    Gen.C03.scalarArrow = [("str", .utf8), ("bytes", .binary), ("int", .int .i64), ("float", .f64), ("bool", .bool)]
    ∧ Gen.C03.enumIsDictStr = true ∧ Gen.C03.arrowObjIsBinary = true ∧ Gen.C03.setIsList = true ∧ Gen.C03.dictIsMap = true
    ∧ Gen.C03.compactTypes.map Prod.fst = ["bytes", "str", "int", "float", "bool"]
    ∧ Gen.C03.setRecurses = true ∧ Gen.C03.dictRecurses = true ∧ Gen.C03.compactRefusesExplicit = true
    ∧ Gen.C03.enumFallbackByValue = true ∧ Gen.C03.buildsDictionaryFree = true ∧ Gen.C03.transientFactoryPerInstance = true
    ∧ Gen.C03.serBranches = ["None", "exact-scalar", "Schema", "RecordBatch", "ArrowSerializableDataclass",
        "_BytesSerializable", "Enum", "frozenset", "dict", "list"]
    ∧ Gen.C03.deserBranches = ["None", "Schema", "RecordBatch", "deserialize_from_bytes", "Enum", "dataclass-dict",
        "frozenset", "dict", "list"]
    ∧ Gen.C03.compactMarker ≠ Gen.C03.ipcFirstByte ∧ Gen.C03.compactMarker ≠ Gen.C03.unionMarker
    ∧ Gen.C03.unionMarker ≠ Gen.C03.ipcFirstByte
    ∧ Gen.C03.compactMarker < 256 ∧ Gen.C03.unionMarker < 256 ∧ Gen.C03.tagMax = 65535 := by
  refine ⟨rfl, rfl, rfl, rfl, rfl, by decide, rfl, rfl, rfl, rfl, rfl, rfl, by decide, by decide, by decide, by decide, by decide,
    by decide, by decide, rfl⟩

/-- Round trip of a value of any supported annotation, any nesting depth: converted, stored in a typed Arrow column,
read back, converted back = the value with transient fields at their defaults (float32 fields rounded). -/
theorem C03_roundtrip (env : Env) : Spec.RoundTrip env (roundtrip env) :=
  fun a v hs h => Aux.roundtrip_ok env a v hs h

/-- …and that is the value itself when no transient and no float32 field occurs below. -/
theorem C03_roundtrip_exact (env : Env) : Spec.Exact env :=
  fun a v he h => Aux.norm_exact env a v he h

/-- `cls.deserialize_from_bytes(obj.serialize_to_bytes())` for every supported class (field-level
`ArrowType(pa.binary())` dataclasses included) and every instance. -/
theorem C03_roundtrip_bytes (env : Env) : Spec.RoundTripBytes env (roundtripBytes env) :=
  fun n fs ofs hs h => Aux.roundtripBytes_ok env n fs ofs hs h

/-- a compact plan exists exactly for flat classes -/
theorem C03_compact_plan_iff_flat (fs : Fields) : (compactPlan true fs).isSome = flatF fs :=
  Aux.compactPlan_isSome fs

/-- the compact codec refuses every class with a non-flat field (containers, enums, nested dataclasses, Arrow objects,
explicit Arrow widths) -/
theorem C03_compact_refuses_nonflat : Spec.CompactRefusesNonFlat (compactPlan true) := by
  intro fs h
  have := Aux.compactPlan_isSome fs
  rw [h] at this
  cases hp : compactPlan true fs with
  | none => rfl
  | some p => rw [hp] at this; simp at this

/-- without msgpack there is no plan and `serialize_compact` answers "use Arrow" -/
theorem C03_no_msgpack (env : Env) (fs : Fields) (ofs : List (List Char × V)) :
    compactPlan false fs = Option.none ∧ serializeCompact env false fs ofs = .ok Option.none := by
  refine ⟨Aux.compactPlan_false fs, ?_⟩
  simp [serializeCompact, Aux.compactPlan_false]

theorem compact_payload (env : Env) (fs : Fields) (ofs : List (List Char × V)) (b : V)
    (hs : supportedF fs = true) (h : inhabitsF env fs ofs = true)
    (henc : serializeCompact env true fs ofs = .ok (some b)) :
    b = .packed (.dict (Aux.wireF id env fs ofs)) ∧ (compactPlan true fs).isSome = true := by
  unfold serializeCompact at henc
  cases hp : compactPlan true fs with
  | none => simp [hp] at henc
  | some p =>
    simp only [hp, Aux.T1F env fs ofs hs h] at henc
    refine ⟨?_, by simp⟩
    have : ∀ (c : Bool) (r : PackRes), (do
        let row ← (Except.ok (Aux.wireF id env fs ofs) : R _)
        if c then
          match r with
          | .ok => pure (some (V.packed (V.dict row)))
          | .overflow => Except.error Err.overflow
          | .unsupported => pure Option.none
        else pure Option.none) = Except.ok (some b) → b = .packed (.dict (Aux.wireF id env fs ofs)) := by
      intro c r hh
      cases c <;> cases r <;> simp [bind, Except.bind, pure, Except.pure] at hh
      exact hh.symm
    exact this _ _ henc

/-- Whatever the compact codec accepts decodes to the same object as the Arrow encoding. -/
theorem C03_compact_agrees (env : Env) :
    Spec.CompactAgrees env (serializeCompact env true) (deserializeCompact env true) (roundtripBytes env) := by
  intro n fs ofs b hs h henc
  obtain ⟨rfl, hp⟩ := compact_payload env fs ofs b hs h henc
  rw [Aux.roundtripBytes_ok env n fs ofs hs h]
  obtain ⟨p, hp'⟩ := Option.isSome_iff_exists.1 hp
  obtain ⟨k1, k2, _⟩ := Aux.compact_decode env fs ofs p hs h hp'
  simp only [deserializeCompact, hp', firstByte, bne_self_eq_false, Bool.false_eq_true, if_false, k1]
  show (construct fs (Aux.kwOf fs ofs) >>= fun o => pure (V.obj n o)) = _
  rw [k2]
  rfl

/-- the state info names the class of the state object (single), or lists it under the tag its name is found at (union) -/
def InfoFor (info : StateInfo) (n : List Char) (fs : Fields) : Prop :=
  match info with
  | .single c => c.name = n ∧ c.fs = fs
  | .union cs => ∃ tag, cs.findIdx? (fun c => c.name == n) = some tag ∧ (cs[tag]?).map (fun c => (c.name, c.fs)) = some (n, fs)

theorem state_inner (env : Env) (haveMsgpack : Bool) (n : List Char) (fs : Fields) (ofs : List (List Char × V)) (sb : V)
    (hs : supportedF fs = true) (h : inhabitsF env fs ofs = true)
    (hsb : (do
      let c ← serializeCompact env haveMsgpack fs ofs
      match c with
        | some b => pure b
        | Option.none => serBytes env fs ofs) = .ok sb) :
    deserializeStateBytes env haveMsgpack ⟨n, fs⟩ sb = .ok (.obj n (normF env fs ofs)) := by
  cases hc : serializeCompact env haveMsgpack fs ofs with
  | error e => simp [hc, bind, Except.bind] at hsb
  | ok c =>
    cases c with
    | none =>
      simp only [hc, bind, Except.bind, Aux.serBytes_ok env fs ofs hs h, Except.ok.injEq] at hsb
      subst hsb
      have hm : (Gen.C03.ipcFirstByte == Gen.C03.compactMarker) = false := by decide
      simp only [deserializeStateBytes, firstByte, Option.some.injEq, beq_iff_eq]
      rw [if_neg (by decide)]
      exact Aux.fromBytes_wire env n fs ofs hs h
    | some b =>
      simp only [hc, bind, Except.bind, pure, Except.pure, Except.ok.injEq] at hsb
      subst hsb
      cases haveMsgpack with
      | false => simp [(C03_no_msgpack env fs ofs).2] at hc
      | true =>
        obtain ⟨rfl, _⟩ := compact_payload env fs ofs b hs h hc
        have := C03_compact_agrees env n fs ofs _ hs h hc
        rw [Aux.roundtripBytes_ok env n fs ofs hs h] at this
        simp only [deserializeStateBytes, firstByte, beq_self_eq_true, if_true]
        exact this

/-- HTTP state payload: what `_serialize_state_bytes` writes (compact or Arrow, single or union-tagged envelope, with or
without msgpack) is read back by `_resolve_state_cls` + `_deserialize_state_bytes` as the same state. -/
theorem C03_state_bytes (env : Env) (haveMsgpack : Bool) (info : StateInfo) (n : List Char) (fs : Fields)
    (ofs : List (List Char × V)) (b : V) (hs : supportedF fs = true) (h : inhabitsF env fs ofs = true)
    (hinfo : InfoFor info n fs) (henc : serializeState env haveMsgpack info n fs ofs = .ok b) :
    deserializeState env haveMsgpack info b = .ok (.obj n (normF env fs ofs)) := by
  unfold serializeState at henc
  cases hsb : (do
      let c ← serializeCompact env haveMsgpack fs ofs
      match c with
        | some b => pure b
        | Option.none => serBytes env fs ofs : R V) with
  | error e =>
    exfalso
    cases hc : serializeCompact env haveMsgpack fs ofs with
    | error e' => simp [hc, bind, Except.bind] at henc
    | ok c =>
      cases c with
      | none => simp [hc, bind, Except.bind, Aux.serBytes_ok env fs ofs hs h] at hsb
      | some b' => simp [hc, bind, Except.bind, pure, Except.pure] at hsb
  | ok sb =>
    have hin := state_inner env haveMsgpack n fs ofs sb hs h hsb
    have henc' : (match info with
        | .single _ => (pure sb : R V)
        | .union cs =>
          match cs.findIdx? (fun (c : StateCls) => c.name == n) with
          | Option.none => .error .runtimeError
          | some tag => if tag ≤ Gen.C03.tagMax then pure (.tagged tag sb) else .error .valueError) = .ok b := by
      cases hc : serializeCompact env haveMsgpack fs ofs with
      | error e' => simp [hc, bind, Except.bind] at hsb
      | ok c =>
        cases c with
        | none =>
          simp only [hc, bind, Except.bind] at hsb henc
          rw [hsb] at henc
          exact henc
        | some b' =>
          simp only [hc, bind, Except.bind, pure, Except.pure] at hsb henc
          cases hsb
          exact henc
    cases info with
    | single c =>
      obtain ⟨rfl, rfl⟩ := hinfo
      simp only [pure, Except.pure, Except.ok.injEq] at henc'
      subst henc'
      simp only [deserializeState, resolveStateCls, bind, Except.bind]
      exact hin
    | union cs =>
      obtain ⟨tag, hf, hg⟩ := hinfo
      simp only [hf] at henc'
      by_cases htag : tag ≤ Gen.C03.tagMax
      · simp only [htag, if_true, pure, Except.pure, Except.ok.injEq] at henc'
        subst henc'
        cases hcs : cs[tag]? with
        | none => simp [hcs] at hg
        | some c =>
          simp only [hcs, Option.map_some, Option.some.injEq, Prod.mk.injEq] at hg
          obtain ⟨rfl, rfl⟩ := hg
          simp only [deserializeState, resolveStateCls, firstByte, bne_self_eq_false, Bool.false_eq_true, if_false, hcs, bind,
            Except.bind]
          exact hin
      · simp [htag] at henc'

/-- non-vacuity: the DESIGN §7.1 witness `D(s: frozenset[Color], m: dict[str, Inner])` is supported, the instance
inhabits it, and the model's round trip returns it unchanged -/
def colorAnn : Ann := .enum [("RED".toList, some "red".toList), ("GREEN".toList, some "RED".toList)]
def innerFs : Fields := .cons "x".toList false Option.none (.scalar .int) .nil
def witnessFs : Fields :=
  .cons "s".toList false Option.none (.set colorAnn)
    (.cons "m".toList false Option.none (.map (.scalar .str) (.dc "Inner".toList innerFs)) .nil)
def witnessObj : List (List Char × V) :=
  [("s".toList, .set [.enum "RED".toList]),
   ("m".toList, .dict [(.str "a".toList, .obj "Inner".toList [("x".toList, .int 1)])])]

example : supportedF witnessFs = true := by decide
example : inhabitsF concreteEnv witnessFs witnessObj = true := by decide
example : exactF witnessFs = true := by decide
example : roundtripBytes concreteEnv "D".toList witnessFs witnessObj = .ok (.obj "D".toList witnessObj) := by
  rw [C03_roundtrip_bytes concreteEnv _ _ _ (by decide) (by decide),
    Aux.normF_exact concreteEnv witnessFs witnessObj (by decide) (by decide)]
example : flatF witnessFs = false := by decide
example : flatF (.cons "n".toList false Option.none (.opt (.scalar .int)) .nil) = true := by decide

end VgiVerif.C03
