import VgiVerif.Model.C31Url
import VgiVerif.Spec.C31
/-
C31 redaction theorems: `redact_url` over the model of `urlsplit/urlparse/urlunparse` (Model/C31Url.lean).
Helper lemmas in `UrlAux`; the two obligations (`C31_redact`, `C31_redact_all`) at the bottom.
-/
namespace VgiVerif.C31
open VgiVerif.PyStr

namespace UrlAux

/-! ### list splitting -/

theorem takeWhile_pred {α : Type} (p : α → Bool) : ∀ (l : List α) x, x ∈ l.takeWhile p → p x = true := by
  intro l
  induction l with
  | nil => intro x h; simp at h
  | cons a l ih =>
    intro x h
    by_cases ha : p a = true
    · rw [List.takeWhile_cons_of_pos ha] at h
      simp only [List.mem_cons] at h
      rcases h with rfl | h
      · exact ha
      · exact ih x h
    · rw [List.takeWhile_cons_of_neg ha] at h; simp at h

theorem takeWhile_mem {α : Type} (p : α → Bool) (l : List α) x (h : x ∈ l.takeWhile p) : x ∈ l :=
  (List.takeWhile_sublist p).subset h

theorem dropWhile_mem {α : Type} (p : α → Bool) (l : List α) x (h : x ∈ l.dropWhile p) : x ∈ l :=
  (List.dropWhile_sublist p).subset h

theorem dropWhile_nil {α : Type} (p : α → Bool) : ∀ (l : List α), l.dropWhile p = [] → ∀ y ∈ l, p y = true := by
  intro l
  induction l with
  | nil => intro _ y h; simp at h
  | cons a l ih =>
    intro h y hy
    by_cases ha : p a = true
    · rw [List.dropWhile_cons_of_pos ha] at h
      simp only [List.mem_cons] at hy
      rcases hy with rfl | hy
      · exact ha
      · exact ih h y hy
    · rw [List.dropWhile_cons_of_neg ha] at h; simp at h

/-- splitting `a ++ r` at the first element failing `p`, when all of `a` passes and `r` is empty or starts with a failing one -/
theorem span_append {α : Type} (p : α → Bool) (a r : List α) (ha : ∀ x ∈ a, p x = true)
    (hr : r = [] ∨ ∃ c r', r = c :: r' ∧ p c = false) :
    (a ++ r).takeWhile p = a ∧ (a ++ r).dropWhile p = r := by
  induction a with
  | nil =>
    rcases hr with rfl | ⟨c, r', rfl, hc⟩
    · simp
    · simp [hc]
  | cons x a ih =>
    have hx : p x = true := ha x (by simp)
    have := ih (fun y hy => ha y (by simp [hy]))
    simp [hx, this.1, this.2]

theorem ne_of_bne {c d : Char} : (c != d) = true ↔ c ≠ d := by simp

theorem partition_found (sep : Char) (a b : List Char) (ha : ∀ x ∈ a, x ≠ sep) :
    partitionC sep (a ++ sep :: b) = (a, true, b) := by
  have h := span_append (fun x => x != sep) a (sep :: b) (fun x hx => by simpa using ha x hx)
    (Or.inr ⟨sep, b, rfl, by simp⟩)
  unfold partitionC
  rw [h.2, h.1]

theorem partition_absent (sep : Char) (a : List Char) (ha : ∀ x ∈ a, x ≠ sep) :
    partitionC sep a = (a, false, []) := by
  have h := span_append (fun x => x != sep) a [] (fun x hx => by simpa using ha x hx) (Or.inl rfl)
  simp only [List.append_nil] at h
  unfold partitionC
  rw [h.2, h.1]

theorem partition_fst_mem (sep : Char) (s : List Char) : ∀ x ∈ (partitionC sep s).1, x ∈ s ∧ x ≠ sep := by
  intro x hx
  have : (partitionC sep s).1 = s.takeWhile (· != sep) := by
    unfold partitionC; split <;> rfl
  rw [this] at hx
  exact ⟨takeWhile_mem _ _ _ hx, by simpa using takeWhile_pred _ _ _ hx⟩

theorem partition_snd_mem (sep : Char) (s : List Char) : ∀ x ∈ (partitionC sep s).2.2, x ∈ s := by
  intro x hx
  unfold partitionC at hx
  split at hx
  · simp at hx
  · rename_i c b hd
    have : x ∈ s.dropWhile (· != sep) := by rw [hd]; simp [hx]
    exact dropWhile_mem _ _ _ this

theorem rpartition_found (sep : Char) (a b : List Char) (hb : ∀ x ∈ b, x ≠ sep) :
    rpartitionC sep (a ++ sep :: b) = (a, true, b) := by
  unfold rpartitionC
  have : (a ++ sep :: b).reverse = b.reverse ++ sep :: a.reverse := by simp
  rw [this, partition_found sep b.reverse a.reverse (fun x hx => hb x (by simpa using hx))]
  simp

theorem rpartition_absent (sep : Char) (s : List Char) (hs : ∀ x ∈ s, x ≠ sep) :
    rpartitionC sep s = ([], false, s) := by
  unfold rpartitionC
  rw [partition_absent sep s.reverse (fun x hx => hs x (by simpa using hx))]

theorem rpartition_after_mem (sep : Char) (s : List Char) : ∀ x ∈ (rpartitionC sep s).2.2, x ∈ s ∧ x ≠ sep := by
  intro x hx
  unfold rpartitionC at hx
  split at hx
  · rename_i ra rb heq
    have h1 : ra = (partitionC sep s.reverse).1 := by rw [heq]
    simp only [List.mem_reverse] at hx
    rw [h1] at hx
    have := partition_fst_mem sep s.reverse x hx
    exact ⟨by simpa using this.1, this.2⟩
  · rename_i ra rb heq
    refine ⟨hx, ?_⟩
    -- not found: every element differs from sep
    unfold partitionC at heq
    split at heq
    · rename_i hd
      have hall : ∀ y ∈ s.reverse, (y != sep) = true := by
        intro y hy
        exact dropWhile_nil _ _ hd y hy
      simpa using hall x (by simpa using hx)
    · simp at heq

/-! ### characters -/

def natLower (n : Nat) : Nat := if 65 ≤ n ∧ n ≤ 90 then n + 32 else n

theorem ofNat_small : ∀ n, n < 128 → (Char.ofNat n).toNat = n := by decide

theorem asciiLower_toNat (c : Char) : (asciiLower c).toNat = natLower c.toNat := by
  unfold asciiLower natLower
  split
  · rename_i h; exact ofNat_small _ (by omega)
  · rfl

/-- not a query / fragment delimiter -/
def Safe (c : Char) : Prop := c ≠ '?' ∧ c ≠ '#'
/-- may appear in the authority that is shown: no delimiter of userinfo, path, query or fragment -/
def AuthSafe (c : Char) : Prop := c ≠ '?' ∧ c ≠ '#' ∧ c ≠ '@' ∧ c ≠ '/'

theorem ne_of_toNat {c d : Char} (h : c.toNat ≠ d.toNat) : c ≠ d := fun e => h (by rw [e])

theorem authSafe_of_toNat {c : Char} (h : c.toNat ≠ 63 ∧ c.toNat ≠ 35 ∧ c.toNat ≠ 64 ∧ c.toNat ≠ 47) : AuthSafe c :=
  ⟨ne_of_toNat h.1, ne_of_toNat h.2.1, ne_of_toNat h.2.2.1, ne_of_toNat h.2.2.2⟩

theorem toNat_of_authSafe {c : Char} (h : AuthSafe c) : c.toNat ≠ 63 ∧ c.toNat ≠ 35 ∧ c.toNat ≠ 64 ∧ c.toNat ≠ 47 := by
  obtain ⟨h1, h2, h3, h4⟩ := h
  refine ⟨?_, ?_, ?_, ?_⟩ <;> intro e
  · exact h1 (Char.toNat_inj.mp e)
  · exact h2 (Char.toNat_inj.mp e)
  · exact h3 (Char.toNat_inj.mp e)
  · exact h4 (Char.toNat_inj.mp e)

theorem lower_authSafe {c : Char} (h : AuthSafe c) : AuthSafe (asciiLower c) := by
  have := toNat_of_authSafe h
  apply authSafe_of_toNat
  rw [asciiLower_toNat]
  unfold natLower
  split <;> omega

theorem schemeChars_table : ∀ n ∈ Gen.Fetch.schemeChars,
    natLower n ≠ 63 ∧ natLower n ≠ 35 ∧ natLower n ≠ 64 ∧ natLower n ≠ 47 ∧ natLower n ≠ 58 := by decide

theorem lower_scheme {c : Char} (h : isSchemeChar c = true) : AuthSafe (asciiLower c) ∧ asciiLower c ≠ ':' := by
  have hm : c.toNat ∈ Gen.Fetch.schemeChars := by simpa [isSchemeChar] using h
  obtain ⟨h1, h2, h3, h4, h5⟩ := schemeChars_table _ hm
  refine ⟨authSafe_of_toNat ?_, ne_of_toNat ?_⟩
  · rw [asciiLower_toNat]; exact ⟨h1, h2, h3, h4⟩
  · rw [asciiLower_toNat]; exact h5

theorem digitChar_toNat (n : Nat) : (digitChar n).toNat = 48 + n % 10 := by
  unfold digitChar
  exact ofNat_small _ (by omega)

theorem decDigits_digits : ∀ (f n : Nat) (c : Char), c ∈ decDigits f n → 48 ≤ c.toNat ∧ c.toNat ≤ 57 := by
  intro f
  induction f with
  | zero => intro n c h; simp [decDigits] at h
  | succ f ih =>
    intro n c h
    unfold decDigits at h
    split at h
    · simp only [List.mem_singleton] at h
      subst h; rw [digitChar_toNat]; omega
    · simp only [List.mem_append, List.mem_singleton] at h
      rcases h with h | h
      · exact ih _ c h
      · subst h; rw [digitChar_toNat]; omega

theorem digit_authSafe {c : Char} (h : 48 ≤ c.toNat ∧ c.toNat ≤ 57) : AuthSafe c :=
  authSafe_of_toNat (by omega)

/-! ### pieces of `redact_url` -/

theorem splitScheme_chars (u : List Char) : ∀ c ∈ (splitScheme u).1, AuthSafe c ∧ c ≠ ':' := by
  intro c hc
  unfold splitScheme at hc
  split at hc
  · split at hc
    · simp at hc
    · split at hc
      · rename_i a _ _ c0 t _ hcond
        simp only [List.mem_map] at hc
        obtain ⟨x, hx, rfl⟩ := hc
        simp only [Bool.and_eq_true, List.all_eq_true] at hcond
        exact lower_scheme (hcond.2 x hx)
      · simp at hc
  · simp at hc

theorem splitNetloc_chars (rest : List Char) : ∀ c ∈ (splitNetloc rest).1, c ≠ '/' ∧ c ≠ '?' ∧ c ≠ '#' := by
  intro c hc
  unfold splitNetloc at hc
  split at hc
  · have := takeWhile_pred _ _ _ hc
    simp only [isNetlocEnd, Bool.not_eq_true', Bool.or_eq_false_iff, beq_eq_false_iff_ne, ne_eq] at this
    exact ⟨this.1.1, this.1.2, this.2⟩
  · simp at hc

/-- both components of `_hostinfo` consist of characters of the netloc after its last `@` -/
theorem hostInfo_mem (netloc : List Char) :
    (∀ c ∈ (hostInfo netloc).1, c ∈ netloc ∧ c ≠ '@') ∧ (∀ c ∈ (hostInfo netloc).2, c ∈ netloc ∧ c ≠ '@') := by
  have hi := rpartition_after_mem '@' netloc
  unfold hostInfo
  simp only
  split
  · constructor
    · intro c hc
      exact hi c (partition_snd_mem _ _ c ((partition_fst_mem _ _ c hc).1))
    · intro c hc
      exact hi c (partition_snd_mem _ _ c (partition_snd_mem _ _ c (partition_snd_mem _ _ c hc)))
  · constructor
    · intro c hc
      exact hi c (partition_fst_mem _ _ c hc).1
    · intro c hc
      exact hi c (partition_snd_mem _ _ c hc)

theorem lowerHost_chars (h : List Char) (hh : ∀ c ∈ h, AuthSafe c) : ∀ c ∈ lowerHost h, AuthSafe c := by
  intro c hc
  unfold lowerHost at hc
  simp only [List.mem_append, List.mem_map] at hc
  rcases hc with ⟨x, hx, rfl⟩ | hc
  · exact lower_authSafe (hh x (partition_fst_mem _ _ x hx).1)
  · split at hc
    · simp only [List.mem_cons] at hc
      rcases hc with rfl | hc
      · exact authSafe_of_toNat (by decide)
      · exact hh c (partition_snd_mem _ _ c hc)
    · simp at hc

theorem dropWhile_head {α : Type} (p : α → Bool) : ∀ (l : List α) c t, l.dropWhile p = c :: t → p c = false := by
  intro l
  induction l with
  | nil => intro c t h; simp at h
  | cons a l ih =>
    intro c t h
    by_cases ha : p a = true
    · rw [List.dropWhile_cons_of_pos ha] at h; exact ih c t h
    · rw [List.dropWhile_cons_of_neg ha] at h
      simp only [List.cons.injEq] at h
      obtain ⟨rfl, _⟩ := h
      simpa using ha

theorem splitNetloc_slash (r : List Char) :
    splitNetloc ('/' :: '/' :: r) = (r.takeWhile (fun c => !isNetlocEnd c), r.dropWhile (fun c => !isNetlocEnd c)) := rfl

theorem splitNetloc_other (rest : List Char) (h : ∀ r, rest ≠ '/' :: '/' :: r) : splitNetloc rest = ([], rest) := by
  unfold splitNetloc
  split
  · rename_i r; exact absurd rfl (h r)
  · rfl

/-- what follows a non-empty netloc is empty or starts with `/`, `?` or `#` -/
theorem splitNetloc_rest (rest : List Char) (hne : (splitNetloc rest).1 ≠ []) :
    (splitNetloc rest).2 = [] ∨ ∃ c t, (splitNetloc rest).2 = c :: t ∧ (c = '/' ∨ c = '?' ∨ c = '#') := by
  by_cases hs : ∃ r, rest = '/' :: '/' :: r
  · obtain ⟨r, rfl⟩ := hs
    rw [splitNetloc_slash]
    simp only
    cases hdw : r.dropWhile (fun c => !isNetlocEnd c) with
    | nil => left; rfl
    | cons c t =>
      right
      refine ⟨c, t, rfl, ?_⟩
      have := dropWhile_head _ _ _ _ hdw
      simp only [isNetlocEnd, Bool.not_eq_eq_eq_not, Bool.not_false, Bool.or_eq_true, beq_iff_eq] at this
      rcases this with (h | h) | h
      · exact Or.inl h
      · exact Or.inr (Or.inl h)
      · exact Or.inr (Or.inr h)
  · exfalso
    apply hne
    rw [splitNetloc_other rest (fun r hr => hs ⟨r, hr⟩)]

/-- the path component cut out of that rest -/
theorem path_of_rest (r2 : List Char) (h : r2 = [] ∨ ∃ c t, r2 = c :: t ∧ (c = '/' ∨ c = '?' ∨ c = '#')) :
    (partitionC '?' (partitionC '#' r2).1).1 = [] ∨ (partitionC '?' (partitionC '#' r2).1).1.head? = some '/' := by
  rcases h with rfl | ⟨c, t, rfl, hc⟩
  · left; simp [partitionC]
  · rcases hc with rfl | rfl | rfl
    · right
      have e1 : (partitionC '#' ('/' :: t)).1 = '/' :: (t.takeWhile (· != '#')) := by
        unfold partitionC; split <;> simp
      rw [e1]
      have e2 : (partitionC '?' ('/' :: List.takeWhile (· != '#') t)).1 =
          '/' :: ((t.takeWhile (· != '#')).takeWhile (· != '?')) := by
        unfold partitionC; split <;> simp
      rw [e2]; rfl
    · left
      have e1 : (partitionC '#' ('?' :: t)).1 = '?' :: (t.takeWhile (· != '#')) := by
        unfold partitionC; split <;> simp
      rw [e1]
      unfold partitionC; split <;> simp
    · left
      have e1 : (partitionC '#' ('#' :: t)).1 = [] := by
        unfold partitionC; split <;> simp
      rw [e1]
      simp [partitionC]

theorem split_path_chars (ok : List Char → Bool) (u : List Char) (sp : Split) (h : urlsplit ok u = .ok sp) :
    (∀ c ∈ sp.path, Safe c) ∧ (∀ c ∈ sp.netloc, c ≠ '/' ∧ c ≠ '?' ∧ c ≠ '#') ∧ (∀ c ∈ sp.scheme, AuthSafe c ∧ c ≠ ':') ∧
    (sp.netloc ≠ [] → sp.path = [] ∨ sp.path.head? = some '/') := by
  unfold urlsplit at h
  simp only at h
  split at h
  · simp at h
  · split at h
    · simp at h
    · split at h
      · simp at h
      · simp only [Except.ok.injEq] at h
        subst h
        refine ⟨?_, splitNetloc_chars _, splitScheme_chars _, ?_⟩
        · intro c hc
          have h1 := partition_fst_mem '?' _ c hc
          have h2 := partition_fst_mem '#' _ c h1.1
          exact ⟨h1.2, h2.2⟩
        · intro hne
          exact path_of_rest _ (splitNetloc_rest _ hne)

theorem rpartition_before_mem (sep : Char) (s : List Char) : ∀ x ∈ (rpartitionC sep s).1, x ∈ s := by
  intro x hx
  unfold rpartitionC at hx
  split at hx
  · rename_i ra rb heq
    have h1 : rb = (partitionC sep s.reverse).2.2 := by rw [heq]
    simp only [List.mem_reverse] at hx
    rw [h1] at hx
    simpa using partition_snd_mem sep s.reverse x hx
  · simp at hx

theorem dropParams_mem (path : List Char) : ∀ c ∈ dropParams path, c ∈ path ∨ c = '/' := by
  intro c hc
  unfold dropParams at hc
  split at hc
  · rename_i pre last heq
    simp only [List.mem_append, List.mem_cons] at hc
    rcases hc with hc | rfl | hc
    · left
      have : pre = (rpartitionC '/' path).1 := by rw [heq]
      exact rpartition_before_mem '/' path c (this ▸ hc)
    · right; rfl
    · left
      have : last = (rpartitionC '/' path).2.2 := by rw [heq]
      exact (rpartition_after_mem '/' path c (this ▸ takeWhile_mem _ _ _ hc)).1
  · left; exact takeWhile_mem _ _ _ hc

theorem safe_slash : Safe '/' := ⟨by decide, by decide⟩

theorem parsedPath_safe (sp : Split) (h : ∀ c ∈ sp.path, Safe c) : ∀ c ∈ parsedPath sp, Safe c := by
  intro c hc
  unfold parsedPath at hc
  split at hc
  · rcases dropParams_mem _ c hc with h1 | rfl
    · exact h c h1
    · exact safe_slash
  · exact h c hc

end UrlAux

open UrlAux in
/-- **redact, every input**: whenever `redact_url` returns a URL (and not `<invalid-url>`), that text is
`scheme://authority path` where the authority contains no `@` (no userinfo), `/`, `?` or `#`, and nothing in it is a `?` or a
`#` — there is no query and no fragment, whatever string came in. -/
theorem C31_redact_all (ok : List Char → Bool) (url out : List Char) (h : redactE ok url = .ok out) :
    ∃ scheme auth path, out = scheme ++ "://".toList ++ auth ++ path ∧
      (∀ c ∈ scheme, AuthSafe c ∧ c ≠ ':') ∧ (∀ c ∈ auth, AuthSafe c) ∧ (∀ c ∈ path, Safe c) ∧
      (path = [] ∨ path.head? = some '/') := by
  unfold redactE at h
  split at h
  · simp at h
  · rename_i sp hsp
    obtain ⟨hpath, hnet, hscheme, _⟩ := split_path_chars ok url sp hsp
    split at h
    · simp at h
    · simp only at h
      split at h
      · simp at h
      · -- the rendered host
        have hhost : ∀ c ∈ (hostInfo sp.netloc).1, AuthSafe c := by
          intro c hc
          obtain ⟨hm, hat⟩ := (hostInfo_mem sp.netloc).1 c hc
          obtain ⟨h1, h2, h3⟩ := hnet c hm
          exact ⟨h2, h3, hat, h1⟩
        have hlow := lowerHost_chars _ hhost
        have hrend : ∀ c ∈ renderHost (lowerHost (hostInfo sp.netloc).1), AuthSafe c := by
          intro c hc
          unfold renderHost at hc
          split at hc
          · simp only [List.cons_append, List.mem_cons, List.mem_append, List.not_mem_nil, or_false] at hc
            rcases hc with rfl | hc | rfl
            · exact authSafe_of_toNat (by decide)
            · exact hlow c hc
            · exact authSafe_of_toNat (by decide)
          · exact hlow c hc
        -- the path that is shown
        have hpp := parsedPath_safe sp hpath
        have hpath' : ∀ c ∈ leadSlash (parsedPath sp), Safe c := by
          intro c hc
          unfold leadSlash at hc
          split at hc
          · simp at hc
          · rename_i c0 r heq
            split at hc
            · exact hpp c (heq ▸ hc)
            · simp only [List.mem_cons] at hc
              rcases hc with rfl | hc
              · exact safe_slash
              · exact hpp c (heq ▸ (by simpa using hc))
        have hhead : leadSlash (parsedPath sp) = [] ∨ (leadSlash (parsedPath sp)).head? = some '/' := by
          unfold leadSlash
          split
          · left; rfl
          · right
            split
            · rename_i hc; simp only [beq_iff_eq] at hc; subst hc; rfl
            · rfl
        split at h
        · simp only [Except.ok.injEq] at h
          subst h
          exact ⟨sp.scheme, _, _, by simp [List.append_assoc], hscheme, hrend, hpath', hhead⟩
        · split at h
          · simp only [Except.ok.injEq] at h
            subst h
            refine ⟨sp.scheme, renderHost (lowerHost (hostInfo sp.netloc).1) ++ ':' :: natToDec (decValue (hostInfo sp.netloc).2),
              leadSlash (parsedPath sp), by simp [List.append_assoc], hscheme, ?_, hpath', hhead⟩
            intro c hc
            simp only [List.mem_append, List.mem_cons] at hc
            rcases hc with hc | rfl | hc
            · exact hrend c hc
            · exact authSafe_of_toNat (by decide)
            · exact digit_authSafe (decDigits_digits _ _ c hc)
          · simp at h

/-! ### the grammar theorem -/
namespace UrlAux
open Spec (UrlParts WellFormed render shown)

theorem c0_table : ∀ n ∈ Gen.Fetch.c0OrSpace, n ≤ 32 := by decide
theorem scheme_table : ∀ n, n < 128 →
    (((65 ≤ n && n ≤ 90) || (97 ≤ n && n ≤ 122)) || (48 ≤ n && n ≤ 57) || n == 43 || n == 45 || n == 46) = true →
    Gen.Fetch.schemeChars.contains n = true := by decide

theorem not_c0 {c : Char} (h : 33 ≤ c.toNat) : isC0OrSpace c = false := by
  unfold isC0OrSpace
  cases hc : Gen.Fetch.c0OrSpace.contains c.toNat with
  | false => rfl
  | true =>
    have := c0_table _ (by simpa using hc)
    omega

theorem plain_iff {c : Char} : Spec.isPlain c = true ↔ isUnsafeRemoved c = false := by
  simp [Spec.isPlain, isUnsafeRemoved, Gen.Fetch.unsafeRemoved, and_assoc]

theorem spec_scheme_facts {c : Char} (h : Spec.isSchemeChar c = true) :
    isSchemeChar c = true ∧ c ≠ ':' ∧ Spec.isPlain c = true ∧ 33 ≤ c.toNat := by
  have hn : c.toNat < 128 ∧ c.toNat ≠ 58 ∧ c.toNat ≠ 9 ∧ c.toNat ≠ 10 ∧ c.toNat ≠ 13 ∧ 33 ≤ c.toNat := by
    simp only [Spec.isSchemeChar, Spec.isAlpha, Spec.isDigit, Bool.or_eq_true, Bool.and_eq_true, decide_eq_true_eq,
      beq_iff_eq] at h
    omega
  refine ⟨?_, ne_of_toNat hn.2.1, ?_, hn.2.2.2.2.2⟩
  · unfold isSchemeChar
    apply scheme_table _ hn.1
    simpa [Spec.isSchemeChar, Spec.isAlpha, Spec.isDigit] using h
  · simp [Spec.isPlain]; omega

theorem filter_self {α : Type} (p : α → Bool) (l : List α) (h : ∀ x ∈ l, p x = true) : l.filter p = l :=
  List.filter_eq_self.mpr h

theorem cleanUrl_id (c0 : Char) (t : List Char) (h0 : isC0OrSpace c0 = false)
    (hp : ∀ c ∈ c0 :: t, isUnsafeRemoved c = false) : cleanUrl (c0 :: t) = c0 :: t := by
  unfold cleanUrl
  rw [List.dropWhile_cons_of_neg (by simp [h0])]
  exact filter_self _ _ (fun x hx => by simp [hp x hx])

theorem contains_false {l : List Char} {c : Char} (h : ∀ x ∈ l, x ≠ c) : l.contains c = false := by
  cases hc : l.contains c with
  | false => rfl
  | true =>
    have : c ∈ l := by simpa using hc
    exact absurd rfl (h c this)

/-- authority and the rest of a grammar URL -/
def authOf (p : UrlParts) : List Char :=
  Spec.uiText p.userinfo ++ p.host ++ Spec.optPre ':' p.port
def restOf (p : UrlParts) : List Char :=
  p.path ++ Spec.optPre '?' p.query ++ Spec.optPre '#' p.fragment

theorem render_eq (p : UrlParts) : render p = p.scheme ++ ':' :: '/' :: '/' :: (authOf p ++ restOf p) := by
  have : "://".toList = [':', '/', '/'] := rfl
  simp [render, authOf, restOf, this, List.append_assoc]

theorem digit_facts {c : Char} (h : Spec.isDigit c = true) :
    isAsciiDigit c = true ∧ isAscii c = true ∧ Spec.isPlain c = true ∧ c ≠ '/' ∧ c ≠ '?' ∧ c ≠ '#' ∧ c ≠ '[' ∧ c ≠ ']' ∧ c ≠ '@' ∧ c ≠ ':' := by
  have hn : 48 ≤ c.toNat ∧ c.toNat ≤ 57 := by simpa [Spec.isDigit] using h
  refine ⟨by simp [isAsciiDigit]; omega, by simp [isAscii]; omega, by simp [Spec.isPlain]; omega, ?_, ?_, ?_, ?_, ?_, ?_, ?_⟩ <;>
    exact ne_of_toNat (by simp; omega)

end UrlAux

namespace UrlAux
open Spec (UrlParts WellFormed render shown)

theorem lower_eq : Spec.lower = asciiLower := rfl

theorem lower_ne_colon {c : Char} (h : c ≠ ':') : asciiLower c ≠ ':' := by
  apply ne_of_toNat
  rw [asciiLower_toNat]
  have : c.toNat ≠ 58 := fun e => h (Char.toNat_inj.mp e)
  unfold natLower
  split <;> simp <;> omega

theorem decValue_append (l : List Char) (d : Char) : decValue (l ++ [d]) = decValue l * 10 + (d.toNat - 48) := by
  simp [decValue, List.foldl_append]

theorem decValue_decDigits : ∀ (f n : Nat), n < f → decValue (decDigits f n) = n := by
  intro f
  induction f with
  | zero => intro n h; omega
  | succ f ih =>
    intro n h
    unfold decDigits
    split
    · rename_i h10
      simp [decValue, digitChar_toNat]; omega
    · rw [decValue_append, ih (n / 10) (by omega), digitChar_toNat]; omega

theorem decValue_natToDec (n : Nat) : decValue (natToDec n) = n := decValue_decDigits _ _ (by omega)

theorem optPre_mem {pre : Char} {o : Option (List Char)} {c : Char} (h : c ∈ Spec.optPre pre o) :
    c = pre ∨ ∃ q, o = some q ∧ c ∈ q := by
  cases o with
  | none => simp [Spec.optPre] at h
  | some q =>
    simp only [Spec.optPre, List.mem_cons] at h
    rcases h with h | h
    · exact Or.inl h
    · exact Or.inr ⟨q, rfl, h⟩

theorem uiText_mem {o : Option (List Char)} {c : Char} (h : c ∈ Spec.uiText o) : c = '@' ∨ ∃ u, o = some u ∧ c ∈ u := by
  cases o with
  | none => simp [Spec.uiText] at h
  | some u =>
    simp only [Spec.uiText, List.mem_append, List.mem_singleton] at h
    rcases h with h | h
    · exact Or.inr ⟨u, rfl, h⟩
    · exact Or.inl h

/-- facts about the characters of the authority of a grammar URL -/
theorem auth_chars (p : UrlParts) (wf : WellFormed p) : ∀ c ∈ authOf p,
    isAscii c = true ∧ Spec.isPlain c = true ∧ c ≠ '/' ∧ c ≠ '?' ∧ c ≠ '#' ∧ c ≠ '[' ∧ c ≠ ']' := by
  intro c hc
  simp only [authOf, List.mem_append] at hc
  rcases hc with (hc | hc) | hc
  · rcases uiText_mem hc with rfl | ⟨u, hu, hcu⟩
    · decide
    · obtain ⟨h1, h2, h3, h4, h5, h6, h7⟩ := wf.userinfo_chars u (by simp [hu]) c hcu
      exact ⟨h1, h2, h3, h4, h5, h6, h7⟩
  · obtain ⟨h1, h2, h3, h4, h5, h6, h7, _⟩ := wf.host_chars c hc
    exact ⟨h1, h2, h3, h4, h5, h6, h7⟩
  · rcases optPre_mem hc with rfl | ⟨q, hq, hcq⟩
    · decide
    · obtain ⟨_, hd, _⟩ := wf.port_ok q (by simp [hq])
      obtain ⟨_, h1, h2, h3, h4, h5, h6, h7, _⟩ := digit_facts (hd c hcq)
      exact ⟨h1, h2, h3, h4, h5, h6, h7⟩

theorem rest_plain (p : UrlParts) (wf : WellFormed p) : ∀ c ∈ restOf p, Spec.isPlain c = true := by
  intro c hc
  simp only [restOf, List.mem_append] at hc
  rcases hc with (hc | hc) | hc
  · exact (wf.path_chars c hc).1
  · rcases optPre_mem hc with rfl | ⟨q, hq, hcq⟩
    · decide
    · exact (wf.query_chars q (by simp [hq]) c hcq).1
  · rcases optPre_mem hc with rfl | ⟨q, hq, hcq⟩
    · decide
    · exact wf.fragment_chars q (by simp [hq]) c hcq

/-- the rest of a grammar URL is empty or starts with `/`, `?` or `#` -/
theorem rest_head (p : UrlParts) (wf : WellFormed p) :
    restOf p = [] ∨ ∃ c t, restOf p = c :: t ∧ (fun x => !isNetlocEnd x) c = false := by
  unfold restOf
  rcases wf.path_ok with hp | hp
  · rw [hp]
    cases hq : p.query with
    | some q => right; exact ⟨'?', q ++ Spec.optPre '#' p.fragment, by simp [Spec.optPre], by decide⟩
    | none =>
      cases hf : p.fragment with
      | some f => right; exact ⟨'#', f, by simp [Spec.optPre], by decide⟩
      | none => left; simp [Spec.optPre]
  · cases hpp : p.path with
    | nil => rw [hpp] at hp; simp at hp
    | cons c t =>
      rw [hpp] at hp
      simp only [List.head?_cons, Option.some.injEq] at hp
      subst hp
      right
      exact ⟨'/', t ++ Spec.optPre '?' p.query ++ Spec.optPre '#' p.fragment, by simp, by decide⟩

theorem partition_opt (sep : Char) (a : List Char) (o : Option (List Char)) (ha : ∀ x ∈ a, x ≠ sep) :
    (partitionC sep (a ++ Spec.optPre sep o)).1 = a ∧ (partitionC sep (a ++ Spec.optPre sep o)).2.2 = o.getD [] := by
  cases o with
  | none => simp [Spec.optPre, partition_absent sep a ha]
  | some q => simp [Spec.optPre, partition_found sep a q ha]

theorem urlsplit_render (ok : List Char → Bool) (p : UrlParts) (wf : WellFormed p) :
    urlsplit ok (render p) =
      .ok ⟨p.scheme.map asciiLower, authOf p, p.path, p.query.getD [], p.fragment.getD []⟩ := by
  obtain ⟨c0, t, hs⟩ : ∃ c0 t, p.scheme = c0 :: t := by
    cases h : p.scheme with
    | nil => exact absurd h wf.scheme_ne
    | cons c0 t => exact ⟨c0, t, rfl⟩
  have halpha : Spec.isAlpha c0 = true := wf.scheme_first c0 (by simp [hs])
  have hschars : ∀ c ∈ p.scheme, isSchemeChar c = true ∧ c ≠ ':' ∧ Spec.isPlain c = true ∧ 33 ≤ c.toNat :=
    fun c hc => spec_scheme_facts (wf.scheme_chars c hc)
  have hauth := auth_chars p wf
  -- 1. nothing is stripped or removed
  have hplain : ∀ c ∈ render p, isUnsafeRemoved c = false := by
    intro c hc
    rw [render_eq] at hc
    simp only [List.mem_append, List.mem_cons] at hc
    apply plain_iff.mp
    rcases hc with hc | rfl | rfl | rfl | hc | hc
    · exact (hschars c hc).2.2.1
    · decide
    · decide
    · decide
    · exact (hauth c hc).2.1
    · exact rest_plain p wf c hc
  have hclean : cleanUrl (render p) = render p := by
    have hr : render p = c0 :: (t ++ ':' :: '/' :: '/' :: (authOf p ++ restOf p)) := by rw [render_eq, hs]; rfl
    rw [hr] at hplain ⊢
    exact cleanUrl_id c0 _ (not_c0 (hschars c0 (by simp [hs])).2.2.2) hplain
  -- 2. scheme
  have hscheme : splitScheme (render p) = (p.scheme.map asciiLower, '/' :: '/' :: (authOf p ++ restOf p)) := by
    unfold splitScheme
    rw [render_eq, partition_found ':' p.scheme _ (fun x hx => (hschars x hx).2.1)]
    simp only [hs]
    have h1 : isAsciiAlpha c0 = true := halpha
    have h2 : (c0 :: t).all isSchemeChar = true := by
      rw [List.all_eq_true]; intro x hx; exact (hschars x (hs ▸ hx)).1
    simp [h1, h2]
  -- 3. netloc
  have hnet : splitNetloc ('/' :: '/' :: (authOf p ++ restOf p)) = (authOf p, restOf p) := by
    rw [splitNetloc_slash]
    have := span_append (fun x => !isNetlocEnd x) (authOf p) (restOf p)
      (fun x hx => by
        obtain ⟨_, _, h3, h4, h5, _⟩ := hauth x hx
        simp [isNetlocEnd, h3, h4, h5])
      (rest_head p wf)
    rw [this.1, this.2]
  -- 4. fragment and query
  have hfrag := partition_opt '#' (p.path ++ Spec.optPre '?' p.query) p.fragment (by
    intro x hx
    simp only [List.mem_append] at hx
    rcases hx with hx | hx
    · exact (wf.path_chars x hx).2.2.1
    · rcases optPre_mem hx with rfl | ⟨q, hq, hxq⟩
      · decide
      · exact (wf.query_chars q (by simp [hq]) x hxq).2)
  have hquery := partition_opt '?' p.path p.query (fun x hx => (wf.path_chars x hx).2.1)
  have hrest : restOf p = (p.path ++ Spec.optPre '?' p.query) ++ Spec.optPre '#' p.fragment := rfl
  unfold urlsplit
  simp only [hclean, hscheme, hnet]
  have hascii : (authOf p).all isAscii = true := by
    rw [List.all_eq_true]; exact fun x hx => (hauth x hx).1
  have hb1 : (authOf p).contains '[' = false := contains_false (fun x hx => (hauth x hx).2.2.2.2.2.1)
  have hb2 : (authOf p).contains ']' = false := contains_false (fun x hx => (hauth x hx).2.2.2.2.2.2)
  simp only [hascii, hb1, hb2, Bool.not_true, Bool.false_eq_true, if_false, bne_self_eq_false, Bool.false_and]
  rw [hrest, hfrag.1, hfrag.2, hquery.1, hquery.2]

end UrlAux

namespace UrlAux
open Spec (UrlParts WellFormed render shown)

theorem hostInfo_auth (p : UrlParts) (wf : WellFormed p) : hostInfo (authOf p) = (p.host, p.port.getD []) := by
  have hhost := wf.host_chars
  have hportchars : ∀ c ∈ Spec.optPre ':' p.port, c ≠ '@' ∧ c ≠ '[' := by
    intro c hc
    rcases optPre_mem hc with rfl | ⟨q, hq, hcq⟩
    · exact ⟨by decide, by decide⟩
    · obtain ⟨_, hd, _⟩ := wf.port_ok q (by simp [hq])
      obtain ⟨_, _, _, _, _, _, h1, _, h2, _⟩ := digit_facts (hd c hcq)
      exact ⟨h2, h1⟩
  have hhp : ∀ c ∈ p.host ++ Spec.optPre ':' p.port, c ≠ '@' ∧ c ≠ '[' := by
    intro c hc
    simp only [List.mem_append] at hc
    rcases hc with hc | hc
    · exact ⟨(hhost c hc).2.2.2.2.2.2.2.1, (hhost c hc).2.2.2.2.2.1⟩
    · exact hportchars c hc
  have hr : (rpartitionC '@' (authOf p)).2.2 = p.host ++ Spec.optPre ':' p.port := by
    unfold authOf
    cases hu : p.userinfo with
    | none =>
      simp only [Spec.uiText, List.nil_append]
      rw [rpartition_absent '@' _ (fun x hx => (hhp x hx).1)]
    | some u =>
      have : Spec.uiText (some u) ++ p.host ++ Spec.optPre ':' p.port = u ++ '@' :: (p.host ++ Spec.optPre ':' p.port) := by
        simp [Spec.uiText, List.append_assoc]
      rw [this, rpartition_found '@' u _ (fun x hx => (hhp x hx).1)]
  unfold hostInfo
  simp only [hr]
  rw [partition_absent '[' _ (fun x hx => (hhp x hx).2)]
  simp only [Bool.false_eq_true, if_false]
  have := partition_opt ':' p.host p.port (fun x hx => (hhost x hx).2.2.2.2.2.2.2.2.1)
  rw [this.1, this.2]

theorem leadSlash_id (path : List Char) (h : path = [] ∨ path.head? = some '/') : leadSlash path = path := by
  rcases h with rfl | h
  · rfl
  · cases path with
    | nil => rfl
    | cons c t =>
      simp only [List.head?_cons, Option.some.injEq] at h
      subst h
      simp [leadSlash]

end UrlAux

open UrlAux Spec in
/-- **redact, grammar**: for every URL `scheme://[userinfo@]host[:port]path[?query][#fragment]` of the grammar,
`redact_url` returns exactly `scheme://host[:port]path` (scheme and host lower-cased, the port as a number):
the userinfo, the query and the fragment are gone, whatever they contain. -/
theorem C31_redact (ok : List Char → Bool) (p : UrlParts) (wf : WellFormed p) :
    ∃ portText, redactE ok (render p) = .ok (shown p portText) ∧
      (∀ c ∈ portText, Spec.isDigit c = true) ∧ (∀ q ∈ p.port, portValue portText = portValue q) := by
  have hsplit := urlsplit_render ok p wf
  have hhi := hostInfo_auth p wf
  have hscheme_ne : (p.scheme.map asciiLower).isEmpty = false := by
    cases h : p.scheme with
    | nil => exact absurd h wf.scheme_ne
    | cons a t => rfl
  have hauth_ne : (authOf p).isEmpty = false := by
    cases hh : p.host with
    | nil => exact absurd hh wf.host_ne
    | cons a t =>
      unfold authOf
      rw [hh]
      cases Spec.uiText p.userinfo <;> rfl
  have hhost_ne : p.host.isEmpty = false := by
    cases hh : p.host with
    | nil => exact absurd hh wf.host_ne
    | cons a t => rfl
  have hlow : lowerHost p.host = p.host.map asciiLower := by
    unfold lowerHost
    rw [partition_absent '%' _ (fun x hx => (wf.host_chars x hx).2.2.2.2.2.2.2.2.2)]
    simp
  have hrend : renderHost (p.host.map asciiLower) = p.host.map asciiLower := by
    unfold renderHost
    have : (p.host.map asciiLower).contains ':' = false := by
      apply contains_false
      intro x hx
      simp only [List.mem_map] at hx
      obtain ⟨y, hy, rfl⟩ := hx
      exact lower_ne_colon (wf.host_chars y hy).2.2.2.2.2.2.2.2.1
    rw [this]
    rfl
  have hpp : parsedPath ⟨p.scheme.map asciiLower, authOf p, p.path, p.query.getD [], p.fragment.getD []⟩ = p.path := by
    unfold parsedPath
    have : p.path.contains ';' = false := contains_false (fun x hx => (wf.path_chars x hx).2.2.2)
    show (if (Gen.Fetch.usesParams.contains (p.scheme.map asciiLower) && p.path.contains ';') = true then dropParams p.path
      else p.path) = p.path
    rw [this, Bool.and_false]
    rfl
  have hlead := leadSlash_id p.path wf.path_ok
  have hstr : "://".toList = [':', '/', '/'] := rfl
  unfold redactE
  simp only [hsplit, hscheme_ne, hauth_ne, hhi, hhost_ne, Bool.or_self, Bool.false_eq_true, if_false, hlow, hrend, hpp, hlead]
  cases hport : p.port with
  | none =>
    refine ⟨[], ?_, by simp, by simp⟩
    simp [shown, hport, lower_eq, hstr, List.append_assoc]
  | some q =>
    obtain ⟨hq_ne, hq_digits, hq_val⟩ := wf.port_ok q (by simp [hport])
    have h1 : q.isEmpty = false := by cases q with
      | nil => exact absurd rfl hq_ne
      | cons a t => rfl
    have h2 : q.all isAsciiDigit = true := by
      rw [List.all_eq_true]; exact fun x hx => (digit_facts (hq_digits x hx)).1
    have h3 : decValue q ≤ 65535 := hq_val
    refine ⟨natToDec (decValue q), ?_, ?_, ?_⟩
    · simp [shown, hport, lower_eq, hstr, List.append_assoc, h1, h2, h3]
    · intro c hc
      have := decDigits_digits _ _ c hc
      simp [Spec.isDigit]; omega
    · intro q' hq'
      simp only [Option.mem_def, Option.some.injEq] at hq'
      subst hq'
      exact decValue_natToDec (decValue q)

/-! ### non-vacuity: the URL of the repository's own redaction test is in the grammar -/
namespace UrlExamples
open Spec

def pEx : UrlParts where
  scheme := "HTTPS".toList
  userinfo := some "alice:p@ssword".toList
  host := "Example.COM".toList
  port := some "08443".toList
  path := "/path/x".toList
  query := some "X-Amz-Signature=secret&a=b?c".toList
  fragment := some "fragment#2".toList

example : WellFormed pEx where
  scheme_ne := by decide
  scheme_first := by decide
  scheme_chars := by decide
  userinfo_chars := by decide
  host_ne := by decide
  host_chars := by decide
  port_ok := by decide
  path_ok := by decide
  path_chars := by decide
  query_chars := by decide
  fragment_chars := by decide

example : (redact (fun _ => false) (render pEx) == "https://example.com:8443/path/x".toList) = true := by decide +kernel

end UrlExamples

end VgiVerif.C31
