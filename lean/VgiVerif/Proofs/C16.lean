import VgiVerif.Model.C16
import VgiVerif.Spec.C16
/-
C16 property theorems.  Helper lemmas in `namespace Aux`; the obligations at the bottom.

The theorems are proved for *every* `Shape` that is `Sound` (the budget is handed down and compared with the
serialized payload before the upload; the post-flush wire check exists on the unary and exchange paths; the
producer keeps producing only while the buffer is below the cap) and for all sizes, caps, thresholds, log volumes
and producer scripts of any length (induction on the script).  `shape_sound` then checks, by evaluation, that the
shape extracted from the working tree is sound — which is where a source edit re-checks the result.
Nothing is assumed about how `buf`, `wire`, `framed` and `ptr` relate to each other; the only place where the law
`buf ≤ framed` matters is `preflight_never_refuses_a_fitting_payload`.
-/
namespace VgiVerif.C16
open VgiVerif.SizeCaps Spec

/-- what the checks must look like for the property to hold -/
structure Sound (sh : Shape) : Prop where
  batchBudget : sh.uploadBatchBudget = some .gt
  collBudget : sh.uploadCollBudget = some .gt
  unaryPasses : sh.unaryPassesBudget = true
  exchangePasses : sh.exchangePassesBudget = true
  producerPasses : sh.producerPassesBudget = true
  wireOp : sh.enforceWire = .gt
  extOp : sh.enforceExternal = .gt
  unaryEnf : sh.unaryEnforces = true
  exchangeEnf : sh.exchangeEnforces = true
  contOp : sh.producerContinue = .lt
  unaryFresh : sh.unaryReplacementOnlyError = true
  exchangeFresh : sh.exchangeReplacementOnlyError = true

/-- a response as the property sees it -/
def obs (r : Resp) : Obs :=
  { isError := r.kind != .ok, extRefused := r.kind == .errExt, body := r.body, uploads := r.uploads }

namespace Aux

theorem total_append (l : List Nat) (x : Nat) : total (l ++ [x]) = total l + x := by
  induction l with
  | nil => simp [total]
  | cons a l ih => simp [total, ih]; omega

theorem gt_holds (a b : Nat) : Cmp.gt.holds a b = true ↔ b < a := by simp [Cmp.holds]
theorem lt_holds (a b : Nat) : Cmp.lt.holds a b = true ↔ a < b := by simp [Cmp.holds]

/-- a flush that was handed budget `m` and checks it uploads at most `m` -/
theorem flushBatch_uploaded {sh : Shape} (h : sh.uploadBatchBudget = some .gt) {cfg : Cfg} {m : Nat} {b : Batch}
    {framed ptr w up : Nat} (hf : flushBatch sh cfg (some m) b framed ptr = .uploaded w up) : up ≤ m := by
  unfold flushBatch at hf
  split at hf <;> try contradiction
  split at hf <;> try contradiction
  split at hf <;> try contradiction
  split at hf <;> try contradiction
  rename_i hb
  simp only [budgetRefuses, h, gt_holds] at hb
  injection hf with _ h2
  simp only [Nat.not_lt] at hb
  omega

theorem flushColl_uploaded {sh : Shape} (h : sh.uploadCollBudget = some .gt) {cfg : Cfg} {m : Nat} {p : Payload}
    {w up : Nat} (hf : flushColl sh cfg (some m) p = .uploaded w up) : up ≤ m := by
  unfold flushColl at hf
  split at hf <;> try contradiction
  split at hf <;> try contradiction
  split at hf <;> try contradiction
  split at hf <;> try contradiction
  rename_i hb
  simp only [budgetRefuses, h, gt_holds] at hb
  injection hf with _ h2
  simp only [Nat.not_lt] at hb
  omega

/-- `_enforce_response_budgets` with the wire check enabled: an `ok` response fits the wire cap, and the uploads are
    whatever was uploaded before -/
theorem enforce_spec {sh : Shape} (hw : sh.enforceWire = .gt) (cfg : Cfg) (errBody body ext : Nat) (ups : List Nat) :
    let r := enforce sh cfg true errBody body ext ups
    r.uploads = ups ∧ (r.kind = .ok → r.body = body ∧ ∀ w, cfg.wireCap = some w → body ≤ w) := by
  unfold enforce
  simp only [Bool.true_and]
  split
  · exact ⟨rfl, fun h => by cases h⟩
  · rename_i h1
    split
    · exact ⟨rfl, fun h => by cases h⟩
    · refine ⟨rfl, fun _ => ⟨rfl, ?_⟩⟩
      intro w hwc
      simp only [capHit, hwc, hw, gt_holds, Nat.not_lt] at h1
      simpa [Cmp.holds] using h1

/-- the common tail of the unary and exchange paths: pre-flight verdict, flush result, post-flush enforcement -/
def finish (sh : Shape) (cfg : Cfg) (en : Bool) (eA eB eC pre eos : Nat) (pf : Bool) (fl : Flush) : Resp :=
  if pf then ⟨.errExt, eA, []⟩
  else match fl with
    | .refused => ⟨.errExt, eB, []⟩
    | .inline w => enforce sh cfg en eC (pre + w + eos) 0 []
    | .uploaded w up => enforce sh cfg en eC (pre + w + eos) up [up]

theorem unary_eq (sh : Shape) (cfg : Cfg) (schema pre eos errWire : Nat) (r : Batch) (framed ptr : Nat) :
    unaryRespond sh cfg schema pre eos errWire r framed ptr =
      finish sh cfg sh.unaryEnforces (pre + errWire + eos) (pre + errWire + eos)
        (schema + (if sh.unaryReplacementOnlyError then 0 else pre - schema) + errWire + eos) pre eos
        (capHit sh.unaryPreflight (predictBatch sh cfg r) cfg.extCap)
        (flushBatch sh cfg (if sh.unaryPassesBudget then cfg.extCap else none) r framed ptr) := by
  rfl

theorem exchange_eq (sh : Shape) (cfg : Cfg) (pre eos errWire : Nat) (p : Payload) :
    exchangeTurn sh cfg pre eos errWire p =
      finish sh cfg sh.exchangeEnforces (pre + (if sh.exchangeReplacementOnlyError then 0 else p.logs) + errWire + eos)
        (pre + errWire + eos) (pre + (if sh.exchangeReplacementOnlyError then 0 else p.logs) + errWire + eos) pre eos
        (capHit sh.exchangePreflight (predictColl sh cfg p) cfg.extCap)
        (flushColl sh cfg (if sh.exchangePassesBudget then cfg.extCap else none) p) := by
  rfl

/-- a wire-cap error produced by the post-flush check carries exactly the replacement body it was given -/
theorem enforce_errWire (sh : Shape) (cfg : Cfg) (en : Bool) (eC body ext : Nat) (ups : List Nat)
    (h : (enforce sh cfg en eC body ext ups).kind = .errWire) : (enforce sh cfg en eC body ext ups).body = eC := by
  unfold enforce at h ⊢
  split
  · rfl
  · rename_i h1
    rw [if_neg h1] at h
    split at h <;> cases h

theorem finish_errWire (sh : Shape) (cfg : Cfg) (en : Bool) (eA eB eC pre eos : Nat) (pf : Bool) (fl : Flush)
    (h : (finish sh cfg en eA eB eC pre eos pf fl).kind = .errWire) : (finish sh cfg en eA eB eC pre eos pf fl).body = eC := by
  unfold finish at h ⊢
  split
  · rename_i hp; rw [if_pos hp] at h; cases h
  · rename_i hp
    rw [if_neg hp] at h
    cases fl with
    | refused => cases h
    | inline w => exact enforce_errWire _ _ _ _ _ _ _ h
    | uploaded w up => exact enforce_errWire _ _ _ _ _ _ _ h

/-- the generic unary / exchange argument: pre-flight, flush with the cap as budget, post-flush enforcement -/
theorem respond_spec {sh : Shape} (hw : sh.enforceWire = .gt) (he' : sh.enforceExternal = .gt) (cfg : Cfg) (eA eB eC pre eos : Nat) (pf : Bool) (fl : Flush)
    (hup : ∀ w up, fl = .uploaded w up → ∀ c, cfg.extCap = some c → up ≤ c) :
    WireOk cfg.wireCap (obs (finish sh cfg true eA eB eC pre eos pf fl))
      ∧ ExternalOk cfg.extCap (obs (finish sh cfg true eA eB eC pre eos pf fl)) := by
  generalize hr0 : finish sh cfg true eA eB eC pre eos pf fl = r
  unfold finish at hr0
  by_cases hpf : pf = true
  · have hr : r = ⟨.errExt, eA, []⟩ := by rw [← hr0]; simp [hpf]
    rw [hr]
    exact ⟨fun w _ => Or.inl rfl, fun c _ => ⟨fun h => by simp [obs] at h, fun _ => rfl⟩⟩
  · cases fl with
    | refused =>
      have hr : r = ⟨.errExt, eB, []⟩ := by rw [← hr0]; simp [hpf]
      rw [hr]
      exact ⟨fun w _ => Or.inl rfl, fun c _ => ⟨fun h => by simp [obs] at h, fun _ => rfl⟩⟩
    | inline w =>
      have hr : r = enforce sh cfg true eC (pre + w + eos) 0 [] := by rw [← hr0]; simp [hpf]
      have he := enforce_spec hw cfg eC (pre + w + eos) 0 []
      rw [hr]
      refine ⟨fun w' hw' => ?_, fun c _ => ⟨fun _ => ?_, fun _ => ?_⟩⟩
      · by_cases hk : (enforce sh cfg true eC (pre + w + eos) 0 []).kind = .ok
        · right
          have := he.2 hk
          simp only [obs]
          rw [this.1]
          exact this.2 w' hw'
        · left
          simp [obs, hk]
      · simp [obs, he.1, total]
      · simp [obs, he.1]
    | uploaded w up =>
      have hr : r = enforce sh cfg true eC (pre + w + eos) up [up] := by rw [← hr0]; simp [hpf]
      have he := enforce_spec hw cfg eC (pre + w + eos) up [up]
      have hle := hup w up rfl
      rw [hr]
      refine ⟨fun w' hw' => ?_, fun c hc => ⟨fun _ => ?_, fun hx => ?_⟩⟩
      · by_cases hk : (enforce sh cfg true eC (pre + w + eos) up [up]).kind = .ok
        · right
          have := he.2 hk
          simp only [obs]
          rw [this.1]
          exact this.2 w' hw'
        · left
          simp [obs, hk]
      · simp only [obs, he.1, total]
        have := hle c hc
        omega
      · -- an external refusal *after* an upload would need `up > c`, which the budget check excluded
        exfalso
        have h1 := hle c hc
        simp only [obs, beq_iff_eq] at hx
        unfold enforce at hx
        simp only [Bool.true_and] at hx
        split at hx
        · cases hx
        · split at hx
          · rename_i h2
            simp only [capHit, hc, he', gt_holds] at h2
            omega
          · cases hx

end Aux

/-- the shape extracted from the working tree is sound (evaluated; re-checked whenever the source changes) -/
theorem shape_sound : Sound Gen.RespCaps.shape := by
  constructor <;> rfl

/-- unary: the body fits `max_response_bytes` or the response is an RPC error; uploads of a successful response fit
    `max_externalized_response_bytes`; an external refusal has uploaded nothing -/
theorem C16_unary_any (sh : Shape) (hs : Sound sh) (cfg : Cfg) (schema pre eos errWire : Nat) (r : Batch) (framed ptr : Nat) :
    WireOk cfg.wireCap (obs (unaryRespond sh cfg schema pre eos errWire r framed ptr))
      ∧ ExternalOk cfg.extCap (obs (unaryRespond sh cfg schema pre eos errWire r framed ptr)) := by
  have h := Aux.respond_spec hs.wireOp hs.extOp cfg (pre + errWire + eos) (pre + errWire + eos)
    (schema + (if sh.unaryReplacementOnlyError then 0 else pre - schema) + errWire + eos) pre eos
    (capHit sh.unaryPreflight (predictBatch sh cfg r) cfg.extCap)
    (flushBatch sh cfg (if sh.unaryPassesBudget then cfg.extCap else none) r framed ptr)
    (by
      intro w up hf c hc
      rw [hs.unaryPasses] at hf
      simp only [if_true, hc] at hf
      exact Aux.flushBatch_uploaded hs.batchBudget hf)
  rw [Aux.unary_eq, hs.unaryEnf]
  exact h

theorem C16_exchange_any (sh : Shape) (hs : Sound sh) (cfg : Cfg) (pre eos errWire : Nat) (p : Payload) :
    WireOk cfg.wireCap (obs (exchangeTurn sh cfg pre eos errWire p))
      ∧ ExternalOk cfg.extCap (obs (exchangeTurn sh cfg pre eos errWire p)) := by
  have h := Aux.respond_spec hs.wireOp hs.extOp cfg (pre + (if sh.exchangeReplacementOnlyError then 0 else p.logs) + errWire + eos)
    (pre + errWire + eos) (pre + (if sh.exchangeReplacementOnlyError then 0 else p.logs) + errWire + eos) pre eos
    (capHit sh.exchangePreflight (predictColl sh cfg p) cfg.extCap)
    (flushColl sh cfg (if sh.exchangePassesBudget then cfg.extCap else none) p)
    (by
      intro w up hf c hc
      rw [hs.exchangePasses] at hf
      simp only [if_true, hc] at hf
      exact Aux.flushColl_uploaded hs.collBudget hf)
  rw [Aux.exchange_eq, hs.exchangeEnf]
  exact h

namespace Aux

/-- loop invariant of the producer turn: `cum` is what has been uploaded so far and is within the cap; the buffer
    holds at most `B` bytes (`B` ≥ the wire cap) when an iteration starts -/
theorem loop_spec (sh : Shape) (hs : Sound sh) (cfg : Cfg) (sentinel eos B : Nat)
    (hB : ∀ w, cfg.wireCap = some w → w ≤ B) :
    ∀ (script : List Iter) (tell cum : Nat) (ups : List Nat) (n : Nat),
      cum = total ups → (∀ c, cfg.extCap = some c → cum ≤ c) → tell ≤ B →
      let t := producerLoop sh cfg sentinel eos script tell cum ups n
      (t.body ≤ B + t.last + sentinel + eos) ∧ (∀ c, cfg.extCap = some c → total t.uploads ≤ c) := by
  intro script
  induction script with
  | nil =>
    intro tell cum ups n hc hcap ht
    simp only [producerLoop]
    exact ⟨by omega, fun c h => by rw [← hc]; exact hcap c h⟩
  | cons it rest ih =>
    intro tell cum ups n hc hcap ht
    have hups : ∀ c, cfg.extCap = some c → total ups ≤ c := fun c h => by rw [← hc]; exact hcap c h
    simp only [producerLoop]
    split
    · exact ⟨by simp only []; omega, hups⟩
    · split
      · exact ⟨by simp only []; omega, hups⟩
      · split
        · -- refused before upload
          exact ⟨by simp only []; omega, hups⟩
        · -- inline
          rename_i w _
          split
          · exact ⟨by simp only []; omega, hups⟩
          · split
            · rename_i hcont
              -- keep producing: the buffer is still below the cap
              have hlt : tell + w ≤ B := by
                cases hwc : cfg.wireCap with
                | none => simp [capHit, hwc] at hcont
                | some wc =>
                  simp only [capHit, hwc, hs.contOp, lt_holds] at hcont
                  have := hB wc hwc
                  omega
              exact ih (tell + w) cum ups (n + 1) hc hcap hlt
            · exact ⟨by simp only []; omega, hups⟩
        · -- uploaded
          rename_i w up hf
          have hup : ∀ c, cfg.extCap = some c → cum + up ≤ c := by
            intro c hcc
            rw [hs.producerPasses] at hf
            simp only [if_true, hcc, Option.map] at hf
            have := flushColl_uploaded hs.collBudget hf
            have := hcap c hcc
            omega
          have htot : cum + up = total (ups ++ [up]) := by rw [total_append, hc]
          split
          · exact ⟨by simp only []; omega, fun c h => by rw [← htot]; exact hup c h⟩
          · split
            · rename_i hcont
              have hlt : tell + w ≤ B := by
                cases hwc : cfg.wireCap with
                | none => simp [capHit, hwc] at hcont
                | some wc =>
                  simp only [capHit, hwc, hs.contOp, lt_holds] at hcont
                  have := hB wc hwc
                  omega
              exact ih (tell + w) (cum + up) (ups ++ [up]) (n + 1) htot hup hlt
            · exact ⟨by simp only []; omega, fun c h => by rw [← htot]; exact hup c h⟩

end Aux

/-- producer turn, any sound shape, any script: the body exceeds the wire cap by at most the last iteration's bytes
    (+ sentinel + end-of-stream marker), and the uploads of the turn never exceed the external cap — whatever the
    outcome of the turn -/
theorem C16_producer_any (sh : Shape) (hs : Sound sh) (cfg : Cfg) (pre sentinel eos : Nat) (script : List Iter) :
    let t := producerTurn sh cfg pre sentinel eos script
    ProducerOk cfg.wireCap cfg.extCap pre t.last sentinel eos t.body t.uploads := by
  intro t
  have h := Aux.loop_spec sh hs cfg sentinel eos (match cfg.wireCap with | some w => max w pre | none => pre)
    (by intro w hw; simp only [hw]; exact Nat.le_max_left w pre)
    script pre 0 [] 0 rfl (fun c _ => Nat.zero_le c)
    (by cases cfg.wireCap with
        | none => exact Nat.le_refl pre
        | some w => exact Nat.le_max_right w pre)
  refine ⟨fun w hw => ?_, h.2⟩
  have h1 := h.1
  simp only [hw] at h1
  exact h1

/-! ### the obligations: the server of the working tree -/

/-- a unary response body never exceeds `max_response_bytes` unless the response is an RPC error -/
theorem C16_unary (cfg : Cfg) (schema pre eos errWire : Nat) (r : Batch) (framed ptr : Nat) :
    WireOk cfg.wireCap (obs (unaryRespond' cfg schema pre eos errWire r framed ptr)) :=
  (C16_unary_any _ shape_sound cfg schema pre eos errWire r framed ptr).1

/-- same for an exchange turn, with any number of log batches -/
theorem C16_exchange (cfg : Cfg) (pre eos errWire : Nat) (p : Payload) :
    WireOk cfg.wireCap (obs (exchangeTurn' cfg pre eos errWire p)) :=
  (C16_exchange_any _ shape_sound cfg pre eos errWire p).1

/-- successful unary / exchange responses uploaded at most `max_externalized_response_bytes`; a response refused for
    the external cap uploaded nothing -/
theorem C16_external (cfg : Cfg) (schema pre eos errWire : Nat) (r : Batch) (framed ptr : Nat) (p : Payload) :
    ExternalOk cfg.extCap (obs (unaryRespond' cfg schema pre eos errWire r framed ptr))
      ∧ ExternalOk cfg.extCap (obs (exchangeTurn' cfg pre eos errWire p)) :=
  ⟨(C16_unary_any _ shape_sound cfg schema pre eos errWire r framed ptr).2,
   (C16_exchange_any _ shape_sound cfg pre eos errWire p).2⟩

/-- "an oversize result becomes an RPC error *instead*": the response that replaces an oversize unary / exchange body is
    the schema message, the error batch and the end-of-stream marker — nothing of the discarded body (neither the
    result nor the client-log batches that helped to overshoot), so it does not grow with what was discarded -/
theorem C16_replacement_any (sh : Shape) (hs : Sound sh) (cfg : Cfg) (schema pre eos errWire : Nat) (r : Batch)
    (framed ptr : Nat) (p : Payload) :
    ((unaryRespond sh cfg schema pre eos errWire r framed ptr).kind = .errWire →
        (unaryRespond sh cfg schema pre eos errWire r framed ptr).body = schema + errWire + eos)
      ∧ ((exchangeTurn sh cfg pre eos errWire p).kind = .errWire →
        (exchangeTurn sh cfg pre eos errWire p).body = pre + errWire + eos) := by
  constructor
  · intro h
    rw [Aux.unary_eq] at h ⊢
    rw [Aux.finish_errWire _ _ _ _ _ _ _ _ _ _ h, hs.unaryFresh]
    simp
  · intro h
    rw [Aux.exchange_eq] at h ⊢
    rw [Aux.finish_errWire _ _ _ _ _ _ _ _ _ _ h, hs.exchangeFresh]
    simp

theorem C16_replacement (cfg : Cfg) (schema pre eos errWire : Nat) (r : Batch) (framed ptr : Nat) (p : Payload) :
    ((unaryRespond' cfg schema pre eos errWire r framed ptr).kind = .errWire →
        (unaryRespond' cfg schema pre eos errWire r framed ptr).body = schema + errWire + eos)
      ∧ ((exchangeTurn' cfg pre eos errWire p).kind = .errWire →
        (exchangeTurn' cfg pre eos errWire p).body = pre + errWire + eos) :=
  C16_replacement_any _ shape_sound cfg schema pre eos errWire r framed ptr p

/-- a producer turn exceeds the wire cap by at most its last batch (+ sentinel + EOS) and never the external cap -/
theorem C16_producer (cfg : Cfg) (pre sentinel eos : Nat) (script : List Iter) :
    let t := producerTurn' cfg pre sentinel eos script
    ProducerOk cfg.wireCap cfg.extCap pre t.last sentinel eos t.body t.uploads :=
  C16_producer_any _ shape_sound cfg pre sentinel eos script

/-- the cheap pre-flight (buffer size) never refuses a payload the exact check (serialized size) admits, provided
    a payload is at least as large as its data buffers — the one law about Arrow sizes used anywhere -/
theorem preflight_never_refuses_a_fitting_payload (sh : Shape) (hpre : sh.unaryPreflight = .gt) (cfg : Cfg)
    (r : Batch) (framed c : Nat) (hlaw : r.buf ≤ framed) (hc : cfg.extCap = some c)
    (href : capHit sh.unaryPreflight (predictBatch sh cfg r) cfg.extCap = true) : c < framed := by
  simp only [capHit, hc, hpre, Aux.gt_holds] at href
  have : predictBatch sh cfg r ≤ r.buf := by
    unfold predictBatch
    split <;> try omega
    split <;> try omega
    split <;> omega
  omega

/-- non-vacuity: a result that fits, one refused before upload, one turned into a wire error -/
example : unaryRespond' ⟨some 2000, some 1296, true, 100⟩ 150 200 8 700 ⟨1008, 1, 1100⟩ 1296 300 = ⟨.ok, 508, [1296]⟩ := by rfl
example : unaryRespond' ⟨some 2000, some 1295, true, 100⟩ 150 200 8 700 ⟨1008, 1, 1100⟩ 1296 300 = ⟨.errExt, 908, []⟩ := by rfl
example : unaryRespond' ⟨some 1000, none, false, 100⟩ 150 200 8 700 ⟨1008, 1, 1100⟩ 1296 300 = ⟨.errWire, 858, []⟩ := by rfl
example : (producerTurn' ⟨some 1000, some 3000, true, 100⟩ 200 150 8
    [⟨⟨0, some ⟨1008, 1, 1100⟩, 1296, 300⟩, false, false, 700⟩, ⟨⟨0, some ⟨1008, 1, 1100⟩, 1296, 300⟩, false, false, 700⟩,
     ⟨⟨0, some ⟨1008, 1, 1100⟩, 1296, 300⟩, false, false, 700⟩]).uploads = [1296, 1296] := by rfl

end VgiVerif.C16
