import VgiVerif.Model.C34
import VgiVerif.Spec.C34
import VgiVerif.Lemmas.JsonSchema
import VgiVerif.Proofs.Engine
/-
C34 property theorems.  Helper lemmas live in `Aux`; the obligations audited by the check are at the bottom.
Everything quantifies over every environment, every program (any methods, step scripts, pulls, sends, close / cancel), every
break-decision and overshoot oracle, and — for the formatter — every size function.
-/
namespace VgiVerif.C34
open VgiVerif.Engine
open VgiVerif.JsonSchema (JV patOk fullMatch propOk Atom tyOk Schema F Pat propOk_some propOk_map propOk_none len_pos
  hex_nonempty patOk_of_full)

/-- what a log reader sees of a record, in the spec's vocabulary -/
def line (r : Record) : Spec.Line :=
  { status := match r.status with | .ok => .ok | .error => .error
    errorType := r.errorType, errorMessage := r.errorMessage, streamId := r.streamId, cancelled := r.cancelled }

/-- assumptions on the trusted inputs: identity strings are not empty, ids have the format their generators produce -/
structure EnvOk (env : Env) : Prop where
  serverId : env.serverId ≠ []
  protocol : env.protocol ≠ []
  hash : fullMatch (.hexLen 64) env.protocolHash = true
  sid : ∀ n, fullMatch (.hexLen 32) (env.sid n) = true

def Call.name : Call → Str
  | .unary m _ => m.name
  | .producer m _ _ _ => m.name
  | .exchange m _ _ _ => m.name

def Call.isStream : Call → Bool
  | .unary _ _ => false
  | _ => true

/-- registered method names are Python identifiers: never empty -/
def ProgOk (prog : List Call) : Prop := ∀ c ∈ prog, c.name ≠ []

/-- the invariant every emitted record satisfies (readable counterpart of the schema's demands) -/
structure WF (r : Record) : Prop where
  serverId : r.serverId ≠ []
  protocol : r.protocol ≠ []
  hash : patOk (.hexLen 64) r.protocolHash = true
  method : r.method ≠ []
  okType : r.status = .ok → r.errorType = []
  errMsg : r.status = .error → ∃ m, r.errorMessage = some m ∧ m ≠ []
  streamId : r.methodType = .stream → ∃ s, r.streamId = some s
  sidFmt : ∀ s, r.streamId = some s → patOk (.hexLen 32) s = true
  unaryData : r.methodType = .unary → r.requestData = true ∨ ∃ t, r.truncated = some t
  serverVersion : ∀ v, r.serverVersion = some v → v ≠ []
  requestId : ∀ v, r.requestId = some v → v ≠ []
  http : ∀ n, r.httpStatus = some n → 100 ≤ n ∧ n ≤ 599

/-- the exceptions a call's program can raise: the method's own, the framework's for a `process()` that emits nothing or
finishes an exchange (`clsAt`), and the response-budget verdicts of the overshoot oracle -/
def Call.mayRaise : Call → Exn → Prop
  | .unary m over, e => m.out = .error e ∨ over = some e
  | .producer m _ _ _, e => m.init = some e ∨ ∃ k, clsAt false m.steps k = .fail e
  | .exchange m _ over _, e => m.init = some e ∨ (∃ k, clsAt true m.steps k = .fail e) ∨ ∃ k, over k = some e

/-- the error (if any) the response to one HTTP request carries -/
def Http.reqErr (brk : Nat → Bool) (m : StreamM) : Http.Req → Option Exn
  | .init =>
    match m.init with
    | some e => some e
    | none => if m.exchange then none else Http.firstErr (Engine.Http.initBody brk [] m.steps)
  | .cont pos => Http.firstErr (Engine.Http.serveContinuation brk m.steps pos)
  | .exch pos over => (Http.exchOutcome m pos over).err
  | .cancel => none

/-- the error (if any) a socket-family stream call ends with -/
def Pipe.streamErr (m : StreamM) (ins : List Pipe.In) : Option Exn :=
  match m.init with
  | some e => some e
  | none => match Pipe.loop m.exchange m.steps 0 ins with
    | .err e => some e
    | _ => none

namespace Aux

/-! ### the extracted shapes the model was written against (a source edit that changes one of them breaks these `rfl`s) -/

theorem msgLimit_none : G.msgLimit = none := rfl
theorem fallback_lit : G.emptyFallback = some ['e', 'r', 'r', 'o', 'r'] := rfl
theorem emitOnce : G.emitOnce = true := rfl
theorem telemetryOnce : G.telemetryOnce = true := rfl
theorem egressOnce : G.egressOnce = true := rfl
theorem pipeViaHelper : G.pipeViaHelper = false := rfl
theorem httpMsgHelper : G.httpMsgHelper = true := rfl
theorem shedOrder : G.shedOrder = [.request_data, .claims] := rfl
theorem sentinelCond : G.sentinelCond = [.error_message, .stream_id] := rfl
theorem sentinelFallback_ne : G.sentinelErrFallback ≠ [] := by decide
theorem statuses : G.okStatus = 200 ∧ G.unaryErr = 500 ∧ G.initRaise = some 500 ∧ G.exchangeRaise = some 500 ∧
    G.exchangeOvershoot = none ∧ G.producerTurn = none := ⟨rfl, rfl, rfl, rfl, rfl, rfl⟩
/-- the two error paths of `_run_http_exchange_turn` the generated programs do not reach (an external input pointer that
cannot be resolved; an input batch the declared schema refuses): extracted one by one, both HTTP status codes -/
theorem exchange_input_statuses : VgiVerif.Gen.C34.exchangeResolve = some 500 ∧ VgiVerif.Gen.C34.exchangeCoerce = some 400 :=
  ⟨rfl, rfl⟩

/-- the stream id is published on every path that serves a stream request: `/init`, and — whether the call-state cache hits
or misses — every continuation, exchange turn and cancel -/
theorem sidShape : G.sidAtInit = true ∧ G.sidOnHit = true ∧ G.sidOnMiss = true := ⟨rfl, rfl, rfl⟩

theorem initSid_eq (env : Env) (n : Nat) : Http.initSid env n = env.sid n := by
  simp [Http.initSid, sidShape.1]

theorem contSid_eq (env : Env) (n : Nat) (key : Option Nat) : Http.contSid env n key = env.sid n := by
  unfold Http.contSid
  cases env.cacheHit n key <;> simp [sidShape.2.1, sidShape.2.2]

/-! ### WF ⇒ SchemaOk -/

theorem propOk_flag {g : Key → Option JV} {k : Key} (b : Bool) (v : JV) (hk : g k = flag b v) (as : List Atom)
    (h : as.all (·.ok v) = true) : propOk g (k, as) = true := by
  cases b with
  | false => simp [propOk, hk, flag]
  | true => simp [propOk, hk, flag, h]

theorem req_ok (r : Record) : G.schema.required.all (fun k => (r.get k).isSome) = true := by
  rfl

theorem props_ok (r : Record) (h : WF r) : G.schema.props.all (propOk r.get) = true := by
  have h1 := len_pos h.serverId
  have h2 := len_pos h.protocol
  have h3 := len_pos h.method
  have h4 := h.hash
  simp only [VgiVerif.Gen.C34.schema, List.all_cons, List.all_nil, Bool.and_true, Bool.and_eq_true]
  and_intros
  all_goals try rfl
  all_goals try exact propOk_flag _ _ rfl _ rfl
  all_goals try exact propOk_map _ _ rfl _ (fun _ _ => rfl)
  any_goals (refine propOk_some rfl _ ?_)
  any_goals (refine propOk_map (g := r.get) (k := .http_status) r.httpStatus (fun n : Nat => JV.int (n : Int)) rfl _ ?_; intro v hv)
  any_goals (refine propOk_map _ _ rfl _ ?_; intro v hv)
  all_goals first
    | (simp [Atom.ok, tyOk, h1, h2, h3, h4]; done)
    | (cases r.methodType <;> rfl)
    | (cases r.status <;> rfl)
    | (simp [Atom.ok, tyOk, len_pos (h.serverVersion v hv)]; done)
    | (simp [Atom.ok, tyOk, len_pos (h.requestId v hv)]; done)
    | (simp [Atom.ok, tyOk, h.sidFmt v hv]; done)
    | (have := h.http v hv; simp [Atom.ok, tyOk]; omega)
    | (cases v <;> rfl)

theorem conds_ok (r : Record) (h : WF r) : G.schema.conds.all (F.eval r.get) = true := by
  simp only [VgiVerif.Gen.C34.schema, List.all_cons, List.all_nil, Bool.and_true, Bool.and_eq_true]
  refine ⟨?_, ?_, ?_, ?_, ?_⟩
  · -- status = error ⇒ error_message present and not empty
    cases hs : r.status with
    | ok => simp [F.eval, Record.get, hs, St.str, Atom.ok]
    | error =>
      obtain ⟨m, hm, hne⟩ := h.errMsg hs
      simp [F.eval, Record.get, hs, hm, St.str, Atom.ok, len_pos hne]
  · -- status = ok ⇒ error_type = ""
    cases hs : r.status with
    | ok => simp [F.eval, Record.get, hs, St.str, Atom.ok, h.okType hs]
    | error => simp [F.eval, Record.get, hs, St.str, Atom.ok]
  · -- stream ⇒ stream_id
    cases hm : r.methodType with
    | unary => simp [F.eval, Record.get, hm, MT.str, Atom.ok]
    | stream =>
      obtain ⟨s, hs⟩ := h.streamId hm
      simp [F.eval, Record.get, hm, hs, MT.str, Atom.ok]
  · -- unary and not truncated ⇒ request_data
    cases hm : r.methodType with
    | stream => simp [F.eval, Record.get, hm, MT.str, Atom.ok]
    | unary =>
      rcases h.unaryData hm with hd | ⟨t, ht⟩
      · simp [F.eval, Record.get, hm, hd, flag, MT.str, Atom.ok]
      · simp [F.eval, Record.get, hm, ht, flag, MT.str, Atom.ok]
  · -- the six statistics come together
    cases hst : r.stats <;> simp [F.eval, Record.get, hst, flag]

theorem wf_schemaOk {r : Record} (h : WF r) : SchemaOk r = true := by
  unfold SchemaOk Schema.ok
  rw [req_ok r, props_ok r h, conds_ok r h]
  rfl

/-! ### every dispatch site emits a well-formed record -/

theorem nonEmpty_some {s v : Str} (h : nonEmpty s = some v) : v = s ∧ s ≠ [] := by
  unfold nonEmpty at h
  split at h
  · cases h
  · exact ⟨(Option.some.inj h).symm, by assumption⟩

theorem nonEmpty_of_ne {s : Str} (h : s ≠ []) : nonEmpty s = some s := by
  simp [nonEmpty, h]

theorem withFallback_ne (et msg : Str) : withFallback .error et msg ≠ [] := by
  unfold withFallback
  rw [fallback_lit]
  by_cases hm : msg = []
  · by_cases he : et = []
    · simp [hm, he]
    · simp [hm, he]
  · simp [hm]

theorem withFallback_full (st : St) (et msg : Str) (h : msg ≠ []) : withFallback st et msg = msg := by
  unfold withFallback
  rw [fallback_lit]
  simp [h]

/-- what `emit` needs from its caller -/
structure SiteOk (amb : Ambient) (s : Site) : Prop where
  method : s.method ≠ []
  okType : s.status = .ok → s.errorType = []
  sid : amb.streamId = [] ∨ fullMatch (.hexLen 32) amb.streamId = true
  sidStream : s.methodType = .stream → amb.streamId ≠ []
  batch : s.methodType = .unary → amb.hasBatch = true
  http : ∀ n, s.httpStatus = some n → 100 ≤ n ∧ n ≤ 599

theorem emit_wf {env : Env} {amb : Ambient} {s : Site} (henv : EnvOk env) (hs : SiteOk amb s) : WF (emit env amb s) where
  serverId := henv.serverId
  protocol := henv.protocol
  hash := patOk_of_full henv.hash
  method := hs.method
  okType := hs.okType
  errMsg := by
    intro h
    have h' : s.status = .error := h
    refine ⟨withFallback s.status s.errorType s.errorMessage, ?_, ?_⟩
    · show nonEmpty _ = _
      rw [h']
      exact nonEmpty_of_ne (withFallback_ne _ _)
    · rw [h']; exact withFallback_ne _ _
  streamId := by
    intro h
    exact ⟨amb.streamId, nonEmpty_of_ne (hs.sidStream h)⟩
  sidFmt := by
    intro v hv
    obtain ⟨rfl, hne⟩ := nonEmpty_some (s := amb.streamId) hv
    rcases hs.sid with h | h
    · exact absurd h hne
    · exact patOk_of_full h
  unaryData := by
    intro h
    have hb : amb.hasBatch = true := hs.batch h
    cases hd : env.debug with
    | true => left; show (amb.hasBatch && env.debug) = true; simp [hb, hd]
    | false =>
      right
      refine ⟨.payloadOmitted, ?_⟩
      show (if (amb.hasBatch && !env.debug) = true then some Trunc.payloadOmitted else none) = _
      simp [hb, hd]
  serverVersion := fun v hv => by
    obtain ⟨rfl, hne⟩ := nonEmpty_some (s := env.serverVersion) hv
    exact hne
  requestId := fun v hv => by
    obtain ⟨rfl, hne⟩ := nonEmpty_some (s := env.requestId) hv
    exact hne
  http := hs.http

theorem wf_resp {r : Record} (h : WF r) (b : Bool) : WF { r with responseBytes := b } :=
  ⟨h.serverId, h.protocol, h.hash, h.method, h.okType, h.errMsg, h.streamId, h.sidFmt, h.unaryData, h.serverVersion,
   h.requestId, h.http⟩

theorem sid_ne {env : Env} (henv : EnvOk env) (n : Nat) : env.sid n ≠ [] :=
  hex_nonempty (by decide) (henv.sid n)

theorem pipe_site_ok {env : Env} (henv : EnvOk env) (name : Str) (hn : name ≠ []) (err : Option Exn) (c : Bool) (n : Nat) :
    SiteOk (Pipe.amb (env.sid n)) (Pipe.site name .stream err c) ∧ SiteOk (Pipe.amb []) (Pipe.site name .unary err c) := by
  cases err with
  | none =>
    exact ⟨⟨hn, fun _ => rfl, Or.inr (henv.sid n), fun _ => sid_ne henv n, fun _ => rfl, fun _ h => (by cases h)⟩,
           ⟨hn, fun _ => rfl, Or.inl rfl, fun h => (by cases h), fun _ => rfl, fun _ h => (by cases h)⟩⟩
  | some e =>
    exact ⟨⟨hn, fun h => (by cases h), Or.inr (henv.sid n), fun _ => sid_ne henv n, fun _ => rfl, fun _ h => (by cases h)⟩,
           ⟨hn, fun h => (by cases h), Or.inl rfl, fun h => (by cases h), fun _ => rfl, fun _ h => (by cases h)⟩⟩

theorem pipe_unary_wf {env : Env} (henv : EnvOk env) (m : UnaryM) (hn : m.name ≠ []) :
    ∀ r ∈ Pipe.unary env m, WF r := by
  intro r hr
  simp only [Pipe.unary, List.mem_singleton] at hr
  subst hr
  exact emit_wf henv (pipe_site_ok henv m.name hn _ false 0).2

theorem pipe_stream_wf {env : Env} (henv : EnvOk env) (n : Nat) (m : StreamM) (hn : m.name ≠ []) (ins : List Pipe.In) :
    ∀ r ∈ Pipe.stream env n m ins, WF r := by
  intro r hr
  unfold Pipe.stream at hr
  cases hi : m.init with
  | some e =>
    simp only [hi, List.mem_singleton] at hr
    subst hr
    exact emit_wf henv (pipe_site_ok henv m.name hn _ false n).1
  | none =>
    simp only [hi, List.nil_append, List.mem_singleton] at hr
    subst hr
    cases Pipe.loop m.exchange m.steps 0 ins <;> exact emit_wf henv (pipe_site_ok henv m.name hn _ _ n).1

/-- the `http_status` values the HTTP sites store are HTTP status codes -/
def OutcomeOk (o : Http.Outcome) : Prop := 100 ≤ o.http ∧ o.http ≤ 599

theorem http_site_ok {env : Env} (henv : EnvOk env) (name : Str) (hn : name ≠ []) (o : Http.Outcome) (ho : OutcomeOk o) (n : Nat) :
    SiteOk (Http.amb env (env.sid n)) (Http.site name .stream o) ∧ SiteOk (Http.amb env []) (Http.site name .unary o) := by
  have hh : ∀ k, some o.http = some k → 100 ≤ k ∧ k ≤ 599 := fun k hk => by cases hk; exact ho
  unfold Http.site
  cases o.err with
  | none =>
    exact ⟨⟨hn, fun _ => rfl, Or.inr (henv.sid n), fun _ => sid_ne henv n, fun _ => rfl, hh⟩,
           ⟨hn, fun _ => rfl, Or.inl rfl, fun h => (by cases h), fun _ => rfl, hh⟩⟩
  | some e =>
    exact ⟨⟨hn, fun h => (by cases h), Or.inr (henv.sid n), fun _ => sid_ne henv n, fun _ => rfl, hh⟩,
           ⟨hn, fun h => (by cases h), Or.inl rfl, fun h => (by cases h), fun _ => rfl, hh⟩⟩

theorem egress_wf {known : Bool} {sink : List Record} (h : ∀ r ∈ sink, WF r) : ∀ r ∈ Http.egress known sink, WF r := by
  intro r hr
  simp only [Http.egress, egressOnce, if_true, List.mem_map] at hr
  obtain ⟨r0, h0, rfl⟩ := hr
  exact wf_resp (h r0 h0) known

theorem telemetry_wf {env : Env} (henv : EnvOk env) (n : Nat) (name : Str) (hn : name ≠ []) (o : Http.Outcome) (ho : OutcomeOk o) :
    ∀ r ∈ Http.telemetry env (Http.amb env (env.sid n)) name o, WF r := by
  intro r hr
  simp only [Http.telemetry, telemetryOnce, if_true, List.mem_singleton] at hr
  subst hr
  exact emit_wf henv (http_site_ok henv name hn o ho n).1

theorem turnOutcome_ok (items : List Item) (b : Bool) : OutcomeOk (Http.turnOutcome items b) := by
  unfold OutcomeOk Http.turnOutcome
  cases Http.firstErr items <;> simp [Http.stOf] <;> decide

theorem exchOutcome_ok (m : StreamM) (pos : Nat) (over : Option Exn) : OutcomeOk (Http.exchOutcome m pos over) := by
  unfold OutcomeOk Http.exchOutcome
  cases clsAt true m.steps pos <;> cases over <;> simp [Http.stOf] <;> decide

theorem http_serve_wf {env : Env} (henv : EnvOk env) (brk : Nat → Bool) (n : Nat) (m : StreamM) (hn : m.name ≠ []) (q : Http.Req) :
    ∀ r ∈ Http.serve env brk n m q, WF r := by
  cases q with
  | init =>
    unfold Http.serve Http.init
    rw [initSid_eq]
    cases m.init with
    | some e => exact egress_wf (telemetry_wf henv n m.name hn _ (by unfold OutcomeOk; simp [Http.stOf]; decide))
    | none =>
      cases m.exchange with
      | true => exact egress_wf (telemetry_wf henv n m.name hn _ (by unfold OutcomeOk; decide))
      | false => exact egress_wf (telemetry_wf henv n m.name hn _ (turnOutcome_ok _ _))
  | cont pos =>
    simp only [Http.serve, Http.cont, contSid_eq]
    exact egress_wf (telemetry_wf henv n m.name hn _ (turnOutcome_ok _ _))
  | exch pos over =>
    simp only [Http.serve, Http.exch, contSid_eq]
    exact egress_wf (telemetry_wf henv n m.name hn _ (exchOutcome_ok _ _ _))
  | cancel =>
    simp only [Http.serve, Http.cancel, contSid_eq]
    exact egress_wf (telemetry_wf henv n m.name hn _ (by unfold OutcomeOk; decide))

theorem http_unary_wf {env : Env} (henv : EnvOk env) (m : UnaryM) (hn : m.name ≠ []) (over : Option Exn) :
    ∀ r ∈ Http.unary env m over, WF r := by
  unfold Http.unary
  refine egress_wf ?_
  intro r hr
  simp only [List.mem_singleton] at hr
  subst hr
  refine emit_wf henv (http_site_ok henv m.name hn _ ?_ 0).2
  unfold OutcomeOk
  cases m.out <;> cases over <;> simp <;> decide

theorem call_wf {env : Env} (henv : EnvOk env) (t : Transport) (n : Nat) (c : Call) (hn : c.name ≠ []) :
    ∀ r ∈ callRecords env t n c, WF r := by
  cases t with
  | pipe =>
    cases c with
    | unary m over => exact pipe_unary_wf henv m hn
    | producer m brk d fin => exact pipe_stream_wf henv n m hn _
    | exchange m sends over fin => exact pipe_stream_wf henv n m hn _
  | http =>
    cases c with
    | unary m over => exact http_unary_wf henv m hn over
    | producer m brk d fin =>
      intro r hr
      simp only [callRecords, Http.call, List.mem_flatMap] at hr
      obtain ⟨q, _, hq⟩ := hr
      exact http_serve_wf henv brk n m hn q r hq
    | exchange m sends over fin =>
      intro r hr
      simp only [callRecords, Http.call, List.mem_flatMap] at hr
      obtain ⟨q, _, hq⟩ := hr
      exact http_serve_wf henv _ n m hn q r hq

theorem runFrom_mem {env : Env} {t : Transport} {prog : List Call} {n : Nat} {rs : List Record}
    (h : rs ∈ runFrom env t n prog) : ∃ k c, c ∈ prog ∧ rs = callRecords env t k c := by
  induction prog generalizing n with
  | nil => simp [runFrom] at h
  | cons c r ih =>
    simp only [runFrom, List.mem_cons] at h
    rcases h with h | h
    · exact ⟨n, c, by simp, h⟩
    · obtain ⟨k, c', hc, he⟩ := ih h
      exact ⟨k, c', by simp [hc], he⟩

/-! ### the formatter keeps a well-formed record well-formed -/

theorem sentinel_wf {r : Record} (h : WF r) : WF (sentinel r) where
  serverId := h.serverId
  protocol := h.protocol
  hash := h.hash
  method := h.method
  okType := h.okType
  errMsg := by
    intro hs
    have hs' : r.status = .error := hs
    obtain ⟨m, hm, hne⟩ := h.errMsg hs'
    refine ⟨m, ?_, hne⟩
    show (if (G.sentinelCond.contains .error_message && decide (r.status = .error)) = true then _ else none) = _
    rw [sentinelCond, hs', hm]
    simp [hne]
  streamId := by
    intro hm
    obtain ⟨s, hs⟩ := h.streamId hm
    refine ⟨s, ?_⟩
    show (if G.sentinelCond.contains .stream_id = true then r.streamId else none) = _
    rw [sentinelCond, hs]
    rfl
  sidFmt := by
    intro s hs
    have : (if G.sentinelCond.contains .stream_id = true then r.streamId else none) = some s := hs
    rw [sentinelCond] at this
    exact h.sidFmt s this
  unaryData := fun _ => Or.inr ⟨.tooLarge, rfl⟩
  serverVersion := fun v hv => by cases hv
  requestId := fun v hv => by cases hv
  http := fun n hn => by cases hn

theorem shedData_wf {r : Record} (h : WF r) : WF (shedRequestData r) :=
  ⟨h.serverId, h.protocol, h.hash, h.method, h.okType, h.errMsg, h.streamId, h.sidFmt, fun _ => Or.inr ⟨.shed, rfl⟩,
   h.serverVersion, h.requestId, h.http⟩

theorem shedClaims_wf {r : Record} (h : WF r) : WF (shedClaims r) :=
  ⟨h.serverId, h.protocol, h.hash, h.method, h.okType, h.errMsg, h.streamId, h.sidFmt, fun _ => Or.inr ⟨.shed, rfl⟩,
   h.serverVersion, h.requestId, h.http⟩

theorem stage1_wf {r : Record} (h : WF r) : WF (stage1 r) := by
  unfold stage1
  split
  · exact shedData_wf h
  · exact h

theorem stage2_wf {r : Record} (h : WF r) : WF (stage2 r) := by
  unfold stage2
  split
  · exact shedClaims_wf (stage1_wf h)
  · exact stage1_wf h

theorem format_cases (fits : Record → Bool) (r : Record) :
    format fits r = r ∨ format fits r = stage1 r ∨ format fits r = stage2 r ∨ format fits r = sentinel (stage2 r) := by
  unfold format
  split
  · exact Or.inl rfl
  · split
    · exact Or.inr (Or.inl rfl)
    · split
      · exact Or.inr (Or.inr (Or.inl rfl))
      · exact Or.inr (Or.inr (Or.inr rfl))

theorem format_wf (fits : Record → Bool) {r : Record} (h : WF r) : WF (format fits r) := by
  rcases format_cases fits r with e | e | e | e <;> rw [e]
  · exact h
  · exact stage1_wf h
  · exact stage2_wf h
  · exact sentinel_wf (stage2_wf h)

/-! ### exactly one record per dispatch -/

theorem serve_length (env : Env) (brk : Nat → Bool) (n : Nat) (m : StreamM) (q : Http.Req) :
    (Http.serve env brk n m q).length = 1 := by
  cases q with
  | init =>
    unfold Http.serve Http.init
    cases m.init <;> cases m.exchange <;> simp [Http.egress, Http.telemetry, egressOnce, telemetryOnce]
  | cont pos => simp [Http.serve, Http.cont, Http.egress, Http.telemetry, egressOnce, telemetryOnce]
  | exch pos over => simp [Http.serve, Http.exch, Http.egress, Http.telemetry, egressOnce, telemetryOnce]
  | cancel => simp [Http.serve, Http.cancel, Http.egress, Http.telemetry, egressOnce, telemetryOnce]

theorem flatMap_length_one {α β : Type} (f : α → List β) (l : List α) (h : ∀ a, (f a).length = 1) :
    (l.flatMap f).length = l.length := by
  induction l with
  | nil => rfl
  | cons a r ih => simp [List.flatMap_cons, h a, ih]; omega

theorem pipe_stream_length (env : Env) (n : Nat) (m : StreamM) (ins : List Pipe.In) : (Pipe.stream env n m ins).length = 1 := by
  unfold Pipe.stream
  cases m.init <;> simp

theorem call_length (env : Env) (t : Transport) (n : Nat) (c : Call) : (callRecords env t n c).length = dispatches t c := by
  cases t with
  | pipe =>
    cases c with
    | unary m over => rfl
    | producer m brk d fin => exact pipe_stream_length env n m _
    | exchange m sends over fin => exact pipe_stream_length env n m _
  | http =>
    cases c with
    | unary m over => simp [callRecords, Http.call, Http.unary, Http.egress, egressOnce, dispatches, Http.requests]
    | producer m brk d fin =>
      simp only [callRecords, Http.call, dispatches]
      exact flatMap_length_one _ _ (serve_length env brk n m)
    | exchange m sends over fin =>
      simp only [callRecords, Http.call, dispatches]
      exact flatMap_length_one _ _ (serve_length env _ n m)

theorem exchReqs_length (m : StreamM) (over : Nat → Option Exn) (pos k : Nat) : (Http.exchReqs m over pos k).length = k := by
  induction k generalizing pos with
  | zero => rfl
  | succ k ih =>
    simp only [Http.exchReqs, List.length_cons]
    split <;> simp [ih]

theorem runFrom_length (env : Env) (t : Transport) (n : Nat) (prog : List Call) : (runFrom env t n prog).length = prog.length := by
  induction prog generalizing n with
  | nil => rfl
  | cons c r ih => simp [runFrom, ih]

theorem runFrom_lengths (env : Env) (t : Transport) (n : Nat) (prog : List Call) :
    (runFrom env t n prog).map List.length = prog.map (dispatches t) := by
  induction prog generalizing n with
  | nil => rfl
  | cons c r ih => simp [runFrom, ih, call_length]

/-! ### attribution: method, type, stream id -/

/-- every record of the `n`-th call names the call's method and carries the stream id minted for that call -/
def Attributed (env : Env) (n : Nat) (c : Call) (r : Record) : Prop :=
  r.method = c.name ∧ r.methodType = (if c.isStream then .stream else .unary) ∧
    r.streamId = (if c.isStream then some (env.sid n) else none)

theorem emit_attr (env : Env) (amb : Ambient) (s : Site) :
    (emit env amb s).method = s.method ∧ (emit env amb s).methodType = s.methodType ∧
      (emit env amb s).streamId = nonEmpty amb.streamId := ⟨rfl, rfl, rfl⟩

theorem pipe_site_attr (name : Str) (mt : MT) (err : Option Exn) (c : Bool) :
    (Pipe.site name mt err c).method = name ∧ (Pipe.site name mt err c).methodType = mt := by
  cases err <;> exact ⟨rfl, rfl⟩

theorem http_site_attr (name : Str) (mt : MT) (o : Http.Outcome) :
    (Http.site name mt o).method = name ∧ (Http.site name mt o).methodType = mt := by
  unfold Http.site
  cases o.err <;> exact ⟨rfl, rfl⟩

theorem pipe_stream_attr {env : Env} (henv : EnvOk env) (n : Nat) (m : StreamM) (ins : List Pipe.In) :
    ∀ r ∈ Pipe.stream env n m ins, r.method = m.name ∧ r.methodType = .stream ∧ r.streamId = some (env.sid n) := by
  intro r hr
  have hsid : nonEmpty (Pipe.amb (env.sid n)).streamId = some (env.sid n) := nonEmpty_of_ne (sid_ne henv n)
  unfold Pipe.stream at hr
  cases hi : m.init with
  | some e =>
    simp only [hi, List.mem_singleton] at hr
    subst hr
    exact ⟨(pipe_site_attr _ _ _ _).1, (pipe_site_attr _ _ _ _).2, hsid⟩
  | none =>
    simp only [hi, List.nil_append, List.mem_singleton] at hr
    subst hr
    cases Pipe.loop m.exchange m.steps 0 ins <;> exact ⟨(pipe_site_attr _ _ _ _).1, (pipe_site_attr _ _ _ _).2, hsid⟩

theorem telemetry_attr {env : Env} (henv : EnvOk env) (n : Nat) (name : Str) (o : Http.Outcome) (known : Bool) :
    ∀ r ∈ Http.egress known (Http.telemetry env (Http.amb env (env.sid n)) name o),
      r.method = name ∧ r.methodType = .stream ∧ r.streamId = some (env.sid n) := by
  intro r hr
  simp only [Http.egress, egressOnce, Http.telemetry, telemetryOnce, if_true, List.map_cons, List.map_nil, List.mem_singleton] at hr
  subst hr
  exact ⟨(http_site_attr _ _ _).1, (http_site_attr _ _ _).2, nonEmpty_of_ne (sid_ne henv n)⟩

theorem http_serve_attr {env : Env} (henv : EnvOk env) (brk : Nat → Bool) (n : Nat) (m : StreamM) (q : Http.Req) :
    ∀ r ∈ Http.serve env brk n m q, r.method = m.name ∧ r.methodType = .stream ∧ r.streamId = some (env.sid n) := by
  cases q with
  | init =>
    unfold Http.serve Http.init
    rw [initSid_eq]
    cases m.init with
    | some e => exact telemetry_attr henv n m.name _ _
    | none => cases m.exchange <;> exact telemetry_attr henv n m.name _ _
  | cont pos =>
    simp only [Http.serve, Http.cont, contSid_eq]
    exact telemetry_attr henv n m.name _ _
  | exch pos over =>
    simp only [Http.serve, Http.exch, contSid_eq]
    exact telemetry_attr henv n m.name _ _
  | cancel =>
    simp only [Http.serve, Http.cancel, contSid_eq]
    exact telemetry_attr henv n m.name _ _

theorem call_attr {env : Env} (henv : EnvOk env) (t : Transport) (n : Nat) (c : Call) :
    ∀ r ∈ callRecords env t n c, Attributed env n c r := by
  cases t with
  | pipe =>
    cases c with
    | unary m over =>
      intro r hr
      simp only [callRecords, Pipe.call, Pipe.unary, List.mem_singleton] at hr
      subst hr
      exact ⟨(pipe_site_attr _ _ _ _).1, (pipe_site_attr _ _ _ _).2, rfl⟩
    | producer m brk d fin => exact pipe_stream_attr henv n m _
    | exchange m sends over fin => exact pipe_stream_attr henv n m _
  | http =>
    cases c with
    | unary m over =>
      intro r hr
      simp only [callRecords, Http.call, Http.unary, Http.egress, egressOnce, if_true, List.map_cons, List.map_nil,
        List.mem_singleton] at hr
      subst hr
      exact ⟨(http_site_attr _ _ _).1, (http_site_attr _ _ _).2, rfl⟩
    | producer m brk d fin =>
      intro r hr
      simp only [callRecords, Http.call, List.mem_flatMap] at hr
      obtain ⟨q, _, hq⟩ := hr
      exact http_serve_attr henv brk n m q r hq
    | exchange m sends over fin =>
      intro r hr
      simp only [callRecords, Http.call, List.mem_flatMap] at hr
      obtain ⟨q, _, hq⟩ := hr
      exact http_serve_attr henv _ n m q r hq

theorem format_streamId (fits : Record → Bool) (r : Record) : (format fits r).streamId = r.streamId := by
  have s1 : (stage1 r).streamId = r.streamId := by unfold stage1; split <;> rfl
  have s2 : (stage2 r).streamId = r.streamId := by unfold stage2; split <;> simp [shedClaims, s1]
  rcases format_cases fits r with e | e | e | e <;> rw [e]
  · exact s1
  · exact s2
  · show (if G.sentinelCond.contains .stream_id = true then (stage2 r).streamId else none) = _
    rw [sentinelCond, s2]; rfl

theorem format_status (fits : Record → Bool) (r : Record) :
    (format fits r).status = r.status ∧ (format fits r).errorType = r.errorType := by
  have s1 : (stage1 r).status = r.status ∧ (stage1 r).errorType = r.errorType := by unfold stage1; split <;> exact ⟨rfl, rfl⟩
  have s2 : (stage2 r).status = r.status ∧ (stage2 r).errorType = r.errorType := by
    unfold stage2; split
    · exact s1
    · exact s1
  rcases format_cases fits r with e | e | e | e <;> rw [e]
  · exact ⟨rfl, rfl⟩
  · exact s1
  · exact s2
  · exact s2

theorem format_message (fits : Record → Bool) {r : Record} (h : WF r) (he : r.status = .error) :
    (format fits r).errorMessage = r.errorMessage := by
  have s1 : (stage1 r).errorMessage = r.errorMessage ∧ (stage1 r).status = r.status := by
    unfold stage1; split <;> exact ⟨rfl, rfl⟩
  have s2 : (stage2 r).errorMessage = r.errorMessage ∧ (stage2 r).status = r.status := by
    unfold stage2; split
    · exact s1
    · exact s1
  rcases format_cases fits r with e | e | e | e <;> rw [e]
  · exact s1.1
  · exact s2.1
  · obtain ⟨m, hm, hne⟩ := h.errMsg he
    show (if (G.sentinelCond.contains .error_message && decide ((stage2 r).status = .error)) = true then _ else none) = _
    rw [sentinelCond, s2.2, he, s2.1, hm]
    simp [hne]

/-! ### what a record says about the outcome of its dispatch -/

theorem pipe_msg (e : Exn) : Pipe.msg e = e.text := by
  simp [Pipe.msg, pipeViaHelper]

theorem http_msg (e : Exn) : Http.msg e = e.text := by
  simp [Http.msg, httpMsgHelper, helperMsg, msgLimit_none]

theorem fullMessage_of (env : Env) (amb : Ambient) (s : Site) (e : Exn) (hs : s.status = .error) (ht : s.errorType = e.type)
    (hm : s.errorMessage = e.text) : Spec.ReportsError (line (emit env amb s)) e := by
  refine ⟨?_, ht, withFallback s.status s.errorType s.errorMessage, ?_, ?_, ?_⟩
  · show (match s.status with | .ok => Spec.Status.ok | .error => Spec.Status.error) = _
    rw [hs]
  · show nonEmpty _ = _
    rw [hs]; exact nonEmpty_of_ne (withFallback_ne _ _)
  · rw [hs]; exact withFallback_ne _ _
  · intro hne
    rw [hm]; exact withFallback_full _ _ _ hne

theorem reportsOk_of (env : Env) (amb : Ambient) (s : Site) (hs : s.status = .ok) (ht : s.errorType = []) :
    Spec.ReportsOk (line (emit env amb s)) := by
  refine ⟨?_, ht⟩
  show (match s.status with | .ok => Spec.Status.ok | .error => Spec.Status.error) = _
  rw [hs]

theorem pipe_site_reports (env : Env) (amb : Ambient) (name : Str) (mt : MT) (err : Option Exn) (c : Bool) :
    (match err with
     | some e => Spec.ReportsError (line (emit env amb (Pipe.site name mt err c))) e
     | none => Spec.ReportsOk (line (emit env amb (Pipe.site name mt err c)))) ∧
    (line (emit env amb (Pipe.site name mt err c))).cancelled = c := by
  cases err with
  | none => exact ⟨reportsOk_of _ _ _ rfl rfl, rfl⟩
  | some e => exact ⟨fullMessage_of _ _ _ e rfl rfl (pipe_msg e), rfl⟩

theorem line_resp (r : Record) (b : Bool) : line { r with responseBytes := b } = line r := rfl

theorem http_site_reports (env : Env) (amb : Ambient) (name : Str) (mt : MT) (o : Http.Outcome) :
    (match o.err with
     | some e => Spec.ReportsError (line (emit env amb (Http.site name mt o))) e
     | none => Spec.ReportsOk (line (emit env amb (Http.site name mt o)))) ∧
    (line (emit env amb (Http.site name mt o))).cancelled = o.cancelled := by
  obtain ⟨err, http, c, rs, ps⟩ := o
  cases err with
  | none => exact ⟨reportsOk_of _ _ _ rfl rfl, rfl⟩
  | some e => exact ⟨fullMessage_of _ _ _ e rfl rfl (http_msg e), rfl⟩

theorem egress_telemetry_eq (env : Env) (a : Ambient) (name : Str) (o : Http.Outcome) (known : Bool) :
    Http.egress known (Http.telemetry env a name o) = [{ emit env a (Http.site name .stream o) with responseBytes := known }] := by
  simp [Http.egress, Http.telemetry, egressOnce, telemetryOnce]

theorem pipe_stream_eq (env : Env) (n : Nat) (m : StreamM) (ins : List Pipe.In) :
    ∃ c, Pipe.stream env n m ins = [emit env (Pipe.amb (env.sid n)) (Pipe.site m.name .stream (Pipe.streamErr m ins) c)] ∧
      (c = true ↔ m.init = none ∧ Pipe.loop m.exchange m.steps 0 ins = .cancelled) := by
  unfold Pipe.stream Pipe.streamErr
  cases m.init with
  | some e => exact ⟨false, rfl, by simp⟩
  | none =>
    cases h : Pipe.loop m.exchange m.steps 0 ins with
    | err e => exact ⟨false, rfl, by simp⟩
    | finished => exact ⟨false, rfl, by simp⟩
    | eos => exact ⟨false, rfl, by simp⟩
    | cancelled => exact ⟨true, rfl, by simp⟩

/-- the one record of a socket-family stream call reports the call's error, or success -/
theorem pipe_stream_reports (env : Env) (n : Nat) (m : StreamM) (ins : List Pipe.In) :
    ∀ r ∈ Pipe.stream env n m ins,
      match Pipe.streamErr m ins with
      | some e => Spec.ReportsError (line r) e
      | none => Spec.ReportsOk (line r) := by
  obtain ⟨c, he, _⟩ := pipe_stream_eq env n m ins
  intro r hr
  rw [he, List.mem_singleton] at hr
  subst hr
  exact (pipe_site_reports env _ m.name .stream _ c).1

/-- the outcome `_dispatch_telemetry` sees at the end of each kind of request -/
def reqOutcome (brk : Nat → Bool) (m : StreamM) : Http.Req → Http.Outcome
  | .init =>
    match m.init with
    | some e => { err := some e, http := Http.stOf G.initRaise }
    | none => if m.exchange then { responseState := true } else Http.turnOutcome (Engine.Http.initBody brk [] m.steps) false
  | .cont pos => Http.turnOutcome (Engine.Http.serveContinuation brk m.steps pos) true
  | .exch pos over => Http.exchOutcome m pos over
  | .cancel => { cancelled := true, requestState := true }

theorem serve_eq (env : Env) (brk : Nat → Bool) (n : Nat) (m : StreamM) (q : Http.Req) :
    ∃ known, Http.serve env brk n m q =
      [{ emit env (Http.amb env (env.sid n)) (Http.site m.name .stream (reqOutcome brk m q)) with responseBytes := known }] := by
  cases q with
  | init =>
    unfold Http.serve Http.init reqOutcome
    rw [initSid_eq]
    cases m.init with
    | some e => exact ⟨true, egress_telemetry_eq _ _ _ _ _⟩
    | none => cases m.exchange <;> exact ⟨true, egress_telemetry_eq _ _ _ _ _⟩
  | cont pos =>
    simp only [Http.serve, Http.cont, contSid_eq]
    exact ⟨false, egress_telemetry_eq _ _ _ _ _⟩
  | exch pos over =>
    simp only [Http.serve, Http.exch, contSid_eq]
    exact ⟨true, egress_telemetry_eq _ _ _ _ _⟩
  | cancel =>
    simp only [Http.serve, Http.cancel, contSid_eq]
    exact ⟨true, egress_telemetry_eq _ _ _ _ _⟩

theorem reqOutcome_err (brk : Nat → Bool) (m : StreamM) (q : Http.Req) : (reqOutcome brk m q).err = Http.reqErr brk m q := by
  cases q with
  | init =>
    unfold reqOutcome Http.reqErr
    cases m.init with
    | some e => rfl
    | none => cases m.exchange <;> rfl
  | cont pos => rfl
  | exch pos over => rfl
  | cancel => rfl

theorem reqOutcome_cancelled (brk : Nat → Bool) (m : StreamM) (q : Http.Req) :
    (reqOutcome brk m q).cancelled = (match q with | .cancel => true | _ => false) := by
  cases q with
  | init =>
    unfold reqOutcome
    cases m.init with
    | some e => rfl
    | none => cases m.exchange <;> rfl
  | cont pos => rfl
  | exch pos over =>
    show (Http.exchOutcome m pos over).cancelled = false
    unfold Http.exchOutcome
    cases clsAt true m.steps pos <;> cases over <;> rfl
  | cancel => rfl

/-- the record of one HTTP request reports the error its response carries (or success), and is marked cancelled exactly
when the request was a cancel -/
theorem serve_reports (env : Env) (brk : Nat → Bool) (n : Nat) (m : StreamM) (q : Http.Req) :
    ∀ r ∈ Http.serve env brk n m q,
      (match Http.reqErr brk m q with
       | some e => Spec.ReportsError (line r) e
       | none => Spec.ReportsOk (line r)) ∧
      (line r).cancelled = (match q with | .cancel => true | _ => false) := by
  obtain ⟨known, he⟩ := serve_eq env brk n m q
  intro r hr
  rw [he, List.mem_singleton] at hr
  subst hr
  rw [line_resp, ← reqOutcome_err, ← reqOutcome_cancelled brk m q]
  exact http_site_reports env _ m.name .stream _

/-! ### every reported error is an exception of the call's program -/

theorem getElem?_of_drop {α : Type} {l : List α} {n : Nat} {a : α} {r : List α} (h : l.drop n = a :: r) : l[n]? = some a := by
  have : (l.drop n)[0]? = l[n + 0]? := List.getElem?_drop
  rw [h] at this
  simpa using this.symm

theorem clsAt_of_drop {steps : List Step} {pos : Nat} {s : Step} {r : List Step} (h : steps.drop pos = s :: r) :
    clsAt false steps pos = cls (processStep s) := by
  simp [clsAt, stepAt, getElem?_of_drop h, runStep]

theorem loop_err {ex : Bool} {steps : List Step} {e : Exn} :
    ∀ (ins : List Pipe.In) (pos : Nat), Pipe.loop ex steps pos ins = .err e → ∃ k, clsAt ex steps k = .fail e := by
  intro ins
  induction ins with
  | nil => intro pos h; simp [Pipe.loop] at h
  | cons i r ih =>
    intro pos h
    cases i with
    | cancel => simp [Pipe.loop] at h
    | data =>
      simp only [Pipe.loop] at h
      cases hc : clsAt ex steps pos with
      | cont => rw [hc] at h; exact ih (pos + 1) h
      | done => rw [hc] at h; cases h
      | fail e' =>
        rw [hc] at h
        cases h
        exact ⟨pos, hc⟩

theorem failExn_logs (ls : List Log) (xs : List Item) : failExn (logItems ls ++ xs) = failExn xs := by
  induction ls with
  | nil => rfl
  | cons l r ih => simpa [logItems, failExn] using ih

theorem failExn_logs_err (ls : List Log) (e : Exn) : failExn (logItems ls ++ [Item.err e]) = e := by
  rw [failExn_logs]; rfl

theorem failExn_logs2_err (a b : List Log) (e : Exn) : failExn (logItems a ++ logItems b ++ [Item.err e]) = e := by
  rw [List.append_assoc, failExn_logs, failExn_logs]; rfl

theorem firstErr_logs (ls : List Log) (xs : List Item) : Http.firstErr (logItems ls ++ xs) = Http.firstErr xs := by
  induction ls with
  | nil => rfl
  | cons l r ih => simpa [logItems, Http.firstErr] using ih

theorem firstErr_logs_only (ls : List Log) : Http.firstErr (logItems ls) = none := by
  have := firstErr_logs ls []
  simpa [Http.firstErr] using this

theorem turn_firstErr (brk : Nat → Bool) (steps : List Step) (e : Exn) :
    ∀ (rest : List Step) (pos : Nat), steps.drop pos = rest → Http.firstErr (Engine.Http.turn brk pos rest) = some e →
      ∃ k, clsAt false steps k = .fail e := by
  intro rest
  induction rest with
  | nil => intro pos _ h; simp [Engine.Http.turn, Http.firstErr] at h
  | cons s r ih =>
    intro pos hdrop h
    have hr : steps.drop (pos + 1) = r := Engine.Aux.drop_succ_of_drop steps pos s r hdrop
    have hc := clsAt_of_drop hdrop
    cases hact : s.act with
    | emit b =>
      simp only [Engine.Http.turn, processStep, hact] at h
      rw [List.append_assoc, List.append_assoc, firstErr_logs] at h
      simp only [List.singleton_append, Http.firstErr] at h
      rw [firstErr_logs] at h
      cases hb : brk pos with
      | true => simp [hb, Http.firstErr] at h
      | false =>
        simp only [hb, Bool.false_eq_true, if_false] at h
        exact ih (pos + 1) hr h
    | finish =>
      simp only [Engine.Http.turn, processStep, hact] at h
      rw [firstErr_logs, firstErr_logs_only] at h
      cases h
    | emitFinish b =>
      simp only [Engine.Http.turn, processStep, hact] at h
      rw [List.append_assoc, firstErr_logs] at h
      simp only [List.singleton_append, Http.firstErr] at h
      rw [firstErr_logs_only] at h
      cases h
    | raise e' =>
      simp only [Engine.Http.turn, processStep, hact] at h
      rw [firstErr_logs] at h
      simp only [Http.firstErr] at h
      cases h
      exact ⟨pos, by rw [hc]; simp [processStep, hact, cls, failExn_logs_err]⟩
    | nothing =>
      simp only [Engine.Http.turn, processStep, hact] at h
      rw [firstErr_logs] at h
      simp only [Http.firstErr] at h
      cases h
      exact ⟨pos, by rw [hc]; simp [processStep, hact, cls, failExn_logs_err]⟩

theorem exchReqs_mem (m : StreamM) (over : Nat → Option Exn) :
    ∀ (k pos : Nat) (q : Http.Req), q ∈ Http.exchReqs m over pos k → ∃ p, q = .exch p (over p) := by
  intro k
  induction k with
  | zero => intro pos q h; simp [Http.exchReqs] at h
  | succ k ih =>
    intro pos q h
    simp only [Http.exchReqs, List.mem_cons] at h
    rcases h with h | h
    · exact ⟨pos, h⟩
    · split at h
      · exact ih _ q h
      · exact ih _ q h

theorem finReq_mem {can : Bool} {fin : Fin} {q : Http.Req} (h : q ∈ Http.finReq can fin) : q = .cancel := by
  cases fin with
  | close => simp [Http.finReq] at h
  | cancel =>
    cases can with
    | false => simp [Http.finReq] at h
    | true => simpa [Http.finReq] using h

theorem exchOutcome_err {m : StreamM} {pos : Nat} {over : Option Exn} {e : Exn}
    (h : (Http.exchOutcome m pos over).err = some e) : clsAt true m.steps pos = .fail e ∨ over = some e := by
  unfold Http.exchOutcome at h
  cases hc : clsAt true m.steps pos with
  | fail e' => rw [hc] at h; simp at h; left; rw [h]
  | cont => rw [hc] at h; cases over <;> simp at h; right; rw [h]
  | done => rw [hc] at h; cases over <;> simp at h; right; rw [h]

theorem producer_requests_mem {m : StreamM} {brk : Nat → Bool} {d : Option Nat} {fin : Fin} {q : Http.Req}
    (hq : q ∈ Http.requests (.producer m brk d fin)) : q = .init ∨ (∃ p, q = .cont p) ∨ q = .cancel := by
  simp only [Http.requests] at hq
  cases hi : m.init with
  | some e =>
    rw [hi] at hq
    exact Or.inl (List.mem_singleton.mp hq)
  | none =>
    rw [hi] at hq
    rcases List.mem_cons.mp hq with h | h
    · exact Or.inl h
    · rcases List.mem_append.mp h with h | h
      · obtain ⟨p, _, hp⟩ := List.mem_map.mp h
        exact Or.inr (Or.inl ⟨p, hp.symm⟩)
      · exact Or.inr (Or.inr (finReq_mem h))

theorem exchange_requests_mem {m : StreamM} {sends : Nat} {over : Nat → Option Exn} {fin : Fin} {q : Http.Req}
    (hq : q ∈ Http.requests (.exchange m sends over fin)) : q = .init ∨ (∃ p, q = .exch p (over p)) ∨ q = .cancel := by
  simp only [Http.requests] at hq
  cases hi : m.init with
  | some e =>
    rw [hi] at hq
    exact Or.inl (List.mem_singleton.mp hq)
  | none =>
    rw [hi] at hq
    rcases List.mem_cons.mp hq with h | h
    · exact Or.inl h
    · rcases List.mem_append.mp h with h | h
      · exact Or.inr (Or.inl (exchReqs_mem m over sends 0 q h))
      · exact Or.inr (Or.inr (finReq_mem h))

/-- an error reported for a request of a producer call is one of the producer's exceptions -/
theorem producer_reqErr {m : StreamM} {brk : Nat → Bool} {d : Option Nat} {fin : Fin} {q : Http.Req} {e : Exn}
    (hx : m.exchange = false) (hq : q ∈ Http.requests (.producer m brk d fin)) (h : Http.reqErr brk m q = some e) :
    (Call.producer m brk d fin).mayRaise e := by
  show m.init = some e ∨ ∃ k, clsAt false m.steps k = .fail e
  rcases producer_requests_mem hq with rfl | ⟨p, rfl⟩ | rfl
  · unfold Http.reqErr at h
    cases hi : m.init with
    | some e' => rw [hi] at h; left; exact h
    | none =>
      rw [hi] at h
      right
      simp only [hx, Bool.false_eq_true, if_false, Engine.Http.initBody] at h
      rw [firstErr_logs] at h
      exact turn_firstErr brk m.steps e m.steps 0 rfl h
  · right
    exact turn_firstErr brk m.steps e (m.steps.drop p) p rfl h
  · simp [Http.reqErr] at h

theorem exchange_reqErr {m : StreamM} {sends : Nat} {over : Nat → Option Exn} {fin : Fin} {q : Http.Req} {e : Exn} {brk : Nat → Bool}
    (hx : m.exchange = true) (hq : q ∈ Http.requests (.exchange m sends over fin)) (h : Http.reqErr brk m q = some e) :
    (Call.exchange m sends over fin).mayRaise e := by
  show m.init = some e ∨ (∃ k, clsAt true m.steps k = .fail e) ∨ ∃ k, over k = some e
  rcases exchange_requests_mem hq with rfl | ⟨p, rfl⟩ | rfl
  · unfold Http.reqErr at h
    cases hi : m.init with
    | some e' => rw [hi] at h; left; exact h
    | none => rw [hi] at h; simp [hx] at h
  · right
    rcases exchOutcome_err (m := m) (pos := p) (over := over p) h with h' | h'
    · exact Or.inl ⟨p, h'⟩
    · exact Or.inr ⟨p, h'⟩
  · simp [Http.reqErr] at h

/-! ### status vs. what the client observes (Engine's client models) -/

theorem saw_append {a b : List Ev} (ha : Spec.sawNoError a) (hb : Spec.sawNoError b) : Spec.sawNoError (a ++ b) := by
  intro t m k h
  rcases List.mem_append.mp h with h | h
  · exact ha t m k h
  · exact hb t m k h

theorem saw_lg (ls : List Log) : Spec.sawNoError (Sem.lg ls) := by
  intro t m k h
  simp [Sem.lg] at h

theorem saw_data (b : Batch) : Spec.sawNoError [Ev.data b] := by
  intro t m k h
  simp at h

theorem saw_fin : Spec.sawNoError [Ev.fin] := by
  intro t m k h
  simp at h

theorem saw_nil : Spec.sawNoError [] := by
  intro t m k h
  simp at h

/-- how a producer script ends: the first step that does not just emit -/
def outcomeP : List Step → Option Exn
  | [] => none
  | s :: r =>
    match cls (processStep s) with
    | .cont => outcomeP r
    | .done => none
    | .fail e => some e

def outcomeX : List Step → Option Exn
  | [] => none
  | s :: r =>
    match cls (processExchangeStep s) with
    | .cont => outcomeX r
    | .done => none
    | .fail e => some e

/-- what the outcome means for the client's trace -/
def Agrees (o : Option Exn) (evs : List Ev) : Prop :=
  match o with
  | some e => errEv e ∈ evs
  | none => Spec.sawNoError evs

theorem sem_producer_outcome (steps : List Step) : Agrees (outcomeP steps) (Sem.producer false steps) := by
  induction steps with
  | nil => exact saw_fin
  | cons s r ih =>
    cases hact : s.act with
    | emit b =>
      have hc : outcomeP (s :: r) = outcomeP r := by simp [outcomeP, processStep, hact, cls]
      rw [hc]
      simp only [Sem.producer, hact]
      cases ho : outcomeP r with
      | some e => rw [ho] at ih; exact List.mem_append_right _ ih
      | none => rw [ho] at ih; exact saw_append (saw_append (saw_append (saw_lg _) (saw_data b)) (saw_lg _)) ih
    | finish =>
      have hc : outcomeP (s :: r) = none := by simp [outcomeP, processStep, hact, cls]
      rw [hc]
      simp only [Sem.producer, hact]
      exact saw_append (saw_append (saw_lg _) (saw_lg _)) saw_fin
    | emitFinish b =>
      have hc : outcomeP (s :: r) = none := by simp [outcomeP, processStep, hact, cls]
      rw [hc]
      simp only [Sem.producer, hact]
      exact saw_append (saw_append (saw_append (saw_lg _) (saw_data b)) (saw_lg _)) saw_fin
    | raise e =>
      have hc : outcomeP (s :: r) = some e := by simp [outcomeP, processStep, hact, cls, failExn_logs_err]
      rw [hc]
      simp [Agrees, Sem.producer, hact]
    | nothing =>
      have hc : outcomeP (s :: r) = some noDataExn := by simp [outcomeP, processStep, hact, cls, failExn_logs_err]
      rw [hc]
      simp [Agrees, Sem.producer, hact]

theorem sem_exchange_outcome (steps : List Step) : Agrees (outcomeX steps) (Sem.exchange false steps) := by
  induction steps with
  | nil => exact saw_nil
  | cons s r ih =>
    cases hact : s.act with
    | emit b =>
      have hc : outcomeX (s :: r) = outcomeX r := by simp [outcomeX, processExchangeStep, processStep, hact, cls]
      rw [hc]
      simp only [Sem.exchange, hact]
      cases ho : outcomeX r with
      | some e => rw [ho] at ih; exact List.mem_append_right _ ih
      | none => rw [ho] at ih; exact saw_append (saw_append (saw_append (saw_lg _) (saw_data b)) (saw_lg _)) ih
    | finish =>
      have hc : outcomeX (s :: r) = some finishOnExchangeExn := by simp [outcomeX, processExchangeStep, hact, cls, failExn_logs, failExn]
      rw [hc]
      simp [Agrees, Sem.exchange, hact]
    | emitFinish b =>
      have hc : outcomeX (s :: r) = some finishOnExchangeExn := by simp [outcomeX, processExchangeStep, hact, cls, failExn_logs, failExn]
      rw [hc]
      simp [Agrees, Sem.exchange, hact]
    | raise e =>
      have hc : outcomeX (s :: r) = some e := by simp [outcomeX, processExchangeStep, processStep, hact, cls, failExn_logs_err]
      rw [hc]
      simp [Agrees, Sem.exchange, hact]
    | nothing =>
      have hc : outcomeX (s :: r) = some noDataExn := by simp [outcomeX, processExchangeStep, processStep, hact, cls, failExn_logs_err]
      rw [hc]
      simp [Agrees, Sem.exchange, hact]

theorem clsAt_past {steps : List Step} {pos : Nat} (h : steps.drop pos = []) : clsAt false steps pos = .done := by
  have hl : steps.length ≤ pos := List.drop_eq_nil_iff.mp h
  simp [clsAt, stepAt, List.getElem?_eq_none hl, runStep, processStep, cls]

/-- the server loop fed with more ticks than the script is long ends as the script ends -/
theorem loop_producer (steps : List Step) (tail : List Pipe.In) :
    ∀ (rest : List Step) (pos k : Nat), steps.drop pos = rest → rest.length < k →
      Pipe.loop false steps pos (List.replicate k .data ++ tail) =
        (match outcomeP rest with | some e => .err e | none => .finished) := by
  intro rest
  induction rest with
  | nil =>
    intro pos k hd hk
    obtain ⟨k', rfl⟩ : ∃ k', k = k' + 1 := ⟨k - 1, by simp at hk; omega⟩
    simp [List.replicate_succ, Pipe.loop, clsAt_past hd, outcomeP]
  | cons s r ih =>
    intro pos k hd hk
    obtain ⟨k', rfl⟩ : ∃ k', k = k' + 1 := ⟨k - 1, by simp at hk; omega⟩
    have hr : steps.drop (pos + 1) = r := Engine.Aux.drop_succ_of_drop steps pos s r hd
    simp only [List.replicate_succ, List.cons_append, Pipe.loop, clsAt_of_drop hd, outcomeP]
    cases cls (processStep s) with
    | cont => exact ih (pos + 1) k' hr (by simp at hk; omega)
    | done => rfl
    | fail e => rfl

theorem exch_not_done (s : Step) : cls (processExchangeStep s) ≠ .done := by
  cases hact : s.act <;> simp [processExchangeStep, processStep, hact, cls]

theorem clsAt_exchange (steps : List Step) (pos : Nat) :
    clsAt true steps pos = cls (processExchangeStep (stepAt true steps pos)) := by
  simp [clsAt, runStep]

/-- the steps an exchange session of `k` sends starting at cursor `pos` plays -/
def exSteps (steps : List Step) (pos k : Nat) : List Step := (List.range' pos k).map (stepAt true steps)

theorem loop_exchange (steps : List Step) (tail : List Pipe.In) :
    ∀ (k pos : Nat), Pipe.loop true steps pos (List.replicate k .data ++ tail) =
      (match outcomeX (exSteps steps pos k) with | some e => .err e | none => Pipe.loop true steps (pos + k) tail) := by
  intro k
  induction k with
  | zero => intro pos; simp [exSteps, outcomeX]
  | succ k ih =>
    intro pos
    simp only [List.replicate_succ, List.cons_append, Pipe.loop, exSteps, List.range'_succ, List.map_cons, outcomeX,
      clsAt_exchange]
    cases hc : cls (processExchangeStep (stepAt true steps pos)) with
    | cont =>
      have := ih (pos + 1)
      simp only [exSteps] at this
      rw [this]
      have e : pos + 1 + k = pos + (k + 1) := by omega
      rw [e]
    | done => exact absurd hc (exch_not_done _)
    | fail e => rfl

def finIn : Fin → List Pipe.In
  | .close => []
  | .cancel => [.cancel]

theorem inputs_eq (k : Nat) (fin : Fin) : Pipe.inputs k fin = List.replicate k .data ++ finIn fin := by
  cases fin <;> rfl

theorem loop_fin_noerr (steps : List Step) (pos : Nat) (fin : Fin) :
    ∀ e, Pipe.loop true steps pos (finIn fin) ≠ .err e := by
  intro e
  cases fin <;> simp [Pipe.loop, finIn]

theorem unaryObs_eq (out : Except Exn Nat) :
    Engine.Http.unaryObs [] out = [match out with | .ok v => Ev.value v | .error e => errEv e] := by
  have := (Engine.unary_refines [] out).2
  rw [this]
  cases out <;> simp [Sem.unary, Sem.lg]

/-- what the caller of a unary call gets: the method's error, else the overshoot verdict (HTTP), else the value -/
def effOut (t : Transport) (m : UnaryM) (over : Option Exn) : Except Exn Nat :=
  match t, m.out, over with
  | .http, .ok _, some e => .error e
  | _, o, _ => o

theorem matches_of {l : Spec.Line} {evs : List Ev} (o : Option Exn)
    (hl : match o with | some e => Spec.ReportsError l e | none => Spec.ReportsOk l) (ha : Agrees o evs) : Spec.Matches l evs := by
  cases o with
  | none => exact Or.inl ⟨hl, ha⟩
  | some e => exact Or.inr ⟨e, ha, hl⟩

def errOf : Except Exn Nat → Option Exn
  | .ok _ => none
  | .error e => some e

def errOfH (out : Except Exn Nat) (over : Option Exn) : Option Exn :=
  match out with
  | .ok _ => over
  | .error e => some e

def unaryOutcome (m : UnaryM) (over : Option Exn) : Http.Outcome :=
  { err := errOfH m.out over, http := if (errOfH m.out over).isSome then G.unaryErr else G.okStatus }

theorem pipe_unary_eq (env : Env) (m : UnaryM) :
    Pipe.unary env m = [emit env (Pipe.amb []) (Pipe.site m.name .unary (errOf m.out) false)] := by
  unfold Pipe.unary errOf
  cases m.out <;> rfl

theorem http_unary_eq (env : Env) (m : UnaryM) (over : Option Exn) :
    Http.unary env m over =
      [{ emit env (Http.amb env []) (Http.site m.name .unary (unaryOutcome m over)) with responseBytes := true }] := by
  unfold Http.unary unaryOutcome errOfH
  cases m.out <;> simp [Http.egress, egressOnce]

theorem agrees_unary (out : Except Exn Nat) : Agrees (errOf out) (Engine.Http.unaryObs [] out) := by
  rw [unaryObs_eq]
  cases out with
  | ok v => intro t m k h; simp at h
  | error e => simp [Agrees, errOf]

theorem errOfH_eff (m : UnaryM) (over : Option Exn) : errOfH m.out over = errOf (effOut .http m over) := by
  cases hm : m.out <;> cases over <;> simp [effOut, hm, errOfH, errOf]

theorem unary_status (env : Env) (t : Transport) (n : Nat) (m : UnaryM) (over : Option Exn) :
    ∀ r ∈ callRecords env t n (.unary m over), Spec.Matches (line r) (Engine.Http.unaryObs [] (effOut t m over)) := by
  intro r hr
  cases t with
  | pipe =>
    simp only [callRecords, Pipe.call, pipe_unary_eq, List.mem_singleton] at hr
    subst hr
    have hrep := (pipe_site_reports env (Pipe.amb []) m.name .unary (errOf m.out) false).1
    have : effOut .pipe m over = m.out := by simp [effOut]
    rw [this]
    exact matches_of _ hrep (agrees_unary m.out)
  | http =>
    simp only [callRecords, Http.call, http_unary_eq, List.mem_singleton] at hr
    subst hr
    rw [line_resp]
    have hrep := (http_site_reports env (Http.amb env []) m.name .unary (unaryOutcome m over)).1
    have ha := agrees_unary (effOut .http m over)
    rw [← errOfH_eff] at ha
    exact matches_of (errOfH m.out over) hrep ha

theorem pipe_producer_status (env : Env) (n : Nat) (m : StreamM) (brk : Nat → Bool) (fin : Fin)
    (hx : m.exchange = false) (hi : m.init = none) :
    ∀ r ∈ callRecords env .pipe n (.producer m brk none fin), Spec.Matches (line r) (Engine.Pipe.iterate [] m.steps) := by
  intro r hr
  have hrep := pipe_stream_reports env n m _ r hr
  have hloop := loop_producer m.steps (finIn fin) m.steps 0 (m.steps.length + 1) rfl (by omega)
  have herr : Pipe.streamErr m (Pipe.inputs (Pipe.pulls m none) fin) = outcomeP m.steps := by
    unfold Pipe.streamErr
    rw [hi, hx]
    rw [inputs_eq]
    show (match Pipe.loop false m.steps 0 (List.replicate (m.steps.length + 1) .data ++ finIn fin) with
      | .err e => some e | _ => none) = _
    rw [hloop]
    cases outcomeP m.steps <;> rfl
  rw [herr] at hrep
  have hsem : Engine.Pipe.iterate [] m.steps = Sem.producer false m.steps := by
    have := Engine.pipe_producer_refines [] m.steps
    simpa [logItems, Sem.lg] using this
  rw [hsem]
  exact matches_of _ hrep (sem_producer_outcome m.steps)

theorem pipe_exchange_status (env : Env) (n : Nat) (m : StreamM) (sends : Nat) (over : Nat → Option Exn) (fin : Fin)
    (hx : m.exchange = true) (hi : m.init = none) :
    ∀ r ∈ callRecords env .pipe n (.exchange m sends over fin),
      Spec.Matches (line r) (Engine.Pipe.exchangeAll [] (exSteps m.steps 0 sends)) := by
  intro r hr
  have hrep := pipe_stream_reports env n m _ r hr
  have hloop := loop_exchange m.steps (finIn fin) sends 0
  have herr : Pipe.streamErr m (Pipe.inputs sends fin) = outcomeX (exSteps m.steps 0 sends) := by
    unfold Pipe.streamErr
    rw [hi, hx]
    rw [inputs_eq]
    show (match Pipe.loop true m.steps 0 (List.replicate sends .data ++ finIn fin) with | .err e => some e | _ => none) = _
    rw [hloop]
    cases ho : outcomeX (exSteps m.steps 0 sends) with
    | some e => rfl
    | none =>
      simp only []
      cases hl : Pipe.loop true m.steps (0 + sends) (finIn fin) with
      | err e => exact absurd hl (loop_fin_noerr m.steps _ fin e)
      | finished => rfl
      | eos => rfl
      | cancelled => rfl
  rw [herr] at hrep
  have hsem : Engine.Pipe.exchangeAll [] (exSteps m.steps 0 sends) = Sem.exchange false (exSteps m.steps 0 sends) := by
    have := Engine.pipe_exchange_refines [] (exSteps m.steps 0 sends)
    simpa [logItems, Sem.lg] using this
  rw [hsem]
  exact matches_of _ hrep (sem_exchange_outcome _)

/-- a stream whose init raises: the one record reports that exception (the client meets it at `open` or at its first read) -/
theorem init_raise_status (env : Env) (t : Transport) (n : Nat) (c : Call) (m : StreamM) (e : Exn) (hi : m.init = some e)
    (hc : (∃ brk d fin, c = .producer m brk d fin) ∨ (∃ sends over fin, c = .exchange m sends over fin)) :
    ∀ r ∈ callRecords env t n c, Spec.Matches (line r) [errEv e] := by
  intro r hr
  refine Or.inr ⟨e, by simp, ?_⟩
  have hpipe : ∀ ins, ∀ r ∈ Pipe.stream env n m ins, Spec.ReportsError (line r) e := by
    intro ins r hr
    have := pipe_stream_reports env n m ins r hr
    have he : Pipe.streamErr m ins = some e := by simp [Pipe.streamErr, hi]
    rw [he] at this
    exact this
  have hhttp : ∀ brk, ∀ r ∈ Http.serve env brk n m .init, Spec.ReportsError (line r) e := by
    intro brk r hr
    have := (serve_reports env brk n m .init r hr).1
    have he : Http.reqErr brk m .init = some e := by simp [Http.reqErr, hi]
    rw [he] at this
    exact this
  rcases hc with ⟨brk, d, fin, rfl⟩ | ⟨sends, over, fin, rfl⟩
  · cases t with
    | pipe => exact hpipe _ r hr
    | http =>
      simp only [callRecords, Http.call, Http.requests, hi, List.flatMap_cons, List.flatMap_nil, List.append_nil] at hr
      exact hhttp brk r hr
  · cases t with
    | pipe => exact hpipe _ r hr
    | http =>
      simp only [callRecords, Http.call, Http.requests, hi, List.flatMap_cons, List.flatMap_nil, List.append_nil] at hr
      exact hhttp _ r hr

/-! ### HTTP: one exchange response, and a producer followed to its end -/

theorem exchangeOne_agrees (s : Step) :
    Agrees (match cls (processExchangeStep s) with | .fail e => some e | _ => none) (Engine.Http.exchangeOne s).1 := by
  cases hact : s.act with
  | emit b =>
    have h1 : processExchangeStep s = .cont (logItems s.logs ++ [Item.data b] ++ logItems s.post) := by
      simp [processExchangeStep, processStep, hact]
    simp only [Engine.Http.exchangeOne, h1, cls]
    rw [List.append_assoc, Engine.Aux.readExchange_logs]
    simp only [List.singleton_append, Engine.Http.readExchange, Engine.Aux.trailing_logs]
    exact saw_append (saw_lg _) (saw_append (saw_lg _) (saw_data b))
  | finish =>
    have h1 : processExchangeStep s = .fail (logItems s.logs ++ logItems s.post ++ [.err finishOnExchangeExn]) := by
      simp [processExchangeStep, hact]
    simp only [Engine.Http.exchangeOne, h1, cls, failExn_logs2_err]
    rw [List.append_assoc, Engine.Aux.readExchange_logs, Engine.Aux.readExchange_logs]
    simp [Engine.Http.readExchange, Agrees]
  | emitFinish b =>
    have h1 : processExchangeStep s = .fail (logItems s.logs ++ logItems s.post ++ [.err finishOnExchangeExn]) := by
      simp [processExchangeStep, hact]
    simp only [Engine.Http.exchangeOne, h1, cls, failExn_logs2_err]
    rw [List.append_assoc, Engine.Aux.readExchange_logs, Engine.Aux.readExchange_logs]
    simp [Engine.Http.readExchange, Agrees]
  | raise e =>
    have h1 : processExchangeStep s = .fail (logItems s.logs ++ [.err e]) := by simp [processExchangeStep, processStep, hact]
    simp only [Engine.Http.exchangeOne, h1, cls, failExn_logs_err]
    rw [Engine.Aux.readExchange_logs]
    simp [Engine.Http.readExchange, Agrees]
  | nothing =>
    have h1 : processExchangeStep s = .fail (logItems s.logs ++ [.err noDataExn]) := by
      simp [processExchangeStep, processStep, hact]
    simp only [Engine.Http.exchangeOne, h1, cls, failExn_logs_err]
    rw [Engine.Aux.readExchange_logs]
    simp [Engine.Http.readExchange, Agrees]

theorem http_exchange_turn_status (env : Env) (brk : Nat → Bool) (n : Nat) (m : StreamM) (pos : Nat) :
    ∀ r ∈ Http.serve env brk n m (.exch pos none),
      Spec.Matches (line r) (Engine.Http.exchangeOne (stepAt true m.steps pos)).1 := by
  intro r hr
  have hrep := (serve_reports env brk n m (.exch pos none) r hr).1
  have he : Http.reqErr brk m (.exch pos none) =
      (match cls (processExchangeStep (stepAt true m.steps pos)) with | .fail e => some e | _ => none) := by
    simp only [Http.reqErr, Http.exchOutcome, clsAt_exchange]
    cases cls (processExchangeStep (stepAt true m.steps pos)) <;> rfl
  rw [he] at hrep
  exact matches_of _ hrep (exchangeOne_agrees _)

theorem fr_logs (server : Nat → List Item) (fuel : Nat) (ls : List Log) (xs : List Item) (d : Option Nat) :
    Http.followReqs server fuel (logItems ls ++ xs) d = Http.followReqs server fuel xs d := by
  induction ls with
  | nil => rfl
  | cons l r ih =>
    simp only [logItems, List.map_cons, List.cons_append] at ih ⊢
    cases fuel <;> simpa [Http.followReqs] using ih

theorem fr_data (server : Nat → List Item) (fuel : Nat) (b : Batch) (xs : List Item) :
    Http.followReqs server fuel (.data b :: xs) none = Http.followReqs server fuel xs none := by
  cases fuel <;> simp [Http.followReqs]

theorem fr_nil (server : Nat → List Item) (fuel : Nat) (d : Option Nat) : Http.followReqs server fuel [] d = [] := by
  cases fuel <;> simp [Http.followReqs]

theorem fr_err (server : Nat → List Item) (fuel : Nat) (e : Exn) (xs : List Item) (d : Option Nat) :
    Http.followReqs server fuel (.err e :: xs) d = [] := by
  cases fuel <;> simp [Http.followReqs]

/-- following a producer to its end: every response but the last carries no error, the last one carries the script's -/
theorem chain (brk : Nat → Bool) (steps : List Step) :
    ∀ (rest : List Step) (pos fuel : Nat), steps.drop pos = rest → rest.length ≤ fuel →
      Http.firstErr (Engine.Http.turn brk pos rest) ::
          (Http.followReqs (Engine.Http.serveContinuation brk steps) fuel (Engine.Http.turn brk pos rest) none).map
            (fun p => Http.firstErr (Engine.Http.serveContinuation brk steps p)) =
        List.replicate
          (Http.followReqs (Engine.Http.serveContinuation brk steps) fuel (Engine.Http.turn brk pos rest) none).length none ++
          [outcomeP rest] := by
  intro rest
  induction rest with
  | nil =>
    intro pos fuel _ _
    simp [Engine.Http.turn, fr_nil, Http.firstErr, outcomeP]
  | cons s r ih =>
    intro pos fuel hdrop hfuel
    have hr : steps.drop (pos + 1) = r := Engine.Aux.drop_succ_of_drop steps pos s r hdrop
    simp only [List.length_cons] at hfuel
    cases hact : s.act with
    | emit b =>
      have hc : outcomeP (s :: r) = outcomeP r := by simp [outcomeP, processStep, hact, cls]
      rw [hc]
      simp only [Engine.Http.turn, processStep, hact]
      rw [List.append_assoc, List.append_assoc, fr_logs, firstErr_logs]
      simp only [List.singleton_append, Http.firstErr]
      rw [fr_data, fr_logs, firstErr_logs]
      cases hb : brk pos with
      | true =>
        simp only [if_true]
        obtain ⟨f, rfl⟩ : ∃ f, fuel = f + 1 := ⟨fuel - 1, by omega⟩
        have e : Engine.Http.serveContinuation brk steps (pos + 1) = Engine.Http.turn brk (pos + 1) r := by
          simp [Engine.Http.serveContinuation, hr]
        simp only [Http.followReqs, Http.firstErr, List.map_cons, List.length_cons, List.replicate_succ, List.cons_append,
          List.cons.injEq, true_and]
        rw [e]
        exact ih (pos + 1) f hr (by omega)
      | false =>
        simp only [Bool.false_eq_true, if_false]
        exact ih (pos + 1) fuel hr (by omega)
    | finish =>
      have hc : outcomeP (s :: r) = none := by simp [outcomeP, processStep, hact, cls]
      rw [hc]
      simp only [Engine.Http.turn, processStep, hact]
      rw [fr_logs, firstErr_logs, firstErr_logs_only]
      have : Http.followReqs (Engine.Http.serveContinuation brk steps) fuel (logItems s.post) none = [] := by
        have := fr_logs (Engine.Http.serveContinuation brk steps) fuel s.post [] none
        rw [List.append_nil] at this
        rw [this, fr_nil]
      rw [this]; rfl
    | emitFinish b =>
      have hc : outcomeP (s :: r) = none := by simp [outcomeP, processStep, hact, cls]
      rw [hc]
      simp only [Engine.Http.turn, processStep, hact]
      rw [List.append_assoc, fr_logs, firstErr_logs]
      simp only [List.singleton_append, Http.firstErr]
      rw [fr_data, firstErr_logs_only]
      have : Http.followReqs (Engine.Http.serveContinuation brk steps) fuel (logItems s.post) none = [] := by
        have := fr_logs (Engine.Http.serveContinuation brk steps) fuel s.post [] none
        rw [List.append_nil] at this
        rw [this, fr_nil]
      rw [this]; rfl
    | raise e =>
      have hc : outcomeP (s :: r) = some e := by simp [outcomeP, processStep, hact, cls, failExn_logs_err]
      rw [hc]
      simp only [Engine.Http.turn, processStep, hact]
      rw [fr_logs, firstErr_logs]
      simp [fr_err, Http.firstErr]
    | nothing =>
      have hc : outcomeP (s :: r) = some noDataExn := by simp [outcomeP, processStep, hact, cls, failExn_logs_err]
      rw [hc]
      simp only [Engine.Http.turn, processStep, hact]
      rw [fr_logs, firstErr_logs]
      simp [fr_err, Http.firstErr]

/-- `__iter__` after the eager parse of the init response issues the same requests as reading that body lazily would -/
theorem fr_parse (server : Nat → List Item) (fuel : Nat) :
    ∀ items : List Item, Http.followReqs server (fuel + 1) items none =
      (if (Engine.Http.parseInit items).err.isSome then []
       else (Engine.Http.parseInit items).cursor.elim [] (fun c => c :: Http.followReqs server fuel (server c) none)) := by
  intro items
  induction items with
  | nil => simp [Http.followReqs, Engine.Http.parseInit]
  | cons x r ih =>
    cases x with
    | log l =>
      have h1 : (Engine.Http.parseInit (.log l :: r)).err = (Engine.Http.parseInit r).err := rfl
      have h2 : (Engine.Http.parseInit (.log l :: r)).cursor = (Engine.Http.parseInit r).cursor := rfl
      rw [h1, h2, ← ih]
      simp only [Http.followReqs]
    | data b =>
      have h1 : (Engine.Http.parseInit (.data b :: r)).err = (Engine.Http.parseInit r).err := rfl
      have h2 : (Engine.Http.parseInit (.data b :: r)).cursor = (Engine.Http.parseInit r).cursor := rfl
      rw [h1, h2, ← ih]
      simp only [Http.followReqs]
    | err e => simp [Http.followReqs, Engine.Http.parseInit]
    | token p => simp [Http.followReqs, Engine.Http.parseInit]

theorem producerConts_drained (brk : Nat → Bool) (m : StreamM) :
    Http.producerConts brk m none =
      Http.followReqs (Engine.Http.serveContinuation brk m.steps) (m.steps.length + 1 + 1) (Engine.Http.turn brk 0 m.steps) none := by
  rw [fr_parse]
  have hb : Engine.Http.initBody brk [] m.steps = Engine.Http.turn brk 0 m.steps := by simp [Engine.Http.initBody, logItems]
  simp only [Http.producerConts, Http.afterPending, hb]
  cases (Engine.Http.parseInit (Engine.Http.turn brk 0 m.steps)).cursor <;>
    cases (Engine.Http.parseInit (Engine.Http.turn brk 0 m.steps)).err <;> rfl

theorem mem_restOf (evs : List Ev) (t m : Str) (k : Option Str) : Ev.error t m k ∈ restOf evs ↔ Ev.error t m k ∈ evs := by
  simp [restOf]

theorem agrees_of_obs {a b : List Ev} (h : obs a = obs b) (o : Option Exn) (hb : Agrees o b) : Agrees o a := by
  have hr : restOf a = restOf b := congrArg Obs.rest h
  cases o with
  | some e =>
    show errEv e ∈ a
    have : errEv e ∈ restOf b := (mem_restOf b _ _ _).mpr hb
    rw [← hr] at this
    exact (mem_restOf a _ _ _).mp this
  | none =>
    intro t m k hm
    have : Ev.error t m k ∈ restOf a := (mem_restOf a t m k).mpr hm
    rw [hr] at this
    exact hb t m k ((mem_restOf b t m k).mp this)

theorem http_iterate_agrees (brk : Nat → Bool) (steps : List Step) :
    Agrees (outcomeP steps) (Engine.Http.iterate brk [] steps) := by
  have h := Engine.http_producer_refines brk [] steps
  simp only [Sem.lg, List.map_nil, List.nil_append] at h
  exact agrees_of_obs h _ (sem_producer_outcome steps)

theorem serve_singleton (env : Env) (brk : Nat → Bool) (n : Nat) (m : StreamM) (q : Http.Req) :
    ∃ r, Http.serve env brk n m q = [r] := by
  obtain ⟨known, h⟩ := serve_eq env brk n m q
  exact ⟨_, h⟩

/-- HTTP, a producer followed to its end: the records are `front ++ [last] ++ tail` where every record of `front` says ok,
`last` reports how the stream ended for the client, and `tail` is the record of the cancel request (if one was sent) -/
theorem http_producer_drained (env : Env) (n : Nat) (m : StreamM) (brk : Nat → Bool) (fin : Fin)
    (hx : m.exchange = false) (hi : m.init = none) :
    ∃ front last tail, callRecords env .http n (.producer m brk none fin) = front ++ [last] ++ tail ∧
      (∀ r ∈ front, Spec.ReportsOk (line r)) ∧
      Spec.Matches (line last) (Engine.Http.iterate brk [] m.steps) ∧
      (∀ r ∈ tail, Spec.ReportsCancel (line r)) := by
  let server := Engine.Http.serveContinuation brk m.steps
  let ps := Http.followReqs server (m.steps.length + 1 + 1) (Engine.Http.turn brk 0 m.steps) none
  have hchain := chain brk m.steps m.steps 0 (m.steps.length + 1 + 1) rfl (by omega)
  -- the requests before the cancel, and the error each response carries
  have hreq : Http.requests (.producer m brk none fin) =
      (.init :: ps.map .cont) ++ Http.finReq (Http.producerCanCancel brk m) fin := by
    simp only [Http.requests, hi, producerConts_drained, List.cons_append]
    rfl
  have herrs : (Http.Req.init :: ps.map .cont).map (Http.reqErr brk m) = List.replicate ps.length none ++ [outcomeP m.steps] := by
    have h0 : Http.reqErr brk m .init = Http.firstErr (Engine.Http.turn brk 0 m.steps) := by
      simp [Http.reqErr, hi, hx, Engine.Http.initBody, logItems]
    simp only [List.map_cons, List.map_map, h0]
    exact hchain
  obtain ⟨qf, ql, hq, hqf, hql⟩ := List.map_eq_append_iff.mp herrs
  obtain ⟨q, rfl, hqe⟩ := List.map_eq_singleton_iff.mp hql
  obtain ⟨last, hlast⟩ := serve_singleton env brk n m q
  refine ⟨qf.flatMap (Http.serve env brk n m), last,
    (Http.finReq (Http.producerCanCancel brk m) fin).flatMap (Http.serve env brk n m), ?_, ?_, ?_, ?_⟩
  · simp only [callRecords, Http.call, hreq, hq, List.flatMap_append, List.flatMap_cons, List.flatMap_nil, List.append_nil,
      hlast]
  · intro r hr
    obtain ⟨q', hq', hr'⟩ := List.mem_flatMap.mp hr
    have hnone : Http.reqErr brk m q' = none := by
      have : Http.reqErr brk m q' ∈ qf.map (Http.reqErr brk m) := List.mem_map_of_mem hq'
      rw [hqf] at this
      exact (List.mem_replicate.mp this).2
    have := (serve_reports env brk n m q' r hr').1
    rw [hnone] at this
    exact this
  · have hr : last ∈ Http.serve env brk n m q := by rw [hlast]; simp
    have := (serve_reports env brk n m q last hr).1
    rw [hqe] at this
    exact matches_of _ this (http_iterate_agrees brk m.steps)
  · intro r hr
    obtain ⟨q', hq', hr'⟩ := List.mem_flatMap.mp hr
    cases finReq_mem hq'
    have := serve_reports env brk n m .cancel r hr'
    exact ⟨this.2, this.1⟩

/-- a record marked `cancelled` is the record of a cancel the server honoured: status ok -/
theorem cancelled_ok (env : Env) (t : Transport) (n : Nat) (c : Call) :
    ∀ r ∈ callRecords env t n c, (line r).cancelled = true → Spec.ReportsCancel (line r) := by
  intro r hr hc
  refine ⟨hc, ?_⟩
  have pipeCase : ∀ (m : StreamM) (ins : List Pipe.In), r ∈ Pipe.stream env n m ins → Spec.ReportsOk (line r) := by
    intro m ins hr
    obtain ⟨c', he, hiff⟩ := pipe_stream_eq env n m ins
    have hrep := pipe_stream_reports env n m ins r hr
    rw [he, List.mem_singleton] at hr
    subst hr
    have hc' : c' = true := by
      have := (pipe_site_reports env (Pipe.amb (env.sid n)) m.name .stream (Pipe.streamErr m ins) c').2
      rw [this] at hc
      exact hc
    obtain ⟨h1, h2⟩ := hiff.mp hc'
    have : Pipe.streamErr m ins = none := by simp [Pipe.streamErr, h1, h2]
    rw [this] at hrep ⊢
    exact hrep
  have httpCase : ∀ (brk : Nat → Bool) (m : StreamM) (q : Http.Req), r ∈ Http.serve env brk n m q → Spec.ReportsOk (line r) := by
    intro brk m q hr
    have := serve_reports env brk n m q r hr
    cases q with
    | cancel =>
      have h1 := this.1
      simp only [Http.reqErr] at h1
      exact h1
    | init => rw [this.2] at hc; cases hc
    | cont p => rw [this.2] at hc; cases hc
    | exch p o => rw [this.2] at hc; cases hc
  cases t with
  | pipe =>
    cases c with
    | unary m over =>
      simp only [callRecords, Pipe.call, pipe_unary_eq, List.mem_singleton] at hr
      subst hr
      have := (pipe_site_reports env (Pipe.amb []) m.name .unary (errOf m.out) false).2
      rw [this] at hc
      cases hc
    | producer m brk d fin => exact pipeCase m _ hr
    | exchange m sends over fin => exact pipeCase m _ hr
  | http =>
    cases c with
    | unary m over =>
      simp only [callRecords, Http.call, http_unary_eq, List.mem_singleton] at hr
      subst hr
      rw [line_resp] at hc
      have := (http_site_reports env (Http.amb env []) m.name .unary (unaryOutcome m over)).2
      rw [this] at hc
      cases hc
    | producer m brk d fin =>
      simp only [callRecords, Http.call, List.mem_flatMap] at hr
      obtain ⟨q, _, hq⟩ := hr
      exact httpCase brk m q hq
    | exchange m sends over fin =>
      simp only [callRecords, Http.call, List.mem_flatMap] at hr
      obtain ⟨q, _, hq⟩ := hr
      exact httpCase _ m q hq

/-- every error record names an exception of the call's program and carries its full text -/
theorem call_message (env : Env) (t : Transport) (n : Nat) (c : Call)
    (hk : match c with | .unary _ _ => True | .producer m _ _ _ => m.exchange = false | .exchange m _ _ _ => m.exchange = true) :
    ∀ r ∈ callRecords env t n c, (line r).status = .error → ∃ e, c.mayRaise e ∧ Spec.ReportsError (line r) e := by
  intro r hr hs
  have notOk : ¬ Spec.ReportsOk (line r) := fun h => by rw [h.1] at hs; cases hs
  have pipeCase : ∀ (m : StreamM) (ins : List Pipe.In), r ∈ Pipe.stream env n m ins →
      ∃ e, (m.init = some e ∨ ∃ k, clsAt m.exchange m.steps k = .fail e) ∧ Spec.ReportsError (line r) e := by
    intro m ins hr
    have hrep := pipe_stream_reports env n m ins r hr
    cases he : Pipe.streamErr m ins with
    | none => rw [he] at hrep; exact absurd hrep notOk
    | some e =>
      rw [he] at hrep
      refine ⟨e, ?_, hrep⟩
      unfold Pipe.streamErr at he
      cases hi : m.init with
      | some e' => rw [hi] at he; left; exact he
      | none =>
        rw [hi] at he
        right
        cases hl : Pipe.loop m.exchange m.steps 0 ins with
        | err e' =>
          rw [hl] at he
          cases he
          exact loop_err ins 0 hl
        | finished => rw [hl] at he; cases he
        | eos => rw [hl] at he; cases he
        | cancelled => rw [hl] at he; cases he
  cases t with
  | pipe =>
    cases c with
    | unary m over =>
      simp only [callRecords, Pipe.call, pipe_unary_eq, List.mem_singleton] at hr
      subst hr
      have hrep := (pipe_site_reports env (Pipe.amb []) m.name .unary (errOf m.out) false).1
      cases ho : m.out with
      | ok v => simp only [ho, errOf] at hrep notOk; exact absurd hrep notOk
      | error e => simp only [ho, errOf] at hrep ⊢; exact ⟨e, Or.inl ho, hrep⟩
    | producer m brk d fin =>
      obtain ⟨e, h, hrep⟩ := pipeCase m _ hr
      have hx : m.exchange = false := hk
      rw [hx] at h
      exact ⟨e, h, hrep⟩
    | exchange m sends over fin =>
      obtain ⟨e, h, hrep⟩ := pipeCase m _ hr
      have hx : m.exchange = true := hk
      rw [hx] at h
      rcases h with h | h
      · exact ⟨e, Or.inl h, hrep⟩
      · exact ⟨e, Or.inr (Or.inl h), hrep⟩
  | http =>
    cases c with
    | unary m over =>
      simp only [callRecords, Http.call, http_unary_eq, List.mem_singleton] at hr
      subst hr
      rw [line_resp] at hs notOk ⊢
      have hrep := (http_site_reports env (Http.amb env []) m.name .unary (unaryOutcome m over)).1
      have herr : (unaryOutcome m over).err = errOfH m.out over := rfl
      rw [herr] at hrep
      cases he : errOfH m.out over with
      | none => rw [he] at hrep; exact absurd hrep notOk
      | some e =>
        rw [he] at hrep
        refine ⟨e, ?_, hrep⟩
        show m.out = .error e ∨ over = some e
        unfold errOfH at he
        cases ho : m.out with
        | error e' => rw [ho] at he; left; cases he; rfl
        | ok v => rw [ho] at he; right; exact he
    | producer m brk d fin =>
      simp only [callRecords, Http.call, List.mem_flatMap] at hr
      obtain ⟨q, hq, hrq⟩ := hr
      have hrep := (serve_reports env brk n m q r hrq).1
      cases he : Http.reqErr brk m q with
      | none => rw [he] at hrep; exact absurd hrep notOk
      | some e => rw [he] at hrep; exact ⟨e, producer_reqErr hk hq he, hrep⟩
    | exchange m sends over fin =>
      simp only [callRecords, Http.call, List.mem_flatMap] at hr
      obtain ⟨q, hq, hrq⟩ := hr
      have hrep := (serve_reports env _ n m q r hrq).1
      cases he : Http.reqErr (fun _ => true) m q with
      | none => rw [he] at hrep; exact absurd hrep notOk
      | some e => rw [he] at hrep; exact ⟨e, exchange_reqErr hk hq he, hrep⟩

/-! ### the model writes only keys the code writes -/

theorem emit_keys (env : Env) (amb : Ambient) (s : Site) (k : Key) (h : ((emit env amb s).get k).isSome = true) :
    k ∈ [Gen.C34.Key.timestamp, .level, .logger, .message] ++ G.emitBase ++ G.emitCond := by
  cases k <;> first | decide | (simp [Record.get, emit, flag] at h)

theorem emit_base (env : Env) (amb : Ambient) (s : Site) : ∀ k ∈ G.emitBase, ((emit env amb s).get k).isSome = true := by
  intro k hk
  simp only [VgiVerif.Gen.C34.emitBase, List.mem_cons, List.mem_nil_iff, or_false] at hk
  rcases hk with rfl | rfl | rfl | rfl | rfl | rfl | rfl | rfl | rfl | rfl | rfl | rfl <;> rfl

theorem egress_keys (r : Record) (b : Bool) (k : Key) (h : (({ r with responseBytes := b } : Record).get k).isSome = true) :
    (r.get k).isSome = true ∨ k ∈ G.egressCond := by
  cases k <;> first | (right; decide) | (left; exact h)

theorem sentinel_keys (r : Record) (k : Key) (h : ((sentinel r).get k).isSome = true) : k ∈ G.sentinelBase ++ G.sentinelCond := by
  cases k <;> first | decide | (simp [Record.get, sentinel, flag] at h)

theorem sentinel_base (r : Record) : ∀ k ∈ G.sentinelBase, ((sentinel r).get k).isSome = true := by
  intro k hk
  simp only [VgiVerif.Gen.C34.sentinelBase, List.mem_cons, List.mem_nil_iff, or_false] at hk
  rcases hk with rfl | rfl | rfl | rfl | rfl | rfl | rfl | rfl | rfl | rfl | rfl | rfl | rfl | rfl | rfl | rfl | rfl <;> rfl

/-! ### the written line -/

abbrev Printable (c : Char) : Prop := 0x20 ≤ c.toNat ∧ c.toNat ≤ 0x7e

theorem jsonAscii : G.jsonAsciiOnly = true := rfl

theorem hexDigit_printable (n : Nat) (h : n < 16) : Printable (hexDigit n) := by
  have : ∀ k : _root_.Fin 16, Printable (hexDigit k.val) := by decide
  exact this ⟨n, h⟩

theorem u4_printable (n : Nat) : ∀ c ∈ u4 n, Printable c := by
  intro c hc
  simp only [u4, List.mem_cons, List.mem_nil_iff, or_false] at hc
  rcases hc with rfl | rfl | rfl | rfl | rfl | rfl
  · decide
  · decide
  · exact hexDigit_printable _ (Nat.mod_lt _ (by decide))
  · exact hexDigit_printable _ (Nat.mod_lt _ (by decide))
  · exact hexDigit_printable _ (Nat.mod_lt _ (by decide))
  · exact hexDigit_printable _ (Nat.mod_lt _ (by decide))

theorem two_printable {a b : Char} (ha : Printable a) (hb : Printable b) : ∀ c ∈ [a, b], Printable c := by
  intro c hc
  simp only [List.mem_cons, List.mem_nil_iff, or_false] at hc
  rcases hc with rfl | rfl
  · exact ha
  · exact hb

/-- with `ensure_ascii` every character of a JSON string is written with printable ASCII only -/
theorem escChar_printable (ch : Char) : ∀ c ∈ escChar true ch, Printable c := by
  unfold escChar
  split
  · exact two_printable (by decide) (by decide)
  split
  · exact two_printable (by decide) (by decide)
  split
  · exact two_printable (by decide) (by decide)
  split
  · exact two_printable (by decide) (by decide)
  split
  · exact two_printable (by decide) (by decide)
  split
  · exact two_printable (by decide) (by decide)
  split
  · exact two_printable (by decide) (by decide)
  split
  · exact u4_printable _
  rename_i h1 h2 h3 h4 h5 h6 h7 h8
  split
  · split
    · exact u4_printable _
    · intro c hc
      rcases List.mem_append.mp hc with h | h
      · exact u4_printable _ c h
      · exact u4_printable _ c h
  · rename_i h9
    intro c hc
    simp only [List.mem_singleton] at hc
    subst hc
    simp only [Bool.true_and, decide_eq_true_eq] at h9
    exact ⟨by omega, by omega⟩

theorem renderStr_printable (s : Str) : ∀ c ∈ renderStr true s, Printable c := by
  intro c hc
  simp only [renderStr, List.mem_append, List.mem_singleton, List.mem_flatMap] at hc
  rcases hc with (rfl | ⟨ch, _, h⟩) | rfl
  · decide
  · exact escChar_printable ch c h
  · decide

/-- the tokens Python prints for numbers and nested objects are printable ASCII (trusted) -/
def TokensOk (tk : Tokens) : Prop :=
  (∀ n, ∀ c ∈ tk.int n, Printable c) ∧ (∀ n, ∀ c ∈ tk.num n, Printable c) ∧ (∀ c ∈ tk.obj, Printable c)

theorem renderJV_printable (tk : Tokens) (htk : TokensOk tk) (v : JV) : ∀ c ∈ renderJV true tk v, Printable c := by
  cases v with
  | str s => exact renderStr_printable s
  | int n => exact htk.1 n
  | num m => exact htk.2.1 m
  | bool b =>
    cases b <;> (intro c hc; simp only [renderJV, List.mem_cons, List.mem_nil_iff, or_false] at hc)
    · rcases hc with rfl | rfl | rfl | rfl | rfl <;> decide
    · rcases hc with rfl | rfl | rfl | rfl <;> decide
  | obj => exact htk.2.2
  | null =>
    intro c hc
    simp only [renderJV, List.mem_cons, List.mem_nil_iff, or_false] at hc
    rcases hc with rfl | rfl | rfl | rfl <;> decide

theorem pair_printable (tk : Tokens) (htk : TokensOk tk) (k : Key) (v : JV) :
    ∀ c ∈ renderStr true k.name.toList ++ [':', ' '] ++ renderJV true tk v, Printable c := by
  intro c hc
  rcases List.mem_append.mp hc with h | h
  · rcases List.mem_append.mp h with h | h
    · exact renderStr_printable _ c h
    · exact two_printable (by decide) (by decide) c h
  · exact renderJV_printable tk htk v c h

theorem renderFields_printable (tk : Tokens) (htk : TokensOk tk) :
    ∀ l : List (Key × JV), ∀ c ∈ renderFields true tk l, Printable c := by
  intro l
  induction l with
  | nil => intro c hc; simp [renderFields] at hc
  | cons p r ih =>
    obtain ⟨k, v⟩ := p
    cases r with
    | nil => exact pair_printable tk htk k v
    | cons q r' =>
      intro c hc
      simp only [renderFields] at hc
      rcases List.mem_append.mp hc with h | h
      · rcases List.mem_append.mp h with h | h
        · exact pair_printable tk htk k v c h
        · exact two_printable (by decide) (by decide) c h
      · exact ih c h

theorem printable_not_boundary {c : Char} (h : Printable c) : Spec.isLineBoundary c = false := by
  unfold Printable at h
  simp only [Spec.isLineBoundary, Bool.or_eq_false_iff, beq_eq_false_iff_ne, ne_eq]
  refine ⟨⟨⟨⟨⟨⟨⟨⟨⟨?_, ?_⟩, ?_⟩, ?_⟩, ?_⟩, ?_⟩, ?_⟩, ?_⟩, ?_⟩, ?_⟩ <;> omega

end Aux

/-! ## Property theorems (obligations) -/

open Aux

/-- the assumptions on the trusted inputs are satisfiable -/
def demoEnv : Env :=
  { serverId := ['s'], protocol := ['P'], protocolHash := List.replicate 64 '0', serverVersion := [], debug := false,
    principal := [], authDomain := [], authenticated := false, claims := false, requestId := ['r'], httpRemote := [],
    sid := fun _ => List.replicate 32 'a', cacheHit := fun _ _ => false }

example : EnvOk demoEnv :=
  ⟨by decide, by decide, by decide, fun _ => (by decide : fullMatch (.hexLen 32) (List.replicate 32 'a') = true)⟩

/-- **exactly once**: on every transport, for every program, each call's number of records is its number of dispatches
(socket family: the call; HTTP: every POST — init, each continuation / exchange turn, the cancel) -/
theorem C34_once (env : Env) (t : Transport) (prog : List Call) :
    (run env t prog).length = prog.length ∧ (run env t prog).map List.length = prog.map (dispatches t) :=
  ⟨runFrom_length env t 0 prog, runFrom_lengths env t 0 prog⟩

/-- socket family: one record per call, whatever the call does -/
theorem C34_once_pipe (env : Env) (prog : List Call) : (run env .pipe prog).map List.length = prog.map fun _ => 1 := by
  rw [(C34_once env .pipe prog).2]
  rfl

/-- HTTP exchange stream: init + one per send (also sends after an error) + the cancel -/
theorem C34_once_http_exchange (env : Env) (n : Nat) (m : StreamM) (sends : Nat) (over : Nat → Option Exn) (fin : Fin)
    (hi : m.init = none) :
    (callRecords env .http n (.exchange m sends over fin)).length = 1 + sends + (match fin with | .close => 0 | .cancel => 1) := by
  rw [call_length]
  simp only [dispatches, Http.requests, hi, List.length_cons, List.length_append, exchReqs_length]
  cases fin <;> simp [Http.finReq] <;> omega

/-- **schema-valid**: every record of every program on every transport validates against access_log.schema.json; in
particular an error record carries a non-empty `error_message` -/
theorem C34_valid (env : Env) (henv : EnvOk env) (t : Transport) (prog : List Call) (hp : ProgOk prog) :
    ∀ rs ∈ run env t prog, ∀ r ∈ rs,
      SchemaOk r = true ∧ (r.status = .error → ∃ m, r.errorMessage = some m ∧ m ≠ []) := by
  intro rs hrs r hr
  obtain ⟨k, c, hc, rfl⟩ := runFrom_mem hrs
  have hwf := call_wf henv t k c (hp c hc) r hr
  exact ⟨wf_schemaOk hwf, hwf.errMsg⟩

/-- … and stays valid under the formatter's shedding for ANY size function (`fits`) and cap -/
theorem C34_valid_formatted (env : Env) (henv : EnvOk env) (t : Transport) (prog : List Call) (hp : ProgOk prog)
    (fits : Record → Bool) :
    ∀ rs ∈ run env t prog, ∀ r ∈ rs,
      SchemaOk (format fits r) = true ∧ (format fits r).status = r.status ∧ (format fits r).errorType = r.errorType := by
  intro rs hrs r hr
  obtain ⟨k, c, hc, rfl⟩ := runFrom_mem hrs
  have hwf := call_wf henv t k c (hp c hc) r hr
  exact ⟨wf_schemaOk (format_wf fits hwf), format_status fits r⟩

/-- **status, unary**: the record matches what the caller of the unary call observes (value, the method's error, or — HTTP —
the response-budget error) -/
theorem C34_status_unary (env : Env) (t : Transport) (n : Nat) (m : UnaryM) (over : Option Exn) :
    ∀ r ∈ callRecords env t n (.unary m over), Spec.Matches (line r) (Engine.Http.unaryObs [] (effOut t m over)) :=
  unary_status env t n m over

/-- **status, socket producer** iterated to its end (then closed or cancelled): the stream's one record matches what
`StreamSession.__iter__` delivered -/
theorem C34_status_pipe_producer (env : Env) (n : Nat) (m : StreamM) (brk : Nat → Bool) (fin : Fin)
    (hx : m.exchange = false) (hi : m.init = none) :
    ∀ r ∈ callRecords env .pipe n (.producer m brk none fin), Spec.Matches (line r) (Engine.Pipe.iterate [] m.steps) :=
  pipe_producer_status env n m brk fin hx hi

/-- **status, socket exchange** of any number of sends: the one record matches what the `exchange()` calls delivered -/
theorem C34_status_pipe_exchange (env : Env) (n : Nat) (m : StreamM) (sends : Nat) (over : Nat → Option Exn) (fin : Fin)
    (hx : m.exchange = true) (hi : m.init = none) :
    ∀ r ∈ callRecords env .pipe n (.exchange m sends over fin),
      Spec.Matches (line r) (Engine.Pipe.exchangeAll [] (exSteps m.steps 0 sends)) :=
  pipe_exchange_status env n m sends over fin hx hi

/-- **status, init error** (any transport, producer or exchange): the only record reports the exception -/
theorem C34_status_init_error (env : Env) (t : Transport) (n : Nat) (c : Call) (m : StreamM) (e : Exn) (hi : m.init = some e)
    (hc : (∃ brk d fin, c = .producer m brk d fin) ∨ (∃ sends over fin, c = .exchange m sends over fin)) :
    ∀ r ∈ callRecords env t n c, Spec.Matches (line r) [errEv e] :=
  init_raise_status env t n c m e hi hc

/-- **status, HTTP producer** followed to its end, for every break-decision function: all records but the last say ok, the
last matches what `HttpStreamSession.__iter__` delivered, a cancel record (if any) follows -/
theorem C34_status_http_producer (env : Env) (n : Nat) (m : StreamM) (brk : Nat → Bool) (fin : Fin)
    (hx : m.exchange = false) (hi : m.init = none) :
    ∃ front last tail, callRecords env .http n (.producer m brk none fin) = front ++ [last] ++ tail ∧
      (∀ r ∈ front, Spec.ReportsOk (line r)) ∧
      Spec.Matches (line last) (Engine.Http.iterate brk [] m.steps) ∧
      (∀ r ∈ tail, Spec.ReportsCancel (line r)) :=
  http_producer_drained env n m brk fin hx hi

/-- **status, HTTP exchange turn** at any cursor (first try or replay after an error): the record matches what
`HttpStreamSession.exchange` delivered for that request -/
theorem C34_status_http_exchange (env : Env) (brk : Nat → Bool) (n : Nat) (m : StreamM) (pos : Nat) :
    ∀ r ∈ Http.serve env brk n m (.exch pos none),
      Spec.Matches (line r) (Engine.Http.exchangeOne (stepAt true m.steps pos)).1 :=
  http_exchange_turn_status env brk n m pos

/-- **status, any HTTP response** (also of a partially consumed stream): the record reports exactly the error the response
body carries, and is marked cancelled exactly for a cancel request -/
theorem C34_status_http_response (env : Env) (brk : Nat → Bool) (n : Nat) (m : StreamM) (q : Http.Req) :
    ∀ r ∈ Http.serve env brk n m q,
      (match Http.reqErr brk m q with
       | some e => Spec.ReportsError (line r) e
       | none => Spec.ReportsOk (line r)) ∧
      (line r).cancelled = (match q with | .cancel => true | _ => false) :=
  serve_reports env brk n m q

/-- **cancel**: a record marked cancelled has status ok (the client's `cancel()` returned), on every transport -/
theorem C34_status_cancel (env : Env) (t : Transport) (n : Nat) (c : Call) :
    ∀ r ∈ callRecords env t n c, (line r).cancelled = true → Spec.ReportsCancel (line r) :=
  cancelled_ok env t n c

/-- **one stream_id per stream**: every record of the n-th call names the call's method and type; the records of a stream
call all carry the id minted for it, the record of a unary call none -/
theorem C34_stream_id (env : Env) (henv : EnvOk env) (t : Transport) (n : Nat) (c : Call) :
    (∀ r ∈ callRecords env t n c, Attributed env n c r) ∧
      (c.isStream = true → Spec.OneStreamId ((callRecords env t n c).map line)) := by
  refine ⟨call_attr henv t n c, fun hs => ⟨env.sid n, ?_⟩⟩
  intro l hl
  obtain ⟨r, hr, rfl⟩ := List.mem_map.mp hl
  have := (call_attr henv t n c r hr).2.2
  rw [hs] at this
  exact this

/-- … and the formatter never drops or changes it (also in the sentinel form) -/
theorem C34_stream_id_formatted (fits : Record → Bool) (r : Record) : (format fits r).streamId = r.streamId :=
  format_streamId fits r

/-- **full message**: every error record names an exception `e` of the call's program: `error_type` is its class,
`error_message` is `str(e)` in full (never empty: the class name when `str(e)` is empty) -/
theorem C34_message (env : Env) (t : Transport) (n : Nat) (c : Call)
    (hk : match c with | .unary _ _ => True | .producer m _ _ _ => m.exchange = false | .exchange m _ _ _ => m.exchange = true) :
    ∀ r ∈ callRecords env t n c, (line r).status = .error → ∃ e, c.mayRaise e ∧ Spec.ReportsError (line r) e :=
  call_message env t n c hk

/-- … and the formatter keeps it whole under any size function -/
theorem C34_message_formatted (env : Env) (henv : EnvOk env) (t : Transport) (n : Nat) (c : Call) (hn : c.name ≠ [])
    (fits : Record → Bool) :
    ∀ r ∈ callRecords env t n c, r.status = .error → (format fits r).errorMessage = r.errorMessage :=
  fun r hr he => format_message fits (call_wf henv t n c hn r hr) he

/-- **keys**: the model's records use exactly the keys the code can write — the formatter's four, the `extra` literal (always),
the conditional stores of `_emit_access_log`, `response_bytes` of the egress middleware; the sentinel the keys of its literal
(always) and its conditional stores -/
theorem C34_keys (env : Env) (amb : Ambient) (s : Site) (r : Record) :
    (∀ k, ((emit env amb s).get k).isSome = true →
        k ∈ [Gen.C34.Key.timestamp, .level, .logger, .message] ++ G.emitBase ++ G.emitCond) ∧
      (∀ k ∈ G.emitBase, ((emit env amb s).get k).isSome = true) ∧
      (∀ k, ((sentinel r).get k).isSome = true → k ∈ G.sentinelBase ++ G.sentinelCond) ∧
      (∀ k ∈ G.sentinelBase, ((sentinel r).get k).isSome = true) :=
  ⟨emit_keys env amb s, emit_base env amb s, sentinel_keys r, sentinel_base r⟩

/-- **refused continuations are silent**: a continuation, exchange turn or cancel the worker refuses before it resolved the
call (bad / expired / foreign token, wrong method) dispatches nothing and writes no record — so the log of a program is the
log of its dispatched requests (`C34_once`), and no stream record without a `stream_id` can come from there -/
theorem C34_refused_silent (env : Env) (name : Str) (cause : Exn) (status : Nat) :
    Http.refused env name cause status = [] := by
  have h : G.refusedEmits = false := rfl
  simp [Http.refused, h]

/-- … which matters because a record written at that point could not be valid: with no stream id published, a stream record
fails the schema whatever the environment -/
theorem refused_record_would_be_invalid (env : Env) (name : Str) (cause : Exn) (status : Nat) (known : Bool) :
    SchemaOk { emit env (Http.amb env []) (Http.site name .stream { err := some cause, http := status }) with responseBytes := known }
      = false := by
  have hget : ∀ r : Record, r.methodType = .stream → r.streamId = none → SchemaOk r = false := by
    intro r hm hs
    unfold SchemaOk JsonSchema.Schema.ok
    have : G.schema.conds.all (F.eval r.get) = false := by
      simp [VgiVerif.Gen.C34.schema, F.eval, Record.get, hm, hs, MT.str, Atom.ok]
    rw [this]; simp
  exact hget _ (by simp [emit, Http.site]) (by simp [emit, Http.amb, nonEmpty])

/-- **one physical line**: whatever a record carries — any exception text, method name, principal …, with any Unicode line
or paragraph separator, NEL, VT, FF, FS/GS/RS in it — and whatever the formatter shed, the text written for it contains no
character at which `str.splitlines()` (the shipped validator's reader) or any narrower line reader cuts: every character is
printable ASCII.  So a record can never be broken into fragments and lost to the reader.  (`TokensOk`: numbers and the nested
claims object print as ASCII — trusted.) -/
theorem C34_one_line (tk : Tokens) (htk : TokensOk tk) (fits : Record → Bool) (r : Record) :
    Spec.OneLine (renderLine tk (format fits r)) ∧ Spec.OneLine (renderLine tk r) := by
  have key : ∀ r : Record, Spec.OneLine (renderLine tk r) := by
    intro r c hc
    apply printable_not_boundary
    simp only [renderLine, jsonAscii, List.mem_append, List.mem_singleton] at hc
    rcases hc with (rfl | h) | rfl
    · decide
    · exact renderFields_printable tk htk _ c h
    · decide
  exact ⟨key _, key r⟩

example : TokensOk ⟨fun _ => ['0'], fun _ => ['0', '.', '0'], ['{', '}']⟩ := by
  refine ⟨fun _ c hc => ?_, fun _ c hc => ?_, fun c hc => ?_⟩ <;>
    (simp only [List.mem_cons, List.mem_nil_iff, or_false] at hc)
  · subst hc; decide
  · rcases hc with rfl | rfl | rfl <;> decide
  · rcases hc with rfl | rfl <;> decide

end VgiVerif.C34
