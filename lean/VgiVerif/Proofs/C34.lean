import VgiVerif.Model.C34
import VgiVerif.Spec.C34
import VgiVerif.Lemmas.JsonSchema
import VgiVerif.Proofs.Engine
/-
C34 property theorems.  Helper lemmas live in `Aux`; the obligations audited by the check are at the bottom.
Everything quantifies over every environment, every program (any methods, step scripts, pulls, sends, close / cancel), every
break-decision and overshoot oracle, and — for the formatter — every size function.
-/
namespace VgiVerif.C34
open VgiVerif.Engine
open VgiVerif.JsonSchema (JV patOk fullMatch propOk Atom tyOk Schema F Pat propOk_some propOk_map propOk_none len_pos
  hex_nonempty patOk_of_full)

/-- what a log reader sees of a record, in the spec's vocabulary -/
def line (r : Record) : Spec.Line :=
  { status := match r.status with | .ok => .ok | .error => .error
    errorType := r.errorType, errorMessage := r.errorMessage, streamId := r.streamId, cancelled := r.cancelled }

/-- assumptions on the trusted inputs: identity strings are not empty, ids have the format their generators produce -/
structure EnvOk (env : Env) : Prop where
  serverId : env.serverId ≠ []
  protocol : env.protocol ≠ []
  hash : fullMatch (.hexLen 64) env.protocolHash = true
  sid : ∀ n, fullMatch (.hexLen 32) (env.sid n) = true

def Call.name : Call → Str
  | .unary m _ => m.name
  | .producer m _ _ _ => m.name
  | .exchange m _ _ _ => m.name

def Call.isStream : Call → Bool
  | .unary _ _ => false
  | _ => true

/-- registered method names are Python identifiers: never empty -/
def ProgOk (prog : List Call) : Prop := ∀ c ∈ prog, c.name ≠ []

/-- the invariant every emitted record satisfies (readable counterpart of the schema's demands) -/
structure WF (r : Record) : Prop where
  serverId : r.serverId ≠ []
  protocol : r.protocol ≠ []
  hash : patOk (.hexLen 64) r.protocolHash = true
  method : r.method ≠ []
  okType : r.status = .ok → r.errorType = []
  errMsg : r.status = .error → ∃ m, r.errorMessage = some m ∧ m ≠ []
  streamId : r.methodType = .stream → ∃ s, r.streamId = some s
  sidFmt : ∀ s, r.streamId = some s → patOk (.hexLen 32) s = true
  unaryData : r.methodType = .unary → r.requestData = true ∨ ∃ t, r.truncated = some t
  serverVersion : ∀ v, r.serverVersion = some v → v ≠ []
  requestId : ∀ v, r.requestId = some v → v ≠ []
  http : ∀ n, r.httpStatus = some n → 100 ≤ n ∧ n ≤ 599

namespace Aux

/-! ### the extracted shapes the model was written against (a source edit that changes one of them breaks these `rfl`s) -/

theorem msgLimit_none : G.msgLimit = none := rfl
theorem fallback_lit : G.emptyFallback = some ['e', 'r', 'r', 'o', 'r'] := rfl
theorem emitOnce : G.emitOnce = true := rfl
theorem telemetryOnce : G.telemetryOnce = true := rfl
theorem egressOnce : G.egressOnce = true := rfl
theorem pipeViaHelper : G.pipeViaHelper = false := rfl
theorem httpMsgHelper : G.httpMsgHelper = true := rfl
theorem shedOrder : G.shedOrder = [.request_data, .claims] := rfl
theorem sentinelCond : G.sentinelCond = [.error_message, .stream_id] := rfl
theorem sentinelFallback_ne : G.sentinelErrFallback ≠ [] := by decide
theorem statuses : G.okStatus = 200 ∧ G.unaryErr = 500 ∧ G.initRaise = some 500 ∧ G.exchangeRaise = some 500 ∧
    G.exchangeOvershoot = none ∧ G.producerTurn = none := ⟨rfl, rfl, rfl, rfl, rfl, rfl⟩

/-! ### WF ⇒ SchemaOk -/

theorem propOk_flag {g : Key → Option JV} {k : Key} (b : Bool) (v : JV) (hk : g k = flag b v) (as : List Atom)
    (h : as.all (·.ok v) = true) : propOk g (k, as) = true := by
  cases b with
  | false => simp [propOk, hk, flag]
  | true => simp [propOk, hk, flag, h]

theorem req_ok (r : Record) : G.schema.required.all (fun k => (r.get k).isSome) = true := by
  rfl

theorem props_ok (r : Record) (h : WF r) : G.schema.props.all (propOk r.get) = true := by
  have h1 := len_pos h.serverId
  have h2 := len_pos h.protocol
  have h3 := len_pos h.method
  have h4 := h.hash
  simp only [VgiVerif.Gen.C34.schema, List.all_cons, List.all_nil, Bool.and_true, Bool.and_eq_true]
  and_intros
  all_goals try rfl
  all_goals try exact propOk_flag _ _ rfl _ rfl
  all_goals try exact propOk_map _ _ rfl _ (fun _ _ => rfl)
  any_goals (refine propOk_some rfl _ ?_)
  any_goals (refine propOk_map (g := r.get) (k := .http_status) r.httpStatus (fun n : Nat => JV.int (n : Int)) rfl _ ?_; intro v hv)
  any_goals (refine propOk_map _ _ rfl _ ?_; intro v hv)
  all_goals first
    | (simp [Atom.ok, tyOk, h1, h2, h3, h4]; done)
    | (cases r.methodType <;> rfl)
    | (cases r.status <;> rfl)
    | (simp [Atom.ok, tyOk, len_pos (h.serverVersion v hv)]; done)
    | (simp [Atom.ok, tyOk, len_pos (h.requestId v hv)]; done)
    | (simp [Atom.ok, tyOk, h.sidFmt v hv]; done)
    | (have := h.http v hv; simp [Atom.ok, tyOk]; omega)
    | (cases v <;> rfl)

theorem conds_ok (r : Record) (h : WF r) : G.schema.conds.all (F.eval r.get) = true := by
  simp only [VgiVerif.Gen.C34.schema, List.all_cons, List.all_nil, Bool.and_true, Bool.and_eq_true]
  refine ⟨?_, ?_, ?_, ?_, ?_⟩
  · -- status = error ⇒ error_message present and not empty
    cases hs : r.status with
    | ok => simp [F.eval, Record.get, hs, St.str, Atom.ok]
    | error =>
      obtain ⟨m, hm, hne⟩ := h.errMsg hs
      simp [F.eval, Record.get, hs, hm, St.str, Atom.ok, len_pos hne]
  · -- status = ok ⇒ error_type = ""
    cases hs : r.status with
    | ok => simp [F.eval, Record.get, hs, St.str, Atom.ok, h.okType hs]
    | error => simp [F.eval, Record.get, hs, St.str, Atom.ok]
  · -- stream ⇒ stream_id
    cases hm : r.methodType with
    | unary => simp [F.eval, Record.get, hm, MT.str, Atom.ok]
    | stream =>
      obtain ⟨s, hs⟩ := h.streamId hm
      simp [F.eval, Record.get, hm, hs, MT.str, Atom.ok]
  · -- unary and not truncated ⇒ request_data
    cases hm : r.methodType with
    | stream => simp [F.eval, Record.get, hm, MT.str, Atom.ok]
    | unary =>
      rcases h.unaryData hm with hd | ⟨t, ht⟩
      · simp [F.eval, Record.get, hm, hd, flag, MT.str, Atom.ok]
      · simp [F.eval, Record.get, hm, ht, flag, MT.str, Atom.ok]
  · -- the six statistics come together
    cases hst : r.stats <;> simp [F.eval, Record.get, hst, flag]

theorem wf_schemaOk {r : Record} (h : WF r) : SchemaOk r = true := by
  unfold SchemaOk Schema.ok
  rw [req_ok r, props_ok r h, conds_ok r h]
  rfl

end Aux
end VgiVerif.C34
