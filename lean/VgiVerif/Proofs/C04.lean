import VgiVerif.Spec.C04
/-
C04 proofs.  Helper lemmas in `namespace Aux`; the property theorems (obligations) at the end.
-/
namespace VgiVerif.C04
open VgiVerif.Gen.C04 (Shape)

/-- the shape of the repaired tree -/
def repaired : Shape :=
  { drainVersion := true, drainParams := true, drainInit := true, drainUnknown := false, initChecks := true,
    cliDrainOverErr := true, cliDrainSurvivesCb := true, unaryDrainOnCb := true, hdrDrainOnCb := true,
    hdrAbortCloses := true, emptyRequestReplies := true, initErrorFlushesLogs := true, failFlushesLogs := true, unaryDrainBeforeDecode := true, requestBuiltBeforeStream := true }

namespace Aux

@[simp] theorem rep_drainVersion : repaired.drainVersion = true := rfl
@[simp] theorem rep_drainParams : repaired.drainParams = true := rfl
@[simp] theorem rep_drainInit : repaired.drainInit = true := rfl
@[simp] theorem rep_drainUnknown : repaired.drainUnknown = false := rfl
@[simp] theorem rep_initChecks : repaired.initChecks = true := rfl
@[simp] theorem rep_cliDrainOverErr : repaired.cliDrainOverErr = true := rfl
@[simp] theorem rep_cliDrainSurvivesCb : repaired.cliDrainSurvivesCb = true := rfl
@[simp] theorem rep_unaryDrainOnCb : repaired.unaryDrainOnCb = true := rfl
@[simp] theorem rep_hdrDrainOnCb : repaired.hdrDrainOnCb = true := rfl
@[simp] theorem rep_hdrAbortCloses : repaired.hdrAbortCloses = true := rfl
@[simp] theorem rep_emptyRequestReplies : repaired.emptyRequestReplies = true := rfl
@[simp] theorem rep_initErrorFlushesLogs : repaired.initErrorFlushesLogs = true := rfl
@[simp] theorem rep_failFlushesLogs : repaired.failFlushesLogs = true := rfl
@[simp] theorem rep_unaryDrainBeforeDecode : repaired.unaryDrainBeforeDecode = true := rfl
@[simp] theorem rep_requestBuiltBeforeStream : repaired.requestBuiltBeforeStream = true := rfl

def its (xs : List SItem) : List SFr := xs.map .it

@[simp] theorem its_nil : its [] = [] := rfl
@[simp] theorem its_cons (x : SItem) (xs : List SItem) : its (x :: xs) = .it x :: its xs := rfl
theorem its_append (xs ys : List SItem) : its (xs ++ ys) = its xs ++ its ys := by simp [its]

/-! ### client: draining reads -/

/-- `_drain_output` reaches the EOS marker whatever the batches are and whatever the callback does -/
theorem cliFold_sessDrain (pol : Nat → Bool) (xs : List SItem) (rest : List SFr) (s : Sess) :
    ∀ (r : Res) (cb : Bool) (res : Res) (n : Nat),
    ∃ r' n', cliFold repaired pol ⟨some s, some (.sessDrain r cb), res, n⟩ (its xs ++ .eos :: rest)
      = (⟨some { s with outEnded := true }, none, r', n'⟩, rest, []) := by
  induction xs with
  | nil =>
    intro r cb res n
    refine ⟨r, n, ?_⟩
    cases rest <;> simp [cliFold, cliOn, updSess]
  | cons x xs ih =>
    intro r cb res n
    cases x with
    | log =>
      cases cb with
      | false =>
        obtain ⟨r', n', h⟩ := ih r false res n
        exact ⟨r', n', by simp [cliFold, cliOn, h]⟩
      | true =>
        cases hp : pol n with
        | false =>
          obtain ⟨r', n', h⟩ := ih r true res (n + 1)
          exact ⟨r', n', by simp [cliFold, cliOn, hp, h]⟩
        | true =>
          obtain ⟨r', n', h⟩ := ih .raised false res (n + 1)
          exact ⟨r', n', by simp [cliFold, cliOn, hp, Cli.wait, h]⟩
    | data =>
      obtain ⟨r', n', h⟩ := ih r cb res n
      exact ⟨r', n', by simp [cliFold, cliOn, h]⟩
    | err =>
      obtain ⟨r', n', h⟩ := ih r cb res n
      exact ⟨r', n', by simp [cliFold, cliOn, h]⟩

/-- the same drain when the EOS marker has not arrived yet: everything is consumed, the client keeps draining -/
theorem cliFold_sessDrain_pending (pol : Nat → Bool) (xs : List SItem) (s : Sess) :
    ∀ (r : Res) (cb : Bool) (res : Res) (n : Nat),
    ∃ r' cb' n', cliFold repaired pol ⟨some s, some (.sessDrain r cb), res, n⟩ (its xs)
      = (⟨some s, some (.sessDrain r' cb'), res, n'⟩, [], []) := by
  induction xs with
  | nil => intro r cb res n; exact ⟨r, cb, n, by simp [cliFold]⟩
  | cons x xs ih =>
    intro r cb res n
    cases x with
    | log =>
      cases cb with
      | false =>
        obtain ⟨r', cb', n', h⟩ := ih r false res n
        exact ⟨r', cb', n', by simp [cliFold, cliOn, h]⟩
      | true =>
        cases hp : pol n with
        | false =>
          obtain ⟨r', cb', n', h⟩ := ih r true res (n + 1)
          exact ⟨r', cb', n', by simp [cliFold, cliOn, hp, h]⟩
        | true =>
          obtain ⟨r', cb', n', h⟩ := ih .raised false res (n + 1)
          exact ⟨r', cb', n', by simp [cliFold, cliOn, hp, Cli.wait, h]⟩
    | data =>
      obtain ⟨r', cb', n', h⟩ := ih r cb res n
      exact ⟨r', cb', n', by simp [cliFold, cliOn, h]⟩
    | err =>
      obtain ⟨r', cb', n', h⟩ := ih r cb res n
      exact ⟨r', cb', n', by simp [cliFold, cliOn, h]⟩

/-! ### client: `_read_response` (tick / exchange) scanning for the next data batch -/

/-- put frames in front of what a fold wrote -/
def pre (o : List CFr) (t : Cli × List SFr × List CFr) : Cli × List SFr × List CFr := (t.1, t.2.1, o ++ t.2.2)

theorem cliFold_sessRead (pol : Nat → Bool) (s : Sess) (p : Purpose) (res : Res) (tail : List SFr) (xs : List SItem) :
    ∀ n : Nat,
    (∃ n', (∀ x ∈ xs, x = SItem.log) ∧
        cliFold repaired pol ⟨some s, some (.sessRead p), res, n⟩ (its xs ++ tail)
          = cliFold repaired pol ⟨some s, some (.sessRead p), res, n'⟩ tail) ∨
    (∃ r' n' ps ys, xs = ps ++ ys ∧ (r' = Res.data ∨ r' = Res.raised) ∧
        cliFold repaired pol ⟨some s, some (.sessRead p), res, n⟩ (its xs ++ tail)
          = (⟨some s, none, r', n'⟩, its ys ++ tail, [])) ∨
    (∃ n' ps ys, xs = ps ++ SItem.err :: ys ∧
        cliFold repaired pol ⟨some s, some (.sessRead p), res, n⟩ (its xs ++ tail)
          = pre (endInput s []) (cliFold repaired pol ⟨some s.close, some (.sessDrain .error true), res, n'⟩ (its ys ++ tail))) := by
  induction xs with
  | nil => intro n; exact Or.inl ⟨n, by simp, by simp⟩
  | cons x xs ih =>
    intro n
    cases x with
    | log =>
      cases hp : pol n with
      | true =>
        refine Or.inr (Or.inl ⟨.raised, n + 1, [.log], xs, by simp, Or.inr rfl, ?_⟩)
        cases h : its xs ++ tail <;> simp [cliFold, cliOn, hp, Cli.fin, h]
      | false =>
        rcases ih (n + 1) with ⟨n', hall, h⟩ | ⟨r', n', ps, ys, hx, hr, h⟩ | ⟨n', ps, ys, hx, h⟩
        · refine Or.inl ⟨n', ?_, ?_⟩
          · intro x hx
            rcases List.mem_cons.1 hx with rfl | hx
            · rfl
            · exact hall x hx
          · simp [cliFold, cliOn, hp, h]
        · refine Or.inr (Or.inl ⟨r', n', .log :: ps, ys, by simp [hx], hr, ?_⟩)
          simp [cliFold, cliOn, hp, h]
        · refine Or.inr (Or.inr ⟨n', .log :: ps, ys, by simp [hx], ?_⟩)
          simp [cliFold, cliOn, hp, h]
    | data =>
      refine Or.inr (Or.inl ⟨.data, n, [.data], xs, by simp, Or.inl rfl, ?_⟩)
      cases h : its xs ++ tail <;> simp [cliFold, cliOn, Cli.fin, h]
    | err =>
      refine Or.inr (Or.inr ⟨n, [], xs, by simp, ?_⟩)
      simp [cliFold, cliOn, updSess, pre]

/-! ### client: unary response and stream header -/

theorem cliFold_unaryDrain (pol : Nat → Bool) (so : Option Sess) (xs : List SItem) :
    ∀ (r res : Res) (n : Nat),
    cliFold repaired pol ⟨so, some (.unaryDrain r), res, n⟩ (its xs ++ [.eos]) = (⟨so, none, r, n⟩, [], []) := by
  induction xs with
  | nil => intro r res n; simp [cliFold, cliOn, Cli.fin]
  | cons x xs ih => intro r res n; simp [cliFold, cliOn, ih]

/-- `_read_unary_response` consumes the whole response stream whatever it contains and whatever the callback does -/
theorem cliFold_unaryRead (pol : Nat → Bool) (so : Option Sess) (d : Bool) (xs : List SItem) :
    ∀ (res : Res) (n : Nat),
    ∃ r' n', cliFold repaired pol ⟨so, some (.unaryRead d), res, n⟩ (its xs ++ [.eos]) = (⟨so, none, r', n'⟩, [], []) := by
  induction xs with
  | nil => intro res n; exact ⟨.raised, n, by simp [cliFold, cliOn, Cli.fin]⟩
  | cons x xs ih =>
    intro res n
    cases x with
    | log =>
      cases hp : pol n with
      | true => exact ⟨.raised, n + 1, by simp [cliFold, cliOn, hp, Cli.wait, cliFold_unaryDrain]⟩
      | false =>
        obtain ⟨r', n', h⟩ := ih res (n + 1)
        exact ⟨r', n', by simp [cliFold, cliOn, hp, h]⟩
    | data => cases d
              · exact ⟨.raised, n, by simp [cliFold, cliOn, Cli.wait, cliFold_unaryDrain]⟩
              · exact ⟨.value, n, by simp [cliFold, cliOn, Cli.wait, cliFold_unaryDrain]⟩
    | err => exact ⟨.error, n, by simp [cliFold, cliOn, Cli.wait, cliFold_unaryDrain]⟩

theorem cliFold_unary (pol : Nat → Bool) (so : Option Sess) (d : Bool) (xs : List SItem) (res : Res) (n : Nat) :
    ∃ r' n', cliFold repaired pol ⟨so, some (.unaryOpen d), res, n⟩ (.op :: (its xs ++ [.eos])) = (⟨so, none, r', n'⟩, [], []) := by
  obtain ⟨r', n', h⟩ := cliFold_unaryRead pol so d xs res n
  exact ⟨r', n', by simp [cliFold, cliOn, Cli.wait, h]⟩

theorem cliFold_hdrDrain (pol : Nat → Bool) (so : Option Sess) (xs : List SItem) (ok : Bool) :
    ∀ (res : Res) (n : Nat),
    cliFold repaired pol ⟨so, some (.hdrDrain ok), res, n⟩ (its xs ++ [.eos])
      = (if ok then ⟨some .fresh, none, .opened, n⟩ else ⟨so, none, .error, n⟩, [], []) := by
  induction xs with
  | nil => intro res n; cases ok <;> simp [cliFold, cliOn, Cli.fin]
  | cons x xs ih => intro res n; simp [cliFold, cliOn, ih]

theorem cliFold_hdrAbortDrain (pol : Nat → Bool) (so : Option Sess) (xs : List SItem) :
    ∀ (res : Res) (n : Nat),
    cliFold repaired pol ⟨so, some .hdrAbortDrain, res, n⟩ (its xs ++ [.eos])
      = (⟨so, some .abortOpen, res, n⟩, [], [.op, .eos]) := by
  induction xs with
  | nil => intro res n; simp [cliFold, cliOn]
  | cons x xs ih => intro res n; simp [cliFold, cliOn, ih]

/-- `_read_header_batch` on a stream `xs ++ [EOS]`: a session (header read), an error, or — the callback raised — the
throw-away `close()` has been written and the client waits for the output stream it ends -/
theorem cliFold_hdrRead (pol : Nat → Bool) (xs : List SItem) :
    ∀ (res : Res) (n : Nat),
    (∃ n', cliFold repaired pol ⟨none, some .hdrRead, res, n⟩ (its xs ++ [.eos]) = (⟨some .fresh, none, .opened, n'⟩, [], [])
        ∧ SItem.data ∈ xs) ∨
    (∃ n', cliFold repaired pol ⟨none, some .hdrRead, res, n⟩ (its xs ++ [.eos]) = (⟨none, none, .error, n'⟩, [], [])
        ∧ (SItem.err ∈ xs ∨ ∀ x ∈ xs, x = SItem.log)) ∨
    (∃ n', cliFold repaired pol ⟨none, some .hdrRead, res, n⟩ (its xs ++ [.eos])
        = (⟨none, some .abortOpen, res, n'⟩, [], [.op, .eos]) ∧ SItem.log ∈ xs) := by
  induction xs with
  | nil => intro res n; exact Or.inr (Or.inl ⟨n, by simp [cliFold, cliOn, Cli.fin], Or.inr (by simp)⟩)
  | cons x xs ih =>
    intro res n
    cases x with
    | log =>
      cases hp : pol n with
      | true =>
        exact Or.inr (Or.inr ⟨n + 1, by simp [cliFold, cliOn, hp, Cli.wait, cliFold_hdrAbortDrain], by simp⟩)
      | false =>
        rcases ih res (n + 1) with ⟨n', h, hm⟩ | ⟨n', h, hm⟩ | ⟨n', h, hm⟩
        · exact Or.inl ⟨n', by simp [cliFold, cliOn, hp, h], by simp [hm]⟩
        · refine Or.inr (Or.inl ⟨n', by simp [cliFold, cliOn, hp, h], ?_⟩)
          rcases hm with hm | hm
          · exact Or.inl (by simp [hm])
          · exact Or.inr (by intro x hx; rcases List.mem_cons.1 hx with rfl | hx; rfl; exact hm x hx)
        · exact Or.inr (Or.inr ⟨n', by simp [cliFold, cliOn, hp, h], by simp⟩)
    | data =>
      exact Or.inl ⟨n, by simp [cliFold, cliOn, Cli.wait, cliFold_hdrDrain], by simp⟩
    | err =>
      exact Or.inr (Or.inl ⟨n, by simp [cliFold, cliOn, Cli.wait, cliFold_hdrDrain], Or.inl (by simp)⟩)

/-! ### rounds -/

theorem round_eq {sh : Shape} {svc : Svc} {pol : Nat → Bool} {c2s : List CFr} {s2c : List SFr} {srv : SrvPc} {cli : Cli}
    {wc : List CFr} {ws : List SFr} {srv' : SrvPc} {crest : List CFr} {sout : List SFr} {cli' : Cli} {srest : List SFr}
    {cout : List CFr}
    (h1 : srvFold sh svc srv c2s = (srv', crest, sout))
    (h2 : cliFold sh pol cli (s2c ++ sout) = (cli', srest, cout)) :
    round sh svc pol ⟨c2s, s2c, srv, cli, wc, ws⟩ = ⟨crest ++ cout, srest, srv', cli', wc ++ cout, ws ++ sout⟩ := by
  simp [round, h1, h2]

theorem cliFold_idle (sh : Shape) (pol : Nat → Bool) (so : Option Sess) (res : Res) (n : Nat) (fs : List SFr) :
    cliFold sh pol ⟨so, none, res, n⟩ fs = (⟨so, none, res, n⟩, fs, []) := by
  cases fs <;> simp [cliFold]

theorem srvFold_nil (sh : Shape) (svc : Svc) (pc : SrvPc) : srvFold sh svc pc [] = (pc, [], []) := by
  cases pc <;> simp [srvFold]

/-- a state in which the client is idle and the server has nothing to read does not move -/
theorem round_quiet (sh : Shape) (svc : Svc) (pol : Nat → Bool) (s2c : List SFr) (srv : SrvPc) (so : Option Sess)
    (res : Res) (n : Nat) (wc : List CFr) (ws : List SFr) :
    round sh svc pol ⟨[], s2c, srv, ⟨so, none, res, n⟩, wc, ws⟩ = ⟨[], s2c, srv, ⟨so, none, res, n⟩, wc, ws⟩ := by
  simp [round, srvFold_nil, cliFold_idle]

/-- both streams of the session are open, nothing ended, not closed -/
def both : Sess := ⟨true, true, false, false⟩

/-- the server discards the client's input up to its EOS: the final drain of `_serve_stream`, or
`_drain_refused_stream_input` once the input stream has been opened -/
def Draining (srv : SrvPc) : Prop := srv = .finDrain ∨ srv = .refDrain

theorem draining_fold (svc : Svc) {srv : SrvPc} (h : Draining srv) :
    srvFold repaired svc srv [.it .inp] = (srv, [], []) ∧
    srvFold repaired svc srv [.eos] = (.boundary, [], []) ∧
    srvFold repaired svc srv [.it .cancel, .eos] = (.boundary, [], []) ∧
    srvFold repaired svc srv [.it .inp, .eos] = (.boundary, [], []) := by
  rcases h with rfl | rfl <;> simp [srvFold, srvOn]

/-- The joint states between two operations of a stream call (all have: nothing for the server to read, client idle). -/
inductive Phase : St → Prop
  | noSess (res n wc ws) : Phase ⟨[], [], .boundary, ⟨none, none, res, n⟩, wc, ws⟩
  | closed (s res n wc ws) : s.closed = true → Phase ⟨[], [], .boundary, ⟨some s, none, res, n⟩, wc, ws⟩
  | refused (xs res n wc ws) : Phase ⟨[], .op :: (its xs ++ [.eos]), .refOpen, ⟨some .fresh, none, res, n⟩, wc, ws⟩
  | fresh (ex hdr il steps res n wc ws) : Phase ⟨[], [], .inOpen ex hdr il steps, ⟨some .fresh, none, res, n⟩, wc, ws⟩
  | live (ex steps k pend res n wc ws) : SItem.err ∉ pend →
      Phase ⟨[], its pend, .loop ex steps k, ⟨some both, none, res, n⟩, wc, ws⟩
  | ending (srv pend res n wc ws) : Draining srv → Phase ⟨[], its pend ++ [.eos], srv, ⟨some both, none, res, n⟩, wc, ws⟩
  | ended (srv res n wc ws) : Draining srv → Phase ⟨[], [], srv, ⟨some ⟨true, true, true, false⟩, none, res, n⟩, wc, ws⟩

theorem round_phase (sh : Shape) (svc : Svc) (pol : Nat → Bool) {st : St} (h : Phase st) : round sh svc pol st = st := by
  cases h <;> exact round_quiet ..

theorem phase_rounds1 {sh : Shape} {svc : Svc} {pol : Nat → Bool} {st : St} (h : Phase (round sh svc pol st)) :
    Phase (round sh svc pol (round sh svc pol (round sh svc pol st))) := by
  rw [round_phase sh svc pol h, round_phase sh svc pol h]; exact h

theorem phase_rounds2 {sh : Shape} {svc : Svc} {pol : Nat → Bool} {st : St}
    (h : Phase (round sh svc pol (round sh svc pol st))) :
    Phase (round sh svc pol (round sh svc pol (round sh svc pol st))) := by
  rw [round_phase sh svc pol h]; exact h

theorem phase_settled {st : St} (h : Phase st) : st.settled = true ∧ st.blocked = false := by
  cases h <;> simp [St.settled, St.blocked]

theorem its_logs (n : Nat) : logs n = its (List.replicate n SItem.log) := by simp [logs, its]

theorem stepOut_cont {fl ex : Bool} {s : StepB} {out : List SItem} (h : stepOut fl ex s = (.cont, out)) :
    SItem.err ∉ out ∧ SItem.data ∈ out := by
  unfold stepOut at h
  cases ha : s.act <;> cases ex <;> simp [ha] at h
  all_goals (subst h; simp)

/-- the server, waiting in the final drain or after a refusal, swallows the end of the client's input -/
theorem round_finDrain_eos (svc : Svc) (pol : Nat → Bool) {srv : SrvPc} (hd : Draining srv) (so : Option Sess) (res : Res)
    (n : Nat) (wc : List CFr) (ws : List SFr) :
    round repaired svc pol ⟨[.eos], [], srv, ⟨so, none, res, n⟩, wc, ws⟩
      = ⟨[], [], .boundary, ⟨so, none, res, n⟩, wc, ws⟩ := by
  simp [round, (draining_fold svc hd).2.1, cliFold_idle]

/-- `_read_response` after the server has answered the input batch: the operation ends in a phase -/
theorem read_core (svc : Svc) (pol : Nat → Bool) (p : Purpose) (res : Res) (n : Nat) (wc : List CFr) (ws : List SFr)
    (srv : SrvPc) (xs : List SItem) (tail : List SFr)
    (hcase : (∃ ex steps k, srv = .loop ex steps k ∧ tail = [] ∧ SItem.err ∉ xs ∧ SItem.data ∈ xs) ∨
             (Draining srv ∧ tail = [.eos]))
    {c2 : Cli} {srest : List SFr} {cout : List CFr}
    (h : cliFold repaired pol ⟨some both, some (.sessRead p), res, n⟩ (its xs ++ tail) = (c2, srest, cout)) :
    Phase (round repaired svc pol (round repaired svc pol ⟨cout, srest, srv, c2, wc, ws⟩)) := by
  have closing : ∀ (s : Sess) (r : Res) (m : Nat), s.closed = true → Draining srv →
      Phase (round repaired svc pol (round repaired svc pol ⟨[.eos], [], srv, ⟨some s, none, r, m⟩, wc, ws⟩)) := by
    intro s r m hs hd
    rw [round_finDrain_eos svc pol hd, round_quiet]
    exact Phase.closed s r m wc ws hs
  rcases cliFold_sessRead pol both p res tail xs n with ⟨n', hall, e⟩ | ⟨r', n', ps, ys, hx, _, e⟩ | ⟨n', ps, ys, hx, e⟩
  · -- every batch was a log the callback accepted: the read goes on into `tail`
    rcases hcase with ⟨ex, steps, k, _, _, _, hd⟩ | ⟨hdr, rfl⟩
    · exact absurd (hall _ hd) (by simp)
    · rw [e] at h
      cases p with
      | tick =>
        simp [cliFold, cliOn, updSess, both, Sess.close, endInput] at h
        obtain ⟨rfl, rfl, rfl⟩ := h
        exact closing _ _ _ rfl hdr
      | send =>
        simp [cliFold, cliOn, updSess, both] at h
        obtain ⟨rfl, rfl, rfl⟩ := h
        rw [round_quiet, round_quiet]
        exact Phase.ended _ _ _ _ _ hdr
  · -- a data batch was returned / the callback raised: the rest stays unread
    rw [e] at h
    simp at h
    obtain ⟨rfl, rfl, rfl⟩ := h
    rcases hcase with ⟨ex, steps, k, rfl, rfl, hne, _⟩ | ⟨hdr, rfl⟩
    · rw [List.append_nil, round_quiet, round_quiet]
      refine Phase.live ex steps k ys r' n' wc ws ?_
      intro hm; exact hne (by simp [hx, hm])
    · rw [round_quiet, round_quiet]
      exact Phase.ending _ _ _ _ _ _ hdr
  · -- an EXCEPTION batch: `close()` ends the input and drains the output
    rcases hcase with ⟨ex, steps, k, _, _, hne, _⟩ | ⟨hdr, rfl⟩
    · exact absurd (by simp [hx]) hne
    · obtain ⟨r', m, hd⟩ := cliFold_sessDrain pol ys [] both.close .error true res n'
      rw [e, hd] at h
      simp [pre, endInput, both] at h
      obtain ⟨rfl, rfl, rfl⟩ := h
      exact closing _ _ _ rfl hdr

theorem execOp_eq {sh : Shape} {svc : Svc} {pol : Nat → Bool} {op : Op} {c2s : List CFr} {s2c : List SFr} {srv : SrvPc}
    {cli : Cli} {wc : List CFr} {ws : List SFr} {cli' : Cli} {out : List CFr} (h : cliStart sh op cli = (cli', out)) :
    execOp sh svc pol op ⟨c2s, s2c, srv, cli, wc, ws⟩
      = round sh svc pol (round sh svc pol (round sh svc pol ⟨c2s ++ out, s2c, srv, cli', wc ++ out, ws⟩)) := by
  simp [execOp, h]

def readOp : Purpose → Op
  | .tick => .tick
  | .send => .send

/-- `tick()` / `exchange()` in any phase ends in a phase -/
theorem step_read (svc : Svc) (pol : Nat → Bool) (p : Purpose) {st : St} (h : Phase st) :
    Phase (execOp repaired svc pol (readOp p) st) := by
  cases h with
  | noSess res n wc ws =>
    have : execOp repaired svc pol (readOp p) ⟨[], [], .boundary, ⟨none, none, res, n⟩, wc, ws⟩
        = ⟨[], [], .boundary, ⟨none, none, .noSession, n⟩, wc, ws⟩ := by
      cases p <;> simp [execOp, readOp, cliStart, Cli.fin, round_quiet]
    rw [this]; exact Phase.noSess ..
  | closed s res n wc ws hs =>
    have : execOp repaired svc pol (readOp p) ⟨[], [], .boundary, ⟨some s, none, res, n⟩, wc, ws⟩
        = ⟨[], [], .boundary, ⟨some s, none, .refused, n⟩, wc, ws⟩ := by
      cases p <;> simp [execOp, readOp, cliStart, Cli.fin, hs, round_quiet]
    rw [this]; exact Phase.closed s _ n wc ws hs
  | refused xs res n wc ws =>
    -- the server waits for (and discards) the input stream; the client opens it, reads the error stream, closes
    have hstart : cliStart repaired (readOp p) ⟨some .fresh, none, res, n⟩
        = (⟨some ⟨true, false, false, false⟩, some (.sessOpen p), res, n⟩, [.op, .it .inp]) := by
      cases p <;> simp [readOp, cliStart, Sess.fresh]
    rw [execOp_eq hstart, List.nil_append]
    have hsrv : srvFold repaired svc .refOpen [.op, .it .inp] = (.refDrain, [], []) := by simp [srvFold, srvOn]
    cases hcl : cliFold repaired pol ⟨some both, some (.sessRead p), res, n⟩ (its xs ++ [.eos]) with
    | mk c2 t =>
      obtain ⟨srest, cout⟩ := t
      have hcli : cliFold repaired pol ⟨some ⟨true, false, false, false⟩, some (.sessOpen p), res, n⟩
          ((.op :: (its xs ++ [.eos])) ++ []) = (c2, srest, cout) := by
        simp [cliFold, cliOn, updSess, ← hcl, both]
      rw [round_eq hsrv hcli, List.nil_append]
      exact read_core svc pol p res n _ _ _ xs _ (Or.inr ⟨Or.inr rfl, rfl⟩) hcl
  | fresh ex hdr il steps res n wc ws =>
    -- the input stream is opened with the first batch; the server opens its output stream and runs process() 0
    have hstart : cliStart repaired (readOp p) ⟨some .fresh, none, res, n⟩
        = (⟨some ⟨true, false, false, false⟩, some (.sessOpen p), res, n⟩, [.op, .it .inp]) := by
      cases p <;> simp [readOp, cliStart, Sess.fresh]
    rw [execOp_eq hstart, List.nil_append]
    -- server side of the first round
    let hl : List SItem := if hdr then [] else List.replicate il SItem.log
    have hhl : (if hdr then [] else logs il) = its hl := by
      cases hdr <;> simp [hl, its_logs]
    cases hso : stepOut true ex (stepAt ex steps 0) with
    | mk c out =>
      have hsrv : srvFold repaired svc (.inOpen ex hdr il steps) [.op, .it .inp]
          = (if c = .cont then .loop ex steps 1 else .finDrain, [],
             .op :: (its (hl ++ out) ++ (if c = .cont then [] else [.eos]))) := by
        cases c <;> simp [srvFold, srvOn, hso, hhl, its]
      cases hcl : cliFold repaired pol ⟨some both, some (.sessRead p), res, n⟩
          (its (hl ++ out) ++ (if c = .cont then [] else [.eos])) with
      | mk c2 t =>
        obtain ⟨srest, cout⟩ := t
        have hcli : cliFold repaired pol ⟨some ⟨true, false, false, false⟩, some (.sessOpen p), res, n⟩
            ([] ++ .op :: (its (hl ++ out) ++ (if c = .cont then [] else [.eos]))) = (c2, srest, cout) := by
          simp [cliFold, cliOn, updSess, ← hcl, both]
        rw [round_eq hsrv hcli, List.nil_append]
        refine read_core svc pol p res n _ _ _ (hl ++ out) _ ?_ hcl
        cases c with
        | cont =>
          obtain ⟨hne, hd⟩ := stepOut_cont hso
          refine Or.inl ⟨ex, steps, 1, by simp, by simp, ?_, by simp [hd]⟩
          intro hm
          rcases List.mem_append.1 hm with hm | hm
          · cases hdr <;> simp [hl] at hm
          · exact hne hm
        | done => exact Or.inr ⟨Or.inl (by simp), by simp⟩
        | fail => exact Or.inr ⟨Or.inl (by simp), by simp⟩
  | live ex steps k pend res n wc ws hne =>
    have hstart : cliStart repaired (readOp p) ⟨some both, none, res, n⟩
        = (⟨some both, some (.sessRead p), res, n⟩, [.it .inp]) := by
      cases p <;> simp [readOp, cliStart, both]
    rw [execOp_eq hstart, List.nil_append]
    cases hso : stepOut true ex (stepAt ex steps k) with
    | mk c out =>
      have hsrv : srvFold repaired svc (.loop ex steps k) [.it .inp]
          = (if c = .cont then .loop ex steps (k + 1) else .finDrain, [],
             its out ++ (if c = .cont then [] else [.eos])) := by
        cases c <;> simp [srvFold, srvOn, hso, its]
      cases hcl : cliFold repaired pol ⟨some both, some (.sessRead p), res, n⟩
          (its (pend ++ out) ++ (if c = .cont then [] else [.eos])) with
      | mk c2 t =>
        obtain ⟨srest, cout⟩ := t
        have hcli : cliFold repaired pol ⟨some both, some (.sessRead p), res, n⟩
            (its pend ++ (its out ++ (if c = .cont then [] else [.eos]))) = (c2, srest, cout) := by
          rw [← hcl, its_append, List.append_assoc]
        rw [round_eq hsrv hcli, List.nil_append]
        refine read_core svc pol p res n _ _ _ (pend ++ out) _ ?_ hcl
        cases c with
        | cont =>
          obtain ⟨hne', hd⟩ := stepOut_cont hso
          refine Or.inl ⟨ex, steps, k + 1, by simp, by simp, ?_, by simp [hd]⟩
          intro hm
          rcases List.mem_append.1 hm with hm | hm
          · exact hne hm
          · exact hne' hm
        | done => exact Or.inr ⟨Or.inl (by simp), by simp⟩
        | fail => exact Or.inr ⟨Or.inl (by simp), by simp⟩
  | ending srv pend res n wc ws hdr =>
    have hstart : cliStart repaired (readOp p) ⟨some both, none, res, n⟩
        = (⟨some both, some (.sessRead p), res, n⟩, [.it .inp]) := by
      cases p <;> simp [readOp, cliStart, both]
    rw [execOp_eq hstart, List.nil_append]
    have hsrv : srvFold repaired svc srv [.it .inp] = (srv, [], []) := (draining_fold svc hdr).1
    cases hcl : cliFold repaired pol ⟨some both, some (.sessRead p), res, n⟩ (its pend ++ [.eos]) with
    | mk c2 t =>
      obtain ⟨srest, cout⟩ := t
      have hcli : cliFold repaired pol ⟨some both, some (.sessRead p), res, n⟩ ((its pend ++ [.eos]) ++ [])
          = (c2, srest, cout) := by rw [List.append_nil, hcl]
      rw [round_eq hsrv hcli, List.nil_append]
      exact read_core svc pol p res n _ _ _ pend _ (Or.inr ⟨hdr, rfl⟩) hcl
  | ended srv res n wc ws hdr =>
    cases p with
    | tick =>
      have : execOp repaired svc pol (readOp .tick) ⟨[], [], srv, ⟨some ⟨true, true, true, false⟩, none, res, n⟩, wc, ws⟩
          = ⟨[], [], .boundary, ⟨some ⟨true, true, true, true⟩, none, .fin, n⟩, wc ++ [.it .inp, .eos], ws⟩ := by
        simp [execOp, readOp, cliStart, Sess.close, round, (draining_fold svc hdr).2.2.2, srvFold_nil, cliFold_idle]
      rw [this]; exact Phase.closed _ _ _ _ _ rfl
    | send =>
      have : execOp repaired svc pol (readOp .send) ⟨[], [], srv, ⟨some ⟨true, true, true, false⟩, none, res, n⟩, wc, ws⟩
          = ⟨[], [], srv, ⟨some ⟨true, true, true, false⟩, none, .fin, n⟩, wc ++ [.it .inp], ws⟩ := by
        simp [execOp, readOp, cliStart, round, (draining_fold svc hdr).1, srvFold_nil, cliFold_idle]
      rw [this]; exact Phase.ended _ _ _ _ _ hdr

/-- after `close()` / `cancel()`: no session, or a closed one, and the server is back at the request boundary -/
inductive Done : St → Prop
  | noSess (res n wc ws) : Done ⟨[], [], .boundary, ⟨none, none, res, n⟩, wc, ws⟩
  | closed (s res n wc ws) : s.closed = true → Done ⟨[], [], .boundary, ⟨some s, none, res, n⟩, wc, ws⟩

theorem Done.phase {st : St} (h : Done st) : Phase st := by
  cases h with
  | noSess res n wc ws => exact Phase.noSess ..
  | closed s res n wc ws hs => exact Phase.closed s res n wc ws hs

theorem Done.forget {st : St} (h : Done st) : forget st = St.init := by
  cases h <;> rfl

/-- `close()` (`c = true`) or `cancel()` in any phase: the session is over and the connection is synced -/
theorem step_end (svc : Svc) (pol : Nat → Bool) (c : Bool) {st : St} (h : Phase st) :
    Done (execOp repaired svc pol (if c then .close else .cancel) st) := by
  cases h with
  | noSess res n wc ws =>
    have : execOp repaired svc pol (if c then .close else .cancel) ⟨[], [], .boundary, ⟨none, none, res, n⟩, wc, ws⟩
        = ⟨[], [], .boundary, ⟨none, none, .noSession, n⟩, wc, ws⟩ := by
      cases c <;> simp [execOp, cliStart, Cli.fin, round_quiet]
    rw [this]; exact Done.noSess ..
  | closed s res n wc ws hs =>
    have : execOp repaired svc pol (if c then .close else .cancel) ⟨[], [], .boundary, ⟨some s, none, res, n⟩, wc, ws⟩
        = ⟨[], [], .boundary, ⟨some s, none, if c then .closed else .cancelled, n⟩, wc, ws⟩ := by
      cases c <;> simp [execOp, cliStart, Cli.fin, hs, round_quiet]
    rw [this]; exact Done.closed s _ n wc ws hs
  | refused xs res n wc ws =>
    let extra : List CFr := if c then [] else [.it .cancel]
    have hstart : cliStart repaired (if c then .close else .cancel) ⟨some .fresh, none, res, n⟩
        = (⟨some ⟨true, false, false, true⟩, some (.closeOpen (if c then .closed else .cancelled)), res, n⟩,
           .op :: (extra ++ [.eos])) := by
      cases c <;> simp [cliStart, Sess.fresh, Sess.close, endInput, extra]
    have hsrv : srvFold repaired svc .refOpen ([] ++ .op :: (extra ++ [.eos])) = (.boundary, [], []) := by
      cases c <;> simp [extra, srvFold, srvOn]
    obtain ⟨r', n', hd⟩ := cliFold_sessDrain pol xs [] ⟨true, true, false, true⟩ (if c then .closed else .cancelled) true res n
    have hcli : cliFold repaired pol ⟨some ⟨true, false, false, true⟩, some (.closeOpen (if c then .closed else .cancelled)), res, n⟩
        ((.op :: (its xs ++ [.eos])) ++ []) = (⟨some ⟨true, true, true, true⟩, none, r', n'⟩, [], []) := by
      simp [cliFold, cliOn, updSess, hd]
    rw [execOp_eq hstart, round_eq hsrv hcli, List.append_nil, round_quiet, round_quiet]
    exact Done.closed _ _ _ _ _ rfl
  | fresh ex hdr il steps res n wc ws =>
    let hl : List SItem := if hdr then [] else List.replicate il SItem.log
    have hhl : (if hdr then [] else logs il) = its hl := by
      cases hdr <;> simp [hl, its_logs]
    let extra : List CFr := if c then [] else [.it .cancel]
    have hstart : cliStart repaired (if c then .close else .cancel) ⟨some .fresh, none, res, n⟩
        = (⟨some ⟨true, false, false, true⟩, some (.closeOpen (if c then .closed else .cancelled)), res, n⟩,
           .op :: (extra ++ [.eos])) := by
      cases c <;> simp [cliStart, Sess.fresh, Sess.close, endInput, extra]
    have hsrv : srvFold repaired svc (.inOpen ex hdr il steps) ([] ++ .op :: (extra ++ [.eos]))
        = (.boundary, [], .op :: (its hl ++ [.eos])) := by
      cases c <;> simp [extra, srvFold, srvOn, hhl]
    obtain ⟨r', n', hd⟩ := cliFold_sessDrain pol hl [] ⟨true, true, false, true⟩ (if c then .closed else .cancelled) true res n
    have hcli : cliFold repaired pol ⟨some ⟨true, false, false, true⟩, some (.closeOpen (if c then .closed else .cancelled)), res, n⟩
        ([] ++ .op :: (its hl ++ [.eos])) = (⟨some ⟨true, true, true, true⟩, none, r', n'⟩, [], []) := by
      simp [cliFold, cliOn, updSess, hd]
    rw [execOp_eq hstart, round_eq hsrv hcli, List.append_nil, round_quiet, round_quiet]
    exact Done.closed _ _ _ _ _ rfl
  | live ex steps k pend res n wc ws hne =>
    let extra : List CFr := if c then [] else [.it .cancel]
    have hstart : cliStart repaired (if c then .close else .cancel) ⟨some both, none, res, n⟩
        = (⟨some ⟨true, true, false, true⟩, some (.sessDrain (if c then .closed else .cancelled) true), res, n⟩,
           extra ++ [.eos]) := by
      cases c <;> simp [cliStart, both, Sess.close, endInput, extra]
    have hsrv : srvFold repaired svc (.loop ex steps k) ([] ++ (extra ++ [.eos])) = (.boundary, [], [.eos]) := by
      cases c <;> simp [extra, srvFold, srvOn]
    obtain ⟨r', n', hd⟩ := cliFold_sessDrain pol pend [] ⟨true, true, false, true⟩ (if c then .closed else .cancelled) true res n
    rw [execOp_eq hstart, round_eq hsrv hd, List.append_nil, round_quiet, round_quiet]
    exact Done.closed _ _ _ _ _ rfl
  | ending srv pend res n wc ws hdr =>
    let extra : List CFr := if c then [] else [.it .cancel]
    have hstart : cliStart repaired (if c then .close else .cancel) ⟨some both, none, res, n⟩
        = (⟨some ⟨true, true, false, true⟩, some (.sessDrain (if c then .closed else .cancelled) true), res, n⟩,
           extra ++ [.eos]) := by
      cases c <;> simp [cliStart, both, Sess.close, endInput, extra]
    have hsrv : srvFold repaired svc srv ([] ++ (extra ++ [.eos])) = (.boundary, [], []) := by
      cases c
      · simpa [extra] using (draining_fold svc hdr).2.2.1
      · simpa [extra] using (draining_fold svc hdr).2.1
    obtain ⟨r', n', hd⟩ := cliFold_sessDrain pol pend [] ⟨true, true, false, true⟩ (if c then .closed else .cancelled) true res n
    have hcli : cliFold repaired pol ⟨some ⟨true, true, false, true⟩, some (.sessDrain (if c then .closed else .cancelled) true), res, n⟩
        ((its pend ++ [.eos]) ++ []) = (⟨some ⟨true, true, true, true⟩, none, r', n'⟩, [], []) := by
      rw [List.append_nil]; exact hd
    rw [execOp_eq hstart, round_eq hsrv hcli, List.append_nil, round_quiet, round_quiet]
    exact Done.closed _ _ _ _ _ rfl
  | ended srv res n wc ws hdr =>
    let extra : List CFr := if c then [] else [.it .cancel]
    have hstart : cliStart repaired (if c then .close else .cancel) ⟨some ⟨true, true, true, false⟩, none, res, n⟩
        = (⟨some ⟨true, true, true, true⟩, none, if c then .closed else .cancelled, n⟩, extra ++ [.eos]) := by
      cases c <;> simp [cliStart, Sess.close, endInput, extra]
    have hsrv : srvFold repaired svc srv ([] ++ (extra ++ [.eos])) = (.boundary, [], []) := by
      cases c
      · simpa [extra] using (draining_fold svc hdr).2.2.1
      · simpa [extra] using (draining_fold svc hdr).2.1
    rw [execOp_eq hstart, round_eq hsrv (cliFold_idle repaired pol _ _ _ _), List.append_nil, round_quiet, round_quiet]
    exact Done.closed _ _ _ _ _ rfl

theorem step_sop (svc : Svc) (pol : Nat → Bool) (o : SOp) {st : St} (h : Phase st) :
    Phase (execOp repaired svc pol o.toOp st) := by
  cases o with
  | tick => exact step_read svc pol .tick h
  | send => exact step_read svc pol .send h
  | close => simpa [SOp.toOp] using (step_end svc pol true h).phase
  | cancel => simpa [SOp.toOp] using (step_end svc pol false h).phase

/-- any sequence of session operations keeps the phase invariant; every one of them settles -/
theorem execOps_phase (svc : Svc) (pol : Nat → Bool) (ops : List SOp) :
    ∀ {st : St}, Phase st →
      Phase (execOps repaired svc pol (ops.map SOp.toOp) st).1 ∧
      ∀ x ∈ (execOps repaired svc pol (ops.map SOp.toOp) st).2, x.settled = true ∧ x.blocked = false := by
  induction ops with
  | nil => intro st h; exact ⟨h, by simp [execOps]⟩
  | cons o ops ih =>
    intro st h
    have h1 := step_sop svc pol o h
    obtain ⟨h2, h3⟩ := ih h1
    refine ⟨by simpa [execOps] using h2, ?_⟩
    intro x hx
    simp only [List.map_cons, execOps, List.mem_cons] at hx
    rcases hx with rfl | hx
    · exact phase_settled h1
    · exact h3 x hx

theorem execOps_append (sh : Shape) (svc : Svc) (pol : Nat → Bool) (a b : List Op) (st : St) :
    execOps sh svc pol (a ++ b) st
      = ((execOps sh svc pol b (execOps sh svc pol a st).1).1,
         (execOps sh svc pol a st).2 ++ (execOps sh svc pol b (execOps sh svc pol a st).1).2) := by
  induction a generalizing st with
  | nil => simp [execOps]
  | cons o a ih => simp [execOps, ih]

/-! ### the request -/

theorem srvFold_req (sh : Shape) (svc : Svc) (r : Request) :
    srvFold sh svc .boundary (reqFrames r) = ((dispatch sh svc r).1, [], (dispatch sh svc r).2) := by
  simp [reqFrames, srvFold, srvOn]

theorem errStream_eq : errStream = .op :: (its [SItem.err] ++ [.eos]) := rfl

/-- a unary request is answered with exactly one complete stream and the server is back at the boundary -/
theorem dispatch_unary {svc : Svc} {r : Request}
    (hag : ∀ m, svc.methods[r.method]? = some m → ∃ n b, m = .unary n b) :
    ∃ xs, dispatch repaired svc r = (.boundary, .op :: (its xs ++ [.eos])) := by
  unfold dispatch
  cases hm : svc.methods[r.method]? with
  | none => exact ⟨[.err], by simp [errStream_eq]⟩
  | some m =>
    obtain ⟨k, b, rfl⟩ := hag m hm
    by_cases hv : r.versionOk <;> by_cases hp : r.paramsOk
    · refine ⟨List.replicate k .log ++ [if b then .err else .data], ?_⟩
      cases b <;> simp [hv, hp, its_logs, its]
    · exact ⟨[.err], by simp [hv, hp, refuse, Method.headerless, errStream_eq]⟩
    · exact ⟨[.err], by simp [hv, refuse, Method.headerless, errStream_eq]⟩
    · exact ⟨[.err], by simp [hv, refuse, Method.headerless, errStream_eq]⟩

/-- a unary call from a synced connection leaves it synced, whatever the method and the callback do -/
theorem unary_call (svc : Svc) (pol : Nat → Bool) (r : Request)
    (hag : ∀ m, svc.methods[r.method]? = some m → ∃ n b, m = .unary n b) :
    Done (execOp repaired svc pol (.call r) St.init) := by
  by_cases hrej : r.clientRejects = true
  · -- the client raises before anything is on the wire
    have hstart : cliStart repaired (.call r) Cli.idle = (⟨none, none, .raised, 0⟩, []) := by
      simp [cliStart, Cli.idle, hrej]
    show Done (execOp repaired svc pol (.call r) ⟨[], [], .boundary, Cli.idle, [], []⟩)
    rw [execOp_eq hstart, List.append_nil, round_quiet, round_quiet, round_quiet]
    exact Done.noSess ..
  have hrej : r.clientRejects = false := by simpa using hrej
  obtain ⟨xs, hd⟩ := dispatch_unary hag
  obtain ⟨r', n', hc⟩ := cliFold_unary pol none r.resultDecodes xs .none 0
  have hstart : cliStart repaired (.call r) Cli.idle = (⟨none, some (.unaryOpen r.resultDecodes), .none, 0⟩, reqFrames r) := by
    simp [cliStart, Cli.idle, hrej]
  have hsrv : srvFold repaired svc .boundary ([] ++ reqFrames r) = (.boundary, [], .op :: (its xs ++ [.eos])) := by
    rw [List.nil_append, srvFold_req, hd]
  have hcli : cliFold repaired pol ⟨none, some (.unaryOpen r.resultDecodes), .none, 0⟩ ([] ++ .op :: (its xs ++ [.eos]))
      = (⟨none, none, r', n'⟩, [], []) := by rw [List.nil_append]; exact hc
  show Done (execOp repaired svc pol (.call r) ⟨[], [], .boundary, Cli.idle, [], []⟩)
  rw [execOp_eq hstart, round_eq hsrv hcli, List.append_nil, round_quiet, round_quiet]
  exact Done.noSess ..

/-- what the server does with the request of a stream call whose shape both sides agree on -/
theorem errStream_its : errStream = .op :: (its [SItem.err] ++ [.eos]) := rfl

theorem errStreamL_its (n : Nat) : errStreamL n = .op :: (its (List.replicate n SItem.log ++ [.err]) ++ [.eos]) := by
  simp [errStreamL, logs, its]

theorem dispatch_stream {svc : Svc} {r : Request} {hdr : Bool}
    (hag : ∀ m, svc.methods[r.method]? = some m → ∃ ex il init steps, m = .stream ex hdr il init steps)
    (hk : hdr = false → r.method < svc.methods.length) :
    -- refused / failed init: an error stream (after a failed init it carries the logs emitted before the failure);
    -- the input of a header-less stream is awaited and drained
    (∃ xs, SItem.data ∉ xs ∧
      dispatch repaired svc r = (if hdr then .boundary else .refOpen, .op :: (its xs ++ [.eos]))) ∨
    -- started: the header stream (when declared), then the input stream is awaited
    (∃ ex il steps, dispatch repaired svc r
        = (.inOpen ex hdr il steps, if hdr then .op :: (its (List.replicate il SItem.log ++ [.data]) ++ [.eos]) else [])) := by
  unfold dispatch
  cases hm : svc.methods[r.method]? with
  | none =>
    cases hdr with
    | true => left; exact ⟨[.err], by simp, by simp [errStream_its]⟩
    | false =>
      have := hk rfl
      simp at hm
      omega
  | some m =>
    obtain ⟨ex, il, init, steps, rfl⟩ := hag m hm
    by_cases hv : r.versionOk <;> by_cases hp : r.paramsOk
    · by_cases hi : initFails hdr init
      · left
        refine ⟨List.replicate il SItem.log ++ [.err], by simp, ?_⟩
        cases hdr <;> simp [hv, hp, hi, refuse, Method.headerless, errStreamL_its]
      · right
        refine ⟨ex, il, steps, ?_⟩
        cases hdr <;> simp [hv, hp, hi, its_logs, its]
    · left; exact ⟨[.err], by simp, by cases hdr <;> simp [hv, hp, refuse, Method.headerless, errStream_its]⟩
    · left; exact ⟨[.err], by simp, by cases hdr <;> simp [hv, refuse, Method.headerless, errStream_its]⟩
    · left; exact ⟨[.err], by simp, by cases hdr <;> simp [hv, refuse, Method.headerless, errStream_its]⟩

/-- opening a stream from a synced connection ends in a phase -/
theorem open_call (svc : Svc) (pol : Nat → Bool) (r : Request) (hdr : Bool)
    (hag : ∀ m, svc.methods[r.method]? = some m → ∃ ex il init steps, m = .stream ex hdr il init steps)
    (hk : hdr = false → r.method < svc.methods.length) :
    Phase (execOp repaired svc pol (.open_ r hdr) St.init) := by
  show Phase (execOp repaired svc pol (.open_ r hdr) ⟨[], [], .boundary, Cli.idle, [], []⟩)
  by_cases hrej : r.clientRejects = true
  · have hstart : cliStart repaired (.open_ r hdr) Cli.idle = (⟨none, none, .raised, 0⟩, []) := by
      simp [cliStart, Cli.idle, hrej]
    rw [execOp_eq hstart, List.append_nil, round_quiet, round_quiet, round_quiet]
    exact Phase.noSess ..
  have hrej : r.clientRejects = false := by simpa using hrej
  cases hdr with
  | false =>
    have hstart : cliStart repaired (.open_ r false) Cli.idle = (⟨some .fresh, none, .opened, 0⟩, reqFrames r) := by
      simp [cliStart, hrej]
    rw [execOp_eq hstart]
    apply phase_rounds1
    rcases dispatch_stream hag hk with ⟨xs, _, hd⟩ | ⟨ex, il, steps, hd⟩
    · have hsrv : srvFold repaired svc .boundary ([] ++ reqFrames r) = (.refOpen, [], .op :: (its xs ++ [.eos])) := by
        rw [List.nil_append, srvFold_req, hd]; simp
      rw [round_eq hsrv (cliFold_idle repaired pol _ _ _ _), List.nil_append, List.nil_append]
      exact Phase.refused ..
    · have hsrv : srvFold repaired svc .boundary ([] ++ reqFrames r) = (.inOpen ex false il steps, [], []) := by
        rw [List.nil_append, srvFold_req, hd]; simp
      rw [round_eq hsrv (cliFold_idle repaired pol _ _ _ _)]
      exact Phase.fresh ..
  | true =>
    have hstart : cliStart repaired (.open_ r true) Cli.idle = (⟨none, some .hdrOpen, .none, 0⟩, reqFrames r) := by
      simp [cliStart, hrej]
    rw [execOp_eq hstart]
    have hopen : ∀ fs, cliFold repaired pol ⟨none, some .hdrOpen, .none, 0⟩ ([] ++ .op :: fs)
        = cliFold repaired pol ⟨none, some .hdrRead, .none, 0⟩ fs := by
      intro fs; simp [cliFold, cliOn, Cli.wait]
    rcases dispatch_stream hag hk with ⟨xs, hnd, hd⟩ | ⟨ex, il, steps, hd⟩
    · -- error stream in place of the header (after a failed init: with the logs emitted before the failure)
      have hsrv : srvFold repaired svc .boundary ([] ++ reqFrames r) = (.boundary, [], .op :: (its xs ++ [.eos])) := by
        rw [List.nil_append, srvFold_req, hd]; simp
      rcases cliFold_hdrRead pol xs .none 0 with ⟨n', _, hm⟩ | ⟨n', h, _⟩ | ⟨n', h, _⟩
      · exact absurd hm hnd
      · -- RpcError, no session
        rw [round_eq hsrv ((hopen _).trans h), List.append_nil, round_quiet, round_quiet]
        exact Phase.noSess ..
      · -- the callback raised on one of those logs: the throw-away close() writes an empty stream; the server, back
        -- at the request boundary, answers it as an (empty) request, and that answer is what the close() drains
        rw [round_eq hsrv ((hopen _).trans h), List.nil_append]
        have hsrv2 : srvFold repaired svc .boundary [.op, .eos] = (.boundary, [], errStream) := by
          simp [srvFold, srvOn]
        have hcli2 : cliFold repaired pol ⟨none, some .abortOpen, .none, n'⟩ ([] ++ errStream)
            = (⟨none, none, .raised, n'⟩, [], []) := by
          simp [errStream, cliFold, cliOn, Cli.wait, Cli.fin]
        rw [round_eq hsrv2 hcli2, List.append_nil, round_quiet]
        exact Phase.noSess ..
    · have hsrv : srvFold repaired svc .boundary ([] ++ reqFrames r)
          = (.inOpen ex true il steps, [], .op :: (its (List.replicate il SItem.log ++ [.data]) ++ [.eos])) := by
        rw [List.nil_append, srvFold_req, hd]; simp
      rcases cliFold_hdrRead pol (List.replicate il SItem.log ++ [.data]) .none 0 with
        ⟨n', h, _⟩ | ⟨n', _, hm⟩ | ⟨n', h, _⟩
      · -- header read: a fresh session
        rw [round_eq hsrv ((hopen _).trans h), List.append_nil, round_quiet, round_quiet]
        exact Phase.fresh ..
      · -- impossible: the header stream carries its data batch and no error
        rcases hm with hm | hm
        · simp at hm
        · have := hm .data (by simp)
          cases this
      · -- the callback raised during the header read: the throw-away close() ends the stream on the server
        rw [round_eq hsrv ((hopen _).trans h), List.nil_append]
        have hsrv2 : srvFold repaired svc (.inOpen ex true il steps) [.op, .eos] = (.boundary, [], [.op, .eos]) := by
          simp [srvFold, srvOn]
        have hcli2 : cliFold repaired pol ⟨none, some .abortOpen, .none, n'⟩ ([] ++ [.op, .eos])
            = (⟨none, none, .raised, n'⟩, [], []) := by
          simp [cliFold, cliOn, Cli.wait, Cli.fin]
        rw [round_eq hsrv2 hcli2, List.append_nil, round_quiet]
        exact Phase.noSess ..

/-- one call from a synced connection: synced again, every operation settled -/
theorem call_synced (svc : Svc) (c : Call) (hag : Spec.Agree svc c) (hk : Spec.KnownIfHeaderless svc c) :
    (runCall repaired svc c St.init).1 = St.init ∧
    ∀ x ∈ (runCall repaired svc c St.init).2.outs, x.settled = true ∧ x.blocked = false := by
  cases c with
  | unary pol r =>
    have hd := unary_call svc pol r hag
    simp only [runCall, Call.ops, Call.pol, execOps]
    generalize execOp repaired svc pol (Op.call r) St.init = st' at hd
    refine ⟨hd.forget, ?_⟩
    intro x hx
    rw [List.mem_singleton] at hx
    subst hx
    exact phase_settled hd.phase
  | stream pol r hdr ops =>
    have hk' : hdr = false → r.method < svc.methods.length := by
      intro h; subst h; exact hk
    have h1 := open_call svc pol r hdr hag hk'
    simp only [runCall, Call.ops, Call.pol, execOps, execOps_append]
    generalize execOp repaired svc pol (Op.open_ r hdr) St.init = st1 at h1
    obtain ⟨h2, h2s⟩ := execOps_phase svc pol ops h1
    generalize execOps repaired svc pol (ops.map SOp.toOp) st1 = p2 at h2 h2s
    have h3 := step_end svc pol true h2
    simp only [if_true] at h3
    generalize execOp repaired svc pol Op.close p2.1 = st3 at h3
    refine ⟨h3.forget, ?_⟩
    intro x hx
    simp only [List.mem_cons, List.mem_append, List.not_mem_nil, or_false] at hx
    rcases hx with rfl | hx | rfl
    · exact phase_settled h1
    · exact h2s x hx
    · exact phase_settled h3.phase

theorem hist_synced (svc : Svc) (hist : List Call) (hag : Spec.AllAgree svc hist) (hk : Spec.AllKnownIfHeaderless svc hist) :
    (runHist repaired svc hist St.init).1 = St.init ∧
    (runHist repaired svc hist St.init).2 = hist.map (fun c => (runCall repaired svc c St.init).2) := by
  induction hist with
  | nil => simp [runHist]
  | cons c cs ih =>
    have hc := (call_synced svc c (hag c (by simp)) (hk c (by simp))).1
    obtain ⟨i1, i2⟩ := ih (fun c' h => hag c' (by simp [h])) (fun c' h => hk c' (by simp [h]))
    have e : runCall repaired svc c St.init = (St.init, (runCall repaired svc c St.init).2) := Prod.ext hc rfl
    constructor
    · simp only [runHist]; rw [e]; exact i1
    · simp only [runHist, List.map_cons]; rw [e]; simp [i2]

end Aux

/-! ## Property theorems (obligations) -/

/-- the tree under test has the repaired shape (fails to compile when a drain / handler of the anchored code regresses) -/
theorem shape_repaired : Gen.C04.shape = repaired := by decide

/-- the structural facts the model hard-codes all hold in the source -/
theorem structural_ok : (Gen.C04.structural.all fun kv => kv.2) = true := by decide

/-- per call: from a synced connection every call — any method behaviour, any request-check outcome, any sequence of
session operations, any callback behaviour — leaves the connection synced and every one of its operations settles -/
theorem call_synced_partial (svc : Svc) (c : Call) (hag : Spec.Agree svc c) (hk : Spec.KnownIfHeaderless svc c) :
    Spec.Synced (runCall Gen.C04.shape svc c St.init).1 ∧
    ∀ x ∈ (runCall Gen.C04.shape svc c St.init).2.outs, x.settled = true ∧ x.blocked = false := by
  rw [shape_repaired]; exact Aux.call_synced svc c hag hk

/-- `Spec.SyncAfterEveryCall` for every history, excluding only unknown header-less stream methods -/
theorem C04_sync_partial (svc : Svc) (hist : List Call) (hag : Spec.AllAgree svc hist)
    (hk : Spec.AllKnownIfHeaderless svc hist) :
    Spec.Synced (runHist Gen.C04.shape svc hist St.init).1 := by
  rw [shape_repaired]; exact (Aux.hist_synced svc hist hag hk).1

/-- `Spec.NeverBlocked`, same exclusion -/
theorem C04_live_partial (svc : Svc) (hist : List Call) (hag : Spec.AllAgree svc hist)
    (hk : Spec.AllKnownIfHeaderless svc hist) :
    ∀ o ∈ (runHist Gen.C04.shape svc hist St.init).2, ∀ x ∈ o.outs, x.settled = true ∧ x.blocked = false := by
  rw [shape_repaired, (Aux.hist_synced svc hist hag hk).2]
  intro o ho x hx
  obtain ⟨c, hc, rfl⟩ := List.mem_map.1 ho
  exact (Aux.call_synced svc c (hag c hc) (hk c hc)).2 x hx

/-- `Spec.NextCallIndependent`, same exclusion: the last call of a history gives its caller exactly what it gives on a
fresh connection -/
theorem C04_next_partial (svc : Svc) (hist : List Call) (c : Call) (hag : Spec.AllAgree svc (hist ++ [c]))
    (hk : Spec.AllKnownIfHeaderless svc (hist ++ [c])) :
    (runHist Gen.C04.shape svc (hist ++ [c]) St.init).2.getLast? = some (runCall Gen.C04.shape svc c St.init).2 := by
  rw [shape_repaired, (Aux.hist_synced svc (hist ++ [c]) hag hk).2]
  simp

/-- non-vacuity: a service and a history with faults that satisfy the hypotheses -/
example : Spec.AllAgree ⟨[.unary 2 true, .stream false false 1 .raises []]⟩
      [.stream (fun n => n == 0) ⟨1, true, true, false, true⟩ false [.tick, .cancel], .unary (fun _ => true) ⟨0, true, false, false, true⟩,
       .unary (fun _ => false) ⟨7, true, true, false, true⟩] ∧
    Spec.AllKnownIfHeaderless ⟨[.unary 2 true, .stream false false 1 .raises []]⟩
      [.stream (fun n => n == 0) ⟨1, true, true, false, true⟩ false [.tick, .cancel], .unary (fun _ => true) ⟨0, true, false, false, true⟩,
       .unary (fun _ => false) ⟨7, true, true, false, true⟩] := by
  constructor <;> intro c hc <;> simp at hc <;> rcases hc with rfl | rfl | rfl <;>
    simp [Spec.Agree, Spec.KnownIfHeaderless]

end VgiVerif.C04
