import VgiVerif.Model.C09
import VgiVerif.Spec.C09
import VgiVerif.Lemmas.Regex
import VgiVerif.Lemmas.PyStr
/-
C09 property theorems (helper lemmas are in the `Aux` namespace at the top; the property
theorems themselves are at the bottom and are the obligations audited by the check).
-/
namespace VgiVerif.C09
open VgiVerif.Regex VgiVerif.PyStr Spec

namespace Aux

theorem mem_range1 (lo hi : Nat) (ch : Char) :
    Cls.mem ⟨false, [(lo, hi)]⟩ ch = true ↔ lo ≤ ch.toNat ∧ ch.toNat ≤ hi := by
  simp only [Cls.mem, List.any_cons, List.any_nil, Bool.or_false]
  cases hb : (decide (lo ≤ ch.toNat) && decide (ch.toNat ≤ hi)) <;> simp_all

theorem lang_cls1 (lo hi : Nat) (s : List Char) :
    Lang (.cls ⟨false, [(lo, hi)]⟩) s ↔ ∃ ch, s = [ch] ∧ lo ≤ ch.toNat ∧ ch.toNat ≤ hi := by
  simp only [Lang, mem_range1]

def num : Re :=
  .alt (.cls ⟨false, [(48, 48)]⟩) (.seq (.cls ⟨false, [(49, 57)]⟩) (.star (.cls ⟨false, [(48, 57)]⟩)))
def dot : Re := .cls ⟨false, [(46, 46)]⟩

/-- the extracted pattern has the shape the proofs below are about (re-checked on every run) -/
theorem pattern_shape :
    Gen.Semver.pattern = ⟨true, .seq num (.seq dot (.seq num (.seq dot num))), .bigZ⟩ := by rfl

theorem toNat_eq_48 (ch : Char) : ch.toNat = 48 ↔ ch = '0' := by
  constructor
  · intro h; exact Char.toNat_inj.mp (by rw [h]; rfl)
  · rintro rfl; rfl

theorem toNat_eq_46 (ch : Char) : ch.toNat = 46 ↔ ch = '.' := by
  constructor
  · intro h; exact Char.toNat_inj.mp (by rw [h]; rfl)
  · rintro rfl; rfl

theorem lang_num (s : List Char) : Lang num s ↔ CanonNum s := by
  unfold num CanonNum
  rw [lang_alt, lang_cls1, lang_seq]
  constructor
  · rintro (⟨ch, rfl, h1, h2⟩ | ⟨s1, s2, rfl, h1, h2⟩)
    · left
      have : ch.toNat = 48 := Nat.le_antisymm h2 h1
      rw [(toNat_eq_48 ch).1 this]
    · right
      rw [lang_cls1] at h1
      obtain ⟨ch, rfl, h3, h4⟩ := h1
      rw [lang_star_cls] at h2
      refine ⟨ch, s2, rfl, h3, h4, ?_⟩
      intro x hx
      exact (mem_range1 48 57 x).1 (h2 x hx)
  · rintro (rfl | ⟨h, t, rfl, h1, h2, h3⟩)
    · left; exact ⟨'0', rfl, by decide, by decide⟩
    · right
      refine ⟨[h], t, rfl, ?_, ?_⟩
      · rw [lang_cls1]; exact ⟨h, rfl, h1, h2⟩
      · rw [lang_star_cls]; intro x hx; exact (mem_range1 48 57 x).2 (h3 x hx)

theorem lang_dot (s : List Char) : Lang dot s ↔ s = ['.'] := by
  unfold dot
  rw [lang_cls1]
  constructor
  · rintro ⟨ch, rfl, h1, h2⟩
    have : ch.toNat = 46 := Nat.le_antisymm h2 h1
    rw [(toNat_eq_46 ch).1 this]
  · rintro rfl; exact ⟨'.', rfl, by decide, by decide⟩

theorem lang_body (s : List Char) :
    Lang (.seq num (.seq dot (.seq num (.seq dot num)))) s ↔
      ∃ A B C, CanonNum A ∧ CanonNum B ∧ CanonNum C ∧ s = A ++ '.' :: (B ++ '.' :: C) := by
  simp only [lang_seq, lang_num, lang_dot]
  constructor
  · rintro ⟨A, r1, rfl, hA, d1, r2, rfl, rfl, B, r3, rfl, hB, d2, C, rfl, rfl, hC⟩
    exact ⟨A, B, C, hA, hB, hC, by simp⟩
  · rintro ⟨A, B, C, hA, hB, hC, rfl⟩
    exact ⟨A, _, rfl, hA, ['.'], _, rfl, rfl, B, _, rfl, hB, ['.'], C, rfl, rfl, hC⟩

theorem callKind_match : Gen.Semver.callKind = "match" := by rfl
theorem returnsIntGroups : Gen.Semver.returnsIntGroups = true := by rfl

theorem regexAccepts_iff (s : List Char) :
    regexAccepts s = true ↔
      ∃ A B C, CanonNum A ∧ CanonNum B ∧ CanonNum C ∧ s = A ++ '.' :: (B ++ '.' :: C) := by
  unfold regexAccepts
  rw [if_pos callKind_match, pyMatch_bigZ _ (by rw [pattern_shape]), pattern_shape]
  exact lang_body s

theorem canon_digits {s : List Char} (h : CanonNum s) : ∀ x ∈ s, IsDigit x := by
  rcases h with rfl | ⟨h, t, rfl, h1, h2, h3⟩
  · intro x hx; simp at hx; subst hx; exact ⟨by decide, by decide⟩
  · intro x hx
    simp at hx
    rcases hx with rfl | hx
    · exact ⟨by omega, h2⟩
    · exact h3 x hx

theorem digit_ne_dot {x : Char} (h : IsDigit x) : x ≠ '.' := by
  rintro rfl
  have : (46 : Nat) ≥ 48 := h.1
  omega

theorem digitVal_ascii {c : Char} (h : IsDigit c) : digitVal c = c.toNat - 48 := by
  obtain ⟨h1, h2⟩ := h
  unfold digitVal
  have hz : Gen.Semver.digitZeros = 48 :: Gen.Semver.digitZeros.tail := by rfl
  have : (decide (48 ≤ c.toNat) && decide (c.toNat < 48 + 10)) = true := by
    simp; omega
  rw [hz, List.find?_cons, this]

theorem foldl_congr_mem {α β : Type} (f g : β → α → β) (l : List α) (b : β)
    (h : ∀ a x, x ∈ l → f a x = g a x) : l.foldl f b = l.foldl g b := by
  induction l generalizing b with
  | nil => rfl
  | cons x xs ih =>
    simp only [List.foldl_cons]
    rw [h b x (by simp)]
    exact ih _ (fun a y hy => h a y (by simp [hy]))

theorem pyInt_eq_decVal {s : List Char} (h : ∀ x ∈ s, IsDigit x) : pyInt s = decVal s := by
  unfold pyInt decVal
  apply foldl_congr_mem
  intro a x hx
  rw [digitVal_ascii (h x hx)]

theorem matchedText_id (s : List Char) : matchedText s = s := by
  unfold matchedText
  rw [pattern_shape]
  simp

theorem split_canon {A B C : List Char} (hA : CanonNum A) (hB : CanonNum B) (hC : CanonNum C) :
    splitOn '.' (A ++ '.' :: (B ++ '.' :: C)) = [A, B, C] := by
  rw [splitOn_append _ _ _ (fun x hx => digit_ne_dot (canon_digits hA x hx)),
    splitOn_append _ _ _ (fun x hx => digit_ne_dot (canon_digits hB x hx)),
    splitOn_noSep _ _ (fun x hx => digit_ne_dot (canon_digits hC x hx))]

end Aux

open Aux

/-! ## Property theorems (obligations) -/

/-- The extracted regex, used the way `parse_version` uses it, accepts exactly canonical versions. -/
theorem semver_spec (s : List Char) :
    regexAccepts s = true ↔ ∃ a b c, CanonVersion s a b c := by
  rw [regexAccepts_iff]
  constructor
  · rintro ⟨A, B, C, hA, hB, hC, rfl⟩
    exact ⟨_, _, _, A, B, C, hA, hB, hC, rfl, rfl, rfl, rfl⟩
  · rintro ⟨_, _, _, A, B, C, hA, hB, hC, rfl, _⟩
    exact ⟨A, B, C, hA, hB, hC, rfl⟩

/-- `parse_version` returns `(a, b, c)` exactly on the canonical text of `a.b.c`. -/
theorem parse_spec (s : List Char) (a b c : Nat) :
    parseVersion s = some (a, b, c) ↔ CanonVersion s a b c := by
  unfold parseVersion
  constructor
  · intro h
    split at h
    · rename_i hacc
      simp only [Bool.and_eq_true] at hacc
      obtain ⟨A, B, C, hA, hB, hC, rfl⟩ := (regexAccepts_iff s).1 hacc.1
      rw [matchedText_id, split_canon hA hB hC] at h
      simp only [Option.some.injEq, Prod.mk.injEq] at h
      obtain ⟨rfl, rfl, rfl⟩ := h
      exact ⟨A, B, C, hA, hB, hC, rfl,
        (pyInt_eq_decVal (canon_digits hA)).symm, (pyInt_eq_decVal (canon_digits hB)).symm,
        (pyInt_eq_decVal (canon_digits hC)).symm⟩
    · cases h
  · rintro ⟨A, B, C, hA, hB, hC, rfl, rfl, rfl, rfl⟩
    have hacc : regexAccepts (A ++ '.' :: (B ++ '.' :: C)) = true :=
      (regexAccepts_iff _).2 ⟨A, B, C, hA, hB, hC, rfl⟩
    rw [hacc, returnsIntGroups]
    simp only [Bool.and_self, if_true]
    rw [matchedText_id, split_canon hA hB hC]
    simp only [pyInt_eq_decVal (canon_digits hA), pyInt_eq_decVal (canon_digits hB),
      pyInt_eq_decVal (canon_digits hC)]

/-- the control-flow skeleton of `RpcServer._check_protocol_version` that `Model.C09.check` transliterates: missing ->
undecodable -> malformed (through `parse_version`) -> equal (major, minor) passes -> direction by tuple order -> refuse.
Any further exit (e.g. a "fast path" in front of the parse), a reordered step or a different comparison changes this list. -/
def expectedCheckSkeleton : List String := [
  "assign server_parts",
  "assign server_version",
  "assert",
  "if client_version_bytes is None => raise ProtocolVersionError",
  "try client_version = client_version_bytes.decode() | except UnicodeDecodeError => raise ProtocolVersionError",
  "try client_parts = parse_version(client_version) | except ValueError => raise ProtocolVersionError",
  "if client_parts[:2] == server_parts[:2] => return",
  "if (client_parts[0], client_parts[1]) < (server_parts[0], server_parts[1]) => assign direction | else => assign direction",
  "raise ProtocolVersionError"
]

/-- every gate call site is recognised, guards on "service declares a version", and exempts
exactly `__describe__`; the three dispatch paths are all present; the gate function itself has the
modelled skeleton. -/
theorem C09_paths :
    Gen.Semver.gateSites.map (·.name) = ["pipe", "http_unary", "http_init"] ∧
    (∀ site ∈ Gen.Semver.gateSites, site.recognised = true ∧ site.exempt = describeName) ∧
    Gen.Semver.checkSkeleton = expectedCheckSkeleton ∧
    Gen.Semver.componentUnbounded = true := by
  refine ⟨by decide, by decide, ?_, by decide⟩
  rfl

/-- **C09**: with a declared version, a call is let through iff it is introspection or the client
declared a canonical version with the same major and minor. -/
theorem C09 (site : Gen.Semver.GateSite) (hs : site ∈ Gen.Semver.gateSites)
    (srv : Nat × Nat × Nat) (m : List Char) (md : ClientMd) :
    gate site (some srv) m md = .pass ↔
      (m = describeName ∨ ∃ s a b c, md = .text s ∧ CanonVersion s a b c ∧ a = srv.1 ∧ b = srv.2.1) := by
  have hex : site.exempt = describeName := (C09_paths.2.1 site hs).2
  unfold gate
  simp only [hex]
  by_cases hm : m = describeName
  · simp [hm]
  · simp only [hm, if_false, false_or]
    cases md with
    | absent => simp [check]
    | undecodable => simp [check]
    | text s =>
      simp only [check]
      constructor
      · intro h
        split at h
        · cases h
        · rename_i a b c hp
          split at h
          · rename_i hab
            exact ⟨s, a, b, c, rfl, (parse_spec s a b c).1 hp, hab.1, hab.2⟩
          · split at h <;> cases h
      · rintro ⟨s', a, b, c, hs', hcv, rfl, rfl⟩
        cases hs'
        rw [(parse_spec s _ _ c).2 hcv]
        simp

/-- A refusal names the client text (or a placeholder) and the side to upgrade, by the stated rule. -/
theorem C09_error (site : Gen.Semver.GateSite) (srv : Nat × Nat × Nat) (m : List Char) (md : ClientMd)
    (shown : Option (List Char)) (dir : Direction)
    (h : gate site (some srv) m md = .refuse shown dir) :
    (md = .absent ∧ shown = none ∧ dir = .notDeclared) ∨
    (md = .undecodable ∧ shown = none ∧ dir = .undecodable) ∨
    (∃ s, md = .text s ∧ shown = some s ∧
      ((dir = .malformed ∧ ¬ ∃ a b c, CanonVersion s a b c) ∨
       (∃ a b c, CanonVersion s a b c ∧
          ((dir = .clientTooOld ∧ (a < srv.1 ∨ (a = srv.1 ∧ b < srv.2.1))) ∨
           (dir = .serverTooOld ∧ (a > srv.1 ∨ (a = srv.1 ∧ b > srv.2.1))))))) := by
  unfold gate at h
  simp only at h
  split at h
  · cases h
  · cases md with
    | absent => simp [check] at h; left; exact ⟨rfl, h.1.symm, h.2.symm⟩
    | undecodable => simp [check] at h; right; left; exact ⟨rfl, h.1.symm, h.2.symm⟩
    | text s =>
      right; right
      refine ⟨s, rfl, ?_⟩
      simp only [check] at h
      split at h
      · rename_i hp
        simp only [GateResult.refuse.injEq] at h
        refine ⟨h.1.symm, Or.inl ⟨h.2.symm, ?_⟩⟩
        rintro ⟨a, b, c, hcv⟩
        rw [(parse_spec s a b c).2 hcv] at hp
        cases hp
      · rename_i a b c hp
        have hcv := (parse_spec s a b c).1 hp
        split at h
        · cases h
        · rename_i hne
          split at h
          · rename_i hlt
            simp only [GateResult.refuse.injEq] at h
            exact ⟨h.1.symm, Or.inr ⟨a, b, c, hcv, Or.inl ⟨h.2.symm, hlt⟩⟩⟩
          · rename_i hnl
            simp only [GateResult.refuse.injEq] at h
            refine ⟨h.1.symm, Or.inr ⟨a, b, c, hcv, Or.inr ⟨h.2.symm, ?_⟩⟩⟩
            omega

/-- a service declaring no version never checks -/
theorem C09_nover (site : Gen.Semver.GateSite) (m : List Char) (md : ClientMd) :
    gate site none m md = .pass := rfl

/-- "identically on socket transports and HTTP": the three call sites decide every
(server version, method, client metadata) triple the same way, refusal payload included. -/
theorem C09_sites_agree (s₁ s₂ : Gen.Semver.GateSite)
    (h₁ : s₁ ∈ Gen.Semver.gateSites) (h₂ : s₂ ∈ Gen.Semver.gateSites)
    (srv : Option (Nat × Nat × Nat)) (m : List Char) (md : ClientMd) :
    gate s₁ srv m md = gate s₂ srv m md := by
  have e₁ : s₁.exempt = describeName := (C09_paths.2.1 s₁ h₁).2
  have e₂ : s₂.exempt = describeName := (C09_paths.2.1 s₂ h₂).2
  unfold gate
  rw [e₁, e₂]

/-- the decision (and the refusal it carries) never depends on the server's PATCH component -/
theorem C09_server_patch_irrelevant (site : Gen.Semver.GateSite) (a b p p' : Nat)
    (m : List Char) (md : ClientMd) :
    gate site (some (a, b, p)) m md = gate site (some (a, b, p')) m md := by
  unfold gate
  cases md <;> rfl

/-- a text is the canonical spelling of at most one version, so "the client's major and minor"
in `C09` is well defined (no text is both `a.b.c` and `a'.b'.c'`) -/
theorem C09_canon_unique (s : List Char) (a b c a' b' c' : Nat)
    (h : CanonVersion s a b c) (h' : CanonVersion s a' b' c') : a = a' ∧ b = b' ∧ c = c' := by
  have e := (parse_spec s a b c).2 h
  rw [(parse_spec s a' b' c').2 h'] at e
  simp only [Option.some.injEq, Prod.mk.injEq] at e
  exact ⟨e.1.symm, e.2.1.symm, e.2.2.symm⟩

/-- non-vacuity: a concrete canonical version, a concrete mismatch and a concrete malformed text -/
example : gate ⟨"pipe", true, describeName⟩ (some (1, 2, 0)) "add".toList (.text "1.2.9".toList) = .pass := by
  decide
example : gate ⟨"pipe", true, describeName⟩ (some (1, 2, 0)) "add".toList (.text "1.10.0".toList)
    = .refuse (some "1.10.0".toList) .serverTooOld := by decide
example : gate ⟨"pipe", true, describeName⟩ (some (1, 2, 0)) "add".toList (.text "1.2.3\n".toList)
    = .refuse (some "1.2.3\n".toList) .malformed := by decide

end VgiVerif.C09
